/-
C06 refinement, SGR: the emulator's `sgr` (transcription of widgets/term/sgr.go) against the
reference `Spec.sgr`, on the sequences `WfSgr` of the vocabulary (`sgrParams`: values 0..255, heads
other than 6 and 21).

`WfSgr` holds of every sequence made of
* any code other than 4 / 38 / 48 / 58, with or without (ignored) sub-parameters — the codes neither
  side knows are no-ops on both sides;
* `4` and `4:k` with k ≤ 5;
* `38|48|58 : 5 : n`, `: 2 : r : g : b`, `: 2 : cs : r : g : b`;
* the legacy forms `38|48|58 ; 5 ; n` and `38|48|58 ; 2 ; r ; g ; b` (followers without sub-parameters);
and it also lets a sequence END in a form on which both sides give up in the same way: a colon form
with the wrong kind (`38:k:a` k ≠ 5, `38:k:a:b:c[:d]` k ≠ 2), a bare 38|48|58 followed by fewer than two
parameters / by a kind other than 2 and 5 / by kind 2 and fewer than four parameters (`legacyStops`),
a colon form with 1, 3 or more than 5 sub-parameters as the very last parameter.
Left out because the two definitions DISAGREE (witnesses D1–D4 at the end of the file): `4:k` with
k > 5, `4:k:x…`, a colon form with 1, 3, 6.. sub-parameters followed by more parameters, legacy forms
whose followers carry sub-parameters.

Main results: `sgrLoop_refines`, `absStyle_sgr`, `sgr_pen`, `sgr_refines`; independent of `WfSgr`:
`sgrLoop_keeps` (sgr never touches the hyperlink and keeps the attribute mask below 256).
-/
import VaxisModel.Lemmas.EmuRefine
import VaxisModel.Lemmas.EmuSafe2

namespace VaxisModel.Lemmas.EmuRefine
open VaxisModel.Model.Emu VaxisModel.Model.EmuAbs VaxisModel.Lemmas.Emu VaxisModel.Spec
open VaxisModel.Gen.TermModes

/-! ### attribute bits -/

theorem hasBit_pow (a k : Nat) : hasBit a (2 ^ k) = a.testBit k := by
  unfold hasBit; rw [Nat.testBit_eq_decide_div_mod_eq]

theorem hb_bold (a : Nat) : hasBit a attrBold = a.testBit 1 := hasBit_pow a 1
theorem hb_dim (a : Nat) : hasBit a attrDim = a.testBit 2 := hasBit_pow a 2
theorem hb_italic (a : Nat) : hasBit a attrItalic = a.testBit 3 := hasBit_pow a 3
theorem hb_blink (a : Nat) : hasBit a attrBlink = a.testBit 4 := hasBit_pow a 4
theorem hb_reverse (a : Nat) : hasBit a attrReverse = a.testBit 5 := hasBit_pow a 5
theorem hb_invisible (a : Nat) : hasBit a attrInvisible = a.testBit 6 := hasBit_pow a 6
theorem hb_strike (a : Nat) : hasBit a attrStrikethrough = a.testBit 7 := hasBit_pow a 7

theorem absStyle_eq (s : EStyle) : absStyle s =
    { fg := absCol s.fg, bg := absCol s.bg, ul := absCol s.ul, ulStyle := s.ulStyle,
      bold := s.attr.testBit 1, dim := s.attr.testBit 2, italic := s.attr.testBit 3,
      blink := s.attr.testBit 4, reverse := s.attr.testBit 5, hidden := s.attr.testBit 6,
      strike := s.attr.testBit 7 } := by
  unfold absStyle
  rw [hb_bold, hb_dim, hb_italic, hb_blink, hb_reverse, hb_invisible, hb_strike]

theorem on_bold (s : EStyle) : absStyle (attrOn s attrBold) = { absStyle s with bold := true } := by
  simp +decide [absStyle_eq, attrOn, attrBold]
theorem on_dim (s : EStyle) : absStyle (attrOn s attrDim) = { absStyle s with dim := true } := by
  simp +decide [absStyle_eq, attrOn, attrDim]
theorem on_italic (s : EStyle) : absStyle (attrOn s attrItalic) = { absStyle s with italic := true } := by
  simp +decide [absStyle_eq, attrOn, attrItalic]
theorem on_blink (s : EStyle) : absStyle (attrOn s attrBlink) = { absStyle s with blink := true } := by
  simp +decide [absStyle_eq, attrOn, attrBlink]
theorem on_reverse (s : EStyle) : absStyle (attrOn s attrReverse) = { absStyle s with reverse := true } := by
  simp +decide [absStyle_eq, attrOn, attrReverse]
theorem on_invisible (s : EStyle) : absStyle (attrOn s attrInvisible) = { absStyle s with hidden := true } := by
  simp +decide [absStyle_eq, attrOn, attrInvisible]
theorem on_strike (s : EStyle) : absStyle (attrOn s attrStrikethrough) = { absStyle s with strike := true } := by
  simp +decide [absStyle_eq, attrOn, attrStrikethrough]

theorem off_bold_dim (s : EStyle) :
    absStyle (attrOff (attrOff s attrBold) attrDim) = { absStyle s with bold := false, dim := false } := by
  have h : ∀ j, j < 8 → Nat.testBit 253 j = decide (j ≠ 1) ∧ Nat.testBit 251 j = decide (j ≠ 2) := by decide
  simp +decide [absStyle_eq, attrOff, attrBold, attrDim, h]
theorem off_italic (s : EStyle) : absStyle (attrOff s attrItalic) = { absStyle s with italic := false } := by
  simp +decide [absStyle_eq, attrOff, attrItalic]
theorem off_blink (s : EStyle) : absStyle (attrOff s attrBlink) = { absStyle s with blink := false } := by
  simp +decide [absStyle_eq, attrOff, attrBlink]
theorem off_reverse (s : EStyle) : absStyle (attrOff s attrReverse) = { absStyle s with reverse := false } := by
  simp +decide [absStyle_eq, attrOff, attrReverse]
theorem off_invisible (s : EStyle) : absStyle (attrOff s attrInvisible) = { absStyle s with hidden := false } := by
  simp +decide [absStyle_eq, attrOff, attrInvisible]
theorem off_strike (s : EStyle) : absStyle (attrOff s attrStrikethrough) = { absStyle s with strike := false } := by
  simp +decide [absStyle_eq, attrOff, attrStrikethrough]

/-! ### colours -/

theorem absCol_zero : absCol 0 = .default := by decide

theorem u8_nat (n : Nat) (h : n ≤ 255) : u8 (n : Int) = n := by
  unfold u8; omega

theorem absCol_index (n : Nat) (h : n ≤ 255) : absCol (indexColor (n : Int)) = .idx n := by
  unfold indexColor indexedBit; rw [u8_nat n h]
  unfold absCol
  have h1 : (n + 2 ^ 24) / 2 ^ 24 % 2 = 1 := by omega
  have h2 : (n + 2 ^ 24) % 256 = n := by omega
  rw [if_pos h1, h2]

theorem absCol_rgb (r g b : Nat) (hr : r ≤ 255) (hg : g ≤ 255) (hb : b ≤ 255) :
    absCol (rgbColor (r : Int) (g : Int) (b : Int)) = .rgb r g b := by
  unfold rgbColor rgbBit; rw [u8_nat r hr, u8_nat g hg, u8_nat b hb]
  unfold absCol
  have h1 : ¬ ((r * 65536 + g * 256 + b + 2 ^ 25) / 2 ^ 24 % 2 = 1) := by omega
  have h2 : (r * 65536 + g * 256 + b + 2 ^ 25) / 2 ^ 25 % 2 = 1 := by omega
  have h3 : (r * 65536 + g * 256 + b + 2 ^ 25) / 65536 % 256 = r := by omega
  have h4 : (r * 65536 + g * 256 + b + 2 ^ 25) / 256 % 256 = g := by omega
  have h5 : (r * 65536 + g * 256 + b + 2 ^ 25) % 256 = b := by omega
  rw [if_neg h1, if_pos h2, h3, h4, h5]

/-! ### what sgr never touches: the hyperlink; and the attribute mask stays a byte -/

structure Keeps (s s1 : EStyle) : Prop where
  link : s1.link = s.link
  linkParams : s1.linkParams = s.linkParams
  attr : s.attr < 256 → s1.attr < 256

theorem Keeps.rfl' (s : EStyle) : Keeps s s := ⟨rfl, rfl, id⟩
theorem Keeps.trans {a b c : EStyle} (h1 : Keeps a b) (h2 : Keeps b c) : Keeps a c :=
  ⟨h2.link.trans h1.link, h2.linkParams.trans h1.linkParams, fun h => h2.attr (h1.attr h)⟩

theorem keeps_attrOn (s : EStyle) (b : Nat) (hb : b < 256) : Keeps s (attrOn s b) :=
  ⟨rfl, rfl, fun h => Nat.or_lt_two_pow (n := 8) h hb⟩
theorem keeps_attrOff (s : EStyle) (b : Nat) : Keeps s (attrOff s b) :=
  ⟨rfl, rfl, fun h => Nat.lt_of_le_of_lt Nat.and_le_left h⟩
theorem keeps_setCol (s : EStyle) (slot : ColSlot) (c : Nat) : Keeps s (setCol s slot c) := by
  cases slot <;> exact ⟨rfl, rfl, id⟩

theorem bind_ok {α β : Type} {x : M α} {f : α → M β} {r : β} (h : (x >>= f) = .ok r) :
    ∃ a, x = .ok a ∧ f a = .ok r := by
  cases x with
  | error e => simp [bind, Except.bind] at h
  | ok a => exact ⟨a, rfl, h⟩

theorem sgrExt_keeps {s s1 : EStyle} {slot : ColSlot} {p : Param} {rest : List Param} {k : Nat}
    (h : sgrExt s slot p rest = .ok (some (s1, k))) : Keeps s s1 := by
  unfold sgrExt at h
  split at h
  · split at h
    · cases h
    · split at h
      · split at h
        · split at h
          · cases h
          · split at h
            · cases h; exact keeps_setCol _ _ _
            · cases h
        · split at h
          · split at h
            · cases h; exact keeps_setCol _ _ _
            · cases h
          · cases h
      · cases h
  · obtain ⟨a, -, h⟩ := bind_ok h
    split at h
    · cases h
    · obtain ⟨v, -, h⟩ := bind_ok h
      cases h; exact keeps_setCol _ _ _
  · obtain ⟨a, -, h⟩ := bind_ok h
    split at h
    · cases h
    · obtain ⟨r, -, h⟩ := bind_ok h
      obtain ⟨g, -, h⟩ := bind_ok h
      obtain ⟨b, -, h⟩ := bind_ok h
      cases h; exact keeps_setCol _ _ _
  · obtain ⟨a, -, h⟩ := bind_ok h
    split at h
    · cases h
    · obtain ⟨r, -, h⟩ := bind_ok h
      obtain ⟨g, -, h⟩ := bind_ok h
      obtain ⟨b, -, h⟩ := bind_ok h
      cases h; exact keeps_setCol _ _ _
  · cases h; exact Keeps.rfl' _

def KeepsRes (s : EStyle) (x : M (Option (EStyle × Nat))) : Prop :=
  ∀ s1 k, x = .ok (some (s1, k)) → Keeps s s1

theorem keepsRes_ok {s s1 : EStyle} {k : Nat} (h : Keeps s s1) : KeepsRes s (.ok (some (s1, k))) := by
  intro a b hab; cases hab; exact h

theorem keepsRes_ite {s : EStyle} (c : Prop) [Decidable c] (a b : M (Option (EStyle × Nat)))
    (ha : KeepsRes s a) (hb : KeepsRes s b) : KeepsRes s (if c then a else b) := by
  split
  · exact ha
  · exact hb

theorem sgrOne_keepsRes (s : EStyle) (p : Param) (rest : List Param) : KeepsRes s (sgrOne s p rest) := by
  unfold sgrOne
  simp only
  repeat' (first | apply keepsRes_ite | split)
  all_goals first
    | exact fun _ _ h => sgrExt_keeps h
    | exact keepsRes_ok (Keeps.rfl' _)
    | exact keepsRes_ok ⟨rfl, rfl, id⟩
    | exact keepsRes_ok ⟨rfl, rfl, fun _ => Nat.zero_lt_succ _⟩
    | (intro s1 k h
       obtain ⟨a, -, h⟩ := bind_ok h
       cases h
       repeat' split
       all_goals exact ⟨rfl, rfl, id⟩)
    | exact keepsRes_ok (keeps_attrOn _ _ (by decide))
    | exact keepsRes_ok (keeps_attrOff _ _)
    | exact keepsRes_ok ((keeps_attrOff _ _).trans (keeps_attrOff _ _))

theorem sgrOne_keeps {s s1 : EStyle} {p : Param} {rest : List Param} {k : Nat}
    (h : sgrOne s p rest = .ok (some (s1, k))) : Keeps s s1 := sgrOne_keepsRes s p rest s1 k h

theorem sgrLoop_keeps : ∀ (fuel : Nat) (s : EStyle) (pm : List Param) (s' : EStyle),
    sgrLoop fuel s pm = .ok s' → Keeps s s' := by
  intro fuel
  induction fuel with
  | zero => intro s pm s' h; simp only [sgrLoop] at h; cases h; exact Keeps.rfl' _
  | succ fuel ih =>
    intro s pm s' h
    cases pm with
    | nil => simp only [sgrLoop] at h; cases h; exact Keeps.rfl' _
    | cons p rest =>
      simp only [sgrLoop] at h
      obtain ⟨r, hr, h⟩ := bind_ok h
      cases r with
      | none => cases h; exact Keeps.rfl' _
      | some r =>
        obtain ⟨s1, k⟩ := r
        exact (sgrOne_keeps hr).trans (ih _ _ _ h)

/-! ### the parameters -/

/-- The emulator's parameter for a reference parameter (value :: sub-parameters). -/
def up : List Nat → Param
  | [] => (0, [])
  | n :: sub => ((n : Int), sub.map Int.ofNat)

/-- What `sgrParams` guarantees of one parameter. -/
def VocabP : List Nat → Bool
  | [] => false
  | n :: sub => decide (n ≠ 6) && decide (n ≠ 21) && decide (n ≤ 255) && sub.all (fun v => decide (v ≤ 255))

def Vocab (ps : List (List Nat)) : Bool := ps.all VocabP

theorem map_toNat_ofNat : ∀ (l : List Int), (l.all fun v => decide (0 ≤ v) && decide (v ≤ 255)) = true →
    (l.map Int.toNat).map Int.ofNat = l ∧ ((l.map Int.toNat).all fun v => decide (v ≤ 255)) = true := by
  intro l
  induction l with
  | nil => intro _; exact ⟨rfl, rfl⟩
  | cons a l ih =>
    intro h
    simp only [List.all_cons, Bool.and_eq_true, decide_eq_true_eq] at h
    obtain ⟨⟨h0, h1⟩, h2⟩ := h
    obtain ⟨i1, i2⟩ := ih h2
    refine ⟨?_, ?_⟩
    · simp only [List.map_cons, i1]
      congr 1
      show ((a.toNat : Nat) : Int) = a
      omega
    · simp only [List.map_cons, List.all_cons, i2, Bool.and_true, decide_eq_true_eq]
      omega

theorem sgrParams_up : ∀ (pm : List Param) (ps : List (List Nat)), sgrParams pm = some ps →
    pm = ps.map up ∧ Vocab ps = true := by
  intro pm
  induction pm with
  | nil => intro ps h; simp [sgrParams] at h; subst h; exact ⟨rfl, rfl⟩
  | cons p pm ih =>
    intro ps h
    simp only [sgrParams, List.mapM_cons] at h
    have hfold : ∀ f, f = (fun (p : Param) =>
        if 0 ≤ p.1 ∧ p.1 ≠ 6 ∧ p.1 ≠ 21 ∧ p.1 ≤ 255 ∧ p.2.all (fun v => decide (0 ≤ v) && decide (v ≤ 255)) then
          some (p.1.toNat :: p.2.map Int.toNat)
        else none) → List.mapM f pm = sgrParams pm := by intro f hf; subst hf; rfl
    rw [hfold _ rfl] at h
    split at h
    · rename_i hc
      obtain ⟨c0, c6, c21, c255, call⟩ := hc
      cases hq : sgrParams pm with
      | none => simp [hq] at h
      | some qs =>
        simp [hq] at h
        subst h
        obtain ⟨h1, h2⟩ := ih qs hq
        obtain ⟨m1, m2⟩ := map_toNat_ofNat p.2 call
        refine ⟨?_, ?_⟩
        · rw [List.map_cons, ← h1]
          congr 1
          show p = (((p.1.toNat : Nat) : Int), (p.2.map Int.toNat).map Int.ofNat)
          rw [m1]
          have : ((p.1.toNat : Nat) : Int) = p.1 := by omega
          rw [this]
        · simp only [Vocab, List.all_cons, Bool.and_eq_true]
          refine ⟨?_, h2⟩
          simp only [VocabP, m2, Bool.and_true, Bool.and_eq_true, decide_eq_true_eq]
          omega
    · simp at h

/-- After a bare 38 / 48 / 58 (legacy form): the following parameters make BOTH sides give up — fewer
    than two follow, or the kind is neither 2 nor 5, or the kind is 2 and fewer than four follow. -/
def legacyStops : List (List Nat) → Bool
  | [] => true
  | [_] => true
  | [] :: _ :: _ => false
  | (k :: _) :: _ :: r => decide (k ≠ 5) && (decide (k ≠ 2) || decide (r.length < 2))

/-- The sequences on which the emulator and the reference are proved to agree. -/
def WfSgr : List (List Nat) → Bool
  | [] => true
  | [] :: _ => false
  | (p :: sub) :: rest =>
    if p = 38 ∨ p = 48 ∨ p = 58 then
      match sub with
      | [] =>
        match rest with
        | [5] :: [_] :: rest' => WfSgr rest'
        | [2] :: [_] :: [_] :: [_] :: rest' => WfSgr rest'
        | _ => legacyStops rest
      | [5, _] => WfSgr rest
      | [2, _, _, _] => WfSgr rest
      | [2, _, _, _, _] => WfSgr rest
      | [_, _] => true              -- kind ≠ 5: both stop
      | [_, _, _, _] => true        -- kind ≠ 2: both stop
      | [_, _, _, _, _] => true     -- kind ≠ 2: both stop
      | _ => rest.isEmpty           -- 1, 3, 6.. sub-parameters: the emulator goes on, the reference stops
    else if p = 4 then
      match sub with
      | [] => WfSgr rest
      | [k] => decide (k ≤ 5) && WfSgr rest
      | _ => false
    else WfSgr rest

/-! ### one parameter -/

theorem abs_fg (s : EStyle) (c : Nat) : absStyle { s with fg := c } = { absStyle s with fg := absCol c } := rfl
theorem abs_bg (s : EStyle) (c : Nat) : absStyle { s with bg := c } = { absStyle s with bg := absCol c } := rfl
theorem abs_ul (s : EStyle) (c : Nat) : absStyle { s with ul := c } = { absStyle s with ul := absCol c } := rfl
theorem abs_uls (s : EStyle) (c : Nat) : absStyle { s with ulStyle := c } = { absStyle s with ulStyle := c } := rfl
theorem abs_reset (s : EStyle) :
    absStyle { s with attr := 0, fg := 0, bg := 0, ul := 0, ulStyle := 0 } = TStyle.reset := by
  simp +decide [absStyle_eq, absCol_zero, TStyle.reset]

theorem idx_int (x : Int) (m : Nat) (hx : x = (m : Int)) (hm : m ≤ 255) :
    absCol (indexColor x) = .idx m := by
  subst hx; exact absCol_index m hm

/-- A code without look-ahead (anything but 4, 38, 48, 58; 6 and 21 are outside the vocabulary). -/
theorem step_simple (s : EStyle) (n : Nat) (sub : List Int) (rest : List Param)
    (hn : n ≤ 255) (h4 : n ≠ 4) (h6 : n ≠ 6) (h21 : n ≠ 21) (h38 : n ≠ 38) (h48 : n ≠ 48) (h58 : n ≠ 58) :
    ∃ s1, sgrOne s ((n : Int), sub) rest = .ok (some (s1, 0)) ∧
      absStyle s1 = sgrSimple (absStyle s) n := by
  have hcases : n = 0 ∨ n = 1 ∨ n = 2 ∨ n = 3 ∨ n = 5 ∨ n = 7 ∨ n = 8 ∨ n = 9 ∨ n = 22 ∨ n = 23 ∨ n = 24 ∨
      n = 25 ∨ n = 27 ∨ n = 28 ∨ n = 29 ∨ n = 39 ∨ n = 49 ∨ n = 59 ∨
      (30 ≤ n ∧ n ≤ 37) ∨ (40 ≤ n ∧ n ≤ 47) ∨ (90 ≤ n ∧ n ≤ 97) ∨ (100 ≤ n ∧ n ≤ 107) ∨
      ((10 ≤ n ∧ n ≤ 20) ∨ n = 26 ∨ (50 ≤ n ∧ n ≤ 57) ∨ (60 ≤ n ∧ n ≤ 89) ∨ n = 98 ∨ n = 99 ∨ 108 ≤ n) := by omega
  rcases hcases with h | h | h | h | h | h | h | h | h | h | h | h | h | h | h | h | h | h | h | h | h | h | h
  · subst h; exact ⟨_, rfl, abs_reset s⟩
  · subst h; exact ⟨_, rfl, on_bold s⟩
  · subst h; exact ⟨_, rfl, on_dim s⟩
  · subst h; exact ⟨_, rfl, on_italic s⟩
  · subst h; exact ⟨_, rfl, on_blink s⟩
  · subst h; exact ⟨_, rfl, on_reverse s⟩
  · subst h; exact ⟨_, rfl, on_invisible s⟩
  · subst h; exact ⟨_, rfl, on_strike s⟩
  · subst h; exact ⟨_, rfl, off_bold_dim s⟩
  · subst h; exact ⟨_, rfl, off_italic s⟩
  · subst h; exact ⟨_, rfl, rfl⟩
  · subst h; exact ⟨_, rfl, off_blink s⟩
  · subst h; exact ⟨_, rfl, off_reverse s⟩
  · subst h; exact ⟨_, rfl, off_invisible s⟩
  · subst h; exact ⟨_, rfl, off_strike s⟩
  · subst h; exact ⟨_, rfl, by rw [abs_fg, absCol_zero]; rfl⟩
  · subst h; exact ⟨_, rfl, by rw [abs_bg, absCol_zero]; rfl⟩
  · subst h; exact ⟨_, rfl, by rw [abs_ul, absCol_zero]; rfl⟩
  · refine ⟨{ s with fg := indexColor ((n : Int) - 30) }, ?_, ?_⟩
    · unfold sgrOne; simp only []
      repeat (first | rw [if_neg (by omega)] | rw [if_pos (by omega)])
    · unfold sgrSimple
      repeat (first | rw [if_neg (by omega)] | rw [if_pos (by omega)])
      rw [abs_fg, idx_int _ (n - 30) (by omega) (by omega)]
  · refine ⟨{ s with bg := indexColor ((n : Int) - 40) }, ?_, ?_⟩
    · unfold sgrOne; simp only []
      repeat (first | rw [if_neg (by omega)] | rw [if_pos (by omega)])
    · unfold sgrSimple
      repeat (first | rw [if_neg (by omega)] | rw [if_pos (by omega)])
      rw [abs_bg, idx_int _ (n - 40) (by omega) (by omega)]
  · refine ⟨{ s with fg := indexColor ((n : Int) - 90 + 8) }, ?_, ?_⟩
    · unfold sgrOne; simp only []
      repeat (first | rw [if_neg (by omega)] | rw [if_pos (by omega)])
    · unfold sgrSimple
      repeat (first | rw [if_neg (by omega)] | rw [if_pos (by omega)])
      rw [abs_fg, idx_int _ (n - 90 + 8) (by omega) (by omega)]
  · refine ⟨{ s with bg := indexColor ((n : Int) - 100 + 8) }, ?_, ?_⟩
    · unfold sgrOne; simp only []
      repeat (first | rw [if_neg (by omega)] | rw [if_pos (by omega)])
    · unfold sgrSimple
      repeat (first | rw [if_neg (by omega)] | rw [if_pos (by omega)])
      rw [abs_bg, idx_int _ (n - 100 + 8) (by omega) (by omega)]
  · refine ⟨s, ?_, ?_⟩
    · unfold sgrOne; simp only []
      repeat (first | rw [if_neg (by omega)] | rw [if_pos (by omega)])
    · unfold sgrSimple
      repeat (first | rw [if_neg (by omega)] | rw [if_pos (by omega)])

/-- the colour slot of 38 / 48 / 58 -/
def slotOf (w : Nat) : ColSlot := if w = 38 then .fg else if w = 48 then .bg else .ul

theorem abs_setCol (s : EStyle) (w : Nat) (c : Nat) :
    absStyle (setCol s (slotOf w) c) = setExt (absStyle s) w (absCol c) := by
  unfold slotOf setExt
  split
  · rfl
  · split <;> rfl

theorem sgrOne_ext (s : EStyle) (w : Nat) (hw : w = 38 ∨ w = 48 ∨ w = 58) (sub : List Int) (rest : List Param) :
    sgrOne s ((w : Int), sub) rest = sgrExt s (slotOf w) ((w : Int), sub) rest := by
  rcases hw with h | h | h <;> subst h <;> rfl

theorem step_ul1 (s : EStyle) (rest : List Param) :
    sgrOne s ((4 : Nat), []) rest = .ok (some ({ s with ulStyle := 1 }, 0)) := rfl

theorem step_ul2 (s : EStyle) (k : Nat) (hk : k ≤ 5) (rest : List Param) :
    sgrOne s ((4 : Nat), [(k : Int)]) rest = .ok (some ({ s with ulStyle := k }, 0)) := by
  have : k = 0 ∨ k = 1 ∨ k = 2 ∨ k = 3 ∨ k = 4 ∨ k = 5 := by omega
  rcases this with h | h | h | h | h | h <;> subst h <;> rfl

theorem step_colon_idx (s : EStyle) (w : Nat) (hw : w = 38 ∨ w = 48 ∨ w = 58) (n : Nat) (rest : List Param) :
    sgrOne s ((w : Int), [5, (n : Int)]) rest = .ok (some (setCol s (slotOf w) (indexColor n), 0)) := by
  rw [sgrOne_ext s w hw]; rfl

theorem step_colon_rgb (s : EStyle) (w : Nat) (hw : w = 38 ∨ w = 48 ∨ w = 58) (r g b : Nat) (rest : List Param) :
    sgrOne s ((w : Int), [2, (r : Int), (g : Int), (b : Int)]) rest =
      .ok (some (setCol s (slotOf w) (rgbColor r g b), 0)) := by
  rw [sgrOne_ext s w hw]; rfl

theorem step_colon_rgb_cs (s : EStyle) (w : Nat) (hw : w = 38 ∨ w = 48 ∨ w = 58) (cs r g b : Nat)
    (rest : List Param) :
    sgrOne s ((w : Int), [2, (cs : Int), (r : Int), (g : Int), (b : Int)]) rest =
      .ok (some (setCol s (slotOf w) (rgbColor r g b), 0)) := by
  rw [sgrOne_ext s w hw]; rfl

theorem step_legacy_idx (s : EStyle) (w : Nat) (hw : w = 38 ∨ w = 48 ∨ w = 58) (n : Int) (sa sb : List Int)
    (rest : List Param) :
    sgrOne s ((w : Int), []) ((5, sa) :: (n, sb) :: rest) =
      .ok (some (setCol s (slotOf w) (indexColor n), 2)) := by
  rw [sgrOne_ext s w hw]
  unfold sgrExt
  simp only [Param.len, List.length_nil, List.length_cons]
  rw [if_neg (by omega)]
  rfl

theorem step_legacy_rgb (s : EStyle) (w : Nat) (hw : w = 38 ∨ w = 48 ∨ w = 58) (r g b : Int)
    (sa sr sg sb : List Int) (rest : List Param) :
    sgrOne s ((w : Int), []) ((2, sa) :: (r, sr) :: (g, sg) :: (b, sb) :: rest) =
      .ok (some (setCol s (slotOf w) (rgbColor r g b), 4)) := by
  rw [sgrOne_ext s w hw]
  unfold sgrExt
  simp only [Param.len, List.length_nil, List.length_cons]
  rw [if_neg (by omega)]
  rw [if_pos trivial, if_neg (by omega)]

/-! ### the loop -/

theorem sgrLoop_cons (fuel : Nat) (s : EStyle) (p : Param) (rest : List Param) (s1 : EStyle) (k : Nat)
    (h : sgrOne s p rest = .ok (some (s1, k))) :
    sgrLoop (fuel + 1) s (p :: rest) = sgrLoop fuel s1 (rest.drop k) := by
  simp only [sgrLoop, h, bind, Except.bind]

theorem sgrLoop_nil (fuel : Nat) (s : EStyle) : sgrLoop fuel s [] = .ok s := by
  cases fuel <;> simp only [sgrLoop]

theorem spec_legacy_idx (t : TStyle) (w n : Nat) (hw : w = 38 ∨ w = 48 ∨ w = 58) :
    sgrStep (sgrStep (sgrStep (t, .none) [w]) [5]) [n] = (setExt t w (.idx n), .none) := by
  rcases hw with h | h | h <;> subst h <;> rfl

theorem spec_legacy_rgb (t : TStyle) (w r g b : Nat) (hw : w = 38 ∨ w = 48 ∨ w = 58) :
    sgrStep (sgrStep (sgrStep (sgrStep (sgrStep (t, .none) [w]) [2]) [r]) [g]) [b] =
      (setExt t w (.rgb r g b), .none) := by
  rcases hw with h | h | h <;> subst h <;> rfl

theorem spec_colon (t : TStyle) (w : Nat) (sub : List Nat) (c : Col) (hw : w = 38 ∨ w = 48 ∨ w = 58)
    (hne : sub ≠ []) (hc : extColon sub = some c) :
    sgrStep (t, .none) (w :: sub) = (setExt t w c, .none) := by
  cases sub with
  | nil => exact absurd rfl hne
  | cons a l =>
    simp only [sgrStep, if_pos hw, hc]

theorem spec_simple (t : TStyle) (p : Nat) (sub : List Nat) (h : ¬ (p = 38 ∨ p = 48 ∨ p = 58)) (h4 : p ≠ 4) :
    sgrStep (t, .none) (p :: sub) = (sgrSimple t p, .none) := by
  simp only [sgrStep, if_neg h, if_neg h4]

/-- The statement proved by induction over the sequence. -/
def LoopOk (ps : List (List Nat)) : Prop :=
  ∀ (fuel : Nat) (s : EStyle), ps.length ≤ fuel →
    ∃ s', sgrLoop fuel s (ps.map up) = .ok s' ∧
      absStyle s' = (ps.foldl sgrStep (absStyle s, .none)).1

/-- One parameter consumed on both sides. -/
theorem loop_step (q : List Nat) (rest : List (List Nat)) (ih : LoopOk rest)
    (h : ∀ s, ∃ s1, sgrOne s (up q) (rest.map up) = .ok (some (s1, 0)) ∧
      sgrStep (absStyle s, .none) q = (absStyle s1, .none)) : LoopOk (q :: rest) := by
  intro fuel s hf
  cases fuel with
  | zero => simp at hf
  | succ f =>
    obtain ⟨s1, hone, hspec⟩ := h s
    obtain ⟨s', e1, e2⟩ := ih f s1 (by simp only [List.length_cons] at hf; omega)
    refine ⟨s', ?_, ?_⟩
    · rw [List.map_cons, sgrLoop_cons f s _ _ s1 0 hone]; exact e1
    · rw [List.foldl_cons, hspec]; exact e2

/-! ### where both sides give up -/

theorem sgrLoop_stop (fuel : Nat) (s : EStyle) (p : Param) (rest : List Param)
    (h : sgrOne s p rest = .ok none) : sgrLoop (fuel + 1) s (p :: rest) = .ok s := by
  simp only [sgrLoop, h, bind, Except.bind]

theorem spec_dead (t : TStyle) : ∀ (l : List (List Nat)), l.foldl sgrStep (t, .dead) = (t, .dead) := by
  intro l
  induction l with
  | nil => rfl
  | cons q l ih => rw [List.foldl_cons]; exact ih

/-- Both sides stop at `q`. -/
theorem loop_stop (q : List Nat) (rest : List (List Nat))
    (h : ∀ s, sgrOne s (up q) (rest.map up) = .ok none ∧
      ((q :: rest).foldl sgrStep (absStyle s, .none)).1 = absStyle s) : LoopOk (q :: rest) := by
  intro fuel s hf
  cases fuel with
  | zero => simp at hf
  | succ f =>
    obtain ⟨h1, h2⟩ := h s
    exact ⟨s, by rw [List.map_cons, sgrLoop_stop f s _ _ h1], h2.symm⟩

theorem extColon_none2 (k a : Nat) (hk : k ≠ 5) : extColon [k, a] = none := by
  unfold extColon; split <;> simp_all
theorem extColon_none4 (k a b c : Nat) (hk : k ≠ 2) : extColon [k, a, b, c] = none := by
  unfold extColon; split <;> simp_all
theorem extColon_none5 (k a b c d : Nat) (hk : k ≠ 2) : extColon [k, a, b, c, d] = none := by
  unfold extColon; split <;> simp_all

theorem spec_colon_dead (t : TStyle) (w : Nat) (sub : List Nat) (hw : w = 38 ∨ w = 48 ∨ w = 58)
    (hne : sub ≠ []) (hc : extColon sub = none) (rest : List (List Nat)) :
    (((w :: sub) :: rest).foldl sgrStep (t, .none)).1 = t := by
  cases sub with
  | nil => exact absurd rfl hne
  | cons a l =>
    have : sgrStep (t, .none) (w :: a :: l) = (t, .dead) := by simp only [sgrStep, if_pos hw, hc]
    rw [List.foldl_cons, this, spec_dead]

theorem emu_colon_stop3 (s : EStyle) (w : Nat) (hw : w = 38 ∨ w = 48 ∨ w = 58) (k a : Nat) (hk : k ≠ 5)
    (rest : List Param) : sgrOne s ((w : Int), [(k : Int), (a : Int)]) rest = .ok none := by
  rw [sgrOne_ext s w hw]
  have : ((k : Int) ≠ 5) := by omega
  simp only [sgrExt, Param.len, Param.get, List.length_cons, List.length_nil, bind, Except.bind,
    List.getElem?_cons_zero, if_pos this]

theorem emu_colon_stop5 (s : EStyle) (w : Nat) (hw : w = 38 ∨ w = 48 ∨ w = 58) (k a b c : Nat) (hk : k ≠ 2)
    (rest : List Param) :
    sgrOne s ((w : Int), [(k : Int), (a : Int), (b : Int), (c : Int)]) rest = .ok none := by
  rw [sgrOne_ext s w hw]
  have : ((k : Int) ≠ 2) := by omega
  simp only [sgrExt, Param.len, Param.get, List.length_cons, List.length_nil, bind, Except.bind,
    List.getElem?_cons_zero, if_pos this]

theorem emu_colon_stop6 (s : EStyle) (w : Nat) (hw : w = 38 ∨ w = 48 ∨ w = 58) (k a b c d : Nat) (hk : k ≠ 2)
    (rest : List Param) :
    sgrOne s ((w : Int), [(k : Int), (a : Int), (b : Int), (c : Int), (d : Int)]) rest = .ok none := by
  rw [sgrOne_ext s w hw]
  have : ((k : Int) ≠ 2) := by omega
  simp only [sgrExt, Param.len, Param.get, List.length_cons, List.length_nil, bind, Except.bind,
    List.getElem?_cons_zero, if_pos this]

theorem sgrExt_other (s : EStyle) (slot : ColSlot) (w : Int) (sub : List Int) (rest : List Param)
    (h0 : sub.length ≠ 0) (h2 : sub.length ≠ 2) (h4 : sub.length ≠ 4) (h5 : sub.length ≠ 5) :
    sgrExt s slot (w, sub) rest = .ok (some (s, 0)) := by
  unfold sgrExt
  split
  all_goals first
    | rfl
    | (rename_i heq; simp only [Param.len] at heq; omega)

theorem len_facts (sub : List Nat) (h0 : sub = [] → False) (h2 : ∀ a b, sub = [a, b] → False)
    (h4 : ∀ a b c d, sub = [a, b, c, d] → False) (h5 : ∀ a b c d e, sub = [a, b, c, d, e] → False) :
    sub.length ≠ 0 ∧ sub.length ≠ 2 ∧ sub.length ≠ 4 ∧ sub.length ≠ 5 := by
  rcases sub with _ | ⟨a, _ | ⟨b, _ | ⟨c, _ | ⟨d, _ | ⟨e, _ | ⟨f, l⟩⟩⟩⟩⟩⟩
  · exact absurd rfl h0
  · simp
  · exact absurd rfl (h2 a b)
  · simp
  · exact absurd rfl (h4 a b c d)
  · exact absurd rfl (h5 a b c d e)
  · simp only [List.length_cons]; omega

theorem kind_fst (t : TStyle) (w : Nat) (q : List Nat) : (sgrStep (t, .kind w) q).1 = t := by
  simp only [sgrStep]; split <;> rfl

theorem kind_dead (t : TStyle) (w k : Nat) (sub : List Nat) (h5 : k ≠ 5) (h2 : k ≠ 2 ∨ sub ≠ []) :
    sgrStep (t, .kind w) (k :: sub) = (t, .dead) := by
  simp only [sgrStep]
  split
  · rename_i h; cases h; exact absurd rfl h5
  · rename_i h; cases h; rcases h2 with h | h <;> exact absurd rfl h
  · rfl

theorem rgb_step (t : TStyle) (w : Nat) (acc : List Nat) (hacc : acc.length < 2) (q : List Nat) :
    sgrStep (t, .rgb w acc) q = (t, .dead) ∨ ∃ v, sgrStep (t, .rgb w acc) q = (t, .rgb w (acc ++ [v])) := by
  simp only [sgrStep]
  split
  · simp at hacc
  · exact Or.inr ⟨_, rfl⟩
  · exact Or.inl rfl

theorem rgb_fold (t : TStyle) (w : Nat) : ∀ (l : List (List Nat)) (acc : List Nat), acc.length + l.length ≤ 2 →
    (l.foldl sgrStep (t, .rgb w acc)).1 = t := by
  intro l
  induction l with
  | nil => intro acc _; rfl
  | cons q l ih =>
    intro acc h
    simp only [List.length_cons] at h
    rw [List.foldl_cons]
    rcases rgb_step t w acc (by omega) q with h1 | ⟨v, h1⟩
    · rw [h1, spec_dead]
    · rw [h1]; exact ih _ (by simp only [List.length_append, List.length_cons, List.length_nil]; omega)

theorem spec_legacy_stop (t : TStyle) (w : Nat) (rest : List (List Nat)) (h : legacyStops rest = true) :
    (rest.foldl sgrStep (t, .kind w)).1 = t := by
  rcases rest with _ | ⟨q1, _ | ⟨q2, r⟩⟩
  · rfl
  · exact kind_fst t w q1
  · cases q1 with
    | nil => simp [legacyStops] at h
    | cons k sub =>
      simp only [legacyStops, Bool.and_eq_true, Bool.or_eq_true, decide_eq_true_eq] at h
      rw [List.foldl_cons]
      by_cases hk : k = 2
      · cases sub with
        | nil =>
          subst hk
          have : sgrStep (t, .kind w) [2] = (t, .rgb w []) := rfl
          rw [this]
          refine rgb_fold t w _ [] ?_
          simp only [List.length_cons, List.length_nil]
          rcases h.2 with h' | h'
          · exact absurd rfl h'
          · omega
        | cons a l => rw [kind_dead t w k _ h.1 (Or.inr (by simp)), spec_dead]
      · rw [kind_dead t w k _ h.1 (Or.inl hk), spec_dead]

theorem emu_legacy_stop (s : EStyle) (slot : ColSlot) (w : Int) (rest : List (List Nat))
    (h : legacyStops rest = true) : sgrExt s slot (w, []) (rest.map up) = .ok none := by
  rcases rest with _ | ⟨q1, _ | ⟨q2, r⟩⟩
  · rfl
  · rfl
  · cases q1 with
    | nil => simp [legacyStops] at h
    | cons k sub =>
      simp only [legacyStops, Bool.and_eq_true, Bool.or_eq_true, decide_eq_true_eq] at h
      unfold sgrExt
      simp only [Param.len, List.length_nil, List.map_cons, List.length_cons, List.length_map, up]
      rw [if_neg (by omega)]
      by_cases hk : k = 2
      · rw [if_pos (by omega), if_pos (by rcases h.2 with h' | h'; exact absurd hk h'; omega)]
      · rw [if_neg (by omega), if_neg (by omega)]

theorem sgrLoop_refines (ps : List (List Nat)) : WfSgr ps = true → Vocab ps = true → LoopOk ps := by
  fun_induction WfSgr ps
  · -- []
    intro _ _ fuel s _
    exact ⟨s, sgrLoop_nil fuel s, rfl⟩
  · intro h; cases h
  · -- legacy 38;5;n
    rename_i w hw n rest ih
    intro hwf hv
    simp only [Vocab, VocabP, List.all_cons, List.all_nil, Bool.and_true, Bool.and_eq_true,
      decide_eq_true_eq] at hv
    have ih' := ih hwf (by simp only [Vocab]; exact hv.2.2.2)
    intro fuel s hf
    simp only [List.length_cons] at hf
    obtain ⟨f, rfl⟩ : ∃ f, fuel = f + 1 := ⟨fuel - 1, by omega⟩
    obtain ⟨s', e1, e2⟩ := ih' f (setCol s (slotOf w) (indexColor (n : Int))) (by omega)
    refine ⟨s', ?_, ?_⟩
    · exact (sgrLoop_cons f s _ _ _ _ (step_legacy_idx s w hw (n : Int) [] [] (rest.map up))).trans e1
    · simp only [List.foldl_cons]
      rw [spec_legacy_idx _ w n hw, e2, abs_setCol, absCol_index n (by omega)]
  · -- legacy 38;2;r;g;b
    rename_i w hw r g b rest ih
    intro hwf hv
    simp only [Vocab, VocabP, List.all_cons, List.all_nil, Bool.and_true, Bool.and_eq_true,
      decide_eq_true_eq] at hv
    have ih' := ih hwf (by simp only [Vocab]; exact hv.2.2.2.2.2)
    intro fuel s hf
    simp only [List.length_cons] at hf
    obtain ⟨f, rfl⟩ : ∃ f, fuel = f + 1 := ⟨fuel - 1, by omega⟩
    obtain ⟨s', e1, e2⟩ := ih' f (setCol s (slotOf w) (rgbColor (r : Int) (g : Int) (b : Int))) (by omega)
    refine ⟨s', ?_, ?_⟩
    · exact (sgrLoop_cons f s _ _ _ _
        (step_legacy_rgb s w hw (r : Int) (g : Int) (b : Int) [] [] [] [] (rest.map up))).trans e1
    · simp only [List.foldl_cons]
      rw [spec_legacy_rgb _ w r g b hw, e2, abs_setCol, absCol_rgb r g b (by omega) (by omega) (by omega)]
  · -- bare 38 / 48 / 58 followed by something both sides give up on
    rename_i w rest hw _ _
    intro hs _
    refine loop_stop _ _ (fun s => ⟨?_, ?_⟩)
    · show sgrOne s ((w : Int), []) (rest.map up) = .ok none
      rw [sgrOne_ext s w hw]; exact emu_legacy_stop s _ _ rest hs
    · rw [List.foldl_cons]
      have : sgrStep (absStyle s, .none) [w] = (absStyle s, .kind w) := by
        simp only [sgrStep, if_pos hw]
      rw [this]; exact spec_legacy_stop _ w rest hs
  · -- 38:5:n
    rename_i w rest hw n ih
    intro hwf hv
    simp only [Vocab, VocabP, List.all_cons, List.all_nil, Bool.and_true, Bool.and_eq_true,
      decide_eq_true_eq] at hv
    refine loop_step _ _ (ih hwf (by simp only [Vocab]; exact hv.2)) (fun s => ?_)
    refine ⟨_, step_colon_idx s w hw n (rest.map up), ?_⟩
    rw [spec_colon _ w [5, n] (.idx n) hw (by simp) rfl, abs_setCol, absCol_index n (by omega)]
  · -- 38:2:r:g:b
    rename_i w rest hw r g b ih
    intro hwf hv
    simp only [Vocab, VocabP, List.all_cons, List.all_nil, Bool.and_true, Bool.and_eq_true,
      decide_eq_true_eq] at hv
    refine loop_step _ _ (ih hwf (by simp only [Vocab]; exact hv.2)) (fun s => ?_)
    refine ⟨_, step_colon_rgb s w hw r g b (rest.map up), ?_⟩
    rw [spec_colon _ w [2, r, g, b] (.rgb r g b) hw (by simp) rfl, abs_setCol,
      absCol_rgb r g b (by omega) (by omega) (by omega)]
  · -- 38:2:cs:r:g:b
    rename_i w rest hw cs r g b ih
    intro hwf hv
    simp only [Vocab, VocabP, List.all_cons, List.all_nil, Bool.and_true, Bool.and_eq_true,
      decide_eq_true_eq] at hv
    refine loop_step _ _ (ih hwf (by simp only [Vocab]; exact hv.2)) (fun s => ?_)
    refine ⟨_, step_colon_rgb_cs s w hw cs r g b (rest.map up), ?_⟩
    rw [spec_colon _ w [2, cs, r, g, b] (.rgb r g b) hw (by simp) rfl, abs_setCol,
      absCol_rgb r g b (by omega) (by omega) (by omega)]
  · -- 38:k:a with k ≠ 5
    rename_i w rest hw k a hk
    intro _ _
    exact loop_stop _ _ (fun s => ⟨emu_colon_stop3 s w hw k a (fun h => hk h) _,
      spec_colon_dead _ w _ hw (by simp) (extColon_none2 k a (fun h => hk h)) rest⟩)
  · -- 38:k:a:b:c with k ≠ 2
    rename_i w rest hw k a b c hk
    intro _ _
    exact loop_stop _ _ (fun s => ⟨emu_colon_stop5 s w hw k a b c (fun h => hk h) _,
      spec_colon_dead _ w _ hw (by simp) (extColon_none4 k a b c (fun h => hk h)) rest⟩)
  · -- 38:k:a:b:c:d with k ≠ 2
    rename_i w rest hw k a b c d hk
    intro _ _
    exact loop_stop _ _ (fun s => ⟨emu_colon_stop6 s w hw k a b c d (fun h => hk h) _,
      spec_colon_dead _ w _ hw (by simp) (extColon_none5 k a b c d (fun h => hk h)) rest⟩)
  · -- 1, 3, 6.. sub-parameters, last parameter of the sequence
    rename_i w sub rest hw h0 h5n h2r h2c h2 h4 h5
    intro hr _
    have hrest : rest = [] := by
      cases rest with
      | nil => rfl
      | cons a l => simp at hr
    subst hrest
    obtain ⟨l0, l2, l4, l5⟩ := len_facts sub h0 h2 h4 h5
    have hnone : extColon sub = none := by
      unfold extColon; split
      · exact absurd rfl (fun h => h5n _ h)
      · exact absurd rfl (fun h => h2r _ _ _ h)
      · exact absurd rfl (fun h => h2c _ _ _ _ h)
      · rfl
    intro fuel s hf
    cases fuel with
    | zero => simp at hf
    | succ f =>
      have hone : sgrOne s (up (w :: sub)) [] = .ok (some (s, 0)) := by
        show sgrOne s ((w : Int), sub.map Int.ofNat) [] = .ok (some (s, 0))
        rw [sgrOne_ext s w hw]
        exact sgrExt_other s _ _ _ _ (by simpa using l0) (by simpa using l2) (by simpa using l4) (by simpa using l5)
      refine ⟨s, ?_, ?_⟩
      · show sgrLoop (f + 1) s (up (w :: sub) :: []) = .ok s
        rw [sgrLoop_cons f s _ _ s 0 hone]; exact sgrLoop_nil f s
      · exact (spec_colon_dead _ w sub hw (fun h => h0 h) hnone []).symm
  · -- 4
    rename_i rest _ ih
    intro hwf hv
    simp only [Vocab, List.all_cons, Bool.and_eq_true] at hv
    refine loop_step _ _ (ih hwf hv.2) (fun s => ?_)
    exact ⟨_, step_ul1 s (rest.map up), rfl⟩
  · -- 4:k
    rename_i rest k _ ih
    intro hwf hv
    simp only [Vocab, List.all_cons, Bool.and_eq_true, decide_eq_true_eq] at hv hwf
    refine loop_step _ _ (ih hwf.2 hv.2) (fun s => ?_)
    refine ⟨_, step_ul2 s k hwf.1 (rest.map up), ?_⟩
    simp only [sgrStep, if_pos hwf.1]
    rfl
  · intro h; cases h
  · -- everything else
    rename_i p sub rest hp h4 ih
    intro hwf hv
    simp only [Vocab, VocabP, List.all_cons, Bool.and_eq_true, decide_eq_true_eq] at hv
    refine loop_step _ _ (ih hwf (by simp only [Vocab]; exact hv.2)) (fun s => ?_)
    obtain ⟨s1, h1, h2⟩ := step_simple s p (sub.map Int.ofNat) (rest.map up) (by omega) h4 (by omega) (by omega)
      (by omega) (by omega) (by omega)
    refine ⟨s1, h1, ?_⟩
    rw [spec_simple _ p sub hp h4, h2]

/-! ### the whole sequence -/

/-- `absStyle_sgr`: on a well-formed sequence in the vocabulary the emulator's loop ends normally in a
    pen whose abstraction is the reference's result. -/
theorem absStyle_sgr {pm : List Param} {ps : List (List Nat)} (s : EStyle)
    (hw : WfSgr ps = true) (hp : sgrParams pm = some ps) :
    ∃ s', sgrLoop (pm.length + 1) s pm = .ok s' ∧
      absStyle s' = (ps.foldl sgrStep (absStyle s, .none)).1 := by
  obtain ⟨h1, h2⟩ := sgrParams_up pm ps hp
  subst h1
  exact sgrLoop_refines ps hw h2 _ s (by simp)

theorem clampParam_nat (n : Nat) (h : n ≤ 255) : clampParam (n : Int) = n := by
  unfold clampParam maxParam; rw [if_neg (by omega)]

theorem clamp_map : ∀ (l : List Nat), (l.all fun v => decide (v ≤ 255)) = true →
    (l.map Int.ofNat).map clampParam = l.map Int.ofNat := by
  intro l
  induction l with
  | nil => intro _; rfl
  | cons a l ih =>
    intro h
    simp only [List.all_cons, Bool.and_eq_true, decide_eq_true_eq] at h
    simp only [List.map_cons, ih h.2]
    congr 1
    exact clampParam_nat a h.1

theorem clampParams_up : ∀ (ps : List (List Nat)), Vocab ps = true → clampParams (ps.map up) = ps.map up := by
  intro ps
  induction ps with
  | nil => intro _; rfl
  | cons q ps ih =>
    intro h
    simp only [Vocab, List.all_cons, Bool.and_eq_true] at h
    have ih' := ih (by simp only [Vocab]; exact h.2)
    unfold clampParams at ih' ⊢
    rw [List.map_cons, List.map_cons, ih']
    congr 1
    cases q with
    | nil => simp [VocabP] at h
    | cons n sub =>
      have hq := h.1
      simp only [VocabP, Bool.and_eq_true, decide_eq_true_eq] at hq
      show (clampParam (n : Int), (sub.map Int.ofNat).map clampParam) = ((n : Int), sub.map Int.ofNat)
      rw [clampParam_nat n hq.1.2, clamp_map sub hq.2]

/-- csi() clamps the parameters first: nothing changes for a sequence of the vocabulary. -/
theorem clampParams_sgrParams {pm : List Param} {ps : List (List Nat)} (hp : sgrParams pm = some ps) :
    clampParams pm = pm := by
  obtain ⟨h1, h2⟩ := sgrParams_up pm ps hp
  subst h1
  exact clampParams_up ps h2

/-- `sgr` as a function of the pen alone. -/
theorem sgr_eq (e : Emu) (pm : List Param) (s' : EStyle)
    (h : sgrLoop ((if pm.isEmpty then [((0 : Int), ([] : List Int))] else pm).length + 1) e.cur.st
      (if pm.isEmpty then [((0 : Int), ([] : List Int))] else pm) = .ok s') :
    Model.Emu.sgr e pm = .ok { e with cur := { e.cur with st := s' } } := by
  unfold Model.Emu.sgr
  simp only [h, bind, Except.bind]

/-- The pen after `sgr`, abstracted, is the reference's `Spec.sgr` of the abstracted pen; the
    hyperlink is untouched and the attribute mask stays below 256. -/
theorem sgr_pen {pm : List Param} {ps : List (List Nat)} (e : Emu)
    (hp : sgrParams pm = some ps) (hw : WfSgr ps = true) :
    ∃ s', Model.Emu.sgr e (clampParams pm) = .ok { e with cur := { e.cur with st := s' } } ∧
      absStyle s' = Spec.sgr (absStyle e.cur.st) ps ∧ Keeps e.cur.st s' := by
  rw [clampParams_sgrParams hp]
  cases pm with
  | nil =>
    simp [sgrParams] at hp
    subst hp
    refine ⟨{ e.cur.st with attr := 0, fg := 0, bg := 0, ul := 0, ulStyle := 0 }, sgr_eq e [] _ rfl, ?_,
      ⟨rfl, rfl, fun _ => Nat.zero_lt_succ _⟩⟩
    rw [abs_reset]; rfl
  | cons p pm =>
    obtain ⟨s', h1, h2⟩ := absStyle_sgr e.cur.st hw hp
    refine ⟨s', sgr_eq e (p :: pm) s' h1, ?_, sgrLoop_keeps _ _ _ _ h1⟩
    rw [h2]
    obtain ⟨h3, -⟩ := sgrParams_up _ _ hp
    cases ps with
    | nil => simp at h3
    | cons q ps => rfl

theorem sgr_refines {t : Term.T} {e : Emu} {rows cols : Nat} (s : Sim t e rows cols)
    (hattr : e.cur.st.attr < 256) (pm : List Param) (ps : List (List Nat))
    (hp : sgrParams pm = some ps) (hw : WfSgr ps = true) :
    ∃ e', Model.Emu.sgr e (clampParams pm) = .ok e' ∧ Refines (Term.step t (.sgr ps)) e' rows cols ∧
      e'.cur.st.attr < 256 ∧ ∃ s', e' = { e with cur := { e.cur with st := s' } } := by
  obtain ⟨s', h1, h2, h3⟩ := sgr_pen e hp hw
  refine ⟨_, h1, ?_, h3.attr hattr, s', rfl⟩
  show Refines (Term.one { t with pen := Spec.sgr t.pen ps }) _ rows cols
  refine refines_one ?_
  exact
  { inv := inv_pen s.inv s'
    dim := s.dim
    vm := ⟨s.vm.awm, s.vm.irm, s.vm.lnm, s.vm.ascii, s.vm.noShift⟩
    trows := s.trows, tcols := s.tcols, onAlt := s.onAlt
    row := s.row, col := s.col, pw := s.pw
    pen := by show Spec.sgr t.pen ps = absStyle s'; rw [h2, s.pen]
    link := by show t.link = s'.link; rw [h3.link]; exact s.link
    top := s.top, bottom := s.bottom
    grid := s.grid }

/-! ### what is in `WfSgr`, and the inputs left out because the two definitions DISAGREE on them -/

section tests
-- in: simple codes (also unknown ones, also with stray sub-parameters), 4:k, colon and legacy colour forms
example : WfSgr [[0], [1], [2, 9], [3], [4], [4, 3], [5], [7], [8], [9], [10], [22], [26], [39], [49], [59],
    [73], [91], [107], [200]] = true := by decide
example : WfSgr [[38, 5, 200], [48, 2, 1, 2, 3], [58, 2, 0, 1, 2, 3], [1]] = true := by decide
example : WfSgr [[38], [5], [200], [48], [2], [1], [2], [3], [1]] = true := by decide
-- in: both sides give up (truncated legacy form, unknown kind)
example : WfSgr [[1], [38], [5]] = true := by decide
example : WfSgr [[38], [2], [1], [2]] = true := by decide
example : WfSgr [[38], [7], [1], [1], [1]] = true := by decide
example : WfSgr [[38, 7, 1], [1]] = true := by decide
example : WfSgr [[38, 5]] = true := by decide
-- out
example : WfSgr [[4, 7]] = false := by decide
example : WfSgr [[4, 2, 0]] = false := by decide
example : WfSgr [[38, 5], [1]] = false := by decide
example : WfSgr [[38], [5, 9], [3]] = false := by decide
example : WfSgr [[38], [5], [3, 9]] = false := by decide
example : WfSgr [[38], [2], [3, 7], [4], [5]] = false := by decide

/-- D1: `4:k` with k > 5 — the emulator leaves the underline style alone, the reference (as kitty /
    VTE do for an unknown style) falls back to a single underline. -/
example : sgrLoop 2 { ulStyle := 3 } [(4, [7])] = .ok { ulStyle := 3 } ∧
    Spec.sgr { ulStyle := 3 } [[4, 7]] = { ulStyle := 1 } := ⟨rfl, by decide⟩
/-- D2: `4:k:x` (more than one sub-parameter) — the emulator ignores the parameter, the reference
    reads the first sub-parameter. -/
example : sgrLoop 2 { ulStyle := 3 } [(4, [2, 0])] = .ok { ulStyle := 3 } ∧
    Spec.sgr { ulStyle := 3 } [[4, 2, 0]] = { ulStyle := 2 } := ⟨rfl, by decide⟩
/-- D3: `38:5` (colon form with 1, 3 or more than 5 sub-parameters) followed by more parameters — the
    emulator skips the malformed parameter and goes on, the reference ignores the rest. -/
example : sgrLoop 3 {} [(38, [5]), (1, [])] = .ok { attr := 2 } ∧
    Spec.sgr {} [[38, 5], [1]] = {} := ⟨rfl, by decide⟩
/-- D4: legacy form whose follow-up parameters carry sub-parameters (`38;5:9;3`, `38;5;3:9`,
    `38;2;3:7;4;5`) — the emulator reads only the values and sets the colour, the reference gives up. -/
example : sgrLoop 4 {} [(38, []), (5, [9]), (3, [])] = .ok { fg := 3 + 2 ^ 24 } ∧
    Spec.sgr {} [[38], [5, 9], [3]] = {} := ⟨rfl, by decide⟩
example : sgrLoop 4 {} [(38, []), (5, []), (3, [9])] = .ok { fg := 3 + 2 ^ 24 } ∧
    Spec.sgr {} [[38], [5], [3, 9]] = {} := ⟨rfl, by decide⟩
end tests

end VaxisModel.Lemmas.EmuRefine
