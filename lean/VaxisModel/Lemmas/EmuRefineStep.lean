/-
C06 refinement, assembly: every operation of the vocabulary, dispatched through `emuStep` (the
generated tables `csiTable` / `escTable` / `c0Table` and the parameter clamp of csi()), refines the
step of the reference terminal on the token `tokOf` assigns to it, for the full simulation relation
`Sim2` (`X_step2`, `emu_refines_step`); lifted to all histories (`emu_refines_history`).
-/
import VaxisModel.Lemmas.EmuRefine2
import VaxisModel.Lemmas.EmuRefineCursor
import VaxisModel.Lemmas.EmuRefineErase
import VaxisModel.Lemmas.EmuRefineScroll
import VaxisModel.Lemmas.EmuRefinePrint
import VaxisModel.Lemmas.EmuRefineFrame
import VaxisModel.Lemmas.EmuRefineSaved

namespace VaxisModel.Lemmas.EmuRefine
open VaxisModel.Model.Emu VaxisModel.Model.EmuAbs VaxisModel.Lemmas.Emu VaxisModel.Spec
open VaxisModel.Gen.TermModes

/-! ### the four spellings of the clamped parameter -/

theorem cpE_eq_cp : cpE = cp := rfl
theorem cpS_eq_cp : cpS = cp := rfl
theorem cpP_eq_cp : cpP = cp := rfl

/-! ### 1. from `Refines` + frames to `Refines2` -/

/-- A token other than DECSC / DECRC / ?1049h / ?1049l. -/
def PlainTok (tok : Term.Tok) : Prop := tok ≠ .decsc ∧ tok ≠ .decrc ∧ tok ≠ .altOn ∧ tok ≠ .altOff ∧ tok ≠ .ris

theorem refines2_of {t : Term.T} {e e' : Emu} {rows cols : Nat} (s2 : Sim2 t e rows cols)
    (tok : Term.Tok) (h1 : tok ≠ .decsc) (h2 : tok ≠ .decrc) (h3 : tok ≠ .altOn) (h4 : tok ≠ .altOff) (h5 : tok ≠ .ris)
    (hr : Refines (Term.step t tok) e' rows cols) (fe : EFrame e e') (hl : LastColOk e' cols) :
    Refines2 (Term.step t tok) e' rows cols := by
  have hf := step_frame t tok h1 h2 h3 h4 h5
  revert hr hf
  generalize Term.step t tok = r
  intro hr hf
  cases r with
  | unconstrained => trivial
  | accept l =>
    obtain ⟨t', hm, hs⟩ := hr
    exact ⟨t', hm, sim2_of_frame s2 hs hl fe (hf l rfl t' hm)⟩

/-- The uniform conclusion of the `X_step2` lemmas, from its ingredients. -/
theorem step2_mk {t : Term.T} {e e' : Emu} {rows cols : Nat} (s2 : Sim2 t e rows cols)
    {tok : Term.Tok} (hp : PlainTok tok) {op : EOp} {k : Nat} (hs : emuStep e op = .ok (e', k))
    (hr : Refines (Term.step t tok) e' rows cols) (fe : EFrame e e') (hl : LastColOk e' cols) :
    ∃ r, emuStep e op = .ok r ∧ Refines2 (Term.step t tok) r.1 rows cols :=
  ⟨(e', k), hs, refines2_of s2 tok hp.1 hp.2.1 hp.2.2.1 hp.2.2.2.1 hp.2.2.2.2 hr fe hl⟩

/-! ### dispatch -/

theorem emuStep_csi_ok {e e' : Emu} {l : List Nat} {pm : List Param}
    (h : csi Fixes.current e l pm = .ok e') : emuStep e (.csi l pm) = .ok (e', 0) := by
  unfold emuStep emuStepF
  simp only [h, bind, Except.bind]

theorem emuStep_esc_ok {e e' : Emu} {l : List Nat}
    (h : esc Fixes.current e l = .ok e') : emuStep e (.esc l) = .ok (e', 0) := by
  unfold emuStep emuStepF
  simp only [h, bind, Except.bind]

theorem emuStep_print_ok {e e' : Emu} {g : G} {w : Nat}
    (h : print Fixes.current e g w = .ok e') : emuStep e (.print g w) = .ok (e', 0) := by
  unfold emuStep emuStepF
  simp only [h, bind, Except.bind]

/-! ### parameters -/

theorem plainParams_nil : plainParams [] = some [] := rfl

theorem plainParams_cons (p : Param) (rest : List Param) :
    plainParams (p :: rest) =
      (if p.2 = [] ∧ 0 ≤ p.1 then
        match plainParams rest with
        | some l => some (p.1.toNat :: l)
        | none => none
       else none) := by
  unfold plainParams
  rw [List.mapM_cons]
  split
  · simp only [bind, Option.bind, pure]
    cases List.mapM (fun p : Param => if p.2 = [] ∧ 0 ≤ p.1 then some p.1.toNat else none) rest <;> rfl
  · rfl

/-- A plain parameter list is the list of its values, without sub-parameters. -/
theorem plainParams_shape : ∀ (pm : List Param) (ps : List Nat), plainParams pm = some ps →
    pm = ps.map (fun (n : Nat) => ((n : Int), ([] : List Int)))
  | [], ps, h => by
    rw [plainParams_nil] at h
    cases h; rfl
  | p :: rest, ps, h => by
    rw [plainParams_cons] at h
    split at h
    · rename_i hp
      cases hr : plainParams rest with
      | none => rw [hr] at h; cases h
      | some l =>
        rw [hr] at h
        cases h
        have ih := plainParams_shape rest l hr
        obtain ⟨a, b⟩ := p
        simp only at hp
        obtain ⟨hb, ha⟩ := hp
        subst hb
        rw [List.map_cons, ← ih]
        congr 2
        omega
    · cases h

/-- At most one plain parameter: `pm` is `[]` or `[(a, [])]`. -/
theorem plain_le1 {pm : List Param} {ps : List Nat} (hp : plainParams pm = some ps) (hl : ps.length ≤ 1) :
    (ps = [] ∧ pm = []) ∨ ∃ a : Nat, ps = [a] ∧ pm = [((a : Int), [])] := by
  have h := plainParams_shape pm ps hp
  match ps, hl with
  | [], _ => exact Or.inl ⟨rfl, h⟩
  | [a], _ => exact Or.inr ⟨a, rfl, h⟩
  | _ :: _ :: _, hl => simp at hl

/-- At most two plain parameters. -/
theorem plain_le2 {pm : List Param} {ps : List Nat} (hp : plainParams pm = some ps) (hl : ps.length ≤ 2) :
    (ps = [] ∧ pm = []) ∨ (∃ a : Nat, ps = [a] ∧ pm = [((a : Int), [])]) ∨
      ∃ a b : Nat, ps = [a, b] ∧ pm = [((a : Int), []), ((b : Int), [])] := by
  have h := plainParams_shape pm ps hp
  match ps, hl with
  | [], _ => exact Or.inl ⟨rfl, h⟩
  | [a], _ => exact Or.inr (Or.inl ⟨a, rfl, h⟩)
  | [a, b], _ => exact Or.inr (Or.inr ⟨a, b, rfl, h⟩)
  | _ :: _ :: _ :: _, hl => simp at hl

theorem cp_zero : cp 0 = 0 := by decide

/-- What the `ps(params)` handlers receive after the clamp of csi(). -/
theorem ps_clamp {pm : List Param} {ps' : List Nat} (hp : plainParams pm = some ps') (hl : ps'.length ≤ 1) :
    ps (clampParams pm) = cp (nth0 ps' 0) := by
  rcases plain_le1 hp hl with ⟨rfl, rfl⟩ | ⟨a, rfl, rfl⟩
  · exact cp_zero.symm
  · rfl

theorem length_clamp {pm : List Param} {ps' : List Nat} (hp : plainParams pm = some ps') :
    (clampParams pm).length = ps'.length := by
  rw [plainParams_shape pm ps' hp]
  simp [clampParams]

/-! ### the arms of csi() / esc() / c0() the vocabulary reaches (read off the generated tables) -/

theorem csi_64 (e : Emu) (pm : List Param) :
    csi Fixes.current e [64] pm = ich Fixes.current e (ps (clampParams pm)) := rfl
theorem csi_65 (e : Emu) (pm : List Param) :
    csi Fixes.current e [65] pm = .ok (cuu e (ps (clampParams pm))) := rfl
theorem csi_66 (e : Emu) (pm : List Param) :
    csi Fixes.current e [66] pm = .ok (cud Fixes.current e (ps (clampParams pm))) := rfl
theorem csi_67 (e : Emu) (pm : List Param) :
    csi Fixes.current e [67] pm = .ok (cuf e (ps (clampParams pm))) := rfl
theorem csi_68 (e : Emu) (pm : List Param) :
    csi Fixes.current e [68] pm = .ok (cub e (ps (clampParams pm))) := rfl
theorem csi_69 (e : Emu) (pm : List Param) :
    csi Fixes.current e [69] pm = cnl Fixes.current e (ps (clampParams pm)) := rfl
theorem csi_70 (e : Emu) (pm : List Param) :
    csi Fixes.current e [70] pm = cpl Fixes.current e (ps (clampParams pm)) := rfl
theorem csi_71 (e : Emu) (pm : List Param) :
    csi Fixes.current e [71] pm = .ok (cha e (ps (clampParams pm))) := rfl
theorem csi_72 (e : Emu) (pm : List Param) :
    csi Fixes.current e [72] pm = .ok (cup Fixes.current e (clampParams pm)) := rfl
theorem csi_102 (e : Emu) (pm : List Param) :
    csi Fixes.current e [102] pm = .ok (cup Fixes.current e (clampParams pm)) := rfl
theorem csi_74 (e : Emu) (pm : List Param) :
    csi Fixes.current e [74] pm = ed e (ps (clampParams pm)) := rfl
theorem csi_75 (e : Emu) (pm : List Param) :
    csi Fixes.current e [75] pm = el Fixes.current e (ps (clampParams pm)) := rfl
theorem csi_76 (e : Emu) (pm : List Param) :
    csi Fixes.current e [76] pm = il Fixes.current e (ps (clampParams pm)) := rfl
theorem csi_77 (e : Emu) (pm : List Param) :
    csi Fixes.current e [77] pm = dl Fixes.current e (ps (clampParams pm)) := rfl
theorem csi_80 (e : Emu) (pm : List Param) :
    csi Fixes.current e [80] pm = dch e (ps (clampParams pm)) := rfl
theorem csi_83 (e : Emu) (pm : List Param) :
    csi Fixes.current e [83] pm = scrollUp e (dflt1 (ps (clampParams pm))) := rfl
theorem csi_84 (e : Emu) (pm : List Param) :
    csi Fixes.current e [84] pm = if (clampParams pm).length = 5 then .ok e else scrollDown e (dflt1 (ps (clampParams pm))) := rfl
theorem csi_88 (e : Emu) (pm : List Param) :
    csi Fixes.current e [88] pm = ech e (ps (clampParams pm)) := rfl
theorem csi_96 (e : Emu) (pm : List Param) :
    csi Fixes.current e [96] pm = .ok (hpa e (ps (clampParams pm))) := rfl
theorem csi_100 (e : Emu) (pm : List Param) :
    csi Fixes.current e [100] pm = .ok (vpa Fixes.current e (ps (clampParams pm))) := rfl
theorem csi_114 (e : Emu) (pm : List Param) :
    csi Fixes.current e [114] pm = .ok (decstbm Fixes.current e (clampParams pm)) := rfl
theorem csi_decset (e : Emu) (pm : List Param) :
    csi Fixes.current e [63, 104] pm = decset Fixes.current e (clampParams pm) := rfl
theorem csi_decrst (e : Emu) (pm : List Param) :
    csi Fixes.current e [63, 108] pm = decrst e (clampParams pm) := rfl
theorem esc_55 (e : Emu) : esc Fixes.current e [55] = .ok (decsc e) := rfl
theorem esc_56 (e : Emu) : esc Fixes.current e [56] = .ok (decrc e) := rfl
theorem esc_68 (e : Emu) : esc Fixes.current e [68] = ind e := rfl
theorem esc_69 (e : Emu) : esc Fixes.current e [69] = nel e := rfl
theorem esc_77 (e : Emu) : esc Fixes.current e [77] = ri Fixes.current e := rfl
theorem c0_13 (e : Emu) : c0 Fixes.current e 13 = .ok (cr e, 0) := rfl
theorem c0_10 (e : Emu) : c0 Fixes.current e 10 = (do .ok (← lf e, 0)) := rfl
theorem c0_11 (e : Emu) : c0 Fixes.current e 11 = (do .ok (← lf e, 0)) := rfl
theorem c0_12 (e : Emu) : c0 Fixes.current e 12 = (do .ok (← lf e, 0)) := rfl


/-! ### 2. one lemma per operation of the vocabulary -/

local macro "plain_tok" : tactic => `(tactic| exact ⟨nofun, nofun, nofun, nofun, nofun⟩)

section ops
variable {t : Term.T} {e : Emu} {rows cols : Nat}

/-! #### C0 -/

theorem cr_step2 (s2 : Sim2 t e rows cols) :
    ∃ r, emuStep e (.c0 13) = .ok r ∧ Refines2 (Term.step t .cr) r.1 rows cols :=
  step2_mk s2 (by plain_tok) (c0_13 e) (cr_refines s2.sim) (cr_frame e).1 (lastColOk_of_false (cr_frame e).2)

theorem lf_step2 (s2 : Sim2 t e rows cols) (b : Nat) (hb : b = 10 ∨ b = 11 ∨ b = 12) :
    ∃ r, emuStep e (.c0 b) = .ok r ∧ Refines2 (Term.step t .lf) r.1 rows cols := by
  obtain ⟨e', he, hr⟩ := lf_refines s2.sim
  have hs : emuStep e (.c0 b) = .ok (e', 0) := by
    show c0 Fixes.current e b = _
    rcases hb with rfl | rfl | rfl
    · rw [c0_10, he]; rfl
    · rw [c0_11, he]; rfl
    · rw [c0_12, he]; rfl
  exact step2_mk s2 (by plain_tok) hs hr (lf_frame he).1 (lastColOk_of_false (lf_frame he).2)

/-! #### ESC -/

theorem ind_step2 (s2 : Sim2 t e rows cols) :
    ∃ r, emuStep e (.esc [68]) = .ok r ∧ Refines2 (Term.step t .ind) r.1 rows cols := by
  obtain ⟨e', he, hr⟩ := ind_refines s2.sim
  exact step2_mk s2 (by plain_tok) (emuStep_esc_ok ((esc_68 e).trans he)) hr (ind_frame he).1
    (lastColOk_of_false (ind_frame he).2)

theorem nel_step2 (s2 : Sim2 t e rows cols) :
    ∃ r, emuStep e (.esc [69]) = .ok r ∧ Refines2 (Term.step t .nel) r.1 rows cols := by
  obtain ⟨e', he, hr⟩ := nel_refines s2.sim
  exact step2_mk s2 (by plain_tok) (emuStep_esc_ok ((esc_69 e).trans he)) hr (nel_frame he).1
    (lastColOk_of_false (nel_frame he).2)

theorem ri_step2 (s2 : Sim2 t e rows cols) :
    ∃ r, emuStep e (.esc [77]) = .ok r ∧ Refines2 (Term.step t .ri) r.1 rows cols := by
  obtain ⟨e', he, hr⟩ := ri_refines s2.sim
  exact step2_mk s2 (by plain_tok) (emuStep_esc_ok ((esc_77 e).trans he)) hr (ri_frame he).1
    (lastColOk_of_false (ri_frame he).2)

theorem decsc_step2 (s2 : Sim2 t e rows cols) :
    ∃ r, emuStep e (.esc [55]) = .ok r ∧ Refines2 (Term.step t .decsc) r.1 rows cols :=
  ⟨(decsc e, 0), emuStep_esc_ok (esc_55 e), decsc_refines2 s2⟩

theorem decrc_step2 (s2 : Sim2 t e rows cols) :
    ∃ r, emuStep e (.esc [56]) = .ok r ∧ Refines2 (Term.step t .decrc) r.1 rows cols :=
  ⟨(decrc e, 0), emuStep_esc_ok (esc_56 e), decrc_refines2 s2⟩

/-! #### CSI ? 1049 h / l -/

theorem clamp_1049 : clampParams [((1049 : Int), ([] : List Int))] = [(1049, [])] := by decide

theorem altOn_step2 (s2 : Sim2 t e rows cols) :
    ∃ r, emuStep e (.csi [63, 104] [(1049, [])]) = .ok r ∧ Refines2 (Term.step t .altOn) r.1 rows cols := by
  obtain ⟨e', he, hr⟩ := alton_refines2 s2
  have hc : csi Fixes.current e [63, 104] [(1049, [])] = .ok e' := by
    rw [csi_decset, clamp_1049]; exact he
  exact ⟨(e', 0), emuStep_csi_ok hc, hr⟩

theorem altOff_step2 (s2 : Sim2 t e rows cols) :
    ∃ r, emuStep e (.csi [63, 108] [(1049, [])]) = .ok r ∧ Refines2 (Term.step t .altOff) r.1 rows cols := by
  obtain ⟨e', he, hr⟩ := altoff_refines2 s2
  have hc : csi Fixes.current e [63, 108] [(1049, [])] = .ok e' := by
    rw [csi_decrst, clamp_1049]; exact he
  exact ⟨(e', 0), emuStep_csi_ok hc, hr⟩

/-! #### CSI with one numeric parameter: pure handlers -/

theorem cuu_step2 (s2 : Sim2 t e rows cols) {pm : List Param} {ps' : List Nat}
    (hp : plainParams pm = some ps') (hl : ps'.length ≤ 1) :
    ∃ r, emuStep e (.csi [65] pm) = .ok r ∧ Refines2 (Term.step t (.cuu (nth0 ps' 0))) r.1 rows cols := by
  have hc : csi Fixes.current e [65] pm = .ok (cuu e (cp (nth0 ps' 0))) := by rw [csi_65, ps_clamp hp hl]
  exact step2_mk s2 (by plain_tok) (emuStep_csi_ok hc) (cuu_refines s2.sim _) (cuu_frame e _).1
    (lastColOk_of_false (cuu_frame e _).2)

theorem cud_step2 (s2 : Sim2 t e rows cols) {pm : List Param} {ps' : List Nat}
    (hp : plainParams pm = some ps') (hl : ps'.length ≤ 1) :
    ∃ r, emuStep e (.csi [66] pm) = .ok r ∧ Refines2 (Term.step t (.cud (nth0 ps' 0))) r.1 rows cols := by
  have hc : csi Fixes.current e [66] pm = .ok (cud Fixes.current e (cp (nth0 ps' 0))) := by rw [csi_66, ps_clamp hp hl]
  exact step2_mk s2 (by plain_tok) (emuStep_csi_ok hc) (cud_refines s2.sim _) (cud_frame e _).1
    (lastColOk_of_false (cud_frame e _).2)

theorem cuf_step2 (s2 : Sim2 t e rows cols) {pm : List Param} {ps' : List Nat}
    (hp : plainParams pm = some ps') (hl : ps'.length ≤ 1) :
    ∃ r, emuStep e (.csi [67] pm) = .ok r ∧ Refines2 (Term.step t (.cuf (nth0 ps' 0))) r.1 rows cols := by
  have hc : csi Fixes.current e [67] pm = .ok (cuf e (cp (nth0 ps' 0))) := by rw [csi_67, ps_clamp hp hl]
  exact step2_mk s2 (by plain_tok) (emuStep_csi_ok hc) (cuf_refines s2.sim _) (cuf_frame e _).1
    (lastColOk_of_false (cuf_frame e _).2)

theorem cub_step2 (s2 : Sim2 t e rows cols) {pm : List Param} {ps' : List Nat}
    (hp : plainParams pm = some ps') (hl : ps'.length ≤ 1) :
    ∃ r, emuStep e (.csi [68] pm) = .ok r ∧ Refines2 (Term.step t (.cub (nth0 ps' 0))) r.1 rows cols := by
  have hc : csi Fixes.current e [68] pm = .ok (cub e (cp (nth0 ps' 0))) := by rw [csi_68, ps_clamp hp hl]
  exact step2_mk s2 (by plain_tok) (emuStep_csi_ok hc) (cub_refines s2.sim _) (cub_frame e _).1
    (lastColOk_of_false (cub_frame e _).2)

theorem cha_step2 (s2 : Sim2 t e rows cols) {pm : List Param} {ps' : List Nat}
    (hp : plainParams pm = some ps') (hl : ps'.length ≤ 1) :
    ∃ r, emuStep e (.csi [71] pm) = .ok r ∧ Refines2 (Term.step t (.cha (nth0 ps' 0))) r.1 rows cols := by
  have hc : csi Fixes.current e [71] pm = .ok (cha e (cp (nth0 ps' 0))) := by rw [csi_71, ps_clamp hp hl]
  exact step2_mk s2 (by plain_tok) (emuStep_csi_ok hc) (cha_refines s2.sim _) (cha_frame e _).1
    (lastColOk_of_false (cha_frame e _).2)

theorem hpa_step2 (s2 : Sim2 t e rows cols) {pm : List Param} {ps' : List Nat}
    (hp : plainParams pm = some ps') (hl : ps'.length ≤ 1) :
    ∃ r, emuStep e (.csi [96] pm) = .ok r ∧ Refines2 (Term.step t (.cha (nth0 ps' 0))) r.1 rows cols := by
  have hc : csi Fixes.current e [96] pm = .ok (hpa e (cp (nth0 ps' 0))) := by rw [csi_96, ps_clamp hp hl]
  exact step2_mk s2 (by plain_tok) (emuStep_csi_ok hc) (hpa_refines s2.sim _) (hpa_frame e _).1
    (lastColOk_of_false (hpa_frame e _).2)

theorem vpa_step2 (s2 : Sim2 t e rows cols) {pm : List Param} {ps' : List Nat}
    (hp : plainParams pm = some ps') (hl : ps'.length ≤ 1) :
    ∃ r, emuStep e (.csi [100] pm) = .ok r ∧ Refines2 (Term.step t (.vpa (nth0 ps' 0))) r.1 rows cols := by
  have hc : csi Fixes.current e [100] pm = .ok (vpa Fixes.current e (cp (nth0 ps' 0))) := by rw [csi_100, ps_clamp hp hl]
  exact step2_mk s2 (by plain_tok) (emuStep_csi_ok hc) (vpa_refines s2.sim _) (vpa_frame e _).1
    (lastColOk_of_false (vpa_frame e _).2)

/-! #### CSI with one numeric parameter: handlers that index the grid -/

theorem cnl_step2 (s2 : Sim2 t e rows cols) {pm : List Param} {ps' : List Nat}
    (hp : plainParams pm = some ps') (hl : ps'.length ≤ 1) :
    ∃ r, emuStep e (.csi [69] pm) = .ok r ∧ Refines2 (Term.step t (.cnl (nth0 ps' 0))) r.1 rows cols := by
  obtain ⟨e', he, hr⟩ := cnl_refines s2.sim (nth0 ps' 0)
  have hc : csi Fixes.current e [69] pm = .ok e' := by rw [csi_69, ps_clamp hp hl]; exact he
  exact step2_mk s2 (by plain_tok) (emuStep_csi_ok hc) hr (cnl_frame he).1 (lastColOk_of_false (cnl_frame he).2)

theorem cpl_step2 (s2 : Sim2 t e rows cols) {pm : List Param} {ps' : List Nat}
    (hp : plainParams pm = some ps') (hl : ps'.length ≤ 1) :
    ∃ r, emuStep e (.csi [70] pm) = .ok r ∧ Refines2 (Term.step t (.cpl (nth0 ps' 0))) r.1 rows cols := by
  obtain ⟨e', he, hr⟩ := cpl_refines s2.sim (nth0 ps' 0)
  have hc : csi Fixes.current e [70] pm = .ok e' := by rw [csi_70, ps_clamp hp hl]; exact he
  exact step2_mk s2 (by plain_tok) (emuStep_csi_ok hc) hr (cpl_frame he).1 (lastColOk_of_false (cpl_frame he).2)

theorem el_step2 (s2 : Sim2 t e rows cols) {pm : List Param} {ps' : List Nat}
    (hp : plainParams pm = some ps') (hl : ps'.length ≤ 1) :
    ∃ r, emuStep e (.csi [75] pm) = .ok r ∧ Refines2 (Term.step t (.el (nth0 ps' 0))) r.1 rows cols := by
  obtain ⟨e', he, hr⟩ := el_refines s2.sim (nth0 ps' 0)
  have hc : csi Fixes.current e [75] pm = .ok e' := by rw [csi_75, ps_clamp hp hl]; exact he
  exact step2_mk s2 (by plain_tok) (emuStep_csi_ok hc) hr (el_frame he).1 (lastColOk_of_false (el_frame he).2)

theorem ed_step2 (s2 : Sim2 t e rows cols) {pm : List Param} {ps' : List Nat}
    (hp : plainParams pm = some ps') (hl : ps'.length ≤ 1) :
    ∃ r, emuStep e (.csi [74] pm) = .ok r ∧ Refines2 (Term.step t (.ed (nth0 ps' 0))) r.1 rows cols := by
  obtain ⟨e', he, hr⟩ := ed_refines s2.sim (nth0 ps' 0)
  have hc : csi Fixes.current e [74] pm = .ok e' := by rw [csi_74, ps_clamp hp hl]; exact he
  exact step2_mk s2 (by plain_tok) (emuStep_csi_ok hc) hr (ed_frame he).1 (ed_lastColOk he s2.lc)

theorem ech_step2 (s2 : Sim2 t e rows cols) {pm : List Param} {ps' : List Nat}
    (hp : plainParams pm = some ps') (hl : ps'.length ≤ 1) :
    ∃ r, emuStep e (.csi [88] pm) = .ok r ∧ Refines2 (Term.step t (.ech (nth0 ps' 0))) r.1 rows cols := by
  obtain ⟨e', he, hr⟩ := ech_refines s2.sim (nth0 ps' 0)
  have hc : csi Fixes.current e [88] pm = .ok e' := by rw [csi_88, ps_clamp hp hl]; exact he
  exact step2_mk s2 (by plain_tok) (emuStep_csi_ok hc) hr (ech_frame he).1 (lastColOk_of_false (ech_frame he).2)

theorem ich_step2 (s2 : Sim2 t e rows cols) {pm : List Param} {ps' : List Nat}
    (hp : plainParams pm = some ps') (hl : ps'.length ≤ 1) :
    ∃ r, emuStep e (.csi [64] pm) = .ok r ∧ Refines2 (Term.step t (.ich (nth0 ps' 0))) r.1 rows cols := by
  obtain ⟨e', he, hr⟩ := ich_refines s2.sim (nth0 ps' 0)
  have hc : csi Fixes.current e [64] pm = .ok e' := by rw [csi_64, ps_clamp hp hl]; exact he
  exact step2_mk s2 (by plain_tok) (emuStep_csi_ok hc) hr (ich_frame he).1 (ich_lastColOk he s2.lc)

theorem dch_step2 (s2 : Sim2 t e rows cols) {pm : List Param} {ps' : List Nat}
    (hp : plainParams pm = some ps') (hl : ps'.length ≤ 1) :
    ∃ r, emuStep e (.csi [80] pm) = .ok r ∧ Refines2 (Term.step t (.dch (nth0 ps' 0))) r.1 rows cols := by
  obtain ⟨e', he, hr⟩ := dch_refines s2.sim (nth0 ps' 0)
  have hc : csi Fixes.current e [80] pm = .ok e' := by rw [csi_80, ps_clamp hp hl]; exact he
  exact step2_mk s2 (by plain_tok) (emuStep_csi_ok hc) hr (dch_frame he).1 (lastColOk_of_false (dch_frame he).2)

theorem il_step2 (s2 : Sim2 t e rows cols) {pm : List Param} {ps' : List Nat}
    (hp : plainParams pm = some ps') (hl : ps'.length ≤ 1) :
    ∃ r, emuStep e (.csi [76] pm) = .ok r ∧ Refines2 (Term.step t (.il (nth0 ps' 0))) r.1 rows cols := by
  obtain ⟨e', he, hr⟩ := il_refines s2.sim (nth0 ps' 0)
  have hc : csi Fixes.current e [76] pm = .ok e' := by rw [csi_76, ps_clamp hp hl]; exact he
  exact step2_mk s2 (by plain_tok) (emuStep_csi_ok hc) hr (il_frame he).1 (lastColOk_of_false (il_frame he).2)

theorem dl_step2 (s2 : Sim2 t e rows cols) {pm : List Param} {ps' : List Nat}
    (hp : plainParams pm = some ps') (hl : ps'.length ≤ 1) :
    ∃ r, emuStep e (.csi [77] pm) = .ok r ∧ Refines2 (Term.step t (.dl (nth0 ps' 0))) r.1 rows cols := by
  obtain ⟨e', he, hr⟩ := dl_refines s2.sim (nth0 ps' 0)
  have hc : csi Fixes.current e [77] pm = .ok e' := by rw [csi_77, ps_clamp hp hl]; exact he
  exact step2_mk s2 (by plain_tok) (emuStep_csi_ok hc) hr (dl_frame he).1 (lastColOk_of_false (dl_frame he).2)

theorem su_step2 (s2 : Sim2 t e rows cols) {pm : List Param} {ps' : List Nat}
    (hp : plainParams pm = some ps') (hl : ps'.length ≤ 1) :
    ∃ r, emuStep e (.csi [83] pm) = .ok r ∧ Refines2 (Term.step t (.su (nth0 ps' 0))) r.1 rows cols := by
  obtain ⟨e', he, hr⟩ := su_refines s2.sim (nth0 ps' 0)
  have hc : csi Fixes.current e [83] pm = .ok e' := by rw [csi_83, ps_clamp hp hl]; exact he
  exact step2_mk s2 (by plain_tok) (emuStep_csi_ok hc) hr (scrollUp_frame he).1 (scrollUp_lastColOk he s2.lc)

theorem sd_step2 (s2 : Sim2 t e rows cols) {pm : List Param} {ps' : List Nat}
    (hp : plainParams pm = some ps') (hl : ps'.length ≤ 1) :
    ∃ r, emuStep e (.csi [84] pm) = .ok r ∧ Refines2 (Term.step t (.sd (nth0 ps' 0))) r.1 rows cols := by
  obtain ⟨e', he, hr⟩ := sd_refines s2.sim (nth0 ps' 0)
  have hc : csi Fixes.current e [84] pm = .ok e' := by
    rw [csi_84, ps_clamp hp hl, if_neg (by rw [length_clamp hp]; omega)]; exact he
  exact step2_mk s2 (by plain_tok) (emuStep_csi_ok hc) hr (scrollDown_frame he).1 (scrollDown_lastColOk he s2.lc)

/-! #### CSI with up to two parameters: CUP / HVP, DECSTBM -/

theorem cup_step2 (s2 : Sim2 t e rows cols) {f : Nat} (hf : f = 72 ∨ f = 102) {pm : List Param} {ps' : List Nat}
    (hp : plainParams pm = some ps') (hl : ps'.length ≤ 2) :
    ∃ r, emuStep e (.csi [f] pm) = .ok r ∧
      Refines2 (Term.step t (.cup (nth0 ps' 0) (nth0 ps' 1))) r.1 rows cols := by
  have hc : csi Fixes.current e [f] pm = .ok (cup Fixes.current e (clampParams pm)) := by
    rcases hf with rfl | rfl
    · exact csi_72 e pm
    · exact csi_102 e pm
  have hr : Refines (Term.step t (.cup (nth0 ps' 0) (nth0 ps' 1))) (cup Fixes.current e (clampParams pm)) rows cols := by
    rcases plain_le2 hp hl with ⟨rfl, rfl⟩ | ⟨a, rfl, rfl⟩ | ⟨a, b, rfl, rfl⟩
    · exact cup_refines0 s2.sim
    · exact cup_refines1 s2.sim a
    · exact cup_refines2 s2.sim a b
  exact step2_mk s2 (by plain_tok) (emuStep_csi_ok hc) hr (cup_frame e _).1 (lastColOk_of_false (cup_frame e _).2)

theorem decstbm_step2 (s2 : Sim2 t e rows cols) {pm : List Param} {ps' : List Nat}
    (hp : plainParams pm = some ps') (hl : ps'.length ≤ 2) :
    ∃ r, emuStep e (.csi [114] pm) = .ok r ∧
      Refines2 (Term.step t (.decstbm (nth0 ps' 0) (nth0 ps' 1))) r.1 rows cols := by
  have hr : Refines (Term.step t (.decstbm (nth0 ps' 0) (nth0 ps' 1))) (decstbm Fixes.current e (clampParams pm)) rows cols := by
    rcases plain_le2 hp hl with ⟨rfl, rfl⟩ | ⟨a, rfl, rfl⟩ | ⟨a, b, rfl, rfl⟩
    · exact decstbm_refines0 s2.sim
    · exact decstbm_refines1 s2.sim a
    · exact decstbm_refines2 s2.sim a b
  exact step2_mk s2 (by plain_tok) (emuStep_csi_ok (csi_114 e pm)) hr (decstbm_frame e _ cols).1
    ((decstbm_frame e _ cols).2 s2.lc)

/-! #### print -/

theorem print_step2 (s2 : Sim2 t e rows cols) (g : G) (w : Nat) (hg : g ≠ []) :
    ∃ r, emuStep e (.print g w) = .ok r ∧ Refines2 (Term.step t (.print g w)) r.1 rows cols := by
  obtain ⟨e', he, hr, hlc⟩ :=
    print_refines s2.sim s2.lc (nelHyp_of_ind (fun _ _ s => ind_sim s)) g hg w
  by_cases hw : w = 1 ∨ (w = 2 ∧ 2 ≤ cols)
  · exact step2_mk s2 (by plain_tok) (emuStep_print_ok he) hr (print_frame he) (hlc hw)
  · refine ⟨(e', 0), emuStep_print_ok he, ?_⟩
    have hu : Term.step t (.print g w) = .unconstrained := by
      have := s2.sim.tcols
      simp only [Term.step]
      split
      · omega
      · split
        · split
          · omega
          · rfl
        · rfl
    rw [hu]; trivial

end ops

/-- One level of the if-chain of `tokOf` (`split` runs out of steps on the whole chain). -/
theorem ite_some_cases {α : Type} {c : Prop} [Decidable c] {a b : Option α} {x : α}
    (h : (if c then a else b) = some x) : (c ∧ a = some x) ∨ (¬ c ∧ b = some x) := by
  split at h
  · exact Or.inl ⟨‹c›, h⟩
  · exact Or.inr ⟨‹¬ c›, h⟩

/-! ### 3. every operation of the vocabulary -/

/-- One step: an operation of the vocabulary (other than SGR, which is refined separately) runs
    without panic from every `Sim2` state, and the reference accepts the result. -/
theorem emu_refines_step {t : Term.T} {e : Emu} {rows cols : Nat} (op : EOp) (tok : Term.Tok)
    (h : tokOf op = some tok) (hsgr : ∀ pm, tok ≠ .sgr pm) (hpr : ∀ g w, op = .print g w → g ≠ [])
    (s2 : Sim2 t e rows cols) :
    ∃ r, emuStep e op = .ok r ∧ Refines2 (Term.step t tok) r.1 rows cols := by
  unfold tokOf at h
  split at h
  · cases h; exact print_step2 s2 _ _ (hpr _ _ rfl)
  · cases h; exact cr_step2 s2
  · cases h; exact lf_step2 s2 10 (Or.inl rfl)
  · cases h; exact lf_step2 s2 11 (Or.inr (Or.inl rfl))
  · cases h; exact lf_step2 s2 12 (Or.inr (Or.inr rfl))
  · cases h; exact ind_step2 s2
  · cases h; exact nel_step2 s2
  · cases h; exact ri_step2 s2
  · cases h; exact decsc_step2 s2
  · cases h; exact decrc_step2 s2
  · rename_i pm
    cases hs : sgrParams pm with
    | none => rw [hs] at h; cases h
    | some l => rw [hs] at h; cases h; exact absurd rfl (hsgr l)
  · cases h; exact altOn_step2 s2
  · cases h; exact altOff_step2 s2
  · rename_i f pm _
    cases hp : plainParams pm with
    | none => rw [hp] at h; cases h
    | some ps' =>
      rw [hp] at h
      replace h : (if ps'.length > 2 then none
        else if f = 72 ∨ f = 102 then some (Term.Tok.cup (nth0 ps' 0) (nth0 ps' 1))
        else if f = 114 then some (Term.Tok.decstbm (nth0 ps' 0) (nth0 ps' 1))
        else if ps'.length > 1 then none
        else if f = 71 ∨ f = 96 then some (Term.Tok.cha (nth0 ps' 0))
        else if f = 100 then some (.vpa (nth0 ps' 0))
        else if f = 65 then some (.cuu (nth0 ps' 0))
        else if f = 66 then some (.cud (nth0 ps' 0))
        else if f = 67 then some (.cuf (nth0 ps' 0))
        else if f = 68 then some (.cub (nth0 ps' 0))
        else if f = 69 then some (.cnl (nth0 ps' 0))
        else if f = 70 then some (.cpl (nth0 ps' 0))
        else if f = 75 then some (.el (nth0 ps' 0))
        else if f = 74 then some (.ed (nth0 ps' 0))
        else if f = 88 then some (.ech (nth0 ps' 0))
        else if f = 64 then some (.ich (nth0 ps' 0))
        else if f = 80 then some (.dch (nth0 ps' 0))
        else if f = 76 then some (.il (nth0 ps' 0))
        else if f = 77 then some (.dl (nth0 ps' 0))
        else if f = 83 then some (.su (nth0 ps' 0))
        else if f = 84 then some (.sd (nth0 ps' 0)) else none) = some tok := h
      rcases ite_some_cases h with ⟨_, h⟩ | ⟨hl2, h⟩
      · cases h
      have hl2 : ps'.length ≤ 2 := by omega
      rcases ite_some_cases h with ⟨hf, h⟩ | ⟨_, h⟩
      · cases h; exact cup_step2 s2 hf hp hl2
      rcases ite_some_cases h with ⟨hf, h⟩ | ⟨_, h⟩
      · cases h; subst hf; exact decstbm_step2 s2 hp hl2
      rcases ite_some_cases h with ⟨_, h⟩ | ⟨hl1, h⟩
      · cases h
      have hl1 : ps'.length ≤ 1 := by omega
      rcases ite_some_cases h with ⟨hf, h⟩ | ⟨_, h⟩
      · cases h
        rcases hf with rfl | rfl
        · exact cha_step2 s2 hp hl1
        · exact hpa_step2 s2 hp hl1
      rcases ite_some_cases h with ⟨hf, h⟩ | ⟨_, h⟩
      · cases h; subst hf; exact vpa_step2 s2 hp hl1
      rcases ite_some_cases h with ⟨hf, h⟩ | ⟨_, h⟩
      · cases h; subst hf; exact cuu_step2 s2 hp hl1
      rcases ite_some_cases h with ⟨hf, h⟩ | ⟨_, h⟩
      · cases h; subst hf; exact cud_step2 s2 hp hl1
      rcases ite_some_cases h with ⟨hf, h⟩ | ⟨_, h⟩
      · cases h; subst hf; exact cuf_step2 s2 hp hl1
      rcases ite_some_cases h with ⟨hf, h⟩ | ⟨_, h⟩
      · cases h; subst hf; exact cub_step2 s2 hp hl1
      rcases ite_some_cases h with ⟨hf, h⟩ | ⟨_, h⟩
      · cases h; subst hf; exact cnl_step2 s2 hp hl1
      rcases ite_some_cases h with ⟨hf, h⟩ | ⟨_, h⟩
      · cases h; subst hf; exact cpl_step2 s2 hp hl1
      rcases ite_some_cases h with ⟨hf, h⟩ | ⟨_, h⟩
      · cases h; subst hf; exact el_step2 s2 hp hl1
      rcases ite_some_cases h with ⟨hf, h⟩ | ⟨_, h⟩
      · cases h; subst hf; exact ed_step2 s2 hp hl1
      rcases ite_some_cases h with ⟨hf, h⟩ | ⟨_, h⟩
      · cases h; subst hf; exact ech_step2 s2 hp hl1
      rcases ite_some_cases h with ⟨hf, h⟩ | ⟨_, h⟩
      · cases h; subst hf; exact ich_step2 s2 hp hl1
      rcases ite_some_cases h with ⟨hf, h⟩ | ⟨_, h⟩
      · cases h; subst hf; exact dch_step2 s2 hp hl1
      rcases ite_some_cases h with ⟨hf, h⟩ | ⟨_, h⟩
      · cases h; subst hf; exact il_step2 s2 hp hl1
      rcases ite_some_cases h with ⟨hf, h⟩ | ⟨_, h⟩
      · cases h; subst hf; exact dl_step2 s2 hp hl1
      rcases ite_some_cases h with ⟨hf, h⟩ | ⟨_, h⟩
      · cases h; subst hf; exact su_step2 s2 hp hl1
      rcases ite_some_cases h with ⟨hf, h⟩ | ⟨_, h⟩
      · cases h; subst hf; exact sd_step2 s2 hp hl1
      cases h
  · cases h

/-! ### 4. all histories -/

/-- `op` is an operation of the C06 vocabulary (SGR is refined separately) and `tok` is its token. -/
def VocabOp (op : EOp) (tok : Term.Tok) : Prop :=
  tokOf op = some tok ∧ (∀ pm, tok ≠ .sgr pm) ∧ (∀ g w, op = .print g w → g ≠ [])

/-- `ops` is a history over the vocabulary and `toks` the corresponding tokens (pointwise `VocabOp`). -/
inductive VocabHist : List EOp → List Term.Tok → Prop
  | nil : VocabHist [] []
  | cons {op : EOp} {tok : Term.Tok} {ops : List EOp} {toks : List Term.Tok}
      (h : VocabOp op tok) (rest : VocabHist ops toks) : VocabHist (op :: ops) (tok :: toks)

/-- The reference, fed `toks` one by one from `t` and choosing some accepted member at every step,
    either reaches a step it leaves unconstrained (from there on the property says nothing), or it
    ends in a state that simulates (`Sim2`) the emulator state `e'`. -/
inductive SpecAllows : Term.T → List Term.Tok → Emu → Nat → Nat → Prop
  | done {t : Term.T} {e' : Emu} {rows cols : Nat} (h : Sim2 t e' rows cols) : SpecAllows t [] e' rows cols
  | unconstrained {t : Term.T} {tok : Term.Tok} {toks : List Term.Tok} {e' : Emu} {rows cols : Nat}
      (h : Term.step t tok = .unconstrained) : SpecAllows t (tok :: toks) e' rows cols
  | step {t t' : Term.T} {tok : Term.Tok} {toks : List Term.Tok} {l : List Term.T} {e' : Emu} {rows cols : Nat}
      (h : Term.step t tok = .accept l) (hm : t' ∈ l) (hrest : SpecAllows t' toks e' rows cols) :
      SpecAllows t (tok :: toks) e' rows cols

/-- Panic-freedom of one operation on a fixed-size terminal: the statement of `Props.C05.emu_safe`
    (taken as a hypothesis here so that this module does not depend on `Props/`; discharge it with
    `fun e rows cols op h d hop => Props.C05.emu_safe h d op hop`). It is only used to run the
    emulator on past a step the reference leaves unconstrained. -/
def StepSafe : Prop :=
  ∀ (e : Emu) (rows cols : Nat) (op : EOp), EmuInv e rows cols → Dim rows cols →
    (∀ w h, op ≠ .resize w h) → ∃ r, emuStep e op = .ok r ∧ EmuInv r.1 rows cols

theorem vocab_not_resize {op : EOp} {tok : Term.Tok} (h : tokOf op = some tok) :
    ∀ w hh, op ≠ .resize w hh := by
  intro w hh hc
  subst hc
  simp [tokOf] at h

theorem runOps_cons {e e' : Emu} {op : EOp} {rest : List EOp} {r : Emu × Nat}
    (hr : emuStep e op = .ok r) (he : runOps r.1 rest = .ok e') : runOps e (op :: rest) = .ok e' := by
  obtain ⟨e1, k⟩ := r
  simp only [runOps, hr, bind, Except.bind]
  exact he

theorem run_safe (hs : StepSafe) {rows cols : Nat} (d : Dim rows cols) {ops : List EOp} {toks : List Term.Tok}
    (hv : VocabHist ops toks) : ∀ {e : Emu}, EmuInv e rows cols → ∃ e', runOps e ops = .ok e' := by
  induction hv with
  | nil => intro e _; exact ⟨e, rfl⟩
  | cons hop _ ih =>
    intro e hi
    obtain ⟨r, hr, hi'⟩ := hs e rows cols _ hi d (vocab_not_resize hop.1)
    obtain ⟨e', he'⟩ := ih hi'
    exact ⟨e', runOps_cons hr he'⟩

/-- All histories over the vocabulary: from a `Sim2` pair the emulator runs to completion (no panic,
    no hang) and the reference allows what it shows at the end. -/
theorem emu_refines_history (hs : StepSafe) {rows cols : Nat} {ops : List EOp} {toks : List Term.Tok}
    (hv : VocabHist ops toks) :
    ∀ {t : Term.T} {e : Emu}, Sim2 t e rows cols →
      ∃ e', runOps e ops = .ok e' ∧ SpecAllows t toks e' rows cols := by
  induction hv with
  | nil => intro t e s2; exact ⟨e, rfl, .done s2⟩
  | @cons op tok ops toks hop hrest ih =>
    intro t e s2
    obtain ⟨r, hr, h2⟩ := emu_refines_step op tok hop.1 hop.2.1 hop.2.2 s2
    cases hstep : Term.step t tok with
    | unconstrained =>
      obtain ⟨r', hr', hi'⟩ := hs e rows cols op s2.sim.inv s2.sim.dim (vocab_not_resize hop.1)
      have : r' = r := by rw [hr] at hr'; cases hr'; rfl
      subst this
      obtain ⟨e', he'⟩ := run_safe hs s2.sim.dim hrest hi'
      exact ⟨e', runOps_cons hr he', .unconstrained hstep⟩
    | accept l =>
      rw [hstep] at h2
      obtain ⟨t', hm, s2'⟩ := h2
      obtain ⟨e', he', hsa⟩ := ih s2'
      exact ⟨e', runOps_cons hr he', .step hstep hm hsa⟩

/-- The same without the safety hypothesis, up to and including the first step the reference leaves
    unconstrained: every operation up to there runs without panic and is accepted. -/
def HistOk (rows cols : Nat) : Term.T → Emu → List EOp → List Term.Tok → Prop
  | t, e, [], [] => Sim2 t e rows cols
  | t, e, op :: ops, tok :: toks =>
    ∃ r, emuStep e op = .ok r ∧
      (Term.step t tok = .unconstrained ∨
        ∃ l t', Term.step t tok = .accept l ∧ t' ∈ l ∧ HistOk rows cols t' r.1 ops toks)
  | _, _, _, _ => False

theorem emu_refines_prefix {rows cols : Nat} {ops : List EOp} {toks : List Term.Tok}
    (hv : VocabHist ops toks) :
    ∀ {t : Term.T} {e : Emu}, Sim2 t e rows cols → HistOk rows cols t e ops toks := by
  induction hv with
  | nil => intro t e s2; exact s2
  | @cons op tok ops toks hop hrest ih =>
    intro t e s2
    obtain ⟨r, hr, h2⟩ := emu_refines_step op tok hop.1 hop.2.1 hop.2.2 s2
    refine ⟨r, hr, ?_⟩
    cases hstep : Term.step t tok with
    | unconstrained => exact Or.inl rfl
    | accept l =>
      rw [hstep] at h2
      obtain ⟨t', hm, s2'⟩ := h2
      exact Or.inr ⟨l, t', rfl, hm, ih s2'⟩

/-! ### 5. the initial state -/

/-- resize()'s clamp of a saved cursor (F19). -/
def newSaved (w h : Int) (s : Saved) : Saved :=
  { s with cur := { s.cur with row := if s.cur.row > h - 1 then h - 1 else s.cur.row,
                               col := if s.cur.col > w - 1 then w - 1 else s.cur.col } }

/-- The state after `New()` + `resize(w, h)`: nothing to reflow. -/
def newState (w h : Int) : Emu :=
  { Emu.init with alt := blankGrid w.toNat h.toNat, primary := blankGrid w.toNat h.toNat,
                  savedP := newSaved w h Emu.init.savedP, savedA := newSaved w h Emu.init.savedA,
                  bottom := h - 1, right := w - 1, top := 0,
                  cur := { Emu.init.cur with row := 0, col := 0 }, lastCol := false, altActive := false }

theorem new_eq (w h : Int) (hw : 0 ≤ w) (hh : 0 ≤ h) : Emu.new Fixes.current w h = .ok (newState w h) := by
  unfold Emu.new resize
  rw [if_neg (by omega)]
  rfl

theorem rowAccepts_replicate (n : Nat) (c c' : Term.TCell) (h : c.accepts c' = true) :
    Term.rowAccepts (List.replicate n c) (List.replicate n c') = true := by
  simp [Term.rowAccepts, h]

theorem gridAccepts_replicate (n : Nat) (r r' : Term.TRow) (h : Term.rowAccepts r r' = true) :
    Term.gridAccepts (List.replicate n r) (List.replicate n r') = true := by
  simp [Term.gridAccepts, h]

theorem absStyle_default : absStyle ({} : EStyle) = {} := by decide

theorem absCell_default : absCell ({} : ECell) = .blank .default := by decide

theorem blankGrid_accepts (rows cols : Nat) :
    Term.gridAccepts (Term.blankGrid rows cols) ((blankGrid cols rows).map absRow) = true := by
  unfold Term.blankGrid blankGrid absRow
  rw [List.map_replicate, List.map_replicate, absCell_default]
  exact gridAccepts_replicate _ _ _ (rowAccepts_replicate _ _ _ rfl)

theorem savedRel_new (w h : Int) (hw : 1 ≤ w) (hh : 1 ≤ h) (cols : Nat) :
    SavedRel none (newSaved w h {}) cols := by
  refine ⟨rfl, rfl, ?_, ?_, absStyle_default, rfl⟩
  · show (if (0 : Int) > h - 1 then h - 1 else 0) = 0
    split <;> omega
  · show (if (0 : Int) > w - 1 then w - 1 else 0) = 0
    split <;> omega

/-- A freshly started terminal of any admissible size and the reference's power-on state. -/
theorem sim2_init (w h : Int) (hw1 : 1 ≤ w) (hw2 : w ≤ 65535) (hh1 : 1 ≤ h) (hh2 : h ≤ 65535)
    {e0 : Emu} (he : Emu.new Fixes.current w h = .ok e0) :
    Sim2 (Term.T.init h.toNat w.toNat) e0 h.toNat w.toNat := by
  obtain ⟨e', he', hi⟩ := new_safe w h hw1 hw2 hh1 hh2
  have h0 : e0 = newState w h := by
    rw [new_eq w h (by omega) (by omega)] at he; cases he; rfl
  have h1 : e' = newState w h := by
    rw [new_eq w h (by omega) (by omega)] at he'; cases he'; rfl
  subst h0
  subst h1
  have hs : Sim (Term.T.init h.toNat w.toNat) (newState w h) h.toNat w.toNat :=
    { inv := hi
      dim := ⟨by omega, by omega, by omega, by omega⟩
      vm := ⟨rfl, rfl, rfl, rfl, rfl⟩
      trows := rfl, tcols := rfl, onAlt := rfl
      row := rfl
      col := by
        show ((0 : Nat) : Int) = if (0 : Int) ≥ (w.toNat : Int) then (w.toNat : Int) - 1 else 0
        split <;> omega
      pw := by
        show false = decide ((0 : Int) ≥ (w.toNat : Int))
        symm; rw [decide_eq_false_iff_not]; omega
      pen := absStyle_default.symm
      link := rfl
      top := rfl
      bottom := by
        show ((h.toNat - 1 : Nat) : Int) = h - 1
        omega
      grid := blankGrid_accepts h.toNat w.toNat }
  exact
    { sim := hs
      lc := lastColOk_of_false rfl
      savedP := savedRel_new w h hw1 hh1 _
      savedA := savedRel_new w h hw1 hh1 _
      smcup := rfl
      prim := by intro ha; cases ha }

/-- Non-vacuity: a fresh 80×24 terminal and the reference's power-on state are a `Sim2` pair. -/
example : Sim2 (Term.T.init 24 80) (newState 80 24) 24 80 :=
  sim2_init 80 24 (by decide) (by decide) (by decide) (by decide) (new_eq 80 24 (by decide) (by decide))

/-- From start-up: a terminal of any admissible size, then any history over the vocabulary. -/
theorem emu_refines_session (hs : StepSafe) (w h : Int) (hw1 : 1 ≤ w) (hw2 : w ≤ 65535) (hh1 : 1 ≤ h)
    (hh2 : h ≤ 65535) {ops : List EOp} {toks : List Term.Tok} (hv : VocabHist ops toks) :
    ∃ e0 e', Emu.new Fixes.current w h = .ok e0 ∧ runOps e0 ops = .ok e' ∧
      SpecAllows (Term.T.init h.toNat w.toNat) toks e' h.toNat w.toNat := by
  have he := new_eq w h (by omega) (by omega)
  obtain ⟨e', hr, hsa⟩ := emu_refines_history hs hv (sim2_init w h hw1 hw2 hh1 hh2 he)
  exact ⟨_, e', he, hr, hsa⟩

/-- `VocabHist` from the two lists. -/
theorem vocabHist_of_zip : ∀ (ops : List EOp) (toks : List Term.Tok), ops.length = toks.length →
    (∀ p ∈ ops.zip toks, VocabOp p.1 p.2) → VocabHist ops toks
  | [], [], _, _ => .nil
  | [], _ :: _, hl, _ => by simp at hl
  | _ :: _, [], hl, _ => by simp at hl
  | op :: ops, tok :: toks, hl, h =>
    .cons (h (op, tok) (by simp)) (vocabHist_of_zip ops toks (by simpa using hl)
      (fun p hp => h p (by simp only [List.zip_cons_cons, List.mem_cons]; exact Or.inr hp)))

end VaxisModel.Lemmas.EmuRefine
