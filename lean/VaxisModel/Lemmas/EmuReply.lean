/-
Round 5: `replyS` (Model/EmuReply.lean) is `evalS` plus the bytes written to the child.
-/
import VaxisModel.Model.EmuReply
import VaxisModel.Lemmas.EmuBody
import VaxisModel.Model.C12Replies
import VaxisModel.Gen.TermReplies

namespace VaxisModel.Lemmas.EmuReply
open VaxisModel.Model.Emu VaxisModel.Model.EmuBody VaxisModel.Model.EmuReply VaxisModel.Lemmas.EmuBody
open VaxisModel.Gen VaxisModel.Gen.TermModes
open VaxisModel.Model.C12Replies (replies seqBytes decrqmValue)

/-- Whenever `replyS` answers, `evalS` returns exactly that frame, with signal `norm`. -/
theorem replyS_sound (pm : List Param) : ∀ (st : Stmt) (s : Frame) (o : Out) (s' : Frame) (o' : Out),
    replyS pm st s o = some (s', o') → evalS pm st s = .ok (s', .norm) := by
  intro st
  induction st with
  | skip =>
    intro s o s' o' h
    simp only [replyS, Option.some.injEq, Prod.mk.injEq] at h
    simp only [evalS, h.1]
  | seq a b iha ihb =>
    intro s o s' o' h
    simp only [replyS] at h
    split at h
    · rename_i r hr
      have h1 := iha s o r.1 r.2 hr
      have h2 := ihb r.1 r.2 s' o' h
      simp only [evalS, h1, ok_bind, if_true, h2]
    · exact absurd h (by simp)
  | ite c t f iht ihf =>
    intro s o s' o' h
    simp only [replyS] at h
    simp only [evalS]
    split
    · rename_i hc; rw [if_pos hc] at h; exact iht s o s' o' h
    · rename_i hc; rw [if_neg hc] at h; exact ihf s o s' o' h
  | assign l x =>
    intro s o s' o' h
    cases l <;> cases x <;> simp only [replyS, reduceCtorEq] at h
    rename_i k n
    simp only [Option.some.injEq, Prod.mk.injEq] at h
    simp only [evalS, exOk, if_true, evalEx, h.1]
  | reply r =>
    intro s o s' o' h
    simp only [replyS] at h
    split at h
    · simp only [Option.some.injEq, Prod.mk.injEq] at h
      simp only [evalS, h.1]
    · exact absurd h (by simp)
  | _ => intro s o s' o' h; simp only [replyS, reduceCtorEq] at h

/-- A body that `replyOf` gives a text for leaves the emulator state as `evalBody` computes it; for the reply arms
    (no statement touches `vt`) that is the state itself: see Props/C05Replies. -/
theorem replyOf_evalBody (b : Body) (pm : List Param) (args : List Int) (e : Emu) (bytes : List Nat)
    (h : replyOf b pm args e = some bytes) :
    ∃ s' o', replyS pm b.stmt (initFrame e args) {} = some (s', o') ∧ o'.out = bytes ∧ evalBody b pm args e = .ok s'.e := by
  unfold replyOf at h
  split at h
  · rename_i r hr
    simp only [Option.some.injEq] at h
    refine ⟨r.1, r.2, hr, h, ?_⟩
    simp only [evalBody, replyS_sound pm b.stmt _ _ r.1 r.2 hr, ok_bind]
  · exact absurd h (by simp)

/-! ### decrqm(): the answer for every mode number -/

macro "decrqm_unfold" : tactic => `(tactic|
  simp only [replyOf, TermBodies.body_decrqm, TermBodies.stmt_decrqm, replyS, evalCond, evalCmp, evalEx, initFrame,
    Frame.get, Frame.set, stepReply, decrqmValue, lookupMode, decrqmTable, List.find?, List.map_cons, List.map_nil, List.nil_append,
    List.getD_cons_zero, List.getD_cons_succ])
macro "decrqm_arm" f:term : tactic => `(tactic| (
  decrqm_unfold
  by_cases hm : Modes.get (Emu.mode ‹Emu›) $f = true <;> simp [hm, TermReplies.decrpmFormat]))

theorem reply_decrqm_eq (e : Emu) (pd : Int) :
    replyOf TermBodies.body_decrqm [] [pd] e = some (sprintfD TermReplies.decrpmFormat [pd, decrqmValue e pd]) := by
  by_cases h1 : pd = 1
  · subst h1; decrqm_arm ModeField.decckm
  by_cases h2 : pd = 2
  · subst h2; decrqm_arm ModeField.decanm
  by_cases h3 : pd = 3
  · subst h3; decrqm_arm ModeField.deccolm
  by_cases h4 : pd = 4
  · subst h4; decrqm_arm ModeField.decsclm
  by_cases h6 : pd = 6
  · subst h6; decrqm_arm ModeField.decom
  by_cases h7 : pd = 7
  · subst h7; decrqm_arm ModeField.decawm
  by_cases h8 : pd = 8
  · subst h8; decrqm_arm ModeField.decarm
  by_cases h25 : pd = 25
  · subst h25; decrqm_arm ModeField.dectcem
  by_cases h1000 : pd = 1000
  · subst h1000; decrqm_arm ModeField.mouseButtons
  by_cases h1002 : pd = 1002
  · subst h1002; decrqm_arm ModeField.mouseDrag
  by_cases h1003 : pd = 1003
  · subst h1003; decrqm_arm ModeField.mouseMotion
  by_cases h1006 : pd = 1006
  · subst h1006; decrqm_arm ModeField.mouseSGR
  by_cases h1007 : pd = 1007
  · subst h1007; decrqm_arm ModeField.altScroll
  by_cases h1049 : pd = 1049
  · subst h1049; decrqm_arm ModeField.smcup
  by_cases h2004 : pd = 2004
  · subst h2004; decrqm_arm ModeField.paste
  by_cases h5 : pd = 5
  · subst h5; decrqm_unfold; simp [TermReplies.decrpmFormat]
  by_cases h2027 : pd = 2027
  · subst h2027; decrqm_unfold; simp [TermReplies.decrpmFormat]
  have g1 : ¬ (1 : Int) = pd := fun h => h1 h.symm
  have g2 : ¬ (2 : Int) = pd := fun h => h2 h.symm
  have g3 : ¬ (3 : Int) = pd := fun h => h3 h.symm
  have g4 : ¬ (4 : Int) = pd := fun h => h4 h.symm
  have g5 : ¬ (5 : Int) = pd := fun h => h5 h.symm
  have g6 : ¬ (6 : Int) = pd := fun h => h6 h.symm
  have g7 : ¬ (7 : Int) = pd := fun h => h7 h.symm
  have g8 : ¬ (8 : Int) = pd := fun h => h8 h.symm
  have g25 : ¬ (25 : Int) = pd := fun h => h25 h.symm
  have g1000 : ¬ (1000 : Int) = pd := fun h => h1000 h.symm
  have g1002 : ¬ (1002 : Int) = pd := fun h => h1002 h.symm
  have g1003 : ¬ (1003 : Int) = pd := fun h => h1003 h.symm
  have g1006 : ¬ (1006 : Int) = pd := fun h => h1006 h.symm
  have g1007 : ¬ (1007 : Int) = pd := fun h => h1007 h.symm
  have g1049 : ¬ (1049 : Int) = pd := fun h => h1049 h.symm
  have g2004 : ¬ (2004 : Int) = pd := fun h => h2004 h.symm
  have g2027 : ¬ (2027 : Int) = pd := fun h => h2027 h.symm
  decrqm_unfold
  simp [h1, g1, h2, g2, h3, g3, h4, g4, h5, g5, h6, g6, h7, g7, h8, g8, h25, g25, h1000, g1000, h1002, g1002, h1003, g1003, h1006, g1006, h1007, g1007, h1049, g1049, h2004, g2004, h2027, g2027, TermReplies.decrpmFormat]

/-! ### `%d` here and in C12's rendering of a parsed reply are the same function -/

theorem natDigits_eq : ∀ (fuel n : Nat), natDigits fuel n = Model.C12Replies.natDigits fuel n
  | 0, _ => rfl
  | fuel + 1, n => by simp only [natDigits, Model.C12Replies.natDigits, natDigits_eq fuel]

theorem intBytes_eq (n : Int) : intBytes n = Model.C12Replies.intBytes n := by
  simp only [intBytes, Model.C12Replies.intBytes, natDigits_eq]

/-- the cursor-position report and the DECRPM answer, rendered from C12's parsed form -/
theorem cpr_wire (a b : Int) :
    sprintfD TermReplies.cprFormat [a, b] = seqBytes (.csi [] [[a], [b]] 82) := by
  simp [sprintfD, TermReplies.cprFormat, seqBytes, Model.C12Replies.paramBytes, List.intercalate, intBytes_eq]

theorem decrpm_wire (a b : Int) :
    sprintfD TermReplies.decrpmFormat [a, b] = seqBytes (.csi [63, 36] [[a], [b]] 121) := by
  simp [sprintfD, TermReplies.decrpmFormat, seqBytes, Model.C12Replies.paramBytes, List.intercalate, intBytes_eq]

end VaxisModel.Lemmas.EmuReply
