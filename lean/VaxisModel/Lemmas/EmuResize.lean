/-
What `resize` (term.go) leaves alone. The reflow re-prints the old primary screen through `print`
and `nel`; `Keep a b` lists the fields neither of them touches (modes, OSC 8 switch, cursor shape,
tab stops, saved cursors, margins, which screen is active, the INACTIVE grid, and — outside a
single shift — the character sets). `resize_keep` composes it over the whole reflow for every old
state (no invariant needed) and adds what resize itself sets. Used by Props/C05.lean (`resize_frame`)
and by the C12 composition across host resizes.
-/
import VaxisModel.Lemmas.EmuSafe4

namespace VaxisModel.Lemmas.EmuResize
open VaxisModel.Model.Emu VaxisModel.Lemmas.Emu

structure Keep (a b : Emu) : Prop where
  mode : b.mode = a.mode
  osc8 : b.osc8 = a.osc8
  hasVx : b.hasVx = a.hasVx
  shape : b.cur.shape = a.cur.shape
  tabs : b.tabs = a.tabs
  savedP : b.savedP = a.savedP
  savedA : b.savedA = a.savedA
  altActive : b.altActive = a.altActive
  alt : a.altActive = false → b.alt = a.alt
  prim : a.altActive = true → b.primary = a.primary
  cs : a.cs.ss = false → b.cs = a.cs
  top : b.top = a.top
  bottom : b.bottom = a.bottom
  left : b.left = a.left
  right : b.right = a.right

theorem Keep.refl (e : Emu) : Keep e e :=
  ⟨rfl, rfl, rfl, rfl, rfl, rfl, rfl, rfl, fun _ => rfl, fun _ => rfl, fun _ => rfl, rfl, rfl, rfl, rfl⟩

theorem Keep.trans {a b c : Emu} (h1 : Keep a b) (h2 : Keep b c) : Keep a c :=
  ⟨h2.mode.trans h1.mode, h2.osc8.trans h1.osc8, h2.hasVx.trans h1.hasVx, h2.shape.trans h1.shape,
   h2.tabs.trans h1.tabs, h2.savedP.trans h1.savedP, h2.savedA.trans h1.savedA,
   h2.altActive.trans h1.altActive,
   fun h => (h2.alt (h1.altActive.trans h)).trans (h1.alt h),
   fun h => (h2.prim (h1.altActive.trans h)).trans (h1.prim h),
   fun h => (h2.cs (by rw [h1.cs h]; exact h)).trans (h1.cs h),
   h2.top.trans h1.top, h2.bottom.trans h1.bottom, h2.left.trans h1.left, h2.right.trans h1.right⟩

theorem bind_ok_inv {α β : Type} {x : M α} {f : α → M β} {b : β} (h : (x >>= f) = .ok b) :
    ∃ a, x = .ok a ∧ f a = .ok b := by
  cases x with
  | error e => cases h
  | ok a => exact ⟨a, rfl, h⟩

theorem grid_bind_inv {x : M Grid} {k : Grid → Emu} {e' : Emu}
    (h : (x >>= fun g => Except.ok (k g)) = .ok e') : ∃ g, e' = k g := by
  obtain ⟨g, _, hg⟩ := bind_ok_inv h
  cases hg
  exact ⟨g, rfl⟩

theorem setActive_keep (e : Emu) (g : Grid) : Keep e (e.setActive g) := by
  unfold Emu.setActive
  split
  · rename_i h
    exact ⟨rfl, rfl, rfl, rfl, rfl, rfl, rfl, rfl, fun h' => (by rw [h] at h'; cases h'), fun _ => rfl,
      fun _ => rfl, rfl, rfl, rfl, rfl⟩
  · rename_i h
    exact ⟨rfl, rfl, rfl, rfl, rfl, rfl, rfl, rfl, fun _ => rfl, fun h' => absurd h' h,
      fun _ => rfl, rfl, rfl, rfl, rfl⟩

theorem keep_lastCol (e : Emu) (b : Bool) : Keep e { e with lastCol := b } :=
  ⟨rfl, rfl, rfl, rfl, rfl, rfl, rfl, rfl, fun _ => rfl, fun _ => rfl, fun _ => rfl, rfl, rfl, rfl, rfl⟩

theorem keep_pos (e : Emu) (r c : Int) : Keep e { e with cur := { e.cur with row := r, col := c } } :=
  ⟨rfl, rfl, rfl, rfl, rfl, rfl, rfl, rfl, fun _ => rfl, fun _ => rfl, fun _ => rfl, rfl, rfl, rfl, rfl⟩

theorem keep_pen (e : Emu) (s : EStyle) : Keep e { e with cur := { e.cur with st := s } } :=
  ⟨rfl, rfl, rfl, rfl, rfl, rfl, rfl, rfl, fun _ => rfl, fun _ => rfl, fun _ => rfl, rfl, rfl, rfl, rfl⟩

theorem scrollUp_keep {e e' : Emu} {n : Int} (h : scrollUp e n = .ok e') : Keep e e' := by
  unfold scrollUp at h
  obtain ⟨g, rfl⟩ := grid_bind_inv h
  exact setActive_keep _ _

theorem ind_keep {e e' : Emu} (h : ind e = .ok e') : Keep e e' := by
  unfold ind at h
  simp only at h
  split at h
  · exact (keep_lastCol e false).trans (scrollUp_keep h)
  · split at h <;> (cases h; exact ⟨rfl, rfl, rfl, rfl, rfl, rfl, rfl, rfl, fun _ => rfl, fun _ => rfl,
      fun _ => rfl, rfl, rfl, rfl, rfl⟩)

theorem nel_keep {e e' : Emu} (h : nel e = .ok e') : Keep e e' := by
  unfold nel at h
  obtain ⟨e1, h1, h2⟩ := bind_ok_inv h
  cases h2
  exact (ind_keep h1).trans
    ⟨rfl, rfl, rfl, rfl, rfl, rfl, rfl, rfl, fun _ => rfl, fun _ => rfl, fun _ => rfl, rfl, rfl, rfl, rfl⟩

/-! ### print, phase by phase -/

theorem printPre_keep (e : Emu) : Keep e (printPre e) := by
  unfold printPre
  split
  · rename_i h
    exact ⟨rfl, rfl, rfl, rfl, rfl, rfl, rfl, rfl, fun _ => rfl, fun _ => rfl,
      fun h' => (by rw [h] at h'; cases h'), rfl, rfl, rfl, rfl⟩
  · exact Keep.refl e

theorem printAdvance_keep (e : Emu) (wi : Int) : Keep e (printAdvance e wi) := by
  unfold printAdvance
  simp only
  split <;> split <;> split <;>
    exact ⟨rfl, rfl, rfl, rfl, rfl, rfl, rfl, rfl, fun _ => rfl, fun _ => rfl, fun _ => rfl, rfl, rfl, rfl, rfl⟩

theorem printWrite_keep {e e' : Emu} {g : G} {w : Nat} {col rw : Int}
    (h : printWrite e g w col rw = .ok e') : Keep e e' := by
  unfold printWrite at h
  split at h
  · cases h; exact Keep.refl e
  · obtain ⟨row, _, h⟩ := bind_ok_inv h
    obtain ⟨row', _, h⟩ := bind_ok_inv h
    obtain ⟨g1, _, h⟩ := bind_ok_inv h
    obtain ⟨g2, rfl⟩ := grid_bind_inv h
    exact (setActive_keep _ _).trans (printAdvance_keep _ _)

theorem printK2_keep {e e' : Emu} {g : G} {w : Nat} {col0 rw0 : Int}
    (h : printK2 col0 rw0 g w e = .ok e') : Keep e e' := by
  unfold printK2 at h
  exact printWrite_keep h

theorem printK1_keep {e e' : Emu} {g : G} {w : Nat} (h : printK1 g w e = .ok e') : Keep e e' := by
  unfold printK1 at h
  split at h
  · obtain ⟨line, _, h⟩ := bind_ok_inv h
    obtain ⟨line', _, h⟩ := bind_ok_inv h
    obtain ⟨g', _, h⟩ := bind_ok_inv h
    exact (setActive_keep _ _).trans (printK2_keep h)
  · exact printK2_keep h

theorem printK0_keep {e e' : Emu} {g : G} {w : Nat} (h : printK0 g w e = .ok e') : Keep e e' := by
  unfold printK0 at h
  split at h
  · obtain ⟨g', _, h⟩ := bind_ok_inv h
    obtain ⟨e1, h1, h⟩ := bind_ok_inv h
    exact (((keep_lastCol e false).trans (setActive_keep _ _)).trans (nel_keep h1)).trans (printK1_keep h)
  · exact printK1_keep h

/-- `print` touches only the active grid, the cursor position, `lastCol` and (ending a single
    shift) the selected character set. -/
theorem print_keep {e e' : Emu} {g : G} {w : Nat} (h : print Fixes.current e g w = .ok e') : Keep e e' := by
  rw [print_eq] at h
  exact (printPre_keep e).trans (printK0_keep h)

/-! ### the reflow -/

theorem reflowFold_keep (cells : Row) :
    ∀ (acc r : Emu × Bool),
      cells.foldlM (fun (acc : Emu × Bool) cell => do
        let e := { acc.1 with cur := { acc.1.cur with st := cell.st } }
        let e ← print Fixes.current e cell.g cell.w
        .ok (e, cell.wrapped)) acc = .ok r → Keep acc.1 r.1 := by
  induction cells with
  | nil => intro acc r h; cases h; exact Keep.refl _
  | cons c cs ih =>
    intro acc r h
    simp only [List.foldlM_cons] at h
    obtain ⟨x, hx, h⟩ := bind_ok_inv h
    obtain ⟨e1, he1, hx'⟩ := bind_ok_inv hx
    cases hx'
    exact ((keep_pen acc.1 c.st).trans (print_keep he1)).trans (ih _ _ h)

theorem reflowRow_keep {e : Emu} {cells : Row} {r : Emu × Bool}
    (h : reflowRow Fixes.current e cells = .ok r) : Keep e r.1 := by
  unfold reflowRow at h
  exact reflowFold_keep cells (e, false) r h

theorem reflow_keep (last : Int) (old : List Row) :
    ∀ (k : Nat) (e e' : Emu), reflow Fixes.current last old k e = .ok e' → Keep e e' := by
  induction old with
  | nil => intro k e e' h; cases h; exact Keep.refl e
  | cons r rest ih =>
    intro k e e' h
    unfold reflow at h
    split at h
    · cases h; exact Keep.refl e
    · obtain ⟨⟨e1, wr⟩, h1, h⟩ := bind_ok_inv h
      have k1 := reflowRow_keep h1
      cases wr with
      | false =>
        simp only [Bool.not_false, if_true] at h
        obtain ⟨e2, h2, h⟩ := bind_ok_inv h
        exact (k1.trans (nel_keep h2)).trans (ih _ _ _ h)
      | true =>
        simp only [Bool.not_true, Bool.false_eq_true, if_false, exceptOk_bind] at h
        exact k1.trans (ih _ _ _ h)

/-! ### the deferred-wrap flag is only set in the pending-wrap column -/

/-- `lastCol` set ⇒ the cursor is beyond the right margin (the pending-wrap column). -/
def LC (e : Emu) : Prop := e.lastCol = true → e.right + 1 ≤ e.cur.col

theorem lc_of_false {e : Emu} (h : e.lastCol = false) : LC e := by
  intro h'; rw [h] at h'; cases h'

theorem setActive_lc {e : Emu} (g : Grid) (h : LC e) : LC (e.setActive g) := by
  unfold Emu.setActive
  split <;> exact h

theorem scrollUp_lastCol {e e' : Emu} {n : Int} (h : scrollUp e n = .ok e') : e'.lastCol = e.lastCol := by
  unfold scrollUp at h
  obtain ⟨g, rfl⟩ := grid_bind_inv h
  unfold Emu.setActive
  split <;> rfl

theorem ind_lastCol {e e' : Emu} (h : ind e = .ok e') : e'.lastCol = false := by
  unfold ind at h
  simp only at h
  split at h
  · exact (scrollUp_lastCol h).trans rfl
  · split at h <;> (cases h; rfl)

theorem nel_lastCol {e e' : Emu} (h : nel e = .ok e') : e'.lastCol = false := by
  unfold nel at h
  obtain ⟨e1, h1, h2⟩ := bind_ok_inv h
  cases h2
  exact (ind_lastCol h1 : e1.lastCol = false)

theorem printAdvance_lc (e : Emu) (wi : Int) (hw : 0 ≤ wi) (h : LC e) : LC (printAdvance e wi) := by
  have s1 : LC (if (!e.mode.decawm && decide (e.cur.col + wi > e.right)) = true then e
      else { e with cur := { e.cur with col := e.cur.col + wi } }) := by
    split
    · exact h
    · intro hl
      have := h hl
      show e.right + 1 ≤ e.cur.col + wi
      omega
  have s2 : ∀ x : Emu, LC x →
      LC (if decide (x.cur.col > x.right + 1) = true then { x with cur := { x.cur with col := x.right + 1 } } else x) := by
    intro x hx
    split
    · intro _; exact Int.le_refl _
    · exact hx
  have s3 : ∀ x : Emu, LC x →
      LC (if (decide (x.cur.col ≥ x.right + 1) && x.mode.decawm) = true then { x with lastCol := true } else x) := by
    intro x hx
    split
    · rename_i hc
      intro _
      simp only [Bool.and_eq_true, decide_eq_true_eq] at hc
      exact hc.1
    · exact hx
  unfold printAdvance
  exact s3 _ (s2 _ s1)

theorem printWrite_lc {e e' : Emu} {g : G} {w : Nat} {col rw : Int}
    (h : printWrite e g w col rw = .ok e') (hl : LC e) : LC e' := by
  unfold printWrite at h
  split at h
  · cases h; exact hl
  · obtain ⟨row, _, h⟩ := bind_ok_inv h
    obtain ⟨row', _, h⟩ := bind_ok_inv h
    obtain ⟨g1, _, h⟩ := bind_ok_inv h
    obtain ⟨g2, rfl⟩ := grid_bind_inv h
    exact printAdvance_lc _ _ (Int.natCast_nonneg _) (setActive_lc _ hl)

theorem printK1_lc {e e' : Emu} {g : G} {w : Nat} (h : printK1 g w e = .ok e') (hl : LC e) : LC e' := by
  unfold printK1 at h
  split at h
  · obtain ⟨line, _, h⟩ := bind_ok_inv h
    obtain ⟨line', _, h⟩ := bind_ok_inv h
    obtain ⟨g', _, h⟩ := bind_ok_inv h
    unfold printK2 at h
    exact printWrite_lc h (setActive_lc _ hl)
  · unfold printK2 at h
    exact printWrite_lc h hl

theorem printK0_lc {e e' : Emu} {g : G} {w : Nat} (h : printK0 g w e = .ok e') (hl : LC e) : LC e' := by
  unfold printK0 at h
  split at h
  · obtain ⟨g', _, h⟩ := bind_ok_inv h
    obtain ⟨e1, h1, h⟩ := bind_ok_inv h
    exact printK1_lc h (lc_of_false (nel_lastCol h1))
  · exact printK1_lc h hl

theorem printPre_lc {e : Emu} (h : LC e) : LC (printPre e) := by
  unfold printPre
  split <;> exact h

theorem print_lc {e e' : Emu} {g : G} {w : Nat} (h : print Fixes.current e g w = .ok e') (hl : LC e) :
    LC e' := by
  rw [print_eq] at h
  exact printK0_lc h (printPre_lc hl)

theorem reflowFold_lc (cells : Row) :
    ∀ (acc r : Emu × Bool), LC acc.1 →
      cells.foldlM (fun (acc : Emu × Bool) cell => do
        let e := { acc.1 with cur := { acc.1.cur with st := cell.st } }
        let e ← print Fixes.current e cell.g cell.w
        .ok (e, cell.wrapped)) acc = .ok r → LC r.1 := by
  induction cells with
  | nil => intro acc r hl h; cases h; exact hl
  | cons c cs ih =>
    intro acc r hl h
    simp only [List.foldlM_cons] at h
    obtain ⟨x, hx, h⟩ := bind_ok_inv h
    obtain ⟨e1, he1, hx'⟩ := bind_ok_inv hx
    cases hx'
    exact ih _ _ (print_lc (e := { acc.1 with cur := { acc.1.cur with st := c.st } }) he1 hl) h

theorem reflow_lc (last : Int) (old : List Row) :
    ∀ (k : Nat) (e e' : Emu), LC e → reflow Fixes.current last old k e = .ok e' → LC e' := by
  induction old with
  | nil => intro k e e' hl h; cases h; exact hl
  | cons r rest ih =>
    intro k e e' hl h
    unfold reflow at h
    split at h
    · cases h; exact hl
    · obtain ⟨⟨e1, wr⟩, h1, h⟩ := bind_ok_inv h
      have k1 : LC e1 := by
        unfold reflowRow at h1
        exact reflowFold_lc r (e, false) (e1, wr) hl h1
      cases wr with
      | false =>
        simp only [Bool.not_false, if_true] at h
        obtain ⟨e2, h2, h⟩ := bind_ok_inv h
        exact ih _ _ _ (lc_of_false (nel_lastCol h2)) h
      | true =>
        simp only [Bool.not_true, Bool.false_eq_true, if_false, exceptOk_bind] at h
        exact ih _ _ _ k1 h

/-- resize(): everything the caller may rely on besides the invariant. For EVERY old state. -/
structure ResizeFrame (e e' : Emu) (w h : Int) : Prop where
  pen : e'.cur.st = e.cur.st
  shape : e'.cur.shape = e.cur.shape
  mode : e'.mode = e.mode
  osc8 : e'.osc8 = e.osc8
  hasVx : e'.hasVx = e.hasVx
  tabs : e'.tabs = e.tabs
  altActive : e'.altActive = e.mode.smcup
  alt : e'.alt = blankGrid w.toNat h.toNat
  cs : e.cs.ss = false → e'.cs = e.cs
  top : e'.top = 0
  bottom : e'.bottom = h - 1
  left : e'.left = e.left
  right : e'.right = w - 1
  savedP : e'.savedP = clampSaved e.savedP w h
  savedA : e'.savedA = clampSaved e.savedA w h
  /-- the deferred-wrap flag is only set with the cursor in the pending-wrap column `w` -/
  lastCol : e'.lastCol = true → (w.toNat : Int) ≤ e'.cur.col

theorem resize_keep {e e' : Emu} {w h : Int} (hr : resize Fixes.current e w h = .ok e') :
    ResizeFrame e e' w h := by
  rw [resize_eq] at hr
  split at hr
  · cases hr
  · rename_i hneg
    obtain ⟨e1, h1, hr⟩ := bind_ok_inv hr
    cases hr
    have k := reflow_keep _ _ _ _ _ h1
    have l : LC e1 := reflow_lc _ _ _ _ _ (lc_of_false rfl) h1
    refine ⟨rfl, k.shape, k.mode, k.osc8, k.hasVx, k.tabs, by rw [k.mode]; rfl, k.alt rfl, k.cs,
      k.top, k.bottom, k.left, k.right, k.savedP, k.savedA, ?_⟩
    intro hl
    have h2 := l hl
    have h3 : e1.right = w - 1 := k.right
    show (w.toNat : Int) ≤ e1.cur.col
    omega

end VaxisModel.Lemmas.EmuResize
