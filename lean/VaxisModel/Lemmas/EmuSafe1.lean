/-
Per-operation safety of the emulator model, part 1: shared definitions, cursor motion, scrolling,
IND/NEL/RI/LF, erase operations.
-/
import VaxisModel.Lemmas.EmuBasic

namespace VaxisModel.Lemmas.Emu
open VaxisModel.Model.Emu

/-- Size hypotheses: at least 1×1, at most 65535×65535 (a pty's winsize fields are uint16). -/
structure Dim (rows cols : Nat) : Prop where
  r1 : 1 ≤ rows
  c1 : 1 ≤ cols
  rmax : rows ≤ 65535
  cmax : cols ≤ 65535

/-- `r` succeeded and the result satisfies the invariant. -/
def Safe (rows cols : Nat) (r : M Emu) : Prop := ∃ e', r = .ok e' ∧ EmuInv e' rows cols

theorem Safe.ok {rows cols : Nat} {e : Emu} (h : EmuInv e rows cols) : Safe rows cols (.ok e) := ⟨e, rfl, h⟩

theorem hangLimit_val : (hangLimit : Int) = 1000000 := rfl

/-- A parameter after `clampParam`. -/
def POk (n : Int) : Prop := 0 ≤ n ∧ n ≤ 65535

theorem dflt1_ok {n : Int} (h : POk n) : 1 ≤ dflt1 n ∧ dflt1 n ≤ 65535 := by
  unfold dflt1 POk at *; split <;> omega

/-! ### cursor motion -/

theorem cuu_inv {e : Emu} {rows cols : Nat} (h : EmuInv e rows cols) {n : Int} (hn : POk n) :
    EmuInv (cuu e n) rows cols := by
  have hd := dflt1_ok hn
  have := h.rowLo; have := h.rowHi; have := h.topLo; have := h.topLe; have := h.botHi
  unfold cuu
  refine { h with rowLo := ?_, rowHi := ?_ } <;> simp only <;> split <;> split <;> omega

theorem cud_inv {e : Emu} {rows cols : Nat} (h : EmuInv e rows cols) {n : Int} (hn : POk n) :
    EmuInv (cud Fixes.current e n) rows cols := by
  have hd := dflt1_ok hn
  have hh : ({ e with lastCol := false } : Emu).height = rows := height_eq (e := { e with lastCol := false }) { h with }
  have := h.rowLo; have := h.rowHi; have := h.topLo; have := h.topLe; have := h.botHi
  unfold cud
  simp only [Fixes.current, Bool.true_and, hh]
  refine { h with rowLo := ?_, rowHi := ?_ } <;> simp only <;> split <;> split <;> simp_all <;> omega

/-! ### scrolling -/

theorem scrollUp_safe {e : Emu} {rows cols : Nat} (h : EmuInv e rows cols) (d : Dim rows cols)
    {n : Int} (hn : 0 ≤ n) : Safe rows cols (scrollUp e n) := by
  have hg := active_ok h
  have hh := height_eq h
  have := h.topLo; have := h.botHi; have := h.left0; have := h.right; have := d.rmax; have := d.cmax
  unfold scrollUp
  obtain ⟨g', hg', hok⟩ := forUp_ok (fun g => GridOk g rows cols) (fun row g =>
      if row > e.bottom then .ok g
      else if row < e.top then .ok g
      else if row + n > e.bottom then eraseCols g row e.left e.right e.bg
      else copyRow g row (row + n)) 0 (e.height - 1) e.active (by rw [hh, hangLimit_val]; omega) hg
    (by
      intro i g hi0 hi1 hgi
      rw [hh] at hi1
      split
      · exact ⟨g, rfl, hgi⟩
      · split
        · exact ⟨g, rfl, hgi⟩
        · split
          · exact eraseCols_ok hgi i e.left e.right e.bg hi0 (by omega) (by omega) (by omega)
              (by rw [hangLimit_val]; omega)
          · exact copyRow_ok hgi i (i + n) hi0 (by omega) (by omega) (by omega))
  exact ⟨e.setActive g', by simp only [hg', bind, Except.bind], setActive_inv h hok⟩

theorem scrollDown_safe {e : Emu} {rows cols : Nat} (h : EmuInv e rows cols) (d : Dim rows cols)
    {n : Int} (hn : 0 ≤ n) : Safe rows cols (scrollDown e n) := by
  have hg := active_ok h
  have := h.topLo; have := h.botHi; have := h.left0; have := h.right; have := d.rmax; have := d.cmax
  unfold scrollDown
  obtain ⟨g', hg', hok⟩ := forDown_ok (fun g => GridOk g rows cols) (fun r g =>
      if r - n < e.top then eraseCols g r e.left e.right e.bg
      else copyRow g r (r - n)) e.bottom e.top e.active (by rw [hangLimit_val]; omega) hg
    (by
      intro i g hi0 hi1 hgi
      split
      · exact eraseCols_ok hgi i e.left e.right e.bg (by omega) (by omega) (by omega) (by omega)
          (by rw [hangLimit_val]; omega)
      · exact copyRow_ok hgi i (i - n) (by omega) (by omega) (by omega) (by omega))
  exact ⟨e.setActive g', by simp only [hg', bind, Except.bind], setActive_inv h hok⟩

/-! ### IND / NEL / RI / LF -/

theorem inv_lastCol {e : Emu} {rows cols : Nat} (h : EmuInv e rows cols) (b : Bool) :
    EmuInv { e with lastCol := b } rows cols := { h with }

theorem ind_safe {e : Emu} {rows cols : Nat} (h : EmuInv e rows cols) (d : Dim rows cols) :
    Safe rows cols (ind e) := by
  have h' := inv_lastCol h false
  have hh := height_eq h'
  have := h.rowLo; have := h.rowHi
  unfold ind
  simp only
  split
  · exact scrollUp_safe h' d (by omega)
  · split
    · exact Safe.ok h'
    · rename_i h1 h2
      simp only [hh] at h2
      exact Safe.ok { h' with rowLo := by simp only; omega, rowHi := by simp only; omega }

theorem nel_safe {e : Emu} {rows cols : Nat} (h : EmuInv e rows cols) (d : Dim rows cols) :
    Safe rows cols (nel e) := by
  obtain ⟨e1, h1, hi1⟩ := ind_safe h d
  unfold nel
  simp only [h1, bind, Except.bind]
  have := hi1.left0
  exact Safe.ok { hi1 with colLo := by simp only; omega, colHi := by simp only; omega }

theorem ri_safe {e : Emu} {rows cols : Nat} (h : EmuInv e rows cols) (d : Dim rows cols) :
    Safe rows cols (ri Fixes.current e) := by
  have h' := inv_lastCol h false
  have := h.rowLo; have := h.rowHi
  unfold ri
  simp only [Fixes.current, if_true]
  split
  · exact scrollDown_safe h' d (by omega)
  · split
    · exact Safe.ok h'
    · exact Safe.ok { h' with rowLo := by simp only; omega, rowHi := by simp only; omega }

theorem lf_safe {e : Emu} {rows cols : Nat} (h : EmuInv e rows cols) (d : Dim rows cols) :
    Safe rows cols (lf e) := by
  obtain ⟨e1, h1, hi1⟩ := ind_safe h d
  unfold lf
  simp only [h1, bind, Except.bind]
  have := hi1.left0
  split
  · exact Safe.ok hi1
  · exact Safe.ok { hi1 with colLo := by simp only; omega, colHi := by simp only; omega }

end VaxisModel.Lemmas.Emu
