/-
Per-operation safety of the emulator model, part 2: the operations that only touch the cursor, the
margins, the modes, the tab stops or the pen (CUF CUB CHA CUP CHT CBT TBC HTS VPA VPR HPA HPR DECSTBM
DECSC DECRC BS CR SM RM DECSET RIS SGR OSC and the C0 dispatch).
-/
import VaxisModel.Lemmas.EmuSafe1

namespace VaxisModel.Lemmas.Emu
open VaxisModel.Model.Emu
open VaxisModel.Gen.TermModes

/-! ### CUF CUB CHA CUP -/

theorem cuf_inv {e : Emu} {rows cols : Nat} (h : EmuInv e rows cols) (d : Dim rows cols) {n : Int}
    (hn : POk n) : EmuInv (cuf e n) rows cols := by
  have hd := dflt1_ok hn
  have := h.colLo; have := h.colHi; have := h.right; have := d.c1
  unfold cuf
  refine { h with colLo := ?_, colHi := ?_ } <;> simp only <;> split <;> omega

theorem cub_inv {e : Emu} {rows cols : Nat} (h : EmuInv e rows cols) {n : Int} (hn : POk n) :
    EmuInv (cub e n) rows cols := by
  have hd := dflt1_ok hn
  have := h.colLo; have := h.colHi; have := h.left0
  unfold cub
  refine { h with colLo := ?_, colHi := ?_ } <;> simp only <;> split <;> omega

theorem cha_inv {e : Emu} {rows cols : Nat} (h : EmuInv e rows cols) {n : Int} (hn : POk n) :
    EmuInv (cha e n) rows cols := by
  have hd := dflt1_ok hn
  have := h.colLo; have := h.colHi; have := h.left0; have := h.right
  unfold cha
  refine { h with colLo := ?_, colHi := ?_ } <;> simp only <;> split <;> split <;> omega

theorem cup_inv {e : Emu} {rows cols : Nat} (h : EmuInv e rows cols) (d : Dim rows cols)
    (pm : List Param) : EmuInv (cup Fixes.current e pm) rows cols := by
  have hh : ({ e with lastCol := false } : Emu).height = rows := height_eq (inv_lastCol h false)
  have hw : ({ e with lastCol := false } : Emu).width = cols := width_eq (inv_lastCol h false) d.r1
  have := h.rowLo; have := h.rowHi; have := h.colLo; have := h.colHi; have := d.c1; have := d.r1
  unfold cup
  simp only [Fixes.current, Bool.true_and, hh, hw]
  refine { h with rowLo := ?_, rowHi := ?_, colLo := ?_, colHi := ?_ } <;> simp only <;>
    split <;> split <;> simp only [decide_eq_true_eq] at * <;> omega

/-! ### tab stops: CHT CBT TBC HTS -/

theorem chtLoop_nonneg (n : Int) : ∀ (ts : List Int) (col k : Int), 0 ≤ col → (∀ t ∈ ts, 0 ≤ t) →
    0 ≤ chtLoop n ts col k := by
  intro ts
  induction ts with
  | nil => intro col k hc _; simpa only [chtLoop] using hc
  | cons t rest ih =>
    intro col k hc ht
    have ht0 : 0 ≤ t := ht t List.mem_cons_self
    have hrest : ∀ t ∈ rest, 0 ≤ t := fun t' h' => ht t' (List.mem_cons_of_mem _ h')
    unfold chtLoop
    split
    · exact hc
    · split
      · exact ih col k hc hrest
      · exact ih t (k + 1) ht0 hrest

theorem cht_inv {e : Emu} {rows cols : Nat} (h : EmuInv e rows cols) (d : Dim rows cols) {n : Int}
    (_hn : POk n) : EmuInv (cht Fixes.current e n) rows cols := by
  have hc := chtLoop_nonneg (dflt1 n) e.tabs e.cur.col 0 h.colLo h.tabs
  have := h.right; have := d.c1
  unfold cht
  simp only [Fixes.current, Bool.true_and]
  refine { h with colLo := ?_, colHi := ?_ } <;> simp only <;> split <;>
    simp only [decide_eq_true_eq] at * <;> omega

theorem cbtLoop_bounds (n : Int) : ∀ (ts : List Int) (col k : Int), 0 ≤ col → (∀ t ∈ ts, 0 ≤ t) →
    0 ≤ cbtLoop n ts col k ∧ cbtLoop n ts col k ≤ col := by
  intro ts
  induction ts with
  | nil => intro col k hc _; simp only [cbtLoop]; omega
  | cons t rest ih =>
    intro col k hc ht
    have ht0 : 0 ≤ t := ht t List.mem_cons_self
    have hrest : ∀ t ∈ rest, 0 ≤ t := fun t' h' => ht t' (List.mem_cons_of_mem _ h')
    unfold cbtLoop
    split
    · omega
    · split
      · omega
      · have := ih t (k + 1) ht0 hrest
        omega

theorem cbt_inv {e : Emu} {rows cols : Nat} (h : EmuInv e rows cols) {n : Int} (_hn : POk n) :
    EmuInv (cbt e n) rows cols := by
  have hc := cbtLoop_bounds (dflt1 n) e.tabs.reverse e.cur.col 0 h.colLo
    (fun t ht => h.tabs t (List.mem_reverse.mp ht))
  have := h.colHi
  unfold cbt
  refine { h with colLo := ?_, colHi := ?_ } <;> simp only <;> omega

theorem tbc_inv {e : Emu} {rows cols : Nat} (h : EmuInv e rows cols) (n : Int) :
    EmuInv (tbc e n) rows cols := by
  unfold tbc
  split
  · exact { h with tabs := fun t ht => h.tabs t (List.mem_filter.mp ht).1 }
  · split
    · exact { h with tabs := fun t ht => nomatch ht }
    · exact h

theorem hts_inv {e : Emu} {rows cols : Nat} (h : EmuInv e rows cols) : EmuInv (hts e) rows cols := by
  unfold hts
  refine { h with tabs := ?_ }
  intro t ht
  rcases List.mem_append.mp ht with h1 | h1
  · exact h.tabs t h1
  · rw [List.mem_singleton.mp h1]; exact h.colLo

/-! ### VPA VPR HPA HPR -/

theorem vpa_inv {e : Emu} {rows cols : Nat} (h : EmuInv e rows cols) (d : Dim rows cols) {n : Int}
    (hn : POk n) : EmuInv (vpa Fixes.current e n) rows cols := by
  have hd := dflt1_ok hn
  have hh : ({ e with lastCol := false } : Emu).height = rows := height_eq (inv_lastCol h false)
  have := h.rowLo; have := h.rowHi; have := h.colLo; have := h.colHi; have := h.right; have := d.c1
  unfold vpa
  simp only [Fixes.current, Bool.true_and, decide_eq_true_eq, hh]
  refine { h with rowLo := ?_, rowHi := ?_, colLo := ?_, colHi := ?_ } <;> simp only <;> split <;> omega

theorem vpr_inv {e : Emu} {rows cols : Nat} (h : EmuInv e rows cols) {n : Int} (hn : POk n) :
    EmuInv (vpr e n) rows cols := by
  have hd := dflt1_ok hn
  have hh : ({ e with lastCol := false } : Emu).height = rows := height_eq (inv_lastCol h false)
  have := h.rowLo; have := h.rowHi
  unfold vpr
  simp only [hh]
  refine { h with rowLo := ?_, rowHi := ?_ } <;> simp only <;> split <;> omega

theorem hpa_inv {e : Emu} {rows cols : Nat} (h : EmuInv e rows cols) (d : Dim rows cols) {n : Int}
    (hn : POk n) : EmuInv (hpa e n) rows cols := by
  have hd := dflt1_ok hn
  have hw : ({ e with lastCol := false } : Emu).width = cols := width_eq (inv_lastCol h false) d.r1
  have := h.colLo; have := h.colHi; have := d.c1
  unfold hpa
  simp only [hw]
  refine { h with colLo := ?_, colHi := ?_ } <;> simp only <;> split <;> omega

theorem hpr_inv {e : Emu} {rows cols : Nat} (h : EmuInv e rows cols) (d : Dim rows cols) {n : Int}
    (hn : POk n) : EmuInv (hpr e n) rows cols := by
  have hd := dflt1_ok hn
  have hw : ({ e with lastCol := false } : Emu).width = cols := width_eq (inv_lastCol h false) d.r1
  have := h.colLo; have := h.colHi; have := d.c1
  unfold hpr
  simp only [hw]
  refine { h with colLo := ?_, colHi := ?_ } <;> simp only <;> split <;> omega

/-! ### DECSTBM -/

theorem decstbm_set {e : Emu} {rows cols : Nat} (h : EmuInv e rows cols) (top bot : Int)
    (h0 : 0 ≤ top) (h1 : top ≤ bot) (h2 : bot < rows) :
    EmuInv { e with lastCol := false, top := top, bottom := bot, cur := { e.cur with row := 0, col := 0 } }
      rows cols := by
  have := h.rowLo; have := h.rowHi
  refine { h with rowLo := ?_, rowHi := ?_, colLo := ?_, colHi := ?_, topLo := h0, topLe := h1,
                  botHi := h2 } <;> simp only <;> omega

theorem decstbm_core {e : Emu} {rows cols : Nat} (h : EmuInv e rows cols) (top bot : Int)
    (h0 : 0 ≤ top) (h2 : bot < rows) :
    EmuInv (if top ≥ bot then e else
      { e with lastCol := false, top := top, bottom := bot, cur := { e.cur with row := 0, col := 0 } })
      rows cols := by
  split
  · exact h
  · exact decstbm_set h top bot h0 (by omega) h2

theorem decstbm_inv {e : Emu} {rows cols : Nat} (h : EmuInv e rows cols)
    (pm : List Param) : EmuInv (decstbm Fixes.current e pm) rows cols := by
  have hh := height_eq h
  have := h.rowLo; have := h.rowHi
  unfold decstbm
  simp only [Fixes.current, Bool.true_and, hh]
  split <;> refine decstbm_core h _ _ ?_ ?_ <;>
    simp only [Bool.or_eq_true, decide_eq_true_eq] <;> omega

/-! ### DECSC DECRC -/

theorem savedOk_of_cur {e : Emu} {rows cols : Nat} (h : EmuInv e rows cols) (s : Saved)
    (hs : s.cur = e.cur) : SavedOk s rows cols :=
  ⟨hs ▸ h.rowLo, hs ▸ h.rowHi, hs ▸ h.colLo, hs ▸ h.colHi⟩

theorem decsc_inv {e : Emu} {rows cols : Nat} (h : EmuInv e rows cols) : EmuInv (decsc e) rows cols := by
  unfold decsc
  simp only
  split
  · exact { h with savedA := savedOk_of_cur h _ rfl }
  · exact { h with savedP := savedOk_of_cur h _ rfl }

theorem decrc_inv {e : Emu} {rows cols : Nat} (h : EmuInv e rows cols) : EmuInv (decrc e) rows cols := by
  unfold decrc
  simp only
  split
  · exact { h with rowLo := h.savedA.rowLo, rowHi := h.savedA.rowHi, colLo := h.savedA.colLo,
                   colHi := h.savedA.colHi }
  · exact { h with rowLo := h.savedP.rowLo, rowHi := h.savedP.rowHi, colLo := h.savedP.colLo,
                   colHi := h.savedP.colHi }

/-! ### BS CR -/

theorem bs_inv {e : Emu} {rows cols : Nat} (h : EmuInv e rows cols) (d : Dim rows cols) :
    EmuInv (bs Fixes.current e) rows cols := by
  have h' := inv_lastCol h false
  have := h.rowLo; have := h.rowHi; have := h.colLo; have := h.colHi; have := h.left0; have := h.right
  have := d.c1
  unfold bs
  simp only [Fixes.current, Bool.true_and]
  split
  · split
    · exact h'
    · rename_i h1 h2
      simp only [Bool.or_eq_true, decide_eq_true_eq, not_or] at h2
      exact { h' with rowLo := by simp only; omega, rowHi := by simp only; omega,
                      colLo := by simp only; omega, colHi := by simp only; omega }
  · exact { h' with colLo := by simp only; omega, colHi := by simp only; omega }

theorem cr_inv {e : Emu} {rows cols : Nat} (h : EmuInv e rows cols) : EmuInv (cr e) rows cols := by
  have := h.left0
  unfold cr
  exact { h with colLo := by simp only; omega, colHi := by simp only; omega }

/-! ### SM RM DECSET -/

theorem inv_mode {e : Emu} {rows cols : Nat} (h : EmuInv e rows cols) (m : Modes) :
    EmuInv { e with mode := m } rows cols := { h with }

theorem smOne_inv {e : Emu} {rows cols : Nat} (h : EmuInv e rows cols) (tab : List (Int × ModeField))
    (b : Bool) (p : Param) : EmuInv (smOne tab b e p) rows cols := by
  unfold smOne
  split
  · exact inv_mode h _
  · exact h

theorem foldl_inv {rows cols : Nat} (f : Emu → Param → Emu)
    (hf : ∀ e p, EmuInv e rows cols → EmuInv (f e p) rows cols) :
    ∀ (pm : List Param) (e : Emu), EmuInv e rows cols → EmuInv (pm.foldl f e) rows cols := by
  intro pm
  induction pm with
  | nil => intro e h; exact h
  | cons p rest ih => intro e h; exact ih (f e p) (hf e p h)

theorem sm_inv {e : Emu} {rows cols : Nat} (h : EmuInv e rows cols) (pm : List Param) :
    EmuInv (sm e pm) rows cols :=
  foldl_inv _ (fun _ p he => smOne_inv he smTable true p) pm e h

theorem rm_inv {e : Emu} {rows cols : Nat} (h : EmuInv e rows cols) (pm : List Param) :
    EmuInv (rm e pm) rows cols :=
  foldl_inv _ (fun _ p he => smOne_inv he rmTable false p) pm e h

-- decset (which since F106c clears the alternate screen with `ed`) is in EmuSafe3.lean

/-! ### RIS -/

theorem blankGrid_ok (w h : Nat) : GridOk (blankGrid w h) h w := by
  unfold blankGrid
  refine ⟨List.length_replicate, ?_⟩
  intro r hr
  rw [(List.mem_replicate.mp hr).2]
  exact List.length_replicate

theorem defaultTabs_nonneg : ∀ t ∈ defaultTabs, 0 ≤ t := by
  intro t ht
  unfold defaultTabs at ht
  obtain ⟨k, _, hk⟩ := List.mem_map.mp ht
  rw [← hk]
  exact Int.natCast_nonneg _

theorem ris_inv {e : Emu} {rows cols : Nat} (h : EmuInv e rows cols) (d : Dim rows cols) :
    EmuInv (ris e) rows cols := by
  have hh := height_eq h
  have hw := width_eq h d.r1
  have := h.topLo; have := h.topLe; have := h.botHi; have := d.r1; have := d.c1
  have hf : Fixes.current.f106e = true := rfl
  unfold ris risF
  simp only [hh, hw, Int.toNat_natCast, hf, if_true]
  exact { h with prim := blankGrid_ok cols rows, alt := blankGrid_ok cols rows,
                 rowLo := by simp only; omega, rowHi := by simp only; omega,
                 colLo := by simp only; omega, colHi := by simp only; omega,
                 topLo := by simp only; omega,
                 topLe := by simp only; omega, botHi := by simp only; omega,
                 right := rfl, tabs := defaultTabs_nonneg,
                 savedP := ⟨Int.le_refl 0, by simp only; omega, Int.le_refl 0, by simp only; omega⟩,
                 savedA := ⟨Int.le_refl 0, by simp only; omega, Int.le_refl 0, by simp only; omega⟩ }

/-! ### SGR -/

theorem Param.get_ok (p : Param) (k : Nat) (hk : k < p.len) : ∃ v, p.get k = .ok v := by
  unfold Param.len at hk
  cases k with
  | zero => exact ⟨_, rfl⟩
  | succ k =>
    have hlt : k < p.2.length := by omega
    unfold Param.get
    simp only [List.getElem?_eq_getElem hlt]
    exact ⟨_, rfl⟩

theorem sgrExt_ok (s : EStyle) (slot : ColSlot) (p : Param) (rest : List Param) :
    ∃ r, sgrExt s slot p rest = .ok r := by
  unfold sgrExt
  generalize hl : p.len = L
  split
  · -- len 1: the colour is in the following parameters
    split
    · exact ⟨_, rfl⟩
    · rename_i hlen
      rcases rest with _ | ⟨k, r1⟩
      · simp only [List.length_nil] at hlen; omega
      · simp only
        split
        · split
          · exact ⟨_, rfl⟩
          · rename_i hlen5
            rcases r1 with _ | ⟨a, _ | ⟨b, _ | ⟨c, t⟩⟩⟩
            · simp only [List.length_cons, List.length_nil] at hlen5; omega
            · simp only [List.length_cons, List.length_nil] at hlen5; omega
            · simp only [List.length_cons, List.length_nil] at hlen5; omega
            · exact ⟨_, rfl⟩
        · split
          · rcases r1 with _ | ⟨a, t⟩
            · simp only [List.length_cons, List.length_nil] at hlen; omega
            · exact ⟨_, rfl⟩
          · exact ⟨_, rfl⟩
  · obtain ⟨k, hk⟩ := Param.get_ok p 1 (by omega)
    obtain ⟨v, hv⟩ := Param.get_ok p 2 (by omega)
    simp only [hk, hv, bind, Except.bind]
    split <;> exact ⟨_, rfl⟩
  · obtain ⟨k, hk⟩ := Param.get_ok p 1 (by omega)
    obtain ⟨v2, hv2⟩ := Param.get_ok p 2 (by omega)
    obtain ⟨v3, hv3⟩ := Param.get_ok p 3 (by omega)
    obtain ⟨v4, hv4⟩ := Param.get_ok p 4 (by omega)
    simp only [hk, hv2, hv3, hv4, bind, Except.bind]
    split <;> exact ⟨_, rfl⟩
  · obtain ⟨k, hk⟩ := Param.get_ok p 1 (by omega)
    obtain ⟨v3, hv3⟩ := Param.get_ok p 3 (by omega)
    obtain ⟨v4, hv4⟩ := Param.get_ok p 4 (by omega)
    obtain ⟨v5, hv5⟩ := Param.get_ok p 5 (by omega)
    simp only [hk, hv3, hv4, hv5, bind, Except.bind]
    split <;> exact ⟨_, rfl⟩
  · exact ⟨_, rfl⟩

theorem ite_ok {α : Type} (c : Prop) [Decidable c] (a b : M α) (ha : ∃ r, a = .ok r)
    (hb : ∃ r, b = .ok r) : ∃ r, (if c then a else b) = .ok r := by
  split
  · exact ha
  · exact hb

theorem sgrOne_ok (s : EStyle) (p : Param) (rest : List Param) : ∃ r, sgrOne s p rest = .ok r := by
  unfold sgrOne
  simp only
  generalize hl : p.len = L
  repeat' (first
    | exact ⟨_, rfl⟩
    | exact sgrExt_ok _ _ _ _
    | (obtain ⟨k, hk⟩ := Param.get_ok p 1 (by omega)
       simp only [hk, bind, Except.bind]
       exact ⟨_, rfl⟩)
    | apply ite_ok
    | split)

theorem sgrLoop_ok : ∀ (fuel : Nat) (s : EStyle) (pm : List Param), ∃ s', sgrLoop fuel s pm = .ok s' := by
  intro fuel
  induction fuel with
  | zero => intro s pm; exact ⟨s, by simp only [sgrLoop]⟩
  | succ fuel ih =>
    intro s pm
    cases pm with
    | nil => exact ⟨s, by simp only [sgrLoop]⟩
    | cons p rest =>
      obtain ⟨r, hr⟩ := sgrOne_ok s p rest
      simp only [sgrLoop, hr, bind, Except.bind]
      cases r with
      | none => exact ⟨s, rfl⟩
      | some r => exact ih r.1 (rest.drop r.2)

theorem inv_pen {e : Emu} {rows cols : Nat} (h : EmuInv e rows cols) (st : EStyle) :
    EmuInv { e with cur := { e.cur with st := st } } rows cols := { h with }

theorem sgr_safe {e : Emu} {rows cols : Nat} (h : EmuInv e rows cols) (pm : List Param) :
    ∃ e', sgr e pm = .ok e' ∧ EmuInv e' rows cols := by
  unfold sgr
  simp only
  generalize (if pm.isEmpty = true then [((0 : Int), ([] : List Int))] else pm) = pm'
  obtain ⟨s', hs⟩ := sgrLoop_ok (pm'.length + 1) e.cur.st pm'
  simp only [hs, bind, Except.bind]
  exact ⟨_, rfl, inv_pen h s'⟩

/-! ### OSC -/

/-- `x` succeeded and the resulting state satisfies the invariant (for the operations that also
    return an event count). -/
def Safe2 (rows cols : Nat) (x : M (Emu × Nat)) : Prop := ∃ r, x = .ok r ∧ EmuInv r.1 rows cols

theorem Safe2.ok {rows cols : Nat} {e : Emu} (h : EmuInv e rows cols) (n : Nat) :
    Safe2 rows cols (.ok (e, n)) := ⟨_, rfl, h⟩

theorem Safe2.ite {rows cols : Nat} (c : Prop) [Decidable c] (a b : M (Emu × Nat))
    (ha : Safe2 rows cols a) (hb : Safe2 rows cols b) : Safe2 rows cols (if c then a else b) := by
  split
  · exact ha
  · exact hb

theorem osc_safe' {e : Emu} {rows cols : Nat} (h : EmuInv e rows cols) (data : List Nat) (info : OscInfo) :
    Safe2 rows cols (osc Fixes.current e data info) := by
  unfold osc
  simp only [Fixes.current, Bool.true_and]
  rcases cutSemi data with ⟨sel, val, found⟩
  rcases cutSemi val with ⟨s2, v2, f2⟩
  rcases cutSemi v2 with ⟨s3, v3, f3⟩
  cases hv : e.hasVx <;>
    simp only [Bool.not_false, Bool.not_true, Bool.false_eq_true, if_true, if_false, eq_self] <;>
    repeat' (first
      | exact Safe2.ok h _
      | (apply Safe2.ok; exact { h with })
      | apply Safe2.ite)

theorem osc_safe {e : Emu} {rows cols : Nat} (h : EmuInv e rows cols) (data : List Nat) (info : OscInfo) :
    ∃ r, osc Fixes.current e data info = .ok r ∧ EmuInv r.1 rows cols := osc_safe' h data info

/-! ### C0 -/

theorem inv_cs {e : Emu} {rows cols : Nat} (h : EmuInv e rows cols) (c : Charsets) :
    EmuInv { e with cs := c } rows cols := { h with }

theorem c0_safe {e : Emu} {rows cols : Nat} (h : EmuInv e rows cols) (d : Dim rows cols) (r0 : Nat) :
    ∃ r, c0 Fixes.current e r0 = .ok r ∧ EmuInv r.1 rows cols := by
  obtain ⟨e1, h1, hi1⟩ := lf_safe h d
  unfold c0
  cases hla : lookupArm c0Table [r0] with
  | none => exact ⟨_, rfl, h⟩
  | some arm =>
    cases arm <;> simp only [h1, bind, Except.bind]
    · exact ⟨_, rfl, h⟩
    · exact ⟨_, rfl, bs_inv h d⟩
    · exact ⟨_, rfl, cht_inv h d (n := 1) ⟨by omega, by omega⟩⟩
    · exact ⟨_, rfl, hi1⟩
    · exact ⟨_, rfl, hi1⟩
    · exact ⟨_, rfl, hi1⟩
    · exact ⟨_, rfl, cr_inv h⟩
    · exact ⟨_, rfl, inv_cs h _⟩
    · exact ⟨_, rfl, inv_cs h _⟩

theorem inv_shape {e : Emu} {rows cols : Nat} (h : EmuInv e rows cols) (n : Int) :
    EmuInv { e with cur := { e.cur with shape := n } } rows cols := { h with }

end VaxisModel.Lemmas.Emu
