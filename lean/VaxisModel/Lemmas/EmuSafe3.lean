/-
Per-operation safety of the emulator model, part 3: the grid-editing operations
(ED, EL, ECH, DCH, ICH, REP, IL, DL), CNL/CPL and DECRST.
-/
import VaxisModel.Lemmas.EmuSafe1

namespace VaxisModel.Lemmas.Emu
open VaxisModel.Model.Emu

/-! ### helpers -/

/-- An operation that computes a new active grid and stores it. -/
theorem safe_setActive {e : Emu} {rows cols : Nat} (h : EmuInv e rows cols) {m : M Grid}
    (hm : ∃ g, m = .ok g ∧ GridOk g rows cols) :
    Safe rows cols (m >>= fun g => .ok (e.setActive g)) := by
  obtain ⟨g, hg, hok⟩ := hm
  exact ⟨e.setActive g, by simp only [hg, bind, Except.bind], setActive_inv h hok⟩

/-- The body of a breaking loop: a grid step that goes on. -/
theorem brkStep_ok {rows cols : Nat} {m : M Grid} (hm : ∃ g, m = .ok g ∧ GridOk g rows cols) :
    ∃ r : Grid × Bool, (m >>= fun g' => .ok (g', true)) = .ok r ∧ GridOk r.1 rows cols := by
  obtain ⟨g, hg, hok⟩ := hm
  exact ⟨(g, true), by simp only [hg, bind, Except.bind], hok⟩

/-! ### ED -/

theorem ed_safe {e : Emu} {rows cols : Nat} (h : EmuInv e rows cols) (d : Dim rows cols) (n : Int) :
    Safe rows cols (ed e n) := by
  have h' := inv_lastCol h false
  have hh := height_eq h'
  have hw := width_eq h' d.r1
  have hg := active_ok h'
  have := h.rowLo; have := h.rowHi; have := h.colLo; have := h.colHi
  have := d.rmax; have := d.cmax
  unfold ed
  split
  · refine safe_setActive h' ?_
    refine forUp_ok (fun g => GridOk g rows cols) _ _ _ _ (by rw [hh, hangLimit_val]; simp only; omega) hg ?_
    intro r g hr0 hr1 hgr
    rw [hh] at hr1
    simp only at hr0
    refine forUp_ok (fun g => GridOk g rows cols) _ _ _ _ (by rw [hw, hangLimit_val]; omega) hgr ?_
    intro c g hc0 hc1 hgc
    rw [hw] at hc1
    split
    · exact ⟨g, rfl, hgc⟩
    · exact modCell_ok hgc r c _ (by omega) (by omega) hc0 (by omega)
  · split
    · refine safe_setActive h' ?_
      refine forUp_ok (fun g => GridOk g rows cols) _ _ _ _ (by rw [hangLimit_val]; simp only; omega) hg ?_
      intro r g hr0 hr1 hgr
      simp only at hr1
      refine forUpBrk_ok (fun g => GridOk g rows cols) _ _ _ _ (by rw [hw, hangLimit_val]; omega) hgr ?_
      intro c g hc0 hc1 hgc
      rw [hw] at hc1
      split
      · exact ⟨(g, false), rfl, hgc⟩
      · exact brkStep_ok (modCell_ok hgc r c _ (by omega) (by omega) hc0 (by omega))
    · split
      · refine safe_setActive h' ?_
        refine forUp_ok (fun g => GridOk g rows cols) _ _ _ _ (by rw [hh, hangLimit_val]; omega) hg ?_
        intro r g hr0 hr1 hgr
        rw [hh] at hr1
        refine forUp_ok (fun g => GridOk g rows cols) _ _ _ _ (by rw [hw, hangLimit_val]; omega) hgr ?_
        intro c g hc0 hc1 hgc
        rw [hw] at hc1
        exact modCell_ok hgc r c _ (by omega) (by omega) hc0 (by omega)
      · exact Safe.ok h

/-! ### EL -/

theorem el_safe {e : Emu} {rows cols : Nat} (h : EmuInv e rows cols) (d : Dim rows cols) (n : Int) :
    Safe rows cols (el Fixes.current e n) := by
  have h' := inv_lastCol h false
  have hw := width_eq h' d.r1
  have hg := active_ok h'
  have := h.rowLo; have := h.rowHi; have := h.colLo; have := h.colHi
  have := d.rmax; have := d.cmax
  have hc : (cols : Int) ≤ hangLimit := by rw [hangLimit_val]; omega
  unfold el
  simp only [Fixes.current, Bool.true_and]
  split
  · refine safe_setActive h' ?_
    rw [hw]
    exact eraseCols_ok hg _ _ _ _ (by omega) (by omega) (by omega) (by omega) hc
  · split
    · refine safe_setActive h' ?_
      rw [hw]
      refine eraseCols_ok hg _ _ _ _ (by omega) (by omega) (by omega) ?_ hc
      simp only [decide_eq_true_eq]
      split <;> omega
    · split
      · refine safe_setActive h' ?_
        rw [hw]
        exact eraseCols_ok hg _ _ _ _ (by omega) (by omega) (by omega) (by omega) hc
      · exact Safe.ok h'

/-! ### ECH -/

/-- Breaking loop with an invariant on the index as well: the body may rely on `I i`, which it
    re-establishes for `i + 1` whenever it does not break. -/
theorem forUpBrkGo_okI {σ : Type} (P : σ → Prop) (I : Int → Prop) (body : Int → σ → M (σ × Bool)) :
    ∀ (n : Nat) (i0 : Int) (s : σ), P s → I i0 →
      (∀ i s, i0 ≤ i → i < i0 + n → I i → P s →
        ∃ r, body i s = .ok r ∧ P r.1 ∧ (r.2 = true → I (i + 1))) →
      ∃ r, forUpBrkGo body n i0 s = .ok r ∧ P r.1 := by
  intro n
  induction n with
  | zero => intro i0 s hs _ _; exact ⟨(s, false), rfl, hs⟩
  | succ n ih =>
    intro i0 s hs hi hb
    obtain ⟨⟨s1, go⟩, h1, hp1, hi1⟩ := hb i0 s (by omega) (by omega) hi hs
    cases go with
    | false => exact ⟨(s1, true), by simp only [forUpBrkGo, h1, bind, Except.bind]; rfl, hp1⟩
    | true =>
      obtain ⟨r2, h2, hp2⟩ := ih (i0 + 1) s1 hp1 (hi1 rfl)
        (fun i s hi1 hi2 hI hp => hb i s (by omega) (by omega) hI hp)
      exact ⟨r2, by simp only [forUpBrkGo, h1, bind, Except.bind, h2, if_true], hp2⟩

theorem forUpBrk_okI {σ : Type} (P : σ → Prop) (I : Int → Prop) (body : Int → σ → M (σ × Bool))
    (lo hi : Int) (s : σ) (hn : hi + 1 - lo ≤ (hangLimit : Int)) (hs : P s) (hI : I lo)
    (hb : ∀ i s, lo ≤ i → i ≤ hi → I i → P s →
      ∃ r, body i s = .ok r ∧ P r.1 ∧ (r.2 = true → I (i + 1))) :
    ∃ s', forUpBrk body (lo := lo) (hi := hi) s = .ok s' ∧ P s' := by
  unfold forUpBrk
  have hle : (hi + 1 - lo).toNat ≤ hangLimit := by omega
  simp only [hle, if_true]
  obtain ⟨r, hr, hp⟩ := forUpBrkGo_okI P I body (hi + 1 - lo).toNat lo s hs hI
    (fun i s h1 h2 hI hp => hb i s h1 (by omega) hI hp)
  exact ⟨r.1, by rw [hr]; rfl, hp⟩

theorem ech_safe {e : Emu} {rows cols : Nat} (h : EmuInv e rows cols) (d : Dim rows cols)
    {n : Int} (hn : POk n) : Safe rows cols (ech e n) := by
  have h' := inv_lastCol h false
  have hw := width_eq h' d.r1
  have hg := active_ok h'
  have hd := dflt1_ok hn
  have := h.rowLo; have := h.rowHi; have := h.colLo; have := h.colHi
  unfold ech
  refine safe_setActive h' ?_
  refine forUpBrk_okI (fun g => GridOk g rows cols) (fun i => e.cur.col + i ≤ cols) _ _ _ _
    (by rw [hangLimit_val]; omega) hg (by omega) ?_
  intro i g hi0 hi1 hI hgi
  rw [hw]
  simp only
  split
  · exact ⟨(g, false), rfl, hgi, fun hf => by simp at hf⟩
  · obtain ⟨g', hg', hok⟩ := modCell_ok hgi e.cur.row (e.cur.col + i) (·.erase (Emu.bg { e with lastCol := false }))
      (by omega) (by omega) (by omega) (by omega)
    exact ⟨(g', true), by simp only [hg', bind, Except.bind], hok, fun _ => by omega⟩

/-! ### sequencing -/

theorem safe_bind {α : Type} {rows cols : Nat} (P : α → Prop) {m : M α} {f : α → M Emu}
    (hm : ∃ a, m = .ok a ∧ P a) (hf : ∀ a, P a → Safe rows cols (f a)) :
    Safe rows cols (m >>= f) := by
  obtain ⟨a, ha, hp⟩ := hm
  obtain ⟨e', he', hi⟩ := hf a hp
  exact ⟨e', by simp only [ha, bind, Except.bind, he'], hi⟩

/-- A row of the active grid, read by a checked access. -/
theorem getRow_ok {g : Grid} {rows cols : Nat} (h : GridOk g rows cols) (r : Int)
    (hr0 : 0 ≤ r) (hr1 : r < rows) : ∃ row, getI g r = .ok row ∧ row.length = cols := by
  obtain ⟨row, hrow, hmem⟩ := getI_ok g r hr0 (by rw [h.len]; exact hr1)
  exact ⟨row, hrow, h.rowLen _ hmem⟩

/-! ### DCH -/

/-- `g[r][c] = g[r][c2]` -/
theorem moveCell_ok {g : Grid} {rows cols : Nat} (h : GridOk g rows cols) (r c c2 : Int)
    (hr0 : 0 ≤ r) (hr1 : r < rows) (hc0 : 0 ≤ c) (hc1 : c < cols) (hd0 : 0 ≤ c2) (hd1 : c2 < cols) :
    ∃ g', (do
        let row ← getI g r
        let x ← getI row c2
        let row' ← setI row c x
        setI g r row') = .ok g' ∧ GridOk g' rows cols := by
  obtain ⟨row, hrow, hlen⟩ := getRow_ok h r hr0 hr1
  obtain ⟨x, hx, _⟩ := getI_ok row c2 hd0 (by rw [hlen]; exact hd1)
  have hs := setI_ok row c x hc0 (by rw [hlen]; exact hc1)
  have hs2 := setI_ok g r (row.set c.toNat x) hr0 (by rw [h.len]; exact hr1)
  simp only [hrow, hx, hs, hs2, bind, Except.bind]
  exact ⟨_, rfl, gridOk_set h _ _ (by simp [hlen])⟩

theorem dch_safe {e : Emu} {rows cols : Nat} (h : EmuInv e rows cols) (d : Dim rows cols)
    {n : Int} (hn : POk n) : Safe rows cols (dch e n) := by
  have h' := inv_lastCol h false
  have hg := active_ok h'
  have hd := dflt1_ok hn
  have := h.rowLo; have := h.rowHi; have := h.colLo; have := h.colHi; have := h.right
  have := d.cmax
  unfold dch
  refine safe_setActive h' ?_
  refine forUp_ok (fun g => GridOk g rows cols) _ _ _ _ (by rw [hangLimit_val]; simp only; omega) hg ?_
  intro c g hc0 hc1 hgc
  simp only at hc0 hc1 ⊢
  split
  · exact modCell_ok hgc _ c _ (by omega) (by omega) (by omega) (by omega)
  · exact moveCell_ok hgc _ c (c + dflt1 n) (by omega) (by omega) (by omega) (by omega) (by omega) (by omega)

/-! ### ICH -/

theorem ich_safe {e : Emu} {rows cols : Nat} (h : EmuInv e rows cols) (d : Dim rows cols)
    {n : Int} (hn : POk n) : Safe rows cols (ich Fixes.current e n) := by
  have hg := active_ok h
  have hd := dflt1_ok hn
  have := h.rowLo; have := h.rowHi; have := h.colLo; have := h.colHi; have := h.right
  have := d.cmax
  unfold ich
  simp only [Fixes.current, Bool.not_true, Bool.false_and, Bool.false_eq_true, if_true, if_false,
    decide_eq_true_eq]
  refine safe_bind (fun l : Row => l.length = cols) (getRow_ok hg _ (by omega) (by omega)) ?_
  intro line hline
  refine safe_bind (fun l : Row => l.length = cols) ?_ ?_
  · refine forDown_ok (fun l : Row => l.length = cols) _ _ _ _ (by rw [hangLimit_val]; omega) hline ?_
    intro i l hi0 hi1 hl
    obtain ⟨x, hx, _⟩ := getI_ok l (i - dflt1 n) (by omega) (by omega)
    have hs := setI_ok l i x (by omega) (by omega)
    exact ⟨l.set i.toNat x, by simp only [hx, hs, bind, Except.bind], by simp [hl]⟩
  · intro line1 hline1
    refine safe_bind (fun l : Row => l.length = cols) ?_ ?_
    · refine forUpBrk_ok (fun l : Row => l.length = cols) _ _ _ _ (by rw [hangLimit_val]; omega) hline1 ?_
      intro i l hi0 hi1 hl
      split
      · exact ⟨(l, false), rfl, hl⟩
      · have hs := setI_ok l (e.cur.col + i) (({} : ECell).erase e.bg) (by omega) (by omega)
        exact ⟨(l.set (e.cur.col + i).toNat (({} : ECell).erase e.bg), true),
          by simp only [hs, bind, Except.bind], by simp [hl]⟩
    · intro line2 hline2
      have hs := setI_ok e.active e.cur.row line2 (by omega) (by rw [hg.len]; omega)
      rw [hs]
      exact ⟨_, rfl, setActive_inv h (gridOk_set hg _ _ hline2)⟩

/-! ### REP -/

theorem rep_safe {e : Emu} {rows cols : Nat} (h : EmuInv e rows cols) (d : Dim rows cols)
    {n : Int} (hn : POk n) : Safe rows cols (rep Fixes.current e n) := by
  have h' := inv_lastCol h false
  have hg := active_ok h'
  have := h.rowLo; have := h.rowHi; have := h.colLo; have := h.colHi; have := h.right
  have := d.cmax
  unfold rep
  simp only [Fixes.current, if_true]
  split
  · exact Safe.ok h'
  · rename_i hc
    refine safe_bind (fun l : Row => l.length = cols) (getRow_ok hg _ (by omega) (by omega)) ?_
    intro row hrow
    refine safe_bind (fun _ : ECell => True) ?_ ?_
    · obtain ⟨x, hx, _⟩ := getI_ok row (e.cur.col - 1) (by omega) (by omega)
      exact ⟨x, hx, trivial⟩
    · intro ch _
      refine safe_setActive h' ?_
      refine forUpBrk_ok (fun g => GridOk g rows cols) _ _ _ _ (by rw [hangLimit_val]; have := hn.2; omega) hg ?_
      intro i g hi0 hi1 hgi
      simp only [decide_eq_true_eq]
      split
      · exact ⟨(g, false), rfl, hgi⟩
      · exact brkStep_ok (modCell_ok hgi _ _ _ (by omega) (by omega) (by omega) (by omega))

/-! ### IL / DL -/

theorem ilClamp_bounds (e : Emu) {n : Int} (hn : POk n) (hrow : e.cur.row ≤ e.bottom) :
    0 ≤ ilClamp Fixes.current e n ∧ e.cur.row + ilClamp Fixes.current e n ≤ e.bottom + 1 ∧
      ilClamp Fixes.current e n ≤ 65535 := by
  have hd := dflt1_ok hn
  unfold ilClamp
  simp only [Fixes.current, if_true]
  split <;> omega

/-- Storing a grid and moving the cursor to the left margin. -/
theorem setActive_col0_inv {e : Emu} {rows cols : Nat} (h : EmuInv e rows cols) {g : Grid}
    (hg : GridOk g rows cols) :
    EmuInv { (e.setActive g) with cur := { e.cur with col := e.left } } rows cols := by
  have hi := setActive_inv h hg
  have := h.left0
  exact { hi with
    rowLo := by simp only; exact h.rowLo
    rowHi := by simp only; exact h.rowHi
    colLo := by simp only; omega
    colHi := by simp only; omega }

theorem il_safe {e : Emu} {rows cols : Nat} (h : EmuInv e rows cols) (d : Dim rows cols)
    {n : Int} (hn : POk n) : Safe rows cols (il Fixes.current e n) := by
  have h' := inv_lastCol h false
  have hg := active_ok h'
  have := h.rowLo; have := h.rowHi; have := h.colLo; have := h.colHi; have := h.right
  have := h.left0; have := h.topLo; have := h.botHi
  have := d.cmax; have := d.rmax
  have hc : (cols : Int) ≤ hangLimit := by rw [hangLimit_val]; omega
  unfold il
  simp only
  split
  · exact Safe.ok h'
  · rename_i hcond
    have hb := ilClamp_bounds { e with lastCol := false } hn (by simp only; omega)
    generalize ilClamp Fixes.current { e with lastCol := false } n = k at hb ⊢
    simp only at hb
    refine safe_bind (fun g => GridOk g rows cols) ?_ ?_
    · refine forDown_ok (fun g => GridOk g rows cols) _ _ _ _ (by rw [hangLimit_val]; omega) hg ?_
      intro r g hr0 hr1 hgr
      exact copyRow_ok hgr r (r - k) (by omega) (by omega) (by omega) (by omega)
    · intro g1 hg1
      refine safe_bind (fun g => GridOk g rows cols) ?_ ?_
      · refine forUp_ok (fun g => GridOk g rows cols) _ _ _ _ (by rw [hangLimit_val]; omega) hg1 ?_
        intro r g hr0 hr1 hgr
        exact eraseCols_ok hgr _ _ _ _ (by omega) (by omega) (by omega) (by omega) hc
      · intro g2 hg2
        exact Safe.ok (setActive_col0_inv h' hg2)

theorem dl_safe {e : Emu} {rows cols : Nat} (h : EmuInv e rows cols) (d : Dim rows cols)
    {n : Int} (hn : POk n) : Safe rows cols (dl Fixes.current e n) := by
  have h' := inv_lastCol h false
  have hg := active_ok h'
  have := h.rowLo; have := h.rowHi; have := h.colLo; have := h.colHi; have := h.right
  have := h.left0; have := h.topLo; have := h.botHi
  have := d.cmax; have := d.rmax
  have hc : (cols : Int) ≤ hangLimit := by rw [hangLimit_val]; omega
  unfold dl
  simp only
  split
  · exact Safe.ok h'
  · rename_i hcond
    have hb := ilClamp_bounds { e with lastCol := false } hn (by simp only; omega)
    generalize ilClamp Fixes.current { e with lastCol := false } n = k at hb ⊢
    simp only at hb
    refine safe_bind (fun g => GridOk g rows cols) ?_ ?_
    · refine forUp_ok (fun g => GridOk g rows cols) _ _ _ _ (by rw [hangLimit_val]; omega) hg ?_
      intro r g hr0 hr1 hgr
      split
      · exact copyRow_ok hgr r (r + k) (by omega) (by omega) (by omega) (by omega)
      · exact eraseCols_ok hgr _ _ _ _ (by omega) (by omega) (by omega) (by omega) hc
    · intro g1 hg1
      exact Safe.ok (setActive_col0_inv h' hg1)

/-! ### CNL / CPL -/

theorem cnl_safe {e : Emu} {rows cols : Nat} (h : EmuInv e rows cols) (_d : Dim rows cols)
    {n : Int} (hn : POk n) : Safe rows cols (cnl Fixes.current e n) := by
  have hi1 := cud_inv h hn
  have := hi1.left0
  unfold cnl
  simp only [show Fixes.current.f54 = true from rfl, if_true]
  exact Safe.ok { hi1 with colLo := by simp only; omega, colHi := by simp only; omega }

theorem cpl_safe {e : Emu} {rows cols : Nat} (h : EmuInv e rows cols) (_d : Dim rows cols)
    {n : Int} (hn : POk n) : Safe rows cols (cpl Fixes.current e n) := by
  have hi1 := cuu_inv h hn
  have := hi1.left0
  unfold cpl
  simp only [show Fixes.current.f54 = true from rfl, if_true]
  exact Safe.ok { hi1 with colLo := by simp only; omega, colHi := by simp only; omega }

/-! ### DECRC / DECRST -/

theorem decrc_inv' {e : Emu} {rows cols : Nat} (h : EmuInv e rows cols) :
    EmuInv (decrc e) rows cols := by
  unfold decrc
  simp only
  split
  · exact { h with rowLo := h.savedA.rowLo, rowHi := h.savedA.rowHi,
                   colLo := h.savedA.colLo, colHi := h.savedA.colHi }
  · exact { h with rowLo := h.savedP.rowLo, rowHi := h.savedP.rowHi,
                   colLo := h.savedP.colLo, colHi := h.savedP.colHi }

theorem inv_mode3 {e : Emu} {rows cols : Nat} (h : EmuInv e rows cols) (m : Modes) :
    EmuInv { e with mode := m } rows cols := { h with }

theorem decrstOne_safe {e : Emu} {rows cols : Nat} (h : EmuInv e rows cols) (d : Dim rows cols)
    (p : Param) : Safe rows cols (decrstOne e p) := by
  unfold decrstOne
  split
  · exact Safe.ok (inv_mode3 h _)
  · split
    · exact Safe.ok { h with }
    · split
      · simp only
        split
        · refine safe_bind (fun e => EmuInv e rows cols) (ed_safe h d 2) ?_
          intro e1 hi1
          exact Safe.ok (decrc_inv' { hi1 with })
        · exact Safe.ok (decrc_inv' { h with })
      · exact Safe.ok h

theorem decrst_safe {e : Emu} {rows cols : Nat} (h : EmuInv e rows cols) (d : Dim rows cols)
    (pm : List Param) : Safe rows cols (decrst e pm) := by
  unfold decrst
  induction pm generalizing e with
  | nil => exact Safe.ok h
  | cons p rest ih =>
    rw [List.foldlM_cons]
    exact safe_bind (fun e => EmuInv e rows cols) (decrstOne_safe h d p) (fun e1 hi1 => ih hi1)

/-! ### decset (1049 saves the cursor, switches to the alternate screen and clears it) -/

theorem decsc_inv3 {e : Emu} {rows cols : Nat} (h : EmuInv e rows cols) : EmuInv (decsc e) rows cols := by
  unfold decsc
  split
  · exact { h with savedA := ⟨h.rowLo, h.rowHi, h.colLo, h.colHi⟩ }
  · exact { h with savedP := ⟨h.rowLo, h.rowHi, h.colLo, h.colHi⟩ }

theorem decsetOne_safe {e : Emu} {rows cols : Nat} (h : EmuInv e rows cols) (d : Dim rows cols)
    (p : Param) : Safe rows cols (decsetOne Fixes.current e p) := by
  unfold decsetOne
  split
  · exact Safe.ok (inv_mode3 h _)
  · split
    · exact Safe.ok { h with }
    · split
      · have h2 : EmuInv { decsc e with altActive := true } rows cols := { decsc_inv3 h with }
        have hf : Fixes.current.f106c = true := rfl
        simp only [hf, if_true]
        refine safe_bind (fun e => EmuInv e rows cols) (ed_safe h2 d 2) ?_
        intro e1 hi1
        exact Safe.ok (inv_mode3 hi1 _)
      · exact Safe.ok h

theorem decset_safe {e : Emu} {rows cols : Nat} (h : EmuInv e rows cols) (d : Dim rows cols)
    (pm : List Param) : Safe rows cols (decset Fixes.current e pm) := by
  unfold decset
  induction pm generalizing e with
  | nil => exact Safe.ok h
  | cons p rest ih =>
    rw [List.foldlM_cons]
    exact safe_bind (fun e => EmuInv e rows cols) (decsetOne_safe h d p) (fun e1 hi1 => ih hi1)

end VaxisModel.Lemmas.Emu
