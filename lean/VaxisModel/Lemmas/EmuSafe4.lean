/-
Per-operation safety of the emulator model, part 4: `print` (every glyph, every width, also widths
larger than the screen) and `resize` / `Emu.new`.
-/
import VaxisModel.Lemmas.EmuSafe1

namespace VaxisModel.Lemmas.Emu
open VaxisModel.Model.Emu

/-! ### a `break` rule for `forUpBrk`

`forUpBrk_ok` needs the trip count to be at most `hangLimit`. The trailing-cells loop of `print`
has the trip count `w - 1` (any width) but leaves through `break` after at most `cols`
iterations. The rule below only asks the body to break from iteration `lo + k` on, `k < hangLimit`. -/

theorem forUpBrkGo_brk {σ : Type} (P : σ → Prop) (body : Int → σ → M (σ × Bool)) :
    ∀ (n k : Nat) (i0 : Int) (s : σ), k < n → P s →
      (∀ i s, i0 ≤ i → P s → ∃ r, body i s = .ok r ∧ P r.1 ∧ (i0 + k ≤ i → r.2 = false)) →
      ∃ r, forUpBrkGo body n i0 s = .ok r ∧ P r.1 ∧ r.2 = true := by
  intro n
  induction n with
  | zero => intro k i0 s hk; omega
  | succ n ih =>
    intro k i0 s hk hs hb
    obtain ⟨⟨s1, go⟩, h1, hp1, hbr⟩ := hb i0 s (by omega) hs
    cases go with
    | false => exact ⟨(s1, true), by simp only [forUpBrkGo, h1, bind, Except.bind]; rfl, hp1, rfl⟩
    | true =>
      cases k with
      | zero => exact absurd (hbr (by omega)) (by simp)
      | succ k =>
        obtain ⟨r2, h2, hp2, hb2⟩ := ih k (i0 + 1) s1 (by omega) hp1
          (fun i s hi hp => by
            obtain ⟨r, hr, hpr, hbr⟩ := hb i s (by omega) hp
            exact ⟨r, hr, hpr, fun hik => hbr (by omega)⟩)
        exact ⟨r2, by simp only [forUpBrkGo, h1, bind, Except.bind, h2, if_true], hp2, hb2⟩

theorem forUpBrk_brk_ok {σ : Type} (P : σ → Prop) (body : Int → σ → M (σ × Bool)) (lo hi : Int) (s : σ)
    (k : Nat) (hk : k < hangLimit) (hs : P s)
    (hb : ∀ i s, lo ≤ i → P s → ∃ r, body i s = .ok r ∧ P r.1 ∧ (lo + k ≤ i → r.2 = false)) :
    ∃ s', forUpBrk lo hi body s = .ok s' ∧ P s' := by
  unfold forUpBrk
  simp only
  split
  · obtain ⟨r, hr, hp⟩ := forUpBrkGo_ok P body (hi + 1 - lo).toNat lo s hs
      (fun i s h1 _ hp => by
        obtain ⟨r, hr, hpr, _⟩ := hb i s h1 hp
        exact ⟨r, hr, hpr⟩)
    exact ⟨r.1, by rw [hr]; rfl, hp⟩
  · obtain ⟨r, hr, hp, hbk⟩ := forUpBrkGo_brk P body hangLimit k lo s hk hs hb
    obtain ⟨s', b⟩ := r
    simp only at hbk hp
    subst hbk
    exact ⟨s', by rw [hr]; rfl, hp⟩

theorem exceptOk_bind {α β : Type} (x : α) (k : α → M β) : (Except.ok x >>= k) = k x := rfl

/-! ### `print` cut into its phases -/

/-- the single shift: only `cs` changes -/
def printPre (e : Emu) : Emu :=
  if e.cs.ss then { e with cs := { e.cs with sel := e.cs.saved } } else e

/-- the charset translation: only the glyph changes -/
def printGlyph (e : Emu) (g0 : G) : G :=
  match g0 with
  | [b] => if e.cs.desig e.cs.sel = 1 then (lookupSpecial b).getD g0 else g0
  | _ => g0

/-- the cursor advance (with F103 repaired) -/
def printAdvance (e : Emu) (wi : Int) : Emu :=
  let e :=
    if !e.mode.decawm && decide (e.cur.col + wi > e.right) then e
    else { e with cur := { e.cur with col := e.cur.col + wi } }
  let e :=
    if decide (e.cur.col > e.right + 1) then { e with cur := { e.cur with col := e.right + 1 } } else e
  if decide (e.cur.col ≥ e.right + 1) && e.mode.decawm then { e with lastCol := true } else e

/-- the write phase at the clamped position `(rw, col)` -/
def printWrite (e : Emu) (g : G) (w : Nat) (col rw : Int) : M Emu :=
  if w = 0 then .ok e
  else do
    let cell : ECell := { g := g, w := w, st := e.cur.st }
    let row ← getI e.active rw
    let row' ← setI row col cell
    let g1 ← setI e.active rw row'
    let g2 ← forUpBrk 1 ((w : Int) - 1) (fun i gr =>
      if col + i > e.right then .ok (gr, false)
      else do
        let gr' ← modCell gr rw (col + i) (fun c => { c with g := [32], st := e.cur.st })
        .ok (gr', true)) g1
    .ok (printAdvance (e.setActive g2) w)

/-- the write phase at the clamped position -/
def printK2 (col0 rw0 : Int) (g : G) (w : Nat) (e : Emu) : M Emu :=
  printWrite e g w (if col0 > e.width - 1 then e.width - 1 else col0)
    (if rw0 > e.height - 1 then e.height - 1 else rw0)

/-- the insert-mode phase (with F16 repaired), then the write phase -/
def printK1 (g : G) (w : Nat) (e : Emu) : M Emu :=
  if e.mode.irm = true then do
    let line ← getI e.active e.cur.row
    let line' ← forDown e.right (e.cur.col + (w : Int)) (fun i line => do
        let x ← getI line (i - (w : Int))
        setI line i x) line
    let g' ← setI e.active e.cur.row line'
    printK2 e.cur.col e.cur.row g w (e.setActive g')
  else printK2 e.cur.col e.cur.row g w e

/-- the autowrap phase, then the rest -/
def printK0 (g : G) (w : Nat) (e : Emu) : M Emu :=
  if ((e.lastCol || decide (e.cur.col + (w : Int) - 1 > e.right)) && e.mode.decawm) = true then do
    let e' := { e with lastCol := false }
    let g' ← modCell e'.active e'.cur.row (e'.width - 1) (fun c => { c with wrapped := true })
    let e1 ← nel (e'.setActive g')
    printK1 g w e1
  else printK1 g w e

/-- `print` of the model (current code) is the composition of the phases; the shape follows the
    join points of the `do` block, so this holds by unfolding. -/
theorem print_eq (e : Emu) (g0 : G) (w : Nat) :
    print Fixes.current e g0 w = printK0 (printGlyph e g0) w (printPre e) := rfl

/-! ### safety of the phases -/

theorem printPre_inv {e : Emu} {rows cols : Nat} (h : EmuInv e rows cols) : EmuInv (printPre e) rows cols := by
  unfold printPre
  split
  · exact { h with }
  · exact h

theorem printAdvance_inv {e : Emu} {rows cols : Nat} (h : EmuInv e rows cols) (w : Nat) :
    EmuInv (printAdvance e w) rows cols := by
  have := h.colLo; have := h.colHi; have := h.right
  unfold printAdvance
  simp only
  split <;> split <;> split <;>
    refine { h with colLo := ?_, colHi := ?_ } <;>
    simp only [decide_eq_true_eq, Bool.and_eq_true, Bool.not_eq_true'] at * <;> omega

theorem printWrite_safe {e : Emu} {rows cols : Nat} (h : EmuInv e rows cols) (d : Dim rows cols)
    (g : G) (w : Nat) (col rw : Int) (hc0 : 0 ≤ col) (hc1 : col < cols) (hr0 : 0 ≤ rw) (hr1 : rw < rows) :
    Safe rows cols (printWrite e g w col rw) := by
  have hg := active_ok h
  have hright := h.right
  have hcm := d.cmax
  unfold printWrite
  split
  · exact Safe.ok h
  · obtain ⟨row, hrow, hmem⟩ := getI_ok e.active rw hr0 (by rw [hg.len]; exact hr1)
    have hlen := hg.rowLen _ hmem
    have hs1 := setI_ok row col { g := g, w := w, st := e.cur.st } hc0 (by rw [hlen]; exact hc1)
    have hs2 := setI_ok e.active rw (row.set col.toNat { g := g, w := w, st := e.cur.st }) hr0
      (by rw [hg.len]; exact hr1)
    have hg1 : GridOk (e.active.set rw.toNat (row.set col.toNat { g := g, w := w, st := e.cur.st })) rows cols :=
      gridOk_set hg _ _ (by simp [hlen])
    obtain ⟨g2, hg2, hok2⟩ := forUpBrk_brk_ok (fun g => GridOk g rows cols) (fun i gr =>
        if col + i > e.right then .ok (gr, false)
        else do
          let gr' ← modCell gr rw (col + i) (fun c => { c with g := [32], st := e.cur.st })
          .ok (gr', true)) 1 ((w : Int) - 1) _ cols (by unfold hangLimit; omega) hg1
      (by
        intro i gr hi hgr
        split
        · exact ⟨(gr, false), rfl, hgr, fun _ => rfl⟩
        · rename_i hlt
          obtain ⟨gr', hgr', hok'⟩ := modCell_ok hgr rw (col + i)
            (fun c => { c with g := [32], st := e.cur.st }) hr0 hr1 (by omega) (by omega)
          refine ⟨(gr', true), by simp only [hgr', bind, Except.bind], hok', ?_⟩
          intro hik
          omega)
    simp only [hrow, hs1, hs2, hg2, exceptOk_bind]
    exact Safe.ok (printAdvance_inv (setActive_inv h hok2) w)

theorem printK2_safe {e : Emu} {rows cols : Nat} (h : EmuInv e rows cols) (d : Dim rows cols)
    (g : G) (w : Nat) (col0 rw0 : Int) (hc0 : 0 ≤ col0) (hr0 : 0 ≤ rw0) :
    Safe rows cols (printK2 col0 rw0 g w e) := by
  have hh := height_eq h
  have hw := width_eq h d.r1
  have := d.r1; have := d.c1
  unfold printK2
  rw [hh, hw]
  apply printWrite_safe h d <;> split <;> omega

theorem printK1_safe {e : Emu} {rows cols : Nat} (h : EmuInv e rows cols) (d : Dim rows cols)
    (g : G) (w : Nat) : Safe rows cols (printK1 g w e) := by
  have hg := active_ok h
  have hright := h.right
  have hcm := d.cmax
  have hc0 := h.colLo
  unfold printK1
  split
  · obtain ⟨line, hl, hmem⟩ := getI_ok e.active e.cur.row h.rowLo (by rw [hg.len]; exact h.rowHi)
    have hlen := hg.rowLen _ hmem
    obtain ⟨line', hl', hlen'⟩ := forDown_ok (fun l : Row => l.length = cols) (fun i line => do
          let x ← getI line (i - (w : Int))
          setI line i x) e.right (e.cur.col + (w : Int)) line (by rw [hangLimit_val]; omega) hlen
      (by
        intro i l h1 h2 hll
        obtain ⟨x, hx, _⟩ := getI_ok l (i - (w : Int)) (by omega) (by omega)
        have hs := setI_ok l i x (by omega) (by omega)
        simp only [hx, hs, exceptOk_bind]
        exact ⟨_, rfl, by simp [hll]⟩)
    have hs := setI_ok e.active e.cur.row line' h.rowLo (by rw [hg.len]; exact h.rowHi)
    simp only [hl, hl', hs, exceptOk_bind]
    exact printK2_safe (setActive_inv h (gridOk_set hg _ _ hlen')) d g w _ _ hc0 h.rowLo
  · exact printK2_safe h d g w _ _ hc0 h.rowLo

theorem printK0_safe {e : Emu} {rows cols : Nat} (h : EmuInv e rows cols) (d : Dim rows cols)
    (g : G) (w : Nat) : Safe rows cols (printK0 g w e) := by
  unfold printK0
  split
  · have h' := inv_lastCol h false
    have hw := width_eq h' d.r1
    have := d.c1
    obtain ⟨g', hg', hok'⟩ := modCell_ok (active_ok h') e.cur.row ({ e with lastCol := false }.width - 1)
      (fun c => { c with wrapped := true }) h.rowLo h.rowHi (by rw [hw]; omega) (by rw [hw]; omega)
    obtain ⟨e1, he1, hi1⟩ := nel_safe (setActive_inv h' hok') d
    simp only [hg', he1, exceptOk_bind]
    exact printK1_safe hi1 d g w
  · exact printK1_safe h d g w

/-- `print` never panics or hangs and re-establishes the invariant: every glyph, every width
    (zero, wide, wider than the screen), insert mode, autowrap on or off, pending wrap. -/
theorem print_safe {e : Emu} {rows cols : Nat} (h : EmuInv e rows cols) (d : Dim rows cols)
    (g : G) (w : Nat) : Safe rows cols (print Fixes.current e g w) := by
  rw [print_eq]
  exact printK0_safe (printPre_inv h) d _ w

/-! ### `resize` -/

theorem blankGrid_ok' (w h : Nat) : GridOk (blankGrid w h) h w := by
  unfold blankGrid
  refine ⟨List.length_replicate, ?_⟩
  intro r hr
  rw [(List.mem_replicate.mp hr).2]
  exact List.length_replicate

theorem inv_pen' {e : Emu} {rows cols : Nat} (h : EmuInv e rows cols) (st : EStyle) :
    EmuInv { e with cur := { e.cur with st := st } } rows cols := { h with }

theorem reflowFold_safe {rows cols : Nat} (d : Dim rows cols) (cells : Row) :
    ∀ (acc : Emu × Bool), EmuInv acc.1 rows cols →
      ∃ r, cells.foldlM (fun (acc : Emu × Bool) cell => do
        let e := { acc.1 with cur := { acc.1.cur with st := cell.st } }
        let e ← print Fixes.current e cell.g cell.w
        .ok (e, cell.wrapped)) acc = .ok r ∧ EmuInv r.1 rows cols := by
  induction cells with
  | nil => intro acc h; exact ⟨acc, rfl, h⟩
  | cons c cs ih =>
    intro acc h
    obtain ⟨e1, he1, hi1⟩ := print_safe (inv_pen' h c.st) d c.g c.w
    simp only [List.foldlM_cons, he1, exceptOk_bind]
    exact ih (e1, c.wrapped) hi1

/-- Re-printing one old row (any list of cells) keeps the invariant. -/
theorem reflowRow_safe {e : Emu} {rows cols : Nat} (h : EmuInv e rows cols) (d : Dim rows cols)
    (cells : Row) : ∃ r, reflowRow Fixes.current e cells = .ok r ∧ EmuInv r.1 rows cols := by
  unfold reflowRow
  exact reflowFold_safe d cells (e, false) h

/-- Re-printing the old screen (any list of rows of any lengths) keeps the invariant. -/
theorem reflow_safe {rows cols : Nat} (d : Dim rows cols) (last : Int) (old : List Row) :
    ∀ (k : Nat) (e : Emu), EmuInv e rows cols → Safe rows cols (reflow Fixes.current last old k e) := by
  induction old with
  | nil => intro k e h; exact Safe.ok h
  | cons r rest ih =>
    intro k e h
    unfold reflow
    split
    · exact Safe.ok h
    · obtain ⟨⟨e1, wr⟩, he1, hi1⟩ := reflowRow_safe h d r
      simp only [he1, exceptOk_bind]
      cases wr with
      | false =>
        obtain ⟨e2, he2, hi2⟩ := nel_safe hi1 d
        simp only [Bool.not_false, if_true, he2, exceptOk_bind]
        exact ih (k + 1) e2 hi2
      | true =>
        simp only [Bool.not_true, Bool.false_eq_true, if_false]
        exact ih (k + 1) e1 hi1

/-- resize(): a saved cursor after the F19 clamp -/
def clampSaved (s : Saved) (w h : Int) : Saved :=
  { s with cur := { s.cur with row := if s.cur.row > h - 1 then h - 1 else s.cur.row,
                               col := if s.cur.col > w - 1 then w - 1 else s.cur.col } }

/-- resize(): the state before the old screen is re-printed (current code) -/
def resizeInit (e : Emu) (w h : Int) : Emu :=
  { e with alt := blankGrid w.toNat h.toNat, primary := blankGrid w.toNat h.toNat,
           savedP := clampSaved e.savedP w h, savedA := clampSaved e.savedA w h,
           bottom := h - 1, right := w - 1, top := 0,
           cur := { e.cur with row := 0, col := 0 }, lastCol := false, altActive := false }

theorem resize_eq (e : Emu) (w h : Int) :
    resize Fixes.current e w h =
      (if w < 0 ∨ h < 0 then .error .oob
       else do
        let e1 ← reflow Fixes.current e.cur.row e.primary 0 (resizeInit e w h)
        .ok { e1 with cur := { e1.cur with st := e.cur.st }, altActive := e1.mode.smcup }) := rfl

theorem clampSaved_ok {s : Saved} {w h : Int} (hw : 1 ≤ w) (hh : 1 ≤ h)
    (hr : 0 ≤ s.cur.row) (hc : 0 ≤ s.cur.col) : SavedOk (clampSaved s w h) h.toNat w.toNat := by
  unfold clampSaved
  refine ⟨?_, ?_, ?_, ?_⟩ <;> simp only <;> split <;> omega

/-- What `resize` needs of the OLD state: nothing about its grids, cursor or margins. -/
structure ResizePre (e : Emu) : Prop where
  left0 : e.left = 0
  savedPRow : 0 ≤ e.savedP.cur.row
  savedPCol : 0 ≤ e.savedP.cur.col
  savedARow : 0 ≤ e.savedA.cur.row
  savedACol : 0 ≤ e.savedA.cur.col
  tabs : ∀ t ∈ e.tabs, 0 ≤ t

theorem resizeInit_inv {e : Emu} (p : ResizePre e) {w h : Int} (hw : 1 ≤ w) (hh : 1 ≤ h) :
    EmuInv (resizeInit e w h) h.toNat w.toNat := by
  unfold resizeInit
  exact {
    prim := blankGrid_ok' _ _
    alt := blankGrid_ok' _ _
    rowLo := by simp only; omega
    rowHi := by simp only; omega
    colLo := by simp only; omega
    colHi := by simp only; omega
    topLo := by simp only; omega
    topLe := by simp only; omega
    botHi := by simp only; omega
    left0 := p.left0
    right := by simp only; omega
    savedP := clampSaved_ok hw hh p.savedPRow p.savedPCol
    savedA := clampSaved_ok hw hh p.savedARow p.savedACol
    tabs := p.tabs }

theorem inv_altActive' {e : Emu} {rows cols : Nat} (h : EmuInv e rows cols) (b : Bool) :
    EmuInv { e with altActive := b } rows cols := { h with }

theorem resize_safe_gen {e : Emu} (p : ResizePre e) (w h : Int)
    (hw1 : 1 ≤ w) (hw2 : w ≤ 65535) (hh1 : 1 ≤ h) (hh2 : h ≤ 65535) :
    ∃ e', resize Fixes.current e w h = .ok e' ∧ EmuInv e' h.toNat w.toNat := by
  have d : Dim h.toNat w.toNat := ⟨by omega, by omega, by omega, by omega⟩
  have hneg : ¬ (w < 0 ∨ h < 0) := by omega
  obtain ⟨e1, he1, hi1⟩ := reflow_safe d e.cur.row e.primary 0 _ (resizeInit_inv p hw1 hh1)
  rw [resize_eq, if_neg hneg, he1, exceptOk_bind]
  exact ⟨_, rfl, { hi1 with }⟩

theorem resizePre_of_inv {e : Emu} {rows cols : Nat} (h : EmuInv e rows cols) : ResizePre e :=
  ⟨h.left0, h.savedP.rowLo, h.savedP.colLo, h.savedA.rowLo, h.savedA.colLo, h.tabs⟩

/-- `resize` to any size 1..65535 × 1..65535 never panics or hangs and establishes the invariant
    for the new size. -/
theorem resize_safe {e : Emu} {rows cols : Nat} (h : EmuInv e rows cols) (_d : Dim rows cols) (w hh : Int)
    (hw1 : 1 ≤ w) (hw2 : w ≤ 65535) (hh1 : 1 ≤ hh) (hh2 : hh ≤ 65535) :
    ∃ e', resize Fixes.current e w hh = .ok e' ∧ EmuInv e' hh.toNat w.toNat :=
  resize_safe_gen (resizePre_of_inv h) w hh hw1 hw2 hh1 hh2

theorem defaultTabs_nonneg' : ∀ t ∈ defaultTabs, 0 ≤ t := by
  intro t ht
  unfold defaultTabs at ht
  obtain ⟨k, _, hk⟩ := List.mem_map.mp ht
  rw [← hk]
  exact Int.natCast_nonneg _

theorem resizePre_init : ResizePre Emu.init :=
  ⟨rfl, by decide, by decide, by decide, by decide, defaultTabs_nonneg'⟩

/-- `New()` followed by the first `resize(w, h)` gives a state satisfying the invariant. -/
theorem new_safe (w h : Int) (hw1 : 1 ≤ w) (hw2 : w ≤ 65535) (hh1 : 1 ≤ h) (hh2 : h ≤ 65535) :
    ∃ e', Emu.new Fixes.current w h = .ok e' ∧ EmuInv e' h.toNat w.toNat := by
  unfold Emu.new
  exact resize_safe_gen resizePre_init w h hw1 hw2 hh1 hh2

/-- Non-vacuity: states satisfying `EmuInv` and `Dim` exist (e.g. a fresh 80×24 terminal), so
    `print_safe` / `resize_safe` are not vacuous. -/
example : ∃ e, EmuInv e 24 80 ∧ Dim 24 80 := by
  obtain ⟨e, _, h⟩ := new_safe 80 24 (by decide) (by decide) (by decide) (by decide)
  exact ⟨e, h, ⟨by decide, by decide, by decide, by decide⟩⟩

end VaxisModel.Lemmas.Emu
