/-
Helpers for the `Witness/Fnn.lean` files of C05/C06: run a list of operations on the emulator model
under a given set of repairs (`Fixes`) and observe the outcome through Bool observers (so that
`decide` can check it).
-/
import VaxisModel.Model.Emu
import VaxisModel.Model.EmuAbs
import VaxisModel.Spec.Term

namespace VaxisModel.Lemmas.EmuWitness
open VaxisModel.Model.Emu VaxisModel.Model.EmuAbs VaxisModel.Spec

def runF (fx : Fixes) (e : Emu) : List EOp → M Emu
  | [] => .ok e
  | op :: rest => do
    let (e', _) ← emuStepF fx e op
    runF fx e' rest

/-- `new w h` followed by the operations. -/
def play (fx : Fixes) (w h : Int) (ops : List EOp) : M Emu := do
  let e ← Emu.new fx w h
  runF fx e ops

def panics (r : M Emu) : Bool := match r with | .error .oob => true | _ => false
def hangs (r : M Emu) : Bool := match r with | .error .hang => true | _ => false

def gridOkB (g : Grid) (rows cols : Nat) : Bool :=
  g.length == rows && g.all (fun r => r.length == cols)

/-- The state clause of C05 as a Bool (cf. `EmuInv`). -/
def invB (e : Emu) (rows cols : Nat) : Bool :=
  gridOkB e.primary rows cols && gridOkB e.alt rows cols &&
  decide (0 ≤ e.cur.row) && decide (e.cur.row < rows) && decide (0 ≤ e.cur.col) && decide (e.cur.col ≤ cols) &&
  decide (0 ≤ e.top) && decide (e.top ≤ e.bottom) && decide (e.bottom < rows) &&
  decide (e.left = 0) && decide (e.right = (cols : Int) - 1)

/-- ran without panic/hang and the final state satisfies the state clause -/
def fine (r : M Emu) (rows cols : Nat) : Bool := match r with | .ok e => invB e rows cols | _ => false
/-- ran without panic/hang but the final state violates the state clause -/
def breaksInv (r : M Emu) (rows cols : Nat) : Bool := match r with | .ok e => !invB e rows cols | _ => false

/-- Run the reference terminal on the tokens of the operations, always taking the first accepted
    state; `none` if an operation is outside the vocabulary or unconstrained. -/
def specRun (t : Term.T) : List EOp → Option Term.T
  | [] => some t
  | op :: rest =>
    match tokOf op with
    | none => none
    | some tok =>
      match Term.step t tok with
      | .accept (t' :: _) => specRun t' rest
      | _ => none

/-- Does the emulator's final state show what the reference terminal requires (first alternative)? -/
def agrees (fx : Fixes) (w h : Nat) (ops : List EOp) : Bool :=
  match play fx w h ops, specRun (Term.T.init h w) ops with
  | .ok e, some t => t.accepts (abs e)
  | _, _ => false

/-- Both ran, and the emulator's final state is NOT what the reference requires. -/
def disagrees (fx : Fixes) (w h : Nat) (ops : List EOp) : Bool :=
  match play fx w h ops, specRun (Term.T.init h w) ops with
  | .ok e, some t => !t.accepts (abs e)
  | _, _ => false

/-- as `specRun`, over the extended vocabulary `tokOfX` -/
def specRunX (t : Term.T) : List EOp → Option Term.T
  | [] => some t
  | op :: rest =>
    match tokOfX op with
    | none => none
    | some tok =>
      match Term.step t tok with
      | .accept (t' :: _) => specRunX t' rest
      | _ => none

def agreesX (fx : Fixes) (w h : Nat) (ops : List EOp) : Bool :=
  match play fx w h ops, specRunX (Term.T.init h w) ops with
  | .ok e, some t => t.accepts (abs e)
  | _, _ => false

def disagreesX (fx : Fixes) (w h : Nat) (ops : List EOp) : Bool :=
  match play fx w h ops, specRunX (Term.T.init h w) ops with
  | .ok e, some t => !t.accepts (abs e)
  | _, _ => false

/-- as `specRunX`, over the oracle's vocabulary `tokOfJ` (colon sub-parameters outside SGR = ignored) -/
def specRunJ (t : Term.T) : List EOp → Option Term.T
  | [] => some t
  | op :: rest =>
    match tokOfJ op with
    | none => none
    | some tok =>
      match Term.step t tok with
      | .accept (t' :: _) => specRunJ t' rest
      | _ => none

def agreesJ (fx : Fixes) (w h : Nat) (ops : List EOp) : Bool :=
  match play fx w h ops, specRunJ (Term.T.init h w) ops with
  | .ok e, some t => t.accepts (abs e)
  | _, _ => false

def disagreesJ (fx : Fixes) (w h : Nat) (ops : List EOp) : Bool :=
  match play fx w h ops, specRunJ (Term.T.init h w) ops with
  | .ok e, some t => !t.accepts (abs e)
  | _, _ => false

/-! shorthand for writing operations -/
def pr (g : List Nat) (w : Nat := 1) : EOp := .print g w
def csi1 (final : Nat) (ps : List Int := []) : EOp := .csi [final] (ps.map fun p => (p, []))

end VaxisModel.Lemmas.EmuWitness
