/-
C20, round 3: the integer arithmetic behind `Lemmas.FloatStd` — if two successive operations are each within
relative error `1/(F+1)` of their exact results (quotient `N/P ≈ a/b`, product `M/Q ≈ (N/P)·x`), the truncated
product is `⌊a·x/b⌋`, or one less exactly when the exact value is an integer, as long as `2·a·x ≤ F`; and two
rounded quotients compare like the exact ones as long as `2·a·d < F`.  Imports nothing.
-/
namespace VaxisModel.Lemmas.FloatArith

theorem fin_upper (E Y X : Nat) (s8 : X ≤ (E + 1) * (E + 1) * Y) (hR : 2 * Y < E) : X < E * E * (Y + 1) := by
  have e1 : (E + 1) * (E + 1) * Y = E * E * Y + 2 * (E * Y) + Y := by grind
  have e2 : E * E * (Y + 1) = E * E * Y + E * E := by grind
  have s9 : (2 * Y + 1) * E ≤ E * E := Nat.mul_le_mul_right E (by omega)
  have e3 : (2 * Y + 1) * E = 2 * (E * Y) + E := by grind
  omega

theorem fin_lower (F Y Z : Nat) (t8 : F * F * Y < (F + 1) * (F + 1) * Z) (hR : 2 * Y < F + 1) : Y ≤ Z := by
  apply Nat.le_of_not_lt
  intro hlt
  have u1 : (F + 1) * (F + 1) * (Z + 1) ≤ (F + 1) * (F + 1) * Y := Nat.mul_le_mul_left _ hlt
  have e1 : (F + 1) * (F + 1) * (Z + 1) = (F + 1) * (F + 1) * Z + (F * F + 2 * F + 1) := by grind
  have e2 : (F + 1) * (F + 1) * Y = F * F * Y + 2 * (F * Y) + Y := by grind
  have u2 : (2 * Y) * F ≤ F * F := Nat.mul_le_mul_right F (by omega)
  have e3 : (2 * Y) * F = 2 * (F * Y) := by grind
  omega

theorem trunc_upper (E a b x N P M Q r : Nat) (hP : 0 < P) (hQ : 0 < Q)
    (hD : E * (N * b) ≤ (E + 1) * (a * P))
    (hM : E * (M * P) ≤ (E + 1) * (N * x * Q))
    (hT : r * Q ≤ M)
    (hR : 2 * (a * x) < E) : r * b ≤ a * x := by
  have s1 : E * (r * Q * P) ≤ E * (M * P) := Nat.mul_le_mul_left _ (Nat.mul_le_mul_right _ hT)
  have s2 : E * (r * Q * P) ≤ (E + 1) * (N * x * Q) := Nat.le_trans s1 hM
  have s3 : (E * (r * P)) * Q ≤ ((E + 1) * (N * x)) * Q := by grind
  have s4 : E * (r * P) ≤ (E + 1) * (N * x) := Nat.le_of_mul_le_mul_right s3 hQ
  have s5 : (E * (r * P)) * (E * b) ≤ ((E + 1) * (N * x)) * (E * b) := Nat.mul_le_mul_right _ s4
  have s6 : ((E + 1) * x) * (E * (N * b)) ≤ ((E + 1) * x) * ((E + 1) * (a * P)) := Nat.mul_le_mul_left _ hD
  have s7 : (E * E * (r * b)) * P ≤ ((E + 1) * (E + 1) * (a * x)) * P := by grind
  have s8 : E * E * (r * b) ≤ (E + 1) * (E + 1) * (a * x) := Nat.le_of_mul_le_mul_right s7 hP
  have s10 : E * E * (r * b) < E * E * (a * x + 1) := fin_upper E (a * x) _ s8 hR
  have := Nat.lt_of_mul_lt_mul_left s10
  omega

theorem trunc_lower (F a b x N P M Q r : Nat) (hP : 0 < P) (_hQ : 0 < Q) (hb : 0 < b)
    (hD : F * (a * P) ≤ (F + 1) * (N * b))
    (hM : F * (N * x * Q) ≤ (F + 1) * (M * P))
    (hT : M < (r + 1) * Q)
    (hR : 2 * (a * x) < F + 1) : a * x ≤ (r + 1) * b := by
  have t1 : (F + 1) * (M * P) < (F + 1) * ((r + 1) * Q * P) :=
    Nat.mul_lt_mul_of_pos_left (Nat.mul_lt_mul_of_pos_right hT hP) (by omega)
  have t2 : F * (N * x * Q) < (F + 1) * ((r + 1) * Q * P) := Nat.lt_of_le_of_lt hM t1
  have t3 : (F * (N * x)) * Q < ((F + 1) * ((r + 1) * P)) * Q := by grind
  have t4 : F * (N * x) < (F + 1) * ((r + 1) * P) := Nat.lt_of_mul_lt_mul_right t3
  have t5 : (F * (N * x)) * ((F + 1) * b) < ((F + 1) * ((r + 1) * P)) * ((F + 1) * b) :=
    Nat.mul_lt_mul_of_pos_right t4 (Nat.mul_pos (by omega) hb)
  have t6 : (F * x) * (F * (a * P)) ≤ (F * x) * ((F + 1) * (N * b)) := Nat.mul_le_mul_left _ hD
  have t7 : (F * F * (a * x)) * P < ((F + 1) * (F + 1) * ((r + 1) * b)) * P := by grind
  have t8 : F * F * (a * x) < (F + 1) * (F + 1) * ((r + 1) * b) := Nat.lt_of_mul_lt_mul_right t7
  exact fin_lower F (a * x) ((r + 1) * b) t8 hR

theorem cmp_lt (F a b c d N1 P1 N2 P2 : Nat) (hP1 : 0 < P1) (hP2 : 0 < P2)
    (hU1 : (F + 1) * (N1 * b) ≤ (F + 2) * (a * P1))
    (hL2 : F * (c * P2) ≤ (F + 1) * (N2 * d))
    (hlt : a * d < c * b) (hR : 2 * (a * d) < F) : N1 * P2 < N2 * P1 := by
  apply Nat.lt_of_not_le
  intro hge
  have c1 : ((F + 1) * (F + 1) * (d * b)) * (N2 * P1) ≤ ((F + 1) * (F + 1) * (d * b)) * (N1 * P2) :=
    Nat.mul_le_mul_left _ hge
  have c2 : (F * (c * P2)) * ((F + 1) * (b * P1)) ≤ ((F + 1) * (N2 * d)) * ((F + 1) * (b * P1)) :=
    Nat.mul_le_mul_right _ hL2
  have c3 : ((F + 1) * (N1 * b)) * ((F + 1) * (d * P2)) ≤ ((F + 2) * (a * P1)) * ((F + 1) * (d * P2)) :=
    Nat.mul_le_mul_right _ hU1
  have c4 : ((F + 1) * (F * (c * b))) * (P1 * P2) ≤ ((F + 1) * ((F + 2) * (a * d))) * (P1 * P2) := by grind
  have c5 : (F + 1) * (F * (c * b)) ≤ (F + 1) * ((F + 2) * (a * d)) :=
    Nat.le_of_mul_le_mul_right c4 (Nat.mul_pos hP1 hP2)
  have c6 : F * (c * b) ≤ (F + 2) * (a * d) := Nat.le_of_mul_le_mul_left c5 (by omega)
  have c7 : F * (a * d + 1) ≤ F * (c * b) := Nat.mul_le_mul_left _ hlt
  have e1 : F * (a * d + 1) = F * (a * d) + F := by grind
  have e2 : (F + 2) * (a * d) = F * (a * d) + 2 * (a * d) := by grind
  omega

end VaxisModel.Lemmas.FloatArith
