/-
C20, round 3: the float steps of `resizeImage` from the *standard model* of floating-point arithmetic instead of
the hypothesis `Sound`.  `StdModel F` says of the two float computations only what IEEE-754 guarantees of every
single operation on doubles in the normal range — the result is within relative error 2⁻⁵³ of the exact result
(`Rounds`), conversions of the integers involved are exact, an operation is a function of its exact result — stated
over the integers (a value is any fraction `N/P`; no representation is assumed).  From it, by exact integer
reasoning (`Lemmas/FloatArith.lean`): in the range `2·a·x < 2⁵³`, `2·a·d, 2·c·b < 2⁵³ − 1` the comparison is exact and
the truncated product is within `Sound`'s tolerance — so for images and boxes below 2²⁶ in every dimension `Sound`
is not a hypothesis but a consequence (`clamp_sound`, `resizeDims_clamp`).
-/
import VaxisModel.Model.ImageFit
import VaxisModel.Lemmas.FloatArith

namespace VaxisModel.Lemmas.FloatStd
open VaxisModel.Model.ImageFit VaxisModel.Gen.ImageConsts VaxisModel.Lemmas.FloatArith

/-- 2⁵³ − 1. -/
def Em : Nat := 9007199254740991

/-- The value `N/P` is within relative error 2⁻⁵³ of `a/b`. -/
def Rounds (N P a b : Nat) : Prop :=
  0 < P ∧ (Em + 1) * (N * b) ≤ (Em + 2) * (a * P) ∧ Em * (a * P) ≤ (Em + 1) * (N * b)

/-- The standard model for the two float computations of `resizeImage`. -/
structure StdModel (F : FloatOps) : Prop where
  /-- `int((float64(a)/float64(b)) * float64(x))`: a quotient within 2⁻⁵³ of `a/b`, a product within 2⁻⁵³ of
      quotient · x, truncated toward zero. -/
  scale : ∀ a b x, 0 < b → ∃ N P M Q, Rounds N P a b ∧ Rounds M Q (N * x) P ∧
    F.scale a b x * Q ≤ M ∧ M < (F.scale a b x + 1) * Q
  /-- comparing `float64(a)/float64(b)` with `float64(c)/float64(d)`: both quotients rounded, the outcome is the
      comparison of the rounded values, and equal exact quotients round to equal values. -/
  cmp : ∀ a b c d, 0 < b → 0 < d → ∃ N1 P1 N2 P2, Rounds N1 P1 a b ∧ Rounds N2 P2 c d ∧
    F.cmp a b c d = compare (N1 * P2) (N2 * P1) ∧ (a * d = c * b → N1 * P2 = N2 * P1)

/-- The exact operations meet the standard model (non-vacuity). -/
theorem exactOps_std : StdModel exactOps where
  scale a b x hb := by
    refine ⟨a, b, a * x, b, ⟨hb, ?_, ?_⟩, ⟨hb, ?_, ?_⟩, ?_, ?_⟩
    · exact Nat.mul_le_mul_right _ (by omega)
    · exact Nat.mul_le_mul_right _ (by omega)
    · exact Nat.mul_le_mul_right _ (by omega)
    · exact Nat.mul_le_mul_right _ (by omega)
    · exact Nat.div_mul_le_self _ _
    · show a * x < (a * x / b + 1) * b
      have := Nat.lt_mul_div_succ (a * x) hb
      rw [Nat.mul_comm b] at this
      exact this
  cmp a b c d hb hd := by
    refine ⟨a, b, c, d, ⟨hb, ?_, ?_⟩, ⟨hd, ?_, ?_⟩, rfl, fun h => h⟩
    · exact Nat.mul_le_mul_right _ (by omega)
    · exact Nat.mul_le_mul_right _ (by omega)
    · exact Nat.mul_le_mul_right _ (by omega)
    · exact Nat.mul_le_mul_right _ (by omega)

/-- **In range, the truncated product is within `Sound`'s tolerance.** -/
theorem scale_in_range (F : FloatOps) (hS : StdModel F) (a b x : Nat) (hb : 0 < b) (hR : 2 * (a * x) < Em + 1) :
    F.scale a b x * b ≤ a * x ∧ a * x ≤ (F.scale a b x + 1) * b := by
  obtain ⟨N, P, M, Q, ⟨hP, hU, hL⟩, ⟨_, hMU, hML⟩, hT1, hT2⟩ := hS.scale a b x hb
  have hQ : 0 < Q := by
    rcases Nat.eq_zero_or_pos Q with h | h
    · rw [h] at hT2; simp at hT2
    · exact h
  exact ⟨trunc_upper (Em + 1) a b x N P M Q _ hP hQ hU hMU hT1 hR,
         trunc_lower Em a b x N P M Q _ hP hQ hb hL hML hT2 hR⟩

/-- **In range, the comparison of the two scale factors is exact.** -/
theorem cmp_in_range (F : FloatOps) (hS : StdModel F) (a b c d : Nat) (hb : 0 < b) (hd : 0 < d)
    (h1 : 2 * (a * d) < Em) (h2 : 2 * (c * b) < Em) : F.cmp a b c d = ratCmp a b c d := by
  obtain ⟨N1, P1, N2, P2, ⟨hP1, hU1, hL1⟩, ⟨hP2, hU2, hL2⟩, hc, hfun⟩ := hS.cmp a b c d hb hd
  rw [hc, ratCmp]
  rcases Nat.lt_trichotomy (a * d) (c * b) with hlt | heq | hgt
  · have := cmp_lt Em a b c d N1 P1 N2 P2 hP1 hP2 hU1 hL2 hlt h1
    rw [Nat.compare_eq_lt.mpr this, Nat.compare_eq_lt.mpr hlt]
  · rw [Nat.compare_eq_eq.mpr (hfun heq), Nat.compare_eq_eq.mpr heq]
  · have := cmp_lt Em c d a b N2 P2 N1 P1 hP2 hP1 hU2 hL1 hgt h2
    rw [Nat.compare_eq_gt.mpr this, Nat.compare_eq_gt.mpr hgt]

/-- `F` inside the range, the exact operations outside it. -/
def clampOps (F : FloatOps) : FloatOps where
  cmp a b c d := if 2 * (a * d) < Em ∧ 2 * (c * b) < Em then F.cmp a b c d else ratCmp a b c d
  scale a b x := if 2 * (a * x) < Em + 1 then F.scale a b x else a * x / b

/-- **`Sound` from the standard model**: the clamped operations meet `Sound` outright. -/
theorem clamp_sound (F : FloatOps) (hS : StdModel F) : Sound (clampOps F) where
  cmp_exact a b c d hb hd := by
    unfold clampOps
    simp only
    split
    · next h => exact cmp_in_range F hS a b c d hb hd h.1 h.2
    · rfl
  scale_le a b x hb := by
    unfold clampOps
    simp only
    split
    · next h => exact (scale_in_range F hS a b x hb h).1
    · exact exactOps_sound'.1 a b x hb
  scale_ge a b x hb := by
    unfold clampOps
    simp only
    split
    · next h => exact (scale_in_range F hS a b x hb h).2
    · exact exactOps_sound'.2 a b x hb
where
  exactOps_sound' : (∀ a b x : Nat, 0 < b → a * x / b * b ≤ a * x) ∧ (∀ a b x : Nat, 0 < b → a * x ≤ (a * x / b + 1) * b) :=
    ⟨fun a b x _ => Nat.div_mul_le_self _ _, fun a b x hb => by
      have := Nat.lt_mul_div_succ (a * x) hb
      rw [Nat.mul_comm b] at this
      exact Nat.le_of_lt this⟩

/-- 2²⁶: below it in every dimension all products the code forms are in range. -/
def dimBound : Nat := 67108864

theorem in_range (a b : Nat) (ha : a < dimBound) (hb : b < dimBound) : 2 * (a * b) < Em := by
  have h1 : a * b ≤ (dimBound - 1) * (dimBound - 1) := Nat.mul_le_mul (by unfold dimBound at *; omega) (by unfold dimBound at *; omega)
  have h2 : (dimBound - 1) * (dimBound - 1) = 4503599493152769 := by decide
  unfold Em
  omega

theorem cells_le (ru : Bool) (x c n : Nat) (h : cells ru x c = .ok n) : n ≤ max x 1 := by
  unfold cells at h
  split at h
  · cases h
  · next hc =>
    have hc' : 0 < c := Nat.pos_of_ne_zero hc
    cases h
    have h1 : x / c ≤ x := Nat.div_le_self _ _
    by_cases hr : (ru && x % c != 0) = true
    · simp only [hr, if_true]
      have hx : x % c ≠ 0 := by
        have := (Bool.and_eq_true _ _ ▸ hr).2
        simpa using this
      have hc2 : 2 ≤ c := by
        rcases Nat.lt_or_ge c 2 with h | h
        · have : c = 1 := by omega
          rw [this, Nat.mod_one] at hx
          exact absurd rfl hx
        · exact h
      have : x / c * 2 ≤ x := Nat.le_trans (Nat.mul_le_mul_left _ hc2) (Nat.div_mul_le_self _ _)
      have hx0 : 0 < x := by
        rcases Nat.eq_zero_or_pos x with h | h
        · subst h; simp at hx
        · exact h
      omega
    · simp only [hr, Bool.false_eq_true, if_false]
      omega

theorem runArms_congr (F F' : FloatOps) (arms : List Arm) (o : Ordering) (wPix hPix w columns h lines : Nat)
    (hs : ∀ x, x = wPix ∨ x = hPix → F.scale w columns x = F'.scale w columns x ∧ F.scale h lines x = F'.scale h lines x) :
    runArms F arms o wPix hPix w columns h lines = runArms F' arms o wPix hPix w columns h lines := by
  induction arms with
  | nil => rfl
  | cons a rest ih =>
    unfold runArms
    have e : ∀ (f : Factor) (x : Nat), x = wPix ∨ x = hPix →
        applyFactor F f w columns h lines x = applyFactor F' f w columns h lines x := by
      intro f x hx
      cases f
      · rfl
      · exact (hs x hx).1
      · exact (hs x hx).2
    rw [e a.fw wPix (Or.inl rfl), e a.fh hPix (Or.inr rfl), ih]

/-- **Below 2²⁶ in every dimension the clamp does nothing**: `resizeImage`'s pixel dimensions computed with `F` are
    those computed with the clamped operations — so every theorem that assumes `Sound` applies to `F` itself under
    `StdModel F`. -/
theorem resizeDims_clamp (cfg : Cfg) (F : FloatOps) (wPix hPix w h cellW cellH : Nat)
    (hwp : 0 < wPix) (hhp : 0 < hPix)
    (h1 : wPix < dimBound) (h2 : hPix < dimBound) (h3 : w < dimBound) (h4 : h < dimBound) :
    resizeDimsWith cfg (clampOps F) wPix hPix w h cellW cellH = resizeDimsWith cfg F wPix hPix w h cellW cellH := by
  unfold resizeDimsWith
  cases hc : cells cfg.colsUp wPix cellW with
  | error e => rfl
  | ok columns =>
    cases hl : cells cfg.linesUp hPix cellH with
    | error e => rfl
    | ok lines =>
      simp only [bind, Except.bind, pure, Except.pure]
      have hcol : columns < dimBound := by
        have := cells_le _ _ _ _ hc
        have : max wPix 1 = wPix := Nat.max_eq_left hwp
        omega
      have hlin : lines < dimBound := by
        have := cells_le _ _ _ _ hl
        have : max hPix 1 = hPix := Nat.max_eq_left hhp
        omega
      have ecmp : (clampOps F).cmp w columns h lines = F.cmp w columns h lines := by
        unfold clampOps
        simp only
        rw [if_pos ⟨in_range w lines h3 hlin, in_range h columns h4 hcol⟩]
      have escale : ∀ a b x, a < dimBound → x < dimBound → (clampOps F).scale a b x = F.scale a b x := by
        intro a b x ha hx
        unfold clampOps
        simp only
        have := in_range a x ha hx
        rw [if_pos (by omega)]
      split
      · rfl
      · rw [ecmp]
        congr 1
        apply runArms_congr
        intro x hx
        have hxb : x < dimBound := by rcases hx with rfl | rfl <;> assumption
        exact ⟨escale w columns x h3 hxb, escale h lines x h4 hxb⟩

end VaxisModel.Lemmas.FloatStd
