/-
Evaluation lemmas for the Go-body interpreter (`Model/GoInterp.lean`): they let `simp` run a
concrete body on symbolic inputs statement by statement (the continuation is only entered once the
state in front of it is known).
-/
import VaxisModel.Model.GoInterp

namespace VaxisModel.Lemmas.GoInterp
open VaxisModel.Model.GoBody VaxisModel.Model.GoInterp VaxisModel.Model.Key

@[simp] theorem andThen_norm (st : St) (f : St → R) : (R.norm st).andThen f = f st := rfl
@[simp] theorem andThen_ret (st : St) (v : V) (f : St → R) : (R.ret st v).andThen f = .ret st v := rfl
@[simp] theorem andThen_brk (st : St) (f : St → R) : (R.brk st).andThen f = .brk st := rfl
@[simp] theorem andThen_cont (st : St) (f : St → R) : (R.cont st).andThen f = .cont st := rfl
@[simp] theorem andThen_err (e : String) (f : St → R) : (R.err e).andThen f = .err e := rfl
theorem andThen_ite (p : Prop) [Decidable p] (a b : R) (f : St → R) :
    (if p then a else b).andThen f = if p then a.andThen f else b.andThen f := by split <;> rfl

@[simp] theorem branch_bool (x : Bool) (a b : Unit → R) : branch (.bool x) a b = if x = true then a () else b () := rfl

@[simp] theorem isTrue_bool (x : Bool) : (V.bool x).isTrue = x := rfl

@[simp] theorem afterSwitch_norm (st : St) : afterSwitch (.norm st) = .norm st := rfl
@[simp] theorem afterSwitch_ret (st : St) (v : V) : afterSwitch (.ret st v) = .ret st v := rfl
@[simp] theorem afterSwitch_brk (st : St) : afterSwitch (.brk st) = .norm st := rfl
@[simp] theorem afterSwitch_cont (st : St) : afterSwitch (.cont st) = .cont st := rfl
@[simp] theorem afterSwitch_err (e : String) : afterSwitch (.err e) = .err e := rfl
theorem afterSwitch_ite (p : Prop) [Decidable p] (a b : R) :
    afterSwitch (if p then a else b) = if p then afterSwitch a else afterSwitch b := by split <;> rfl

@[simp] theorem binop_land (x y : Bool) : binop .land (.bool x) (.bool y) = .bool (x && y) := by
  cases x <;> rfl
@[simp] theorem binop_lor (x y : Bool) : binop .lor (.bool x) (.bool y) = .bool (x || y) := by
  cases x <;> rfl
@[simp] theorem binop_eq_int (x y : Int) : binop .eq (.int x) (.int y) = .bool (decide (x = y)) := rfl
@[simp] theorem binop_eq_str (x y : Str) : binop .eq (.str x) (.str y) = .bool (decide (x = y)) := rfl
@[simp] theorem binop_eq_bool (x y : Bool) : binop .eq (.bool x) (.bool y) = .bool (decide (x = y)) := rfl
@[simp] theorem binop_ne_int (x y : Int) : binop .ne (.int x) (.int y) = .bool (!decide (x = y)) := rfl
@[simp] theorem binop_ne_str (x y : Str) : binop .ne (.str x) (.str y) = .bool (!decide (x = y)) := rfl
@[simp] theorem binop_lt (x y : Int) : binop .lt (.int x) (.int y) = .bool (decide (x < y)) := rfl
@[simp] theorem binop_le (x y : Int) : binop .le (.int x) (.int y) = .bool (decide (x ≤ y)) := rfl
@[simp] theorem binop_gt (x y : Int) : binop .gt (.int x) (.int y) = .bool (decide (x > y)) := rfl
@[simp] theorem binop_ge (x y : Int) : binop .ge (.int x) (.int y) = .bool (decide (x ≥ y)) := rfl
@[simp] theorem binop_add (x y : Int) : binop .add (.int x) (.int y) = .int (x + y) := rfl
@[simp] theorem binop_sub (x y : Int) : binop .sub (.int x) (.int y) = .int (x - y) := rfl
@[simp] theorem binop_band (x y : Int) : binop .band (.int x) (.int y) = .int ((x.toNat &&& y.toNat : Nat) : Int) := rfl
@[simp] theorem binop_bor (x y : Int) : binop .bor (.int x) (.int y) = .int ((x.toNat ||| y.toNat : Nat) : Int) := rfl
@[simp] theorem binop_andNot (x y : Int) : binop .andNot (.int x) (.int y) = .int ((andNot x.toNat y.toNat : Nat) : Int) := rfl
@[simp] theorem unop_not (x : Bool) : unop .not (.bool x) = .bool (!x) := rfl

theorem retBool_ite (p : Prop) [Decidable p] (a b : R) :
    (if p then a else b).retBool = if p then a.retBool else b.retBool := by split <;> rfl
theorem retStr_ite (p : Prop) [Decidable p] (a b : R) :
    (if p then a else b).retStr = if p then a.retStr else b.retStr := by split <;> rfl
theorem outRetStr_ite (p : Prop) [Decidable p] (a b : R) :
    (if p then a else b).outRetStr = if p then a.outRetStr else b.outRetStr := by split <;> rfl
theorem outOnly_ite (p : Prop) [Decidable p] (a b : R) :
    (if p then a else b).outOnly = if p then a.outOnly else b.outOnly := by split <;> rfl
theorem retEnv_ite (p : Prop) [Decidable p] (a b : R) :
    (if p then a else b).retEnv = if p then a.retEnv else b.retEnv := by split <;> rfl
@[simp] theorem retBool_ret (st : St) (b : Bool) : (R.ret st (.bool b)).retBool = some b := rfl
@[simp] theorem retStr_ret (st : St) (s : Str) : (R.ret st (.str s)).retStr = some s := rfl
@[simp] theorem outRetStr_ret (st : St) (s : Str) : (R.ret st (.str s)).outRetStr = some (st.out, s) := rfl
@[simp] theorem outOnly_ret (st : St) : (R.ret st .unit).outOnly = some st.out := rfl
@[simp] theorem outOnly_norm (st : St) : (R.norm st).outOnly = some st.out := rfl
@[simp] theorem retEnv_ret (st : St) (v : V) : (R.ret st v).retEnv = some st.env := rfl
theorem some_ite {α : Type} (p : Prop) [Decidable p] (a b : α) :
    some (if p then a else b) = if p then some a else some b := by split <;> rfl

/-! `callFn` on the calls the bodies make -/
theorem callFn_string (c : Ctx) (env : Env) (r : Int) : callFn c env "string" [.int r] = .str (strOfRune r) := rfl
theorem callFn_rune (c : Ctx) (env : Env) (r : Int) : callFn c env "rune" [.int r] = .int (toRune r) := rfl
theorem callFn_int (c : Ctx) (env : Env) (r : Int) : callFn c env "int" [.int r] = .int r := rfl
theorem callFn_isUpper (c : Ctx) (env : Env) (r : Int) : callFn c env "unicode.IsUpper" [.int r] = .bool (c.u.isUpper r) := rfl
theorem callFn_isLower (c : Ctx) (env : Env) (r : Int) : callFn c env "unicode.IsLower" [.int r] = .bool (c.u.isLower r) := rfl
theorem callFn_isLetter (c : Ctx) (env : Env) (r : Int) : callFn c env "unicode.IsLetter" [.int r] = .bool (c.u.isLetter r) := rfl
theorem callFn_isGraphic (c : Ctx) (env : Env) (r : Int) : callFn c env "unicode.IsGraphic" [.int r] = .bool (c.u.isGraphic r) := rfl
theorem callFn_isPrint (c : Ctx) (env : Env) (r : Int) : callFn c env "unicode.IsPrint" [.int r] = .bool (c.u.isPrint r) := rfl
theorem callFn_toUpper (c : Ctx) (env : Env) (r : Int) : callFn c env "unicode.ToUpper" [.int r] = .int (c.u.toUpper r) := rfl
theorem callFn_toLower (c : Ctx) (env : Env) (r : Int) : callFn c env "unicode.ToLower" [.int r] = .int (c.u.toLower r) := rfl
theorem lookupKey_map1 {α β : Type} (k : Int) (t : List (Int × β)) (g : β → α) :
    lookupKey [k] (t.map fun e => ([e.1], g e.2)) = (lookup k t).map g := by
  induction t with
  | nil => rfl
  | cons e t ih =>
    obtain ⟨k', v⟩ := e
    simp only [List.map, lookupKey, lookup]
    by_cases h : k = k'
    · simp [h]
    · simp [h, ih]

theorem callFn_sprintf (c : Ctx) (env : Env) (f : Str) (rest : List V) :
    callFn c env "fmt.Sprintf" (.str f :: rest) = sprintfAux c.fmtD f false rest [] := rfl
theorem callFn_bufString (c : Ctx) (env : Env) :
    callFn c env "buf.String" [] = (match env.lookup "buf" with | some (.str b) => .str b | _ => .err "buf.String") := by
  unfold callFn
  simp only [String.reduceEq, reduceIte, or_self]
  split <;> simp_all
theorem callFn_newBuffer (c : Ctx) (env : Env) : callFn c env "bytes.NewBuffer" [.unit] = .str [] := rfl

end VaxisModel.Lemmas.GoInterp
