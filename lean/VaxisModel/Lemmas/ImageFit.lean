/-
Helper lemmas for C20 (image fit): arithmetic of rounding-up division, the exact float instance is
sound, a closed form of `resizeDimsWith` for the arm structure `[sfX ≤ sfY ⇒ sfX, sfX > sfY ⇒ sfY]`,
and the statements of the fit / no-upscale / aspect properties as predicates on a configuration
(so that Props can assert them of the regenerated configuration and Witness can refute them of an
older one).
-/
import VaxisModel.Model.ImageFit
import VaxisModel.Spec.Images
import VaxisModel.Model.Blocks

namespace VaxisModel.Lemmas.ImageFit
open VaxisModel.Model.ImageFit VaxisModel.Spec.Images VaxisModel.Gen.ImageConsts

/-! ### Statements, parameterised by the source configuration -/

/-- Every successful result of a resize fits the box (for positive image and cell sizes). -/
def FitStatement (cfg : Cfg) : Prop :=
  ∀ F, Sound F → ∀ wPix hPix w h cellW cellH pw ph, 0 < wPix → 0 < hPix → 0 < cellW → 0 < cellH →
    resizeDimsWith cfg F wPix hPix w h cellW cellH = .ok (pw, ph) → FitsBox pw ph w h cellW cellH

def NoUpscaleStatement (cfg : Cfg) : Prop :=
  ∀ F, Sound F → ∀ wPix hPix w h cellW cellH pw ph, 0 < wPix → 0 < hPix → 0 < cellW → 0 < cellH →
    resizeDimsWith cfg F wPix hPix w h cellW cellH = .ok (pw, ph) → NoUpscale pw ph wPix hPix

def AspectStatement (cfg : Cfg) : Prop :=
  ∀ F, Sound F → ∀ wPix hPix w h cellW cellH pw ph, 0 < wPix → 0 < hPix → 0 < cellW → 0 < cellH →
    resizeDimsWith cfg F wPix hPix w h cellW cellH = .ok (pw, ph) → AspectKept pw ph wPix hPix

/-- With positive cell sizes a resize never panics. -/
def NoPanicStatement (cfg : Cfg) : Prop :=
  ∀ F wPix hPix w h cellW cellH, 0 < cellW → 0 < cellH →
    ∃ r, resizeDimsWith cfg F wPix hPix w h cellW cellH = .ok r

/-! ### The exact instance meets the hypothesis (non-vacuity of `Sound`) -/

theorem exactOps_sound : Sound exactOps where
  cmp_exact := fun _ _ _ _ _ _ => rfl
  scale_le := fun a b x _ => Nat.div_mul_le_self (a * x) b
  scale_ge := fun a b x hb => by
    show a * x ≤ (a * x / b + 1) * b
    rw [Nat.mul_comm (a * x / b + 1) b]
    exact Nat.le_of_lt (Nat.lt_mul_div_succ (a * x) hb)

/-! ### Rounding-up division -/

/-- `x / c`, plus one when there is a remainder. -/
def upDiv (x c : Nat) : Nat := x / c + (if x % c != 0 then 1 else 0)

theorem cells_true (x c : Nat) (hc : 0 < c) : cells true x c = .ok (upDiv x c) := by
  have : c ≠ 0 := by omega
  simp [cells, upDiv, this]

theorem le_upDiv_mul (x c : Nat) (hc : 0 < c) : x ≤ upDiv x c * c := by
  have h1 := Nat.div_add_mod x c
  have h2 := Nat.mod_lt x hc
  unfold upDiv
  rw [Nat.add_mul, Nat.mul_comm (x / c) c]
  generalize c * (x / c) = q at *
  by_cases h : x % c = 0
  · simp [h]; omega
  · simp [h]; omega

theorem upDiv_pos (x c : Nat) (hx : 0 < x) (hc : 0 < c) : 0 < upDiv x c := by
  have := le_upDiv_mul x c hc
  rcases Nat.eq_zero_or_pos (upDiv x c) with h | h
  · rw [h] at this; omega
  · exact h

theorem upDiv_eq_ceilDiv (x c : Nat) (hc : 0 < c) : upDiv x c = ceilDiv x c := by
  unfold upDiv ceilDiv
  have h1 := Nat.div_add_mod x c
  have h2 := Nat.mod_lt x hc
  by_cases h : x % c = 0
  · have hx : x = c * (x / c) := by omega
    simp only [h, bne_self_eq_false, Bool.false_eq_true, if_false, Nat.add_zero]
    generalize x / c = q at *
    subst hx
    have : c * q + c - 1 = c - 1 + c * q := by omega
    rw [this, Nat.add_mul_div_left _ _ hc, Nat.div_eq_of_lt (by omega)]; omega
  · have hne : (x % c != 0) = true := by simp [h]
    simp only [hne, if_true]
    have hx : x + c - 1 = (x % c - 1) + c * (x / c + 1) := by
      rw [Nat.mul_add, Nat.mul_one]; omega
    have hlt : (x % c - 1) / c = 0 := Nat.div_eq_of_lt (by omega)
    rw [hx, Nat.add_mul_div_left _ _ hc, hlt]; omega

theorem ceilDiv_le_iff (x c w : Nat) (hc : 0 < c) : ceilDiv x c ≤ w ↔ x ≤ w * c := by
  unfold ceilDiv
  rw [← Nat.lt_succ_iff, Nat.div_lt_iff_lt_mul hc, Nat.succ_mul]
  omega

theorem blockHeight_eq (ph : Nat) : blockHeight ph = ceilDiv ph 2 := by
  unfold blockHeight ceilDiv
  rcases Nat.mod_two_eq_zero_or_one ph with h | h
  · have : (ph % 2 != 0) = false := by simp [h]
    rw [this]; simp only [Bool.false_eq_true, if_false]; omega
  · have : (ph % 2 != 0) = true := by simp [h]
    rw [this]; simp only [if_true]; omega

/-! ### Closed form for the two-arm switch `sfX <= sfY` / `sfX > sfY` -/

/-- The arm structure after the F51 repair. -/
def stdCfg : Cfg := ⟨true, true, (.le, .and, .le), [⟨.le, .sfX, .sfX⟩, ⟨.gt, .sfY, .sfY⟩]⟩

theorem resizeDimsWith_std (F : FloatOps) (wPix hPix w h cellW cellH : Nat) (hcw : 0 < cellW) (hch : 0 < cellH) :
    resizeDimsWith stdCfg F wPix hPix w h cellW cellH =
      .ok (if upDiv wPix cellW ≤ w ∧ upDiv hPix cellH ≤ h then (wPix, hPix)
           else if F.cmp w (upDiv wPix cellW) h (upDiv hPix cellH) = .gt then
             (F.scale h (upDiv hPix cellH) wPix, F.scale h (upDiv hPix cellH) hPix)
           else (F.scale w (upDiv wPix cellW) wPix, F.scale w (upDiv wPix cellW) hPix)) := by
  simp only [resizeDimsWith, stdCfg, cells_true _ _ hcw, cells_true _ _ hch, evalFit, evalCmp]
  by_cases hfit : upDiv wPix cellW ≤ w ∧ upDiv hPix cellH ≤ h
  · simp [hfit, bind, Except.bind, pure, Except.pure]
  · have : (decide (upDiv wPix cellW ≤ w) && decide (upDiv hPix cellH ≤ h)) = false := by
      simpa using hfit
    simp only [bind, Except.bind, pure, Except.pure, this, hfit, if_false, Bool.false_eq_true]
    cases F.cmp w (upDiv wPix cellW) h (upDiv hPix cellH) <;>
      simp [runArms, ordSat, applyFactor]

/-- The arithmetic core: scaling by the smaller factor `a/b` (`b` = cell count in that direction). -/
theorem scaled_le (r a b x c n : Nat) (hb : 0 < b) (h1 : r * b ≤ a * x) (h2 : x ≤ b * c) (h3 : a ≤ n) :
    r ≤ n * c := by
  apply Nat.le_of_mul_le_mul_right _ hb
  calc r * b ≤ a * x := h1
    _ ≤ a * (b * c) := Nat.mul_le_mul_left a h2
    _ ≤ n * (b * c) := Nat.mul_le_mul_right _ h3
    _ = n * c * b := by rw [Nat.mul_assoc, Nat.mul_comm b c]

/-- Cross direction: `r·b ≤ a·x`, `x ≤ d·c`, `a·d ≤ n·b` ⇒ `r ≤ n·c`. -/
theorem scaled_cross_le (r a b x c d n : Nat) (hb : 0 < b) (h1 : r * b ≤ a * x) (h2 : x ≤ d * c)
    (h3 : a * d ≤ n * b) : r ≤ n * c := by
  apply Nat.le_of_mul_le_mul_right _ hb
  calc r * b ≤ a * x := h1
    _ ≤ a * (d * c) := Nat.mul_le_mul_left a h2
    _ = a * d * c := by rw [Nat.mul_assoc]
    _ ≤ n * b * c := Nat.mul_le_mul_right _ h3
    _ = n * c * b := by rw [Nat.mul_assoc, Nat.mul_comm b c, Nat.mul_assoc]

/-- Scaled dimensions in closed form, for a sound float step. -/
theorem std_cases (F : FloatOps) (hF : Sound F) (wPix hPix w h cellW cellH pw ph : Nat)
    (hw : 0 < wPix) (hh : 0 < hPix) (hcw : 0 < cellW) (hch : 0 < cellH)
    (hr : resizeDimsWith stdCfg F wPix hPix w h cellW cellH = .ok (pw, ph)) :
    let columns := upDiv wPix cellW
    let lines := upDiv hPix cellH
    0 < columns ∧ 0 < lines ∧ wPix ≤ columns * cellW ∧ hPix ≤ lines * cellH ∧
    ((columns ≤ w ∧ lines ≤ h ∧ pw = wPix ∧ ph = hPix) ∨
     (¬ (columns ≤ w ∧ lines ≤ h) ∧ h * columns < w * lines ∧
        pw * lines ≤ h * wPix ∧ h * wPix ≤ (pw + 1) * lines ∧
        ph * lines ≤ h * hPix ∧ h * hPix ≤ (ph + 1) * lines) ∨
     (¬ (columns ≤ w ∧ lines ≤ h) ∧ w * lines ≤ h * columns ∧
        pw * columns ≤ w * wPix ∧ w * wPix ≤ (pw + 1) * columns ∧
        ph * columns ≤ w * hPix ∧ w * hPix ≤ (ph + 1) * columns)) := by
  intro columns lines
  have hc := upDiv_pos wPix cellW hw hcw
  have hl := upDiv_pos hPix cellH hh hch
  refine ⟨hc, hl, le_upDiv_mul _ _ hcw, le_upDiv_mul _ _ hch, ?_⟩
  rw [resizeDimsWith_std F _ _ _ _ _ _ hcw hch] at hr
  have hr' := Except.ok.inj hr
  by_cases hfit : upDiv wPix cellW ≤ w ∧ upDiv hPix cellH ≤ h
  · rw [if_pos hfit] at hr'
    have := Prod.mk.inj hr'
    exact Or.inl ⟨hfit.1, hfit.2, this.1.symm, this.2.symm⟩
  · rw [if_neg hfit] at hr'
    have hcmp := hF.cmp_exact w (upDiv wPix cellW) h (upDiv hPix cellH) hc hl
    by_cases hgt : F.cmp w (upDiv wPix cellW) h (upDiv hPix cellH) = .gt
    · rw [if_pos hgt] at hr'
      have := Prod.mk.inj hr'
      rw [hcmp, ratCmp, Nat.compare_eq_gt] at hgt
      refine Or.inr (Or.inl ⟨hfit, hgt, ?_, ?_, ?_, ?_⟩)
      · rw [← this.1]; exact hF.scale_le _ _ _ hl
      · rw [← this.1]; exact hF.scale_ge _ _ _ hl
      · rw [← this.2]; exact hF.scale_le _ _ _ hl
      · rw [← this.2]; exact hF.scale_ge _ _ _ hl
    · rw [if_neg hgt] at hr'
      have := Prod.mk.inj hr'
      rw [hcmp, ratCmp, Nat.compare_eq_gt] at hgt
      refine Or.inr (Or.inr ⟨hfit, Nat.le_of_not_lt hgt, ?_, ?_, ?_, ?_⟩)
      · rw [← this.1]; exact hF.scale_le _ _ _ hc
      · rw [← this.1]; exact hF.scale_ge _ _ _ hc
      · rw [← this.2]; exact hF.scale_le _ _ _ hc
      · rw [← this.2]; exact hF.scale_ge _ _ _ hc

/-- Aspect core: both dimensions scaled by the same `a/b`, each within one of the exact value. -/
theorem aspect_core (pw ph a b X Y : Nat) (hb : 0 < b) (h1 : pw * b ≤ a * X) (h4 : a * Y ≤ (ph + 1) * b) :
    pw * Y ≤ ph * X + X := by
  apply Nat.le_of_mul_le_mul_right _ hb
  calc pw * Y * b = pw * b * Y := Nat.mul_right_comm ..
    _ ≤ a * X * Y := Nat.mul_le_mul_right _ h1
    _ = a * Y * X := Nat.mul_right_comm ..
    _ ≤ (ph + 1) * b * X := Nat.mul_le_mul_right _ h4
    _ = (ph * X + X) * b := by rw [Nat.mul_right_comm, Nat.add_mul, Nat.one_mul]

/-! ### Pixels -/

section pixels
open VaxisModel.Model.Blocks

theorem toRGB_of_ne (c : C16) (h : c.a ≠ 0) :
    toRGB c = ⟨u8 (u32 (c.r * 255) / c.a), u8 (u32 (c.g * 255) / c.a), u8 (u32 (c.b * 255) / c.a), u8 (c.a / 256)⟩ := by
  simp [toRGB, h]

theorem toRGB_of_zero (c : C16) (h : c.a = 0) : toRGB c = ⟨u8 c.r, u8 c.g, u8 c.b, 0⟩ := by
  simp [toRGB, h]

theorem unpremul_opaque' (c : Nat) (h : c < 256) : u8 (u32 (c * 257 * 255) / 65535) = c := by
  have h1 : c * 257 * 255 % 4294967296 = c * 65535 := by
    rw [Nat.mod_eq_of_lt (by omega)]; omega
  show c * 257 * 255 % 4294967296 / 65535 % 256 = c
  rw [h1, Nat.mul_div_cancel _ (by decide), Nat.mod_eq_of_lt h]

theorem unpremul_opaque (c : Nat) (h : c < 256) : u8 (u32 (c * 257 * 255 / 255 * 255) / 65535) = c := by
  rw [Nat.mul_div_cancel _ (by decide)]
  exact unpremul_opaque' c h

/-- `RGBColor` (shifts and ors) is the direct colour `0x02RRGGBB` for 8-bit channels. -/
theorem rgbColor_eq (r g b : Nat) (hr : r < 256) (hg : g < 256) (hb : b < 256) :
    rgbColor r g b = directColor r g b := by
  unfold rgbColor directColor
  have hs : rgbShift = 25 := by decide
  rw [hs]
  have h1 : g <<< 8 ||| b = g <<< 8 + b := (Nat.shiftLeft_add_eq_or_of_lt (by omega) g).symm
  have h2 : r <<< 16 ||| (g <<< 8 + b) = r <<< 16 + (g <<< 8 + b) :=
    (Nat.shiftLeft_add_eq_or_of_lt (by rw [Nat.shiftLeft_eq]; omega) r).symm
  have h3 : (1 <<< 25) ||| (r <<< 16 + (g <<< 8 + b)) = 1 <<< 25 + (r <<< 16 + (g <<< 8 + b)) :=
    (Nat.shiftLeft_add_eq_or_of_lt (by rw [Nat.shiftLeft_eq, Nat.shiftLeft_eq]; omega) 1).symm
  rw [Nat.or_assoc (r <<< 16) (g <<< 8) b, h1, h2, Nat.or_comm, h3]
  simp only [Nat.shiftLeft_eq]
  omega

/-- Bool form of "translucent within one", over all 8-bit (alpha, channel) pairs. -/
def withinOneAll : Bool := (List.range 256).all fun a => (List.range 256).all fun c =>
  a == 0 || (let c' := (toRGB ⟨c * 257 * a / 255, 0, 0, a * 257⟩).r; c' ≤ c && c ≤ c' + 1)

set_option maxRecDepth 100000 in
theorem withinOneAll_true : withinOneAll = true := by decide +kernel

theorem toRGB_within_one (c a : Nat) (hc : c < 256) (ha : a < 256) (ha0 : 0 < a) :
    (toRGB ⟨c * 257 * a / 255, 0, 0, a * 257⟩).r ≤ c ∧ c ≤ (toRGB ⟨c * 257 * a / 255, 0, 0, a * 257⟩).r + 1 := by
  have h := withinOneAll_true
  unfold withinOneAll at h
  rw [List.all_eq_true] at h
  have h1 := h a (List.mem_range.mpr ha)
  rw [List.all_eq_true] at h1
  have h2 := h1 c (List.mem_range.mpr hc)
  have ha' : (a == 0) = false := by simp; omega
  simpa [ha'] using h2

end pixels

end VaxisModel.Lemmas.ImageFit
