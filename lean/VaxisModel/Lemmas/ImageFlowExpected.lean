/-
Expected statement skeletons of the image code the C20 model transcribes by hand (compared with the regenerated
`Gen.ImageFlow` by `Props.C20Ext.facts_*`; each says which model definition rests on it).
-/
namespace VaxisModel.Lemmas.ImageFlowExpected

def kittyResizeUpload : List String := ["atomicStore(&k.uploaded, false)",
  "for buf.Len() > 0 { n, err := buf.Read(b) if err == io.EOF { break } m := 1 if buf.Len() == 0 { m = 0 } fmt.Fprintf(k.buf, \"\\x1B_Gf=100,i=%d,m=%d;%s\\x1B\\\\\", k.id, m, string(b[:n])) }"]

def kittyWriteFunc : List String := ["if !atomicLoad(&k.uploaded) { w.Write(k.buf.Bytes()) atomicStore(&k.uploaded, true) k.buf.Reset() }",
  "fmt.Fprintf(w, \"\\x1B_Ga=p,i=%d,p=%d,C=1\\x1B\\\\\", k.id, pid)"]

def halfDraw : List String := ["col, row := win.Origin()",
  "log.Trace(\"placing half block image at cell %d,%d\", col, row)",
  "for i, cell := range hb.cells { y := i / hb.width x := i - (y * hb.width) win.SetCell(x, y, cell) }"]

def fullDrawLoop : List String := ["for i, cell := range fb.cells { y := i / fb.width x := i - (y * fb.width) win.SetCell(x, y, Cell{ Character: Character{ Grapheme: \" \", Width: 1, }, Style: Style{ Background: cell, }, }) }"]

end VaxisModel.Lemmas.ImageFlowExpected
