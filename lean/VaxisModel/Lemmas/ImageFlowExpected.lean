/-
Expected texts of what `Gen.ImageFlow` still pins as text (compared by `Props.C20Ext.facts_kitty_formats`): the format
strings of the kitty graphics commands.  The harness's regular expression (`harness/cmd/C20`: reGfx) parses exactly
these shapes.
-/
namespace VaxisModel.Lemmas.ImageFlowExpected

def kittyFormats : List String := ["Draw: \"\\x1B_Ga=p,i=%d,p=%d,C=1\\x1B\\\\\"",
  "Draw: \"\\x1B_Ga=d,d=i,i=%d,p=%d\\x1B\\\\\"",
  "Resize: \"\\x1B_Gf=100,i=%d,m=%d;%s\\x1B\\\\\"",
  "Destroy: \"\\x1B_Ga=d,d=I,i=%d\\x1B\\\\\""]

end VaxisModel.Lemmas.ImageFlowExpected
