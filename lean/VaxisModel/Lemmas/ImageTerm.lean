/-
Helper lemmas for the round-2 additions of C20 (`Model/ImageTerm.lean`): terminal cell size is positive,
the signed-box model agrees with the unsigned one on non-negative boxes and returns an empty image on
negative ones, cell↔pixel mapping of the block renderers, upload bookkeeping.
-/
import VaxisModel.Model.ImageTerm
import VaxisModel.Lemmas.ImageFit

namespace VaxisModel.Lemmas.ImageTerm
open VaxisModel.Model.ImageFit VaxisModel.Model.ImageTerm VaxisModel.Gen.ImageConsts VaxisModel.Lemmas.ImageFit
open VaxisModel.Model.Blocks

/-- The regenerated shape of `cellPixelSize`: both axes start at 1 and take the quotient when `cells > 0` and the
    quotient `> 0`. -/
theorem cellPixelSize_shape :
    cellPixelSizeW = some ⟨1, .gt, 0, .gt, 0⟩ ∧ cellPixelSizeH = some ⟨1, .gt, 0, .gt, 0⟩ := by decide

theorem termCellWith_std (pix cells : Int) : termCellWith (some ⟨1, .gt, 0, .gt, 0⟩) pix cells = termCell pix cells := by
  unfold termCellWith termCell
  simp only [evalCmpI, Bool.and_eq_true, decide_eq_true_eq, gt_iff_lt, Int.cast_ofNat_Int]

theorem termCellW_eq (pix cells : Int) : termCellW pix cells = termCell pix cells := by
  unfold termCellW; rw [cellPixelSize_shape.1]; exact termCellWith_std pix cells

theorem termCellH_eq (pix cells : Int) : termCellH pix cells = termCell pix cells := by
  unfold termCellH; rw [cellPixelSize_shape.2]; exact termCellWith_std pix cells

theorem resizeShape_std : kittyResize = ⟨true, true, true, true, true⟩ ∧ sixelResize = ⟨true, true, true, true, true⟩ := by
  decide

theorem protoCellSizeWith_std (F : FloatOps) (wPix hPix w h cellW cellH : Nat) :
    protoCellSizeWith ⟨true, true, true, true, true⟩ F wPix hPix w h cellW cellH = protoCellSize F wPix hPix w h cellW cellH := rfl

theorem kittyCellSizeTerm_eq (F : FloatOps) (wPix hPix w h : Nat) (xpix cols ypix rows : Int) :
    kittyCellSizeTerm F wPix hPix w h xpix cols ypix rows = protoCellSizeTerm F wPix hPix w h xpix cols ypix rows := by
  unfold kittyCellSizeTerm protoCellSizeTerm
  rw [resizeShape_std.1, protoCellSizeWith_std]

theorem sixelCellSizeTerm_eq (F : FloatOps) (wPix hPix w h : Nat) (xpix cols ypix rows : Int) :
    sixelCellSizeTerm F wPix hPix w h xpix cols ypix rows = protoCellSizeTerm F wPix hPix w h xpix cols ypix rows := by
  unfold sixelCellSizeTerm protoCellSizeTerm
  rw [resizeShape_std.2, protoCellSizeWith_std]

theorem termCell_pos (pix cells : Int) : 0 < termCell pix cells := by
  unfold termCell
  split
  · rename_i h; omega
  · decide

/-! ### Signed boxes -/

theorem evalCmpI_cast (c : Cmp) (x y : Nat) : evalCmpI c (x : Int) (y : Int) = evalCmp c x y := by
  cases c <;> simp [evalCmpI, evalCmp] <;> omega

theorem evalFitI_cast (fc : Cmp × Conn × Cmp) (columns w lines h : Nat) :
    evalFitI fc columns (w : Int) lines (h : Int) = evalFit fc columns w lines h := by
  unfold evalFitI evalFit
  cases fc.2.1 <;> simp [evalCmpI_cast]

theorem cmpI_cast (F : FloatOps) (w columns h lines : Nat) : cmpI F (w : Int) columns (h : Int) lines = F.cmp w columns h lines := by
  unfold cmpI
  simp

theorem scaleI_cast (F : FloatOps) (a b x : Nat) : scaleI F (a : Int) b x = (F.scale a b x : Int) := by
  unfold scaleI
  simp

theorem applyFactorI_cast (F : FloatOps) (f : Factor) (w columns h lines x : Nat) :
    applyFactorI F f (w : Int) columns (h : Int) lines x = (applyFactor F f w columns h lines x : Int) := by
  cases f <;> simp [applyFactorI, applyFactor, scaleI_cast]

theorem runArmsI_cast (F : FloatOps) (arms : List Arm) (o : Ordering) (wPix hPix w columns h lines : Nat) :
    runArmsI F arms o wPix hPix (w : Int) columns (h : Int) lines =
      (((runArms F arms o wPix hPix w columns h lines).1 : Int), ((runArms F arms o wPix hPix w columns h lines).2 : Int)) := by
  induction arms with
  | nil => rfl
  | cons a rest ih =>
    unfold runArmsI runArms
    split
    · simp [applyFactorI_cast]
    · exact ih

/-- On a box with non-negative dimensions the signed model is the unsigned one (any configuration). -/
theorem resizeDimsBoxWith_nonneg (cfg : Cfg) (F : FloatOps) (wPix hPix w h cellW cellH : Nat) :
    resizeDimsBoxWith cfg F wPix hPix (w : Int) (h : Int) cellW cellH = resizeDimsWith cfg F wPix hPix w h cellW cellH := by
  unfold resizeDimsBoxWith resizeRawBoxWith resizeDimsWith
  cases cells cfg.colsUp wPix cellW with
  | error e => rfl
  | ok columns =>
    cases cells cfg.linesUp hPix cellH with
    | error e => rfl
    | ok lines =>
      simp only [bind, Except.bind, evalFitI_cast, cmpI_cast, runArmsI_cast, pure, Except.pure]
      by_cases hf : evalFit cfg.fit columns w lines h = true
      · simp [hf]
      · simp [hf]

theorem scaleI_neg (F : FloatOps) (a : Int) (b x : Nat) (ha : a < 0) : scaleI F a b x ≤ 0 := by
  unfold scaleI
  rw [if_neg (by omega)]
  omega

/-- A box with a negative dimension: the result is the empty image (`Bounds().Max = (0,0)`), for every float step. -/
theorem resizeDimsBoxWith_std_negative (F : FloatOps) (wPix hPix : Nat) (w h : Int) (cellW cellH : Nat)
    (hcw : 0 < cellW) (hch : 0 < cellH) (hneg : w < 0 ∨ h < 0) :
    resizeDimsBoxWith stdCfg F wPix hPix w h cellW cellH = .ok (0, 0) := by
  simp only [resizeDimsBoxWith, resizeRawBoxWith, stdCfg, cells_true _ _ hcw, cells_true _ _ hch, bind, Except.bind, pure, Except.pure]
  have hfit : evalFitI (Cmp.le, Conn.and, Cmp.le) (upDiv wPix cellW) w (upDiv hPix cellH) h = false := by
    simp only [evalFitI, evalCmpI]
    rcases hneg with hn | hn
    · have : ¬ ((upDiv wPix cellW : Nat) : Int) ≤ w := by omega
      simp [this]
    · have : ¬ ((upDiv hPix cellH : Nat) : Int) ≤ h := by omega
      simp [this]
  simp only [hfit, Bool.false_eq_true, if_false]
  -- which arm fires depends on the signs; in every case the factor used is negative
  have key : ∀ o : Ordering, (o = cmpI F w (upDiv wPix cellW) h (upDiv hPix cellH)) →
      (runArmsI F [⟨.le, .sfX, .sfX⟩, ⟨.gt, .sfY, .sfY⟩] o wPix hPix w (upDiv wPix cellW) h (upDiv hPix cellH)).1 ≤ 0 ∧
      (runArmsI F [⟨.le, .sfX, .sfX⟩, ⟨.gt, .sfY, .sfY⟩] o wPix hPix w (upDiv wPix cellW) h (upDiv hPix cellH)).2 ≤ 0 := by
    intro o ho
    unfold cmpI at ho
    by_cases hw : w < 0
    · by_cases hh : h < 0
      · -- both negative: either arm uses a negative factor
        cases o <;> simp [runArmsI, ordSat, applyFactorI, scaleI_neg F w _ _ hw, scaleI_neg F h _ _ hh]
      · have : o = .lt := by
          rw [ho]
          have h1 : ¬ (0 ≤ w ∧ 0 ≤ h) := by omega
          have h2 : (w < 0 ∧ 0 ≤ h) := by omega
          rw [if_neg h1, if_pos h2]
        subst this
        simp [runArmsI, ordSat, applyFactorI, scaleI_neg F w _ _ hw]
    · have hh : h < 0 := by omega
      have : o = .gt := by
        rw [ho]
        have h1 : ¬ (0 ≤ w ∧ 0 ≤ h) := by omega
        have h2 : ¬ (w < 0 ∧ 0 ≤ h) := by omega
        have h3 : (0 ≤ w ∧ h < 0) := by omega
        rw [if_neg h1, if_neg h2, if_pos h3]
      subst this
      simp [runArmsI, ordSat, applyFactorI, scaleI_neg F h _ _ hh]
  obtain ⟨k1, k2⟩ := key _ rfl
  have e1 := Int.toNat_eq_zero.mpr k1
  have e2 := Int.toNat_eq_zero.mpr k2
  rw [e1, e2]

/-! ### Block renderers: which pixels a cell covers -/

theorem div_of_index (w x y : Nat) (hx : x < w) : (y * w + x) / w = y := by
  have hw : 0 < w := by omega
  rw [Nat.add_comm, Nat.add_mul_div_right _ _ hw, Nat.div_eq_of_lt hx, Nat.zero_add]

theorem blockCellsWith_length (mode : Bottom) (cell : C16 → C16 → BCell) (img : Img) :
    (blockCellsWith mode cell img).length = blockHeight img.h * img.w := by
  simp [blockCellsWith]

theorem blockCellsWith_get (mode : Bottom) (cell : C16 → C16 → BCell) (img : Img) (x y : Nat) (hx : x < img.w) (hy : y < blockHeight img.h) :
    (blockCellsWith mode cell img)[y * img.w + x]? = some (x, y, cell (img.at x (2 * y)) (lowerPx mode img x (2 * y))) := by
  have hi : y * img.w + x < blockHeight img.h * img.w := by
    calc y * img.w + x < y * img.w + img.w := by omega
      _ = (y + 1) * img.w := by rw [Nat.add_mul, Nat.one_mul]
      _ ≤ blockHeight img.h * img.w := Nat.mul_le_mul_right _ hy
  simp only [blockCellsWith, List.getElem?_map, List.getElem?_range hi, Option.map_some, div_of_index img.w x y hx]
  simp

theorem blockCellsWith_mem (mode : Bottom) (cell : C16 → C16 → BCell) (img : Img) (e : Nat × Nat × BCell)
    (he : e ∈ blockCellsWith mode cell img) :
    e.1 < img.w ∧ e.2.1 < blockHeight img.h ∧ e.2.2 = cell (img.at e.1 (2 * e.2.1)) (lowerPx mode img e.1 (2 * e.2.1)) ∧
    (blockCellsWith mode cell img)[e.2.1 * img.w + e.1]? = some e := by
  simp only [blockCellsWith, List.mem_map, List.mem_range] at he
  obtain ⟨i, hi, rfl⟩ := he
  have hw : 0 < img.w := by
    rcases Nat.eq_zero_or_pos img.w with h | h
    · rw [h] at hi; simp at hi
    · exact h
  have hy : i / img.w < blockHeight img.h := Nat.div_lt_of_lt_mul (by rw [Nat.mul_comm]; exact hi)
  have hx : i - i / img.w * img.w = i % img.w := by
    have := Nat.div_add_mod i img.w
    rw [Nat.mul_comm] at this
    omega
  have hxl : i % img.w < img.w := Nat.mod_lt _ hw
  refine ⟨by simp only [hx]; exact hxl, hy, rfl, ?_⟩
  simp only [hx]
  have := blockCellsWith_get mode cell img (i % img.w) (i / img.w) hxl hy
  rw [this]

theorem blockCells_length (cell : C16 → C16 → BCell) (img : Img) :
    (blockCells cell img).length = blockHeight img.h * img.w := blockCellsWith_length .read cell img

theorem blockCells_get (cell : C16 → C16 → BCell) (img : Img) (x y : Nat) (hx : x < img.w) (hy : y < blockHeight img.h) :
    (blockCells cell img)[y * img.w + x]? = some (x, y, cell (img.at x (2 * y)) (img.at x (2 * y + 1))) :=
  blockCellsWith_get .read cell img x y hx hy

theorem blockCells_mem (cell : C16 → C16 → BCell) (img : Img) (e : Nat × Nat × BCell) (he : e ∈ blockCells cell img) :
    e.1 < img.w ∧ e.2.1 < blockHeight img.h ∧ e.2.2 = cell (img.at e.1 (2 * e.2.1)) (img.at e.1 (2 * e.2.1 + 1)) ∧
    (blockCells cell img)[e.2.1 * img.w + e.1]? = some e :=
  blockCellsWith_mem .read cell img e he

theorem blockHeight_rows (ph y : Nat) (hy : y < blockHeight ph) :
    2 * y < ph ∧ (2 * y + 1 < ph ∨ (ph % 2 = 1 ∧ y + 1 = blockHeight ph)) := by
  unfold blockHeight at hy ⊢
  by_cases h : ph % 2 = 1
  · have h' : (ph % 2 != 0) = true := by simp [h]
    simp only [h', if_true] at hy ⊢
    omega
  · have h' : (ph % 2 != 0) = false := by simp; omega
    simp only [h', Bool.false_eq_true, if_false] at hy ⊢
    omega

/-! ### Upload bookkeeping -/

def finalK : KImg → List KEv → KImg
  | k, [] => k
  | k, .resize ok :: r => finalK (k.resize ok) r
  | k, .write :: r => finalK (k.write).1 r

def okResizes : List KEv → Nat
  | [] => 0
  | .resize true :: r => okResizes r + 1
  | _ :: r => okResizes r

theorem uploads_conserve : ∀ (evs : List KEv) (k : KImg),
    (uploads k evs).sum + (finalK k evs).encs = k.encs + okResizes evs
  | [], k => by simp [uploads, finalK, okResizes]
  | .resize true :: r, k => by
    have := uploads_conserve r (k.resize true)
    simp only [uploads, finalK, okResizes, KImg.resize, if_true] at this ⊢
    omega
  | .resize false :: r, k => by
    have := uploads_conserve r (k.resize false)
    simp only [uploads, finalK, okResizes, KImg.resize] at this ⊢
    simpa using this
  | .write :: r, k => by
    have := uploads_conserve r (k.write).1
    simp only [uploads, finalK, okResizes, List.sum_cons] at this ⊢
    unfold KImg.write at this ⊢
    split <;> simp_all <;> omega

theorem uploads_quiet : ∀ (evs : List KEv) (k : KImg), k.uploaded = true → (∀ e ∈ evs, e ≠ KEv.resize true) →
    ∀ n ∈ uploads k evs, n = 0
  | [], _, _, _, n, hn => by simp [uploads] at hn
  | .resize true :: _, _, _, h, _, _ => absurd rfl (h _ (by simp))
  | .resize false :: r, k, hk, h, n, hn => by
    simp only [uploads, KImg.resize] at hn
    exact uploads_quiet r k hk (fun e he => h e (by simp [he])) n (by simpa using hn)
  | .write :: r, k, hk, h, n, hn => by
    simp only [uploads, KImg.write, hk, if_true, List.mem_cons] at hn
    rcases hn with rfl | hn
    · rfl
    · exact uploads_quiet r k hk (fun e he => h e (by simp [he])) n hn

end VaxisModel.Lemmas.ImageTerm
