import VaxisModel.Model.InputLoop
import VaxisModel.Spec.InputEvents

/-! Helper lemmas for Props/C03 (core Lean only). -/
namespace VaxisModel.Lemmas.Input
open VaxisModel.Model.Input

/-! ### bit masks by arithmetic -/

theorem and195 : ∀ r : Fin 256, r.val &&& 195 = r.val % 4 + (r.val / 64 % 4) * 64 := by decide +kernel
theorem and4 : ∀ r : Fin 256, (r.val &&& 4 = 0 ↔ r.val / 4 % 2 = 0) := by decide +kernel
theorem and8 : ∀ r : Fin 256, (r.val &&& 8 = 0 ↔ r.val / 8 % 2 = 0) := by decide +kernel
theorem and16 : ∀ r : Fin 256, (r.val &&& 16 = 0 ↔ r.val / 16 % 2 = 0) := by decide +kernel
theorem and32 : ∀ r : Fin 256, (r.val &&& 32 = 0 ↔ r.val / 32 % 2 = 0) := by decide +kernel

theorem andMask_nat (b m : Nat) : andMask (b : Int) m = (b % 256) &&& m := by
  unfold andMask
  have : ((b : Int) % 256).toNat = b % 256 := by omega
  rw [this]

theorem andMask_buttons (b : Nat) : andMask (b : Int) 195 = b % 4 + (b / 64 % 4) * 64 := by
  rw [andMask_nat]
  have := and195 ⟨b % 256, by omega⟩
  simp only at this
  rw [this]; omega

theorem andMask_shift (b : Nat) : andMask (b : Int) 4 = 0 ↔ b / 4 % 2 = 0 := by
  rw [andMask_nat]
  have := and4 ⟨b % 256, by omega⟩
  simp only at this
  rw [this]; omega

theorem andMask_alt (b : Nat) : andMask (b : Int) 8 = 0 ↔ b / 8 % 2 = 0 := by
  rw [andMask_nat]
  have := and8 ⟨b % 256, by omega⟩
  simp only at this
  rw [this]; omega

theorem andMask_ctrl (b : Nat) : andMask (b : Int) 16 = 0 ↔ b / 16 % 2 = 0 := by
  rw [andMask_nat]
  have := and16 ⟨b % 256, by omega⟩
  simp only at this
  rw [this]; omega

theorem andMask_motion (b : Nat) : andMask (b : Int) 32 = 0 ↔ b / 32 % 2 = 0 := by
  rw [andMask_nat]
  have := and32 ⟨b % 256, by omega⟩
  simp only at this
  rw [this]; omega

theorem wrap64_pred (x : Nat) (h : x < 2 ^ 63) : wrap64 ((x : Int) - 1) = (x : Int) - 1 := by
  unfold wrap64; omega

theorem mouseGuard_sgr : mouseGuard [60] = .ok false := by rfl

/-- The modifier word assembled with `|=` equals the arithmetic sum of the three bits. -/
theorem mods_sum (b : Nat) :
    (((if andMask (b : Int) 4 = 0 then 0 else modShift) ||| if andMask (b : Int) 8 = 0 then 0 else modAlt) |||
      if andMask (b : Int) 16 = 0 then 0 else modCtrl) = b / 4 % 2 * 1 + b / 8 % 2 * 2 + b / 16 % 2 * 4 := by
  simp only [andMask_shift, andMask_alt, andMask_ctrl]
  rcases Nat.mod_two_eq_zero_or_one (b / 4) with h1 | h1 <;>
  rcases Nat.mod_two_eq_zero_or_one (b / 8) with h2 | h2 <;>
  rcases Nat.mod_two_eq_zero_or_one (b / 16) with h3 | h3 <;>
  simp [h1, h2, h3, modShift, modAlt, modCtrl]

/-! ### totality of `handle` -/

def WfParams (ps : List (List Int)) : Prop := ∀ p ∈ ps, p ≠ []

def ok? {ε α} : Except ε α → Bool | .ok _ => true | .error _ => false

theorem ok_iff {ε α} (x : Except ε α) : (∃ r, x = .ok r) ↔ ok? x = true := by
  cases x <;> simp [ok?]

theorem mapM_idx0_ok (ps : List (List Int)) (h : WfParams ps) : ∃ l, ps.mapM (fun p => idx p 0) = .ok l := by
  induction ps with
  | nil => exact ⟨[], rfl⟩
  | cons a t ih =>
    have ha : a ≠ [] := h a (by simp)
    obtain ⟨l, hl⟩ := ih (fun p hp => h p (by simp [hp]))
    cases a with
    | nil => exact absurd rfl ha
    | cons x xs =>
      refine ⟨x :: l, ?_⟩
      simp only [List.mapM_cons, hl]
      simp [idx, bind, Except.bind, pure, Except.pure]

theorem parseMouse_ok (interm : List Nat) (params : List (List Int)) (final : Nat)
    (h : WfParams params) : ok? (parseMouse interm params final) = true := by
  unfold parseMouse mouseGuard mouseGuardWith
  rcases params with _ | ⟨a, _ | ⟨b, _ | ⟨c, _ | ⟨d, rest⟩⟩⟩⟩
  case cons.cons.cons.nil =>
    have ha : a ≠ [] := h a (by simp)
    have hb : b ≠ [] := h b (by simp)
    have hc : c ≠ [] := h c (by simp)
    rcases a with _ | ⟨a0, as⟩
    · exact absurd rfl ha
    rcases b with _ | ⟨b0, bs⟩
    · exact absurd rfl hb
    rcases c with _ | ⟨c0, cs⟩
    · exact absurd rfl hc
    rcases interm with _ | ⟨i0, _ | ⟨i1, irest⟩⟩ <;>
    simp [VaxisModel.Gen.Caps.mouseGuardIsOr, idx, idx2, bind, Except.bind, pure, Except.pure] <;>
    first | rfl | (split <;> rfl)
  all_goals
    rcases interm with _ | ⟨i0, _ | ⟨i1, irest⟩⟩ <;>
    simp [VaxisModel.Gen.Caps.mouseGuardIsOr, idx, idx2, bind, Except.bind, pure, Except.pure] <;>
    first | rfl | (split <;> rfl)

theorem wf_cons {a : List Int} {t : List (List Int)} (h : WfParams (a :: t)) :
    (∃ a0 as, a = a0 :: as) ∧ WfParams t := by
  constructor
  · have := h a (by simp)
    cases a with
    | nil => exact absurd rfl this
    | cons x xs => exact ⟨x, xs, rfl⟩
  · exact fun p hp => h p (by simp [hp])

theorem ok_ite {ε α} (c : Prop) [Decidable c] (a b : Except ε α) :
    ok? (if c then a else b) = if c then ok? a else ok? b := by split <;> rfl

theorem ok_ok {ε α} (a : α) : ok? (Except.ok a : Except ε α) = true := rfl

theorem handleCSI_ok (st : VState) (interm : List Nat) (params : List (List Int)) (final : Nat)
    (h : WfParams params) : ok? (handleCSI st interm params final) = true := by
  obtain ⟨fs, hfs⟩ := mapM_idx0_ok params h
  have hpm := parseMouse_ok interm params final h
  unfold handleCSI
  simp only [hfs]
  generalize parseMouse interm params final = pm at hpm
  cases pm with
  | error e => simp [ok?] at hpm
  | ok v =>
  rcases params with _ | ⟨a, _ | ⟨b, _ | ⟨c, _ | ⟨d, _ | ⟨e, rest⟩⟩⟩⟩⟩
  case nil =>
    cases v <;>
    simp [idx2, idx, keyArm, post, decrpmArm, bind, Except.bind, pure, Except.pure, ok_ite, ok_ok]
  case cons.nil =>
    obtain ⟨⟨a0, as, rfl⟩, -⟩ := wf_cons h
    cases v <;>
    simp [idx2, idx, keyArm, post, decrpmArm, bind, Except.bind, pure, Except.pure, ok_ite, ok_ok]
  case cons.cons.nil =>
    obtain ⟨⟨a0, as, rfl⟩, h1⟩ := wf_cons h
    obtain ⟨⟨b0, bs, rfl⟩, -⟩ := wf_cons h1
    cases v <;>
    simp [idx2, idx, keyArm, post, decrpmArm, bind, Except.bind, pure, Except.pure, ok_ite, ok_ok]
  case cons.cons.cons.nil =>
    obtain ⟨⟨a0, as, rfl⟩, h1⟩ := wf_cons h
    obtain ⟨⟨b0, bs, rfl⟩, h2⟩ := wf_cons h1
    obtain ⟨⟨c0, cs, rfl⟩, -⟩ := wf_cons h2
    cases v <;>
    simp [idx2, idx, keyArm, post, decrpmArm, bind, Except.bind, pure, Except.pure, ok_ite, ok_ok]
  case cons.cons.cons.cons.nil =>
    obtain ⟨⟨a0, as, rfl⟩, h1⟩ := wf_cons h
    obtain ⟨⟨b0, bs, rfl⟩, h2⟩ := wf_cons h1
    obtain ⟨⟨c0, cs, rfl⟩, h3⟩ := wf_cons h2
    obtain ⟨⟨d0, ds, rfl⟩, -⟩ := wf_cons h3
    cases v <;>
    simp [idx2, idx, keyArm, post, decrpmArm, bind, Except.bind, pure, Except.pure, ok_ite, ok_ok]
  case cons.cons.cons.cons.cons =>
    obtain ⟨⟨a0, as, rfl⟩, h1⟩ := wf_cons h
    obtain ⟨⟨b0, bs, rfl⟩, h2⟩ := wf_cons h1
    obtain ⟨⟨c0, cs, rfl⟩, h3⟩ := wf_cons h2
    obtain ⟨⟨d0, ds, rfl⟩, h4⟩ := wf_cons h3
    obtain ⟨⟨e0, es, rfl⟩, -⟩ := wf_cons h4
    cases v <;>
    simp [idx2, idx, keyArm, post, decrpmArm, bind, Except.bind, pure, Except.pure, ok_ite, ok_ok]

theorem splitOn_ne_nil (sep : Nat) (l : List Nat) : ∃ h t, splitOn sep l = h :: t := by
  induction l with
  | nil => exact ⟨[], [], rfl⟩
  | cons a as ih =>
    obtain ⟨h, t, ht⟩ := ih
    unfold splitOn
    rw [ht]
    simp only
    split <;> exact ⟨_, _, rfl⟩

theorem suffix_q_nil : isSuffix (str " q") [] = false := by rfl

theorem handleDCS_ok (st : VState) (final : Nat) (interm : List Nat) (params : List Int) (data : List Nat) :
    ok? (handleDCS st final interm params data) = true := by
  unfold handleDCS
  obtain ⟨v0, vt, hv⟩ := splitOn_ne_nil (ch '=') data
  rcases interm with _ | ⟨i0, irest⟩ <;> rcases params with _ | ⟨p0, prest⟩ <;> rcases data with _ | ⟨d0, drest⟩ <;>
  simp [hv, idx, post, bind, Except.bind, pure, Except.pure, ok_ite, ok_ok, suffix_q_nil]

theorem handleOSC_ok (b64 : List Nat → Option (List Nat)) (st : VState) (payload : List Nat) :
    ok? (handleOSC b64 st payload) = true := by
  unfold handleOSC
  generalize splitOn (ch ';') payload = vals
  rcases vals with _ | ⟨v0, _ | ⟨v1, _ | ⟨v2, _ | ⟨v3, vrest⟩⟩⟩⟩ <;>
  simp [idx, bind, Except.bind, pure, Except.pure, ok_ite, ok_ok]
  cases b64 v2 <;> simp [ok_ok]

def WfSeq : Seq → Prop
  | .csi _ ps _ => WfParams ps
  | _ => True

theorem handle_ok (b64 : List Nat → Option (List Nat)) (st : VState) (s : Seq) (h : WfSeq s) :
    ok? (handle b64 st s) = true := by
  cases s with
  | csi i p f => exact handleCSI_ok st i p f h
  | dcs f i p d => exact handleDCS_ok st f i p d
  | osc p => exact handleOSC_ok b64 st p
  | apc d => simp [handle, post, ok_ite, ok_ok]
  | _ => simp [handle, keyArm, ok_ok]

/-! ### consumed replies post only internal events -/

/-- Posts of an effect are of internal (unexported) event types. -/
def effInternal : Effect → Bool
  | .postB e | .postNB e => !e.userVisible
  | _ => true

/-- What a consumed reply may do: post only internal events and leave the paste and
cursor-request flags alone. -/
def replyOK (st : VState) : Res → Bool
  | .ok (st', effs) => effs.all effInternal && st'.pastePending == st.pastePending && st'.reqCursorPos == st.reqCursorPos
  | .error _ => true

theorem replyOK_ite (st : VState) (c : Prop) [Decidable c] (a b : Res) :
    replyOK st (if c then a else b) = if c then replyOK st a else replyOK st b := by split <;> rfl

def isQueryReplyCSI (interm : List Nat) (params : List (List Int)) (final : Nat) : Bool :=
  (final == ch 'c' && isPrivate interm) || (final == ch 'S' && isPrivate interm && decide (3 ≤ params.length)) ||
  final == ch 'y' || (final == ch 'u' && isPrivate interm) ||
  (final == ch 't' && !(params.head?.bind List.head? == some 48)) ||
  (final == ch 'n' && isPrivate interm && params.length == 2 && !(params.head?.bind List.head? == some 997))


macro "reply_simp" : tactic => `(tactic|
  simp [handleCSI, idx2, idx, keyArm, post, decrpmArm, bind, Except.bind, pure, Except.pure, replyOK_ite, replyOK, effInternal,
    Event.userVisible, isPrivate, ch, VaxisModel.Gen.Caps.colorThemeResp])

theorem reply_c (st : VState) (interm : List Nat) (params : List (List Int)) (hp : isPrivate interm = true) :
    replyOK st (handleCSI st interm params (ch 'c')) = true := by
  cases hm : params.mapM (fun ps => idx ps 0) with
  | error e => simp [handleCSI, hp, hm, bind, Except.bind, replyOK]
  | ok fs =>
    simp [handleCSI, hp, hm, bind, Except.bind, pure, Except.pure, replyOK, effInternal, Event.userVisible]

theorem reply_u (st : VState) (interm : List Nat) (params : List (List Int)) (hp : isPrivate interm = true) :
    replyOK st (handleCSI st interm params (ch 'u')) = true := by
  simp [handleCSI, hp, post, ch, replyOK, effInternal, Event.userVisible]

theorem reply_S (st : VState) (interm : List Nat) (params : List (List Int)) (hp : isPrivate interm = true)
    (hl : 3 ≤ params.length) : replyOK st (handleCSI st interm params (ch 'S')) = true := by
  rcases params with _ | ⟨a, _ | ⟨b, _ | ⟨c, rest⟩⟩⟩
  · simp at hl
  · simp at hl
  · simp at hl
  · have h3 : ¬ (rest.length + 1 + 1 + 1 < 3) := by omega
    rcases a with _ | ⟨a0, as⟩ <;> rcases b with _ | ⟨b0, bs⟩ <;>
    simp [handleCSI, hp, idx2, idx, post, bind, Except.bind, pure, Except.pure, replyOK_ite, ch, h3] <;> simp [replyOK, effInternal, Event.userVisible]

theorem reply_y (st : VState) (interm : List Nat) (params : List (List Int)) :
    replyOK st (handleCSI st interm params (ch 'y')) = true := by
  rcases params with _ | ⟨a, _ | ⟨b, rest⟩⟩
  · simp [handleCSI, ch, replyOK]
  · rcases a with _ | ⟨a0, as⟩ <;>
    simp [handleCSI, idx2, idx, post, decrpmArm, bind, Except.bind, pure, Except.pure, replyOK_ite, ch] <;> simp [replyOK, effInternal, Event.userVisible]
  · rcases a with _ | ⟨a0, as⟩ <;> rcases b with _ | ⟨b0, bs⟩ <;>
    simp [handleCSI, idx2, idx, post, decrpmArm, bind, Except.bind, pure, Except.pure, replyOK_ite, ch] <;> simp [replyOK, effInternal, Event.userVisible]

theorem reply_n (st : VState) (interm : List Nat) (a b : List Int) (hp : isPrivate interm = true)
    (h997 : a.head? ≠ some 997) : replyOK st (handleCSI st interm [a, b] (ch 'n')) = true := by
  rcases a with _ | ⟨a0, as⟩ <;> rcases b with _ | ⟨b0, bs⟩ <;>
  simp [handleCSI, hp, idx2, idx, bind, Except.bind, pure, Except.pure, replyOK_ite, ch, VaxisModel.Gen.Caps.colorThemeResp] <;> simp_all [replyOK, effInternal, Event.userVisible]

theorem reply_t (st : VState) (interm : List Nat) (params : List (List Int))
    (h48 : params.head?.bind List.head? ≠ some 48) : replyOK st (handleCSI st interm params (ch 't')) = true := by
  rcases params with _ | ⟨a, _ | ⟨b, _ | ⟨c, rest⟩⟩⟩
  · simp [handleCSI, ch, replyOK]
  · simp [handleCSI, ch, replyOK]
  · simp [handleCSI, ch, replyOK]
  · have h3 : ¬ (rest.length + 1 + 1 + 1 < 3) := by omega
    rcases a with _ | ⟨a0, as⟩ <;> rcases b with _ | ⟨b0, bs⟩ <;> rcases c with _ | ⟨c0, cs⟩ <;>
    simp [handleCSI, idx2, idx, post, bind, Except.bind, pure, Except.pure, replyOK_ite, ch, h3] <;> simp_all [replyOK, effInternal, Event.userVisible]

theorem reply_dcs (st : VState) (final : Nat) (interm : List Nat) (params : List Int) (data : List Nat) :
    replyOK st (handleDCS st final interm params data) = true := by
  unfold handleDCS
  obtain ⟨v0, vt, hv⟩ := splitOn_ne_nil (ch '=') data
  rcases interm with _ | ⟨i0, irest⟩ <;> rcases params with _ | ⟨p0, prest⟩ <;> rcases data with _ | ⟨d0, drest⟩ <;>
  simp [hv, idx, post, bind, Except.bind, pure, Except.pure, replyOK_ite, suffix_q_nil] <;>
  simp [replyOK, effInternal, Event.userVisible]

theorem all_ite (c : Prop) [Decidable c] (a b : List Effect) (f : Effect → Bool) :
    (if c then a else b).all f = if c then a.all f else b.all f := by split <;> rfl

theorem reply_osc (b64 : List Nat → Option (List Nat)) (st : VState) (payload : List Nat) :
    replyOK st (handleOSC b64 st payload) = true := by
  unfold handleOSC
  generalize splitOn (ch ';') payload = vals
  rcases vals with _ | ⟨v0, _ | ⟨v1, _ | ⟨v2, _ | ⟨v3, vrest⟩⟩⟩⟩ <;>
  simp [idx, bind, Except.bind, pure, Except.pure, replyOK_ite] <;>
  (try cases b64 v2) <;>
  simp [replyOK, List.all_append, all_ite, effInternal, Event.userVisible]

end VaxisModel.Lemmas.Input
