/-
Evaluation lemmas for the interpreter of the regenerated input bodies (`Model/InputBody.lean`): they
let `simp` run a concrete body on symbolic inputs statement by statement.
-/
import VaxisModel.Model.InputBody
import VaxisModel.Lemmas.InputBodyAttr

namespace VaxisModel.Lemmas.InputBody
open VaxisModel.Model.GoBody VaxisModel.Model.Input VaxisModel.Model.InputBody VaxisModel.Model.InputLoop

@[simp] theorem andThen_norm (st : St) (f : St → R) : (R.norm st).andThen f = f st := rfl
@[simp] theorem andThen_ret (st : St) (v : V) (f : St → R) : (R.ret st v).andThen f = .ret st v := rfl
@[simp] theorem andThen_brk (st : St) (f : St → R) : (R.brk st).andThen f = .brk st := rfl
@[simp] theorem andThen_cont (st : St) (f : St → R) : (R.cont st).andThen f = .cont st := rfl
@[simp] theorem andThen_fail (e : Fail) (f : St → R) : (R.fail e).andThen f = .fail e := rfl
theorem andThen_ite (p : Prop) [Decidable p] (a b : R) (f : St → R) :
    (if p then a else b).andThen f = if p then a.andThen f else b.andThen f := by split <;> rfl

@[simp] theorem afterSwitch_norm (st : St) : afterSwitch (.norm st) = .norm st := rfl
@[simp] theorem afterSwitch_ret (st : St) (v : V) : afterSwitch (.ret st v) = .ret st v := rfl
@[simp] theorem afterSwitch_brk (st : St) : afterSwitch (.brk st) = .norm st := rfl
@[simp] theorem afterSwitch_cont (st : St) : afterSwitch (.cont st) = .cont st := rfl
@[simp] theorem afterSwitch_fail (e : Fail) : afterSwitch (.fail e) = .fail e := rfl
theorem afterSwitch_ite (p : Prop) [Decidable p] (a b : R) :
    afterSwitch (if p then a else b) = if p then afterSwitch a else afterSwitch b := by split <;> rfl

/-! `callFn` on the calls the bodies make -/
section
variable (c : Ctx) (env : Env) (vs : VState)
theorem callFn_len_str (s : List Nat) : callFn c env vs "len" [.str s] = .ok (.int (strLen s)) := rfl
theorem callFn_len_ints (l : List Int) : callFn c env vs "len" [.ints l] = .ok (.int l.length) := rfl
theorem callFn_len_intss (l : List (List Int)) : callFn c env vs "len" [.intss l] = .ok (.int l.length) := rfl
theorem callFn_len_strs (l : List (List Nat)) : callFn c env vs "len" [.strs l] = .ok (.int l.length) := rfl
theorem callFn_string (s : List Nat) : callFn c env vs "string" [.str s] = .ok (.str s) := rfl
theorem callFn_ctm (n : Int) : callFn c env vs "ColorThemeMode" [.int n] = .ok (.int n) := rfl
theorem callFn_mb (n : Int) : callFn c env vs "MouseButton" [.int n] = .ok (.int n) := rfl
theorem callFn_cs (n : Int) : callFn c env vs "CursorStyle" [.int n] = .ok (.int n) := rfl
theorem callFn_terminalID (s : List Nat) : callFn c env vs "terminalID" [.str s] = .ok (.ev (.terminalID s)) := rfl
theorem callFn_appID (s : List Nat) : callFn c env vs "appID" [.str s] = .ok (.ev (.appID s)) := rfl
theorem callFn_decodeKey (s : Seq) : callFn c env vs "decodeKey" [.seq s] = .ok (.key s false) := rfl
theorem callFn_parseMouse (s : Seq) : callFn c env vs "parseMouseEvent" [.seq s] = c.parseMouse s := rfl
theorem callFn_split (s : List Nat) (sep : Nat) : callFn c env vs "strings.Split" [.str s, .str [sep]] = .ok (.strs (splitOn sep s)) := rfl
theorem callFn_hasPrefix (s p : List Nat) : callFn c env vs "strings.HasPrefix" [.str s, .str p] = .ok (.bool (isPrefix p s)) := rfl
theorem callFn_hasSuffix (s p : List Nat) : callFn c env vs "strings.HasSuffix" [.str s, .str p] = .ok (.bool (isSuffix p s)) := rfl
theorem callFn_hexEncode (s : List Nat) : callFn c env vs "hexEncode" [.str s] = .ok (.str (hexEncode s)) := rfl
theorem callFn_b64 (s : List Nat) : callFn c env vs "base64.StdEncoding.DecodeString" [.str s] =
    (match c.b64 s with | some b => .ok (.pair (.str b) .nil) | none => .ok (.pair (.str []) .errv)) := rfl
theorem callFn_can4 : callFn c env vs "vx.CanReportColor" [] = .ok (.bool vs.caps.osc4) := rfl
theorem callFn_can10 : callFn c env vs "vx.CanReportForegroundColor" [] = .ok (.bool vs.caps.osc10) := rfl
theorem callFn_can11 : callFn c env vs "vx.CanReportBackgroundColor" [] = .ok (.bool vs.caps.osc11) := rfl
theorem callFn_background : callFn c env vs "context.Background" [] = .ok (.opaque "background") := rfl
theorem callFn_mul (n : Int) : callFn c env vs "mul" [.int n, .opaque "duration"] = .ok (.opaque "duration") := rfl
theorem callFn_withTimeout : callFn c env vs "context.WithTimeout" [.opaque "background", .opaque "duration"] =
    .ok (.pair (.opaque "timeout context") (.opaque "cancel")) := rfl
end

/-! `readGlobal` on the names the bodies use -/
section
variable (env : Env) (vs : VState)
theorem readGlobal_0 : readGlobal env vs "seq.Final" = envSeqField env "Final" := rfl
theorem readGlobal_1 : readGlobal env vs "seq.Intermediate" = envSeqField env "Intermediate" := rfl
theorem readGlobal_2 : readGlobal env vs "seq.Parameters" = envSeqField env "Parameters" := rfl
theorem readGlobal_3 : readGlobal env vs "seq.Data" = envSeqField env "Data" := rfl
theorem readGlobal_4 : readGlobal env vs "seq.Payload" = envSeqField env "Payload" := rfl
theorem readGlobal_5 : readGlobal env vs "vx.pastePending" = .ok (.bool vs.pastePending) := rfl
theorem readGlobal_6 : readGlobal env vs "vx.caps.reportSizePixels" = .ok (.bool vs.caps.reportSizePixels) := rfl
theorem readGlobal_7 : readGlobal env vs "vx.caps.reportSizeChars" = .ok (.bool vs.caps.reportSizeChars) := rfl
theorem readGlobal_8 : readGlobal env vs "vx.caps.inBandResize" = .ok (.bool vs.caps.inBandResize) := rfl
theorem readGlobal_9 : readGlobal env vs "EventPress" = .ok (.int evPress) := rfl
theorem readGlobal_10 : readGlobal env vs "EventRelease" = .ok (.int evRelease) := rfl
theorem readGlobal_11 : readGlobal env vs "EventMotion" = .ok (.int evMotion) := rfl
theorem readGlobal_12 : readGlobal env vs "EventPaste" = .ok (.int evPaste) := rfl
theorem readGlobal_13 : readGlobal env vs "ModShift" = .ok (.int modShift) := rfl
theorem readGlobal_14 : readGlobal env vs "ModAlt" = .ok (.int modAlt) := rfl
theorem readGlobal_15 : readGlobal env vs "ModCtrl" = .ok (.int modCtrl) := rfl
theorem readGlobal_16 : readGlobal env vs "buttonBits" = .ok (.int Gen.Caps.buttonBits) := rfl
theorem readGlobal_17 : readGlobal env vs "motion" = .ok (.int Gen.Caps.motion) := rfl
theorem readGlobal_18 : readGlobal env vs "mouseModShift" = .ok (.int Gen.Caps.mouseModShift) := rfl
theorem readGlobal_19 : readGlobal env vs "mouseModAlt" = .ok (.int Gen.Caps.mouseModAlt) := rfl
theorem readGlobal_20 : readGlobal env vs "mouseModCtrl" = .ok (.int Gen.Caps.mouseModCtrl) := rfl
theorem readGlobal_21 : readGlobal env vs "colorThemeResp" = .ok (.int Gen.Caps.colorThemeResp) := rfl
theorem readGlobal_22 : readGlobal env vs "vx.chCursorPos" = .ok (.chan "chCursorPos") := rfl
theorem readGlobal_23 : readGlobal env vs "vx.chSizeDone" = .ok (.chan "chSizeDone") := rfl
theorem readGlobal_24 : readGlobal env vs "vx.chColor" = .ok (.chan "chColor") := rfl
theorem readGlobal_25 : readGlobal env vs "vx.chFg" = .ok (.chan "chFg") := rfl
theorem readGlobal_26 : readGlobal env vs "vx.chBg" = .ok (.chan "chBg") := rfl
theorem readGlobal_27 : readGlobal env vs "vx.chClipboard" = .ok (.chan "chClipboard") := rfl
theorem readGlobal_28 : readGlobal env vs "vx" = .ok (.opaque "vx") := rfl
theorem readGlobal_29 : readGlobal env vs "time.Millisecond" = .ok (.opaque "duration") := rfl
theorem readGlobal_30 : readGlobal env vs "Mode" = .ok (.opaque "field Mode") := rfl
end

/-! `litValue` -/
theorem litValue_0 : litValue "Mouse" [] = .ok (.mouse zeroMouse) := rfl
theorem litValue_1 : litValue "FocusIn" [] = .ok (.ev .focusIn) := rfl
theorem litValue_2 : litValue "FocusOut" [] = .ok (.ev .focusOut) := rfl
theorem litValue_3 : litValue "PasteStartEvent" [] = .ok (.ev .pasteStart) := rfl
theorem litValue_4 : litValue "PasteEndEvent" [] = .ok (.ev .pasteEnd) := rfl
theorem litValue_5 : litValue "Redraw" [] = .ok (.ev .redraw) := rfl
theorem litValue_6 : litValue "primaryDeviceAttribute" [] = .ok (.ev (.internal .primaryDeviceAttribute)) := rfl
theorem litValue_7 : litValue "capabilitySixel" [] = .ok (.ev (.internal .capabilitySixel)) := rfl
theorem litValue_8 : litValue "capabilityOsc4" [] = .ok (.ev (.internal .capabilityOsc4)) := rfl
theorem litValue_9 : litValue "capabilityOsc10" [] = .ok (.ev (.internal .capabilityOsc10)) := rfl
theorem litValue_10 : litValue "capabilityOsc11" [] = .ok (.ev (.internal .capabilityOsc11)) := rfl
theorem litValue_11 : litValue "synchronizedUpdates" [] = .ok (.ev (.internal .synchronizedUpdates)) := rfl
theorem litValue_12 : litValue "unicodeCoreCap" [] = .ok (.ev (.internal .unicodeCoreCap)) := rfl
theorem litValue_13 : litValue "notifyColorChange" [] = .ok (.ev (.internal .notifyColorChange)) := rfl
theorem litValue_14 : litValue "kittyKeyboard" [] = .ok (.ev (.internal .kittyKeyboard)) := rfl
theorem litValue_15 : litValue "styledUnderlines" [] = .ok (.ev (.internal .styledUnderlines)) := rfl
theorem litValue_16 : litValue "truecolor" [] = .ok (.ev (.internal .truecolor)) := rfl
theorem litValue_17 : litValue "kittyGraphics" [] = .ok (.ev (.internal .kittyGraphics)) := rfl
theorem litValue_18 : litValue "textAreaPix" [] = .ok (.ev (.internal .textAreaPix)) := rfl
theorem litValue_19 : litValue "textAreaChar" [] = .ok (.ev (.internal .textAreaChar)) := rfl
theorem litValue_20 : litValue "inBandResizeEvents" [] = .ok (.ev (.internal .inBandResizeEvents)) := rfl
theorem litValue_ctu (m : Int) : litValue "ColorThemeUpdate" [.opaque "field Mode", .int m] = .ok (.ev (.colorTheme m)) := rfl
theorem litValue_2int (a b : Int) : litValue "[2]int" [.int a, .int b] = .ok (.ints [a, b]) := rfl

/-! `callStmt` -/
section
variable (c : Ctx) (st : St)
theorem callStmt_postB (v : V) : callStmt c st "vx.PostEventBlocking" [v] =
    (match eventOf v with | .ok e => .norm (st.emit (.postB e) .blocking) | .error f => .fail f) := rfl
theorem callStmt_postNB (v : V) : callStmt c st "vx.PostEvent" [v] =
    (match eventOf v with | .ok e => .norm (st.emit (.postNB e) .nonblocking) | .error f => .fail f) := rfl
theorem callStmt_trySend (ch : String) (v : V) : callStmt c st "trySend" [.chan ch, v] = doSend st .nonblocking ch v := rfl
theorem callStmt_send (ch : String) (v : V) : callStmt c st "send" [.chan ch, v] = doSend st .blocking ch v := rfl
theorem callStmt_sendOrDone (ch : String) (v : V) : callStmt c st "sendOrDone" [.chan ch, v, .opaque "done"] = doSend st .timeout ch v := rfl
theorem callStmt_atomicStore (b : Bool) : callStmt c st "atomicStore" [.ref "vx.resize", .bool b] = .norm { st with vs := { st.vs with resizeFlag := b } } := rfl
theorem callStmt_resize : callStmt c st "vx.Resize" [] = c.resize st := rfl
theorem callStmt_noop0 : callStmt c st "log.Trace" [] = .norm st := rfl
theorem callStmt_noop1 : callStmt c st "log.Debug" [] = .norm st := rfl
theorem callStmt_noop2 : callStmt c st "log.Warn" [] = .norm st := rfl
theorem callStmt_noop3 : callStmt c st "log.Error" [] = .norm st := rfl
theorem callStmt_noop4 : callStmt c st "vx.mu.Lock" [] = .norm st := rfl
theorem callStmt_noop5 : callStmt c st "vx.mu.Unlock" [] = .norm st := rfl
theorem callStmt_verif (s : List Nat) : callStmt c st "verifC03" [.opaque "vx", .str s] = .norm st := rfl
end

/-! `doSend` -/
theorem doSend_cursor (st : St) (k : SendKind) (r c : Int) : doSend st k "chCursorPos" (.ints [r, c]) = .norm (st.emit (.sendCursorPos r c) k) := rfl
theorem doSend_size (st : St) (k : SendKind) : doSend st k "chSizeDone" (.bool true) = .norm (st.emit .sendSizeDone k) := rfl
theorem doSend_color (st : St) (k : SendKind) (s : List Nat) : doSend st k "chColor" (.str s) = .norm (st.emit (.sendColor s) k) := rfl
theorem doSend_fg (st : St) (k : SendKind) (s : List Nat) : doSend st k "chFg" (.str s) = .norm (st.emit (.sendFg s) k) := rfl
theorem doSend_bg (st : St) (k : SendKind) (s : List Nat) : doSend st k "chBg" (.str s) = .norm (st.emit (.sendBg s) k) := rfl
theorem doSend_clip (st : St) (k : SendKind) (s : List Nat) : doSend st k "chClipboard" (.str s) = .norm (st.emit (.sendClipboard s) k) := rfl

/-! `assign1` -/
section
variable (st : St)
theorem assign1_paste (b : Bool) : assign1 "vx.pastePending" (.bool b) st = .norm { st with vs := { st.vs with pastePending := b } } := rfl
theorem assign1_xpix (n : Int) : assign1 "vx.nextSize.XPixel" (.int n) st = .norm { st with vs := { st.vs with nextSize := { st.vs.nextSize with xpix := n } } } := rfl
theorem assign1_ypix (n : Int) : assign1 "vx.nextSize.YPixel" (.int n) st = .norm { st with vs := { st.vs with nextSize := { st.vs.nextSize with ypix := n } } } := rfl
theorem assign1_cols (n : Int) : assign1 "vx.nextSize.Cols" (.int n) st = .norm { st with vs := { st.vs with nextSize := { st.vs.nextSize with cols := n } } } := rfl
theorem assign1_rows (n : Int) : assign1 "vx.nextSize.Rows" (.int n) st = .norm { st with vs := { st.vs with nextSize := { st.vs.nextSize with rows := n } } } := rfl
theorem assign1_ucs (n : Int) : assign1 "vx.userCursorStyle" (.int n) st = .norm { st with vs := { st.vs with userCursorStyle := n } } := rfl
theorem assign1_keyET (n : Int) : assign1 "key.EventType" (.int n) st =
    (match st.env.lookup "key" with
     | some (.key s _) => if n = evPaste then .norm { st with env := ("key", .key s true) :: st.env } else .fail (.stuck "key.EventType value")
     | _ => .fail (.stuck "key.EventType")) := by
  unfold assign1; simp; split <;> simp_all
theorem assign1_mET (n : Int) : assign1 "mouse.EventType" (.int n) st =
    (match setMouse st.env fun m => { m with eventType := n.toNat } with | .ok e => .norm { st with env := e } | .error f => .fail f) := rfl
theorem assign1_mB (n : Int) : assign1 "mouse.Button" (.int n) st =
    (match setMouse st.env fun m => { m with button := n } with | .ok e => .norm { st with env := e } | .error f => .fail f) := rfl
theorem assign1_mC (n : Int) : assign1 "mouse.Col" (.int n) st =
    (match setMouse st.env fun m => { m with col := n } with | .ok e => .norm { st with env := e } | .error f => .fail f) := rfl
theorem assign1_mR (n : Int) : assign1 "mouse.Row" (.int n) st =
    (match setMouse st.env fun m => { m with row := n } with | .ok e => .norm { st with env := e } | .error f => .fail f) := rfl
theorem assign1_l_key (v : V) : assign1 "key" v st = .norm { st with env := ("key", v) :: st.env } := rfl
theorem assign1_l_mouse (v : V) : assign1 "mouse" v st = .norm { st with env := ("mouse", v) :: st.env } := rfl
theorem assign1_l_ok (v : V) : assign1 "ok" v st = .norm { st with env := ("ok", v) :: st.env } := rfl
theorem assign1_l_ps (v : V) : assign1 "ps" v st = .norm { st with env := ("ps", v) :: st.env } := rfl
theorem assign1_l_m (v : V) : assign1 "m" v st = .norm { st with env := ("m", v) :: st.env } := rfl
theorem assign1_l_typ (v : V) : assign1 "typ" v st = .norm { st with env := ("typ", v) :: st.env } := rfl
theorem assign1_l_h (v : V) : assign1 "h" v st = .norm { st with env := ("h", v) :: st.env } := rfl
theorem assign1_l_w (v : V) : assign1 "w" v st = .norm { st with env := ("w", v) :: st.env } := rfl
theorem assign1_l_report (v : V) : assign1 "report" v st = .norm { st with env := ("report", v) :: st.env } := rfl
theorem assign1_l_resize (v : V) : assign1 "resize" v st = .norm { st with env := ("resize", v) :: st.env } := rfl
theorem assign1_l_vals (v : V) : assign1 "vals" v st = .norm { st with env := ("vals", v) :: st.env } := rfl
theorem assign1_l_b (v : V) : assign1 "b" v st = .norm { st with env := ("b", v) :: st.env } := rfl
theorem assign1_l_err (v : V) : assign1 "err" v st = .norm { st with env := ("err", v) :: st.env } := rfl
theorem assign1_l_ctx (v : V) : assign1 "ctx" v st = .norm { st with env := ("ctx", v) :: st.env } := rfl
theorem assign1_l_cancel (v : V) : assign1 "cancel" v st = .norm { st with env := ("cancel", v) :: st.env } := rfl
theorem assign1_l_cursorStyle (v : V) : assign1 "cursorStyle" v st = .norm { st with env := ("cursorStyle", v) :: st.env } := rfl
theorem assign1_l_button (v : V) : assign1 "button" v st = .norm { st with env := ("button", v) :: st.env } := rfl
theorem assign1_l_blank (v : V) : assign1 "_" v st = .norm st := rfl
theorem orAssign_mods (n : Int) (h : 0 ≤ n) : orAssign "mouse.Modifiers" (.int n) st =
    (match setMouse st.env fun m => { m with mods := m.mods ||| n.toNat } with | .ok e => .norm { st with env := e } | .error f => .fail f) := by
  simp only [orAssign, if_true, h]
  rfl
end


/-! ## Step lemmas

The raw equations of `execS` / `execSs` put the rest of a block under a `fun st' => …`; `simp` would
run the rest on the unknown `st'`.  These first-order forms only continue once the result in front
is known (`.norm st`, `.ok (b, st)`, an `if` over such results). -/

def thenSs (c : Ctx) (r : R) (t : Ss) : R := match r with | .norm st => execSs c t st | r => r
def condBranch (c : Ctx) (r : Except Fail (Bool × St)) (thn els : Ss) : R :=
  match r with
  | .ok (b, st2) => if b = true then execSs c thn st2 else execSs c els st2
  | .error f => .fail f
def swStep (c : Ctx) (r : Except Fail V) (st : St) (cases : Cs) : R :=
  match r with
  | .ok tv => afterSwitch (execCs c tv st (fun _ => execDefault c st cases) cases)
  | .error f => .fail f
def csStep (c : Ctx) (r : Except Fail Bool) (tv : V) (st : St) (dflt : Unit → R) (body : Ss) (t : Cs) : R :=
  match r with
  | .ok true => execSs c body st
  | .ok false => execCs c tv st dflt t
  | .error f => .fail f
def hitStep (c : Ctx) (r : Except Fail Bool) (tv : V) (st : St) (t : Es) : Except Fail Bool :=
  match r with
  | .ok true => .ok true
  | .ok false => labelHit c tv st t
  | .error f => .error f
def loopBody (c : Ctx) (v : String) (body : Ss) : St → V → R :=
  fun st' it => execSs c body { st' with env := bindVar v it st'.env }
def forStep (c : Ctx) (v : String) (body : Ss) (r : Except Fail V) (st : St) : R :=
  match r with
  | .ok xv => (match rangeItems xv with | some items => loop (loopBody c v body) items st | none => .fail (.stuck "range"))
  | .error f => .fail f
def tsStep (c : Ctx) (bnd : String) (r : Except Fail V) (st : St) (cases : Cs) : R :=
  match r with
  | .ok (.seq s) =>
    afterSwitch (execTy c (seqTypeName s) { st with env := bindVar bnd (.seq s) st.env }
      (fun _ => execDefault c { st with env := bindVar bnd (.seq s) st.env } cases) cases)
  | .ok _ => .fail (.stuck "type switch subject")
  | .error f => .fail f
def exprStep (c : Ctx) (st : St) (fn : String) (r : Except Fail (List V)) : R :=
  match r with | .ok l => callStmt c st fn l | .error f => .fail f
def assignStep (tok : AssignTok) (names : Option (List String)) (r : Except Fail V) (st : St) : R :=
  match names with
  | some ns => (match r with | .ok v => assignVals tok ns v st | .error f => .fail f)
  | none => .fail (.stuck "assignment shape")
def retStep (st : St) (r : Except Fail (List V)) : R :=
  match r with
  | .ok [] => .ret st .nil
  | .ok [v] => .ret st v
  | .ok [a, b] => .ret st (.pair a b)
  | .ok _ => .fail (.stuck "return arity")
  | .error f => .fail f

section
variable (c : Ctx) (st : St)
theorem execSs_nil : execSs c .nil st = .norm st := by rw [execSs]
theorem execSs_cons (h : S) (t : Ss) : execSs c (.cons h t) st = thenSs c (execS c h st) t := by
  rw [execSs]; cases execS c h st <;> rfl
theorem execS_assign (tok : AssignTok) (lhs : Es) (e : E) :
    execS c (.assign tok lhs (.cons e .nil)) st = assignStep tok (lhsNames lhs) (evalE c st.env st.vs e) st := by
  cases h : lhsNames lhs <;> simp [execS, assignStep, h] <;> rfl
theorem execS_if (cond : E) (thn els : Ss) :
    execS c (.ifS .nil cond thn els) st = condBranch c (evalCond c cond st) thn els := by
  rw [execS, execSs]; rfl
theorem execS_ret (vals : Es) : execS c (.ret vals) st = retStep st (evalEs c st.env st.vs vals) := by
  rw [execS]; rfl
theorem execS_switch (tag : E) (cases : Cs) (h : tag ≠ .nilv) :
    execS c (.switchS .nil tag cases) st = swStep c (evalE c st.env st.vs tag) st cases := by
  rw [execS, execSs]
  cases tag <;> first | rfl | exact absurd rfl h
theorem execS_typeSwitch (bnd : String) (x : E) (cases : Cs) :
    execS c (.typeSwitch bnd x cases) st = tsStep c bnd (evalE c st.env st.vs x) st cases := by
  rw [execS]; rfl
theorem execS_forRange (k v : String) (x : E) (body : Ss) :
    execS c (.forRange k v x body) st = forStep c v body (evalE c st.env st.vs x) st := by
  rw [execS]; rfl
theorem execS_expr (fn : String) (args : Es) :
    execS c (.expr (.call fn args)) st = exprStep c st fn (evalEs c st.env st.vs args) := by
  rw [execS]; rfl
theorem execS_brk : execS c .brk st = .brk st := by rw [execS]
theorem execS_defer_cancel : execS c (.deferS (.call "cancel" .nil)) st = .norm st := by rw [execS]; rfl

theorem thenSs_norm (t : Ss) : thenSs c (.norm st) t = execSs c t st := rfl
theorem thenSs_ret (v : V) (t : Ss) : thenSs c (.ret st v) t = .ret st v := rfl
theorem thenSs_brk (t : Ss) : thenSs c (.brk st) t = .brk st := rfl
theorem thenSs_cont (t : Ss) : thenSs c (.cont st) t = .cont st := rfl
theorem thenSs_fail (f : Fail) (t : Ss) : thenSs c (.fail f) t = .fail f := rfl
theorem thenSs_ite (p : Prop) [Decidable p] (a b : R) (t : Ss) :
    thenSs c (if p then a else b) t = if p then thenSs c a t else thenSs c b t := by split <;> rfl
theorem condBranch_true (thn els : Ss) : condBranch c (.ok (true, st)) thn els = execSs c thn st := rfl
theorem condBranch_false (thn els : Ss) : condBranch c (.ok (false, st)) thn els = execSs c els st := rfl
theorem condBranch_decide (p : Prop) [Decidable p] (thn els : Ss) :
    condBranch c (.ok (decide p, st)) thn els = if p then execSs c thn st else execSs c els st := by
  by_cases h : p <;> simp [h, condBranch]
theorem condBranch_not (b : Bool) (thn els : Ss) :
    condBranch c (.ok (!b, st)) thn els = if b = true then execSs c els st else execSs c thn st := by
  cases b <;> rfl
theorem condBranch_ok (b : Bool) (thn els : Ss) :
    condBranch c (.ok (b, st)) thn els = if b = true then execSs c thn st else execSs c els st := rfl
theorem condBranch_err (f : Fail) (thn els : Ss) : condBranch c (.error f) thn els = .fail f := rfl
theorem swStep_ok (tv : V) (cases : Cs) :
    swStep c (.ok tv) st cases = afterSwitch (execCs c tv st (fun _ => execDefault c st cases) cases) := rfl
theorem swStep_err (f : Fail) (cases : Cs) : swStep c (.error f) st cases = .fail f := rfl
theorem execCs_nil (tv : V) (dflt : Unit → R) : execCs c tv st dflt .nil = dflt () := by rw [execCs]
theorem execCs_cons (tv : V) (dflt : Unit → R) (labels : Es) (body : Ss) (t : Cs) :
    execCs c tv st dflt (.cons labels body t) = csStep c (labelHit c tv st labels) tv st dflt body t := by
  rw [execCs]; unfold csStep; cases labelHit c tv st labels with
  | error f => rfl
  | ok b => cases b <;> rfl
theorem csStep_true (tv : V) (dflt : Unit → R) (body : Ss) (t : Cs) :
    csStep c (.ok true) tv st dflt body t = execSs c body st := rfl
theorem csStep_false (tv : V) (dflt : Unit → R) (body : Ss) (t : Cs) :
    csStep c (.ok false) tv st dflt body t = execCs c tv st dflt t := rfl
theorem csStep_decide (p : Prop) [Decidable p] (tv : V) (dflt : Unit → R) (body : Ss) (t : Cs) :
    csStep c (.ok (decide p)) tv st dflt body t = if p then execSs c body st else execCs c tv st dflt t := by
  by_cases h : p <;> simp [h, csStep]
theorem csStep_ite (p : Prop) [Decidable p] (a b : Except Fail Bool) (tv : V) (dflt : Unit → R) (body : Ss) (t : Cs) :
    csStep c (if p then a else b) tv st dflt body t = if p then csStep c a tv st dflt body t else csStep c b tv st dflt body t := by
  split <;> rfl
theorem csStep_err (f : Fail) (tv : V) (dflt : Unit → R) (body : Ss) (t : Cs) :
    csStep c (.error f) tv st dflt body t = .fail f := rfl
theorem labelHit_nil (tv : V) : labelHit c tv st .nil = .ok false := by rw [labelHit]
theorem labelHit_cons (tv : V) (l : E) (t : Es) :
    labelHit c tv st (.cons l t) =
      (match evalE c st.env st.vs l with
       | .ok lv => hitStep c (vEq tv lv) tv st t
       | .error f => .error f) := by
  rw [labelHit]; unfold hitStep
  cases evalE c st.env st.vs l with
  | error f => rfl
  | ok lv => cases vEq tv lv with
    | error f => rfl
    | ok b => cases b <;> rfl
theorem hitStep_true (tv : V) (t : Es) : hitStep c (.ok true) tv st t = .ok true := rfl
theorem hitStep_false (tv : V) (t : Es) : hitStep c (.ok false) tv st t = labelHit c tv st t := rfl
theorem hitStep_decide (p : Prop) [Decidable p] (tv : V) (t : Es) :
    hitStep c (.ok (decide p)) tv st t = if p then .ok true else labelHit c tv st t := by
  by_cases h : p <;> simp [h, hitStep]
theorem hitStep_err (f : Fail) (tv : V) (t : Es) : hitStep c (.error f) tv st t = .error f := rfl
theorem forStep_err (v : String) (body : Ss) (f : Fail) : forStep c v body (.error f) st = .fail f := rfl
theorem forStep_intss (v : String) (body : Ss) (l : List (List Int)) :
    forStep c v body (.ok (.intss l)) st = loop (loopBody c v body) (l.map V.ints) st := rfl
theorem tsStep_seq (bnd : String) (s : Seq) (cases : Cs) :
    tsStep c bnd (.ok (.seq s)) st cases =
      afterSwitch (execTy c (seqTypeName s) { st with env := bindVar bnd (.seq s) st.env }
        (fun _ => execDefault c { st with env := bindVar bnd (.seq s) st.env } cases) cases) := rfl
theorem exprStep_ok (fn : String) (l : List V) : exprStep c st fn (.ok l) = callStmt c st fn l := rfl
theorem exprStep_err (fn : String) (f : Fail) : exprStep c st fn (.error f) = .fail f := rfl
theorem assignStep_ok (tok : AssignTok) (ns : List String) (v : V) :
    assignStep tok (some ns) (.ok v) st = assignVals tok ns v st := rfl
theorem assignStep_err (tok : AssignTok) (ns : List String) (f : Fail) :
    assignStep tok (some ns) (.error f) st = .fail f := rfl
theorem retStep_nil : retStep st (.ok []) = .ret st .nil := rfl
theorem retStep_one (v : V) : retStep st (.ok [v]) = .ret st v := rfl
theorem retStep_two (a b : V) : retStep st (.ok [a, b]) = .ret st (.pair a b) := rfl
theorem retStep_err (f : Fail) : retStep st (.error f) = .fail f := rfl
end

attribute [ib] execSs_nil execSs_cons execS_assign execS_if execS_ret execS_switch execS_typeSwitch execS_forRange execS_expr
  execS_brk execS_defer_cancel thenSs_norm thenSs_ret thenSs_brk thenSs_cont thenSs_fail thenSs_ite condBranch_true condBranch_false condBranch_decide condBranch_err
  swStep_ok swStep_err execCs_nil execCs_cons csStep_true csStep_false csStep_decide csStep_ite csStep_err labelHit_nil labelHit_cons hitStep_true hitStep_false hitStep_decide hitStep_err
  forStep_err forStep_intss tsStep_seq exprStep_ok exprStep_err assignStep_ok assignStep_err retStep_nil retStep_one retStep_two retStep_err
  afterSwitch_ite

theorem finish_norm (st : St) : finish (.norm st) = .ok (st.vs, st.effs) := rfl
theorem finish_ret (st : St) (v : V) : finish (.ret st v) = .ok (st.vs, st.effs) := rfl
theorem finish_fail (f : Fail) : finish (.fail f) = .error f := rfl
theorem finish_ite (p : Prop) [Decidable p] (a b : R) : finish (if p then a else b) = if p then finish a else finish b := by
  split <;> rfl
attribute [ib] finish_norm finish_ret finish_fail finish_ite

/-! Length facts: `len(l) < m`, `len(l) == m` for a list with at least `k` elements. -/
theorem lenI_eq_1_0 (n : Nat) : (((n : Nat) : Int) + 1 = 0) = False := by simp only [eq_iff_iff, iff_false]; omega
theorem lenN_eq_1_0 (n : Nat) : (n + 1 = 0) = False := by simp only [eq_iff_iff, iff_false]; omega
theorem lenI_lt_1_1 (n : Nat) : (((n : Nat) : Int) + 1 < 1) = False := by simp only [eq_iff_iff, iff_false]; omega
theorem lenN_lt_1_1 (n : Nat) : (n + 1 < 1) = False := by simp only [eq_iff_iff, iff_false]; omega
theorem lenI_eq_2_0 (n : Nat) : (((n : Nat) : Int) + 1 + 1 = 0) = False := by simp only [eq_iff_iff, iff_false]; omega
theorem lenN_eq_2_0 (n : Nat) : (n + 1 + 1 = 0) = False := by simp only [eq_iff_iff, iff_false]; omega
theorem lenI_lt_2_1 (n : Nat) : (((n : Nat) : Int) + 1 + 1 < 1) = False := by simp only [eq_iff_iff, iff_false]; omega
theorem lenN_lt_2_1 (n : Nat) : (n + 1 + 1 < 1) = False := by simp only [eq_iff_iff, iff_false]; omega
theorem lenI_eq_2_1 (n : Nat) : (((n : Nat) : Int) + 1 + 1 = 1) = False := by simp only [eq_iff_iff, iff_false]; omega
theorem lenN_eq_2_1 (n : Nat) : (n + 1 + 1 = 1) = False := by simp only [eq_iff_iff, iff_false]; omega
theorem lenI_lt_2_2 (n : Nat) : (((n : Nat) : Int) + 1 + 1 < 2) = False := by simp only [eq_iff_iff, iff_false]; omega
theorem lenN_lt_2_2 (n : Nat) : (n + 1 + 1 < 2) = False := by simp only [eq_iff_iff, iff_false]; omega
theorem lenI_eq_3_0 (n : Nat) : (((n : Nat) : Int) + 1 + 1 + 1 = 0) = False := by simp only [eq_iff_iff, iff_false]; omega
theorem lenN_eq_3_0 (n : Nat) : (n + 1 + 1 + 1 = 0) = False := by simp only [eq_iff_iff, iff_false]; omega
theorem lenI_lt_3_1 (n : Nat) : (((n : Nat) : Int) + 1 + 1 + 1 < 1) = False := by simp only [eq_iff_iff, iff_false]; omega
theorem lenN_lt_3_1 (n : Nat) : (n + 1 + 1 + 1 < 1) = False := by simp only [eq_iff_iff, iff_false]; omega
theorem lenI_eq_3_1 (n : Nat) : (((n : Nat) : Int) + 1 + 1 + 1 = 1) = False := by simp only [eq_iff_iff, iff_false]; omega
theorem lenN_eq_3_1 (n : Nat) : (n + 1 + 1 + 1 = 1) = False := by simp only [eq_iff_iff, iff_false]; omega
theorem lenI_lt_3_2 (n : Nat) : (((n : Nat) : Int) + 1 + 1 + 1 < 2) = False := by simp only [eq_iff_iff, iff_false]; omega
theorem lenN_lt_3_2 (n : Nat) : (n + 1 + 1 + 1 < 2) = False := by simp only [eq_iff_iff, iff_false]; omega
theorem lenI_eq_3_2 (n : Nat) : (((n : Nat) : Int) + 1 + 1 + 1 = 2) = False := by simp only [eq_iff_iff, iff_false]; omega
theorem lenN_eq_3_2 (n : Nat) : (n + 1 + 1 + 1 = 2) = False := by simp only [eq_iff_iff, iff_false]; omega
theorem lenI_lt_3_3 (n : Nat) : (((n : Nat) : Int) + 1 + 1 + 1 < 3) = False := by simp only [eq_iff_iff, iff_false]; omega
theorem lenN_lt_3_3 (n : Nat) : (n + 1 + 1 + 1 < 3) = False := by simp only [eq_iff_iff, iff_false]; omega
theorem lenI_eq_4_0 (n : Nat) : (((n : Nat) : Int) + 1 + 1 + 1 + 1 = 0) = False := by simp only [eq_iff_iff, iff_false]; omega
theorem lenN_eq_4_0 (n : Nat) : (n + 1 + 1 + 1 + 1 = 0) = False := by simp only [eq_iff_iff, iff_false]; omega
theorem lenI_lt_4_1 (n : Nat) : (((n : Nat) : Int) + 1 + 1 + 1 + 1 < 1) = False := by simp only [eq_iff_iff, iff_false]; omega
theorem lenN_lt_4_1 (n : Nat) : (n + 1 + 1 + 1 + 1 < 1) = False := by simp only [eq_iff_iff, iff_false]; omega
theorem lenI_eq_4_1 (n : Nat) : (((n : Nat) : Int) + 1 + 1 + 1 + 1 = 1) = False := by simp only [eq_iff_iff, iff_false]; omega
theorem lenN_eq_4_1 (n : Nat) : (n + 1 + 1 + 1 + 1 = 1) = False := by simp only [eq_iff_iff, iff_false]; omega
theorem lenI_lt_4_2 (n : Nat) : (((n : Nat) : Int) + 1 + 1 + 1 + 1 < 2) = False := by simp only [eq_iff_iff, iff_false]; omega
theorem lenN_lt_4_2 (n : Nat) : (n + 1 + 1 + 1 + 1 < 2) = False := by simp only [eq_iff_iff, iff_false]; omega
theorem lenI_eq_4_2 (n : Nat) : (((n : Nat) : Int) + 1 + 1 + 1 + 1 = 2) = False := by simp only [eq_iff_iff, iff_false]; omega
theorem lenN_eq_4_2 (n : Nat) : (n + 1 + 1 + 1 + 1 = 2) = False := by simp only [eq_iff_iff, iff_false]; omega
theorem lenI_lt_4_3 (n : Nat) : (((n : Nat) : Int) + 1 + 1 + 1 + 1 < 3) = False := by simp only [eq_iff_iff, iff_false]; omega
theorem lenN_lt_4_3 (n : Nat) : (n + 1 + 1 + 1 + 1 < 3) = False := by simp only [eq_iff_iff, iff_false]; omega
theorem lenI_eq_4_3 (n : Nat) : (((n : Nat) : Int) + 1 + 1 + 1 + 1 = 3) = False := by simp only [eq_iff_iff, iff_false]; omega
theorem lenN_eq_4_3 (n : Nat) : (n + 1 + 1 + 1 + 1 = 3) = False := by simp only [eq_iff_iff, iff_false]; omega
theorem lenI_lt_4_4 (n : Nat) : (((n : Nat) : Int) + 1 + 1 + 1 + 1 < 4) = False := by simp only [eq_iff_iff, iff_false]; omega
theorem lenN_lt_4_4 (n : Nat) : (n + 1 + 1 + 1 + 1 < 4) = False := by simp only [eq_iff_iff, iff_false]; omega
theorem lenI_eq_5_0 (n : Nat) : (((n : Nat) : Int) + 1 + 1 + 1 + 1 + 1 = 0) = False := by simp only [eq_iff_iff, iff_false]; omega
theorem lenN_eq_5_0 (n : Nat) : (n + 1 + 1 + 1 + 1 + 1 = 0) = False := by simp only [eq_iff_iff, iff_false]; omega
theorem lenI_lt_5_1 (n : Nat) : (((n : Nat) : Int) + 1 + 1 + 1 + 1 + 1 < 1) = False := by simp only [eq_iff_iff, iff_false]; omega
theorem lenN_lt_5_1 (n : Nat) : (n + 1 + 1 + 1 + 1 + 1 < 1) = False := by simp only [eq_iff_iff, iff_false]; omega
theorem lenI_eq_5_1 (n : Nat) : (((n : Nat) : Int) + 1 + 1 + 1 + 1 + 1 = 1) = False := by simp only [eq_iff_iff, iff_false]; omega
theorem lenN_eq_5_1 (n : Nat) : (n + 1 + 1 + 1 + 1 + 1 = 1) = False := by simp only [eq_iff_iff, iff_false]; omega
theorem lenI_lt_5_2 (n : Nat) : (((n : Nat) : Int) + 1 + 1 + 1 + 1 + 1 < 2) = False := by simp only [eq_iff_iff, iff_false]; omega
theorem lenN_lt_5_2 (n : Nat) : (n + 1 + 1 + 1 + 1 + 1 < 2) = False := by simp only [eq_iff_iff, iff_false]; omega
theorem lenI_eq_5_2 (n : Nat) : (((n : Nat) : Int) + 1 + 1 + 1 + 1 + 1 = 2) = False := by simp only [eq_iff_iff, iff_false]; omega
theorem lenN_eq_5_2 (n : Nat) : (n + 1 + 1 + 1 + 1 + 1 = 2) = False := by simp only [eq_iff_iff, iff_false]; omega
theorem lenI_lt_5_3 (n : Nat) : (((n : Nat) : Int) + 1 + 1 + 1 + 1 + 1 < 3) = False := by simp only [eq_iff_iff, iff_false]; omega
theorem lenN_lt_5_3 (n : Nat) : (n + 1 + 1 + 1 + 1 + 1 < 3) = False := by simp only [eq_iff_iff, iff_false]; omega
theorem lenI_eq_5_3 (n : Nat) : (((n : Nat) : Int) + 1 + 1 + 1 + 1 + 1 = 3) = False := by simp only [eq_iff_iff, iff_false]; omega
theorem lenN_eq_5_3 (n : Nat) : (n + 1 + 1 + 1 + 1 + 1 = 3) = False := by simp only [eq_iff_iff, iff_false]; omega
theorem lenI_lt_5_4 (n : Nat) : (((n : Nat) : Int) + 1 + 1 + 1 + 1 + 1 < 4) = False := by simp only [eq_iff_iff, iff_false]; omega
theorem lenN_lt_5_4 (n : Nat) : (n + 1 + 1 + 1 + 1 + 1 < 4) = False := by simp only [eq_iff_iff, iff_false]; omega
theorem lenI_eq_5_4 (n : Nat) : (((n : Nat) : Int) + 1 + 1 + 1 + 1 + 1 = 4) = False := by simp only [eq_iff_iff, iff_false]; omega
theorem lenN_eq_5_4 (n : Nat) : (n + 1 + 1 + 1 + 1 + 1 = 4) = False := by simp only [eq_iff_iff, iff_false]; omega
theorem lenI_lt_5_5 (n : Nat) : (((n : Nat) : Int) + 1 + 1 + 1 + 1 + 1 < 5) = False := by simp only [eq_iff_iff, iff_false]; omega
theorem lenN_lt_5_5 (n : Nat) : (n + 1 + 1 + 1 + 1 + 1 < 5) = False := by simp only [eq_iff_iff, iff_false]; omega
theorem lenI_eq_6_0 (n : Nat) : (((n : Nat) : Int) + 1 + 1 + 1 + 1 + 1 + 1 = 0) = False := by simp only [eq_iff_iff, iff_false]; omega
theorem lenN_eq_6_0 (n : Nat) : (n + 1 + 1 + 1 + 1 + 1 + 1 = 0) = False := by simp only [eq_iff_iff, iff_false]; omega
theorem lenI_lt_6_1 (n : Nat) : (((n : Nat) : Int) + 1 + 1 + 1 + 1 + 1 + 1 < 1) = False := by simp only [eq_iff_iff, iff_false]; omega
theorem lenN_lt_6_1 (n : Nat) : (n + 1 + 1 + 1 + 1 + 1 + 1 < 1) = False := by simp only [eq_iff_iff, iff_false]; omega
theorem lenI_eq_6_1 (n : Nat) : (((n : Nat) : Int) + 1 + 1 + 1 + 1 + 1 + 1 = 1) = False := by simp only [eq_iff_iff, iff_false]; omega
theorem lenN_eq_6_1 (n : Nat) : (n + 1 + 1 + 1 + 1 + 1 + 1 = 1) = False := by simp only [eq_iff_iff, iff_false]; omega
theorem lenI_lt_6_2 (n : Nat) : (((n : Nat) : Int) + 1 + 1 + 1 + 1 + 1 + 1 < 2) = False := by simp only [eq_iff_iff, iff_false]; omega
theorem lenN_lt_6_2 (n : Nat) : (n + 1 + 1 + 1 + 1 + 1 + 1 < 2) = False := by simp only [eq_iff_iff, iff_false]; omega
theorem lenI_eq_6_2 (n : Nat) : (((n : Nat) : Int) + 1 + 1 + 1 + 1 + 1 + 1 = 2) = False := by simp only [eq_iff_iff, iff_false]; omega
theorem lenN_eq_6_2 (n : Nat) : (n + 1 + 1 + 1 + 1 + 1 + 1 = 2) = False := by simp only [eq_iff_iff, iff_false]; omega
theorem lenI_lt_6_3 (n : Nat) : (((n : Nat) : Int) + 1 + 1 + 1 + 1 + 1 + 1 < 3) = False := by simp only [eq_iff_iff, iff_false]; omega
theorem lenN_lt_6_3 (n : Nat) : (n + 1 + 1 + 1 + 1 + 1 + 1 < 3) = False := by simp only [eq_iff_iff, iff_false]; omega
theorem lenI_eq_6_3 (n : Nat) : (((n : Nat) : Int) + 1 + 1 + 1 + 1 + 1 + 1 = 3) = False := by simp only [eq_iff_iff, iff_false]; omega
theorem lenN_eq_6_3 (n : Nat) : (n + 1 + 1 + 1 + 1 + 1 + 1 = 3) = False := by simp only [eq_iff_iff, iff_false]; omega
theorem lenI_lt_6_4 (n : Nat) : (((n : Nat) : Int) + 1 + 1 + 1 + 1 + 1 + 1 < 4) = False := by simp only [eq_iff_iff, iff_false]; omega
theorem lenN_lt_6_4 (n : Nat) : (n + 1 + 1 + 1 + 1 + 1 + 1 < 4) = False := by simp only [eq_iff_iff, iff_false]; omega
theorem lenI_eq_6_4 (n : Nat) : (((n : Nat) : Int) + 1 + 1 + 1 + 1 + 1 + 1 = 4) = False := by simp only [eq_iff_iff, iff_false]; omega
theorem lenN_eq_6_4 (n : Nat) : (n + 1 + 1 + 1 + 1 + 1 + 1 = 4) = False := by simp only [eq_iff_iff, iff_false]; omega
theorem lenI_lt_6_5 (n : Nat) : (((n : Nat) : Int) + 1 + 1 + 1 + 1 + 1 + 1 < 5) = False := by simp only [eq_iff_iff, iff_false]; omega
theorem lenN_lt_6_5 (n : Nat) : (n + 1 + 1 + 1 + 1 + 1 + 1 < 5) = False := by simp only [eq_iff_iff, iff_false]; omega
theorem lenI_eq_6_5 (n : Nat) : (((n : Nat) : Int) + 1 + 1 + 1 + 1 + 1 + 1 = 5) = False := by simp only [eq_iff_iff, iff_false]; omega
theorem lenN_eq_6_5 (n : Nat) : (n + 1 + 1 + 1 + 1 + 1 + 1 = 5) = False := by simp only [eq_iff_iff, iff_false]; omega
attribute [ib] lenI_eq_1_0 lenN_eq_1_0 lenI_lt_1_1 lenN_lt_1_1 lenI_eq_2_0 lenN_eq_2_0 lenI_lt_2_1 lenN_lt_2_1 lenI_eq_2_1 lenN_eq_2_1 lenI_lt_2_2 lenN_lt_2_2 lenI_eq_3_0 lenN_eq_3_0 lenI_lt_3_1 lenN_lt_3_1 lenI_eq_3_1 lenN_eq_3_1 lenI_lt_3_2 lenN_lt_3_2 lenI_eq_3_2 lenN_eq_3_2 lenI_lt_3_3 lenN_lt_3_3 lenI_eq_4_0 lenN_eq_4_0 lenI_lt_4_1 lenN_lt_4_1 lenI_eq_4_1 lenN_eq_4_1 lenI_lt_4_2 lenN_lt_4_2 lenI_eq_4_2 lenN_eq_4_2 lenI_lt_4_3 lenN_lt_4_3 lenI_eq_4_3 lenN_eq_4_3 lenI_lt_4_4 lenN_lt_4_4 lenI_eq_5_0 lenN_eq_5_0 lenI_lt_5_1 lenN_lt_5_1 lenI_eq_5_1 lenN_eq_5_1 lenI_lt_5_2 lenN_lt_5_2 lenI_eq_5_2 lenN_eq_5_2 lenI_lt_5_3 lenN_lt_5_3 lenI_eq_5_3 lenN_eq_5_3 lenI_lt_5_4 lenN_lt_5_4 lenI_eq_5_4 lenN_eq_5_4 lenI_lt_5_5 lenN_lt_5_5 lenI_eq_6_0 lenN_eq_6_0 lenI_lt_6_1 lenN_lt_6_1 lenI_eq_6_1 lenN_eq_6_1 lenI_lt_6_2 lenN_lt_6_2 lenI_eq_6_2 lenN_eq_6_2 lenI_lt_6_3 lenN_lt_6_3 lenI_eq_6_3 lenN_eq_6_3 lenI_lt_6_4 lenN_lt_6_4 lenI_eq_6_4 lenN_eq_6_4 lenI_lt_6_5 lenN_lt_6_5 lenI_eq_6_5 lenN_eq_6_5

theorem callFn_ctxDone (c : Ctx) (env : Env) (vs : VState) (h : List.lookup "ctx" env = some (V.opaque "timeout context")) :
    callFn c env vs "ctx.Done" [] = .ok (.opaque "done") := by
  unfold callFn; simp [h]
attribute [ib] callFn_ctxDone

attribute [ib] orAssign_mods assign1_l_blank
attribute [ib low] condBranch_ok condBranch_not

theorem retVal_ret (st : St) (v : V) : retVal (.ret st v) = .ok v := rfl
theorem retVal_fail (f : Fail) : retVal (.fail f) = .error f := rfl
theorem retVal_ite (p : Prop) [Decidable p] (a b : R) : retVal (if p then a else b) = if p then retVal a else retVal b := by
  split <;> rfl
theorem pmOfModel_ite (p : Prop) [Decidable p] (a b : Except Panic (Option Mouse)) :
    pmOfModel (if p then a else b) = if p then pmOfModel a else pmOfModel b := by split <;> rfl
theorem cast_eq_77 (f : Nat) : ((f : Int) = 77) = (f = 77) := by simp only [eq_iff_iff]; omega
theorem cast_eq_109 (f : Nat) : ((f : Int) = 109) = (f = 109) := by simp only [eq_iff_iff]; omega
attribute [ib] retVal_ret retVal_fail retVal_ite cast_eq_77 cast_eq_109

attribute [ib] andThen_norm andThen_ret andThen_brk andThen_cont andThen_fail afterSwitch_norm afterSwitch_ret afterSwitch_brk afterSwitch_cont afterSwitch_fail callFn_len_str callFn_len_ints callFn_len_intss callFn_len_strs callFn_string callFn_ctm callFn_mb callFn_cs callFn_terminalID callFn_appID callFn_decodeKey callFn_parseMouse callFn_split callFn_hasPrefix callFn_hasSuffix callFn_hexEncode callFn_b64 callFn_can4 callFn_can10 callFn_can11 callFn_background callFn_mul callFn_withTimeout readGlobal_0 readGlobal_1 readGlobal_2 readGlobal_3 readGlobal_4 readGlobal_5 readGlobal_6 readGlobal_7 readGlobal_8 readGlobal_9 readGlobal_10 readGlobal_11 readGlobal_12 readGlobal_13 readGlobal_14 readGlobal_15 readGlobal_16 readGlobal_17 readGlobal_18 readGlobal_19 readGlobal_20 readGlobal_21 readGlobal_22 readGlobal_23 readGlobal_24 readGlobal_25 readGlobal_26 readGlobal_27 readGlobal_28 readGlobal_29 readGlobal_30 litValue_0 litValue_1 litValue_2 litValue_3 litValue_4 litValue_5 litValue_6 litValue_7 litValue_8 litValue_9 litValue_10 litValue_11 litValue_12 litValue_13 litValue_14 litValue_15 litValue_16 litValue_17 litValue_18 litValue_19 litValue_20 litValue_ctu litValue_2int callStmt_postB callStmt_postNB callStmt_trySend callStmt_send callStmt_sendOrDone callStmt_atomicStore callStmt_resize callStmt_noop0 callStmt_noop1 callStmt_noop2 callStmt_noop3 callStmt_noop4 callStmt_noop5 callStmt_verif doSend_cursor doSend_size doSend_color doSend_fg doSend_bg doSend_clip assign1_paste assign1_xpix assign1_ypix assign1_cols assign1_rows assign1_ucs assign1_keyET assign1_mET assign1_mB assign1_mC assign1_mR assign1_l_key assign1_l_mouse assign1_l_ok assign1_l_ps assign1_l_m assign1_l_typ assign1_l_h assign1_l_w assign1_l_report assign1_l_resize assign1_l_vals assign1_l_b assign1_l_err assign1_l_ctx assign1_l_cancel assign1_l_cursorStyle assign1_l_button
  execTy execDefault evalE evalEs evalCond isCASReq lhsNames assignVals readVar bindVar tyHit
  Ss.ofList Es.ofList Cs.ofList St.emit eventOf index binop vEq intCmp rangeItems envSeqField seqField seqTypeName List.lookup

end VaxisModel.Lemmas.InputBody
