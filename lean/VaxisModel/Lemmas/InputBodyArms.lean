/-
`handleSequence` arm by arm: the interpreter of `Model/InputBody.lean` run on the regenerated body
(`Gen/InputBody.lean`) equals the hand model (`Model/Input.lean`), for all states and all values of
the sequence's fields.  Each lemma first runs the interpreter symbolically (`ib_eval`), then splits
on the shapes the evaluation depends on (lengths, heads, the tested values) and runs it again.
-/
import VaxisModel.Lemmas.InputBody

namespace VaxisModel.Lemmas.InputBodyArms
open VaxisModel.Model.GoBody VaxisModel.Model.Input VaxisModel.Model.InputBody VaxisModel.Model.InputLoop
open VaxisModel.Gen.InputBody VaxisModel.Lemmas.InputBody

theorem kinds_now : Kinds.ofGen =
    { cursorPos := .nonblocking, sizeDone := .nonblocking, color := .nonblocking, fg := .nonblocking,
      bg := .nonblocking, clipboard := .timeout } := by decide

theorem decrpm0 : decrpmVals 0 = [1, 2] := by decide
theorem decrpm1 : decrpmVals 1 = [1, 2, 3] := by decide
theorem decrpm2 : decrpmVals 2 = [1, 2] := by decide

abbrev Goal (b64 : List Nat → Option (List Nat)) (vs : VState) (s : Seq) : Prop :=
  runHs b64 vs s = ofModel Kinds.ofGen (handle b64 vs s)

macro "ib_eval" : tactic => `(tactic| simp [Goal, runHs, hs, hs_s1_a0, hs_s1_a1, hs_s1_a2, hs_s1_a3, hs_s1_a4, hs_s1_a5, hs_s1_a6, hs_s1_a7,
  hs_s1_a4_s0_a0, hs_s1_a4_s0_a1, hs_s1_a4_s0_a2, hs_s1_a4_s0_a3, hs_s1_a4_s0_a4, hs_s1_a4_s0_a5, hs_s1_a4_s0_a6, hs_s1_a4_s0_a7,
  hs_s1_a4_s0_a8, hs_s1_a4_s0_a9, hs_s1_a4_s0_a10, hs_s1_a5_s0_a0, hs_s1_a5_s0_a1,
  ib, VaxisModel.Lemmas.InputBodyArms.decrpm0, VaxisModel.Lemmas.InputBodyArms.decrpm1, VaxisModel.Lemmas.InputBodyArms.decrpm2, handle, handleCSI, handleDCS, handleOSC, decrpmArm, isPrivate, ch, kinds_now, ofModel, keyArm, post, kindOf, idx2, idx, bind,
  Except.bind, pure, Except.pure, *])

section
variable (b64 : List Nat → Option (List Nat)) (vs : VState)

/-! ### the key arms and the value without an arm -/

theorem key_print (g : List Nat) (w : Int) : Goal b64 vs (.print g w) := by
  rcases vs with ⟨pp, rcp, rf, caps, ns, ucs⟩; cases pp <;> ib_eval
theorem key_c0 (r : Nat) : Goal b64 vs (.c0 r) := by
  rcases vs with ⟨pp, rcp, rf, caps, ns, ucs⟩; cases pp <;> ib_eval
theorem key_esc (i : List Nat) (f : Nat) : Goal b64 vs (.esc i f) := by
  rcases vs with ⟨pp, rcp, rf, caps, ns, ucs⟩; cases pp <;> ib_eval
theorem key_ss3 (r : Nat) : Goal b64 vs (.ss3 r) := by
  rcases vs with ⟨pp, rcp, rf, caps, ns, ucs⟩; cases pp <;> ib_eval
theorem no_arm : Goal b64 vs .other := by
  rcases vs with ⟨pp, rcp, rf, caps, ns, ucs⟩; ib_eval

/-! ### CSI -/

theorem csi_I (i : List Nat) (p : List (List Int)) : Goal b64 vs (.csi i p 73) := by ib_eval
theorem csi_O (i : List Nat) (p : List (List Int)) : Goal b64 vs (.csi i p 79) := by ib_eval

set_option maxHeartbeats 400000 in
theorem csi_R (i : List Nat) (p : List (List Int)) : Goal b64 vs (.csi i p 82) := by
  rcases vs with ⟨pp, rcp, rf, caps, ns, ucs⟩
  ib_eval
  cases rcp <;> cases pp <;> ib_eval
  all_goals (rcases p with _ | ⟨a, _ | ⟨b, _ | ⟨c, p⟩⟩⟩ <;> try ib_eval)
  all_goals first | omega | (rcases a with _ | ⟨x, a⟩ <;> rcases b with _ | ⟨y, b⟩ <;> ib_eval)

set_option maxHeartbeats 400000 in
theorem csi_S (i : List Nat) (p : List (List Int)) : Goal b64 vs (.csi i p 83) := by
  rcases vs with ⟨pp, rcp, rf, caps, ns, ucs⟩
  rcases i with _ | ⟨i0, _ | ⟨i1, it⟩⟩
  · cases pp <;> ib_eval
  · by_cases h63 : i0 = 63
    · subst h63
      rcases p with _ | ⟨a, _ | ⟨b, _ | ⟨c, p⟩⟩⟩
      · cases pp <;> ib_eval
      · cases pp <;> ib_eval
      · cases pp <;> ib_eval
      · rcases a with _ | ⟨x, a⟩
        · ib_eval
        · by_cases hx : x = 2
          · subst hx
            rcases b with _ | ⟨y, b⟩
            · ib_eval
            · by_cases hy : y = 0
              · subst hy; ib_eval
              · ib_eval
          · ib_eval
    · have h63' : ¬ ((i0 : Int) = 63) := by omega
      cases pp <;> ib_eval
  · cases pp <;> ib_eval

set_option maxHeartbeats 400000 in
theorem csi_n (i : List Nat) (p : List (List Int)) : Goal b64 vs (.csi i p 110) := by
  rcases vs with ⟨pp, rcp, rf, caps, ns, ucs⟩
  rcases i with _ | ⟨i0, _ | ⟨i1, it⟩⟩
  · cases pp <;> ib_eval
  · by_cases h63 : i0 = 63
    · subst h63
      rcases p with _ | ⟨a, _ | ⟨b, _ | ⟨c, p⟩⟩⟩
      · cases pp <;> ib_eval
      · cases pp <;> ib_eval
      · rcases a with _ | ⟨x, a⟩
        · ib_eval
        · by_cases hx : x = Gen.Caps.colorThemeResp
          · subst hx
            rcases b with _ | ⟨y, b⟩ <;> ib_eval
          · ib_eval
      · cases pp <;> ib_eval
    · have h63' : ¬ ((i0 : Int) = 63) := by omega
      cases pp <;> ib_eval
  · cases pp <;> ib_eval

set_option maxHeartbeats 400000 in
theorem csi_u (i : List Nat) (p : List (List Int)) : Goal b64 vs (.csi i p 117) := by
  rcases vs with ⟨pp, rcp, rf, caps, ns, ucs⟩
  rcases i with _ | ⟨i0, _ | ⟨i1, it⟩⟩
  · cases pp <;> ib_eval
  · by_cases h63 : i0 = 63
    · subst h63; ib_eval
    · have h63' : ¬ ((i0 : Int) = 63) := by omega
      cases pp <;> ib_eval
  · cases pp <;> ib_eval

set_option maxHeartbeats 400000 in
theorem csi_tilde (i : List Nat) (p : List (List Int)) : Goal b64 vs (.csi i p 126) := by
  rcases vs with ⟨pp, rcp, rf, caps, ns, ucs⟩
  rcases i with _ | ⟨i0, it⟩
  · rcases p with _ | ⟨a, p⟩
    · ib_eval
    · rcases a with _ | ⟨x, a⟩
      · ib_eval
      · by_cases h200 : x = 200
        · subst h200; ib_eval
        · by_cases h201 : x = 201
          · subst h201; ib_eval
          · cases pp <;> ib_eval
  · cases pp <;> ib_eval

end
/-! ### parseMouseEvent -/

macro "pm_eval" : tactic => `(tactic| simp [runPm, pm, ib, pmOfModel_ite, pmOfModel, parseMouse, mouseGuard, mouseGuardWith, VaxisModel.Gen.Caps.mouseGuardIsOr,
  VaxisModel.Gen.Caps.buttonBits, VaxisModel.Gen.Caps.motion, VaxisModel.Gen.Caps.mouseModShift, VaxisModel.Gen.Caps.mouseModAlt,
  VaxisModel.Gen.Caps.mouseModCtrl, zeroMouse, setMouse,
  evPress, evRelease, evMotion, modShift, modAlt, modCtrl, ch, idx2, idx, bind, Except.bind, pure, Except.pure, *])

set_option maxHeartbeats 400000 in
theorem pm_eq (i : List Nat) (p : List (List Int)) (f : Nat) :
    runPm (.csi i p f) = pmOfModel (parseMouse i p f) := by
  rcases i with _ | ⟨i0, _ | ⟨i1, it⟩⟩
  · pm_eval
  · by_cases h60 : i0 = 60
    · subst h60
      rcases p with _ | ⟨a, _ | ⟨b, _ | ⟨c, _ | ⟨d, p⟩⟩⟩⟩
      · pm_eval
      · pm_eval
      · pm_eval
      · rcases a with _ | ⟨x, a⟩
        · pm_eval
        · rcases b with _ | ⟨y, b⟩
          · pm_eval
          · rcases c with _ | ⟨z, c⟩
            · pm_eval
            · pm_eval
              by_cases hf : f = 77 <;> by_cases hf2 : f = 109 <;> by_cases h32 : andMask x 32 = 0 <;>
                by_cases h4 : andMask x 4 = 0 <;> by_cases h8 : andMask x 8 = 0 <;> by_cases h16 : andMask x 16 = 0 <;>
                simp [pmOfModel, *]
      · pm_eval
    · have h60' : ¬ ((i0 : Int) = 60) := by omega
      pm_eval
  · pm_eval


section
variable (b64 : List Nat → Option (List Nat)) (vs : VState)

set_option maxHeartbeats 400000 in
theorem csi_Mm (i : List Nat) (p : List (List Int)) (f : Nat) (hf : f = 77 ∨ f = 109) : Goal b64 vs (.csi i p f) := by
  rcases vs with ⟨pp, rcp, rf, caps, ns, ucs⟩
  rcases hf with rfl | rfl
  · ib_eval
    simp only [ctxHs, pm_eq]
    cases h : parseMouse i p 77 with
    | error e => simp [pmOfModel, ib]
    | ok o => cases o <;> simp [pmOfModel, ib]
  · ib_eval
    simp only [ctxHs, pm_eq]
    cases h : parseMouse i p 109 with
    | error e => simp [pmOfModel, ib]
    | ok o => cases o <;> simp [pmOfModel, ib]

set_option maxHeartbeats 400000 in
theorem csi_y (i : List Nat) (p : List (List Int)) : Goal b64 vs (.csi i p 121) := by
  rcases vs with ⟨pp, rcp, rf, caps, ns, ucs⟩
  rcases p with _ | ⟨a, p⟩
  · ib_eval
  · rcases a with _ | ⟨x, a⟩
    · ib_eval
    · by_cases h26 : x = 2026
      · subst h26
        rcases p with _ | ⟨b, p⟩
        · ib_eval
        · rcases b with _ | ⟨y, b⟩
          · ib_eval
          · by_cases h1 : y = 1
            · subst h1; ib_eval
            · by_cases h2 : y = 2
              · subst h2; ib_eval
              · ib_eval
      · by_cases h27 : x = 2027
        · subst h27
          rcases p with _ | ⟨b, p⟩
          · ib_eval
          · rcases b with _ | ⟨y, b⟩
            · ib_eval
            · by_cases h1 : y = 1
              · subst h1; ib_eval
              · by_cases h2 : y = 2
                · subst h2; ib_eval
                · by_cases h3 : y = 3
                  · subst h3; ib_eval
                  · ib_eval
        · by_cases h31 : x = 2031
          · subst h31
            rcases p with _ | ⟨b, p⟩
            · ib_eval
            · rcases b with _ | ⟨y, b⟩
              · ib_eval
              · by_cases h1 : y = 1
                · subst h1; ib_eval
                · by_cases h2 : y = 2
                  · subst h2; ib_eval
                  · ib_eval
          · ib_eval
end

end VaxisModel.Lemmas.InputBodyArms
