/-
`handleSequence` arm by arm, second part: `CSI … t`, `CSI … c` (the loop over the parameters), the
finals without an arm, DCS, APC and OSC.
-/
import VaxisModel.Lemmas.InputBodyArms

namespace VaxisModel.Lemmas.InputBodyArms
open VaxisModel.Model.GoBody VaxisModel.Model.Input VaxisModel.Model.InputBody VaxisModel.Model.InputLoop
open VaxisModel.Gen.InputBody VaxisModel.Lemmas.InputBody

theorem str_smulx : str "Smulx" = [83, 109, 117, 108, 120] := by decide
theorem str_rgb : str "RGB" = [82, 71, 66] := by decide
theorem str_vte : str "~VTE" = [126, 86, 84, 69] := by decide
theorem str_q : str " q" = [32, 113] := by decide
theorem str_G : str "G" = [71] := by decide
theorem str_4 : str "4" = [52] := by decide
theorem str_10 : str "10" = [49, 48] := by decide
theorem str_11 : str "11" = [49, 49] := by decide
theorem str_52 : str "52" = [53, 50] := by decide
theorem str_176 : str "176" = [49, 55, 54] := by decide

theorem strLen_nonneg : ∀ s, 0 ≤ strLen s
  | [] => by simp [strLen]
  | r :: t => by have := strLen_nonneg t; simp only [strLen, utf8Len]; split <;> (try split) <;> (try split) <;> omega
theorem strLen_nil : strLen [] = 0 := rfl
theorem strLen_cons (r : Nat) (t : List Nat) : (strLen (r :: t) = 0) = False := by
  have := strLen_nonneg t
  simp only [strLen, utf8Len, eq_iff_iff, iff_false]; split <;> (try split) <;> (try split) <;> omega

theorem prefix_excl (p : List Nat) :
    (isPrefix [52] p = true → isPrefix [49, 48] p = false ∧ isPrefix [49, 49] p = false ∧ isPrefix [53, 50] p = false ∧ isPrefix [49, 55, 54] p = false) ∧
    (isPrefix [49, 48] p = true → isPrefix [49, 49] p = false ∧ isPrefix [53, 50] p = false ∧ isPrefix [49, 55, 54] p = false) ∧
    (isPrefix [49, 49] p = true → isPrefix [53, 50] p = false ∧ isPrefix [49, 55, 54] p = false) ∧
    (isPrefix [53, 50] p = true → isPrefix [49, 55, 54] p = false) := by
  rcases p with _ | ⟨c0, _ | ⟨c1, _ | ⟨c2, rest⟩⟩⟩ <;> simp [isPrefix] <;> omega

theorem splitOn_ne (sep : Nat) (s : List Nat) : ∃ hd tl, splitOn sep s = hd :: tl := by
  induction s with
  | nil => exact ⟨[], [], rfl⟩
  | cons a t ih =>
    obtain ⟨hd, tl, h⟩ := ih
    simp only [splitOn, h]
    split <;> simp

macro "ib_eval2" : tactic => `(tactic| simp [Goal, runHs, hs, hs_s1_a0, hs_s1_a1, hs_s1_a2, hs_s1_a3, hs_s1_a4, hs_s1_a5, hs_s1_a6, hs_s1_a7,
  hs_s1_a4_s0_a0, hs_s1_a4_s0_a1, hs_s1_a4_s0_a2, hs_s1_a4_s0_a3, hs_s1_a4_s0_a4, hs_s1_a4_s0_a5, hs_s1_a4_s0_a6, hs_s1_a4_s0_a7,
  hs_s1_a4_s0_a8, hs_s1_a4_s0_a9, hs_s1_a4_s0_a10, hs_s1_a5_s0_a0, hs_s1_a5_s0_a1, ctxHs, runRz, rz,
  ib, handle, handleCSI, handleDCS, handleOSC, isPrivate, ch, kinds_now, ofModel, keyArm, post, kindOf, idx2, idx, bind,
  Except.bind, pure, Except.pure,
  VaxisModel.Lemmas.InputBodyArms.str_smulx, VaxisModel.Lemmas.InputBodyArms.str_rgb, VaxisModel.Lemmas.InputBodyArms.str_vte,
  VaxisModel.Lemmas.InputBodyArms.str_q, VaxisModel.Lemmas.InputBodyArms.str_G, VaxisModel.Lemmas.InputBodyArms.str_4,
  VaxisModel.Lemmas.InputBodyArms.str_10, VaxisModel.Lemmas.InputBodyArms.str_11, VaxisModel.Lemmas.InputBodyArms.str_52,
  VaxisModel.Lemmas.InputBodyArms.str_176, VaxisModel.Lemmas.InputBodyArms.strLen_cons, VaxisModel.Lemmas.InputBodyArms.strLen_nil, *])

section
variable (b64 : List Nat → Option (List Nat)) (vs : VState)

set_option maxHeartbeats 400000 in
theorem csi_t (i : List Nat) (p : List (List Int)) : Goal b64 vs (.csi i p 116) := by
  rcases vs with ⟨pp, rcp, rf, caps, ns, ucs⟩
  rcases p with _ | ⟨a, _ | ⟨b, _ | ⟨c, p⟩⟩⟩
  · ib_eval2
  · ib_eval2
  · ib_eval2
  · rcases a with _ | ⟨x, a⟩
    · ib_eval2
    · rcases b with _ | ⟨y, b⟩
      · ib_eval2
      · rcases c with _ | ⟨z, c⟩
        · ib_eval2
        · by_cases h4 : x = 4
          · subst h4; cases hr : caps.reportSizePixels <;> ib_eval2
          · by_cases h8 : x = 8
            · subst h8; cases hr : caps.reportSizeChars <;> ib_eval2
            · by_cases h48 : x = 48
              · subst h48
                rcases p with _ | ⟨d, _ | ⟨e, _ | ⟨g, p⟩⟩⟩
                · ib_eval2
                · ib_eval2
                · rcases d with _ | ⟨u, d⟩
                  · ib_eval2
                  · rcases e with _ | ⟨v, e⟩
                    · ib_eval2
                    · cases hr : caps.inBandResize <;> ib_eval2
                · ib_eval2
              · ib_eval2

set_option maxHeartbeats 400000 in
theorem apc_all (d : List Nat) : Goal b64 vs (.apc d) := by
  rcases vs with ⟨pp, rcp, rf, caps, ns, ucs⟩
  rcases d with _ | ⟨d0, dt⟩
  · ib_eval2
  · cases h : isPrefix [71] (d0 :: dt) <;> ib_eval2

set_option maxHeartbeats 400000 in
theorem dcs_pipe (i : List Nat) (p : List Int) (d : List Nat) : Goal b64 vs (.dcs 124 i p d) := by
  rcases vs with ⟨pp, rcp, rf, caps, ns, ucs⟩
  rcases i with _ | ⟨i0, it⟩
  · ib_eval2
  · by_cases h33 : i0 = 33
    · subst h33
      by_cases hd : d = hexEncode [126, 86, 84, 69] <;> ib_eval2
    · have h33' : ¬ ((i0 : Int) = 33) := by omega
      by_cases h62 : i0 = 62
      · subst h62; ib_eval2
      · have h62' : ¬ ((i0 : Int) = 62) := by omega
        ib_eval2

set_option maxHeartbeats 400000 in
theorem dcs_other (f : Nat) (i : List Nat) (p : List Int) (d : List Nat) (h1 : f ≠ 114) (h2 : f ≠ 124) :
    Goal b64 vs (.dcs f i p d) := by
  rcases vs with ⟨pp, rcp, rf, caps, ns, ucs⟩
  have h1' : ¬ ((f : Int) = 114) := by omega
  have h2' : ¬ ((f : Int) = 124) := by omega
  ib_eval2
theorem wrap64_small (n : Nat) (h : n < 100000) (k : Int) (hk : 0 ≤ k ∧ k < 100000) : wrap64 ((n : Int) - k) = (n : Int) - k := by
  unfold wrap64; omega

set_option maxHeartbeats 400000 in
theorem dcs_r (i : List Nat) (p : List Int) (d : List Nat) : Goal b64 vs (.dcs 114 i p d) := by
  rcases vs with ⟨pp, rcp, rf, caps, ns, ucs⟩
  rcases i with _ | ⟨i0, it⟩
  · ib_eval2
  · by_cases h43 : i0 = 43
    · subst h43
      rcases p with _ | ⟨p0, p⟩
      · ib_eval2
      · by_cases hp0 : p0 = 0
        · subst hp0; ib_eval2
        · obtain ⟨hd, tl, hs⟩ := splitOn_ne 61 d
          by_cases hS : hd = hexEncode [83, 109, 117, 108, 120]
          · subst hS; ib_eval2
          · by_cases hR : hd = hexEncode [82, 71, 66]
            · subst hR; ib_eval2
            · ib_eval2
    · have h43' : ¬ ((i0 : Int) = 43) := by omega
      by_cases h36 : i0 = 36
      · subst h36
        cases hq : isSuffix [32, 113] d
        · ib_eval2
        · rcases d with _ | ⟨d0, dt⟩
          · simp [isSuffix, isPrefix] at hq
          · by_cases hlo : d0 < 48
            · have hlo' : ((d0 : Int) < 48) := by omega
              ib_eval2
            · have hlo' : ¬ ((d0 : Int) < 48) := by omega
              by_cases hhi : d0 > 54
              · have hhi' : ((d0 : Int) > 54) := by omega
                have hhi'' : (54 < (d0 : Int)) := by omega
                ib_eval2
              · have hhi' : ¬ (54 < (d0 : Int)) := by omega
                have hw : wrap64 ((d0 : Int) - 48) = (d0 : Int) - 48 := wrap64_small d0 (by omega) 48 (by omega)
                ib_eval2
      · have h36' : ¬ ((i0 : Int) = 36) := by omega
        ib_eval2

end
end VaxisModel.Lemmas.InputBodyArms
