/-
`handleSequence` arm by arm, third part: `CSI ? … c` (the loop over the parameters), the CSI finals
without an arm, OSC.
-/
import VaxisModel.Lemmas.InputBodyArms2

namespace VaxisModel.Lemmas.InputBodyArms
open VaxisModel.Model.GoBody VaxisModel.Model.Input VaxisModel.Model.InputBody VaxisModel.Model.InputLoop
open VaxisModel.Gen.InputBody VaxisModel.Lemmas.InputBody

def daLoopBody : Ss :=
  Ss.ofList [.switchS .nil (.idx (.var "ps") (.int 0)) (Cs.ofList [((Es.ofList [(.int 4)]), (Ss.ofList [
    (.expr (.call "vx.PostEventBlocking" (Es.ofList [(.lit "capabilitySixel" .nil)])))]))])]

def envAfter : List (List Int) → Env → Env
  | [], e => e
  | ps :: rest, e => envAfter rest (("ps", .ints ps) :: e)

def sixes (firsts : List Int) : List KEff :=
  (firsts.filter (· == 4)).map fun _ => (Effect.postB (.internal .capabilitySixel), SendKind.blocking)

theorem step_c (c : Ctx) (st : St) (ps : List Int) :
    loopBody c "ps" daLoopBody st (.ints ps) =
      match ps with
      | [] => .fail .panic
      | x :: _ => .norm { env := ("ps", .ints ps) :: st.env, vs := st.vs,
                          effs := st.effs ++ (if x = 4 then [(Effect.postB (.internal .capabilitySixel), SendKind.blocking)] else []) } := by
  rcases ps with _ | ⟨x, ps⟩
  · simp [loopBody, daLoopBody, ib]
  · by_cases h4 : x = 4
    · subst h4; simp [loopBody, daLoopBody, ib]
    · simp [loopBody, daLoopBody, ib, h4]

theorem mapM_cons' (ps : List Int) (rest : List (List Int)) :
    (ps :: rest).mapM (fun ps => idx ps 0) =
      match idx ps 0 with
      | .ok x => (match rest.mapM (fun ps => idx ps 0) with | .ok l => .ok (x :: l) | .error e => .error e)
      | .error e => .error e := by
  simp only [List.mapM_cons, bind, Except.bind, pure, Except.pure]
  cases idx ps 0 <;> simp
  cases List.mapM (fun ps => idx ps 0) rest <;> simp

theorem loop_c (c : Ctx) : ∀ (l : List (List Int)) (st : St),
    loop (loopBody c "ps" daLoopBody) (l.map V.ints) st =
      match l.mapM (fun ps => idx ps 0) with
      | .ok firsts => .norm { env := envAfter l st.env, vs := st.vs, effs := st.effs ++ sixes firsts }
      | .error _ => .fail .panic
  | [], st => by simp [loop, envAfter, sixes, pure, Except.pure]
  | ps :: rest, st => by
    have ih := loop_c c rest
    rw [mapM_cons']
    simp only [List.map_cons, loop, step_c]
    rcases ps with _ | ⟨x, ps⟩
    · simp [idx]
    · simp only [ih]
      cases hm : rest.mapM (fun ps => idx ps 0) with
      | error e => simp [idx]
      | ok l =>
        by_cases h4 : x = 4
        · subst h4; simp [idx, envAfter, sixes]
        · simp [idx, envAfter, sixes, h4]

section
variable (b64 : List Nat → Option (List Nat)) (vs : VState)

set_option maxHeartbeats 400000 in
theorem csi_c (i : List Nat) (p : List (List Int)) : Goal b64 vs (.csi i p 99) := by
  rcases vs with ⟨pp, rcp, rf, caps, ns, ucs⟩
  rcases i with _ | ⟨i0, _ | ⟨i1, it⟩⟩
  · cases pp <;> ib_eval2
  · by_cases h63 : i0 = 63
    · subst h63
      have hl := loop_c (ctxHs b64) p
      simp only [daLoopBody, Ss.ofList, Es.ofList, Cs.ofList, ctxHs] at hl
      ib_eval2
      cases hm : p.mapM (fun ps => idx ps 0) with
      | error e => simp [idx] at hm; simp [hm, ib]
      | ok l => simp [idx] at hm; simp [hm, ib, sixes]
    · have h63' : ¬ ((i0 : Int) = 63) := by omega
      cases pp <;> ib_eval2
  · cases pp <;> ib_eval2

set_option maxHeartbeats 400000 in
theorem csi_other (i : List Nat) (p : List (List Int)) (f : Nat)
    (h : f ≠ 99 ∧ f ≠ 73 ∧ f ≠ 79 ∧ f ≠ 82 ∧ f ≠ 83 ∧ f ≠ 110 ∧ f ≠ 121 ∧ f ≠ 117 ∧ f ≠ 126 ∧ f ≠ 77 ∧ f ≠ 109 ∧ f ≠ 116) :
    Goal b64 vs (.csi i p f) := by
  rcases vs with ⟨pp, rcp, rf, caps, ns, ucs⟩
  obtain ⟨h1, h2, h3, h4, h5, h6, h7, h8, h9, h10, h11, h12⟩ := h
  have g1 : ¬ ((f : Int) = 99) := by omega
  have g2 : ¬ ((f : Int) = 73) := by omega
  have g3 : ¬ ((f : Int) = 79) := by omega
  have g4 : ¬ ((f : Int) = 82) := by omega
  have g5 : ¬ ((f : Int) = 83) := by omega
  have g6 : ¬ ((f : Int) = 110) := by omega
  have g7 : ¬ ((f : Int) = 121) := by omega
  have g8 : ¬ ((f : Int) = 117) := by omega
  have g9 : ¬ ((f : Int) = 126) := by omega
  have g12 : ¬ ((f : Int) = 116) := by omega
  cases pp <;> ib_eval2

set_option maxHeartbeats 400000 in
theorem osc_all (pl : List Nat) : Goal b64 vs (.osc pl) := by
  rcases vs with ⟨pp, rcp, rf, caps, ns, ucs⟩
  have ex := prefix_excl pl
  obtain ⟨vals, hv⟩ : ∃ vals, splitOn 59 pl = vals := ⟨_, rfl⟩
  cases h4 : isPrefix [52] pl <;> cases h10 : isPrefix [49, 48] pl <;> cases h11 : isPrefix [49, 49] pl <;>
    cases h52 : isPrefix [53, 50] pl <;> cases h176 : isPrefix [49, 55, 54] pl <;> simp [h4, h10, h11, h52, h176] at ex
  · ib_eval2
  · rcases vals with _ | ⟨a, _ | ⟨b, _ | ⟨c, vals⟩⟩⟩ <;> ib_eval2
  · rcases vals with _ | ⟨a, _ | ⟨b, _ | ⟨c, _ | ⟨d, vals⟩⟩⟩⟩ <;> try ib_eval2
    cases hb : b64 c <;> ib_eval2
  · cases c11 : caps.osc11 <;> ib_eval2
  · cases c10 : caps.osc10 <;> ib_eval2
  · cases c4 : caps.osc4 <;> ib_eval2
end
end VaxisModel.Lemmas.InputBodyArms
