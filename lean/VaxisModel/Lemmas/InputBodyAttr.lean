import Lean.Meta.Tactic.Simp.RegisterCommand
/- The simp set `ib`: evaluation lemmas of the interpreter of the regenerated input bodies. -/
register_simp_attr ib
