import VaxisModel.Lemmas.Input
import VaxisModel.Spec.InputEvents

/-! Sequence-level reports, the sequential pipeline, and the lemmas behind
`Props.C03.events_exact` / `replies_internal`. -/
namespace VaxisModel.Lemmas.InputEvents
open VaxisModel.Model.Input VaxisModel.Lemmas.Input
open VaxisModel.Spec.InputEvents

def posted : List Effect → List Event
  | [] => []
  | .postB e :: r => e :: posted r
  | .postNB e :: r => e :: posted r
  | _ :: r => posted r

/-- The sequential pipeline: each sequence is handled in turn, every effect completes and no
non-blocking post is dropped (queue never full). Result: final state and all posted events. -/
def pipeline (b64 : List Nat → Option (List Nat)) : VState → List Seq → Except Panic (VState × List Event)
  | st, [] => .ok (st, [])
  | st, s :: ss =>
    match handle b64 st s with
    | .error e => .error e
    | .ok (st1, effs) =>
      match pipeline b64 st1 ss with
      | .error e => .error e
      | .ok (st2, evs) => .ok (st2, posted effs ++ evs)

/-- Which CSI sequences are consumed as replies (never reach the key decoder). -/
def isQueryReply : Seq → Bool
  | .dcs .. | .apc .. | .osc .. => true
  | .csi interm params final => isQueryReplyCSI interm params final
  | _ => false

/-- Sequences that encode a key press: text, C0 controls, ESC-prefixed, SS3, and CSI without
private marker whose final byte is not one of the report finals (`CSI 200~`/`201~` are the paste
brackets). -/
def LegitKey : Seq → Prop
  | .print .. | .c0 .. | .esc .. | .ss3 .. => True
  | .csi interm params final =>
      interm = [] ∧ final ≠ ch 'I' ∧ final ≠ ch 'O' ∧ final ≠ ch 'y' ∧ final ≠ ch 'M' ∧ final ≠ ch 'm' ∧ final ≠ ch 't' ∧
      (final = ch '~' → ∃ k r m, params = (k :: r) :: m ∧ k ≠ 200 ∧ k ≠ 201)
  | _ => False

theorem key_csi (st : VState) (params : List (List Int)) (final : Nat) (hreq : st.reqCursorPos = false)
    (h : LegitKey (.csi [] params final)) :
    handleCSI st [] params final = .ok (st, [.postB (.key (.csi [] params final) st.pastePending)]) := by
  obtain ⟨-, hI, hO, hy, hM, hm, ht, htilde⟩ := h
  by_cases hT : final = ch '~'
  · obtain ⟨k, r, m, hp, h200, h201⟩ := htilde hT
    subst hT hp
    simp [handleCSI, ch, idx2, idx, keyArm, bind, Except.bind, pure, Except.pure, h200, h201]
  · simp [handleCSI, isPrivate, hreq, hI, hO, hy, hM, hm, ht, hT, keyArm]

/-- A report at the level of parsed sequences. -/
inductive SReport
  | key (s : Seq)
  | mouse (b x y : Nat) (rel : Bool)
  | focus (gained : Bool)
  | pasteStart | pasteEnd
  | reply (s : Seq)
  | inband (h w yp xp : Int)
  | theme (m : Nat)

def SReport.Wf : SReport → Prop
  | .key s => LegitKey s
  | .mouse _ x y _ => x < 2 ^ 63 ∧ y < 2 ^ 63
  | .reply s => isQueryReply s = true ∧ WfSeq s
  | _ => True

/-- The sequence the parser delivers for the report (C02's round trip). -/
def SReport.seq : SReport → Seq
  | .key s => s
  | .mouse b x y rel => .csi [ch '<'] [[(b : Int)], [(x : Int)], [(y : Int)]] (if rel then ch 'm' else ch 'M')
  | .focus true => .csi [] [] (ch 'I')
  | .focus false => .csi [] [] (ch 'O')
  | .pasteStart => .csi [] [[200]] (ch '~')
  | .pasteEnd => .csi [] [[201]] (ch '~')
  | .reply s => s
  | .inband h w yp xp => .csi [] [[48], [h], [w], [yp], [xp]] (ch 't')
  | .theme m => .csi [ch '?'] [[997], [(m : Int)]] (ch 'n')

/-- The grammar-level report (key token = the sequence itself; event type 0 stands for "whatever
the key encoding says"). -/
def SReport.spec : SReport → Report Seq
  | .key s => .key s 0
  | .mouse b x y rel => .mouseSGR b x y rel
  | .focus g => .focus g
  | .pasteStart => .pasteStart
  | .pasteEnd => .pasteEnd
  | .reply _ => .reply "reply" none
  | .inband .. => .replyInband none
  | .theme m => .replyTheme m

/-- Application-visible image of a model event. -/
def toU : Event → Option (UEvent Seq)
  | .key s paste => some (.key s (if paste then (etPaste : Int) else 0))
  | .mouse m => some (.mouse m.button.toNat m.col m.row m.eventType m.mods)
  | .focusIn => some .focusIn | .focusOut => some .focusOut
  | .pasteStart => some .pasteStart | .pasteEnd => some .pasteEnd
  | .colorTheme m => some (.colorTheme m.toNat)
  | .redraw => some .redraw
  | _ => none

def visible (evs : List Event) : List (UEvent Seq) := evs.filterMap toU

def pasteAfter (p : Bool) : SReport → Bool
  | .pasteStart => true
  | .pasteEnd => false
  | _ => p

theorem spec_cons (p : Bool) (r : SReport) (rs : List SReport) :
    specEvents p ((r :: rs).map SReport.spec) = specEvents p [r.spec] ++ specEvents (pasteAfter p r) (rs.map SReport.spec) := by
  cases r <;> simp [specEvents, SReport.spec, pasteAfter]
  case focus g => cases g <;> simp [specEvents]

theorem toU_internal (e : Event) (h : e.userVisible = false) : toU e = none := by
  cases e <;> simp [Event.userVisible] at h <;> rfl

theorem visible_internal (effs : List Effect) (h : effs.all effInternal = true) : visible (posted effs) = [] := by
  induction effs with
  | nil => rfl
  | cons e t ih =>
    simp only [List.all_cons, Bool.and_eq_true] at h
    have iht := ih h.2
    cases e with
    | postB ev =>
      have : toU ev = none := toU_internal ev (by simpa [effInternal] using h.1)
      simp only [posted, visible, List.filterMap_cons, this]; exact iht
    | postNB ev =>
      have : toU ev = none := toU_internal ev (by simpa [effInternal] using h.1)
      simp only [posted, visible, List.filterMap_cons, this]; exact iht
    | _ => simpa [posted] using iht

theorem posted_internal (effs : List Effect) (ha : effs.all effInternal = true) :
    ∀ e ∈ posted effs, e.userVisible = false := by
  induction effs with
  | nil => intro e he; simp [posted] at he
  | cons x t ih =>
    simp only [List.all_cons, Bool.and_eq_true] at ha
    intro e he
    cases x with
    | postB ev =>
      simp only [posted, List.mem_cons] at he
      rcases he with rfl | he
      · simpa [effInternal] using ha.1
      · exact ih ha.2 e he
    | postNB ev =>
      simp only [posted, List.mem_cons] at he
      rcases he with rfl | he
      · simpa [effInternal] using ha.1
      · exact ih ha.2 e he
    | _ => exact ih ha.2 e (by simpa [posted] using he)

theorem isQueryReply_ok (b64 : List Nat → Option (List Nat)) (st : VState) (s : Seq) (h : isQueryReply s = true) :
    replyOK st (handle b64 st s) = true := by
  cases s with
  | dcs f i p d => exact reply_dcs st f i p d
  | osc p => exact reply_osc b64 st p
  | apc d => simp [handle, post, replyOK_ite]; simp [replyOK, effInternal, Event.userVisible]
  | csi interm params final =>
    simp only [isQueryReply, isQueryReplyCSI, Bool.or_eq_true, Bool.and_eq_true, beq_iff_eq, decide_eq_true_eq] at h
    simp only [handle]
    rcases h with ((((h | h) | h) | h) | h) | h
    · obtain ⟨hf, hp⟩ := h; subst hf; exact reply_c st interm params hp
    · obtain ⟨⟨hf, hp⟩, hl⟩ := h; subst hf; exact reply_S st interm params hp hl
    · subst h; exact reply_y st interm params
    · obtain ⟨hf, hp⟩ := h; subst hf; exact reply_u st interm params hp
    · obtain ⟨hf, h48⟩ := h; subst hf; exact reply_t st interm params (by simpa using h48)
    · obtain ⟨⟨⟨hf, hp⟩, hl⟩, h997⟩ := h
      subst hf
      rcases params with _ | ⟨a, _ | ⟨b, _ | ⟨c, rest⟩⟩⟩ <;> simp at hl
      exact reply_n st interm a b hp (by simpa using h997)
  | _ => simp [isQueryReply] at h

/-- The SGR decoding written arithmetically, as a model `Mouse`. -/
def sgrMouse (b x y : Nat) (rel : Bool) : Mouse :=
  { button := ((b % 4 + (b / 64 % 4) * 64 : Nat) : Int), row := (y : Int) - 1, col := (x : Int) - 1,
    eventType := if b / 32 % 2 == 1 then evMotion else if rel then evRelease else evPress,
    mods := b / 4 % 2 * 1 + b / 8 % 2 * 2 + b / 16 % 2 * 4 }

theorem mouse_exact' (b x y : Nat) (rel : Bool) (hx : x < 2 ^ 63) (hy : y < 2 ^ 63) :
    parseMouse [60] [[(b : Int)], [(x : Int)], [(y : Int)]] (if rel then 109 else 77)
      = .ok (some (sgrMouse b x y rel)) := by
  unfold sgrMouse
  have hg : mouseGuard [60] = .ok false := mouseGuard_sgr
  cases rel <;>
  simp [parseMouse, hg, idx2, idx, bind, Except.bind, pure, Except.pure, VaxisModel.Gen.Caps.buttonBits,
    VaxisModel.Gen.Caps.motion, VaxisModel.Gen.Caps.mouseModShift, VaxisModel.Gen.Caps.mouseModAlt,
    VaxisModel.Gen.Caps.mouseModCtrl, andMask_buttons, wrap64_pred, hx, hy, mods_sum, andMask_motion, ch,
    evPress, evMotion, evRelease] <;>
  (rcases Nat.mod_two_eq_zero_or_one (b / 32) with h | h <;> simp [h])

/-- One report: the handler succeeds, keeps the cursor-request flag clear, moves the paste flag as
the brackets say, and posts exactly the events the spec requires for that report. -/
theorem one_report (b64 : List Nat → Option (List Nat)) (r : SReport) (st : VState) (hw : r.Wf)
    (hreq : st.reqCursorPos = false) :
    ∃ st' effs, handle b64 st r.seq = .ok (st', effs) ∧ st'.reqCursorPos = false ∧
      st'.pastePending = pasteAfter st.pastePending r ∧
      visible (posted effs) = specEvents st.pastePending [r.spec] := by
  cases r with
  | key s =>
    cases s with
    | csi interm params final =>
      have hi : interm = [] := hw.1
      subst hi
      refine ⟨st, _, key_csi st params final hreq hw, hreq, rfl, ?_⟩
      cases hp : st.pastePending <;> simp [visible, posted, toU, specEvents, SReport.spec, hp]
    | print g w => exact ⟨st, _, rfl, hreq, rfl, by cases hp : st.pastePending <;> simp [visible, posted, toU, specEvents, SReport.spec, SReport.seq, hp]⟩
    | c0 c => exact ⟨st, _, rfl, hreq, rfl, by cases hp : st.pastePending <;> simp [visible, posted, toU, specEvents, SReport.spec, SReport.seq, hp]⟩
    | esc i f => exact ⟨st, _, rfl, hreq, rfl, by cases hp : st.pastePending <;> simp [visible, posted, toU, specEvents, SReport.spec, SReport.seq, hp]⟩
    | ss3 c => exact ⟨st, _, rfl, hreq, rfl, by cases hp : st.pastePending <;> simp [visible, posted, toU, specEvents, SReport.spec, SReport.seq, hp]⟩
    | _ => exact absurd hw (by simp [SReport.Wf, LegitKey])
  | mouse b x y rel =>
    obtain ⟨hx, hy⟩ := hw
    have hm := mouse_exact' b x y rel hx hy
    refine ⟨st, [.postB (.mouse (sgrMouse b x y rel))], ?_, hreq, rfl, ?_⟩
    · cases rel <;> simp [SReport.seq, handle, handleCSI, ch] at hm ⊢ <;> simp [hm, bind, Except.bind, pure, Except.pure]
    · simp [visible, posted, toU, specEvents, SReport.spec, mouseEvent, sgrMouse, evMotion, evRelease, evPress,
        etMotion, etRelease, etPress]
      omega
  | focus g => cases g <;> exact ⟨st, _, rfl, hreq, rfl, rfl⟩
  | pasteStart => exact ⟨{ st with pastePending := true }, _, rfl, hreq, rfl, rfl⟩
  | pasteEnd => exact ⟨{ st with pastePending := false }, _, rfl, hreq, rfl, rfl⟩
  | reply s =>
    obtain ⟨hq, hwf⟩ := hw
    have hok := handle_ok b64 st s hwf
    have hr := isQueryReply_ok b64 st s hq
    simp only [SReport.seq]
    cases hh : handle b64 st s with
    | error e => simp [hh, ok?] at hok
    | ok res =>
      obtain ⟨st', effs⟩ := res
      simp only [hh, replyOK, Bool.and_eq_true, beq_iff_eq] at hr
      obtain ⟨⟨ha, hp⟩, hrq⟩ := hr
      exact ⟨st', effs, rfl, by rw [hrq]; exact hreq, by simpa [pasteAfter] using hp,
        by simpa [specEvents, SReport.spec] using visible_internal effs ha⟩
  | inband h w yp xp =>
    refine ⟨{ st with resizeFlag := true, nextSize := { cols := w, rows := h, ypix := yp, xpix := xp } }, _, rfl, hreq, rfl, ?_⟩
    cases hc : st.caps.inBandResize <;> simp [visible, posted, toU, specEvents, SReport.spec, hc, List.filterMap_cons]
  | theme m =>
    exact ⟨st, [.postB (.colorTheme m)], rfl, hreq, rfl, by simp [visible, posted, toU, specEvents, SReport.spec]⟩

theorem pipeline_events (b64 : List Nat → Option (List Nat)) :
    ∀ (rs : List SReport) (st : VState), (∀ r ∈ rs, r.Wf) → st.reqCursorPos = false →
      ∃ st' evs, pipeline b64 st (rs.map SReport.seq) = .ok (st', evs) ∧
        visible evs = specEvents st.pastePending (rs.map SReport.spec) := by
  intro rs
  induction rs with
  | nil => intro st _ _; exact ⟨st, [], rfl, rfl⟩
  | cons r rs ih =>
    intro st hw hreq
    obtain ⟨st1, effs, hh, hreq1, hp1, hv1⟩ := one_report b64 r st (hw r (by simp)) hreq
    obtain ⟨st2, evs, hpipe, hv2⟩ := ih st1 (fun r' hr' => hw r' (by simp [hr'])) hreq1
    refine ⟨st2, posted effs ++ evs, ?_, ?_⟩
    · simp [pipeline, hh, hpipe]
    · rw [spec_cons, ← hv1, ← hp1, ← hv2]
      simp [visible]

end VaxisModel.Lemmas.InputEvents
