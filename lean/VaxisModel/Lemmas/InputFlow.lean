import VaxisModel.Lemmas.InputEvents
import VaxisModel.Lemmas.InputLoop
import VaxisModel.Lemmas.StartupSeq

/-! User input is never lost, duplicated or reordered on its way through the input LTS
(`handleSequence` → pending posts → event queue → application), for every interleaving. -/
namespace VaxisModel.Lemmas.InputFlow
open VaxisModel.Model.Input VaxisModel.Model.InputLoop
open VaxisModel.Lemmas.Input VaxisModel.Lemmas.InputEvents
open VaxisModel.Spec.InputEvents

/-- Events that are user input: key presses, mouse reports, focus changes, paste brackets. -/
def isUserInput : Event → Bool
  | .key .. | .mouse .. | .focusIn | .focusOut | .pasteStart | .pasteEnd => true
  | _ => false

/-- Everything posted and not yet lost: delivered to the application, queued, or still to be
posted by the sequence being handled — in this order. -/
def flow (s : Sys) : List Event := s.delivered ++ s.queue ++ posted s.pend

def ui (l : List Event) : List Event := l.filter isUserInput

/-- What handling the label's sequence posts (nothing for labels other than `input`). -/
def emittedBy (p : Params) (s : Sys) : Label → List Event
  | .input q =>
    match s.pend, handle p.b64 s.vs q with
    | [], .ok (_, effs) => posted effs
    | _, _ => []
  | _ => []

/-- Non-blocking posts are never user input (only `Redraw` and the app id). -/
def nbOK : List Effect → Prop
  | [] => True
  | .postNB ev :: r => isUserInput ev = false ∧ nbOK r
  | _ :: r => nbOK r

theorem nbOK_append (a b : List Effect) (ha : nbOK a) (hb : nbOK b) : nbOK (a ++ b) := by
  induction a with
  | nil => exact hb
  | cons x t ih => cases x <;> simp_all [nbOK]

theorem nbOK_of_no_nb (l : List Effect) (h : ∀ e ∈ l, ∀ ev, e ≠ .postNB ev) : nbOK l := by
  induction l with
  | nil => trivial
  | cons x t ih =>
    have := ih (fun e he => h e (List.mem_cons_of_mem _ he))
    cases x <;> simp_all [nbOK]

theorem nbOK_map_postB {α} (l : List α) (f : α → Event) : nbOK (l.map fun x => Effect.postB (f x)) := by
  induction l with
  | nil => trivial
  | cons a t ih => simpa [nbOK] using ih

def NB (r : Res) : Prop := ∀ st' effs, r = .ok (st', effs) → nbOK effs

set_option hygiene false in
macro "nb_arm" : tactic => `(tactic| (
  simp [handleCSI, ch, bind, Except.bind, pure, Except.pure, keyArm, post, decrpmArm] at h
  repeat' split at h
  all_goals (try (simp at h))
  all_goals (try (obtain ⟨rfl, rfl⟩ := h))
  all_goals (try (simp [nbOK, isUserInput, nbOK_append]; done))))

theorem csi_nb (st : VState) (interm : List Nat) (params : List (List Int)) (final : Nat) :
    NB (handleCSI st interm params final) := by
  intro st' effs h
  by_cases h99 : final = 99
  · subst h99
    cases hm : params.mapM (fun ps => idx ps 0) with
    | error e => simp [handleCSI, ch, hm, bind, Except.bind, keyArm] at h; split at h <;> simp at h; obtain ⟨rfl, rfl⟩ := h; simp [nbOK]
    | ok fs =>
      simp [handleCSI, ch, hm, bind, Except.bind, pure, Except.pure, keyArm] at h
      split at h <;> simp at h <;> obtain ⟨rfl, rfl⟩ := h
      · exact nbOK_append _ _ (nbOK_map_postB _ _) (by simp [nbOK])
      · simp [nbOK]
  by_cases h73 : final = 73
  · subst h73; nb_arm
  by_cases h79 : final = 79
  · subst h79; nb_arm
  by_cases h82 : final = 82
  · subst h82; nb_arm
  by_cases h83 : final = 83
  · subst h83; nb_arm
  by_cases h110 : final = 110
  · subst h110; nb_arm
  by_cases h121 : final = 121
  · subst h121; nb_arm
  by_cases h117 : final = 117
  · subst h117; nb_arm
  by_cases h126 : final = 126
  · subst h126; nb_arm
  by_cases h77 : final = 77
  · subst h77; nb_arm
  by_cases h109 : final = 109
  · subst h109; nb_arm
  by_cases h116 : final = 116
  · subst h116; nb_arm
  · simp [handleCSI, ch, h99, h73, h79, h82, h83, h110, h121, h117, h126, h77, h109, h116, keyArm] at h
    obtain ⟨rfl, rfl⟩ := h; simp [nbOK]

theorem dcs_nb (st : VState) (fin : Nat) (interm : List Nat) (ps : List Int) (data : List Nat) :
    NB (handleDCS st fin interm ps data) := by
  intro st' effs h
  unfold handleDCS at h
  simp only [bind, Except.bind, pure, Except.pure, post] at h
  repeat' split at h
  all_goals (try (simp at h))
  all_goals (try (obtain ⟨rfl, rfl⟩ := h))
  all_goals (try (simp [nbOK, isUserInput]; done))

theorem osc_nb (b64 : List Nat → Option (List Nat)) (st : VState) (pl : List Nat) : NB (handleOSC b64 st pl) := by
  intro st' effs h
  unfold handleOSC at h
  have hacc : ∀ (p4 p10 p11 c4 c10 c11 : Bool),
      nbOK ((if p4 then (if c4 then [Effect.sendColor pl] else []) ++ [.postB (.internal .capabilityOsc4)] else []) ++
            (if p10 then (if c10 then [Effect.sendFg pl] else []) ++ [.postB (.internal .capabilityOsc10)] else []) ++
            (if p11 then (if c11 then [Effect.sendBg pl] else []) ++ [.postB (.internal .capabilityOsc11)] else [])) := by
    intro p4 p10 p11 c4 c10 c11
    cases p4 <;> cases p10 <;> cases p11 <;> cases c4 <;> cases c10 <;> cases c11 <;> simp [nbOK]
  simp only [VaxisModel.Lemmas.StartupSeq.isPrefix_eq, VaxisModel.Lemmas.StartupSeq.str_eq_ascii] at h
  have hacc' := hacc (VaxisModel.Spec.Startup.startsWith (VaxisModel.Spec.Startup.ascii "4") pl)
    (VaxisModel.Spec.Startup.startsWith (VaxisModel.Spec.Startup.ascii "10") pl)
    (VaxisModel.Spec.Startup.startsWith (VaxisModel.Spec.Startup.ascii "11") pl) st.caps.osc4 st.caps.osc10 st.caps.osc11
  generalize ((if VaxisModel.Spec.Startup.startsWith (VaxisModel.Spec.Startup.ascii "4") pl = true then (if st.caps.osc4 = true then [Effect.sendColor pl] else []) ++ [Effect.postB (Event.internal Internal.capabilityOsc4)] else []) ++
             (if VaxisModel.Spec.Startup.startsWith (VaxisModel.Spec.Startup.ascii "10") pl = true then (if st.caps.osc10 = true then [Effect.sendFg pl] else []) ++ [Effect.postB (Event.internal Internal.capabilityOsc10)] else []) ++
             (if VaxisModel.Spec.Startup.startsWith (VaxisModel.Spec.Startup.ascii "11") pl = true then (if st.caps.osc11 = true then [Effect.sendBg pl] else []) ++ [Effect.postB (Event.internal Internal.capabilityOsc11)] else [])) = acc at h hacc'
  simp only [bind, Except.bind, pure, Except.pure] at h
  repeat' split at h
  all_goals (try (simp at h))
  all_goals (try (obtain ⟨rfl, rfl⟩ := h))
  all_goals (try (first | exact hacc' | (apply nbOK_append _ _ hacc'; simp [nbOK, isUserInput])))

theorem handle_nb (b64 : List Nat → Option (List Nat)) (st : VState) (s : Seq) : NB (handle b64 st s) := by
  cases s with
  | csi i p f => exact csi_nb st i p f
  | dcs f i p d => exact dcs_nb st f i p d
  | osc pl => exact osc_nb b64 st pl
  | apc d =>
    intro st' effs h
    simp only [handle, post] at h
    repeat' split at h
    all_goals (simp at h; obtain ⟨rfl, rfl⟩ := h; simp [nbOK])
  | other => intro st' effs h; simp [handle] at h; obtain ⟨rfl, rfl⟩ := h; simp [nbOK]
  | _ => intro st' effs h; simp [handle, keyArm] at h; obtain ⟨rfl, rfl⟩ := h; simp [nbOK]

/-! ### the queue mechanics preserve user input -/

theorem stepEffect_flow (p : Params) (s s' : Sys) (e : Effect) (rest : List Effect)
    (h : stepEffect p s e rest = some s') :
    s'.delivered = s.delivered ∧ s'.pend = rest ∧ s'.vs = s.vs ∧
    ((s'.queue ++ posted rest = s.queue ++ posted (e :: rest)) ∨ (∃ ev, e = .postNB ev ∧ s'.queue = s.queue)) := by
  cases e <;> simp only [stepEffect] at h
  all_goals (repeat' split at h)
  all_goals (first | (simp at h; done) | (simp at h; subst h; simp [posted]))

theorem nbOK_tail (e : Effect) (rest : List Effect) (h : nbOK (e :: rest)) : nbOK rest := by
  cases e <;> simp_all [nbOK]

theorem ui_append (a b : List Event) : ui (a ++ b) = ui a ++ ui b := by simp [ui]

/-- One transition: the user-input events in flight grow exactly by what handling the label's
sequence posts, at the end; nothing is removed or reordered. -/
theorem flow_next (p : Params) (s s' : Sys) (l : Label) (hn : next p s l = some (.ok s')) (hnb : nbOK s.pend) :
    ui (flow s') = ui (flow s) ++ ui (emittedBy p s l) ∧ nbOK s'.pend := by
  cases l with
  | input q =>
    simp only [next] at hn
    split at hn
    · rename_i hpend
      split at hn
      · rename_i vs effs hh
        simp at hn; subst hn
        refine ⟨?_, handle_nb p.b64 s.vs q vs effs hh⟩
        simp [flow, emittedBy, hpend, hh, posted, ui_append]
      · simp at hn
    · simp at hn
  | step =>
    simp only [next] at hn
    split at hn
    · simp at hn
    · rename_i e rest hpend
      simp only [Option.map_eq_some_iff] at hn
      obtain ⟨a, ha, hb⟩ := hn
      cases hb
      obtain ⟨hd, hp', _, hq⟩ := stepEffect_flow p s s' e rest ha
      rw [hpend] at hnb
      refine ⟨?_, by rw [hp']; exact nbOK_tail e rest hnb⟩
      simp only [emittedBy, ui, List.filter_nil, List.append_nil]
      rcases hq with hq | ⟨ev, rfl, hq⟩
      · simp only [flow, hd, hp', hpend, List.append_assoc, hq]
      · have hev : isUserInput ev = false := hnb.1
        simp [flow, hd, hp', hpend, hq, posted, List.filter_append, List.filter_cons, hev]
  | consume =>
    simp only [next] at hn
    split at hn
    · simp at hn
    · rename_i ev q hq
      simp at hn; subst hn
      exact ⟨by simp [flow, hq, emittedBy, ui], hnb⟩
  | clipTimeout =>
    simp only [next] at hn
    split at hn
    · rename_i v rest hpend
      split at hn
      · simp at hn; subst hn
        rw [hpend] at hnb
        exact ⟨by simp [flow, hpend, posted, emittedBy, ui], nbOK_tail _ _ hnb⟩
      · simp at hn
    · simp at hn
  | _ =>
    simp only [next] at hn
    all_goals (repeat' split at hn)
    all_goals (first | (simp at hn; done) | (simp at hn; subst hn; exact ⟨by simp [flow, emittedBy, ui], hnb⟩))

/-- What the labels of a run post, in order. -/
def emitted (p : Params) : Sys → List Label → List Event
  | _, [] => []
  | s, l :: ls =>
    match next p s l with
    | some (.ok s') => emittedBy p s l ++ emitted p s' ls
    | _ => []

theorem flow_run (p : Params) : ∀ (ls : List Label) (s s' : Sys), run p s ls = some s' → nbOK s.pend →
    ui (flow s') = ui (flow s) ++ ui (emitted p s ls) ∧ nbOK s'.pend
  | [], s, s', hr, hnb => by simp [run] at hr; subst hr; simp [emitted, ui, hnb]
  | l :: ls, s, s', hr, hnb => by
      simp only [run] at hr
      split at hr
      · rename_i s1 hn
        obtain ⟨h1, hnb1⟩ := flow_next p s s1 l hn hnb
        obtain ⟨h2, hnb2⟩ := flow_run p ls s1 s' hr hnb1
        refine ⟨?_, hnb2⟩
        rw [h2, h1]
        simp [emitted, hn, ui_append]
      · simp at hr

/-! ### against the grammar-level spec -/

def inputSeqs : List Label → List Seq
  | [] => []
  | .input q :: r => q :: inputSeqs r
  | _ :: r => inputSeqs r

/-- Application-visible events that are user input. -/
def uiU : UEvent Seq → Bool
  | .key .. | .mouse .. | .focusIn | .focusOut | .pasteStart | .pasteEnd => true
  | _ => false

theorem visible_ui (l : List Event) : visible (ui l) = (visible l).filter uiU := by
  induction l with
  | nil => rfl
  | cons e t ih =>
    cases e <;> simp [ui, visible, List.filter_cons, List.filterMap_cons, isUserInput, toU, uiU] at ih ⊢ <;> simp [ih]

theorem next_vs_other (p : Params) (s s' : Sys) (l : Label) (hn : next p s l = some (.ok s'))
    (h1 : ∀ q, l ≠ .input q) (h2 : l ≠ .cursorCall) :
    s'.vs.pastePending = s.vs.pastePending ∧ (s.vs.reqCursorPos = false → s'.vs.reqCursorPos = false) ∧ emittedBy p s l = [] := by
  cases l with
  | input q => exact absurd rfl (h1 q)
  | cursorCall => exact absurd rfl h2
  | step =>
    simp only [next] at hn
    split at hn
    · simp at hn
    · rename_i e rest hpend
      simp only [Option.map_eq_some_iff] at hn
      obtain ⟨a, ha, hb⟩ := hn
      cases hb
      obtain ⟨_, _, hvs, _⟩ := stepEffect_flow p s s' e rest ha
      rw [hvs]; exact ⟨rfl, id, rfl⟩
  | _ =>
    simp only [next] at hn
    all_goals (repeat' split at hn)
    all_goals (first | (simp at hn; done) | (simp at hn; subst hn; simp [emittedBy]) | (simp at hn; subst hn; refine ⟨rfl, ?_, rfl⟩; intro h; simp [h]))

theorem emitted_spec (p : Params) : ∀ (ls : List Label) (rs : List SReport) (s s' : Sys),
    inputSeqs ls = rs.map SReport.seq → (∀ r ∈ rs, r.Wf) → s.vs.reqCursorPos = false → (∀ l ∈ ls, l ≠ .cursorCall) →
    run p s ls = some s' →
    visible (emitted p s ls) = specEvents s.vs.pastePending (rs.map SReport.spec)
  | [], rs, s, s', hin, _, _, _, _ => by
      cases rs with
      | nil => simp [emitted, visible, specEvents]
      | cons r t => simp [inputSeqs] at hin
  | l :: ls, rs, s, s', hin, hw, hreq, hnc, hr => by
      simp only [run] at hr
      split at hr
      · rename_i s1 hn
        by_cases hl : ∃ q, l = .input q
        · obtain ⟨q, rfl⟩ := hl
          cases rs with
          | nil => simp [inputSeqs] at hin
          | cons r rt =>
            simp only [inputSeqs, List.map_cons, List.cons.injEq] at hin
            obtain ⟨hq, hin'⟩ := hin
            subst hq
            obtain ⟨st1, effs, hh, hreq1, hp1, hv1⟩ := one_report p.b64 r s.vs (hw r (by simp)) hreq
            have hn' := hn
            simp only [next] at hn'
            split at hn'
            · rename_i hpend
              simp only [hh] at hn'
              simp at hn'; subst hn'
              have ih := emitted_spec p ls rt _ s' hin' (fun r' hr' => hw r' (by simp [hr'])) hreq1
                (fun l hl => hnc l (by simp [hl])) hr
              simp only [emitted, hn, emittedBy, hpend, hh]
              rw [show visible (posted effs ++ emitted p { s with vs := st1, pend := effs } ls)
                  = visible (posted effs) ++ visible (emitted p { s with vs := st1, pend := effs } ls) by simp [visible]]
              rw [ih, hv1]
              show _ = specEvents s.vs.pastePending ((r :: rt).map SReport.spec)
              rw [spec_cons, hp1]
            · simp at hn'
        · have h1 : ∀ q, l ≠ .input q := fun q hq => hl ⟨q, hq⟩
          have h2 : l ≠ .cursorCall := hnc l (by simp)
          obtain ⟨hp, hq, he⟩ := next_vs_other p s s1 l hn h1 h2
          have hin' : inputSeqs ls = rs.map SReport.seq := by
            cases l <;> simp_all [inputSeqs]
          have ih := emitted_spec p ls rs s1 s' hin' hw (hq hreq) (fun l hl => hnc l (by simp [hl])) hr
          simp only [emitted, hn, he, List.nil_append]
          rw [ih, hp]
      · simp at hr

end VaxisModel.Lemmas.InputFlow
