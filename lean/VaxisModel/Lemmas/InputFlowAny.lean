import VaxisModel.Lemmas.InputFlow

/-! `input_never_lost` without the "no cursor-position query during the run" hypothesis: for report streams whose
keys are not encoded `CSI … R`, whatever `CursorPosition` calls, answers and time-outs happen in between. -/
namespace VaxisModel.Lemmas.InputFlowAny
open VaxisModel.Model.Input VaxisModel.Model.InputLoop
open VaxisModel.Lemmas.Input VaxisModel.Lemmas.InputLoop VaxisModel.Lemmas.InputEvents VaxisModel.Lemmas.InputFlow
open VaxisModel.Spec.InputEvents (specEvents)

/-- The report is not a key whose encoding is `CSI … R` (F3 with modifiers in the legacy encoding
shares its final byte with the cursor-position report: by design such a key is taken for the answer
while a query is outstanding). -/
def NotCprKey : SReport → Prop
  | .key (.csi _ _ final) => final ≠ ch 'R'
  | _ => True

theorem key_csi_noR (st : VState) (params : List (List Int)) (final : Nat) (hR : final ≠ ch 'R')
    (h : LegitKey (.csi [] params final)) :
    handleCSI st [] params final = .ok (st, [.postB (.key (.csi [] params final) st.pastePending)]) := by
  obtain ⟨-, hI, hO, hy, hM, hm, ht, htilde⟩ := h
  by_cases hT : final = ch '~'
  · obtain ⟨k, r, m, hp, h200, h201⟩ := htilde hT
    subst hT hp
    simp [handleCSI, ch, idx2, idx, keyArm, bind, Except.bind, h200, h201]
  · simp [handleCSI, isPrivate, hR, hI, hO, hy, hM, hm, ht, hT, keyArm]

/-- One report, whatever the state of the cursor-position request flag: same events, and the flag
is left as it was. -/
theorem one_report_any (b64 : List Nat → Option (List Nat)) (r : SReport) (st : VState) (hw : r.Wf) (hn : NotCprKey r) :
    ∃ st' effs, handle b64 st r.seq = .ok (st', effs) ∧ st'.reqCursorPos = st.reqCursorPos ∧
      st'.pastePending = pasteAfter st.pastePending r ∧
      visible (posted effs) = specEvents st.pastePending [r.spec] := by
  cases r with
  | key s =>
    cases s with
    | csi interm params final =>
      have hi : interm = [] := hw.1
      subst hi
      refine ⟨st, _, key_csi_noR st params final hn hw, rfl, rfl, ?_⟩
      cases hp : st.pastePending <;> simp [visible, posted, toU, specEvents, SReport.spec, hp]
    | print g w => exact ⟨st, _, rfl, rfl, rfl, by cases hp : st.pastePending <;> simp [visible, posted, toU, specEvents, SReport.spec, SReport.seq, hp]⟩
    | c0 c => exact ⟨st, _, rfl, rfl, rfl, by cases hp : st.pastePending <;> simp [visible, posted, toU, specEvents, SReport.spec, SReport.seq, hp]⟩
    | esc i f => exact ⟨st, _, rfl, rfl, rfl, by cases hp : st.pastePending <;> simp [visible, posted, toU, specEvents, SReport.spec, SReport.seq, hp]⟩
    | ss3 c => exact ⟨st, _, rfl, rfl, rfl, by cases hp : st.pastePending <;> simp [visible, posted, toU, specEvents, SReport.spec, SReport.seq, hp]⟩
    | _ => exact absurd hw (by simp [SReport.Wf, LegitKey])
  | mouse b x y rel =>
    obtain ⟨hx, hy⟩ := hw
    have hm := mouse_exact' b x y rel hx hy
    refine ⟨st, [.postB (.mouse (sgrMouse b x y rel))], ?_, rfl, rfl, ?_⟩
    · cases rel <;> simp [SReport.seq, handle, handleCSI, ch] at hm ⊢ <;> simp [hm, bind, Except.bind, pure, Except.pure]
    · simp [visible, posted, toU, specEvents, SReport.spec, VaxisModel.Spec.InputEvents.mouseEvent, sgrMouse, evMotion, evRelease, evPress,
        VaxisModel.Spec.InputEvents.etMotion, VaxisModel.Spec.InputEvents.etRelease, VaxisModel.Spec.InputEvents.etPress]
      omega
  | focus g => cases g <;> exact ⟨st, _, rfl, rfl, rfl, rfl⟩
  | pasteStart => exact ⟨{ st with pastePending := true }, _, rfl, rfl, rfl, rfl⟩
  | pasteEnd => exact ⟨{ st with pastePending := false }, _, rfl, rfl, rfl, rfl⟩
  | reply s =>
    obtain ⟨hq, hwf⟩ := hw
    have hok := handle_ok b64 st s hwf
    have hr := isQueryReply_ok b64 st s hq
    simp only [SReport.seq]
    cases hh : handle b64 st s with
    | error e => simp [hh, ok?] at hok
    | ok res =>
      obtain ⟨st', effs⟩ := res
      simp only [hh, replyOK, Bool.and_eq_true, beq_iff_eq] at hr
      obtain ⟨⟨ha, hp⟩, hrq⟩ := hr
      exact ⟨st', effs, rfl, hrq, by simpa [pasteAfter] using hp,
        by simpa [specEvents, SReport.spec] using visible_internal effs ha⟩
  | inband h w yp xp =>
    refine ⟨{ st with resizeFlag := true, nextSize := { cols := w, rows := h, ypix := yp, xpix := xp } }, _, rfl, rfl, rfl, ?_⟩
    cases hc : st.caps.inBandResize <;> simp [visible, posted, toU, specEvents, SReport.spec, hc, List.filterMap_cons]
  | theme m =>
    exact ⟨st, [.postB (.colorTheme m)], rfl, rfl, rfl, by simp [visible, posted, toU, specEvents, SReport.spec]⟩

/-- Any label that is not terminal input leaves the paste flag alone and emits nothing. -/
theorem next_vs_any (p : Params) (s s' : Sys) (l : Label) (hn : next p s l = some (.ok s'))
    (h1 : ∀ q, l ≠ .input q) :
    s'.vs.pastePending = s.vs.pastePending ∧ emittedBy p s l = [] := by
  by_cases h2 : l = .cursorCall
  · subst h2
    simp only [next] at hn
    split at hn
    · simp at hn
    · simp at hn; subst hn; exact ⟨rfl, by simp [emittedBy]⟩
  · obtain ⟨a, _, c⟩ := next_vs_other p s s' l hn h1 h2
    exact ⟨a, c⟩

theorem emitted_spec_any (p : Params) : ∀ (ls : List Label) (rs : List SReport) (s s' : Sys),
    inputSeqs ls = rs.map SReport.seq → (∀ r ∈ rs, r.Wf) → (∀ r ∈ rs, NotCprKey r) →
    run p s ls = some s' →
    visible (emitted p s ls) = specEvents s.vs.pastePending (rs.map SReport.spec)
  | [], rs, s, s', hin, _, _, _ => by
      cases rs with
      | nil => simp [emitted, visible, specEvents]
      | cons r t => simp [inputSeqs] at hin
  | l :: ls, rs, s, s', hin, hw, hk, hr => by
      simp only [run] at hr
      split at hr
      · rename_i s1 hn
        by_cases hl : ∃ q, l = .input q
        · obtain ⟨q, rfl⟩ := hl
          cases rs with
          | nil => simp [inputSeqs] at hin
          | cons r rt =>
            simp only [inputSeqs, List.map_cons, List.cons.injEq] at hin
            obtain ⟨hq, hin'⟩ := hin
            subst hq
            obtain ⟨st1, effs, hh, _, hp1, hv1⟩ := one_report_any p.b64 r s.vs (hw r (by simp)) (hk r (by simp))
            have hn' := hn
            simp only [next] at hn'
            split at hn'
            · rename_i hpend
              simp only [hh] at hn'
              simp at hn'; subst hn'
              have ih := emitted_spec_any p ls rt _ s' hin' (fun r' hr' => hw r' (by simp [hr']))
                (fun r' hr' => hk r' (by simp [hr'])) hr
              simp only [emitted, hn, emittedBy, hpend, hh]
              rw [show visible (posted effs ++ emitted p { s with vs := st1, pend := effs } ls)
                  = visible (posted effs) ++ visible (emitted p { s with vs := st1, pend := effs } ls) by simp [visible]]
              rw [ih, hv1]
              show _ = specEvents s.vs.pastePending ((r :: rt).map SReport.spec)
              rw [spec_cons, hp1]
            · simp at hn'
        · have h1 : ∀ q, l ≠ .input q := fun q hq => hl ⟨q, hq⟩
          obtain ⟨hp, he⟩ := next_vs_any p s s1 l hn h1
          have hin' : inputSeqs ls = rs.map SReport.seq := by
            cases l <;> simp_all [inputSeqs]
          have ih := emitted_spec_any p ls rs s1 s' hin' hw hk hr
          simp only [emitted, hn, he, List.nil_append]
          rw [ih, hp]
      · simp at hr

end VaxisModel.Lemmas.InputFlowAny
