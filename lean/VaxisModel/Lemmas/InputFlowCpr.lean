import VaxisModel.Lemmas.InputFlowAny

/-! `input_never_lost` for streams that also contain `CSI … R` sequences (cursor-position reports / the keys that share their encoding), under arbitrary requester activity: everything but those ambiguous keys is delivered exactly as the spec says. -/

namespace VaxisModel.Lemmas.InputFlowCpr
open VaxisModel.Model.Input VaxisModel.Model.InputLoop
open VaxisModel.Lemmas.Input VaxisModel.Lemmas.InputLoop VaxisModel.Lemmas.InputEvents VaxisModel.Lemmas.InputFlow VaxisModel.Lemmas.InputFlowAny
open VaxisModel.Spec.InputEvents (specEvents UEvent)

/-- User-input events other than a key encoded `CSI … R` (which is, by design, the cursor-position
report's encoding: reply or key depending on the request flag). -/
def unambiguous : UEvent Seq → Bool
  | .key (.csi _ _ 82) _ => false
  | u => uiU u

theorem spec_key (p : Bool) (s : Seq) : specEvents p [SReport.spec (.key s)] = [.key s (if p then VaxisModel.Spec.InputEvents.etPaste else 0)] := by
  cases p <;> simp [specEvents, SReport.spec]

/-- A `CSI … R` sequence, in any state of the request flag: no panic, the paste flag is left alone,
and it contributes no unambiguous event (it is handed to the requester, dropped, or posted as the
key it also encodes). -/
theorem cpr_step (b64 : List Nat → Option (List Nat)) (st : VState) (params : List (List Int))
    (hw : WfParams params) :
    ∃ st' effs, handle b64 st (.csi [] params 82) = .ok (st', effs) ∧ st'.pastePending = st.pastePending ∧
      (visible (posted effs)).filter unambiguous = [] := by
  cases hreq : st.reqCursorPos
  · have hk : LegitKey (.csi [] params 82) := by simp [LegitKey, ch]
    refine ⟨st, _, key_csi st params 82 hreq hk, rfl, ?_⟩
    simp [visible, posted, toU, unambiguous]
  · rcases params with _ | ⟨a, _ | ⟨b, _ | ⟨c, rest⟩⟩⟩
    · exact ⟨{ st with reqCursorPos := false }, [], by simp [handle, handleCSI, ch, hreq], rfl, by simp [visible, posted]⟩
    · exact ⟨{ st with reqCursorPos := false }, [], by simp [handle, handleCSI, ch, hreq], rfl, by simp [visible, posted]⟩
    · have ha : a ≠ [] := hw a (by simp)
      have hb : b ≠ [] := hw b (by simp)
      obtain ⟨a0, at', rfl⟩ := List.exists_cons_of_ne_nil ha
      obtain ⟨b0, bt, rfl⟩ := List.exists_cons_of_ne_nil hb
      exact ⟨{ st with reqCursorPos := false }, [.sendCursorPos a0 b0],
        by simp [handle, handleCSI, ch, hreq, idx2, idx, bind, Except.bind, pure, Except.pure], rfl, by simp [visible, posted]⟩
    · exact ⟨{ st with reqCursorPos := false }, [], by simp [handle, handleCSI, ch, hreq], rfl, by simp [visible, posted]⟩

def isCprKey : SReport → Bool
  | .key (.csi _ _ 82) => true
  | _ => false

theorem notCpr_of (r : SReport) (h : isCprKey r = false) : NotCprKey r := by
  cases r with
  | key s =>
    cases s with
    | csi i p f =>
      simp only [NotCprKey, ch]
      intro hf
      have : f = 82 := hf
      subst this
      simp [isCprKey] at h
    | _ => trivial
  | _ => trivial

/-- One report in any state: the unambiguous events posted are those the spec requires. -/
theorem one_report_cpr (b64 : List Nat → Option (List Nat)) (r : SReport) (st : VState) (hw : r.Wf) (hs : WfSeq r.seq) :
    ∃ st' effs, handle b64 st r.seq = .ok (st', effs) ∧ st'.pastePending = pasteAfter st.pastePending r ∧
      (visible (posted effs)).filter unambiguous = (specEvents st.pastePending [r.spec]).filter unambiguous := by
  cases hc : isCprKey r
  · obtain ⟨st', effs, h1, _, h3, h4⟩ := one_report_any b64 r st hw (notCpr_of r hc)
    exact ⟨st', effs, h1, h3, by rw [h4]⟩
  · cases r with
    | key s =>
      cases s with
      | csi interm params final =>
        have hf : final = 82 := by
          simp only [isCprKey] at hc
          split at hc <;> simp_all
        have hi : interm = [] := hw.1
        subst hf hi
        obtain ⟨st', effs, h1, h2, h3⟩ := cpr_step b64 st params hs
        refine ⟨st', effs, h1, by simpa [pasteAfter] using h2, ?_⟩
        rw [h3, spec_key]; simp [unambiguous]
      | _ => simp [isCprKey] at hc
    | _ => simp [isCprKey] at hc

theorem visible_filter_append (a b : List Event) :
    (visible (a ++ b)).filter unambiguous = (visible a).filter unambiguous ++ (visible b).filter unambiguous := by
  simp [visible, List.filterMap_append]

theorem emitted_spec_cpr (p : Params) : ∀ (ls : List Label) (rs : List SReport) (s s' : Sys),
    inputSeqs ls = rs.map SReport.seq → (∀ r ∈ rs, r.Wf) → (∀ r ∈ rs, WfSeq r.seq) →
    run p s ls = some s' →
    (visible (emitted p s ls)).filter unambiguous = (specEvents s.vs.pastePending (rs.map SReport.spec)).filter unambiguous
  | [], rs, s, s', hin, _, _, _ => by
      cases rs with
      | nil => simp [emitted, visible, specEvents]
      | cons r t => simp [inputSeqs] at hin
  | l :: ls, rs, s, s', hin, hw, hk, hr => by
      simp only [run] at hr
      split at hr
      · rename_i s1 hn
        by_cases hl : ∃ q, l = .input q
        · obtain ⟨q, rfl⟩ := hl
          cases rs with
          | nil => simp [inputSeqs] at hin
          | cons r rt =>
            simp only [inputSeqs, List.map_cons, List.cons.injEq] at hin
            obtain ⟨hq, hin'⟩ := hin
            subst hq
            obtain ⟨st1, effs, hh, hp1, hv1⟩ := one_report_cpr p.b64 r s.vs (hw r (by simp)) (hk r (by simp))
            have hn' := hn
            simp only [next] at hn'
            split at hn'
            · rename_i hpend
              simp only [hh] at hn'
              simp at hn'; subst hn'
              have ih := emitted_spec_cpr p ls rt _ s' hin' (fun r' hr' => hw r' (by simp [hr']))
                (fun r' hr' => hk r' (by simp [hr'])) hr
              simp only [emitted, hn, emittedBy, hpend, hh]
              rw [visible_filter_append, ih, hv1]
              show _ = (specEvents s.vs.pastePending ((r :: rt).map SReport.spec)).filter unambiguous
              rw [spec_cons, List.filter_append, hp1]
            · simp at hn'
        · have h1 : ∀ q, l ≠ .input q := fun q hq => hl ⟨q, hq⟩
          obtain ⟨hp, he⟩ := next_vs_any p s s1 l hn h1
          have hin' : inputSeqs ls = rs.map SReport.seq := by
            cases l <;> simp_all [inputSeqs]
          have ih := emitted_spec_cpr p ls rs s1 s' hin' hw hk hr
          simp only [emitted, hn, he, List.nil_append]
          rw [ih, hp]
      · simp at hr

end VaxisModel.Lemmas.InputFlowCpr
