/-
Liveness of the input goroutine in the LTS of `Model/InputLoop.lean`, as statements about ALL runs:
a measure that every internal move strictly decreases, enabledness of an internal move whenever
effects are pending, and the consumption of a whole stream from any reachable state.
-/
import VaxisModel.Lemmas.InputLoop
import VaxisModel.Lemmas.Input

namespace VaxisModel.Lemmas.InputLive
open VaxisModel.Model.Input VaxisModel.Model.InputLoop VaxisModel.Lemmas.InputLoop VaxisModel.Lemmas.Input

/-- Work the goroutine and the application still have in front of them: two units per pending
effect (a blocking post moves one unit into the queue), one per queued event. -/
def work (s : Sys) : Nat := 2 * s.pend.length + s.queue.length

theorem stepEffect_work (p : Params) (s s' : Sys) (e : Effect) (rest : List Effect) (hp : s.pend = e :: rest)
    (h : stepEffect p s e rest = some s') : work s' < work s := by
  unfold work
  rw [hp]
  cases e <;> simp only [stepEffect] at h
  all_goals (repeat' split at h)
  all_goals (first | (simp at h; done) | (simp at h; subst h; simp; done) | (simp at h; subst h; simp; omega))

/-- Every internal move (a goroutine step, the clipboard time-out, the application receiving an
event) strictly decreases the work left. -/
theorem internal_decreases (p : Params) (s s' : Sys) (l : Label) (hi : l.internal = true)
    (h : next p s l = some (.ok s')) : work s' < work s := by
  cases l <;> simp [Label.internal] at hi
  case step =>
    simp only [next] at h
    split at h
    · simp at h
    · rename_i e rest heq
      simp only [Option.map_eq_some_iff] at h
      obtain ⟨a, ha, hb⟩ := h
      cases hb
      exact stepEffect_work p s s' e rest heq ha
  case clipTimeout =>
    simp only [next] at h
    split at h
    · rename_i v rest heq
      split at h
      · simp at h; subst h; unfold work; rw [heq]; simp <;> omega
      · simp at h
    · simp at h
  case consume =>
    simp only [next] at h
    split at h
    · simp at h
    · rename_i ev q heq
      simp at h; subst h; unfold work; rw [heq]; simp

/-- An internal move never makes the goroutine panic. -/
theorem internal_no_panic (p : Params) (s : Sys) (l : Label) (hi : l.internal = true) (e : Panic) :
    next p s l ≠ some (.error e) := by
  cases l <;> simp [Label.internal] at hi
  case step =>
    simp only [next]; split
    · simp
    · simp [Option.map]
      split <;> simp
  case clipTimeout =>
    simp only [next]; split
    · split <;> simp
    · simp
  case consume =>
    simp only [next]; split <;> simp

/-- All internal runs are short: a run of `n` internal moves uses up at least `n` units of work. -/
theorem internal_run_bounded (p : Params) : ∀ (ls : List Label) (s s' : Sys), (∀ l ∈ ls, l.internal = true) →
    run p s ls = some s' → ls.length + work s' ≤ work s
  | [], s, s', _, h => by simp [run] at h; subst h; simp
  | l :: t, s, s', hi, h => by
    simp only [run] at h
    cases hn : next p s l with
    | none => simp [hn] at h
    | some r =>
      cases r with
      | error e => simp [hn] at h
      | ok s1 =>
        simp only [hn] at h
        have h1 := internal_decreases p s s1 l (hi l (List.mem_cons_self ..)) hn
        have h2 := internal_run_bounded p t s1 s' (fun x hx => hi x (List.mem_cons_of_mem _ hx)) h
        simp only [List.length_cons]; omega

/-- A requester label (a call, a receive, a time-out or a cancellation of `CursorPosition`,
`reportWinsize`, `Query*`, `ClipboardPop`) leaves the goroutine's pending effects and the event
queue alone: it neither adds work nor removes any. -/
theorem requester_keeps_work (p : Params) (s s' : Sys) (l : Label) (hi : l.internal = false)
    (hn : ∀ q, l ≠ .input q) (h : next p s l = some (.ok s')) : work s' = work s := by
  cases l <;> simp [Label.internal] at hi
  case input q => exact absurd rfl (hn q)
  all_goals (simp only [next] at h; (repeat' split at h))
  all_goals (first | (simp at h; done) | (simp at h; subst h; rfl))

/-- Any schedule without terminal input — internal moves and requester labels in any interleaving —
contains at most `work s` internal moves: requesters can neither starve nor prolong the goroutine. -/
theorem schedule_bounded (p : Params) : ∀ (ls : List Label) (s s' : Sys), (∀ l ∈ ls, ∀ q, l ≠ .input q) →
    run p s ls = some s' → (ls.filter (·.internal)).length + work s' ≤ work s
  | [], s, s', _, h => by simp [run] at h; subst h; simp
  | l :: t, s, s', hni, h => by
    simp only [run] at h
    cases hn : next p s l with
    | none => simp [hn] at h
    | some r =>
      cases r with
      | error e => simp [hn] at h
      | ok s1 =>
        simp only [hn] at h
        have h2 := schedule_bounded p t s1 s' (fun x hx => hni x (List.mem_cons_of_mem _ hx)) h
        cases hi : l.internal with
        | true =>
          have h1 := internal_decreases p s s1 l hi hn
          simp only [List.filter_cons, hi, if_true, List.length_cons]; omega
        | false =>
          have h1 := requester_keeps_work p s s1 l hi (hni l (List.mem_cons_self ..)) hn
          simp only [List.filter_cons, hi]; simp; omega

/-- Whenever effects are pending, some internal move is enabled: the goroutine is never stuck
(queue within its capacity ≥ 1, send kinds as in the source). -/
theorem internal_enabled (p : Params) (hq : 0 < p.qcap) (hk : Kinds.safe p.kinds) (s : Sys)
    (hql : s.queue.length ≤ p.qcap) (hp : s.pend ≠ []) :
    ∃ l s', l.internal = true ∧ next p s l = some (.ok s') := by
  obtain ⟨ls, s', hi, hr, hp'⟩ := settle p hq hk s.pend s rfl hql
  cases ls with
  | nil => simp [run] at hr; subst hr; exact absurd hp' hp
  | cons l t =>
    simp only [run] at hr
    cases hn : next p s l with
    | none => simp [hn] at hr
    | some r =>
      cases r with
      | error e => simp [hn] at hr
      | ok s1 => exact ⟨l, s1, hi l (List.mem_cons_self ..), hn⟩

/-- The sequences taken by a schedule. -/
def inputsOf (ls : List Label) : List Seq := ls.filterMap fun l => match l with | .input q => some q | _ => none

theorem inputsOf_internal : ∀ (ls : List Label), (∀ l ∈ ls, l.internal = true) → inputsOf ls = []
  | [], _ => rfl
  | l :: t, h => by
    have hl := h l (List.mem_cons_self ..)
    have ht := inputsOf_internal t (fun x hx => h x (List.mem_cons_of_mem _ hx))
    cases l <;> simp [Label.internal] at hl <;> simpa [inputsOf] using ht

theorem inputsOf_append (a b : List Label) : inputsOf (a ++ b) = inputsOf a ++ inputsOf b := by
  simp [inputsOf, List.filterMap_append]

/-- A whole stream of parser-deliverable sequences is consumed from any state with a legal queue:
there is a schedule made of the stream's sequences, in order, and internal moves only. -/
theorem stream_consumed (p : Params) (hq : 0 < p.qcap) (hk : Kinds.safe p.kinds) :
    ∀ (qs : List Seq) (s : Sys), (∀ q ∈ qs, WfSeq q) → s.queue.length ≤ p.qcap →
      ∃ ls s', run p s ls = some s' ∧ s'.pend = [] ∧ s'.queue.length ≤ p.qcap ∧
        inputsOf ls = qs ∧
        (∀ l ∈ ls, l.internal = true ∨ ∃ q, l = .input q)
  | [], s, _, hql => by
    obtain ⟨ls, s', hi, hr, hp⟩ := settle p hq hk s.pend s rfl hql
    refine ⟨ls, s', hr, hp, ?_, ?_, fun l hl => Or.inl (hi l hl)⟩
    · exact run_queue_le p ls s s' hr hql
    · exact inputsOf_internal ls hi
  | q :: qs, s, hwf, hql => by
    -- settle, take `q`, recurse
    obtain ⟨ls0, s0, hi0, hr0, hp0⟩ := settle p hq hk s.pend s rfl hql
    have hq0 := run_queue_le p ls0 s s0 hr0 hql
    obtain ⟨r, hr⟩ := (ok_iff _).mpr (handle_ok p.b64 s0.vs q (hwf q (List.mem_cons_self ..)))
    obtain ⟨vs1, effs⟩ := r
    have hn : next p s0 (.input q) = some (.ok { s0 with vs := vs1, pend := effs }) := by
      simp [next, hp0, hr]
    obtain ⟨ls1, s1, hr1, hp1, hq1, hf1, hl1⟩ := stream_consumed p hq hk qs { s0 with vs := vs1, pend := effs }
      (fun x hx => hwf x (List.mem_cons_of_mem _ hx)) hq0
    refine ⟨ls0 ++ .input q :: ls1, s1, ?_, hp1, hq1, ?_, ?_⟩
    · rw [run_append p ls0 _ s s0 hr0, run_cons_ok hn, hr1]
    · rw [inputsOf_append, inputsOf_internal ls0 hi0]; simp [inputsOf] at hf1 ⊢; exact hf1
    · intro l hl
      rcases List.mem_append.mp hl with h | h
      · exact Or.inl (hi0 l h)
      · rcases List.mem_cons.mp h with rfl | h
        · exact Or.inr ⟨q, rfl⟩
        · exact hl1 l h
where
  run_queue_le (p : Params) : ∀ (ls : List Label) (a b : Sys), run p a ls = some b → a.queue.length ≤ p.qcap →
      b.queue.length ≤ p.qcap
    | [], a, b, h, hq => by simp [run] at h; subst h; exact hq
    | l :: t, a, b, h, hq => by
      simp only [run] at h
      cases hn : next p a l with
      | none => simp [hn] at h
      | some r =>
        cases r with
        | error e => simp [hn] at h
        | ok a1 =>
          simp only [hn] at h
          exact run_queue_le p t a1 b h (next_queue_le p a a1 l hn hq)

/-- The application reading all its events: from an idle state `consume` as many times as there are
queued events empties the queue. -/
theorem drain_queue (p : Params) : ∀ (n : Nat) (s : Sys), s.queue.length = n → s.pend = [] →
    ∃ s', run p s (List.replicate n .consume) = some s' ∧ s'.pend = [] ∧ s'.queue = []
  | 0, s, hq, hp => ⟨s, rfl, hp, List.eq_nil_of_length_eq_zero hq⟩
  | n + 1, s, hq, hp => by
    cases hqe : s.queue with
    | nil => simp [hqe] at hq
    | cons ev q =>
      have hn : next p s .consume = some (.ok { s with queue := q, delivered := s.delivered ++ [ev] }) := by
        simp [next, hqe]
      obtain ⟨s', hr, hp', hq'⟩ := drain_queue p n { s with queue := q, delivered := s.delivered ++ [ev] }
        (by simp [hqe] at hq; simpa using hq) hp
      exact ⟨s', by rw [List.replicate_succ, run_cons_ok hn]; exact hr, hp', hq'⟩

theorem inputsOf_consumes (n : Nat) : inputsOf (List.replicate n Label.consume) = [] :=
  inputsOf_internal _ (fun l hl => by rw [List.eq_of_mem_replicate hl]; rfl)

end VaxisModel.Lemmas.InputLive
