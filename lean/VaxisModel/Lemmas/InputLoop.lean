import VaxisModel.Model.InputLoop

/-! Progress lemmas for the input-loop LTS (used by Props/C03.never_wedges). -/
namespace VaxisModel.Lemmas.InputLoop
open VaxisModel.Model.Input VaxisModel.Model.InputLoop

/-- Every `sendCursorPos` in the pending effects will find the requester still waiting: `w` is
whether a requester is waiting now; a completed hand-off releases it. -/
def CursorOK : List Effect → Bool → Prop
  | [], _ => True
  | .sendCursorPos _ _ :: rest, w => w = true ∧ CursorOK rest false
  | _ :: rest, w => CursorOK rest w

/-- The five buffered reply sends never block, the clipboard hand-off has a time-out. -/
def Kinds.safe (k : Kinds) : Prop :=
  k.cursorPos ≠ .blocking ∧ k.sizeDone ≠ .blocking ∧ k.color ≠ .blocking ∧ k.fg ≠ .blocking ∧ k.bg ≠ .blocking ∧
  k.clipboard = .timeout

theorem send1_some (k : SendKind) (hk : k ≠ .blocking) (n : Nat) : ∃ b, send1 k n = some b := by
  unfold send1
  split
  · exact ⟨true, rfl⟩
  · cases k <;> simp at hk ⊢

theorem run_cons_ok {p : Params} {s s' : Sys} {l : Label} {ls : List Label}
    (h : next p s l = some (.ok s')) : run p s (l :: ls) = run p s' ls := by
  simp [run, h]

theorem run_append (p : Params) : ∀ (ls1 ls2 : List Label) (a b : Sys),
    run p a ls1 = some b → run p a (ls1 ++ ls2) = run p b ls2
  | [], _, a, b, h => by simp [run] at h; subst h; rfl
  | l :: t, ls2, a, b, h => by
      simp only [run, List.cons_append] at h ⊢
      cases hn : next p a l with
      | none => simp [hn] at h
      | some r =>
        cases r with
        | error e => simp [hn] at h
        | ok s'' =>
          simp only [hn] at h ⊢
          exact run_append p t ls2 s'' b h

/-- Progress: from any state whose queue respects its capacity, internal labels alone bring the
goroutine back to its `select` — whatever the requesters do or have done. -/
theorem settle (p : Params) (hq : 0 < p.qcap) (hk : Kinds.safe p.kinds) :
    ∀ (pend : List Effect) (s : Sys), s.pend = pend → s.queue.length ≤ p.qcap →
      ∃ ls s', (∀ l ∈ ls, l.internal = true) ∧ run p s ls = some s' ∧ s'.pend = [] := by
  intro pend
  induction pend with
  | nil => intro s hp _; exact ⟨[], s, by simp, rfl, hp⟩
  | cons e rest ih =>
    intro s hp hql
    obtain ⟨hcp, hsd, hco, hfg, hbg, hcl⟩ := hk
    -- it suffices to make one internal move (or two) to a state with `pend = rest`
    suffices h : ∃ ls1 s1, (∀ l ∈ ls1, l.internal = true) ∧ run p s ls1 = some s1 ∧ s1.pend = rest ∧
        s1.queue.length ≤ p.qcap by
      obtain ⟨ls1, s1, hi1, hr1, hp1, hq1⟩ := h
      obtain ⟨ls2, s2, hi2, hr2, hp2⟩ := ih s1 hp1 hq1
      refine ⟨ls1 ++ ls2, s2, ?_, ?_, hp2⟩
      · intro l hl
        rcases List.mem_append.mp hl with h | h
        · exact hi1 l h
        · exact hi2 l h
      · rw [run_append p ls1 ls2 s s1 hr1, hr2]
    cases e with
    | postB ev =>
      by_cases hlt : s.queue.length < p.qcap
      · refine ⟨[.step], { s with pend := rest, queue := s.queue ++ [ev] }, by simp [Label.internal], ?_, rfl, ?_⟩
        · simp [run, next, hp, stepEffect, hlt]
        · simp; omega
      · -- the application consumes one event first
        have hne : s.queue ≠ [] := by
          intro h; rw [h] at hlt; simp at hlt; omega
        obtain ⟨q0, qt, hqe⟩ := List.exists_cons_of_ne_nil hne
        refine ⟨[.consume, .step],
          { s with queue := qt ++ [ev], delivered := s.delivered ++ [q0], pend := rest }, by simp [Label.internal], ?_, rfl, ?_⟩
        · have hl : qt.length < p.qcap := by rw [hqe] at hql; simp at hql; omega
          simp [run, next, hp, hqe, stepEffect, hl]
        · rw [hqe] at hql; simp at hql ⊢; omega
    | postNB ev =>
      by_cases hlt : s.queue.length < p.qcap
      · refine ⟨[.step], { s with pend := rest, queue := s.queue ++ [ev] }, by simp [Label.internal], ?_, rfl, ?_⟩
        · simp [run, next, hp, stepEffect, hlt]
        · simp; omega
      · refine ⟨[.step], { s with pend := rest, dropped := s.dropped + 1 }, by simp [Label.internal], ?_, rfl, hql⟩
        simp [run, next, hp, stepEffect, hlt]
    | sendCursorPos r c =>
      by_cases hcap : p.cursorCap = 0
      · by_cases hw : s.cursorWaiting = true
        · refine ⟨[.step], { s with pend := rest, cursorWaiting := false, cursorGot := s.cursorGot ++ [(r, c)] },
            by simp [Label.internal], ?_, rfl, hql⟩
          simp [run, next, hp, stepEffect, hw, hcap]
        · refine ⟨[.step], { s with pend := rest }, by simp [Label.internal], ?_, rfl, hql⟩
          cases hk' : p.kinds.cursorPos <;> simp [run, next, hp, stepEffect, hw, hcap, hk'] <;> exact absurd hk' hcp
      · obtain ⟨b, hb⟩ := send1_some p.kinds.cursorPos hcp s.cursorCh.length
        cases b with
        | true =>
          refine ⟨[.step], { s with pend := rest, cursorCh := s.cursorCh ++ [(r, c)] }, by simp [Label.internal], ?_, rfl, hql⟩
          simp [run, next, hp, stepEffect, hb, hcap]
        | false =>
          refine ⟨[.step], { s with pend := rest }, by simp [Label.internal], ?_, rfl, hql⟩
          simp [run, next, hp, stepEffect, hb, hcap]
    | sendSizeDone =>
      obtain ⟨b, hb⟩ := send1_some p.kinds.sizeDone hsd s.sizeDone
      cases b with
      | true =>
        refine ⟨[.step], { s with pend := rest, sizeDone := s.sizeDone + 1 }, by simp [Label.internal], ?_, rfl, hql⟩
        simp [run, next, hp, stepEffect, hb]
      | false =>
        refine ⟨[.step], { s with pend := rest }, by simp [Label.internal], ?_, rfl, hql⟩
        simp [run, next, hp, stepEffect, hb]
    | sendColor v =>
      obtain ⟨b, hb⟩ := send1_some p.kinds.color hco s.color.length
      cases b with
      | true =>
        refine ⟨[.step], { s with pend := rest, color := s.color ++ [v] }, by simp [Label.internal], ?_, rfl, hql⟩
        simp [run, next, hp, stepEffect, hb]
      | false =>
        refine ⟨[.step], { s with pend := rest }, by simp [Label.internal], ?_, rfl, hql⟩
        simp [run, next, hp, stepEffect, hb]
    | sendFg v =>
      obtain ⟨b, hb⟩ := send1_some p.kinds.fg hfg s.fg.length
      cases b with
      | true =>
        refine ⟨[.step], { s with pend := rest, fg := s.fg ++ [v] }, by simp [Label.internal], ?_, rfl, hql⟩
        simp [run, next, hp, stepEffect, hb]
      | false =>
        refine ⟨[.step], { s with pend := rest }, by simp [Label.internal], ?_, rfl, hql⟩
        simp [run, next, hp, stepEffect, hb]
    | sendBg v =>
      obtain ⟨b, hb⟩ := send1_some p.kinds.bg hbg s.bg.length
      cases b with
      | true =>
        refine ⟨[.step], { s with pend := rest, bg := s.bg ++ [v] }, by simp [Label.internal], ?_, rfl, hql⟩
        simp [run, next, hp, stepEffect, hb]
      | false =>
        refine ⟨[.step], { s with pend := rest }, by simp [Label.internal], ?_, rfl, hql⟩
        simp [run, next, hp, stepEffect, hb]
    | sendClipboard v =>
      by_cases hw : s.clipWaiting = true
      · refine ⟨[.step], { s with pend := rest, clipWaiting := false, clipGot := s.clipGot ++ [v] },
          by simp [Label.internal], ?_, rfl, hql⟩
        simp [run, next, hp, stepEffect, hw]
      · refine ⟨[.clipTimeout], { s with pend := rest }, by simp [Label.internal], ?_, rfl, hql⟩
        simp [run, next, hp, hcl]

/-! ### the queue never exceeds its capacity -/

theorem stepEffect_queue_le (p : Params) (s s' : Sys) (e : Effect) (rest : List Effect)
    (h : stepEffect p s e rest = some s') (hq : s.queue.length ≤ p.qcap) : s'.queue.length ≤ p.qcap := by
  cases e <;> simp only [stepEffect] at h
  all_goals (repeat' split at h)
  all_goals (first | (simp at h; done) | (simp at h; subst h; simp; omega) | (simp at h; subst h; simpa using hq))

theorem next_queue_le (p : Params) (s s' : Sys) (l : Label)
    (h : next p s l = some (.ok s')) (hq : s.queue.length ≤ p.qcap) : s'.queue.length ≤ p.qcap := by
  cases l <;> simp only [next] at h
  case step =>
    split at h
    · simp at h
    · rename_i e rest _
      simp only [Option.map_eq_some_iff] at h
      obtain ⟨a, ha, hb⟩ := h
      cases hb
      exact stepEffect_queue_le p s s' e rest ha hq
  case consume =>
    split at h
    · simp at h
    · rename_i ev q heq
      simp at h; subst h; rw [heq] at hq; simp at hq ⊢; omega
  all_goals (repeat' split at h)
  all_goals (first | (simp at h; done) | (simp at h; subst h; simp at hq ⊢; omega) | (simp at h; subst h; simpa using hq) | skip)

theorem reach_queue_le (p : Params) (s0 s : Sys) (h0 : s0.queue.length ≤ p.qcap) (hr : Reachable p s0 s) :
    s.queue.length ≤ p.qcap := by
  induction hr with
  | init => exact h0
  | step l _ hn ih => exact next_queue_le p _ _ l hn ih

/-- A goroutine step (a post, a hand-off) leaves `handleSequence`'s own state alone. -/
theorem stepEffect_vs (p : Params) (s s' : Sys) (e : Effect) (rest : List Effect)
    (h : stepEffect p s e rest = some s') : s'.vs = s.vs := by
  unfold stepEffect at h
  cases e <;> simp only at h <;> (repeat' split at h) <;> simp at h <;> (try subst h) <;> (try rfl)

end VaxisModel.Lemmas.InputLoop
