import VaxisModel.Model.InputQuery

/-! Lemmas about the `Sscanf` model of the colour requesters (`Model/InputQuery.lean`). -/
namespace VaxisModel.Lemmas.InputQuery
open VaxisModel.Model.InputQuery VaxisModel.Model.Color

theorem hexVal_range (d : Nat) (h : (hexVal d).isSome = true) :
    (48 ≤ d ∧ d ≤ 57) ∨ (97 ≤ d ∧ d ≤ 102) ∨ (65 ≤ d ∧ d ≤ 70) := by
  unfold hexVal at h
  split at h
  · rename_i c; simp at c; exact Or.inl c
  · split at h
    · rename_i c; simp at c; exact Or.inr (Or.inl c)
    · split at h
      · rename_i c; simp at c; exact Or.inr (Or.inr c)
      · simp at h

theorem hexVal_lt (d v : Nat) (h : hexVal d = some v) : v < 16 := by
  unfold hexVal at h
  split at h
  · rename_i c; simp at c h; omega
  · split at h
    · rename_i c; simp at c h; omega
    · split at h
      · rename_i c; simp at c h; omega
      · simp at h

theorem hexDigit_plain (d : Nat) (h : (hexVal d).isSome = true) :
    (d == 10) = false ∧ isSpace d = false ∧ (d == 45) = false ∧ (d == 43) = false ∧ isNumRune d = true := by
  have hr := hexVal_range d h
  refine ⟨by simp; omega, ?_, by simp; omega, by simp; omega, by simp [isNumRune, h]⟩
  unfold isSpace
  simp only [Bool.or_eq_false_iff, Bool.and_eq_false_iff, decide_eq_false_iff_not, beq_eq_false_iff_ne]
  omega

theorem hexNum_some (ds : List Nat) : ∀ acc, (∀ d ∈ ds, (hexVal d).isSome = true) →
    ∃ v, hexNum ds acc = some v ∧ v < (acc + 1) * 16 ^ ds.length := by
  induction ds with
  | nil => intro acc _; exact ⟨acc, rfl, by simp⟩
  | cons d ds ih =>
    intro acc h
    have hd := h d (by simp)
    cases hv : hexVal d with
    | none => simp [hv] at hd
    | some v =>
      have hlt := hexVal_lt d v hv
      obtain ⟨w, hw, hb⟩ := ih (acc * 16 + v) (fun x hx => h x (by simp [hx]))
      refine ⟨w, by simp [hexNum, hv, hw], ?_⟩
      have : (acc * 16 + v + 1) * 16 ^ ds.length ≤ (acc + 1) * 16 ^ (ds.length + 1) := by
        rw [Nat.pow_succ, ← Nat.mul_assoc, Nat.mul_right_comm]
        apply Nat.mul_le_mul_right
        omega
      simpa using Nat.lt_of_lt_of_le hb this

theorem span_app (p : Nat → Bool) (l r : List Nat) (hl : ∀ x ∈ l, p x = true)
    (hr : ∀ c, r.head? = some c → p c = false) :
    (l ++ r).takeWhile p = l ∧ (l ++ r).dropWhile p = r := by
  induction l with
  | nil =>
    cases r with
    | nil => simp
    | cons c r' => simp [hr c rfl]
  | cons x l ih =>
    have hx := hl x (by simp)
    obtain ⟨i1, i2⟩ := ih (fun y hy => hl y (by simp [hy]))
    simp [hx, i1, i2]

/-- One `%x`: a non-empty group of at most 15 hexadecimal digits followed by something that is
not a digit (or by the end) scans to its value and leaves the rest. -/
theorem scanHex_digits (ds rest : List Nat) (hne : ds ≠ []) (hall : ∀ d ∈ ds, (hexVal d).isSome = true)
    (hlen : ds.length ≤ 15) (hrest : ∀ c, rest.head? = some c → isNumRune c = false) :
    ∃ v, hexNum ds 0 = some v ∧ v < 16 ^ ds.length ∧ scanHex (ds ++ rest) = some ((v : Int), rest) := by
  obtain ⟨v, hv, hb⟩ := hexNum_some ds 0 hall
  simp only [Nat.zero_add, Nat.one_mul] at hb
  refine ⟨v, hv, hb, ?_⟩
  cases ds with
  | nil => exact absurd rfl hne
  | cons d ds' =>
    obtain ⟨h10, hsp, h45, h43, _⟩ := hexDigit_plain d (hall d (by simp))
    have hnum : ∀ x ∈ d :: ds', isNumRune x = true := fun x hx => (hexDigit_plain x (hall x hx)).2.2.2.2
    obtain ⟨t1, t2⟩ := span_app isNumRune (d :: ds') rest hnum hrest
    have hv63 : v < 2 ^ 63 := by
      have : 16 ^ (d :: ds').length ≤ 16 ^ 15 := Nat.pow_le_pow_right (by decide) hlen
      have h2 : (16 : Nat) ^ 15 < 2 ^ 63 := by decide
      omega
    unfold scanHex
    simp only [List.cons_append, skipSpace, h10, hsp, h45, h43, Bool.false_eq_true, if_false]
    have t1' : List.takeWhile isNumRune (d :: (ds' ++ rest)) = d :: ds' := by simpa using t1
    have t2' : List.dropWhile isNumRune (d :: (ds' ++ rest)) = rest := by simpa using t2
    simp [t1', t2', hv, hv63]

theorem matchLit_app (lit inp : List Nat) : matchLit lit (lit ++ inp) = some inp := by
  induction lit with
  | nil => rfl
  | cons f fs ih => simp [matchLit, ih]

theorem slash_not_num : isNumRune 47 = false := by decide

/-! ## `parseColorReply` (round 4) -/

open VaxisModel.Model.Input in
theorem splitOn_ne (sep : Nat) (s : List Nat) : ∃ hd tl, splitOn sep s = hd :: tl := by
  induction s with
  | nil => exact ⟨[], [], rfl⟩
  | cons a t ih =>
    obtain ⟨hd, tl, h⟩ := ih
    simp only [splitOn, h]
    split <;> simp

open VaxisModel.Model.Input in
/-- `strings.Split` of a string without the separator is the string itself. -/
theorem splitOn_nosep (sep : Nat) (l : List Nat) (h : ∀ x ∈ l, x ≠ sep) : splitOn sep l = [l] := by
  induction l with
  | nil => rfl
  | cons a t ih =>
    have ht := ih (fun x hx => h x (List.mem_cons_of_mem _ hx))
    have ha : (a == sep) = false := by simpa using h a (List.mem_cons_self ..)
    simp [splitOn, ht, ha]

open VaxisModel.Model.Input in
/-- `strings.Split` cuts at the first separator. -/
theorem splitOn_sep_app (sep : Nat) (l rest : List Nat) (h : ∀ x ∈ l, x ≠ sep) :
    splitOn sep (l ++ sep :: rest) = l :: splitOn sep rest := by
  induction l with
  | nil =>
    obtain ⟨hd, tl, hs⟩ := splitOn_ne sep rest
    simp [splitOn, hs]
  | cons a t ih =>
    have ht := ih (fun x hx => h x (List.mem_cons_of_mem _ hx))
    have ha : (a == sep) = false := by simpa using h a (List.mem_cons_self ..)
    simp [splitOn, ht, ha]

/-- A string `hexNum` accepts consists of hexadecimal digits. -/
theorem hexNum_all_hex (ds : List Nat) : ∀ acc v, hexNum ds acc = some v → ∀ d ∈ ds, (hexVal d).isSome = true := by
  induction ds with
  | nil => intro _ _ _ d hd; cases hd
  | cons a t ih =>
    intro acc v h d hd
    unfold hexNum at h
    cases ha : hexVal a with
    | none => simp [ha] at h
    | some x =>
      simp only [ha] at h
      rcases List.mem_cons.mp hd with rfl | hd
      · simp [ha]
      · exact ih _ _ h d hd

/-- A hexadecimal digit is neither `/` nor `_`. -/
theorem hex_ne_slash (d : Nat) (h : (hexVal d).isSome = true) : d ≠ 47 ∧ d ≠ 95 := by
  have := hexVal_range d h; omega

/-- The channel parser of the code is XParseColor's reading (the oracle written in round 3). -/
theorem parseChannel_eq_xparse (ds : List Nat) : parseChannel ds = xparseChannel ds := by
  unfold parseChannel xparseChannel
  cases ds with
  | nil => simp
  | cons a t =>
    by_cases h4 : 4 < t.length + 1
    · simp [h4]
    · by_cases hm : 95 = a ∨ 95 ∈ t
      · have hnone : hexNum (a :: t) 0 = none := by
          cases hn : hexNum (a :: t) 0 with
          | none => rfl
          | some v =>
            have := hexNum_all_hex (a :: t) 0 v hn 95 (by simpa [eq_comm] using hm)
            simp [hexVal] at this
        simp [h4, hm, hnone]
      · simp [h4, hm]

/-- A channel value fits the `uint8` it is stored in. -/
theorem parseChannel_lt (ds : List Nat) (v : Nat) (h : parseChannel ds = some v) : v < 256 := by
  unfold parseChannel at h
  split at h
  · cases h
  · rename_i hlen
    cases hn : hexNum ds 0 with
    | none => simp [hn] at h
    | some x =>
      simp only [hn, Option.map_some, Option.some.injEq] at h
      subst h
      have hlen1 : 1 ≤ ds.length := by
        simp only [Bool.or_eq_true, decide_eq_true_eq, not_or, Nat.not_lt] at hlen; omega
      have hpow : 16 ^ 1 ≤ 16 ^ ds.length := Nat.pow_le_pow_right (by decide) hlen1
      have hx : x < 16 ^ ds.length := by
        obtain ⟨w, hw, hb⟩ := hexNum_some ds 0 (hexNum_all_hex ds 0 x hn)
        rw [hn] at hw; cases hw; simpa using hb
      have hle : x ≤ 16 ^ ds.length - 1 := by omega
      have hy : x * 65535 / (16 ^ ds.length - 1) ≤ 65535 := by
        apply Nat.div_le_of_le_mul
        rw [Nat.mul_comm x 65535, Nat.mul_comm (16 ^ ds.length - 1) 65535]
        exact Nat.mul_le_mul_left _ hle
      generalize x * 65535 / (16 ^ ds.length - 1) = y at hy
      omega

end VaxisModel.Lemmas.InputQuery
