/-
Symbolic evaluation of the extracted bodies of `Key.String`, `decodeKey` and `Key.MatchString`
(Gen/KeyBody.lean) by the interpreter of Model/GoInterp.lean: shared tools.

The environment of the interpreter is an association list that grows with every assignment, so
its exact shape depends on the path taken.  The lemmas here therefore talk about an *abstract*
environment `E` of which only some look-ups are known (`E.lookup "buf" = some …`), and every
statement / loop lemma has the form
`∃ E', exec … {env := E, out := o} = .norm {env := E', out := o} ∧ (look-ups of E')`.
Loops over symbolic lists (`keyNames`, CSI parameter lists, the fields of `strings.Split`) are
handled by induction on the list, relating `GoInterp.loop` to the recursive helpers of the hand model.
-/
import VaxisModel.Model.KeyBody
import VaxisModel.Lemmas.GoInterp

namespace VaxisModel.Lemmas.KeyBodyEval
open VaxisModel.Model.GoBody VaxisModel.Model.GoInterp VaxisModel.Model.Key VaxisModel.Model.KeyBody
open VaxisModel.Gen.Keys VaxisModel.Lemmas.GoInterp

/-! ## The context of key.go, projection by projection (so that `ctx` is never unfolded) -/

theorem ctx_u (u : Uni) (f : String → List V → Option (V × Str)) : (ctx u f).u = u := rfl
theorem ctx_consts (u : Uni) (f : String → List V → Option (V × Str)) : (ctx u f).consts = keyConstEnv := rfl
theorem ctx_maps (u : Uni) (f : String → List V → Option (V × Str)) :
    (ctx u f).maps = [("specialsKeys", .ints (specialsKeys.map fun e => ([e.1.1, e.1.2], e.2)))] := rfl
theorem ctx_slices (u : Uni) (f : String → List V → Option (V × Str)) :
    (ctx u f).slices = [("keyNames", keyNames.map fun e => V.struct [("key", .int e.1), ("name", .str e.2)])] := rfl
theorem ctx_structs (u : Uni) (f : String → List V → Option (V × Str)) :
    (ctx u f).structs = [("Key", keyStruct), ("specialKey", [("keycode", .int 0), ("final", .int 0)])] := rfl
theorem ctx_funcs (u : Uni) (f : String → List V → Option (V × Str)) : (ctx u f).funcs = f := rfl
theorem ctx_noops (u : Uni) (f : String → List V → Option (V × Str)) : (ctx u f).noops = [] := rfl

set_option maxRecDepth 8000 in
theorem const_ModShift : List.lookup "ModShift" keyConstEnv = some (.int (ModShift : Nat)) := rfl
set_option maxRecDepth 8000 in
theorem const_ModAlt : List.lookup "ModAlt" keyConstEnv = some (.int (ModAlt : Nat)) := rfl
set_option maxRecDepth 8000 in
theorem const_ModCtrl : List.lookup "ModCtrl" keyConstEnv = some (.int (ModCtrl : Nat)) := rfl
set_option maxRecDepth 8000 in
theorem const_ModSuper : List.lookup "ModSuper" keyConstEnv = some (.int (ModSuper : Nat)) := rfl
set_option maxRecDepth 8000 in
theorem const_ModHyper : List.lookup "ModHyper" keyConstEnv = some (.int (ModHyper : Nat)) := rfl
set_option maxRecDepth 8000 in
theorem const_ModMeta : List.lookup "ModMeta" keyConstEnv = some (.int (ModMeta : Nat)) := rfl
set_option maxRecDepth 8000 in
theorem const_ModCapsLock : List.lookup "ModCapsLock" keyConstEnv = some (.int (ModCapsLock : Nat)) := rfl
set_option maxRecDepth 8000 in
theorem const_ModNumLock : List.lookup "ModNumLock" keyConstEnv = some (.int (ModNumLock : Nat)) := rfl
set_option maxRecDepth 8000 in
theorem const_EventRelease : List.lookup "EventRelease" keyConstEnv = some (.int EventRelease) := rfl
set_option maxRecDepth 8000 in
theorem const_MaxRune : List.lookup "unicode.MaxRune" keyConstEnv = some (.int maxRune) := rfl
set_option maxRecDepth 8000 in
theorem const_KeyTab : List.lookup "KeyTab" keyConstEnv = some (.int KeyTab) := rfl
set_option maxRecDepth 8000 in
theorem const_KeySpace : List.lookup "KeySpace" keyConstEnv = some (.int KeySpace) := rfl
set_option maxRecDepth 8000 in
theorem const_KeyEsc : List.lookup "KeyEsc" keyConstEnv = some (.int KeyEsc) := rfl
set_option maxRecDepth 8000 in
theorem const_KeyBackspace : List.lookup "KeyBackspace" keyConstEnv = some (.int KeyBackspace) := rfl
set_option maxRecDepth 8000 in
theorem const_KeyEnter : List.lookup "KeyEnter" keyConstEnv = some (.int KeyEnter) := rfl
set_option maxRecDepth 8000 in
theorem const_KeyUp : List.lookup "KeyUp" keyConstEnv = some (.int KeyUp) := rfl
set_option maxRecDepth 8000 in
theorem const_KeyDown : List.lookup "KeyDown" keyConstEnv = some (.int KeyDown) := rfl
set_option maxRecDepth 8000 in
theorem const_KeyRight : List.lookup "KeyRight" keyConstEnv = some (.int KeyRight) := rfl
set_option maxRecDepth 8000 in
theorem const_KeyLeft : List.lookup "KeyLeft" keyConstEnv = some (.int KeyLeft) := rfl
set_option maxRecDepth 20000 in
theorem const_KeyKeyPadBegin : List.lookup "KeyKeyPadBegin" keyConstEnv = some (.int KeyKeyPadBegin) := rfl
set_option maxRecDepth 8000 in
theorem const_KeyEnd : List.lookup "KeyEnd" keyConstEnv = some (.int KeyEnd) := rfl
set_option maxRecDepth 8000 in
theorem const_KeyHome : List.lookup "KeyHome" keyConstEnv = some (.int KeyHome) := rfl
set_option maxRecDepth 8000 in
theorem const_KeyF01 : List.lookup "KeyF01" keyConstEnv = some (.int KeyF01) := rfl
set_option maxRecDepth 8000 in
theorem const_KeyF02 : List.lookup "KeyF02" keyConstEnv = some (.int KeyF02) := rfl
set_option maxRecDepth 8000 in
theorem const_KeyF03 : List.lookup "KeyF03" keyConstEnv = some (.int KeyF03) := rfl
set_option maxRecDepth 8000 in
theorem const_KeyF04 : List.lookup "KeyF04" keyConstEnv = some (.int KeyF04) := rfl

/-! ## Sequencing -/

theorem execSs_cons (c : Ctx) (s : S) (t : Ss) (st : St) :
    execSs c (.cons s t) st = (execS c s st).andThen (fun st' => execSs c t st') := by
  simp only [execSs]

theorem execSs_nil (c : Ctx) (st : St) : execSs c .nil st = .norm st := by
  simp only [execSs]

/-- A variable bound in the environment. -/
theorem evalE_var_env (c : Ctx) (env : Env) (x : String) (v : V) (h : env.lookup x = some v) :
    evalE c env (.var x) = v := by
  simp only [evalE, h]

/-- A named constant (not shadowed by the environment). -/
theorem evalE_var_const (c : Ctx) (env : Env) (x : String) (v : V) (h : env.lookup x = none)
    (hc : c.consts.lookup x = some v) : evalE c env (.var x) = v := by
  simp only [evalE, h, hc]

/-- `string(r)` as a one-element list. -/
theorem strOfRune_eq (r : Int) : strOfRune r = [if validRune r then r else 0xFFFD] := by
  unfold strOfRune; split <;> rfl

/-! ## One iteration of a `for … range` loop -/

theorem loop_nil (F : St → V → Nat → R) (i : Nat) (st : St) : loop F [] i st = .norm st := rfl
theorem loop_cons_norm {F : St → V → Nat → R} {it : V} {rest : List V} {i : Nat} {st st' : St}
    (h : F st it i = .norm st') : loop F (it :: rest) i st = loop F rest (i + 1) st' := by
  simp only [loop, h]
theorem loop_cons_cont {F : St → V → Nat → R} {it : V} {rest : List V} {i : Nat} {st st' : St}
    (h : F st it i = .cont st') : loop F (it :: rest) i st = loop F rest (i + 1) st' := by
  simp only [loop, h]
theorem loop_cons_brk {F : St → V → Nat → R} {it : V} {rest : List V} {i : Nat} {st st' : St}
    (h : F st it i = .brk st') : loop F (it :: rest) i st = .norm st' := by
  simp only [loop, h]
theorem loop_cons_ret {F : St → V → Nat → R} {it : V} {rest : List V} {i : Nat} {st st' : St} {v : V}
    (h : F st it i = .ret st' v) : loop F (it :: rest) i st = .ret st' v := by
  simp only [loop, h]

/-! ## A loop whose body keeps an invariant of the environment

`iter step l i s` is the state after running `step` over `l` with indices `i, i+1, …`; if every
iteration of the interpreted body ends normally (or with `continue`) and maps the invariant `P E s`
to `P E' (step a i s)`, the interpreted loop ends normally in a state satisfying `P E' (iter …)`. -/

def iter {α σ : Type} (step : α → Nat → σ → σ) : List α → Nat → σ → σ
  | [], _, s => s
  | a :: l, i, s => iter step l (i + 1) (step a i s)

theorem loop_inv {α σ : Type} (F : St → V → Nat → R) (P : Env → σ → Prop) (step : α → Nat → σ → σ) (toV : α → V)
    (hstep : ∀ (E : Env) (s : σ) (a : α) (i : Nat) (o : Str), P E s →
      ∃ E', P E' (step a i s) ∧
        (F { env := E, out := o } (toV a) i = .norm { env := E', out := o } ∨
         F { env := E, out := o } (toV a) i = .cont { env := E', out := o })) :
    ∀ (l : List α) (i : Nat) (E : Env) (s : σ) (o : Str), P E s →
      ∃ E', loop F (l.map toV) i { env := E, out := o } = .norm { env := E', out := o } ∧ P E' (iter step l i s) := by
  intro l
  induction l with
  | nil => intro i E s o h; exact ⟨E, rfl, h⟩
  | cons a l ih =>
    intro i E s o h
    obtain ⟨E1, h1, e | e⟩ := hstep E s a i o h
    · rw [List.map_cons, loop_cons_norm e]; exact ih (i + 1) E1 _ o h1
    · rw [List.map_cons, loop_cons_cont e]; exact ih (i + 1) E1 _ o h1

theorem andThen_assoc (r : R) (f g : St → R) : (r.andThen f).andThen g = r.andThen (fun st => (f st).andThen g) := by
  cases r <;> rfl

theorem execSs_cons2 (c : Ctx) (s1 s2 : S) (rest : Ss) (st : St) :
    execSs c (.cons s1 (.cons s2 rest)) st = (execSs c (.cons s1 (.cons s2 .nil)) st).andThen (fun st' => execSs c rest st') := by
  simp only [execSs_cons, execSs_nil, andThen_assoc, andThen_norm]

end VaxisModel.Lemmas.KeyBodyEval
