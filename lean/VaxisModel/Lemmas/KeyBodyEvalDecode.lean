/-
`decodeKey`: the interpreted extracted body (`decodeKeyGen`) equals the hand model (`decodeKey`).
The statements of the body are named (`dS1` … `dS5`, the arms of the type switch, the loops of the
CSI arm) so that they are evaluated one at a time over an abstract environment; the three
`for … range` loops over CSI parameters are `csiCodes` / `csiMods` / the text `map` by induction
on the parameter list, the outer loop is `csiParams`.
-/
import VaxisModel.Lemmas.KeyBodyEval

set_option linter.unusedSimpArgs false

namespace VaxisModel.Lemmas.KeyBodyEval
open VaxisModel.Model.GoBody VaxisModel.Model.GoInterp VaxisModel.Model.Key VaxisModel.Model.KeyBody
open VaxisModel.Gen.Keys VaxisModel.Lemmas.GoInterp

/-- Names that must not be shadowed by local variables while `decodeKey` runs. -/
def dkFresh : List String :=
  ["ModShift", "ModAlt", "ModCtrl", "ModCapsLock", "ModNumLock", "KeyTab", "KeyBackspace", "KeyEnter", "KeyEsc",
   "KeyUp", "KeyDown", "KeyRight", "KeyLeft", "KeyKeyPadBegin", "KeyEnd", "KeyHome", "KeyF01", "KeyF02", "KeyF03", "KeyF04", "specialsKeys"]

/-- The environment holds the fields of the local `key` (as the flattened names `key.F`). -/
structure KeyEnv (E : Env) (key : Key) : Prop where
  self : E.lookup "key" = some (.struct keyStruct)
  text : E.lookup "key.Text" = some (.str key.text)
  keycode : E.lookup "key.Keycode" = some (.int key.keycode)
  shifted : E.lookup "key.ShiftedCode" = some (.int key.shifted)
  base : E.lookup "key.BaseLayoutCode" = some (.int key.base)
  mods : E.lookup "key.Modifiers" = some (.int (key.mods : Nat))
  event : E.lookup "key.EventType" = some (.int key.event)
  fresh : ∀ x ∈ dkFresh, E.lookup x = none

/-- `KeyEnv (bindings… :: E) key'` from `h : KeyEnv E key` when the new bindings account for the
    difference between `key` and `key'`. -/
syntax "keyenv " ident : tactic
set_option hygiene false in
macro_rules
  | `(tactic| keyenv $h:ident) => `(tactic| (
    refine ⟨?_, ?_, ?_, ?_, ?_, ?_, ?_, ?_⟩
    · first | (simp [List.lookup]; done) | (simpa [List.lookup] using ($h).self)
    · first | (simp [List.lookup]; done) | (simpa [List.lookup] using ($h).text)
    · first | (simp [List.lookup]; done) | (simpa [List.lookup] using ($h).keycode)
    · first | (simp [List.lookup]; done) | (simpa [List.lookup] using ($h).shifted)
    · first | (simp [List.lookup]; done) | (simpa [List.lookup] using ($h).base)
    · first | (simp [List.lookup]; done) | (simpa [List.lookup] using ($h).mods)
    · first | (simp [List.lookup]; done) | (simpa [List.lookup] using ($h).event)
    · intro xfr hxfr
      have hfx := ($h).fresh xfr hxfr
      simp only [dkFresh, List.mem_cons, List.not_mem_nil, or_false] at hxfr
      rcases hxfr with rfl | rfl | rfl | rfl | rfl | rfl | rfl | rfl | rfl | rfl | rfl | rfl | rfl | rfl | rfl | rfl | rfl | rfl | rfl | rfl | rfl <;>
        simpa [List.lookup] using hfx))

theorem binop_add_str (x y : Str) : binop .add (.str x) (.str y) = .str (x ++ y) := rfl

/-! ### The tail of the body: the Shift-text work-around and the `return` -/

def dS3 : S := (.assign .define (Es.ofList [(.var "nmods")]) (Es.ofList [(.bin .andNot (.var "key.Modifiers") (.bin .bor (.var "ModCapsLock") (.var "ModNumLock")))]))
def dS4 : S :=
    (.ifS .nil (.bin .land (.bin .land (.bin .eq (.var "key.Text") (.str [])) (.bin .eq (.var "nmods") (.var "ModShift"))) (.call "unicode.IsPrint" (Es.ofList [(.var "key.Keycode")]))) (Ss.ofList [
      (.ifS .nil (.call "unicode.IsPrint" (Es.ofList [(.var "key.ShiftedCode")])) (Ss.ofList [
        (.assign .set (Es.ofList [(.var "key.Text")]) (Es.ofList [(.call "string" (Es.ofList [(.var "key.ShiftedCode")]))]))]) (Ss.ofList [
        (.assign .set (Es.ofList [(.var "key.Text")]) (Es.ofList [(.call "string" (Es.ofList [(.call "unicode.ToUpper" (Es.ofList [(.var "key.Keycode")]))]))]))]))]) .nil)
def dS5 : S := (.ret (Es.ofList [(.var "key")]))

theorem key_eta (key : Key) :
    ({ text := key.text, keycode := key.keycode, shifted := key.shifted, base := key.base, mods := key.mods, event := key.event } : Key) = key := by
  cases key; rfl

theorem keyOfEnv_of (E : Env) (key : Key) (h : KeyEnv E key) : keyOfEnv E = some key := by
  unfold keyOfEnv
  simp only [h.text, h.keycode, h.shifted, h.base, h.mods, h.event, Int.natCast_nonneg, reduceIte, Int.toNat_natCast]

theorem decode_tail (u : Uni) (E : Env) (o : Str) (key : Key) (h : KeyEnv E key) :
    (execSs (ctx u noFuncs) (.cons dS3 (.cons dS4 (.cons dS5 .nil))) { env := E, out := o }).retEnv.bind keyOfEnv =
      some (shiftText u key) := by
  have f1 := h.fresh "ModShift" (by simp [dkFresh])
  have f2 := h.fresh "ModCapsLock" (by simp [dkFresh])
  have f3 := h.fresh "ModNumLock" (by simp [dkFresh])
  have hE1 : KeyEnv (("nmods", V.int ((andNot key.mods (ModCapsLock ||| ModNumLock) : Nat) : Int)) :: E) key := by keyenv h
  simp only [execSs_cons, execSs_nil, dS3, dS4, dS5, Ss.ofList, Es.ofList, execS, lhsNames, Option.map, evalEs, evalE, h.mods, f1, f2, f3,
    ctx_consts, const_ModShift, const_ModCapsLock, const_ModNumLock, binop_andNot, binop_bor, Int.toNat_natCast, assignVals, hasErr,
    Bool.false_eq_true, reduceIte, List.length, bindAll, VaxisModel.Model.GoInterp.bind, String.reduceEq, or_self, andThen_norm,
    List.lookup, String.reduceBEq, h.text, h.keycode, h.shifted, h.self, binop_eq_str, binop_eq_int, callFn_isPrint, callFn_string, callFn_toUpper, ctx_u, binop_land,
    branch_bool, ctx_funcs, noFuncs, Bool.and_eq_true, decide_eq_true_eq, Int.natCast_inj]
  unfold shiftText
  simp only []
  by_cases hc : key.text = [] ∧ andNot key.mods (ModCapsLock ||| ModNumLock) = ModShift ∧ u.isPrint key.keycode = true
  · rw [if_pos hc, if_pos (by simpa only [and_assoc] using hc)]
    by_cases hp : u.isPrint key.shifted = true
    · simp only [hp, reduceIte, andThen_norm, List.lookup, String.reduceBEq, h.self, andThen_ret, retEnv_ret, Option.bind]
      apply keyOfEnv_of
      keyenv hE1
    · simp only [hp, reduceIte, andThen_norm, List.lookup, String.reduceBEq, h.self, andThen_ret, retEnv_ret, Option.bind, Bool.false_eq_true]
      apply keyOfEnv_of
      keyenv hE1
  · rw [if_neg hc, if_neg (by simpa only [and_assoc] using hc)]
    simp only [andThen_norm, List.lookup, String.reduceBEq, h.self, andThen_ret, retEnv_ret, Option.bind]
    exact keyOfEnv_of _ _ hE1

/-! ### The head of the body: `key := Key{}` and the type switch, arm by arm -/

def dS1 : S := (.assign .define (Es.ofList [(.var "key")]) (Es.ofList [(.lit "Key" .nil)]))

def printBody : Ss := (Ss.ofList [
        (.varDecl "raw" "rune"),
        (.forRange "_" "r" (.var "seq.Grapheme") (Ss.ofList [
          (.assign .set (Es.ofList [(.var "raw")]) (Es.ofList [(.var "r")])),
          .brk])),
        (.assign .set (Es.ofList [(.var "key.Keycode")]) (Es.ofList [(.var "raw")])),
        (.ifS .nil (.call "unicode.IsUpper" (Es.ofList [(.var "raw")])) (Ss.ofList [
          (.assign .set (Es.ofList [(.var "key.Keycode")]) (Es.ofList [(.call "unicode.ToLower" (Es.ofList [(.var "raw")]))])),
          (.assign .set (Es.ofList [(.var "key.ShiftedCode")]) (Es.ofList [(.var "raw")])),
          (.assign .set (Es.ofList [(.var "key.Modifiers")]) (Es.ofList [(.var "ModShift")]))]) .nil),
        (.ifS .nil (.bin .ne (.var "key.Keycode") (.var "KeyBackspace")) (Ss.ofList [
          (.assign .set (Es.ofList [(.var "key.Text")]) (Es.ofList [(.var "seq.Grapheme")]))]) .nil)])

def c0Body : Ss := (Ss.ofList [
        (.switchS .nil (.call "rune" (Es.ofList [(.var "seq")])) (Cs.ofList [
          ((Es.ofList [(.int 8)]), (Ss.ofList [
            (.assign .set (Es.ofList [(.var "key.Keycode")]) (Es.ofList [(.var "KeyBackspace")]))])),
          ((Es.ofList [(.int 9)]), (Ss.ofList [
            (.assign .set (Es.ofList [(.var "key.Keycode")]) (Es.ofList [(.var "KeyTab")]))])),
          ((Es.ofList [(.int 13)]), (Ss.ofList [
            (.assign .set (Es.ofList [(.var "key.Keycode")]) (Es.ofList [(.var "KeyEnter")]))])),
          ((Es.ofList [(.int 27)]), (Ss.ofList [
            (.assign .set (Es.ofList [(.var "key.Keycode")]) (Es.ofList [(.var "KeyEsc")]))])),
          (.nil, (Ss.ofList [
            (.assign .set (Es.ofList [(.var "key.Modifiers")]) (Es.ofList [(.var "ModCtrl")])),
            (.switchS .nil .nilv (Cs.ofList [
              ((Es.ofList [(.bin .eq (.call "rune" (Es.ofList [(.var "seq")])) (.int 0))]), (Ss.ofList [
                (.assign .set (Es.ofList [(.var "key.Keycode")]) (Es.ofList [(.int 64)]))])),
              ((Es.ofList [(.bin .le (.call "rune" (Es.ofList [(.var "seq")])) (.int 26))]), (Ss.ofList [
                (.assign .set (Es.ofList [(.var "key.Keycode")]) (Es.ofList [(.bin .add (.call "rune" (Es.ofList [(.var "seq")])) (.int 96))]))])),
              ((Es.ofList [(.bin .lt (.call "rune" (Es.ofList [(.var "seq")])) (.int 32))]), (Ss.ofList [
                (.assign .set (Es.ofList [(.var "key.Keycode")]) (Es.ofList [(.bin .add (.call "rune" (Es.ofList [(.var "seq")])) (.int 64))]))]))]))]))]))])

def escBody : Ss := (Ss.ofList [
        (.assign .set (Es.ofList [(.var "key.Keycode")]) (Es.ofList [(.var "seq.Final")])),
        (.assign .set (Es.ofList [(.var "key.Modifiers")]) (Es.ofList [(.var "ModAlt")])),
        (.ifS .nil (.call "unicode.IsUpper" (Es.ofList [(.var "seq.Final")])) (Ss.ofList [
          (.assign .set (Es.ofList [(.var "key.Keycode")]) (Es.ofList [(.call "unicode.ToLower" (Es.ofList [(.var "seq.Final")]))])),
          (.assign .set (Es.ofList [(.var "key.ShiftedCode")]) (Es.ofList [(.var "seq.Final")])),
          (.assign .orSet (Es.ofList [(.var "key.Modifiers")]) (Es.ofList [(.var "ModShift")]))]) .nil)])

def ss3Body : Ss := (Ss.ofList [
        (.switchS .nil (.call "rune" (Es.ofList [(.var "seq")])) (Cs.ofList [
          ((Es.ofList [(.int 65)]), (Ss.ofList [
            (.assign .set (Es.ofList [(.var "key.Keycode")]) (Es.ofList [(.var "KeyUp")]))])),
          ((Es.ofList [(.int 66)]), (Ss.ofList [
            (.assign .set (Es.ofList [(.var "key.Keycode")]) (Es.ofList [(.var "KeyDown")]))])),
          ((Es.ofList [(.int 67)]), (Ss.ofList [
            (.assign .set (Es.ofList [(.var "key.Keycode")]) (Es.ofList [(.var "KeyRight")]))])),
          ((Es.ofList [(.int 68)]), (Ss.ofList [
            (.assign .set (Es.ofList [(.var "key.Keycode")]) (Es.ofList [(.var "KeyLeft")]))])),
          ((Es.ofList [(.int 69)]), (Ss.ofList [
            (.assign .set (Es.ofList [(.var "key.Keycode")]) (Es.ofList [(.var "KeyKeyPadBegin")]))])),
          ((Es.ofList [(.int 70)]), (Ss.ofList [
            (.assign .set (Es.ofList [(.var "key.Keycode")]) (Es.ofList [(.var "KeyEnd")]))])),
          ((Es.ofList [(.int 72)]), (Ss.ofList [
            (.assign .set (Es.ofList [(.var "key.Keycode")]) (Es.ofList [(.var "KeyHome")]))])),
          ((Es.ofList [(.int 80)]), (Ss.ofList [
            (.assign .set (Es.ofList [(.var "key.Keycode")]) (Es.ofList [(.var "KeyF01")]))])),
          ((Es.ofList [(.int 81)]), (Ss.ofList [
            (.assign .set (Es.ofList [(.var "key.Keycode")]) (Es.ofList [(.var "KeyF02")]))])),
          ((Es.ofList [(.int 82)]), (Ss.ofList [
            (.assign .set (Es.ofList [(.var "key.Keycode")]) (Es.ofList [(.var "KeyF03")]))])),
          ((Es.ofList [(.int 83)]), (Ss.ofList [
            (.assign .set (Es.ofList [(.var "key.Keycode")]) (Es.ofList [(.var "KeyF04")]))]))]))])

/-- `for j, ps := range pm` of the first sub-parameter list: key code, shifted code, base-layout code -/
def codesSwitch : S :=
                (.switchS .nil (.var "j") (Cs.ofList [
                  ((Es.ofList [(.int 0)]), (Ss.ofList [
                    (.assign .define (Es.ofList [(.var "sk")]) (Es.ofList [(.lit "specialKey" (Es.ofList [(.call "rune" (Es.ofList [(.var "ps")])), (.var "seq.Final")]))])),
                    (.ifS .nil (.bin .land (.bin .eq (.var "sk.keycode") (.int 1)) (.bin .eq (.var "sk.final") (.int 90))) (Ss.ofList [
                      (.assign .set (Es.ofList [(.var "key.Keycode")]) (Es.ofList [(.var "KeyTab")])),
                      (.assign .set (Es.ofList [(.var "key.Modifiers")]) (Es.ofList [(.var "ModShift")])),
                      .cont]) .nil),
                    (.varDecl "ok" "bool"),
                    (.assign .set (Es.ofList [(.var "key.Keycode"), (.var "ok")]) (Es.ofList [(.idx (.var "specialsKeys") (.var "sk"))])),
                    (.ifS .nil (.un .not (.var "ok")) (Ss.ofList [
                      (.assign .set (Es.ofList [(.var "key.Keycode")]) (Es.ofList [(.call "rune" (Es.ofList [(.var "ps")]))]))]) .nil)])),
                  ((Es.ofList [(.int 1)]), (Ss.ofList [
                    (.assign .set (Es.ofList [(.var "key.ShiftedCode")]) (Es.ofList [(.call "rune" (Es.ofList [(.var "ps")]))]))])),
                  ((Es.ofList [(.int 2)]), (Ss.ofList [
                    (.assign .set (Es.ofList [(.var "key.BaseLayoutCode")]) (Es.ofList [(.call "rune" (Es.ofList [(.var "ps")]))]))]))]))
def codesLoop : S := .forRange "j" "ps" (.var "pm") (.cons codesSwitch .nil)

def modsSwitch : S :=
                (.switchS .nil (.var "j") (Cs.ofList [
                  ((Es.ofList [(.int 0)]), (Ss.ofList [
                    (.assign .set (Es.ofList [(.var "key.Modifiers")]) (Es.ofList [(.call "ModifierMask" (Es.ofList [(.bin .sub (.idx (.var "pm") (.int 0)) (.int 1))]))])),
                    (.ifS .nil (.bin .lt (.var "key.Modifiers") (.int 0)) (Ss.ofList [
                      (.assign .set (Es.ofList [(.var "key.Modifiers")]) (Es.ofList [(.int 0)]))]) .nil)])),
                  ((Es.ofList [(.int 1)]), (Ss.ofList [
                    (.assign .set (Es.ofList [(.var "key.EventType")]) (Es.ofList [(.bin .sub (.call "EventType" (Es.ofList [(.var "ps")])) (.int 1))]))]))]))
def modsLoop : S := .forRange "j" "ps" (.var "pm") (.cons modsSwitch .nil)

def textAssign : S := (.assign .addSet (Es.ofList [(.var "key.Text")]) (Es.ofList [(.call "string" (Es.ofList [(.call "rune" (Es.ofList [(.var "p")]))]))]))
def textLoop : S := .forRange "_" "p" (.var "pm") (.cons textAssign .nil)
def textIf : S :=
              (.ifS .nil (.bin .land (.bin .land (.bin .eq (.var "key.Keycode") (.int 27)) (.bin .eq (.var "seq.Final") (.int 126))) (.bin .gt (.call "len" (Es.ofList [(.var "pm")])) (.int 0))) (Ss.ofList [
                (.assign .set (Es.ofList [(.var "key.Keycode")]) (Es.ofList [(.call "rune" (Es.ofList [(.idx (.var "pm") (.int 0))]))]))]) (.cons textLoop .nil))

def csiSwitch : S :=
          (.switchS .nil (.var "i") (Cs.ofList [
            ((Es.ofList [(.int 0)]), (.cons codesLoop .nil)),
            ((Es.ofList [(.int 1)]), (.cons modsLoop .nil)),
            ((Es.ofList [(.int 2)]), (.cons textIf .nil))]))
def csiLoop : S := .forRange "i" "pm" (.var "seq.Parameters") (.cons csiSwitch .nil)
def csiIf : S :=
        (.ifS .nil (.bin .eq (.call "len" (Es.ofList [(.var "seq.Parameters")])) (.int 0)) (Ss.ofList [
          (.assign .set (Es.ofList [(.var "seq.Parameters")]) (Es.ofList [(.lit "[][]int" (Es.ofList [(.lit "" (Es.ofList [(.int 1)]))]))]))]) .nil)
def csiBody : Ss := .cons csiIf (.cons csiLoop .nil)

def dS2 : S :=
    (.typeSwitch "seq" (.var "seq") (Cs.ofList [
      ((Es.ofList [(.var "ansi.Print")]), printBody),
      ((Es.ofList [(.var "ansi.C0")]), c0Body),
      ((Es.ofList [(.var "ansi.ESC")]), escBody),
      ((Es.ofList [(.var "ansi.SS3")]), ss3Body),
      ((Es.ofList [(.var "ansi.CSI")]), csiBody)]))

theorem decodeKeyBody_eq : VaxisModel.Gen.KeyBody.decodeKeyBody =
    .cons dS1 (.cons dS2 (.cons dS3 (.cons dS4 (.cons dS5 .nil)))) := rfl

/-- the environment after `key := Key{}` and entering the arm of the type switch -/
def armEnv (fields : List (String × V)) (inner : V) (s : Seq) : Env :=
  ("seq", inner) :: (fields ++ (("key", .struct keyStruct) :: ("key.Text", .str []) :: ("key.Keycode", .int 0) :: ("key.ShiftedCode", .int 0) ::
    ("key.BaseLayoutCode", .int 0) :: ("key.Modifiers", .int 0) :: ("key.EventType", .int 0) :: [("seq", seqValue s)]))

theorem keyEnv_armEnv (fields : List (String × V)) (inner : V) (s : Seq)
    (hf : ∀ x ∈ "key" :: "key.Text" :: "key.Keycode" :: "key.ShiftedCode" :: "key.BaseLayoutCode" :: "key.Modifiers" :: "key.EventType" :: dkFresh,
      fields.lookup x = none) :
    KeyEnv (armEnv fields inner s) {} := by
  have hl : ∀ x, x ≠ "seq" → List.lookup x (armEnv fields inner s) =
      (match fields.lookup x with | some v => some v | none => List.lookup x (("key", .struct keyStruct) :: ("key.Text", .str []) :: ("key.Keycode", .int 0) :: ("key.ShiftedCode", .int 0) ::
        ("key.BaseLayoutCode", .int 0) :: ("key.Modifiers", .int 0) :: ("key.EventType", .int 0) :: [("seq", seqValue s)])) := by
    intro x hx
    unfold armEnv
    rw [List.lookup_cons]
    have : (x == "seq") = false := by simpa using hx
    rw [this]
    simp only [List.lookup_append]
    cases List.lookup x fields <;> rfl
  refine ⟨?_, ?_, ?_, ?_, ?_, ?_, ?_, ?_⟩
  · rw [hl _ (by decide), hf _ (by simp)]; rfl
  · rw [hl _ (by decide), hf _ (by simp)]; rfl
  · rw [hl _ (by decide), hf _ (by simp)]; rfl
  · rw [hl _ (by decide), hf _ (by simp)]; rfl
  · rw [hl _ (by decide), hf _ (by simp)]; rfl
  · rw [hl _ (by decide), hf _ (by simp)]; rfl
  · rw [hl _ (by decide), hf _ (by simp)]; rfl
  · intro x hx
    have hne : x ≠ "seq" := by
      rintro rfl
      revert hx; decide
    rw [hl _ hne, hf _ (by simp [hx])]
    simp only [dkFresh, List.mem_cons, List.not_mem_nil, or_false] at hx
    rcases hx with rfl | rfl | rfl | rfl | rfl | rfl | rfl | rfl | rfl | rfl | rfl | rfl | rfl | rfl | rfl | rfl | rfl | rfl | rfl | rfl | rfl <;> rfl

theorem arm_print (u : Uni) (g : Str) (E : Env) (o : Str) (h : KeyEnv E {}) (hg : E.lookup "seq.Grapheme" = some (.str g)) :
    ∃ E', execSs (ctx u noFuncs) printBody { env := E, out := o } = .norm { env := E', out := o } ∧
      KeyEnv E' (decodeRaw u (.print g)) := by
  have f1 := h.fresh "ModShift" (by simp [dkFresh])
  have f2 := h.fresh "KeyBackspace" (by simp [dkFresh])
  have hraw : ∃ E1, (execSs (ctx u noFuncs) (.cons (.varDecl "raw" "rune") (.cons (.forRange "_" "r" (.var "seq.Grapheme") (Ss.ofList [
          (.assign .set (Es.ofList [(.var "raw")]) (Es.ofList [(.var "r")])),
          .brk])) .nil)) { env := E, out := o }) = .norm {env := E1, out := o} ∧ KeyEnv E1 {} ∧ E1.lookup "raw" = some (.int (g.headD 0))
          ∧ E1.lookup "seq.Grapheme" = some (.str g) := by
    simp only [execSs_cons, execSs_nil, execS, zeroOf, String.reduceEq, or_true, true_or, reduceIte, VaxisModel.Model.GoInterp.bind, or_self, andThen_norm,
      rangeItems, List.lookup, String.reduceBEq, hg, evalE]
    cases g with
    | nil =>
      simp only [List.map, loop]
      exact ⟨_, rfl, by keyenv h, by simp [List.lookup], by simpa [List.lookup] using hg⟩
    | cons r t =>
      simp only [List.map, loop, Ss.ofList, Es.ofList, execSs_cons, execSs_nil, execS, lhsNames, Option.map, evalEs, evalE, VaxisModel.Model.GoInterp.bind,
        String.reduceEq, or_self, or_true, true_or, reduceIte, List.lookup, String.reduceBEq, assignVals, hasErr, Bool.false_eq_true, List.length, bindAll, andThen_norm, andThen_brk]
      exact ⟨_, rfl, by keyenv h, by simp [List.lookup], by simpa [List.lookup] using hg⟩
  obtain ⟨E1, e1, h1, hr, hg1⟩ := hraw
  have g1 := h1.fresh "ModShift" (by simp [dkFresh])
  have g2 := h1.fresh "KeyBackspace" (by simp [dkFresh])
  unfold printBody
  simp only [Ss.ofList] at e1 ⊢
  rw [execSs_cons2, e1, andThen_norm]
  by_cases hup : u.isUpper (g.headD 0) = true
  · by_cases hbs : u.toLower (g.headD 0) = KeyBackspace
    · simp only [Es.ofList, execSs_cons, execSs_nil, execS, lhsNames, Option.map, evalEs, evalE, hr, assignVals, hasErr, Bool.false_eq_true, reduceIte,
      List.length, bindAll, VaxisModel.Model.GoInterp.bind, String.reduceEq, or_self, andThen_norm, List.lookup, String.reduceBEq, callFn_isUpper, callFn_toLower,
      ctx_u, ctx_funcs, noFuncs, branch_bool, g1, g2, ctx_consts, const_ModShift, const_KeyBackspace, hg1, binop_ne_int, Bool.not_eq_true', decide_eq_false_iff_not,
      hup, hbs, not_true_eq_false, not_false_eq_true]
      refine ⟨_, rfl, ?_⟩
      simp only [decodeRaw, hup, reduceIte, hbs, ne_eq, not_true_eq_false]
      keyenv h1
    · simp only [Es.ofList, execSs_cons, execSs_nil, execS, lhsNames, Option.map, evalEs, evalE, hr, assignVals, hasErr, Bool.false_eq_true, reduceIte,
      List.length, bindAll, VaxisModel.Model.GoInterp.bind, String.reduceEq, or_self, andThen_norm, List.lookup, String.reduceBEq, callFn_isUpper, callFn_toLower,
      ctx_u, ctx_funcs, noFuncs, branch_bool, g1, g2, ctx_consts, const_ModShift, const_KeyBackspace, hg1, binop_ne_int, Bool.not_eq_true', decide_eq_false_iff_not,
      hup, hbs, not_true_eq_false, not_false_eq_true]
      refine ⟨_, rfl, ?_⟩
      simp only [decodeRaw, hup, reduceIte, hbs, ne_eq, not_false_eq_true]
      keyenv h1
  · by_cases hbs : g.headD 0 = KeyBackspace
    · have hup2 : ¬ u.isUpper KeyBackspace = true := by rw [← hbs]; exact hup
      simp only [hup2, Es.ofList, execSs_cons, execSs_nil, execS, lhsNames, Option.map, evalEs, evalE, hr, assignVals, hasErr, Bool.false_eq_true, reduceIte,
      List.length, bindAll, VaxisModel.Model.GoInterp.bind, String.reduceEq, or_self, andThen_norm, List.lookup, String.reduceBEq, callFn_isUpper, callFn_toLower,
      ctx_u, ctx_funcs, noFuncs, branch_bool, g1, g2, ctx_consts, const_ModShift, const_KeyBackspace, hg1, binop_ne_int, Bool.not_eq_true', decide_eq_false_iff_not,
      hup, hbs, not_true_eq_false, not_false_eq_true]
      refine ⟨_, rfl, ?_⟩
      simp only [decodeRaw, hup, hup2, reduceIte, hbs, ne_eq, not_true_eq_false, Bool.false_eq_true]
      keyenv h1
    · simp only [Es.ofList, execSs_cons, execSs_nil, execS, lhsNames, Option.map, evalEs, evalE, hr, assignVals, hasErr, Bool.false_eq_true, reduceIte,
      List.length, bindAll, VaxisModel.Model.GoInterp.bind, String.reduceEq, or_self, andThen_norm, List.lookup, String.reduceBEq, callFn_isUpper, callFn_toLower,
      ctx_u, ctx_funcs, noFuncs, branch_bool, g1, g2, ctx_consts, const_ModShift, const_KeyBackspace, hg1, binop_ne_int, Bool.not_eq_true', decide_eq_false_iff_not,
      hup, hbs, not_true_eq_false, not_false_eq_true]
      refine ⟨_, rfl, ?_⟩
      simp only [decodeRaw, hup, reduceIte, hbs, ne_eq, not_false_eq_true, Bool.false_eq_true]
      keyenv h1

set_option maxHeartbeats 400000 in
theorem arm_c0 (u : Uni) (b : Int) (hb : toRune b = b) (E : Env) (o : Str) (h : KeyEnv E {}) (hs : E.lookup "seq" = some (.int b)) :
    ∃ E', afterSwitch (execSs (ctx u noFuncs) c0Body { env := E, out := o }) = .norm { env := E', out := o } ∧
      KeyEnv E' (decodeRaw u (.c0 b)) := by
  have f1 := h.fresh "ModCtrl" (by simp [dkFresh])
  have f2 := h.fresh "KeyBackspace" (by simp [dkFresh])
  have f3 := h.fresh "KeyTab" (by simp [dkFresh])
  have f4 := h.fresh "KeyEnter" (by simp [dkFresh])
  have f5 := h.fresh "KeyEsc" (by simp [dkFresh])
  unfold c0Body
  simp only [Ss.ofList, Es.ofList, Cs.ofList, execSs_cons, execSs_nil, execS, evalE, evalEs, hs, callFn_rune, hb, andThen_norm,
    execCs, execDefault, labelHit, binop_eq_int, isTrue_bool, Bool.or_false, decide_eq_true_eq,
    lhsNames, Option.map, f1, f2, f3, f4, f5, ctx_consts, const_ModCtrl, const_KeyBackspace, const_KeyTab, const_KeyEnter, const_KeyEsc,
    assignVals, hasErr, Bool.false_eq_true, reduceIte, List.length, bindAll, VaxisModel.Model.GoInterp.bind, String.reduceEq, or_self,
    List.lookup, String.reduceBEq, binop_eq_bool, binop_le, binop_lt, binop_add, Bool.decide_eq_true,
    @eq_comm _ (8 : Int) b, @eq_comm _ (9 : Int) b, @eq_comm _ (13 : Int) b, @eq_comm _ (27 : Int) b]
  simp only [decodeRaw, lookup, c0Keys]
  by_cases h8 : b = 8
  · simp only [h8, reduceIte, afterSwitch_norm, andThen_norm, KeyBackspace]
    exact ⟨_, rfl, by keyenv h⟩
  by_cases h9 : b = 9
  · simp only [h9, Int.reduceEq, reduceIte, afterSwitch_norm, andThen_norm, KeyTab]
    exact ⟨_, rfl, by keyenv h⟩
  by_cases h13 : b = 13
  · simp only [h13, Int.reduceEq, reduceIte, afterSwitch_norm, andThen_norm, KeyEnter]
    exact ⟨_, rfl, by keyenv h⟩
  by_cases h27 : b = 27
  · simp only [h27, Int.reduceEq, reduceIte, afterSwitch_norm, andThen_norm, KeyEsc]
    exact ⟨_, rfl, by keyenv h⟩
  simp only [h8, h9, h13, h27, reduceIte, andThen_norm]
  by_cases h0 : b = 0
  · simp only [h0, reduceIte, afterSwitch_norm, andThen_norm]
    exact ⟨_, rfl, by keyenv h⟩
  by_cases h26 : b ≤ 26
  · simp only [h0, h26, reduceIte, afterSwitch_norm, andThen_norm]
    exact ⟨_, rfl, by keyenv h⟩
  by_cases h32 : b < 32
  · simp only [h0, h26, h32, reduceIte, afterSwitch_norm, andThen_norm]
    exact ⟨_, rfl, by keyenv h⟩
  · simp only [h0, h26, h32, reduceIte, afterSwitch_norm, andThen_norm]
    exact ⟨_, rfl, by keyenv h⟩

theorem arm_esc (u : Uni) (fin : Int) (E : Env) (o : Str) (h : KeyEnv E {}) (hs : E.lookup "seq.Final" = some (.int fin)) :
    ∃ E', afterSwitch (execSs (ctx u noFuncs) escBody { env := E, out := o }) = .norm { env := E', out := o } ∧
      KeyEnv E' (decodeRaw u (.esc fin)) := by
  have f1 := h.fresh "ModAlt" (by simp [dkFresh])
  have f2 := h.fresh "ModShift" (by simp [dkFresh])
  unfold escBody
  simp only [Ss.ofList, Es.ofList, Cs.ofList, execSs_cons, execSs_nil, execS, evalE, evalEs, hs, andThen_norm,
    lhsNames, Option.map, f1, f2, ctx_consts, const_ModAlt, const_ModShift, ctx_funcs, noFuncs, callFn_isUpper, callFn_toLower, ctx_u,
    assignVals, hasErr, Bool.false_eq_true, reduceIte, List.length, bindAll, VaxisModel.Model.GoInterp.bind, String.reduceEq, or_self,
    List.lookup, String.reduceBEq, branch_bool, binop_bor, Int.toNat_natCast]
  simp only [decodeRaw]
  by_cases hup : u.isUpper fin = true
  · simp only [hup, reduceIte, afterSwitch_norm, andThen_norm]
    exact ⟨_, rfl, by keyenv h⟩
  · simp only [hup, reduceIte, afterSwitch_norm, andThen_norm, Bool.false_eq_true]
    exact ⟨_, rfl, by keyenv h⟩

set_option maxHeartbeats 400000 in
theorem arm_ss3 (u : Uni) (b : Int) (hb : toRune b = b) (E : Env) (o : Str) (h : KeyEnv E {}) (hs : E.lookup "seq" = some (.int b)) :
    ∃ E', afterSwitch (execSs (ctx u noFuncs) ss3Body { env := E, out := o }) = .norm { env := E', out := o } ∧
      KeyEnv E' (decodeRaw u (.ss3 b)) := by
  have f0 := h.fresh "KeyUp" (by simp [dkFresh])
  have f1 := h.fresh "KeyDown" (by simp [dkFresh])
  have f2 := h.fresh "KeyRight" (by simp [dkFresh])
  have f3 := h.fresh "KeyLeft" (by simp [dkFresh])
  have f4 := h.fresh "KeyEnd" (by simp [dkFresh])
  have fB := h.fresh "KeyKeyPadBegin" (by simp [dkFresh])
  have f5 := h.fresh "KeyHome" (by simp [dkFresh])
  have f6 := h.fresh "KeyF01" (by simp [dkFresh])
  have f7 := h.fresh "KeyF02" (by simp [dkFresh])
  have f8 := h.fresh "KeyF03" (by simp [dkFresh])
  have f9 := h.fresh "KeyF04" (by simp [dkFresh])
  unfold ss3Body
  simp only [Ss.ofList, Es.ofList, Cs.ofList, execSs_cons, execSs_nil, execS, evalE, evalEs, hs, callFn_rune, hb, andThen_norm,
    execCs, execDefault, labelHit, binop_eq_int, isTrue_bool, Bool.or_false, decide_eq_true_eq,
    lhsNames, Option.map, f0, f1, f2, f3, f4, fB, f5, f6, f7, f8, f9, ctx_consts, const_KeyKeyPadBegin, const_KeyUp, const_KeyDown, const_KeyRight, const_KeyLeft, const_KeyEnd, const_KeyHome, const_KeyF01, const_KeyF02, const_KeyF03, const_KeyF04,
    assignVals, hasErr, Bool.false_eq_true, reduceIte, List.length, bindAll, VaxisModel.Model.GoInterp.bind, String.reduceEq, or_self,
    @eq_comm _ (65 : Int) b, @eq_comm _ (66 : Int) b, @eq_comm _ (67 : Int) b, @eq_comm _ (68 : Int) b, @eq_comm _ (69 : Int) b, @eq_comm _ (70 : Int) b, @eq_comm _ (72 : Int) b, @eq_comm _ (80 : Int) b, @eq_comm _ (81 : Int) b, @eq_comm _ (82 : Int) b, @eq_comm _ (83 : Int) b]
  simp only [decodeRaw, lookup, ss3Keys]
  by_cases h65 : b = 65
  · simp only [h65, Int.reduceEq, reduceIte, afterSwitch_norm, andThen_norm, KeyUp]
    exact ⟨_, rfl, by keyenv h⟩
  by_cases h66 : b = 66
  · simp only [h66, Int.reduceEq, reduceIte, afterSwitch_norm, andThen_norm, KeyDown]
    exact ⟨_, rfl, by keyenv h⟩
  by_cases h67 : b = 67
  · simp only [h67, Int.reduceEq, reduceIte, afterSwitch_norm, andThen_norm, KeyRight]
    exact ⟨_, rfl, by keyenv h⟩
  by_cases h68 : b = 68
  · simp only [h68, Int.reduceEq, reduceIte, afterSwitch_norm, andThen_norm, KeyLeft]
    exact ⟨_, rfl, by keyenv h⟩
  by_cases h69 : b = 69
  · simp only [h69, Int.reduceEq, reduceIte, afterSwitch_norm, andThen_norm, KeyKeyPadBegin]
    exact ⟨_, rfl, by keyenv h⟩
  by_cases h70 : b = 70
  · simp only [h70, Int.reduceEq, reduceIte, afterSwitch_norm, andThen_norm, KeyEnd]
    exact ⟨_, rfl, by keyenv h⟩
  by_cases h72 : b = 72
  · simp only [h72, Int.reduceEq, reduceIte, afterSwitch_norm, andThen_norm, KeyHome]
    exact ⟨_, rfl, by keyenv h⟩
  by_cases h80 : b = 80
  · simp only [h80, Int.reduceEq, reduceIte, afterSwitch_norm, andThen_norm, KeyF01]
    exact ⟨_, rfl, by keyenv h⟩
  by_cases h81 : b = 81
  · simp only [h81, Int.reduceEq, reduceIte, afterSwitch_norm, andThen_norm, KeyF02]
    exact ⟨_, rfl, by keyenv h⟩
  by_cases h82 : b = 82
  · simp only [h82, Int.reduceEq, reduceIte, afterSwitch_norm, andThen_norm, KeyF03]
    exact ⟨_, rfl, by keyenv h⟩
  by_cases h83 : b = 83
  · simp only [h83, Int.reduceEq, reduceIte, afterSwitch_norm, andThen_norm, KeyF04]
    exact ⟨_, rfl, by keyenv h⟩
  simp only [h65, h66, h67, h68, h69, h70, h72, h80, h81, h82, h83, reduceIte, afterSwitch_norm]
  exact ⟨_, rfl, h⟩

/-! ### The CSI arm -/

theorem lookupKey_map2 (a b : Int) (t : List ((Int × Int) × Int)) :
    lookupKey [a, b] (t.map fun e => ([e.1.1, e.1.2], e.2)) = lookup2 (a, b) t := by
  induction t with
  | nil => rfl
  | cons e t ih =>
    obtain ⟨⟨a', b'⟩, v⟩ := e
    simp only [List.map, lookupKey, lookup2, ih, List.cons.injEq, and_true]

def codesStep (fin : Int) (ps : Int) (j : Nat) (key : Key) : Key :=
  match j with
  | 0 =>
    let code := toRune ps
    if code = 1 ∧ fin = 90 then { key with keycode := KeyTab, mods := ModShift }
    else match lookup2 (code, fin) specialsKeys with
      | some k => { key with keycode := k }
      | none => { key with keycode := code }
  | 1 => { key with shifted := toRune ps }
  | 2 => { key with base := toRune ps }
  | _ => key

theorem csiCodes_iter (fin : Int) (pm : List Int) : ∀ (j : Nat) (key : Key),
    csiCodes fin pm j key = iter (codesStep fin) pm j key := by
  induction pm with
  | nil => intro j key; rfl
  | cons ps rest ih =>
    intro j key
    have e : csiCodes fin (ps :: rest) j key = csiCodes fin rest (j + 1) (codesStep fin ps j key) := by
      rcases j with _ | _ | _ | n <;> rfl
    rw [e, iter, ih]

def CsiInv (fin : Int) (E : Env) (key : Key) : Prop := KeyEnv E key ∧ E.lookup "seq.Final" = some (.int fin)

theorem codes_body (u : Uni) (fin : Int) (E : Env) (key : Key) (ps : Int) (j : Nat) (o : Str) (h : CsiInv fin E key) :
    ∃ E', CsiInv fin E' (codesStep fin ps j key) ∧
      (execSs (ctx u noFuncs) (.cons codesSwitch .nil)
          { env := VaxisModel.Model.GoInterp.bind "ps" (.int ps) (VaxisModel.Model.GoInterp.bind "j" (.int j) E), out := o } = .norm { env := E', out := o } ∨
       execSs (ctx u noFuncs) (.cons codesSwitch .nil)
          { env := VaxisModel.Model.GoInterp.bind "ps" (.int ps) (VaxisModel.Model.GoInterp.bind "j" (.int j) E), out := o } = .cont { env := E', out := o }) := by
  obtain ⟨hk, hf⟩ := h
  have f1 := hk.fresh "KeyTab" (by simp [dkFresh])
  have f2 := hk.fresh "ModShift" (by simp [dkFresh])
  have f3 := hk.fresh "specialsKeys" (by simp [dkFresh])
  unfold codesSwitch
  simp only [Ss.ofList, Es.ofList, Cs.ofList, execSs_cons, execSs_nil, execS, evalE, evalEs, andThen_norm, VaxisModel.Model.GoInterp.bind,
    String.reduceEq, or_self, reduceIte, List.lookup, String.reduceBEq, execCs, execDefault, labelHit, binop_eq_int, isTrue_bool, Bool.or_false, decide_eq_true_eq]
  rcases j with _ | _ | _ | n
  · by_cases hTab : toRune ps = 1 ∧ fin = 90
    · obtain ⟨hT1, rfl⟩ := hTab
      simp only [Int.natCast_zero, reduceIte, lhsNames, Option.map, litValue, String.reduceEq, callFn_rune, hf, ctx_structs, ctx_consts, ctx_maps, ctx_funcs, noFuncs, f1, f2, f3, const_KeyTab, const_ModShift,
        List.lookup, String.reduceBEq, List.isEmpty, List.length, List.map, List.zip, List.zipWith, Bool.false_eq_true, assignVals, hasErr, bindAll, VaxisModel.Model.GoInterp.bind, or_self,
        List.cons_append, List.nil_append, String.reduceAppend, andThen_norm, andThen_cont, afterSwitch_cont, afterSwitch_norm, binop_eq_int, binop_land, branch_bool, Bool.and_eq_true, decide_eq_true_eq,
        zeroOf, mapIndex, V.asKey, List.foldr, lookupKey_map2, List.any, Bool.or_false, unop_not, or_true, true_or, or_false, false_or, hT1, and_self, Bool.not_eq_true', Bool.not_eq_eq_eq_not, Bool.not_true, Bool.not_false]
      refine ⟨_, ?_, Or.inr rfl⟩
      refine ⟨?_, by simpa [List.lookup] using hf⟩
      simp only [codesStep, hT1, and_self, reduceIte]
      keyenv hk
    · simp only [Int.natCast_zero, reduceIte, lhsNames, Option.map, litValue, String.reduceEq, callFn_rune, hf, ctx_structs, ctx_consts, ctx_maps, ctx_funcs, noFuncs, f1, f2, f3, const_KeyTab, const_ModShift,
        List.lookup, String.reduceBEq, List.isEmpty, List.length, List.map, List.zip, List.zipWith, Bool.false_eq_true, assignVals, hasErr, bindAll, VaxisModel.Model.GoInterp.bind, or_self,
        List.cons_append, List.nil_append, String.reduceAppend, andThen_norm, andThen_cont, afterSwitch_cont, afterSwitch_norm, binop_eq_int, binop_land, branch_bool, Bool.and_eq_true, decide_eq_true_eq,
        zeroOf, mapIndex, V.asKey, List.foldr, lookupKey_map2, List.any, Bool.or_false, unop_not, or_true, true_or, or_false, false_or, hTab, and_self, Bool.not_eq_true', Bool.not_eq_eq_eq_not, Bool.not_true, Bool.not_false]
      simp only [codesStep, hTab, reduceIte]
      generalize lookup2 (toRune ps, fin) specialsKeys = r
      cases r with
      | none =>
        simp only [Option.isSome, Option.getD, reduceIte, andThen_norm, afterSwitch_norm]
        exact ⟨_, ⟨by keyenv hk, by simpa [List.lookup] using hf⟩, Or.inl rfl⟩
      | some kk =>
        simp only [Option.isSome, Option.getD, reduceIte, andThen_norm, afterSwitch_norm, Bool.true_eq_false]
        exact ⟨_, ⟨by keyenv hk, by simpa [List.lookup] using hf⟩, Or.inl rfl⟩
  · have c1 : (((0 + 1 : Nat)) : Int) = 1 := rfl
    simp only [c1, Int.reduceEq, reduceIte, lhsNames, Option.map, ctx_funcs, noFuncs, callFn_rune, List.lookup, String.reduceBEq,
      assignVals, hasErr, Bool.false_eq_true, List.length, bindAll, VaxisModel.Model.GoInterp.bind, String.reduceEq, or_self, andThen_norm, afterSwitch_norm]
    refine ⟨_, ⟨?_, by simpa [List.lookup] using hf⟩, Or.inl rfl⟩
    simp only [codesStep]
    keyenv hk
  · have c2 : (((0 + 1 + 1 : Nat)) : Int) = 2 := rfl
    simp only [c2, Int.reduceEq, reduceIte, lhsNames, Option.map, ctx_funcs, noFuncs, callFn_rune, List.lookup, String.reduceBEq,
      assignVals, hasErr, Bool.false_eq_true, List.length, bindAll, VaxisModel.Model.GoInterp.bind, String.reduceEq, or_self, andThen_norm, afterSwitch_norm]
    refine ⟨_, ⟨?_, by simpa [List.lookup] using hf⟩, Or.inl rfl⟩
    simp only [codesStep]
    keyenv hk
  · have n0 : ¬ (0 : Int) = ((n + 1 + 1 + 1 : Nat) : Int) := by omega
    have n1 : ¬ (1 : Int) = ((n + 1 + 1 + 1 : Nat) : Int) := by omega
    have n2 : ¬ (2 : Int) = ((n + 1 + 1 + 1 : Nat) : Int) := by omega
    simp only [n0, n1, n2, reduceIte, afterSwitch_norm, andThen_norm]
    refine ⟨_, ⟨?_, by simpa [List.lookup] using hf⟩, Or.inl rfl⟩
    simp only [codesStep]
    keyenv hk

theorem codes_loop (u : Uni) (fin : Int) (pm : List Int) (E : Env) (key : Key) (o : Str) (h : CsiInv fin E key)
    (hpm : E.lookup "pm" = some (.ints pm)) :
    ∃ E', execS (ctx u noFuncs) codesLoop { env := E, out := o } = .norm { env := E', out := o } ∧
      CsiInv fin E' (csiCodes fin pm 0 key) := by
  unfold codesLoop
  simp only [execS, rangeItems, hpm, evalE]
  rw [csiCodes_iter]
  exact loop_inv _ (CsiInv fin) (codesStep fin) V.int (fun E s a i o hP => codes_body u fin E s a i o hP) pm 0 E key o h

theorem callFn_ModifierMask (c : Ctx) (env : Env) (r : Int) : callFn c env "ModifierMask" [.int r] = .int r := rfl
theorem callFn_EventType (c : Ctx) (env : Env) (r : Int) : callFn c env "EventType" [.int r] = .int r := rfl

def modsStep (p0 : Int) (ps : Int) (j : Nat) (key : Key) : Key :=
  match j with
  | 0 => { key with mods := (p0 - 1).toNat }
  | 1 => { key with event := ps - 1 }
  | _ => key

theorem csiMods_iter (pm : List Int) (l : List Int) : ∀ (j : Nat) (key : Key),
    csiMods pm l j key = iter (modsStep (pm.headD 0)) l j key := by
  induction l with
  | nil => intro j key; rfl
  | cons ps rest ih =>
    intro j key
    have e : csiMods pm (ps :: rest) j key = csiMods pm rest (j + 1) (modsStep (pm.headD 0) ps j key) := by
      rcases j with _ | _ | n <;> rfl
    rw [e, iter, ih]

def ModsInv (fin p0 : Int) (pt : List Int) (E : Env) (key : Key) : Prop :=
  CsiInv fin E key ∧ E.lookup "pm" = some (.ints (p0 :: pt))

theorem mods_body (u : Uni) (fin p0 : Int) (pt : List Int) (E : Env) (key : Key) (ps : Int) (j : Nat) (o : Str) (h : ModsInv fin p0 pt E key) :
    ∃ E', ModsInv fin p0 pt E' (modsStep p0 ps j key) ∧
      (execSs (ctx u noFuncs) (.cons modsSwitch .nil)
          { env := VaxisModel.Model.GoInterp.bind "ps" (.int ps) (VaxisModel.Model.GoInterp.bind "j" (.int j) E), out := o } = .norm { env := E', out := o } ∨
       execSs (ctx u noFuncs) (.cons modsSwitch .nil)
          { env := VaxisModel.Model.GoInterp.bind "ps" (.int ps) (VaxisModel.Model.GoInterp.bind "j" (.int j) E), out := o } = .cont { env := E', out := o }) := by
  obtain ⟨⟨hk, hf⟩, hpm⟩ := h
  unfold modsSwitch
  simp only [Ss.ofList, Es.ofList, Cs.ofList, execSs_cons, execSs_nil, execS, evalE, evalEs, andThen_norm, VaxisModel.Model.GoInterp.bind,
    String.reduceEq, or_self, reduceIte, List.lookup, String.reduceBEq, execCs, execDefault, labelHit, binop_eq_int, isTrue_bool, Bool.or_false, decide_eq_true_eq]
  rcases j with _ | _ | n
  · simp only [Int.natCast_zero, reduceIte, lhsNames, Option.map, ctx_funcs, noFuncs, ctx_maps, hpm, List.lookup, String.reduceBEq, listIndex,
      Int.le_refl, Int.toNat_zero, List.getElem?_cons_zero, binop_sub, callFn_ModifierMask, assignVals, hasErr, Bool.false_eq_true, List.length, bindAll,
      VaxisModel.Model.GoInterp.bind, String.reduceEq, or_self, andThen_norm, binop_lt, branch_bool, decide_eq_true_eq]
    by_cases hneg : p0 - 1 < 0
    · simp only [hneg, reduceIte, andThen_norm, afterSwitch_norm]
      refine ⟨_, ⟨⟨?_, by simpa [List.lookup] using hf⟩, by simpa [List.lookup] using hpm⟩, Or.inl rfl⟩
      have e0 : (p0 - 1).toNat = 0 := by omega
      simp only [modsStep, e0]
      keyenv hk
    · simp only [hneg, reduceIte, andThen_norm, afterSwitch_norm]
      refine ⟨_, ⟨⟨?_, by simpa [List.lookup] using hf⟩, by simpa [List.lookup] using hpm⟩, Or.inl rfl⟩
      obtain ⟨m, hm⟩ : ∃ m : Nat, p0 - 1 = (m : Int) := ⟨(p0 - 1).toNat, by omega⟩
      simp only [modsStep, hm, Int.toNat_natCast]
      keyenv hk
  · have c1 : (((0 + 1 : Nat)) : Int) = 1 := rfl
    simp only [c1, Int.reduceEq, reduceIte, lhsNames, Option.map, ctx_funcs, noFuncs, callFn_EventType, binop_sub, List.lookup, String.reduceBEq,
      assignVals, hasErr, Bool.false_eq_true, List.length, bindAll, VaxisModel.Model.GoInterp.bind, String.reduceEq, or_self, andThen_norm, afterSwitch_norm]
    refine ⟨_, ⟨⟨?_, by simpa [List.lookup] using hf⟩, by simpa [List.lookup] using hpm⟩, Or.inl rfl⟩
    simp only [modsStep]
    keyenv hk
  · have n0 : ¬ (0 : Int) = ((n + 1 + 1 : Nat) : Int) := by omega
    have n1 : ¬ (1 : Int) = ((n + 1 + 1 : Nat) : Int) := by omega
    simp only [n0, n1, reduceIte, afterSwitch_norm, andThen_norm]
    refine ⟨_, ⟨⟨?_, by simpa [List.lookup] using hf⟩, by simpa [List.lookup] using hpm⟩, Or.inl rfl⟩
    simp only [modsStep]
    keyenv hk

theorem mods_loop (u : Uni) (fin : Int) (pm : List Int) (E : Env) (key : Key) (o : Str) (h : CsiInv fin E key)
    (hpm : E.lookup "pm" = some (.ints pm)) :
    ∃ E', execS (ctx u noFuncs) modsLoop { env := E, out := o } = .norm { env := E', out := o } ∧
      CsiInv fin E' (csiMods pm pm 0 key) := by
  unfold modsLoop
  simp only [execS, rangeItems, hpm, evalE]
  cases pm with
  | nil => exact ⟨E, rfl, h⟩
  | cons p0 pt =>
    rw [csiMods_iter]
    obtain ⟨E', e, hE'⟩ := loop_inv (fun st' it i => execSs (ctx u noFuncs) (.cons modsSwitch .nil) { st' with env := VaxisModel.Model.GoInterp.bind "ps" it (VaxisModel.Model.GoInterp.bind "j" (.int i) st'.env) }) (ModsInv fin p0 pt) (modsStep p0) V.int (fun E s a i o hP => mods_body u fin p0 pt E s a i o hP) (p0 :: pt) 0 E key o ⟨h, hpm⟩
    exact ⟨E', e, hE'.1⟩

/-! the text loop -/

def textStep (p : Int) (_ : Nat) (key : Key) : Key := { key with text := key.text ++ strOfRune (toRune p) }

theorem text_iter (pm : List Int) : ∀ (j : Nat) (key : Key),
    iter textStep pm j key = { key with text := key.text ++ (pm.map fun p => if validRune (toRune p) then toRune p else 0xFFFD) } := by
  induction pm with
  | nil => intro j key; simp [iter]
  | cons p rest ih =>
    intro j key
    rw [iter, ih]
    simp [textStep, strOfRune_eq]

theorem text_body (u : Uni) (fin : Int) (E : Env) (key : Key) (p : Int) (j : Nat) (o : Str) (h : CsiInv fin E key) :
    ∃ E', CsiInv fin E' (textStep p j key) ∧
      (execSs (ctx u noFuncs) (.cons textAssign .nil)
          { env := VaxisModel.Model.GoInterp.bind "p" (.int p) (VaxisModel.Model.GoInterp.bind "_" (.int j) E), out := o } = .norm { env := E', out := o } ∨
       execSs (ctx u noFuncs) (.cons textAssign .nil)
          { env := VaxisModel.Model.GoInterp.bind "p" (.int p) (VaxisModel.Model.GoInterp.bind "_" (.int j) E), out := o } = .cont { env := E', out := o }) := by
  obtain ⟨hk, hf⟩ := h
  unfold textAssign
  simp only [Ss.ofList, Es.ofList, execSs_cons, execSs_nil, execS, evalE, evalEs, andThen_norm, VaxisModel.Model.GoInterp.bind,
    String.reduceEq, or_self, or_true, true_or, reduceIte, List.lookup, String.reduceBEq, lhsNames, Option.map, ctx_funcs, noFuncs, callFn_rune, callFn_string,
    assignVals, hasErr, Bool.false_eq_true, hk.text, binop_add_str]
  refine ⟨_, ⟨?_, by simpa [List.lookup] using hf⟩, Or.inl rfl⟩
  simp only [textStep]
  keyenv hk

theorem callFn_len_ints (c : Ctx) (env : Env) (l : List Int) : callFn c env "len" [.ints l] = .int l.length := rfl
theorem callFn_len_intss (c : Ctx) (env : Env) (l : List (List Int)) : callFn c env "len" [.intss l] = .int l.length := rfl

theorem text_loop (u : Uni) (fin : Int) (pm : List Int) (E : Env) (key : Key) (o : Str) (h : CsiInv fin E key)
    (hpm : E.lookup "pm" = some (.ints pm)) :
    ∃ E', execS (ctx u noFuncs) textLoop { env := E, out := o } = .norm { env := E', out := o } ∧
      CsiInv fin E' { key with text := key.text ++ (pm.map fun p => if validRune (toRune p) then toRune p else 0xFFFD) } := by
  unfold textLoop
  simp only [execS, rangeItems, hpm, evalE]
  rw [← text_iter pm 0 key]
  exact loop_inv _ (CsiInv fin) textStep V.int (fun E s a i o hP => text_body u fin E s a i o hP) pm 0 E key o h

def outerStep (fin : Int) (pm : List Int) (i : Nat) (key : Key) : Key :=
  match i with
  | 0 => csiCodes fin pm 0 key
  | 1 => csiMods pm pm 0 key
  | 2 =>
    if key.keycode = 27 ∧ fin = 126 ∧ pm ≠ [] then { key with keycode := toRune (pm.headD 0) }
    else { key with text := key.text ++ (pm.map fun p => if validRune (toRune p) then toRune p else 0xFFFD) }
  | _ => key

theorem csiParams_iter (fin : Int) (params : List (List Int)) : ∀ (i : Nat) (key : Key),
    csiParams fin params i key = iter (outerStep fin) params i key := by
  induction params with
  | nil => intro i key; rfl
  | cons pm rest ih =>
    intro i key
    have e : csiParams fin (pm :: rest) i key = csiParams fin rest (i + 1) (outerStep fin pm i key) := by
      rcases i with _ | _ | _ | n <;> rfl
    rw [e, iter, ih]

theorem text_if (u : Uni) (fin : Int) (pm : List Int) (E : Env) (key : Key) (o : Str) (h : CsiInv fin E key)
    (hpm : E.lookup "pm" = some (.ints pm)) :
    ∃ E', execS (ctx u noFuncs) textIf { env := E, out := o } = .norm { env := E', out := o } ∧
      CsiInv fin E' (outerStep fin pm 2 key) := by
  obtain ⟨hk, hf⟩ := h
  unfold textIf
  simp only [Ss.ofList, Es.ofList, execS, execSs_nil, andThen_norm, evalE, evalEs, hk.keycode, hf, hpm, callFn_len_ints, binop_eq_int, binop_gt, binop_land,
    branch_bool, Bool.and_eq_true, decide_eq_true_eq, outerStep]
  by_cases hc : key.keycode = 27 ∧ fin = 126 ∧ pm ≠ []
  · obtain ⟨h27, rfl, hne⟩ := hc
    cases pm with
    | nil => exact absurd rfl hne
    | cons p0 pt =>
      have hlen : ((pt.length + 1 : Nat) : Int) > 0 := by omega
      simp only [h27, hlen, and_self, true_and, and_true, reduceIte, ne_eq, reduceCtorEq, not_false_eq_true, List.headD_cons, execSs_cons, execSs_nil, execS, lhsNames, Option.map,
        evalE, evalEs, ctx_funcs, noFuncs, ctx_maps, hpm, List.lookup, String.reduceBEq, listIndex, Int.le_refl, Int.toNat_zero, List.getElem?_cons_zero, callFn_rune,
        assignVals, hasErr, Bool.false_eq_true, List.length, bindAll, VaxisModel.Model.GoInterp.bind, String.reduceEq, or_self, andThen_norm]
      refine ⟨_, rfl, ?_, by simpa [List.lookup] using hf⟩
      keyenv hk
  · have hc' : ¬ ((key.keycode = 27 ∧ fin = 126) ∧ (pm.length : Int) > 0) := by
      rintro ⟨⟨a, b⟩, c⟩
      apply hc
      refine ⟨a, b, ?_⟩
      rintro rfl
      simp at c
    simp only [hc, hc', reduceIte, execSs_cons, execSs_nil]
    obtain ⟨E', e, hE'⟩ := text_loop u fin pm E key o ⟨hk, hf⟩ hpm
    exact ⟨E', by rw [e, andThen_norm], hE'⟩

theorem outer_body (u : Uni) (fin : Int) (E : Env) (key : Key) (pm : List Int) (i : Nat) (o : Str) (h : CsiInv fin E key) :
    ∃ E', CsiInv fin E' (outerStep fin pm i key) ∧
      (execSs (ctx u noFuncs) (.cons csiSwitch .nil)
          { env := VaxisModel.Model.GoInterp.bind "pm" (.ints pm) (VaxisModel.Model.GoInterp.bind "i" (.int i) E), out := o } = .norm { env := E', out := o } ∨
       execSs (ctx u noFuncs) (.cons csiSwitch .nil)
          { env := VaxisModel.Model.GoInterp.bind "pm" (.ints pm) (VaxisModel.Model.GoInterp.bind "i" (.int i) E), out := o } = .cont { env := E', out := o }) := by
  have h0 : CsiInv fin (("pm", V.ints pm) :: ("i", V.int i) :: E) key := ⟨by have hk := h.1; keyenv hk, by simpa [List.lookup] using h.2⟩
  have hpm : List.lookup "pm" (("pm", V.ints pm) :: ("i", V.int i) :: E) = some (.ints pm) := by simp [List.lookup]
  unfold csiSwitch
  simp only [Ss.ofList, Es.ofList, Cs.ofList, execSs_cons, execSs_nil, execS, evalE, andThen_norm, VaxisModel.Model.GoInterp.bind,
    String.reduceEq, or_self, reduceIte, List.lookup, String.reduceBEq, execCs, execDefault, labelHit, binop_eq_int, isTrue_bool, Bool.or_false, decide_eq_true_eq]
  rcases i with _ | _ | _ | n
  · obtain ⟨E', e, hE'⟩ := codes_loop u fin pm _ key o h0 hpm
    simp only [Int.natCast_zero] at e
    simp only [Int.natCast_zero, reduceIte, e, andThen_norm, afterSwitch_norm]
    exact ⟨E', hE', Or.inl rfl⟩
  · obtain ⟨E', e, hE'⟩ := mods_loop u fin pm _ key o h0 hpm
    have c1 : (((0 + 1 : Nat)) : Int) = 1 := rfl
    simp only [c1] at e
    simp only [c1, Int.reduceEq, reduceIte, e, andThen_norm, afterSwitch_norm]
    exact ⟨E', hE', Or.inl rfl⟩
  · obtain ⟨E', e, hE'⟩ := text_if u fin pm _ key o h0 hpm
    have c2 : (((0 + 1 + 1 : Nat)) : Int) = 2 := rfl
    simp only [c2] at e
    simp only [c2, Int.reduceEq, reduceIte, e, andThen_norm, afterSwitch_norm]
    exact ⟨E', hE', Or.inl rfl⟩
  · have n0 : ¬ (0 : Int) = ((n + 1 + 1 + 1 : Nat) : Int) := by omega
    have n1 : ¬ (1 : Int) = ((n + 1 + 1 + 1 : Nat) : Int) := by omega
    have n2 : ¬ (2 : Int) = ((n + 1 + 1 + 1 : Nat) : Int) := by omega
    simp only [n0, n1, n2, reduceIte, afterSwitch_norm]
    exact ⟨_, h0, Or.inl rfl⟩

theorem csi_loop (u : Uni) (fin : Int) (params : List (List Int)) (E : Env) (key : Key) (o : Str) (h : CsiInv fin E key)
    (hp : E.lookup "seq.Parameters" = some (.intss params)) :
    ∃ E', execS (ctx u noFuncs) csiLoop { env := E, out := o } = .norm { env := E', out := o } ∧
      CsiInv fin E' (csiParams fin params 0 key) := by
  unfold csiLoop
  simp only [execS, rangeItems, hp, evalE]
  rw [csiParams_iter]
  exact loop_inv _ (CsiInv fin) (outerStep fin) V.ints (fun E s a i o hP => outer_body u fin E s a i o hP) params 0 E key o h

theorem arm_csi (u : Uni) (params : List (List Int)) (fin : Int) (E : Env) (o : Str) (h : KeyEnv E {})
    (hf : E.lookup "seq.Final" = some (.int fin)) (hp : E.lookup "seq.Parameters" = some (.intss params)) :
    ∃ E', afterSwitch (execSs (ctx u noFuncs) csiBody { env := E, out := o }) = .norm { env := E', out := o } ∧
      KeyEnv E' (decodeRaw u (.csi params fin)) := by
  unfold csiBody csiIf
  simp only [Ss.ofList, Es.ofList, execSs_cons, execSs_nil, execS, andThen_norm, evalE, evalEs, hp, callFn_len_intss, binop_eq_int, branch_bool,
    decide_eq_true_eq, decodeRaw]
  cases params with
  | nil =>
    simp only [List.length, Int.natCast_zero, reduceIte, lhsNames, Option.map, litValue, String.reduceEq, List.foldr, assignVals, hasErr, Bool.false_eq_true,
      bindAll, VaxisModel.Model.GoInterp.bind, or_self, andThen_norm]
    obtain ⟨E', e, hE'⟩ := csi_loop u fin [[1]] (("seq.Parameters", V.intss [[1]]) :: E) {} o
      ⟨by keyenv h, by simpa [List.lookup] using hf⟩ (by simp [List.lookup])
    exact ⟨E', by rw [e, andThen_norm, afterSwitch_norm], hE'.1⟩
  | cons p0 pt =>
    have hlen : ¬ ((pt.length + 1 : Nat) : Int) = 0 := by omega
    simp only [List.length, hlen, reduceIte, reduceCtorEq]
    obtain ⟨E', e, hE'⟩ := csi_loop u fin (p0 :: pt) E {} o ⟨h, hf⟩ hp
    exact ⟨E', by simp only [andThen_norm, e, afterSwitch_norm], hE'.1⟩

def baseEnv (s : Seq) : Env :=
  ("key", .struct keyStruct) :: ("key.Text", .str []) :: ("key.Keycode", .int 0) :: ("key.ShiftedCode", .int 0) ::
    ("key.BaseLayoutCode", .int 0) :: ("key.Modifiers", .int 0) :: ("key.EventType", .int 0) :: [("seq", seqValue s)]

theorem dS1_eval (u : Uni) (s : Seq) :
    execS (ctx u noFuncs) dS1 { env := [("seq", seqValue s)] } = .norm { env := baseEnv s } := by
  unfold dS1
  simp only [Es.ofList, execS, lhsNames, Option.map, evalEs, evalE, litValue, String.reduceEq, reduceIte, ctx_structs,
    List.lookup, String.reduceBEq, List.isEmpty, assignVals, hasErr, Bool.false_eq_true, List.length, bindAll]
  rfl

theorem dS2_print (u : Uni) (g : Str) :
    execS (ctx u noFuncs) dS2 { env := baseEnv (.print g) } =
      afterSwitch (execSs (ctx u noFuncs) printBody { env := armEnv [("seq.Grapheme", .str g)] (.struct [("Grapheme", .str g)]) (.print g) }) := by
  unfold dS2
  simp only [Cs.ofList, Es.ofList, execS, evalE, baseEnv, List.lookup, String.reduceBEq, seqValue, VaxisModel.Model.GoInterp.bind, String.reduceEq, or_self, reduceIte,
    List.map, String.reduceAppend, List.cons_append, List.nil_append, execTy, tyHit, Bool.or_false, Bool.or_true, Bool.false_eq_true]
  rfl

theorem dS2_c0 (u : Uni) (b : Int) :
    execS (ctx u noFuncs) dS2 { env := baseEnv (.c0 b) } =
      afterSwitch (execSs (ctx u noFuncs) c0Body { env := armEnv [] (.int b) (.c0 b) }) := by
  unfold dS2
  simp only [Cs.ofList, Es.ofList, execS, evalE, baseEnv, List.lookup, String.reduceBEq, seqValue, VaxisModel.Model.GoInterp.bind, String.reduceEq, or_self, reduceIte,
    List.map, String.reduceAppend, List.cons_append, List.nil_append, execTy, tyHit, Bool.or_false, Bool.or_true, Bool.false_eq_true]
  rfl

theorem dS2_esc (u : Uni) (fin : Int) :
    execS (ctx u noFuncs) dS2 { env := baseEnv (.esc fin) } =
      afterSwitch (execSs (ctx u noFuncs) escBody { env := armEnv [("seq.Final", .int fin)] (.struct [("Final", .int fin)]) (.esc fin) }) := by
  unfold dS2
  simp only [Cs.ofList, Es.ofList, execS, evalE, baseEnv, List.lookup, String.reduceBEq, seqValue, VaxisModel.Model.GoInterp.bind, String.reduceEq, or_self, reduceIte,
    List.map, String.reduceAppend, List.cons_append, List.nil_append, execTy, tyHit, Bool.or_false, Bool.or_true, Bool.false_eq_true]
  rfl

theorem dS2_ss3 (u : Uni) (b : Int) :
    execS (ctx u noFuncs) dS2 { env := baseEnv (.ss3 b) } =
      afterSwitch (execSs (ctx u noFuncs) ss3Body { env := armEnv [] (.int b) (.ss3 b) }) := by
  unfold dS2
  simp only [Cs.ofList, Es.ofList, execS, evalE, baseEnv, List.lookup, String.reduceBEq, seqValue, VaxisModel.Model.GoInterp.bind, String.reduceEq, or_self, reduceIte,
    List.map, String.reduceAppend, List.cons_append, List.nil_append, execTy, tyHit, Bool.or_false, Bool.or_true, Bool.false_eq_true]
  rfl

theorem dS2_csi (u : Uni) (params : List (List Int)) (fin : Int) :
    execS (ctx u noFuncs) dS2 { env := baseEnv (.csi params fin) } =
      afterSwitch (execSs (ctx u noFuncs) csiBody { env := armEnv [("seq.Parameters", .intss params), ("seq.Final", .int fin)] (.struct [("Parameters", .intss params), ("Final", .int fin)]) (.csi params fin) }) := by
  unfold dS2
  simp only [Cs.ofList, Es.ofList, execS, evalE, baseEnv, List.lookup, String.reduceBEq, seqValue, VaxisModel.Model.GoInterp.bind, String.reduceEq, or_self, reduceIte,
    List.map, String.reduceAppend, List.cons_append, List.nil_append, execTy, tyHit, Bool.or_false, Bool.or_true, Bool.false_eq_true]
  rfl

theorem lookup_none_of_keys (fields : Env) (names : List String) (h : ∀ n ∈ fields.map Prod.fst, n ∉ names) :
    ∀ x ∈ names, fields.lookup x = none := by
  induction fields with
  | nil => intro x _; rfl
  | cons p rest ih =>
    intro x hx
    obtain ⟨n, v⟩ := p
    have hn : n ∉ names := h n (by simp)
    have : (x == n) = false := by
      rw [beq_eq_false_iff_ne]; rintro rfl; exact hn hx
    rw [List.lookup_cons, this]
    exact ih (fun m hm => h m (by simp only [List.map_cons, List.mem_cons]; exact Or.inr hm)) x hx

/-- sequences as the parser produces them: `ansi.C0` and `ansi.SS3` are `rune`s (int32) -/
def seqIsRune : Seq → Prop
  | .c0 b => toRune b = b
  | .ss3 b => toRune b = b
  | _ => True

theorem decode_head (u : Uni) (s : Seq) (hs : seqIsRune s) :
    ∃ E, execSs (ctx u noFuncs) (.cons dS1 (.cons dS2 .nil)) { env := [("seq", seqValue s)] } = .norm { env := E, out := [] } ∧
      KeyEnv E (decodeRaw u s) := by
  rw [execSs_cons, dS1_eval, andThen_norm]
  simp only [execSs_cons, execSs_nil]
  cases s with
  | print g =>
    obtain ⟨E', e, hE'⟩ := arm_print u g _ [] (keyEnv_armEnv [("seq.Grapheme", .str g)] (.struct [("Grapheme", .str g)]) (.print g)
      (lookup_none_of_keys _ _ (by simp only [List.map]; decide))) (by rfl)
    exact ⟨E', by rw [dS2_print, e]; rfl, hE'⟩
  | c0 b =>
    obtain ⟨E', e, hE'⟩ := arm_c0 u b hs _ [] (keyEnv_armEnv [] (.int b) (.c0 b) (lookup_none_of_keys _ _ (by simp only [List.map]; decide))) (by rfl)
    exact ⟨E', by rw [dS2_c0, e]; rfl, hE'⟩
  | esc fin =>
    obtain ⟨E', e, hE'⟩ := arm_esc u fin _ [] (keyEnv_armEnv [("seq.Final", .int fin)] (.struct [("Final", .int fin)]) (.esc fin)
      (lookup_none_of_keys _ _ (by simp only [List.map]; decide))) (by rfl)
    exact ⟨E', by rw [dS2_esc, e]; rfl, hE'⟩
  | ss3 b =>
    obtain ⟨E', e, hE'⟩ := arm_ss3 u b hs _ [] (keyEnv_armEnv [] (.int b) (.ss3 b) (lookup_none_of_keys _ _ (by simp only [List.map]; decide))) (by rfl)
    exact ⟨E', by rw [dS2_ss3, e]; rfl, hE'⟩
  | csi params fin =>
    obtain ⟨E', e, hE'⟩ := arm_csi u params fin _ [] (keyEnv_armEnv [("seq.Parameters", .intss params), ("seq.Final", .int fin)]
      (.struct [("Parameters", .intss params), ("Final", .int fin)]) (.csi params fin) (lookup_none_of_keys _ _ (by simp only [List.map]; decide))) (by rfl) (by rfl)
    exact ⟨E', by rw [dS2_csi, e]; rfl, hE'⟩

theorem decodeKey_body_eq (u : Uni) (s : Seq) (hs : seqIsRune s) : decodeKeyGen u s = some (decodeKey u s) := by
  unfold decodeKeyGen
  obtain ⟨E, e, hE⟩ := decode_head u s hs
  rw [decodeKeyBody_eq, execSs_cons2, e, andThen_norm]
  exact decode_tail u E [] _ hE

end VaxisModel.Lemmas.KeyBodyEval
