/-
`Key.MatchString`: the interpreted extracted body (`matchStringGen`) equals the hand model
(`matchString`), given that the interpreted `Key.Matches` it calls equals `matches`
(`Props/C09Body.matches_body_eq_model`).  Slices / indices of the symbolic `strings.Split` result,
the modifier loop (= `parseMods`) and the `keyNames` loop (= `findName`) by induction.
-/
import VaxisModel.Lemmas.KeyBodyEval
set_option linter.unusedSimpArgs false
namespace VaxisModel.Lemmas.KeyBodyEval
open VaxisModel.Model.GoBody VaxisModel.Model.GoInterp VaxisModel.Model.Key VaxisModel.Model.KeyBody
open VaxisModel.Gen.Keys VaxisModel.Lemmas.GoInterp

/-! ### Lists of fields: `vals[len-1]`, `vals[0:len-1]`, … -/

theorem slice_dropLast (l : List Str) (h : l ≠ []) :
    listSlice (.strs l) (.int 0) (.int ((l.length : Int) - 1)) = .strs l.dropLast := by
  have hl : 0 < l.length := List.length_pos_iff.mpr h
  have c : (0 : Int) ≤ 0 ∧ (0 : Int) ≤ (l.length : Int) - 1 ∧ (l.length : Int) - 1 ≤ (l.length : Int) := by omega
  have e : ((l.length : Int) - 1).toNat = l.length - 1 := by omega
  simp only [listSlice, c, and_self, reduceIte, e, Int.toNat_zero, List.drop_zero, List.dropLast_eq_take]

theorem index_last (l : List Str) (h : l ≠ []) :
    listIndex (.strs l) (.int ((l.length : Int) - 1)) = .str (l.getLastD []) := by
  have hl : 0 < l.length := List.length_pos_iff.mpr h
  have c : (0 : Int) ≤ (l.length : Int) - 1 := by omega
  have e : ((l.length : Int) - 1).toNat = l.length - 1 := by omega
  have g : l[l.length - 1]? = some (l.getLastD []) := by
    rw [← List.getLast?_eq_getElem?, List.getLastD_eq_getLast?]
    cases hg : l.getLast? with
    | none => exact absurd (List.getLast?_eq_none_iff.mp hg) h
    | some a => rfl
  simp only [listIndex, c, reduceIte, e, g]

theorem slice_dropLast2 (l : List Str) (h : l.length > 2) :
    listSlice (.strs l) (.int 0) (.int ((l.length : Int) - 2)) = .strs l.dropLast.dropLast := by
  have c : (0 : Int) ≤ 0 ∧ (0 : Int) ≤ (l.length : Int) - 2 ∧ (l.length : Int) - 2 ≤ (l.length : Int) := by omega
  have e : ((l.length : Int) - 2).toNat = l.length - 2 := by omega
  simp only [listSlice, c, and_self, reduceIte, e, Int.toNat_zero, List.drop_zero, List.dropLast_eq_take, List.length_take, List.take_take]
  congr 2
  omega

theorem index_last2 (l : List Str) (h : l.length > 2) :
    listIndex (.strs l) (.int ((l.length : Int) - 2)) = .str (l.dropLast.getLastD [0]) := by
  have c : (0 : Int) ≤ (l.length : Int) - 2 := by omega
  have e : ((l.length : Int) - 2).toNat = l.length - 2 := by omega
  have g : l[l.length - 2]? = some (l.dropLast.getLastD [0]) := by
    rw [List.getLastD_eq_getLast?, List.getLast?_eq_getElem?, List.length_dropLast, List.getElem?_dropLast]
    have : l.length - 1 - 1 < l.length - 1 := by omega
    simp only [this, reduceIte]
    have e2 : l.length - 1 - 1 = l.length - 2 := by omega
    rw [e2]
    have : l.length - 2 < l.length := by omega
    rw [List.getElem?_eq_getElem this]
    rfl
  simp only [listIndex, c, reduceIte, e, g]

theorem binop_land_false (x : V) : binop .land (.bool false) x = .bool false := by
  cases x <;> rfl

theorem splitOn_ne_nil (sep : Int) (s : Str) : splitOn sep s ≠ [] := by
  induction s with
  | nil => simp [splitOn]
  | cons c rest ih =>
    simp only [splitOn]
    split
    · simp
    · split <;> simp

theorem utf8Len_pos (r : Int) : 0 < utf8Len r := by
  unfold utf8Len; split <;> (try split) <;> (try split) <;> omega

theorem strLen_nonneg (s : Str) : 0 ≤ strLen s := by
  induction s with
  | nil => simp [strLen]
  | cons r t ih => have := utf8Len_pos r; simp only [strLen]; omega

/-! ### The statements of the body -/

def mS1 : S := (.ifS .nil (.bin .eq (.var "tgt") (.str [])) (Ss.ofList [(.ret (Es.ofList [.ff]))]) .nil)
def mS2 : S :=
    (.ifS (Ss.ofList [(.assign .define (Es.ofList [(.var "r"), (.var "n")]) (Es.ofList [(.call "utf8.DecodeRuneInString" (Es.ofList [(.var "tgt")]))]))]) (.bin .eq (.var "n") (.call "len" (Es.ofList [(.var "tgt")]))) (Ss.ofList [
      (.ret (Es.ofList [(.call "k.Matches" (Es.ofList [(.var "r")]))]))]) .nil)
def mS3 : S := (.assign .define (Es.ofList [(.var "vals")]) (Es.ofList [(.call "strings.Split" (Es.ofList [(.var "tgt"), (.str [43])]))]))
def mS4 : S := (.assign .define (Es.ofList [(.var "mods")]) (Es.ofList [(.slc (.var "vals") (.int 0) (.bin .sub (.call "len" (Es.ofList [(.var "vals")])) (.int 1)))]))
def mS5 : S := (.assign .define (Es.ofList [(.var "key")]) (Es.ofList [(.idx (.var "vals") (.bin .sub (.call "len" (Es.ofList [(.var "vals")])) (.int 1)))]))
def mS6 : S :=
    (.ifS .nil (.bin .land (.bin .land (.bin .eq (.var "key") (.str [])) (.bin .gt (.call "len" (Es.ofList [(.var "vals")])) (.int 2))) (.bin .eq (.idx (.var "vals") (.bin .sub (.call "len" (Es.ofList [(.var "vals")])) (.int 2))) (.str []))) (Ss.ofList [
      (.assign .set (Es.ofList [(.var "key")]) (Es.ofList [(.str [43])])),
      (.assign .set (Es.ofList [(.var "mods")]) (Es.ofList [(.slc (.var "vals") (.int 0) (.bin .sub (.call "len" (Es.ofList [(.var "vals")])) (.int 2)))]))]) .nil)
def mS7 : S := (.varDecl "mask" "ModifierMask")
def modSwitch : S :=
      (.switchS .nil (.call "strings.ToLower" (Es.ofList [(.var "m")])) (Cs.ofList [
        ((Es.ofList [(.str [115, 104, 105, 102, 116])]), (Ss.ofList [
          (.assign .orSet (Es.ofList [(.var "mask")]) (Es.ofList [(.var "ModShift")]))])),
        ((Es.ofList [(.str [97, 108, 116])]), (Ss.ofList [
          (.assign .orSet (Es.ofList [(.var "mask")]) (Es.ofList [(.var "ModAlt")]))])),
        ((Es.ofList [(.str [99, 116, 114, 108])]), (Ss.ofList [
          (.assign .orSet (Es.ofList [(.var "mask")]) (Es.ofList [(.var "ModCtrl")]))])),
        ((Es.ofList [(.str [115, 117, 112, 101, 114])]), (Ss.ofList [
          (.assign .orSet (Es.ofList [(.var "mask")]) (Es.ofList [(.var "ModSuper")]))])),
        ((Es.ofList [(.str [104, 121, 112, 101, 114])]), (Ss.ofList [
          (.assign .orSet (Es.ofList [(.var "mask")]) (Es.ofList [(.var "ModHyper")]))])),
        ((Es.ofList [(.str [109, 101, 116, 97])]), (Ss.ofList [
          (.assign .orSet (Es.ofList [(.var "mask")]) (Es.ofList [(.var "ModMeta")]))])),
        ((Es.ofList [(.str [99, 97, 112, 115])]), (Ss.ofList [
          (.assign .orSet (Es.ofList [(.var "mask")]) (Es.ofList [(.var "ModCapsLock")]))])),
        ((Es.ofList [(.str [110, 117, 109])]), (Ss.ofList [
          (.assign .orSet (Es.ofList [(.var "mask")]) (Es.ofList [(.var "ModNumLock")]))]))]))
def mS8 : S := .forRange "_" "m" (.var "mods") (.cons modSwitch .nil)
def mS9 : S :=
    (.ifS (Ss.ofList [(.assign .define (Es.ofList [(.var "r"), (.var "n")]) (Es.ofList [(.call "utf8.DecodeRuneInString" (Es.ofList [(.var "key")]))]))]) (.bin .eq (.var "n") (.call "len" (Es.ofList [(.var "key")]))) (Ss.ofList [
      (.ret (Es.ofList [(.call "k.Matches" (Es.ofList [(.var "r"), (.var "mask")]))]))]) .nil)
def namesBody : Ss := (Ss.ofList [
      (.ifS .nil (.un .not (.call "strings.EqualFold" (Es.ofList [(.var "kn.name"), (.var "key")]))) (Ss.ofList [
        .cont]) .nil),
      (.ret (Es.ofList [(.call "k.Matches" (Es.ofList [(.var "kn.key"), (.var "mask")]))]))])
def mS10 : S := .forRange "_" "kn" (.var "keyNames") namesBody
def mS11 : S :=
    (.forRange "_" "r" (.var "key") (Ss.ofList [
      (.ret (Es.ofList [(.call "k.Matches" (Es.ofList [(.var "r"), (.var "mask")]))]))]))
def mS12 : S := (.ret (Es.ofList [.ff]))

theorem matchStringBody_eq : VaxisModel.Gen.KeyBody.matchStringBody =
    .cons mS1 (.cons mS2 (.cons mS3 (.cons mS4 (.cons mS5 (.cons mS6 (.cons mS7 (.cons mS8 (.cons mS9 (.cons mS10 (.cons mS11 (.cons mS12 .nil))))))))))) := rfl

/-- Names that must not be shadowed by local variables while `MatchString` runs. -/
def msFresh : List String :=
  ["ModShift", "ModAlt", "ModCtrl", "ModSuper", "ModHyper", "ModMeta", "ModCapsLock", "ModNumLock", "keyNames"]

/-- the locals `mods`, `key`, `mask` -/
structure MsEnv (E : Env) (mods : List Str) (key : Str) (mask : Nat) : Prop where
  mods : E.lookup "mods" = some (.strs mods)
  key : E.lookup "key" = some (.str key)
  mask : E.lookup "mask" = some (.int (mask : Nat))
  fresh : ∀ x ∈ msFresh, E.lookup x = none

syntax "msenv " ident : tactic
set_option hygiene false in
macro_rules
  | `(tactic| msenv $h:ident) => `(tactic| (
    refine ⟨?_, ?_, ?_, ?_⟩
    · first | (simp [List.lookup]; done) | (simpa [List.lookup] using ($h).mods)
    · first | (simp [List.lookup]; done) | (simpa [List.lookup] using ($h).key)
    · first | (simp [List.lookup]; done) | (simpa [List.lookup] using ($h).mask)
    · intro xfr hxfr
      have hfx := ($h).fresh xfr hxfr
      simp only [msFresh, List.mem_cons, List.not_mem_nil, or_false] at hxfr
      rcases hxfr with rfl | rfl | rfl | rfl | rfl | rfl | rfl | rfl | rfl <;>
        simpa [List.lookup] using hfx))

theorem callFn_len_strs (c : Ctx) (env : Env) (l : List Str) : callFn c env "len" [.strs l] = .int l.length := rfl
theorem callFn_len_str (c : Ctx) (env : Env) (s : Str) : callFn c env "len" [.str s] = .int (strLen s) := rfl
theorem callFn_split (c : Ctx) (env : Env) (s : Str) (sep : Int) : callFn c env "strings.Split" [.str s, .str [sep]] = .strs (splitOn sep s) := rfl
theorem callFn_toLowerStr (c : Ctx) (env : Env) (s : Str) : callFn c env "strings.ToLower" [.str s] = .str (s.map c.u.toLower) := rfl
theorem callFn_equalFold (c : Ctx) (env : Env) (a b : Str) : callFn c env "strings.EqualFold" [.str a, .str b] = .bool (equalFold c.u a b) := rfl
theorem callFn_decode_nil (c : Ctx) (env : Env) : callFn c env "utf8.DecodeRuneInString" [.str []] = .tup [.int 0xFFFD, .int 0] := rfl
theorem callFn_decode_cons (c : Ctx) (env : Env) (r : Int) (t : Str) :
    callFn c env "utf8.DecodeRuneInString" [.str (r :: t)] = .tup [.int r, .int (utf8Len r)] := rfl

/-- the fields `mods` / `key` of the hand model, after the `"Ctrl++"` adjustment -/
def msPlus (l : List Str) : Prop := l.getLastD [] = [] ∧ l.length > 2 ∧ l.dropLast.getLastD [0] = []
instance (l : List Str) : Decidable (msPlus l) := by unfold msPlus; infer_instance
def msMods (l : List Str) : List Str := if msPlus l then l.dropLast.dropLast else l.dropLast
def msKey (l : List Str) : Str := if msPlus l then [43] else l.getLastD []

theorem ms_P1 (u : Uni) (k : Key) (E : Env) (o : Str) (tgt : Str) (ht : E.lookup "tgt" = some (.str tgt))
    (hfr : ∀ x ∈ msFresh, E.lookup x = none) :
    ∃ E', execSs (ctx u (matchesCall u k)) (.cons mS3 (.cons mS4 (.cons mS5 (.cons mS6 (.cons mS7 .nil))))) { env := E, out := o } =
        .norm { env := E', out := o } ∧ MsEnv E' (msMods (splitOn 43 tgt)) (msKey (splitOn 43 tgt)) 0 := by
  have e3 : execS (ctx u (matchesCall u k)) mS3 { env := E, out := o } = .norm { env := ("vals", .strs (splitOn 43 tgt)) :: E, out := o } := by
    unfold mS3
    simp only [Es.ofList, execS, lhsNames, Option.map, evalEs, evalE, ht, ctx_funcs, matchesCall, String.reduceEq, reduceIte,
      callFn_split, assignVals, hasErr, Bool.false_eq_true, List.length, bindAll, VaxisModel.Model.GoInterp.bind, or_self]
  rw [execSs_cons, e3, andThen_norm]
  have hl := splitOn_ne_nil 43 tgt
  generalize splitOn 43 tgt = l at hl ⊢
  have h0 : MsEnv (("mask", V.int ((0 : Nat) : Int)) :: ("key", V.str (l.getLastD [])) :: ("mods", V.strs l.dropLast) :: ("vals", V.strs l) :: E) l.dropLast (l.getLastD []) 0 := by
    refine ⟨by simp [List.lookup], by simp [List.lookup], by simp [List.lookup], ?_⟩
    intro x hx
    have hfx := hfr x hx
    simp only [msFresh, List.mem_cons, List.not_mem_nil, or_false] at hx
    rcases hx with rfl | rfl | rfl | rfl | rfl | rfl | rfl | rfl | rfl <;> simpa [List.lookup] using hfx
  unfold mS4 mS5 mS6 mS7
  simp only [Ss.ofList, Es.ofList, execSs_cons, execSs_nil, execS, lhsNames, Option.map, evalEs, evalE, ctx_funcs, matchesCall, String.reduceEq, reduceIte,
    assignVals, hasErr, Bool.false_eq_true, List.length, bindAll, VaxisModel.Model.GoInterp.bind, or_self, andThen_norm,
    List.lookup, String.reduceBEq, callFn_len_strs, binop_sub, slice_dropLast l hl, index_last l hl, ctx_maps, binop_eq_str, binop_gt, binop_land]
  by_cases hlen : l.length > 2
  · have hlen' : (l.length : Int) > 2 := by omega
    by_cases hp : msPlus l
    · have hp' := hp
      obtain ⟨p1, _, p3⟩ := hp'
      simp only [index_last2 l hlen, slice_dropLast2 l hlen, binop_eq_str, binop_land, branch_bool, p1, p3, hlen', decide_true, Bool.and_self, reduceIte,
        hasErr, Bool.false_eq_true, andThen_norm, zeroOf, String.reduceEq, true_or, VaxisModel.Model.GoInterp.bind, or_self]
      refine ⟨_, rfl, ?_⟩
      simp only [msMods, msKey, hp, reduceIte]
      msenv h0
    · have hc : (decide (l.getLastD [] = []) && decide ((l.length : Int) > 2) && decide (l.dropLast.getLastD [0] = [])) = false := by
        rw [Bool.eq_false_iff]
        intro hh
        simp only [Bool.and_eq_true, decide_eq_true_eq] at hh
        exact hp ⟨hh.1.1, hlen, hh.2⟩
      simp only [index_last2 l hlen, binop_eq_str, binop_land, branch_bool, hc, Bool.false_eq_true, reduceIte,
        andThen_norm, zeroOf, String.reduceEq, true_or, VaxisModel.Model.GoInterp.bind, or_self]
      refine ⟨_, rfl, ?_⟩
      simp only [msMods, msKey, hp, reduceIte]
      exact h0
  · have hlen' : ¬ (l.length : Int) > 2 := by omega
    have hp : ¬ msPlus l := fun hp => hlen hp.2.1
    simp only [hlen', decide_false, Bool.and_false, binop_land_false, branch_bool, Bool.false_eq_true, reduceIte,
      andThen_norm, zeroOf, String.reduceEq, true_or, VaxisModel.Model.GoInterp.bind, or_self]
    refine ⟨_, rfl, ?_⟩
    simp only [msMods, msKey, hp, reduceIte]
    exact h0

def maskBit (u : Uni) (m : Str) : Nat :=
  match lookupStr (m.map u.toLower) matchStringMods with
  | some b => b
  | none => 0

def maskStep (u : Uni) (m : Str) (_ : Nat) (mask : Nat) : Nat := mask ||| maskBit u m

theorem mask_iter (u : Uni) (mods : List Str) : ∀ (i : Nat) (mask : Nat),
    iter (maskStep u) mods i mask = mask ||| parseMods u mods := by
  induction mods with
  | nil => intro i mask; simp [iter, parseMods]
  | cons m rest ih =>
    intro i mask
    rw [iter, ih]
    simp only [maskStep, maskBit, parseMods, Nat.or_assoc]
    rfl

set_option maxHeartbeats 400000 in
theorem ms_mods_body (u : Uni) (k : Key) (mods0 : List Str) (key : Str) (E : Env) (mask : Nat) (m : Str) (i : Nat) (o : Str)
    (h : MsEnv E mods0 key mask) :
    ∃ E', MsEnv E' mods0 key (maskStep u m i mask) ∧
      (execSs (ctx u (matchesCall u k)) (.cons modSwitch .nil)
          { env := VaxisModel.Model.GoInterp.bind "m" (.str m) (VaxisModel.Model.GoInterp.bind "_" (.int i) E), out := o } = .norm { env := E', out := o } ∨
       execSs (ctx u (matchesCall u k)) (.cons modSwitch .nil)
          { env := VaxisModel.Model.GoInterp.bind "m" (.str m) (VaxisModel.Model.GoInterp.bind "_" (.int i) E), out := o } = .cont { env := E', out := o }) := by
  have f0 := h.fresh "ModShift" (by simp [msFresh])
  have f1 := h.fresh "ModAlt" (by simp [msFresh])
  have f2 := h.fresh "ModCtrl" (by simp [msFresh])
  have f3 := h.fresh "ModSuper" (by simp [msFresh])
  have f4 := h.fresh "ModHyper" (by simp [msFresh])
  have f5 := h.fresh "ModMeta" (by simp [msFresh])
  have f6 := h.fresh "ModCapsLock" (by simp [msFresh])
  have f7 := h.fresh "ModNumLock" (by simp [msFresh])
  have hM0 : MsEnv (("m", V.str m) :: E) mods0 key mask := by msenv h
  unfold modSwitch
  simp only [Ss.ofList, Es.ofList, Cs.ofList, execSs_cons, execSs_nil, execS, evalE, evalEs, andThen_norm, VaxisModel.Model.GoInterp.bind,
    String.reduceEq, or_self, or_true, true_or, reduceIte, List.lookup, String.reduceBEq, callFn_toLowerStr, ctx_u, execCs, execDefault, labelHit, binop_eq_str, isTrue_bool,
    Bool.or_false, decide_eq_true_eq, lhsNames, Option.map, f0, f1, f2, f3, f4, f5, f6, f7, ctx_consts, const_ModShift, const_ModAlt, const_ModCtrl, const_ModSuper, const_ModHyper, const_ModMeta, const_ModCapsLock, const_ModNumLock, assignVals, hasErr, Bool.false_eq_true,
    h.mask, binop_bor, Int.toNat_natCast, maskStep, maskBit, lookupStr, matchStringMods]
  generalize m.map u.toLower = lw
  simp only [@eq_comm _ ([115, 104, 105, 102, 116] : Str) lw, @eq_comm _ ([97, 108, 116] : Str) lw, @eq_comm _ ([99, 116, 114, 108] : Str) lw, @eq_comm _ ([115, 117, 112, 101, 114] : Str) lw, @eq_comm _ ([104, 121, 112, 101, 114] : Str) lw, @eq_comm _ ([109, 101, 116, 97] : Str) lw, @eq_comm _ ([99, 97, 112, 115] : Str) lw, @eq_comm _ ([110, 117, 109] : Str) lw]
  by_cases h0 : lw = [115, 104, 105, 102, 116]
  · subst h0
    simp only [List.cons.injEq, Int.reduceEq, and_false, and_self, false_and, List.ne_cons_self, reduceCtorEq, reduceIte, andThen_norm, afterSwitch_norm, ModShift, Int.toNat_natCast, decide_true, decide_false]
    exact ⟨_, by msenv hM0, Or.inl rfl⟩
  by_cases h1 : lw = [97, 108, 116]
  · subst h1
    simp only [List.cons.injEq, Int.reduceEq, and_false, and_self, false_and, List.ne_cons_self, reduceCtorEq, reduceIte, andThen_norm, afterSwitch_norm, ModAlt, Int.toNat_natCast, decide_true, decide_false]
    exact ⟨_, by msenv hM0, Or.inl rfl⟩
  by_cases h2 : lw = [99, 116, 114, 108]
  · subst h2
    simp only [List.cons.injEq, Int.reduceEq, and_false, and_self, false_and, List.ne_cons_self, reduceCtorEq, reduceIte, andThen_norm, afterSwitch_norm, ModCtrl, Int.toNat_natCast, decide_true, decide_false]
    exact ⟨_, by msenv hM0, Or.inl rfl⟩
  by_cases h3 : lw = [115, 117, 112, 101, 114]
  · subst h3
    simp only [List.cons.injEq, Int.reduceEq, and_false, and_self, false_and, List.ne_cons_self, reduceCtorEq, reduceIte, andThen_norm, afterSwitch_norm, ModSuper, Int.toNat_natCast, decide_true, decide_false]
    exact ⟨_, by msenv hM0, Or.inl rfl⟩
  by_cases h4 : lw = [104, 121, 112, 101, 114]
  · subst h4
    simp only [List.cons.injEq, Int.reduceEq, and_false, and_self, false_and, List.ne_cons_self, reduceCtorEq, reduceIte, andThen_norm, afterSwitch_norm, ModHyper, Int.toNat_natCast, decide_true, decide_false]
    exact ⟨_, by msenv hM0, Or.inl rfl⟩
  by_cases h5 : lw = [109, 101, 116, 97]
  · subst h5
    simp only [List.cons.injEq, Int.reduceEq, and_false, and_self, false_and, List.ne_cons_self, reduceCtorEq, reduceIte, andThen_norm, afterSwitch_norm, ModMeta, Int.toNat_natCast, decide_true, decide_false]
    exact ⟨_, by msenv hM0, Or.inl rfl⟩
  by_cases h6 : lw = [99, 97, 112, 115]
  · subst h6
    simp only [List.cons.injEq, Int.reduceEq, and_false, and_self, false_and, List.ne_cons_self, reduceCtorEq, reduceIte, andThen_norm, afterSwitch_norm, ModCapsLock, Int.toNat_natCast, decide_true, decide_false]
    exact ⟨_, by msenv hM0, Or.inl rfl⟩
  by_cases h7 : lw = [110, 117, 109]
  · subst h7
    simp only [List.cons.injEq, Int.reduceEq, and_false, and_self, false_and, List.ne_cons_self, reduceCtorEq, reduceIte, andThen_norm, afterSwitch_norm, ModNumLock, Int.toNat_natCast, decide_true, decide_false]
    exact ⟨_, by msenv hM0, Or.inl rfl⟩
  simp only [h0, h1, h2, h3, h4, h5, h6, h7, reduceIte, afterSwitch_norm, Nat.or_zero]
  exact ⟨_, hM0, Or.inl rfl⟩

theorem ms_mods_loop (u : Uni) (k : Key) (mods0 : List Str) (key : Str) (E : Env) (o : Str) (h : MsEnv E mods0 key 0) :
    ∃ E', execS (ctx u (matchesCall u k)) mS8 { env := E, out := o } = .norm { env := E', out := o } ∧
      MsEnv E' mods0 key (parseMods u mods0) := by
  unfold mS8
  simp only [execS, rangeItems, h.mods, evalE]
  have e : parseMods u mods0 = iter (maskStep u) mods0 0 0 := by rw [mask_iter, Nat.zero_or]
  rw [e]
  exact loop_inv _ (fun E mask => MsEnv E mods0 key mask) (maskStep u) V.str (fun E s a i o hP => ms_mods_body u k mods0 key E s a i o hP) mods0 0 E 0 o h

/-- the interpreted `Key.Matches` is the hand model (proved in Props/C09Body: `matches_body_eq_model`) -/
def MatchesOK (u : Uni) (k : Key) : Prop := ∀ key m, matchesGen u k key m = some («matches» u k key m)

theorem callFn_Matches2 (u : Uni) (k : Key) (hM : MatchesOK u k) (env : Env) (r : Int) (m : Nat) :
    callFn (ctx u (matchesCall u k)) env "k.Matches" [.int r, .int (m : Nat)] = .bool («matches» u k r m) := by
  unfold callFn
  simp only [String.reduceEq, reduceIte, or_self, ctx_funcs, matchesCall, hM r m, Option.map, Int.toNat_natCast]

theorem callFn_Matches1 (u : Uni) (k : Key) (hM : MatchesOK u k) (env : Env) (r : Int) :
    callFn (ctx u (matchesCall u k)) env "k.Matches" [.int r] = .bool («matches» u k r 0) := by
  unfold callFn
  simp only [String.reduceEq, reduceIte, or_self, ctx_funcs, matchesCall, hM r 0, Option.map]

theorem strLen_cons2_ne (r r2 : Int) (t : Str) : ¬ utf8Len r = strLen (r :: r2 :: t) := by
  have := utf8Len_pos r2
  have := strLen_nonneg t
  simp only [strLen]; omega

/-! ### Statement 9: `if r, n := utf8.DecodeRuneInString(key); n == len(key)` -/

theorem ms_S9_nil (u : Uni) (k : Key) (hM : MatchesOK u k) (E : Env) (o : Str) (mods : List Str) (mask : Nat) (h : MsEnv E mods [] mask) :
    ∃ E', execS (ctx u (matchesCall u k)) mS9 { env := E, out := o } = .ret { env := E', out := o } (.bool («matches» u k 0xFFFD mask)) := by
  unfold mS9
  simp only [Ss.ofList, Es.ofList, execS, execSs_cons, execSs_nil, lhsNames, Option.map, evalEs, evalE, h.key, ctx_funcs, matchesCall, String.reduceEq, reduceIte,
    callFn_decode_nil, assignVals, hasErr, List.any, Bool.or_false, Bool.false_eq_true, VaxisModel.Model.GoInterp.bind, or_self, andThen_norm,
    List.lookup, String.reduceBEq, callFn_len_str, strLen, binop_eq_int, branch_bool, decide_true, h.mask, callFn_Matches2 u k hM, andThen_ret]
  exact ⟨_, rfl⟩

theorem ms_S9_one (u : Uni) (k : Key) (hM : MatchesOK u k) (E : Env) (o : Str) (mods : List Str) (r : Int) (mask : Nat) (h : MsEnv E mods [r] mask) :
    ∃ E', execS (ctx u (matchesCall u k)) mS9 { env := E, out := o } = .ret { env := E', out := o } (.bool («matches» u k r mask)) := by
  unfold mS9
  simp only [Ss.ofList, Es.ofList, execS, execSs_cons, execSs_nil, lhsNames, Option.map, evalEs, evalE, h.key, ctx_funcs, matchesCall, String.reduceEq, reduceIte,
    callFn_decode_cons, assignVals, hasErr, List.any, Bool.or_false, Bool.false_eq_true, VaxisModel.Model.GoInterp.bind, or_self, andThen_norm,
    List.lookup, String.reduceBEq, callFn_len_str, strLen, Int.add_zero, binop_eq_int, branch_bool, decide_true, h.mask, callFn_Matches2 u k hM, andThen_ret]
  exact ⟨_, rfl⟩

theorem ms_S9_more (u : Uni) (k : Key) (E : Env) (o : Str) (mods : List Str) (r r2 : Int) (t : Str) (mask : Nat) (h : MsEnv E mods (r :: r2 :: t) mask) :
    ∃ E', execS (ctx u (matchesCall u k)) mS9 { env := E, out := o } = .norm { env := E', out := o } ∧ MsEnv E' mods (r :: r2 :: t) mask := by
  unfold mS9
  simp only [Ss.ofList, Es.ofList, execS, execSs_cons, execSs_nil, lhsNames, Option.map, evalEs, evalE, h.key, ctx_funcs, matchesCall, String.reduceEq, reduceIte,
    callFn_decode_cons, assignVals, hasErr, List.any, Bool.or_false, Bool.false_eq_true, VaxisModel.Model.GoInterp.bind, or_self, andThen_norm,
    List.lookup, String.reduceBEq, callFn_len_str, binop_eq_int, branch_bool, strLen_cons2_ne, decide_false]
  exact ⟨_, rfl, by msenv h⟩

/-! ### Statement 10: the loop over `keyNames` -/

theorem ms_names_body (u : Uni) (k : Key) (hM : MatchesOK u k) (E : Env) (o : Str) (mods : List Str) (key : Str) (mask : Nat)
    (h : MsEnv E mods key mask) (i : Nat) (kc : Int) (name : Str) :
    ∃ E', MsEnv E' mods key mask ∧
      execSs (ctx u (matchesCall u k)) namesBody
        { env := VaxisModel.Model.GoInterp.bind "kn" (V.struct [("key", .int kc), ("name", .str name)])
            (VaxisModel.Model.GoInterp.bind "_" (.int i) E), out := o } =
      if equalFold u name key = true then .ret { env := E', out := o } (.bool («matches» u k kc mask)) else .cont { env := E', out := o } := by
  have hE' : MsEnv (("kn", V.struct [("key", .int kc), ("name", .str name)]) :: ("kn.key", .int kc) :: ("kn.name", .str name) :: E) mods key mask := by
    msenv h
  refine ⟨_, hE', ?_⟩
  by_cases he : equalFold u name key = true
  · simp only [namesBody, Ss.ofList, Es.ofList, execSs_cons, execSs_nil, execS, evalE, evalEs,
      VaxisModel.Model.GoInterp.bind, String.reduceEq, reduceIte, or_true, true_or, or_false, false_or, or_self, List.map, String.reduceAppend,
      List.cons_append, List.nil_append, List.lookup, String.reduceBEq, h.key, h.mask, callFn_equalFold, ctx_u, unop_not, andThen_norm, branch_bool,
      Bool.not_eq_true', callFn_Matches2 u k hM, he, Bool.true_eq_false, Bool.false_eq_true, andThen_ret, andThen_cont]
  · have he' : equalFold u name key = false := by simpa using he
    simp only [he', Bool.false_eq_true, reduceIte]
    replace he := he'
    simp only [namesBody, Ss.ofList, Es.ofList, execSs_cons, execSs_nil, execS, evalE, evalEs,
      VaxisModel.Model.GoInterp.bind, String.reduceEq, reduceIte, or_true, true_or, or_false, false_or, or_self, List.map, String.reduceAppend,
      List.cons_append, List.nil_append, List.lookup, String.reduceBEq, h.key, h.mask, callFn_equalFold, ctx_u, unop_not, andThen_norm, branch_bool,
      Bool.not_eq_true', callFn_Matches2 u k hM, he, Bool.true_eq_false, Bool.false_eq_true, andThen_ret, andThen_cont]

theorem ms_names_loop (u : Uni) (k : Key) (hM : MatchesOK u k) (o : Str) (mods : List Str) (key : Str) (mask : Nat)
    (names : List (Int × Str)) :
    ∀ (i : Nat) (E : Env), MsEnv E mods key mask →
    (∃ kn E', findName u key names = some kn ∧
        loop (fun st' it i => execSs (ctx u (matchesCall u k)) namesBody
              { st' with env := VaxisModel.Model.GoInterp.bind "kn" it (VaxisModel.Model.GoInterp.bind "_" (.int i) st'.env) })
            (names.map fun e => V.struct [("key", .int e.1), ("name", .str e.2)]) i { env := E, out := o }
          = .ret { env := E', out := o } (.bool («matches» u k kn mask))) ∨
    (findName u key names = none ∧ ∃ E',
        loop (fun st' it i => execSs (ctx u (matchesCall u k)) namesBody
              { st' with env := VaxisModel.Model.GoInterp.bind "kn" it (VaxisModel.Model.GoInterp.bind "_" (.int i) st'.env) })
            (names.map fun e => V.struct [("key", .int e.1), ("name", .str e.2)]) i { env := E, out := o }
          = .norm { env := E', out := o } ∧ MsEnv E' mods key mask) := by
  induction names with
  | nil =>
    intro i E h
    exact Or.inr ⟨rfl, E, rfl, h⟩
  | cons e rest ih =>
    intro i E h
    obtain ⟨kc, name⟩ := e
    obtain ⟨E', hE', hbody⟩ := ms_names_body u k hM E o mods key mask h i kc name
    by_cases he : equalFold u name key = true
    · rw [if_pos he] at hbody
      refine Or.inl ⟨kc, E', by simp only [findName, he, reduceIte], ?_⟩
      rw [List.map_cons, loop_cons_ret hbody]
    · rw [if_neg he] at hbody
      rw [List.map_cons, loop_cons_cont hbody]
      simp only [findName, he, reduceIte, Bool.false_eq_true]
      exact ih (i + 1) E' hE'

theorem ms_S10 (u : Uni) (k : Key) (hM : MatchesOK u k) (E : Env) (o : Str) (mods : List Str) (key : Str) (mask : Nat)
    (h : MsEnv E mods key mask) :
    (∃ kn E', findName u key keyNames = some kn ∧
        execS (ctx u (matchesCall u k)) mS10 { env := E, out := o } = .ret { env := E', out := o } (.bool («matches» u k kn mask))) ∨
    (findName u key keyNames = none ∧ ∃ E',
        execS (ctx u (matchesCall u k)) mS10 { env := E, out := o } = .norm { env := E', out := o } ∧ MsEnv E' mods key mask) := by
  have hk := h.fresh "keyNames" (by simp [msFresh])
  unfold mS10
  simp only [execS, rangeItems, hk, ctx_slices, List.lookup, String.reduceBEq]
  exact ms_names_loop u k hM o mods key mask keyNames 0 E h

/-! ### Statement 11: `for _, r := range key { return … }` -/

theorem ms_S11 (u : Uni) (k : Key) (hM : MatchesOK u k) (E : Env) (o : Str) (mods : List Str) (r : Int) (t : Str) (mask : Nat)
    (h : MsEnv E mods (r :: t) mask) :
    ∃ E', execS (ctx u (matchesCall u k)) mS11 { env := E, out := o } = .ret { env := E', out := o } (.bool («matches» u k r mask)) := by
  unfold mS11
  simp only [Ss.ofList, Es.ofList, execS, rangeItems, h.key, evalE, List.map, loop, execSs_cons, execSs_nil, evalEs,
    VaxisModel.Model.GoInterp.bind, String.reduceEq, reduceIte, or_true, true_or, or_self, List.lookup, String.reduceBEq, h.mask, callFn_Matches2 u k hM, andThen_ret]
  exact ⟨_, rfl⟩

/-! ### The whole body -/

theorem execSs_cons5 (c : Ctx) (s1 s2 s3 s4 s5 : S) (rest : Ss) (st : St) :
    execSs c (.cons s1 (.cons s2 (.cons s3 (.cons s4 (.cons s5 rest))))) st =
      (execSs c (.cons s1 (.cons s2 (.cons s3 (.cons s4 (.cons s5 .nil))))) st).andThen (fun st' => execSs c rest st') := by
  simp only [execSs_cons, execSs_nil, andThen_assoc, andThen_norm]

theorem matchFields_eq (u : Uni) (k : Key) (l : List Str) :
    matchFields u k l =
      (match msKey l with
       | [] => «matches» u k 0xFFFD (parseMods u (msMods l))
       | [r] => «matches» u k r (parseMods u (msMods l))
       | r :: _ =>
         match findName u (msKey l) keyNames with
         | some kn => «matches» u k kn (parseMods u (msMods l))
         | none => «matches» u k r (parseMods u (msMods l))) := by
  unfold matchFields msKey msMods
  by_cases hp : msPlus l
  · have hd : decide (l.getLastD [] = [] ∧ l.length > 2 ∧ l.dropLast.getLastD [0] = []) = true := decide_eq_true hp
    simp only [hd, hp, reduceIte]
  · have hd : decide (l.getLastD [] = [] ∧ l.length > 2 ∧ l.dropLast.getLastD [0] = []) = false := decide_eq_false hp
    simp only [hd, hp, reduceIte, Bool.false_eq_true]
    rfl

theorem matchString_body_eq (u : Uni) (k : Key) (hM : MatchesOK u k) (tgt : Str) :
    matchStringGen u k tgt = some (matchString u k tgt) := by
  unfold matchStringGen
  rw [matchStringBody_eq]
  match tgt with
  | [] =>
    simp only [execSs_cons, mS1, Ss.ofList, Es.ofList, execS, execSs_nil, andThen_norm, evalE, evalEs, VaxisModel.Model.GoInterp.bind, String.reduceEq, or_self, reduceIte,
      keyFields, List.map, String.reduceAppend, List.cons_append, List.nil_append, List.lookup, String.reduceBEq, binop_eq_str, decide_true, branch_bool, andThen_ret,
      retBool_ret, matchString]
  | [r] =>
    simp only [execSs_cons, mS1, mS2, Ss.ofList, Es.ofList, execS, execSs_nil, andThen_norm, evalE, evalEs, VaxisModel.Model.GoInterp.bind, String.reduceEq, or_self, reduceIte,
      keyFields, List.map, String.reduceAppend, List.cons_append, List.nil_append, List.lookup, String.reduceBEq, binop_eq_str, binop_eq_int, branch_bool, andThen_ret,
      reduceCtorEq, decide_false, Bool.false_eq_true, lhsNames, Option.map, ctx_funcs, matchesCall, callFn_decode_cons, assignVals, hasErr, List.any, Bool.or_false,
      callFn_len_str, strLen, Int.add_zero, decide_true, callFn_Matches1 u k hM, retBool_ret, matchString]
  | r :: r2 :: t =>
    have e12 : execSs (ctx u (matchesCall u k)) (.cons mS1 (.cons mS2 .nil))
        { env := VaxisModel.Model.GoInterp.bind "k" (.struct (keyFields k)) [("tgt", .str (r :: r2 :: t))] } =
        .norm { env := ("n", .int (utf8Len r)) :: ("r", .int r) :: VaxisModel.Model.GoInterp.bind "k" (.struct (keyFields k)) [("tgt", .str (r :: r2 :: t))] } := by
      simp only [execSs_cons, mS1, mS2, Ss.ofList, Es.ofList, execS, execSs_nil, andThen_norm, evalE, evalEs, VaxisModel.Model.GoInterp.bind, String.reduceEq, or_self, reduceIte,
        keyFields, List.map, String.reduceAppend, List.cons_append, List.nil_append, List.lookup, String.reduceBEq, binop_eq_str, binop_eq_int, branch_bool,
        reduceCtorEq, decide_false, Bool.false_eq_true, lhsNames, Option.map, ctx_funcs, matchesCall, callFn_decode_cons, assignVals, hasErr, List.any, Bool.or_false,
        callFn_len_str, strLen_cons2_ne]
    rw [execSs_cons2, e12, andThen_norm]
    obtain ⟨E3, e3, h3⟩ := ms_P1 u k (("n", .int (utf8Len r)) :: ("r", .int r) :: VaxisModel.Model.GoInterp.bind "k" (.struct (keyFields k)) [("tgt", .str (r :: r2 :: t))]) [] (r :: r2 :: t)
      (by rfl) (by
        intro x hx
        simp only [msFresh, List.mem_cons, List.not_mem_nil, or_false] at hx
        rcases hx with rfl | rfl | rfl | rfl | rfl | rfl | rfl | rfl | rfl <;> rfl)
    rw [execSs_cons5, e3, andThen_norm, execSs_cons]
    obtain ⟨E4, e4, h4⟩ := ms_mods_loop u k _ _ E3 [] h3
    rw [e4, andThen_norm, execSs_cons]
    have hmodel : matchString u k (r :: r2 :: t) = matchFields u k (splitOn 43 (r :: r2 :: t)) := rfl
    rw [hmodel, matchFields_eq]
    generalize msKey (splitOn 43 (r :: r2 :: t)) = key at h4 ⊢
    generalize parseMods u (msMods (splitOn 43 (r :: r2 :: t))) = mask at h4 ⊢
    match key with
    | [] =>
      obtain ⟨E5, e5⟩ := ms_S9_nil u k hM E4 [] _ mask h4
      rw [e5, andThen_ret, retBool_ret]
    | [r'] =>
      obtain ⟨E5, e5⟩ := ms_S9_one u k hM E4 [] _ r' mask h4
      rw [e5, andThen_ret, retBool_ret]
    | r' :: r2' :: t' =>
      obtain ⟨E5, e5, h5⟩ := ms_S9_more u k E4 [] _ r' r2' t' mask h4
      rw [e5, andThen_norm, execSs_cons]
      rcases ms_S10 u k hM E5 [] _ _ mask h5 with ⟨kn, E6, hfn, e6⟩ | ⟨hfn, E6, e6, h6⟩
      · rw [e6, andThen_ret, retBool_ret]
        simp only [hfn]
      · rw [e6, andThen_norm, execSs_cons]
        obtain ⟨E7, e7⟩ := ms_S11 u k hM E6 [] _ r' _ mask h6
        rw [e7, andThen_ret, retBool_ret]
        simp only [hfn]

end VaxisModel.Lemmas.KeyBodyEval
