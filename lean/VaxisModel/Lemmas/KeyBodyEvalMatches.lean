/-
`Key.Matches` with its variadic argument: the interpreted extracted body (`matchesGenL`) over a list
of masks of *any* length equals the hand model on the OR of the list.

The `for _, mod := range modifiers { mods |= mod }` loop conses two bindings (`mod`, `mods`) in front
of the environment per iteration, so the environment after the loop has a length that depends on the
list.  The rest of the body is therefore evaluated over an abstract environment `E` of which only
the look-ups the body makes are known (`MatEnv`); the loop keeps `MatEnv` by induction on the list.
The decomposition of the body (declaration, loop, rest) is checked by `rfl` against the regenerated
`Gen` term.
-/
import VaxisModel.Lemmas.KeyBodyEval
set_option linter.unusedSimpArgs false
namespace VaxisModel.Lemmas.KeyBodyEval
open VaxisModel.Model.GoBody VaxisModel.Model.GoInterp VaxisModel.Model.Key VaxisModel.Model.KeyBody
open VaxisModel.Gen.Keys VaxisModel.Lemmas.GoInterp

/-! ### The statements of the body -/

def mtS1 : S := (.varDecl "mods" "ModifierMask")
def mtLoopBody : Ss := (Ss.ofList [
      (.assign .orSet (Es.ofList [(.var "mods")]) (Es.ofList [(.var "mod")]))])
def mtS2 : S := (.forRange "_" "mod" (.var "modifiers") mtLoopBody)
def mtRest : Ss :=
  (Ss.ofList [
    (.assign .set (Es.ofList [(.var "mods")]) (Es.ofList [(.bin .andNot (.var "mods") (.var "ModCapsLock"))])),
    (.assign .set (Es.ofList [(.var "mods")]) (Es.ofList [(.bin .andNot (.var "mods") (.var "ModNumLock"))])),
    (.assign .define (Es.ofList [(.var "kMods")]) (Es.ofList [(.bin .andNot (.var "k.Modifiers") (.var "ModCapsLock"))])),
    (.assign .set (Es.ofList [(.var "kMods")]) (Es.ofList [(.bin .andNot (.var "kMods") (.var "ModNumLock"))])),
    (.assign .define (Es.ofList [(.var "unshiftedkMods")]) (Es.ofList [(.bin .andNot (.var "kMods") (.var "ModShift"))])),
    (.assign .define (Es.ofList [(.var "unshiftedMods")]) (Es.ofList [(.bin .andNot (.var "mods") (.var "ModShift"))])),
    (.ifS .nil (.bin .land (.bin .eq (.var "k.Keycode") (.var "key")) (.bin .eq (.var "mods") (.var "kMods"))) (Ss.ofList [
      (.ret (Es.ofList [.tt]))]) .nil),
    (.ifS .nil (.bin .land (.bin .eq (.var "k.Text") (.call "string" (Es.ofList [(.var "key")]))) (.bin .eq (.var "mods") (.var "kMods"))) (Ss.ofList [
      (.ret (Es.ofList [.tt]))]) .nil),
    (.ifS .nil (.bin .land (.bin .eq (.var "k.ShiftedCode") (.var "key")) (.bin .eq (.var "mods") (.var "unshiftedkMods"))) (Ss.ofList [
      (.ret (Es.ofList [.tt]))]) .nil),
    (.ifS .nil (.bin .land (.bin .eq (.var "k.BaseLayoutCode") (.var "key")) (.bin .eq (.var "mods") (.var "kMods"))) (Ss.ofList [
      (.ret (Es.ofList [.tt]))]) .nil),
    (.ifS .nil (.bin .land (.un .not (.call "unicode.IsLetter" (Es.ofList [(.var "key")]))) (.call "unicode.IsGraphic" (Es.ofList [(.var "key")]))) (Ss.ofList [
      (.ifS .nil (.bin .land (.bin .eq (.var "k.Keycode") (.var "key")) (.bin .eq (.var "unshiftedkMods") (.var "unshiftedMods"))) (Ss.ofList [
        (.ret (Es.ofList [.tt]))]) .nil),
      (.ifS .nil (.bin .land (.bin .eq (.var "k.ShiftedCode") (.var "key")) (.bin .eq (.var "unshiftedkMods") (.var "unshiftedMods"))) (Ss.ofList [
        (.ret (Es.ofList [.tt]))]) .nil)]) .nil),
    (.ifS .nil (.bin .land (.bin .land (.bin .ne (.bin .band (.var "mods") (.var "ModShift")) (.int 0)) (.call "unicode.IsLower" (Es.ofList [(.var "key")]))) (.bin .ne (.call "unicode.ToUpper" (Es.ofList [(.var "key")])) (.var "key"))) (Ss.ofList [
      (.assign .set (Es.ofList [(.var "key")]) (Es.ofList [(.call "unicode.ToUpper" (Es.ofList [(.var "key")]))])),
      (.ifS .nil (.bin .land (.bin .eq (.var "k.Text") (.call "string" (Es.ofList [(.var "key")]))) (.bin .eq (.var "unshiftedMods") (.var "unshiftedkMods"))) (Ss.ofList [
        (.ret (Es.ofList [.tt]))]) .nil)]) .nil),
    (.ret (Es.ofList [.ff]))])

theorem matchesBody_eq : VaxisModel.Gen.KeyBody.matchesBody = .cons mtS1 (.cons mtS2 mtRest) := rfl

/-! ### The environment while `Matches` runs -/

/-- What the body of `Matches` reads: the local `mods` (the OR so far), the fields of the receiver,
    the parameter `key`; the three constants it names are not shadowed. -/
structure MatEnv (E : Env) (k : Key) (key : Int) (M : Nat) : Prop where
  mods : E.lookup "mods" = some (.int (M : Nat))
  keycode : E.lookup "k.Keycode" = some (.int k.keycode)
  text : E.lookup "k.Text" = some (.str k.text)
  shifted : E.lookup "k.ShiftedCode" = some (.int k.shifted)
  base : E.lookup "k.BaseLayoutCode" = some (.int k.base)
  kmods : E.lookup "k.Modifiers" = some (.int (k.mods : Nat))
  key : E.lookup "key" = some (.int key)
  fShift : E.lookup "ModShift" = none
  fCaps : E.lookup "ModCapsLock" = none
  fNum : E.lookup "ModNumLock" = none

/-- the environment `matchesGenL` starts from, after `var mods ModifierMask` -/
theorem matEnv_init (k : Key) (key : Int) (l : List Int) :
    MatEnv (("mods", V.int 0) :: VaxisModel.Model.GoInterp.bind "k" (.struct (keyFields k)) [("key", .int key), ("modifiers", .ints l)]) k key 0 := by
  constructor <;> simp [VaxisModel.Model.GoInterp.bind, keyFields, List.lookup]

/-! ### The loop `for _, mod := range modifiers { mods |= mod }` -/

theorem mt_step (u : Uni) (k : Key) (key : Int) (E : Env) (a m i : Nat) (o : Str) (h : MatEnv E k key a) :
    execSs (ctx u noFuncs) mtLoopBody
        { env := VaxisModel.Model.GoInterp.bind "mod" (.int (m : Nat)) (VaxisModel.Model.GoInterp.bind "_" (.int (i : Nat)) E), out := o } =
      .norm { env := ("mods", V.int ((a ||| m : Nat) : Int)) :: ("mod", V.int (m : Nat)) :: E, out := o } := by
  unfold mtLoopBody
  simp only [Ss.ofList, Es.ofList, execSs_cons, execSs_nil, execS, lhsNames, Option.map, evalEs, evalE, VaxisModel.Model.GoInterp.bind,
    String.reduceEq, or_self, or_true, true_or, or_false, false_or, reduceIte, List.lookup, String.reduceBEq, assignVals, hasErr, Bool.false_eq_true,
    h.mods, binop_bor, Int.toNat_natCast, andThen_norm]

theorem matEnv_step (k : Key) (key : Int) (E : Env) (a m : Nat) (h : MatEnv E k key a) :
    MatEnv (("mods", V.int ((a ||| m : Nat) : Int)) :: ("mod", V.int (m : Nat)) :: E) k key (a ||| m) := by
  constructor
  · simp [List.lookup]
  · simpa [List.lookup] using h.keycode
  · simpa [List.lookup] using h.text
  · simpa [List.lookup] using h.shifted
  · simpa [List.lookup] using h.base
  · simpa [List.lookup] using h.kmods
  · simpa [List.lookup] using h.key
  · simpa [List.lookup] using h.fShift
  · simpa [List.lookup] using h.fCaps
  · simpa [List.lookup] using h.fNum

theorem mt_loop (u : Uni) (k : Key) (key : Int) (ms : List Nat) :
    ∀ (i : Nat) (E : Env) (a : Nat) (o : Str), MatEnv E k key a →
      ∃ E', loop (fun st' it i => execSs (ctx u noFuncs) mtLoopBody
                { st' with env := VaxisModel.Model.GoInterp.bind "mod" it (VaxisModel.Model.GoInterp.bind "_" (.int i) st'.env) })
              ((ms.map fun (m : Nat) => (m : Int)).map V.int) i { env := E, out := o } = .norm { env := E', out := o } ∧
            MatEnv E' k key (ms.foldl (· ||| ·) a) := by
  induction ms with
  | nil => intro i E a o h; exact ⟨E, rfl, h⟩
  | cons m ms ih =>
    intro i E a o h
    simp only [List.map_cons, List.foldl_cons, loop, mt_step u k key E a m i o h]
    exact ih (i + 1) _ (a ||| m) o (matEnv_step k key E a m h)

/-! ### The six rules, from any environment with the look-ups of `MatEnv` -/

set_option maxHeartbeats 400000 in
set_option maxRecDepth 4000 in
theorem mt_rest (u : Uni) (k : Key) (key : Int) (E : Env) (M : Nat) (o : Str) (h : MatEnv E k key M) :
    (execSs (ctx u noFuncs) mtRest { env := E, out := o }).retBool = some («matches» u k key M) := by
  unfold mtRest
  simp only [Ss.ofList, Es.ofList, execSs, execS, lhsNames, evalEs, evalE, VaxisModel.Model.GoInterp.bind,
    assignVals, hasErr, bindAll, List.lookup, String.reduceEq, String.reduceBEq, ctx_u, ctx_consts, ctx_funcs, noFuncs,
    reduceIte, or_false, false_or, or_self, List.length, Option.map,
    h.mods, h.keycode, h.text, h.shifted, h.base, h.kmods, h.key, h.fShift, h.fCaps, h.fNum,
    andThen_norm, andThen_ret, andThen_err, andThen_ite, branch_bool, binop_land, binop_eq_int, binop_eq_str, binop_ne_int, binop_band, binop_bor, binop_andNot, unop_not,
    Bool.false_eq_true, callFn_string, callFn_isLetter, callFn_isGraphic, callFn_isLower, callFn_toUpper, const_ModShift, const_ModCapsLock, const_ModNumLock,
    Int.toNat_natCast, Int.toNat_zero, Nat.zero_or, retBool_ite, retBool_ret]
  unfold «matches»
  simp only [some_ite, Bool.and_eq_true, decide_eq_true_eq, Int.natCast_inj, ModCapsLock, ModNumLock, ModShift, Bool.not_eq_true', bne_iff_ne, ne_eq, Bool.not_eq_eq_eq_not, Bool.not_true, decide_eq_false_iff_not]
  simp only [Int.natCast_eq_zero]
  repeat' split
  all_goals (first | rfl | grind)

/-! ### The whole body -/

theorem matches_body_variadic_eq (u : Uni) (k : Key) (key : Int) (ms : List Nat) :
    matchesGenL u k key ms = some («matches» u k key (ms.foldl (· ||| ·) 0)) := by
  unfold matchesGenL
  rw [matchesBody_eq, execSs_cons]
  have e1 : ∀ (E : Env) (o : Str), execS (ctx u noFuncs) mtS1 { env := E, out := o } = .norm { env := ("mods", V.int 0) :: E, out := o } := by
    intro E o
    unfold mtS1
    simp only [execS, zeroOf, String.reduceEq, true_or, or_true, or_self, or_false, false_or, reduceIte, VaxisModel.Model.GoInterp.bind]
  rw [e1, andThen_norm, execSs_cons]
  have h0 := matEnv_init k key (ms.map fun (m : Nat) => (m : Int))
  have hmods : List.lookup "modifiers" (("mods", V.int 0) :: VaxisModel.Model.GoInterp.bind "k" (.struct (keyFields k))
      [("key", .int key), ("modifiers", .ints (ms.map fun (m : Nat) => (m : Int)))]) = some (.ints (ms.map fun (m : Nat) => (m : Int))) := by
    simp [VaxisModel.Model.GoInterp.bind, keyFields, List.lookup]
  generalize (("mods", V.int 0) :: VaxisModel.Model.GoInterp.bind "k" (.struct (keyFields k))
      [("key", .int key), ("modifiers", .ints (ms.map fun (m : Nat) => (m : Int)))]) = E0 at h0 hmods ⊢
  have e2 : execS (ctx u noFuncs) mtS2 { env := E0, out := [] } =
      loop (fun st' it i => execSs (ctx u noFuncs) mtLoopBody
                { st' with env := VaxisModel.Model.GoInterp.bind "mod" it (VaxisModel.Model.GoInterp.bind "_" (.int i) st'.env) })
              ((ms.map fun (m : Nat) => (m : Int)).map V.int) 0 { env := E0, out := [] } := by
    unfold mtS2
    simp only [execS, rangeItems, hmods, evalE]
  obtain ⟨E1, hl, h1⟩ := mt_loop u k key ms 0 E0 0 [] h0
  rw [e2, hl, andThen_norm]
  exact mt_rest u k key E1 _ [] h1

end VaxisModel.Lemmas.KeyBodyEval
