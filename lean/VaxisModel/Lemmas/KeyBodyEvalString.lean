/-
`Key.String`: the interpreted extracted body (`keyStringGen`) equals the hand model (`keyString`).
Statement by statement over an abstract environment (see Lemmas/KeyBodyEval.lean); the loop over
`keyNames` is `findKeyName` by induction on the table.
-/
import VaxisModel.Lemmas.KeyBodyEval

set_option linter.unusedSimpArgs false

namespace VaxisModel.Lemmas.KeyBodyEval
open VaxisModel.Model.GoBody VaxisModel.Model.GoInterp VaxisModel.Model.Key VaxisModel.Model.KeyBody
open VaxisModel.Gen.Keys VaxisModel.Lemmas.GoInterp

/-- Names that must not be shadowed by local variables while `String` runs. -/
def strFresh : List String :=
  ["EventRelease", "ModMeta", "ModHyper", "ModSuper", "ModCtrl", "ModAlt", "ModShift", "ModCapsLock",
   "KeyTab", "KeySpace", "KeyEsc", "KeyBackspace", "KeyEnter", "unicode.MaxRune", "keyNames"]

/-- What `String` needs to know about its environment: the buffer so far, the (possibly
    re-assigned) key code, and the fields of `k`. -/
structure StrEnv (E : Env) (k : Key) (kc : Int) (b : Str) : Prop where
  buf : E.lookup "buf" = some (.str b)
  keycode : E.lookup "k.Keycode" = some (.int kc)
  mods : E.lookup "k.Modifiers" = some (.int (k.mods : Nat))
  text : E.lookup "k.Text" = some (.str k.text)
  event : E.lookup "k.EventType" = some (.int k.event)
  fresh : ∀ x ∈ strFresh, E.lookup x = none

theorem StrEnv.setBuf {E : Env} {k : Key} {kc : Int} {b : Str} (h : StrEnv E k kc b) (b' : Str) :
    StrEnv (("buf", .str b') :: E) k kc b' := by
  refine ⟨?_, ?_, ?_, ?_, ?_, ?_⟩
  · simp [List.lookup]
  · simpa [List.lookup] using h.keycode
  · simpa [List.lookup] using h.mods
  · simpa [List.lookup] using h.text
  · simpa [List.lookup] using h.event
  · intro x hx
    have := h.fresh x hx
    simp only [strFresh, List.mem_cons, List.not_mem_nil, or_false] at hx
    rcases hx with rfl | rfl | rfl | rfl | rfl | rfl | rfl | rfl | rfl | rfl | rfl | rfl | rfl | rfl | rfl <;>
      simpa [List.lookup] using this

theorem StrEnv.setKeycode {E : Env} {k : Key} {kc : Int} {b : Str} (h : StrEnv E k kc b) (kc' : Int) :
    StrEnv (("k.Keycode", .int kc') :: E) k kc' b := by
  refine ⟨?_, ?_, ?_, ?_, ?_, ?_⟩
  · simpa [List.lookup] using h.buf
  · simp [List.lookup]
  · simpa [List.lookup] using h.mods
  · simpa [List.lookup] using h.text
  · simpa [List.lookup] using h.event
  · intro x hx
    have := h.fresh x hx
    simp only [strFresh, List.mem_cons, List.not_mem_nil, or_false] at hx
    rcases hx with rfl | rfl | rfl | rfl | rfl | rfl | rfl | rfl | rfl | rfl | rfl | rfl | rfl | rfl | rfl <;>
      simpa [List.lookup] using this

theorem strEnv_init (k : Key) : StrEnv (("buf", .str []) :: VaxisModel.Model.GoInterp.bind "k" (.struct (keyFields k)) []) k k.keycode [] := by
  refine ⟨?_, ?_, ?_, ?_, ?_, ?_⟩ <;> try rfl
  intro x hx
  simp only [strFresh, List.mem_cons, List.not_mem_nil, or_false] at hx
  rcases hx with rfl | rfl | rfl | rfl | rfl | rfl | rfl | rfl | rfl | rfl | rfl | rfl | rfl | rfl | rfl <;> rfl

/-! ### The statements of the body -/

def strS1 : S := .assign .define (Es.ofList [(.var "buf")]) (Es.ofList [(.un .addr (.lit "bytes.Buffer" .nil))])

/-- `if k.Modifiers&Mod… != 0 { buf.WriteString("…+") }` -/
def modIf (name : String) (s : Str) : S :=
  .ifS .nil (.bin .ne (.bin .band (.var "k.Modifiers") (.var name)) (.int 0))
    (.cons (.expr (.call "buf.WriteString" (.cons (.str s) .nil))) .nil) .nil

def strS2 : S :=
  .ifS .nil (.bin .ne (.var "k.EventType") (.var "EventRelease"))
    (.cons (modIf "ModMeta" [77, 101, 116, 97, 43])
    (.cons (modIf "ModHyper" [72, 121, 112, 101, 114, 43])
    (.cons (modIf "ModSuper" [83, 117, 112, 101, 114, 43])
    (.cons (modIf "ModCtrl" [67, 116, 114, 108, 43])
    (.cons (modIf "ModAlt" [65, 108, 116, 43])
    (.cons (modIf "ModShift" [83, 104, 105, 102, 116, 43]) .nil)))))) .nil

def strS3 : S :=
    (.switchS .nil .nilv (Cs.ofList [
      ((Es.ofList [(.bin .eq (.var "k.Keycode") (.var "KeyTab"))]), .nil),
      ((Es.ofList [(.bin .eq (.var "k.Keycode") (.var "KeySpace"))]), .nil),
      ((Es.ofList [(.bin .eq (.var "k.Keycode") (.var "KeyEsc"))]), .nil),
      ((Es.ofList [(.bin .eq (.var "k.Keycode") (.var "KeyBackspace"))]), .nil),
      ((Es.ofList [(.bin .eq (.var "k.Keycode") (.var "KeyEnter"))]), .nil),
      ((Es.ofList [(.bin .eq (.var "k.Keycode") (.int 8))]), (Ss.ofList [
        (.assign .set (Es.ofList [(.var "k.Keycode")]) (Es.ofList [(.var "KeyBackspace")]))])),
      ((Es.ofList [(.bin .lt (.var "k.Keycode") (.int 0))]), (Ss.ofList [
        (.ret (Es.ofList [(.str [105, 110, 118, 97, 108, 105, 100])]))])),
      ((Es.ofList [(.bin .lt (.var "k.Keycode") (.int 32))]), (Ss.ofList [
        (.varDecl "val" "rune"),
        (.switchS .nil .nilv (Cs.ofList [
          ((Es.ofList [(.bin .eq (.var "k.Keycode") (.int 0))]), (Ss.ofList [
            (.assign .set (Es.ofList [(.var "val")]) (Es.ofList [(.int 64)]))])),
          ((Es.ofList [(.bin .le (.var "k.Keycode") (.int 26))]), (Ss.ofList [
            (.assign .set (Es.ofList [(.var "val")]) (Es.ofList [(.bin .add (.var "k.Keycode") (.int 96))]))])),
          ((Es.ofList [(.bin .lt (.var "k.Keycode") (.int 32))]), (Ss.ofList [
            (.assign .set (Es.ofList [(.var "val")]) (Es.ofList [(.bin .add (.var "k.Keycode") (.int 64))]))]))])),
        (.ret (Es.ofList [(.call "fmt.Sprintf" (Es.ofList [(.str [67, 116, 114, 108, 43, 37, 99]), (.var "val")]))]))])),
      ((Es.ofList [(.bin .le (.var "k.Keycode") (.var "unicode.MaxRune"))]), (Ss.ofList [
        (.ifS .nil (.bin .land (.bin .ne (.bin .band (.var "k.Modifiers") (.var "ModCapsLock")) (.int 0)) (.bin .eq (.var "k.Text") (.call "string" (Es.ofList [(.call "unicode.ToUpper" (Es.ofList [(.var "k.Keycode")]))])))) (Ss.ofList [
          (.expr (.call "buf.WriteRune" (Es.ofList [(.call "unicode.ToUpper" (Es.ofList [(.var "k.Keycode")]))])))]) (Ss.ofList [
          (.expr (.call "buf.WriteRune" (Es.ofList [(.var "k.Keycode")])))]))]))]))

def strLoopBody : Ss :=
  (Ss.ofList [
      (.ifS .nil (.bin .ne (.var "kn.key") (.var "k.Keycode")) (Ss.ofList [
        .cont]) .nil),
      (.expr (.call "buf.WriteString" (Es.ofList [(.var "kn.name")]))),
      .brk])

def strS4 : S := .forRange "_" "kn" (.var "keyNames") strLoopBody

def strS5 : S := .ret (Es.ofList [(.call "buf.String" .nil)])

theorem stringBody_eq : VaxisModel.Gen.KeyBody.stringBody =
    .cons strS1 (.cons strS2 (.cons strS3 (.cons strS4 (.cons strS5 .nil)))) := rfl

/-! ### Statement 2: the modifier prefixes -/

theorem modIf_step (u : Uni) (f : String → List V → Option (V × Str)) (E : Env) (o : Str) (k : Key) (kc : Int) (b : Str)
    (h : StrEnv E k kc b) (name : String) (bit : Nat) (s : Str)
    (hn : E.lookup name = none) (hc : List.lookup name keyConstEnv = some (.int (bit : Nat))) :
    ∃ E', execS (ctx u f) (modIf name s) { env := E, out := o } = .norm { env := E', out := o } ∧
      StrEnv E' k kc (b ++ if k.mods &&& bit ≠ 0 then s else []) := by
  unfold modIf
  simp only [execS, execSs, evalE, evalEs, h.mods, hn, hc, ctx_consts, andThen_norm, binop_band, binop_ne_int, branch_bool,
    Int.toNat_natCast, Int.natCast_eq_zero, callStmt, hasErr, Bool.false_eq_true, reduceIte, String.reduceEq, h.buf,
    Bool.not_eq_true', decide_eq_false_iff_not, VaxisModel.Model.GoInterp.bind, or_self]
  by_cases hb : k.mods &&& bit = 0
  · simp only [hb, not_true_eq_false, reduceIte, ne_eq, List.append_nil]
    exact ⟨E, rfl, h⟩
  · simp only [hb, not_false_eq_true, reduceIte, ne_eq]
    exact ⟨_, rfl, h.setBuf _⟩

theorem str_S2 (u : Uni) (f : String → List V → Option (V × Str)) (E : Env) (o : Str) (k : Key) (kc : Int) (b : Str)
    (h : StrEnv E k kc b) :
    ∃ E', execS (ctx u f) strS2 { env := E, out := o } = .norm { env := E', out := o } ∧
      StrEnv E' k kc (b ++ if k.event ≠ EventRelease then modPrefix k.mods stringMods else []) := by
  have hER := h.fresh "EventRelease" (by simp [strFresh])
  unfold strS2
  simp only [execS, execSs_nil, andThen_norm, evalE, h.event, hER, ctx_consts, const_EventRelease, binop_ne_int, branch_bool,
    Bool.not_eq_true', decide_eq_false_iff_not]
  by_cases hev : k.event = EventRelease
  · simp only [hev, not_true_eq_false, reduceIte, ne_eq, List.append_nil, execSs_nil]
    exact ⟨E, rfl, h⟩
  · simp only [hev, not_false_eq_true, reduceIte, ne_eq, execSs_cons, execSs_nil]
    obtain ⟨E1, e1, h1⟩ := modIf_step u f E o k kc b h "ModMeta" ModMeta [77, 101, 116, 97, 43]
      (h.fresh _ (by simp [strFresh])) const_ModMeta
    obtain ⟨E2, e2, h2⟩ := modIf_step u f E1 o k kc _ h1 "ModHyper" ModHyper [72, 121, 112, 101, 114, 43]
      (h1.fresh _ (by simp [strFresh])) const_ModHyper
    obtain ⟨E3, e3, h3⟩ := modIf_step u f E2 o k kc _ h2 "ModSuper" ModSuper [83, 117, 112, 101, 114, 43]
      (h2.fresh _ (by simp [strFresh])) const_ModSuper
    obtain ⟨E4, e4, h4⟩ := modIf_step u f E3 o k kc _ h3 "ModCtrl" ModCtrl [67, 116, 114, 108, 43]
      (h3.fresh _ (by simp [strFresh])) const_ModCtrl
    obtain ⟨E5, e5, h5⟩ := modIf_step u f E4 o k kc _ h4 "ModAlt" ModAlt [65, 108, 116, 43]
      (h4.fresh _ (by simp [strFresh])) const_ModAlt
    obtain ⟨E6, e6, h6⟩ := modIf_step u f E5 o k kc _ h5 "ModShift" ModShift [83, 104, 105, 102, 116, 43]
      (h5.fresh _ (by simp [strFresh])) const_ModShift
    refine ⟨E6, ?_, ?_⟩
    · simp only [e1, e2, e3, e4, e5, e6, andThen_norm]
    · have : modPrefix k.mods stringMods =
          (if k.mods &&& ModMeta ≠ 0 then [77, 101, 116, 97, 43] else []) ++
          ((if k.mods &&& ModHyper ≠ 0 then [72, 121, 112, 101, 114, 43] else []) ++
          ((if k.mods &&& ModSuper ≠ 0 then [83, 117, 112, 101, 114, 43] else []) ++
          ((if k.mods &&& ModCtrl ≠ 0 then [67, 116, 114, 108, 43] else []) ++
          ((if k.mods &&& ModAlt ≠ 0 then [65, 108, 116, 43] else []) ++
          ((if k.mods &&& ModShift ≠ 0 then [83, 104, 105, 102, 116, 43] else []) ++ []))))) := rfl
      rw [this]
      simpa only [List.append_assoc, List.append_nil] using h6

/-! ### Statement 4: the loop over `keyNames` -/

theorem str_loop_body (u : Uni) (f : String → List V → Option (V × Str)) (k : Key) (kc : Int) (o : Str)
    (E : Env) (b : Str) (h : StrEnv E k kc b) (i : Nat) (key : Int) (name : Str) :
    ∃ E', StrEnv E' k kc b ∧
      execSs (ctx u f) strLoopBody
        { env := VaxisModel.Model.GoInterp.bind "kn" (V.struct [("key", .int key), ("name", .str name)])
            (VaxisModel.Model.GoInterp.bind "_" (.int i) E), out := o } =
      if key = kc then .brk { env := ("buf", .str (b ++ name)) :: E', out := o } else .cont { env := E', out := o } := by
  have hE' : StrEnv (("kn", V.struct [("key", .int key), ("name", .str name)]) :: ("kn.key", .int key) :: ("kn.name", .str name) :: E) k kc b := by
    refine ⟨?_, ?_, ?_, ?_, ?_, ?_⟩
    · simpa [List.lookup] using h.buf
    · simpa [List.lookup] using h.keycode
    · simpa [List.lookup] using h.mods
    · simpa [List.lookup] using h.text
    · simpa [List.lookup] using h.event
    · intro x hx
      have := h.fresh x hx
      simp only [strFresh, List.mem_cons, List.not_mem_nil, or_false] at hx
      rcases hx with rfl | rfl | rfl | rfl | rfl | rfl | rfl | rfl | rfl | rfl | rfl | rfl | rfl | rfl | rfl <;>
        simpa [List.lookup] using this
  refine ⟨_, hE', ?_⟩
  simp only [strLoopBody, Ss.ofList, Es.ofList, execSs_cons, execSs_nil, execS, evalE, evalEs,
    VaxisModel.Model.GoInterp.bind, String.reduceEq, reduceIte, or_true, true_or, or_false, false_or, or_self, List.map, String.reduceAppend,
    List.cons_append, List.nil_append, List.lookup, String.reduceBEq, h.keycode, h.buf, andThen_norm, binop_ne_int, branch_bool,
    Bool.not_eq_true', decide_eq_false_iff_not]
  by_cases hk : key = kc
  · simp only [hk, not_true_eq_false, reduceIte, andThen_norm, callStmt, hasErr, Bool.false_eq_true, String.reduceEq,
      List.lookup, String.reduceBEq, h.buf, VaxisModel.Model.GoInterp.bind, or_self, andThen_brk]
  · simp only [hk, not_false_eq_true, reduceIte, andThen_cont]

theorem str_names_loop (u : Uni) (f : String → List V → Option (V × Str)) (k : Key) (kc : Int) (o : Str)
    (names : List (Int × Str)) :
    ∀ (i : Nat) (E : Env) (b : Str), StrEnv E k kc b →
    ∃ E', loop (fun st' it i => execSs (ctx u f) strLoopBody
              { st' with env := VaxisModel.Model.GoInterp.bind "kn" it (VaxisModel.Model.GoInterp.bind "_" (.int i) st'.env) })
            (names.map fun e => V.struct [("key", .int e.1), ("name", .str e.2)]) i { env := E, out := o }
          = .norm { env := E', out := o } ∧ E'.lookup "buf" = some (.str (b ++ findKeyName kc names)) := by
  induction names with
  | nil =>
    intro i E b h
    exact ⟨E, rfl, by simpa [findKeyName] using h.buf⟩
  | cons e rest ih =>
    intro i E b h
    obtain ⟨key, name⟩ := e
    obtain ⟨E', hE', hbody⟩ := str_loop_body u f k kc o E b h i key name
    by_cases hk : key = kc
    · rw [if_pos hk] at hbody
      rw [List.map_cons, loop_cons_brk hbody]
      refine ⟨_, rfl, ?_⟩
      simp [List.lookup, findKeyName, hk]
    · rw [if_neg hk] at hbody
      rw [List.map_cons, loop_cons_cont hbody]
      simpa only [findKeyName, hk, reduceIte] using ih (i + 1) E' b hE'

/-! ### Statement 3: the switch on the key code -/

set_option hygiene false in
/-- evaluate the outer switch of `String` down to the chain of guards on `kc` -/
macro "s3_simp" : tactic => `(tactic| (
  have f1 := h.fresh "KeyTab" (by simp [strFresh])
  have f2 := h.fresh "KeySpace" (by simp [strFresh])
  have f3 := h.fresh "KeyEsc" (by simp [strFresh])
  have f4 := h.fresh "KeyBackspace" (by simp [strFresh])
  have f5 := h.fresh "KeyEnter" (by simp [strFresh])
  have f6 := h.fresh "unicode.MaxRune" (by simp [strFresh])
  have f7 := h.fresh "ModCapsLock" (by simp [strFresh])
  unfold strS3
  simp only [Ss.ofList, Es.ofList, Cs.ofList, execS, execSs_nil, execSs_cons, andThen_norm, execCs, execDefault, labelHit, isTrue_bool, evalE, evalEs,
    h.keycode, h.mods, h.text, h.buf, f1, f2, f3, f4, f5, f6, f7, ctx_consts, const_KeyTab, const_KeySpace, const_KeyEsc, const_KeyBackspace, const_KeyEnter,
    const_MaxRune, const_ModCapsLock, binop_eq_int, binop_eq_bool, binop_lt, binop_le, Bool.or_false, decide_eq_true_eq, Bool.decide_eq_true,
    afterSwitch_ite, afterSwitch_norm, afterSwitch_ret]))

theorem str_S3_named (u : Uni) (f : String → List V → Option (V × Str)) (E : Env) (o : Str) (k : Key) (kc : Int) (b : Str)
    (h : StrEnv E k kc b) (hn : kc = KeyTab ∨ kc = KeySpace ∨ kc = KeyEsc ∨ kc = KeyBackspace ∨ kc = KeyEnter) :
    execS (ctx u f) strS3 { env := E, out := o } = .norm { env := E, out := o } := by
  s3_simp
  rcases hn with hn | hn | hn | hn | hn <;> simp only [hn, reduceIte, ite_self]

theorem str_S3_bs (u : Uni) (f : String → List V → Option (V × Str)) (E : Env) (o : Str) (k : Key) (kc : Int) (b : Str)
    (h : StrEnv E k kc b) (h8 : kc = 8) :
    ∃ E', execS (ctx u f) strS3 { env := E, out := o } = .norm { env := E', out := o } ∧ StrEnv E' k KeyBackspace b := by
  s3_simp
  subst h8
  simp only [KeyTab, KeySpace, KeyEsc, KeyBackspace, KeyEnter, Int.reduceEq, reduceIte, lhsNames, Option.map, assignVals, hasErr,
    Bool.false_eq_true, List.length, bindAll, VaxisModel.Model.GoInterp.bind, String.reduceEq, or_self, andThen_norm, afterSwitch_norm]
  exact ⟨_, rfl, h.setKeycode _⟩

theorem str_S3_neg (u : Uni) (f : String → List V → Option (V × Str)) (E : Env) (o : Str) (k : Key) (kc : Int) (b : Str)
    (h : StrEnv E k kc b) (hneg : kc < 0) :
    execS (ctx u f) strS3 { env := E, out := o } = .ret { env := E, out := o } (.str [105, 110, 118, 97, 108, 105, 100]) := by
  s3_simp
  have h1 : ¬ kc = KeyTab := by unfold KeyTab; omega
  have h2 : ¬ kc = KeySpace := by unfold KeySpace; omega
  have h3 : ¬ kc = KeyEsc := by unfold KeyEsc; omega
  have h4 : ¬ kc = KeyBackspace := by unfold KeyBackspace; omega
  have h5 : ¬ kc = KeyEnter := by unfold KeyEnter; omega
  have h6 : ¬ kc = 8 := by omega
  simp only [h1, h2, h3, h4, h5, h6, hneg, reduceIte, andThen_ret, afterSwitch_ret]

theorem str_S3_big (u : Uni) (f : String → List V → Option (V × Str)) (E : Env) (o : Str) (k : Key) (kc : Int) (b : Str)
    (h : StrEnv E k kc b) (hbig : ¬ kc ≤ maxRune) :
    execS (ctx u f) strS3 { env := E, out := o } = .norm { env := E, out := o } := by
  s3_simp
  have h1 : ¬ kc = KeyTab := by unfold KeyTab; unfold maxRune at hbig; omega
  have h2 : ¬ kc = KeySpace := by unfold KeySpace; unfold maxRune at hbig; omega
  have h3 : ¬ kc = KeyEsc := by unfold KeyEsc; unfold maxRune at hbig; omega
  have h4 : ¬ kc = KeyBackspace := by unfold KeyBackspace; unfold maxRune at hbig; omega
  have h5 : ¬ kc = KeyEnter := by unfold KeyEnter; unfold maxRune at hbig; omega
  have h6 : ¬ kc = 8 := by unfold maxRune at hbig; omega
  have h7 : ¬ kc < 0 := by unfold maxRune at hbig; omega
  have h8 : ¬ kc < 32 := by unfold maxRune at hbig; omega
  simp only [h1, h2, h3, h4, h5, h6, h7, h8, hbig, reduceIte]

theorem str_S3_rune (u : Uni) (f : String → List V → Option (V × Str)) (E : Env) (o : Str) (k : Key) (kc : Int) (b : Str)
    (h : StrEnv E k kc b) (hn : ¬ (kc = KeyTab ∨ kc = KeySpace ∨ kc = KeyEsc ∨ kc = KeyBackspace ∨ kc = KeyEnter))
    (h32 : ¬ kc < 32) (hmax : kc ≤ maxRune) :
    ∃ E', execS (ctx u f) strS3 { env := E, out := o } = .norm { env := E', out := o } ∧
      StrEnv E' k kc (b ++ strOfRune (if k.mods &&& ModCapsLock ≠ 0 ∧ k.text = strOfRune (u.toUpper kc) then u.toUpper kc else kc)) := by
  s3_simp
  simp only [not_or] at hn
  have h6 : ¬ kc = 8 := by omega
  have h7 : ¬ kc < 0 := by omega
  simp only [hn.1, hn.2.1, hn.2.2.1, hn.2.2.2.1, hn.2.2.2.2, h6, h7, h32, hmax, reduceIte, callFn_toUpper, callFn_string, ctx_u,
    binop_band, binop_ne_int, binop_eq_str, binop_land, branch_bool, Int.toNat_natCast, Int.natCast_eq_zero, callStmt, hasErr,
    Bool.false_eq_true, String.reduceEq, h.buf, VaxisModel.Model.GoInterp.bind, or_self, Bool.and_eq_true, Bool.not_eq_true',
    decide_eq_false_iff_not, decide_eq_true_eq, ne_eq]
  by_cases hc : ¬ k.mods &&& ModCapsLock = 0 ∧ k.text = strOfRune (u.toUpper kc)
  · simp only [hc, not_false_eq_true, and_self, reduceIte, andThen_norm, afterSwitch_norm]
    exact ⟨_, rfl, h.setBuf _⟩
  · simp only [hc, reduceIte, andThen_norm, afterSwitch_norm]
    exact ⟨_, rfl, h.setBuf _⟩

theorem str_S3_ctrl (u : Uni) (f : String → List V → Option (V × Str)) (E : Env) (o : Str) (k : Key) (kc : Int) (b : Str)
    (h : StrEnv E k kc b) (hn : ¬ (kc = KeyTab ∨ kc = KeySpace ∨ kc = KeyEsc ∨ kc = KeyBackspace ∨ kc = KeyEnter))
    (h8 : ¬ kc = 8) (h0 : ¬ kc < 0) (h32 : kc < 32) :
    ∃ E', execS (ctx u f) strS3 { env := E, out := o } = .ret { env := E', out := o }
      (.str [67, 116, 114, 108, 43, if kc = 0 then 64 else if kc ≤ 0x1A then kc + 0x60 else kc + 0x40]) := by
  s3_simp
  simp only [not_or] at hn
  simp only [hn.1, hn.2.1, hn.2.2.1, hn.2.2.2.1, hn.2.2.2.2, h8, h0, h32, reduceIte, zeroOf, String.reduceEq, or_true, true_or,
    VaxisModel.Model.GoInterp.bind, or_self, andThen_norm, List.lookup, String.reduceBEq, h.keycode, binop_eq_int, binop_eq_bool, binop_le, binop_lt,
    isTrue_bool, decide_eq_true_eq, Bool.decide_eq_true]
  by_cases hz : kc = 0
  · subst hz
    simp [lhsNames, assignVals, hasErr, bindAll, VaxisModel.Model.GoInterp.bind, callFn_sprintf, sprintfAux, strOfRune, validRune, maxRune]
  · by_cases h26 : kc ≤ 26
    · have hv : validRune (kc + 96) = true := by unfold validRune maxRune; simp; omega
      simp [hz, h26, lhsNames, assignVals, hasErr, bindAll, VaxisModel.Model.GoInterp.bind, callFn_sprintf, sprintfAux, strOfRune, hv, h.keycode]
    · have hv : validRune (kc + 64) = true := by unfold validRune maxRune; simp; omega
      simp [hz, h26, h32, lhsNames, assignVals, hasErr, bindAll, VaxisModel.Model.GoInterp.bind, callFn_sprintf, sprintfAux, strOfRune, hv, h.keycode]

/-! ### Statements 4 and 5, and the whole body -/

theorem str_tail (u : Uni) (f : String → List V → Option (V × Str)) (E : Env) (o : Str) (k : Key) (kc : Int) (b : Str)
    (h : StrEnv E k kc b) :
    (execSs (ctx u f) (.cons strS4 (.cons strS5 .nil)) { env := E, out := o }).retStr = some (b ++ findKeyName kc keyNames) := by
  have hk := h.fresh "keyNames" (by simp [strFresh])
  obtain ⟨E', e, hb⟩ := str_names_loop u f k kc o keyNames 0 E b h
  simp only [execSs_cons, execSs_nil, strS4, strS5, execS, rangeItems, hk, ctx_slices, List.lookup, String.reduceBEq, e, andThen_norm,
    Es.ofList, evalEs, evalE, callFn_bufString, hb, andThen_ret, retStr_ret]

theorem str_S1 (u : Uni) (f : String → List V → Option (V × Str)) (env : Env) :
    execS (ctx u f) strS1 { env := env } = .norm { env := ("buf", .str []) :: env } := by
  simp [strS1, Es.ofList, execS, lhsNames, evalEs, evalE, unop, litValue, assignVals, hasErr, bindAll, VaxisModel.Model.GoInterp.bind]

theorem string_body_eq (u : Uni) (k : Key) : keyStringGen u k = some (keyString u k) := by
  unfold keyStringGen
  obtain ⟨E2, e2, h2⟩ := str_S2 u noFuncs _ [] k k.keycode [] (strEnv_init k)
  rw [stringBody_eq, execSs_cons, str_S1, andThen_norm, execSs_cons, e2, andThen_norm, execSs_cons]
  simp only [List.nil_append] at h2
  unfold keyString
  simp only []
  by_cases hn : k.keycode = KeyTab ∨ k.keycode = KeySpace ∨ k.keycode = KeyEsc ∨ k.keycode = KeyBackspace ∨ k.keycode = KeyEnter
  · rw [str_S3_named u _ E2 [] k _ _ h2 hn, andThen_norm, if_pos hn]
    exact str_tail u _ E2 [] k _ _ h2
  · rw [if_neg hn]
    by_cases h8 : k.keycode = 8
    · obtain ⟨E3, e3, h3⟩ := str_S3_bs u noFuncs E2 [] k _ _ h2 h8
      rw [e3, andThen_norm, if_pos h8]
      exact str_tail u _ E3 [] k _ _ h3
    · rw [if_neg h8]
      by_cases h0 : k.keycode < 0
      · rw [str_S3_neg u _ E2 [] k _ _ h2 h0, andThen_ret, if_pos h0, retStr_ret]
      · rw [if_neg h0]
        by_cases h32 : k.keycode < 32
        · obtain ⟨E3, e3⟩ := str_S3_ctrl u noFuncs E2 [] k _ _ h2 hn h8 h0 h32
          rw [e3, andThen_ret, if_pos h32, retStr_ret]
        · rw [if_neg h32]
          by_cases hmax : k.keycode ≤ maxRune
          · obtain ⟨E3, e3, h3⟩ := str_S3_rune u noFuncs E2 [] k _ _ h2 hn h32 hmax
            rw [e3, andThen_norm, if_pos hmax]
            exact str_tail u _ E3 [] k _ _ h3
          · rw [str_S3_big u _ E2 [] k _ _ h2 hmax, andThen_norm, if_neg hmax]
            exact str_tail u _ E2 [] k _ _ h2

end VaxisModel.Lemmas.KeyBodyEval
