/-
Frozen copy of Gen/KeyBody.lean (the function bodies as the extractor saw them when the model was
written).  `Props` proves `Gen.KeyBody.* = Lemmas.KeyBodyPin.*` by `rfl`: any change of the decision structure of
the source (an arm moved, a guard changed, `&&` turned into `||`, a modifier dropped) breaks that
theorem.  Regenerate with:  sed (see notes/C09.md, "Structural tie") after the hand model has been
updated to the new source.
-/
import VaxisModel.Model.GoBody

namespace VaxisModel.Lemmas.KeyBodyPin
open VaxisModel.Model.GoBody

/-- key.go `Matches` -/
def matchesBody : Ss :=
  (Ss.ofList [
    (.varDecl "mods" "ModifierMask"),
    (.forRange "_" "mod" (.var "modifiers") (Ss.ofList [
      (.assign .orSet (Es.ofList [(.var "mods")]) (Es.ofList [(.var "mod")]))])),
    (.assign .set (Es.ofList [(.var "mods")]) (Es.ofList [(.bin .andNot (.var "mods") (.var "ModCapsLock"))])),
    (.assign .set (Es.ofList [(.var "mods")]) (Es.ofList [(.bin .andNot (.var "mods") (.var "ModNumLock"))])),
    (.assign .define (Es.ofList [(.var "kMods")]) (Es.ofList [(.bin .andNot (.var "k.Modifiers") (.var "ModCapsLock"))])),
    (.assign .set (Es.ofList [(.var "kMods")]) (Es.ofList [(.bin .andNot (.var "kMods") (.var "ModNumLock"))])),
    (.assign .define (Es.ofList [(.var "unshiftedkMods")]) (Es.ofList [(.bin .andNot (.var "kMods") (.var "ModShift"))])),
    (.assign .define (Es.ofList [(.var "unshiftedMods")]) (Es.ofList [(.bin .andNot (.var "mods") (.var "ModShift"))])),
    (.ifS .nil (.bin .land (.bin .eq (.var "k.Keycode") (.var "key")) (.bin .eq (.var "mods") (.var "kMods"))) (Ss.ofList [
      (.ret (Es.ofList [.tt]))]) .nil),
    (.ifS .nil (.bin .land (.bin .eq (.var "k.Text") (.call "string" (Es.ofList [(.var "key")]))) (.bin .eq (.var "mods") (.var "kMods"))) (Ss.ofList [
      (.ret (Es.ofList [.tt]))]) .nil),
    (.ifS .nil (.bin .land (.bin .eq (.var "k.ShiftedCode") (.var "key")) (.bin .eq (.var "mods") (.var "unshiftedkMods"))) (Ss.ofList [
      (.ret (Es.ofList [.tt]))]) .nil),
    (.ifS .nil (.bin .land (.bin .eq (.var "k.BaseLayoutCode") (.var "key")) (.bin .eq (.var "mods") (.var "kMods"))) (Ss.ofList [
      (.ret (Es.ofList [.tt]))]) .nil),
    (.ifS .nil (.bin .land (.un .not (.call "unicode.IsLetter" (Es.ofList [(.var "key")]))) (.call "unicode.IsGraphic" (Es.ofList [(.var "key")]))) (Ss.ofList [
      (.ifS .nil (.bin .land (.bin .eq (.var "k.Keycode") (.var "key")) (.bin .eq (.var "unshiftedkMods") (.var "unshiftedMods"))) (Ss.ofList [
        (.ret (Es.ofList [.tt]))]) .nil),
      (.ifS .nil (.bin .land (.bin .eq (.var "k.ShiftedCode") (.var "key")) (.bin .eq (.var "unshiftedkMods") (.var "unshiftedMods"))) (Ss.ofList [
        (.ret (Es.ofList [.tt]))]) .nil)]) .nil),
    (.ifS .nil (.bin .land (.bin .land (.bin .ne (.bin .band (.var "mods") (.var "ModShift")) (.int 0)) (.call "unicode.IsLower" (Es.ofList [(.var "key")]))) (.bin .ne (.call "unicode.ToUpper" (Es.ofList [(.var "key")])) (.var "key"))) (Ss.ofList [
      (.assign .set (Es.ofList [(.var "key")]) (Es.ofList [(.call "unicode.ToUpper" (Es.ofList [(.var "key")]))])),
      (.ifS .nil (.bin .land (.bin .eq (.var "k.Text") (.call "string" (Es.ofList [(.var "key")]))) (.bin .eq (.var "unshiftedMods") (.var "unshiftedkMods"))) (Ss.ofList [
        (.ret (Es.ofList [.tt]))]) .nil)]) .nil),
    (.ret (Es.ofList [.ff]))])

/-- key.go `MatchString` -/
def matchStringBody : Ss :=
  (Ss.ofList [
    (.ifS .nil (.bin .eq (.var "tgt") (.str [])) (Ss.ofList [
      (.ret (Es.ofList [.ff]))]) .nil),
    (.ifS (Ss.ofList [(.assign .define (Es.ofList [(.var "r"), (.var "n")]) (Es.ofList [(.call "utf8.DecodeRuneInString" (Es.ofList [(.var "tgt")]))]))]) (.bin .eq (.var "n") (.call "len" (Es.ofList [(.var "tgt")]))) (Ss.ofList [
      (.ret (Es.ofList [(.call "k.Matches" (Es.ofList [(.var "r")]))]))]) .nil),
    (.assign .define (Es.ofList [(.var "vals")]) (Es.ofList [(.call "strings.Split" (Es.ofList [(.var "tgt"), (.str [43])]))])),
    (.assign .define (Es.ofList [(.var "mods")]) (Es.ofList [(.slc (.var "vals") (.int 0) (.bin .sub (.call "len" (Es.ofList [(.var "vals")])) (.int 1)))])),
    (.assign .define (Es.ofList [(.var "key")]) (Es.ofList [(.idx (.var "vals") (.bin .sub (.call "len" (Es.ofList [(.var "vals")])) (.int 1)))])),
    (.ifS .nil (.bin .land (.bin .land (.bin .eq (.var "key") (.str [])) (.bin .gt (.call "len" (Es.ofList [(.var "vals")])) (.int 2))) (.bin .eq (.idx (.var "vals") (.bin .sub (.call "len" (Es.ofList [(.var "vals")])) (.int 2))) (.str []))) (Ss.ofList [
      (.assign .set (Es.ofList [(.var "key")]) (Es.ofList [(.str [43])])),
      (.assign .set (Es.ofList [(.var "mods")]) (Es.ofList [(.slc (.var "vals") (.int 0) (.bin .sub (.call "len" (Es.ofList [(.var "vals")])) (.int 2)))]))]) .nil),
    (.varDecl "mask" "ModifierMask"),
    (.forRange "_" "m" (.var "mods") (Ss.ofList [
      (.switchS .nil (.call "strings.ToLower" (Es.ofList [(.var "m")])) (Cs.ofList [
        ((Es.ofList [(.str [115, 104, 105, 102, 116])]), (Ss.ofList [
          (.assign .orSet (Es.ofList [(.var "mask")]) (Es.ofList [(.var "ModShift")]))])),
        ((Es.ofList [(.str [97, 108, 116])]), (Ss.ofList [
          (.assign .orSet (Es.ofList [(.var "mask")]) (Es.ofList [(.var "ModAlt")]))])),
        ((Es.ofList [(.str [99, 116, 114, 108])]), (Ss.ofList [
          (.assign .orSet (Es.ofList [(.var "mask")]) (Es.ofList [(.var "ModCtrl")]))])),
        ((Es.ofList [(.str [115, 117, 112, 101, 114])]), (Ss.ofList [
          (.assign .orSet (Es.ofList [(.var "mask")]) (Es.ofList [(.var "ModSuper")]))])),
        ((Es.ofList [(.str [104, 121, 112, 101, 114])]), (Ss.ofList [
          (.assign .orSet (Es.ofList [(.var "mask")]) (Es.ofList [(.var "ModHyper")]))])),
        ((Es.ofList [(.str [109, 101, 116, 97])]), (Ss.ofList [
          (.assign .orSet (Es.ofList [(.var "mask")]) (Es.ofList [(.var "ModMeta")]))])),
        ((Es.ofList [(.str [99, 97, 112, 115])]), (Ss.ofList [
          (.assign .orSet (Es.ofList [(.var "mask")]) (Es.ofList [(.var "ModCapsLock")]))])),
        ((Es.ofList [(.str [110, 117, 109])]), (Ss.ofList [
          (.assign .orSet (Es.ofList [(.var "mask")]) (Es.ofList [(.var "ModNumLock")]))]))]))])),
    (.ifS (Ss.ofList [(.assign .define (Es.ofList [(.var "r"), (.var "n")]) (Es.ofList [(.call "utf8.DecodeRuneInString" (Es.ofList [(.var "key")]))]))]) (.bin .eq (.var "n") (.call "len" (Es.ofList [(.var "key")]))) (Ss.ofList [
      (.ret (Es.ofList [(.call "k.Matches" (Es.ofList [(.var "r"), (.var "mask")]))]))]) .nil),
    (.forRange "_" "kn" (.var "keyNames") (Ss.ofList [
      (.ifS .nil (.un .not (.call "strings.EqualFold" (Es.ofList [(.var "kn.name"), (.var "key")]))) (Ss.ofList [
        .cont]) .nil),
      (.ret (Es.ofList [(.call "k.Matches" (Es.ofList [(.var "kn.key"), (.var "mask")]))]))])),
    (.forRange "_" "r" (.var "key") (Ss.ofList [
      (.ret (Es.ofList [(.call "k.Matches" (Es.ofList [(.var "r"), (.var "mask")]))]))])),
    (.ret (Es.ofList [.ff]))])

/-- key.go `String` -/
def stringBody : Ss :=
  (Ss.ofList [
    (.assign .define (Es.ofList [(.var "buf")]) (Es.ofList [(.un .addr (.lit "bytes.Buffer" .nil))])),
    (.ifS .nil (.bin .ne (.var "k.EventType") (.var "EventRelease")) (Ss.ofList [
      (.ifS .nil (.bin .ne (.bin .band (.var "k.Modifiers") (.var "ModMeta")) (.int 0)) (Ss.ofList [
        (.expr (.call "buf.WriteString" (Es.ofList [(.str [77, 101, 116, 97, 43])])))]) .nil),
      (.ifS .nil (.bin .ne (.bin .band (.var "k.Modifiers") (.var "ModHyper")) (.int 0)) (Ss.ofList [
        (.expr (.call "buf.WriteString" (Es.ofList [(.str [72, 121, 112, 101, 114, 43])])))]) .nil),
      (.ifS .nil (.bin .ne (.bin .band (.var "k.Modifiers") (.var "ModSuper")) (.int 0)) (Ss.ofList [
        (.expr (.call "buf.WriteString" (Es.ofList [(.str [83, 117, 112, 101, 114, 43])])))]) .nil),
      (.ifS .nil (.bin .ne (.bin .band (.var "k.Modifiers") (.var "ModCtrl")) (.int 0)) (Ss.ofList [
        (.expr (.call "buf.WriteString" (Es.ofList [(.str [67, 116, 114, 108, 43])])))]) .nil),
      (.ifS .nil (.bin .ne (.bin .band (.var "k.Modifiers") (.var "ModAlt")) (.int 0)) (Ss.ofList [
        (.expr (.call "buf.WriteString" (Es.ofList [(.str [65, 108, 116, 43])])))]) .nil),
      (.ifS .nil (.bin .ne (.bin .band (.var "k.Modifiers") (.var "ModShift")) (.int 0)) (Ss.ofList [
        (.expr (.call "buf.WriteString" (Es.ofList [(.str [83, 104, 105, 102, 116, 43])])))]) .nil)]) .nil),
    (.switchS .nil .nilv (Cs.ofList [
      ((Es.ofList [(.bin .eq (.var "k.Keycode") (.var "KeyTab"))]), .nil),
      ((Es.ofList [(.bin .eq (.var "k.Keycode") (.var "KeySpace"))]), .nil),
      ((Es.ofList [(.bin .eq (.var "k.Keycode") (.var "KeyEsc"))]), .nil),
      ((Es.ofList [(.bin .eq (.var "k.Keycode") (.var "KeyBackspace"))]), .nil),
      ((Es.ofList [(.bin .eq (.var "k.Keycode") (.var "KeyEnter"))]), .nil),
      ((Es.ofList [(.bin .eq (.var "k.Keycode") (.int 8))]), (Ss.ofList [
        (.assign .set (Es.ofList [(.var "k.Keycode")]) (Es.ofList [(.var "KeyBackspace")]))])),
      ((Es.ofList [(.bin .lt (.var "k.Keycode") (.int 0))]), (Ss.ofList [
        (.ret (Es.ofList [(.str [105, 110, 118, 97, 108, 105, 100])]))])),
      ((Es.ofList [(.bin .lt (.var "k.Keycode") (.int 32))]), (Ss.ofList [
        (.varDecl "val" "rune"),
        (.switchS .nil .nilv (Cs.ofList [
          ((Es.ofList [(.bin .eq (.var "k.Keycode") (.int 0))]), (Ss.ofList [
            (.assign .set (Es.ofList [(.var "val")]) (Es.ofList [(.int 64)]))])),
          ((Es.ofList [(.bin .le (.var "k.Keycode") (.int 26))]), (Ss.ofList [
            (.assign .set (Es.ofList [(.var "val")]) (Es.ofList [(.bin .add (.var "k.Keycode") (.int 96))]))])),
          ((Es.ofList [(.bin .lt (.var "k.Keycode") (.int 32))]), (Ss.ofList [
            (.assign .set (Es.ofList [(.var "val")]) (Es.ofList [(.bin .add (.var "k.Keycode") (.int 64))]))]))])),
        (.ret (Es.ofList [(.call "fmt.Sprintf" (Es.ofList [(.str [67, 116, 114, 108, 43, 37, 99]), (.var "val")]))]))])),
      ((Es.ofList [(.bin .le (.var "k.Keycode") (.var "unicode.MaxRune"))]), (Ss.ofList [
        (.ifS .nil (.bin .land (.bin .ne (.bin .band (.var "k.Modifiers") (.var "ModCapsLock")) (.int 0)) (.bin .eq (.var "k.Text") (.call "string" (Es.ofList [(.call "unicode.ToUpper" (Es.ofList [(.var "k.Keycode")]))])))) (Ss.ofList [
          (.expr (.call "buf.WriteRune" (Es.ofList [(.call "unicode.ToUpper" (Es.ofList [(.var "k.Keycode")]))])))]) (Ss.ofList [
          (.expr (.call "buf.WriteRune" (Es.ofList [(.var "k.Keycode")])))]))]))])),
    (.forRange "_" "kn" (.var "keyNames") (Ss.ofList [
      (.ifS .nil (.bin .ne (.var "kn.key") (.var "k.Keycode")) (Ss.ofList [
        .cont]) .nil),
      (.expr (.call "buf.WriteString" (Es.ofList [(.var "kn.name")]))),
      .brk])),
    (.ret (Es.ofList [(.call "buf.String" .nil)]))])

/-- key.go `decodeKey` -/
def decodeKeyBody : Ss :=
  (Ss.ofList [
    (.assign .define (Es.ofList [(.var "key")]) (Es.ofList [(.lit "Key" .nil)])),
    (.typeSwitch "seq" (.var "seq") (Cs.ofList [
      ((Es.ofList [(.var "ansi.Print")]), (Ss.ofList [
        (.varDecl "raw" "rune"),
        (.forRange "_" "r" (.var "seq.Grapheme") (Ss.ofList [
          (.assign .set (Es.ofList [(.var "raw")]) (Es.ofList [(.var "r")])),
          .brk])),
        (.assign .set (Es.ofList [(.var "key.Keycode")]) (Es.ofList [(.var "raw")])),
        (.ifS .nil (.call "unicode.IsUpper" (Es.ofList [(.var "raw")])) (Ss.ofList [
          (.assign .set (Es.ofList [(.var "key.Keycode")]) (Es.ofList [(.call "unicode.ToLower" (Es.ofList [(.var "raw")]))])),
          (.assign .set (Es.ofList [(.var "key.ShiftedCode")]) (Es.ofList [(.var "raw")])),
          (.assign .set (Es.ofList [(.var "key.Modifiers")]) (Es.ofList [(.var "ModShift")]))]) .nil),
        (.ifS .nil (.bin .ne (.var "key.Keycode") (.var "KeyBackspace")) (Ss.ofList [
          (.assign .set (Es.ofList [(.var "key.Text")]) (Es.ofList [(.var "seq.Grapheme")]))]) .nil)])),
      ((Es.ofList [(.var "ansi.C0")]), (Ss.ofList [
        (.switchS .nil (.call "rune" (Es.ofList [(.var "seq")])) (Cs.ofList [
          ((Es.ofList [(.int 8)]), (Ss.ofList [
            (.assign .set (Es.ofList [(.var "key.Keycode")]) (Es.ofList [(.var "KeyBackspace")]))])),
          ((Es.ofList [(.int 9)]), (Ss.ofList [
            (.assign .set (Es.ofList [(.var "key.Keycode")]) (Es.ofList [(.var "KeyTab")]))])),
          ((Es.ofList [(.int 13)]), (Ss.ofList [
            (.assign .set (Es.ofList [(.var "key.Keycode")]) (Es.ofList [(.var "KeyEnter")]))])),
          ((Es.ofList [(.int 27)]), (Ss.ofList [
            (.assign .set (Es.ofList [(.var "key.Keycode")]) (Es.ofList [(.var "KeyEsc")]))])),
          (.nil, (Ss.ofList [
            (.assign .set (Es.ofList [(.var "key.Modifiers")]) (Es.ofList [(.var "ModCtrl")])),
            (.switchS .nil .nilv (Cs.ofList [
              ((Es.ofList [(.bin .eq (.call "rune" (Es.ofList [(.var "seq")])) (.int 0))]), (Ss.ofList [
                (.assign .set (Es.ofList [(.var "key.Keycode")]) (Es.ofList [(.int 64)]))])),
              ((Es.ofList [(.bin .le (.call "rune" (Es.ofList [(.var "seq")])) (.int 26))]), (Ss.ofList [
                (.assign .set (Es.ofList [(.var "key.Keycode")]) (Es.ofList [(.bin .add (.call "rune" (Es.ofList [(.var "seq")])) (.int 96))]))])),
              ((Es.ofList [(.bin .lt (.call "rune" (Es.ofList [(.var "seq")])) (.int 32))]), (Ss.ofList [
                (.assign .set (Es.ofList [(.var "key.Keycode")]) (Es.ofList [(.bin .add (.call "rune" (Es.ofList [(.var "seq")])) (.int 64))]))]))]))]))]))])),
      ((Es.ofList [(.var "ansi.ESC")]), (Ss.ofList [
        (.assign .set (Es.ofList [(.var "key.Keycode")]) (Es.ofList [(.var "seq.Final")])),
        (.assign .set (Es.ofList [(.var "key.Modifiers")]) (Es.ofList [(.var "ModAlt")])),
        (.ifS .nil (.call "unicode.IsUpper" (Es.ofList [(.var "seq.Final")])) (Ss.ofList [
          (.assign .set (Es.ofList [(.var "key.Keycode")]) (Es.ofList [(.call "unicode.ToLower" (Es.ofList [(.var "seq.Final")]))])),
          (.assign .set (Es.ofList [(.var "key.ShiftedCode")]) (Es.ofList [(.var "seq.Final")])),
          (.assign .orSet (Es.ofList [(.var "key.Modifiers")]) (Es.ofList [(.var "ModShift")]))]) .nil)])),
      ((Es.ofList [(.var "ansi.SS3")]), (Ss.ofList [
        (.switchS .nil (.call "rune" (Es.ofList [(.var "seq")])) (Cs.ofList [
          ((Es.ofList [(.int 65)]), (Ss.ofList [
            (.assign .set (Es.ofList [(.var "key.Keycode")]) (Es.ofList [(.var "KeyUp")]))])),
          ((Es.ofList [(.int 66)]), (Ss.ofList [
            (.assign .set (Es.ofList [(.var "key.Keycode")]) (Es.ofList [(.var "KeyDown")]))])),
          ((Es.ofList [(.int 67)]), (Ss.ofList [
            (.assign .set (Es.ofList [(.var "key.Keycode")]) (Es.ofList [(.var "KeyRight")]))])),
          ((Es.ofList [(.int 68)]), (Ss.ofList [
            (.assign .set (Es.ofList [(.var "key.Keycode")]) (Es.ofList [(.var "KeyLeft")]))])),
          ((Es.ofList [(.int 69)]), (Ss.ofList [
            (.assign .set (Es.ofList [(.var "key.Keycode")]) (Es.ofList [(.var "KeyKeyPadBegin")]))])),
          ((Es.ofList [(.int 70)]), (Ss.ofList [
            (.assign .set (Es.ofList [(.var "key.Keycode")]) (Es.ofList [(.var "KeyEnd")]))])),
          ((Es.ofList [(.int 72)]), (Ss.ofList [
            (.assign .set (Es.ofList [(.var "key.Keycode")]) (Es.ofList [(.var "KeyHome")]))])),
          ((Es.ofList [(.int 80)]), (Ss.ofList [
            (.assign .set (Es.ofList [(.var "key.Keycode")]) (Es.ofList [(.var "KeyF01")]))])),
          ((Es.ofList [(.int 81)]), (Ss.ofList [
            (.assign .set (Es.ofList [(.var "key.Keycode")]) (Es.ofList [(.var "KeyF02")]))])),
          ((Es.ofList [(.int 82)]), (Ss.ofList [
            (.assign .set (Es.ofList [(.var "key.Keycode")]) (Es.ofList [(.var "KeyF03")]))])),
          ((Es.ofList [(.int 83)]), (Ss.ofList [
            (.assign .set (Es.ofList [(.var "key.Keycode")]) (Es.ofList [(.var "KeyF04")]))]))]))])),
      ((Es.ofList [(.var "ansi.CSI")]), (Ss.ofList [
        (.ifS .nil (.bin .eq (.call "len" (Es.ofList [(.var "seq.Parameters")])) (.int 0)) (Ss.ofList [
          (.assign .set (Es.ofList [(.var "seq.Parameters")]) (Es.ofList [(.lit "[][]int" (Es.ofList [(.lit "" (Es.ofList [(.int 1)]))]))]))]) .nil),
        (.forRange "i" "pm" (.var "seq.Parameters") (Ss.ofList [
          (.switchS .nil (.var "i") (Cs.ofList [
            ((Es.ofList [(.int 0)]), (Ss.ofList [
              (.forRange "j" "ps" (.var "pm") (Ss.ofList [
                (.switchS .nil (.var "j") (Cs.ofList [
                  ((Es.ofList [(.int 0)]), (Ss.ofList [
                    (.assign .define (Es.ofList [(.var "sk")]) (Es.ofList [(.lit "specialKey" (Es.ofList [(.call "rune" (Es.ofList [(.var "ps")])), (.var "seq.Final")]))])),
                    (.ifS .nil (.bin .land (.bin .eq (.var "sk.keycode") (.int 1)) (.bin .eq (.var "sk.final") (.int 90))) (Ss.ofList [
                      (.assign .set (Es.ofList [(.var "key.Keycode")]) (Es.ofList [(.var "KeyTab")])),
                      (.assign .set (Es.ofList [(.var "key.Modifiers")]) (Es.ofList [(.var "ModShift")])),
                      .cont]) .nil),
                    (.varDecl "ok" "bool"),
                    (.assign .set (Es.ofList [(.var "key.Keycode"), (.var "ok")]) (Es.ofList [(.idx (.var "specialsKeys") (.var "sk"))])),
                    (.ifS .nil (.un .not (.var "ok")) (Ss.ofList [
                      (.assign .set (Es.ofList [(.var "key.Keycode")]) (Es.ofList [(.call "rune" (Es.ofList [(.var "ps")]))]))]) .nil)])),
                  ((Es.ofList [(.int 1)]), (Ss.ofList [
                    (.assign .set (Es.ofList [(.var "key.ShiftedCode")]) (Es.ofList [(.call "rune" (Es.ofList [(.var "ps")]))]))])),
                  ((Es.ofList [(.int 2)]), (Ss.ofList [
                    (.assign .set (Es.ofList [(.var "key.BaseLayoutCode")]) (Es.ofList [(.call "rune" (Es.ofList [(.var "ps")]))]))]))]))]))])),
            ((Es.ofList [(.int 1)]), (Ss.ofList [
              (.forRange "j" "ps" (.var "pm") (Ss.ofList [
                (.switchS .nil (.var "j") (Cs.ofList [
                  ((Es.ofList [(.int 0)]), (Ss.ofList [
                    (.assign .set (Es.ofList [(.var "key.Modifiers")]) (Es.ofList [(.call "ModifierMask" (Es.ofList [(.bin .sub (.idx (.var "pm") (.int 0)) (.int 1))]))])),
                    (.ifS .nil (.bin .lt (.var "key.Modifiers") (.int 0)) (Ss.ofList [
                      (.assign .set (Es.ofList [(.var "key.Modifiers")]) (Es.ofList [(.int 0)]))]) .nil)])),
                  ((Es.ofList [(.int 1)]), (Ss.ofList [
                    (.assign .set (Es.ofList [(.var "key.EventType")]) (Es.ofList [(.bin .sub (.call "EventType" (Es.ofList [(.var "ps")])) (.int 1))]))]))]))]))])),
            ((Es.ofList [(.int 2)]), (Ss.ofList [
              (.ifS .nil (.bin .land (.bin .land (.bin .eq (.var "key.Keycode") (.int 27)) (.bin .eq (.var "seq.Final") (.int 126))) (.bin .gt (.call "len" (Es.ofList [(.var "pm")])) (.int 0))) (Ss.ofList [
                (.assign .set (Es.ofList [(.var "key.Keycode")]) (Es.ofList [(.call "rune" (Es.ofList [(.idx (.var "pm") (.int 0))]))]))]) (Ss.ofList [
                (.forRange "_" "p" (.var "pm") (Ss.ofList [
                  (.assign .addSet (Es.ofList [(.var "key.Text")]) (Es.ofList [(.call "string" (Es.ofList [(.call "rune" (Es.ofList [(.var "p")]))]))]))]))]))]))]))]))]))])),
    (.assign .define (Es.ofList [(.var "nmods")]) (Es.ofList [(.bin .andNot (.var "key.Modifiers") (.bin .bor (.var "ModCapsLock") (.var "ModNumLock")))])),
    (.ifS .nil (.bin .land (.bin .land (.bin .eq (.var "key.Text") (.str [])) (.bin .eq (.var "nmods") (.var "ModShift"))) (.call "unicode.IsPrint" (Es.ofList [(.var "key.Keycode")]))) (Ss.ofList [
      (.ifS .nil (.call "unicode.IsPrint" (Es.ofList [(.var "key.ShiftedCode")])) (Ss.ofList [
        (.assign .set (Es.ofList [(.var "key.Text")]) (Es.ofList [(.call "string" (Es.ofList [(.var "key.ShiftedCode")]))]))]) (Ss.ofList [
        (.assign .set (Es.ofList [(.var "key.Text")]) (Es.ofList [(.call "string" (Es.ofList [(.call "unicode.ToUpper" (Es.ofList [(.var "key.Keycode")]))]))]))]))]) .nil),
    (.ret (Es.ofList [(.var "key")]))])

/-- Number of nodes the extractor could not translate. -/
def unknownCount : Nat := 0

end VaxisModel.Lemmas.KeyBodyPin
