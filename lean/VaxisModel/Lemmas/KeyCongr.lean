/-
Congruence of the key model in the `unicode` oracle: `decodeKey`, `matchSpec`, `encodeXterm` consult `u` only at
the runes of their arguments.  If two oracles agree at those runes, the results are equal.  Used to lift the
kernel-evaluated table theorems (stated for `asciiUni` = Go's tables on ASCII) to EVERY oracle that agrees with Go on
ASCII and on the key codes above the Unicode range (`AgreeOnKeys`).
-/
import VaxisModel.Model.Key
import VaxisModel.Spec.KeyEnc
import VaxisModel.Spec.KeyEvent

namespace VaxisModel.Lemmas.KeyCongr
open VaxisModel.Model.Key VaxisModel.Spec.KeyEnc VaxisModel.Gen.Keys

/-- The two oracles give the same answers at the rune `r` (class predicates and simple case maps). -/
structure AgreeAt (u v : Uni) (r : Int) : Prop where
  isUpper : u.isUpper r = v.isUpper r
  isLower : u.isLower r = v.isLower r
  isLetter : u.isLetter r = v.isLetter r
  isGraphic : u.isGraphic r = v.isGraphic r
  isPrint : u.isPrint r = v.isPrint r
  toUpper : u.toUpper r = v.toUpper r
  toLower : u.toLower r = v.toLower r

/-- `u` agrees with Go's tables on ASCII (`asciiUni`) and on the key codes above `MaxRune` (where Go's predicates are
    false and the case maps the identity — also what `asciiUni` says there). -/
def AgreeOnKeys (u : Uni) : Prop := ∀ r, inKeyDom r = true → AgreeAt u asciiUni r

/-- The rune of a sequence that `decodeRaw` asks `u` about. -/
def seqHead : Seq → Int
  | .print g => g.headD 0
  | .esc f => f
  | _ => 0

theorem decodeRaw_congr (u v : Uni) (s : Seq) (h : AgreeAt u v (seqHead s)) : decodeRaw u s = decodeRaw v s := by
  cases s with
  | print g => simp only [decodeRaw, seqHead] at h ⊢; rw [h.isUpper, h.toLower]
  | esc f => simp only [decodeRaw, seqHead] at h ⊢; rw [h.isUpper, h.toLower]
  | c0 b => rfl
  | ss3 b => rfl
  | csi p f => rfl

theorem shiftText_congr (u v : Uni) (k : Key) (h1 : AgreeAt u v k.keycode) (h2 : AgreeAt u v k.shifted) :
    shiftText u k = shiftText v k := by
  unfold shiftText
  rw [h1.isPrint, h2.isPrint, h1.toUpper]

/-- **decodeKey_congr.** -/
theorem decodeKey_congr (u v : Uni) (s : Seq) (h : AgreeAt u v (seqHead s))
    (h1 : AgreeAt u v (decodeRaw v s).keycode) (h2 : AgreeAt u v (decodeRaw v s).shifted) :
    decodeKey u s = decodeKey v s := by
  unfold decodeKey
  rw [decodeRaw_congr u v s h]
  exact shiftText_congr u v _ h1 h2

/-- `matchSpec` asks `u` only about the binding key. -/
theorem matchSpec_congr_uni (u v : Uni) (k : Key) (key : Int) (m : Nat) (h : AgreeAt u v key) :
    matchSpec u k key m ↔ matchSpec v k key m := by
  unfold matchSpec
  rw [h.isLetter, h.isGraphic, h.isLower, h.toUpper]

end VaxisModel.Lemmas.KeyCongr
