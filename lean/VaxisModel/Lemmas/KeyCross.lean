/-
Helper lemmas for C09 `cross_protocol`: when two decoded events cannot be told apart by
`String()` and `Matches`.
-/
import VaxisModel.Model.Key
import VaxisModel.Spec.KeyEnc
import VaxisModel.Lemmas.KeyMatch

namespace VaxisModel.Lemmas.KeyCross
open VaxisModel.Model.Key VaxisModel.Spec.KeyEnc VaxisModel.Gen.Keys VaxisModel.Lemmas.KeyMatch

/-- Two decoded events that `String()` and `Matches` cannot tell apart: all fields equal, or they
    differ only in that the first carries the key's own character as text (legacy byte) and the second
    no text (kitty report without text), for an unmodified key that is not an upper-case letter. -/
def sameForMatching (k1 k2 : Key) : Bool :=
  k1.keycode == k2.keycode && k1.shifted == k2.shifted && k1.base == k2.base && k1.mods == k2.mods &&
  k1.event == k2.event &&
  (k1.text == k2.text ||
    (k1.mods == 0 && k1.text == [k1.keycode] && k2.text == [] && validRune k1.keycode && k1.keycode != 0xFFFD &&
      !(decide (65 ≤ k1.keycode) && decide (k1.keycode ≤ 90))))

theorem keyString_congr (u : Uni) (k1 k2 : Key) (h1 : k1.keycode = k2.keycode) (h2 : k1.mods = k2.mods)
    (h3 : k1.event = k2.event) (h4 : k1.text = k2.text ∨ k1.mods = 0) : keyString u k1 = keyString u k2 := by
  unfold keyString
  rcases h4 with h4 | h4
  · rw [h1, h2, h3, h4]
  · have h0 : k2.mods = 0 := by rw [← h2, h4]
    have c1 : ¬(k1.mods &&& ModCapsLock ≠ 0 ∧ k1.text = strOfRune (u.toUpper k1.keycode)) := by
      rw [h4]; simp
    have c2 : ¬(k2.mods &&& ModCapsLock ≠ 0 ∧ k2.text = strOfRune (u.toUpper k2.keycode)) := by
      rw [h0]; simp
    simp only [c1, c2, if_false]
    rw [h1, h2, h3]

theorem sameForMatching_sound (k1 k2 : Key) (h : sameForMatching k1 k2 = true) :
    keyString asciiUni k1 = keyString asciiUni k2 ∧
    ∀ b m, «matches» asciiUni k1 b m = «matches» asciiUni k2 b m := by
  simp only [sameForMatching, Bool.and_eq_true, Bool.or_eq_true, beq_iff_eq, Bool.not_eq_true',
    Bool.and_eq_false_imp, decide_eq_true_eq, decide_eq_false_iff_not] at h
  obtain ⟨⟨⟨⟨⟨hk, hs⟩, hb⟩, hm⟩, he⟩, ht⟩ := h
  refine ⟨keyString_congr _ _ _ hk hm he (by
    rcases ht with ht | ⟨⟨⟨⟨⟨hm0, _⟩, _⟩, _⟩, _⟩, _⟩
    · exact Or.inl ht
    · exact Or.inr hm0), ?_⟩
  intro b m
  rcases ht with ht | ⟨⟨⟨⟨⟨hm0, ht1⟩, ht2⟩, hv⟩, hfffd⟩, hup⟩
  · have : k1 = k2 := by
      cases k1; cases k2; simp_all
    rw [this]
  · rw [Bool.eq_iff_iff, matches_iff, matches_iff]
    unfold matchSpec
    rw [← hk, ← hs, ← hb, ← hm, ht1, ht2]
    have f2 : ∀ key, ([k1.keycode] : Str) = strOfRune key → k1.keycode = key := by
      intro key h
      unfold strOfRune at h
      split at h
      · simpa using h
      · simp at h; exact absurd h (by simpa using hfffd)
    have g : ∀ key, ([] : Str) ≠ strOfRune key := by
      intro key; unfold strOfRune; split <;> simp
    have f6 : ∀ key, asciiUni.isLower key = true → ([k1.keycode] : Str) ≠ strOfRune (asciiUni.toUpper key) := by
      intro key hl h
      have := f2 _ h
      simp only [asciiUni, decide_eq_true_eq] at hl
      simp only [asciiUni, hl, and_self, if_true] at this
      omega
    constructor
    · rintro (h | ⟨h, hM⟩ | h | h | h | ⟨_, hl, _, h, _⟩)
      · exact Or.inl h
      · exact Or.inl ⟨f2 _ h, hM⟩
      · exact Or.inr (Or.inr (Or.inl h))
      · exact Or.inr (Or.inr (Or.inr (Or.inl h)))
      · exact Or.inr (Or.inr (Or.inr (Or.inr (Or.inl h))))
      · exact absurd h (f6 _ hl)
    · rintro (h | ⟨h, _⟩ | h | h | h | ⟨_, _, _, h, _⟩)
      · exact Or.inl h
      · exact absurd h (g _)
      · exact Or.inr (Or.inr (Or.inl h))
      · exact Or.inr (Or.inr (Or.inr (Or.inl h)))
      · exact Or.inr (Or.inr (Or.inr (Or.inr (Or.inl h))))
      · exact absurd h (g _)

def xpOK (u : Uni) (ch : Int × Nat × Int) : Bool :=
  let (key, mods, shifted) := ch
  [false, true].all fun ckm =>
    match xtermLegacy key mods shifted ckm with
    | none => true
    | some sL =>
      (kittyCodes key).all fun nf => (xpForms key mods).all fun ft =>
        let c : Chord := { key := key, mods := mods, shifted := shifted,
                           text := if ft.2 then [if mods &&& 1 ≠ 0 then shifted else key] else [] }
        sameForMatching (decodeKey u sL) (decodeKey u (kittySeq nf.1 nf.2 c ft.1))


end VaxisModel.Lemmas.KeyCross
