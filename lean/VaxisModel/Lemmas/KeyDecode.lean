/-
Helper lemmas for C09 `decode_exact_*`: the decoder on the sequences the Spec encoders produce.
-/
import VaxisModel.Model.Key
import VaxisModel.Spec.KeyEnc
import VaxisModel.Lemmas.KeyMatch

namespace VaxisModel.Lemmas.KeyDecode
open VaxisModel.Model.Key VaxisModel.Spec.KeyEnc VaxisModel.Gen.Keys

/-- The work-around at the end of `decodeKey` is the documented `shiftFix`. -/
theorem shiftText_eq (u : Uni) (k : Key) : shiftText u k = shiftFix u k := by
  unfold shiftText shiftFix
  by_cases hp : u.isPrint k.shifted = true
  · simp only [hp, if_true]; rfl
  · simp only [hp]; rfl

theorem decodeKey_eq (u : Uni) (s : Seq) : decodeKey u s = shiftFix u (decodeRaw u s) := shiftText_eq u _

theorem shiftFix_id (u : Uni) (k : Key) (h : k.text ≠ [] ∨ stripLocks k.mods ≠ shiftBit) : shiftFix u k = k := by
  unfold shiftFix
  rcases h with h | h <;> simp [h]

theorem toRune_id (x : Int) (h0 : 0 ≤ x) (h1 : x < 2147483648) : toRune x = x := by
  unfold toRune; omega

/-- The C0 arm of `decodeKey` (it does not consult `unicode`). -/
def c0Raw (b : Int) : Key :=
  match lookup b c0Keys with
  | some k => { keycode := k }
  | none =>
    let kc : Int := if b = 0 then 64 else if b ≤ 0x1A then b + 0x60 else if b < 0x20 then b + 0x40 else 0
    { keycode := kc, mods := ModCtrl }

theorem decodeRaw_c0 (u : Uni) (b : Int) : decodeRaw u (.c0 b) = c0Raw b := rfl

/-- The SS3 arm of `decodeKey`. -/
def ss3Raw (b : Int) : Key :=
  match lookup b ss3Keys with
  | some k => { keycode := k }
  | none => {}

theorem decodeRaw_ss3 (u : Uni) (b : Int) : decodeRaw u (.ss3 b) = ss3Raw b := rfl

theorem c0Raw_table : ∀ n : Fin 32, c0Raw (n.val : Int) = c0Expected (n.val : Int) ∧
    stripLocks (c0Raw (n.val : Int)).mods ≠ shiftBit := by decide

/-- A 31-bit non-negative value: `rune(x)` keeps it. -/
def inRune (x : Int) : Prop := 0 ≤ x ∧ x < 2147483648

theorem map_text (t : Str) (h : ∀ p ∈ t, inRune p ∧ validRune p = true) :
    (t.map fun p => if validRune (toRune p) then toRune p else 0xFFFD) = t := by
  induction t with
  | nil => rfl
  | cons a t ih =>
    have ha := h a (by simp)
    simp only [List.map_cons, toRune_id a ha.1.1 ha.1.2, ha.2, if_true]
    rw [ih (fun p hp => h p (by simp [hp]))]

theorem decodeRaw_csi (u : Uni) (num fin : Int) (c : Chord) (f : Form)
    (hnum : inRune num) (hsh : inRune c.shifted) (hbase : inRune c.base)
    (htext : ∀ p ∈ c.text, inRune p ∧ validRune p = true)
    (hkey : lookup2 (num, fin) specialsKeys = some c.key ∨ (lookup2 (num, fin) specialsKeys = none ∧ c.key = num))
    (hZ : ¬(num = 1 ∧ fin = 90))
    (hmok : ¬(c.key = 27 ∧ fin = 126)) :
    decodeRaw u (kittySeq num fin c f) =
      { keycode := c.key
        shifted := if f.withShifted then c.shifted else 0
        base := if f.withBase then c.base else 0
        mods := if f.hasMods then c.mods else 0
        event := if f.withEvent then c.event else 0
        text := if f.withText then c.text else [] } := by
  have h1 := toRune_id num hnum.1 hnum.2
  have h2 := toRune_id _ hsh.1 hsh.2
  have h3 := toRune_id _ hbase.1 hbase.2
  have h4 := map_text c.text htext
  have h0 : toRune 0 = 0 := by decide
  have hmok' : ¬(c.key = 27 ∧ fin = 126 ∧ ¬c.text = []) := fun h => hmok ⟨h.1, h.2.1⟩
  obtain ⟨ws, wb, wm, we, wt⟩ := f
  rcases hkey with hk | ⟨hk, hk'⟩
  · cases ws <;> cases wb <;> cases wm <;> cases we <;> cases wt <;>
      simp [kittySeq, Form.hasMods, decodeRaw, csiParams, csiCodes, csiMods, h1, h2, h3, h4, h0, hk, hZ, hmok'] <;>
      (try (intro a b; exact absurd ⟨a, b⟩ hmok))
  · have hm2 : ¬(num = 27 ∧ fin = 126) := hk' ▸ hmok
    have hm3 : ¬(num = 27 ∧ fin = 126 ∧ ¬c.text = []) := fun h => hm2 ⟨h.1, h.2.1⟩
    cases ws <;> cases wb <;> cases wm <;> cases we <;> cases wt <;>
      simp [kittySeq, Form.hasMods, decodeRaw, csiParams, csiCodes, csiMods, h1, h2, h3, h4, h0, hk, hZ, hm3, hk']

theorem lookup2_some_mem {k : Int × Int} {v : Int} :
    ∀ {l : List ((Int × Int) × Int)}, lookup2 k l = some v → ((k.1, k.2), v) ∈ l
  | [], h => by simp [lookup2] at h
  | (k', v') :: rest, h => by
    unfold lookup2 at h
    split at h
    · rename_i hk
      cases h
      have : k' = (k.1, k.2) := by
        rcases k' with ⟨a, b⟩; simp at hk; simp [hk.1, hk.2]
      simp [this]
    · exact List.mem_cons_of_mem _ (lookup2_some_mem h)

theorem all_lookup {l l' : List ((Int × Int) × Int)} (h : (l.all fun e => lookup2 e.1 l' = some e.2) = true)
    {e : (Int × Int) × Int} (he : e ∈ l) : lookup2 e.1 l' = some e.2 := by
  have := List.all_eq_true.mp h e he
  simpa using this

/-- Two tables that find each other's entries give the same lookups. -/
theorem lookup2_tables_agree {l l' : List ((Int × Int) × Int)}
    (h1 : (l.all fun e => lookup2 e.1 l' = some e.2) = true)
    (h2 : (l'.all fun e => lookup2 e.1 l = some e.2) = true) (k : Int × Int) :
    lookup2 k l = lookup2 k l' := by
  cases h : lookup2 k l with
  | some v =>
    have := all_lookup h1 (lookup2_some_mem h)
    simpa using this.symm
  | none =>
    cases h' : lookup2 k l' with
    | none => rfl
    | some w =>
      have := all_lookup h2 (lookup2_some_mem h')
      have e : lookup2 k l = some w := by simpa using this
      rw [h] at e; cases e

theorem decodeKey_print (u : Uni) (g : Str) (hg : g ≠ [])
    (h127 : u.isUpper (g.headD 0) = true → u.toLower (g.headD 0) ≠ 127) :
    decodeKey u (.print g) = printExpected u g := by
  have hraw : decodeRaw u (.print g) = printExpected u g := by
    dsimp only [decodeRaw, printExpected]
    generalize g.headD 0 = ch at h127 ⊢
    by_cases hu : u.isUpper ch = true
    · have := h127 hu
      simp [hu, KeyBackspace, this, ModShift, shiftBit]
    · by_cases hd : ch = 127
      · subst hd; simp [hu, KeyBackspace]
      · simp [hu, hd, KeyBackspace]
  rw [decodeKey_eq, hraw]
  apply shiftFix_id
  dsimp only [printExpected]
  generalize g.headD 0 = ch
  by_cases hu : u.isUpper ch = true
  · left; simp [hu, hg]
  · by_cases hd : ch = 127
    · right; subst hd; simp [hu, stripLocks, andNot, shiftBit]
    · left; simp [hu, hd, hg]

theorem decodeKey_c0 (u : Uni) (b : Int) (h0 : 0 ≤ b) (h1 : b < 32) :
    decodeKey u (.c0 b) = c0Expected b := by
  obtain ⟨n, rfl⟩ : ∃ n : Nat, b = n := ⟨b.toNat, by omega⟩
  have hn : n < 32 := by omega
  have := c0Raw_table ⟨n, hn⟩
  rw [decodeKey_eq, decodeRaw_c0, shiftFix_id _ _ (Or.inr this.2)]
  exact this.1

theorem decodeKey_esc (u : Uni) (final : Int) : decodeKey u (.esc final) = escExpected u final := by
  rw [decodeKey_eq]
  have hraw : decodeRaw u (.esc final) = escExpected u final := by
    dsimp only [decodeRaw, escExpected]
    split <;> rfl
  rw [hraw]
  apply shiftFix_id; right
  unfold escExpected
  split
  · show stripLocks (altBit ||| shiftBit) ≠ shiftBit; decide
  · show stripLocks altBit ≠ shiftBit; decide

end VaxisModel.Lemmas.KeyDecode
