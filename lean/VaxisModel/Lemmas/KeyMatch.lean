/-
Helper lemmas for C09: bit-level facts about `andNot` (Go's `&^`) and the reduction of
`Model.Key.matches` to the documented rules.
-/
import VaxisModel.Model.Key
import VaxisModel.Spec.KeyEnc

namespace VaxisModel.Lemmas.KeyMatch
open VaxisModel.Model.Key VaxisModel.Spec.KeyEnc VaxisModel.Gen.Keys

theorem testBit_andNot (a b i : Nat) : (andNot a b).testBit i = (a.testBit i && !b.testBit i) := by
  simp only [andNot, Nat.testBit_xor, Nat.testBit_and]
  cases a.testBit i <;> cases b.testBit i <;> rfl

theorem andNot_andNot (x a b : Nat) : andNot (andNot x a) b = andNot x (a ||| b) := by
  apply Nat.eq_of_testBit_eq; intro i
  simp only [testBit_andNot, Nat.testBit_or]
  cases x.testBit i <;> cases a.testBit i <;> cases b.testBit i <;> rfl

theorem ite_true_iff {c : Prop} [Decidable c] {e : Bool} :
    ((if c then true else e) = true) ↔ (c ∨ e = true) := by
  by_cases h : c <;> simp [h]

/-- The lock removal of `Matches` is `stripLocks`. -/
theorem strip_eq (m : Nat) : andNot (andNot m ModCapsLock) ModNumLock = stripLocks m := by
  rw [andNot_andNot]; rfl

/-- `Model.Key.matches` is exactly the documented disjunction. -/
theorem matches_iff (u : Uni) (k : Key) (key : Int) (m : Nat) :
    «matches» u k key m = true ↔ matchSpec u k key m := by
  unfold «matches» matchSpec
  simp only [ite_true_iff, strip_eq]
  have hs : ModShift = shiftBit := rfl
  simp only [hs, unshift, Bool.and_eq_true, Bool.not_eq_true', Bool.false_eq_true, or_false]
  constructor
  · rintro (h | h | h | h | ⟨⟨h1, h2⟩, (⟨h3, h4⟩ | ⟨h3, h4⟩)⟩ | h)
    · exact Or.inl h
    · exact Or.inr (Or.inl h)
    · exact Or.inr (Or.inr (Or.inl h))
    · exact Or.inr (Or.inr (Or.inr (Or.inl h)))
    · exact Or.inr (Or.inr (Or.inr (Or.inr (Or.inl ⟨h1, h2, Or.inl h3, h4.symm⟩))))
    · exact Or.inr (Or.inr (Or.inr (Or.inr (Or.inl ⟨h1, h2, Or.inr h3, h4.symm⟩))))
    · exact Or.inr (Or.inr (Or.inr (Or.inr (Or.inr h))))
  · rintro (h | h | h | h | ⟨h1, h2, (h3 | h3), h4⟩ | h)
    · exact Or.inl h
    · exact Or.inr (Or.inl h)
    · exact Or.inr (Or.inr (Or.inl h))
    · exact Or.inr (Or.inr (Or.inr (Or.inl h)))
    · exact Or.inr (Or.inr (Or.inr (Or.inr (Or.inl ⟨⟨h1, h2⟩, Or.inl ⟨h3, h4.symm⟩⟩))))
    · exact Or.inr (Or.inr (Or.inr (Or.inr (Or.inl ⟨⟨h1, h2⟩, Or.inr ⟨h3, h4.symm⟩⟩))))
    · exact Or.inr (Or.inr (Or.inr (Or.inr (Or.inr h))))

/-- Clearing bits outside the strong mask does not change the strong modifiers. -/
theorem strong_andNot (x b : Nat) (h : b &&& strongMask = 0) : strong (andNot x b) = strong x := by
  unfold strong andNot
  rw [Nat.and_xor_distrib_right, Nat.and_assoc, h, Nat.and_zero, Nat.xor_zero]

theorem strong_strip (m : Nat) : strong (stripLocks m) = strong m := strong_andNot _ _ (by decide)
theorem strong_unshift (m : Nat) : strong (unshift m) = strong m := strong_andNot _ _ (by decide)

/-- Everything but Shift, Caps Lock and Num Lock. -/
def weakMask : Nat := shiftBit ||| capsBit ||| numBit

theorem unshift_strip (m : Nat) : unshift (stripLocks m) = andNot m weakMask := by
  unfold unshift stripLocks weakMask
  rw [andNot_andNot]
  congr 1

theorem unshift_idem (m : Nat) : unshift (unshift m) = unshift m := by
  unfold unshift; rw [andNot_andNot, Nat.or_self]

/-- Whatever rule fires, the two masks agree outside Shift / Caps Lock / Num Lock. -/
theorem matchSpec_core {u : Uni} {k : Key} {key : Int} {m : Nat} (h : matchSpec u k key m) :
    andNot k.mods weakMask = andNot m weakMask := by
  rw [← unshift_strip, ← unshift_strip]
  rcases h with ⟨_, h⟩ | ⟨_, h⟩ | ⟨_, h⟩ | ⟨_, h⟩ | ⟨_, _, _, h⟩ | ⟨_, _, _, _, h⟩
  · rw [h]
  · rw [h]
  · rw [h, unshift_idem]
  · rw [h]
  · exact h.symm
  · exact h.symm

/-- Toggling lock bits does not change `stripLocks`. -/
theorem strip_xor_locks (m l : Nat) (hl : andNot l (capsBit ||| numBit) = 0) :
    stripLocks (m ^^^ l) = stripLocks m := by
  apply Nat.eq_of_testBit_eq; intro i
  have h := congrArg (·.testBit i) hl
  simp only [testBit_andNot, Nat.zero_testBit] at h
  simp only [stripLocks, testBit_andNot, Nat.testBit_xor]
  cases hb : (capsBit ||| numBit).testBit i <;> simp_all

/-- `matchSpec` sees the modifier masks only through `stripLocks`. -/
theorem matchSpec_congr (u : Uni) (k k' : Key) (key : Int) (m m' : Nat)
    (hk : k' = { k with mods := k'.mods }) (h1 : stripLocks k'.mods = stripLocks k.mods)
    (h2 : stripLocks m' = stripLocks m) : matchSpec u k' key m' ↔ matchSpec u k key m := by
  unfold matchSpec
  rw [h1, h2, hk]

end VaxisModel.Lemmas.KeyMatch
