/-
Helper lemmas for C09 `self_match`: `strings.Split` on `prefix ++ name`, and independence of
`MatchString` from the non-ASCII part of the `unicode` tables on ASCII strings.
-/
import VaxisModel.Model.Key
import VaxisModel.Spec.KeyEnc
import VaxisModel.Lemmas.KeyMatch

namespace VaxisModel.Lemmas.KeySelf
open VaxisModel.Model.Key VaxisModel.Spec.KeyEnc VaxisModel.Gen.Keys VaxisModel.Lemmas.KeyMatch

theorem splitOn_ne_nil (sep : Int) : ∀ s, splitOn sep s ≠ []
  | [] => by simp [splitOn]
  | c :: rest => by
    unfold splitOn
    split
    · simp
    · split <;> simp

theorem splitOn_noSep (sep : Int) : ∀ s, sep ∉ s → splitOn sep s = [s]
  | [], _ => by simp [splitOn]
  | c :: rest, h => by
    have hc : c ≠ sep := fun e => h (by simp [e])
    have hr : sep ∉ rest := fun e => h (by simp [e])
    simp [splitOn, hc, splitOn_noSep sep rest hr]

/-- Splitting `p ++ name` when `name` has no separator: the fields of `p`, with `name` appended to
    the last one. -/
theorem splitOn_append (sep : Int) (name : Str) (h : sep ∉ name) :
    ∀ p, splitOn sep (p ++ name) = (splitOn sep p).dropLast ++ [(splitOn sep p).getLastD [] ++ name]
  | [] => by simp [splitOn, splitOn_noSep sep name h]
  | c :: rest => by
    have ih := splitOn_append sep name h rest
    have hne := splitOn_ne_nil sep rest
    by_cases hc : c = sep
    · simp only [List.cons_append, splitOn, hc, if_true]
      rw [ih]
      cases hS : splitOn sep rest with
      | nil => exact absurd hS hne
      | cons a t => simp [List.dropLast, List.getLastD]
    · simp only [List.cons_append, splitOn, hc, if_false]
      rw [ih]
      cases hS : splitOn sep rest with
      | nil => exact absurd hS hne
      | cons a t =>
        cases t with
        | nil => simp
        | cons b t' => simp [List.dropLast]

/-- The `unicode` functions agree with Go's on ASCII (all that `MatchString` needs for ASCII names). -/
structure AsciiAgree (u : Uni) : Prop where
  lower : ∀ r, 0 ≤ r → r < 128 → u.toLower r = asciiUni.toLower r
  fold : ∀ a b, 0 ≤ a → a < 128 → 0 ≤ b → b < 128 → u.foldEq a b = asciiUni.foldEq a b

def asciiB (s : Str) : Bool := s.all fun r => decide (0 ≤ r) && decide (r < 128)

theorem asciiB_mem {s : Str} (h : asciiB s = true) {r : Int} (hr : r ∈ s) : 0 ≤ r ∧ r < 128 := by
  have := List.all_eq_true.mp h r hr
  simpa using this

theorem map_lower_congr {u : Uni} (hu : AsciiAgree u) : ∀ s, asciiB s = true → s.map u.toLower = s.map asciiUni.toLower
  | [], _ => rfl
  | c :: rest, h => by
    have hc := asciiB_mem h (List.mem_cons_self)
    have hr : asciiB rest = true := by
      simp only [asciiB, List.all_cons, Bool.and_eq_true] at h ⊢; exact h.2
    simp [hu.lower c hc.1 hc.2, map_lower_congr hu rest hr]

theorem parseMods_congr {u : Uni} (hu : AsciiAgree u) : ∀ l : List Str, (l.all asciiB) = true → parseMods u l = parseMods asciiUni l
  | [], _ => rfl
  | m :: rest, h => by
    simp only [List.all_cons, Bool.and_eq_true] at h
    simp only [parseMods, map_lower_congr hu m h.1, parseMods_congr hu rest h.2]

theorem equalFold_congr {u : Uni} (hu : AsciiAgree u) : ∀ a b : Str, asciiB a = true → asciiB b = true →
    equalFold u a b = equalFold asciiUni a b
  | [], [], _, _ => rfl
  | [], _ :: _, _, _ => rfl
  | _ :: _, [], _, _ => rfl
  | x :: a, y :: b, ha, hb => by
    have hx := asciiB_mem ha (List.mem_cons_self)
    have hy := asciiB_mem hb (List.mem_cons_self)
    have ha' : asciiB a = true := by simp only [asciiB, List.all_cons, Bool.and_eq_true] at ha ⊢; exact ha.2
    have hb' : asciiB b = true := by simp only [asciiB, List.all_cons, Bool.and_eq_true] at hb ⊢; exact hb.2
    simp only [equalFold, hu.fold x y hx.1 hx.2 hy.1 hy.2, equalFold_congr hu a b ha' hb']

theorem findName_congr {u : Uni} (hu : AsciiAgree u) (key : Str) (hk : asciiB key = true) :
    ∀ tbl : List (Int × Str), (tbl.all fun e => asciiB e.2) = true → findName u key tbl = findName asciiUni key tbl
  | [], _ => rfl
  | (k, name) :: rest, h => by
    simp only [List.all_cons, Bool.and_eq_true] at h
    simp only [findName, equalFold_congr hu name key h.1 hk, findName_congr hu key hk rest h.2]

theorem matchFields_concat (u : Uni) (k : Key) (D : List Str) (a b : Int) (rest : Str) :
    matchFields u k (D ++ [a :: b :: rest]) =
      match findName u (a :: b :: rest) keyNames with
      | some kn => «matches» u k kn (parseMods u D)
      | none => «matches» u k a (parseMods u D) := by
  simp [matchFields]
  cases findName u (a :: b :: rest) keyNames <;> rfl

theorem matchString_long (u : Uni) (k : Key) (p : Str) (a b : Int) (rest : Str) :
    matchString u k (p ++ a :: b :: rest) = matchFields u k (splitOn 43 (p ++ a :: b :: rest)) := by
  cases p with
  | nil => rfl
  | cons c p' =>
    cases p' with
    | nil => rfl
    | cons d p'' => rfl

theorem keyString_named (u : Uni) (k : Key) (hev : k.event ≠ EventRelease)
    (hk : k.keycode > maxRune ∨ k.keycode ∈ [KeyTab, KeySpace, KeyEsc, KeyBackspace, KeyEnter]) :
    keyString u k = modPrefix k.mods stringMods ++ findKeyName k.keycode keyNames := by
  unfold keyString
  simp only [hev, ne_eq, not_false_eq_true, if_true]
  rcases hk with h | h
  · have h' : k.keycode > 1114111 := h
    have e1 : ¬(k.keycode = KeyTab ∨ k.keycode = KeySpace ∨ k.keycode = KeyEsc ∨ k.keycode = KeyBackspace ∨ k.keycode = KeyEnter) := by
      simp only [KeyTab, KeySpace, KeyEsc, KeyBackspace, KeyEnter]; omega
    have e2 : ¬ k.keycode = 8 := by omega
    have e3 : ¬ k.keycode < 0 := by omega
    have e4 : ¬ k.keycode < 0x20 := by omega
    have e5 : ¬ k.keycode ≤ maxRune := by simp only [maxRune]; omega
    simp only [e1, e2, e3, e4, e5, if_false]
  · have e1 : (k.keycode = KeyTab ∨ k.keycode = KeySpace ∨ k.keycode = KeyEsc ∨ k.keycode = KeyBackspace ∨ k.keycode = KeyEnter) := by
      simpa using h
    simp only [e1, if_true]

theorem findKeyName_none (kc : Int) : ∀ tbl : List (Int × Str), (∀ e ∈ tbl, e.1 ≠ kc) → findKeyName kc tbl = []
  | [], _ => rfl
  | (k, n) :: rest, h => by
    have h1 : k ≠ kc := h (k, n) (by simp)
    simp [findKeyName, h1, findKeyName_none kc rest (fun e he => h e (by simp [he]))]

theorem matchFields_single (u : Uni) (k : Key) (D : List Str) (c : Int) :
    matchFields u k (D ++ [[c]]) = «matches» u k c (parseMods u D) := by
  simp [matchFields]

theorem splitOn_sep (sep : Int) : ∀ p, splitOn sep (p ++ [sep]) = splitOn sep p ++ [[]]
  | [] => by simp [splitOn]
  | c :: rest => by
    have ih := splitOn_sep sep rest
    have hne := splitOn_ne_nil sep rest
    by_cases hc : c = sep
    · simp only [List.cons_append, splitOn, hc, if_true, ih, List.cons_append]
    · simp only [List.cons_append, splitOn, hc, if_false, ih]
      cases hS : splitOn sep rest with
      | nil => exact absurd hS hne
      | cons a t => simp

theorem matchFields_plus (u : Uni) (k : Key) (D : List Str) (hD : D ≠ []) :
    matchFields u k (D ++ [[], []]) = «matches» u k 43 (parseMods u D) := by
  have h1 : (D ++ [[], []]).dropLast = D ++ [[]] := by
    have : D ++ [[], []] = (D ++ [[]]) ++ [([] : Str)] := by simp
    rw [this, List.dropLast_concat]
  have h2 : (D ++ [[], []]).getLastD [] = ([] : Str) := by
    have : D ++ [[], []] = (D ++ [[]]) ++ [([] : Str)] := by simp
    rw [this, List.getLastD_concat]
  have h3 : (D ++ [([] : Str)]).getLastD [0] = ([] : Str) := List.getLastD_concat ..
  have h4 : (D ++ [[], []]).length > 2 := by
    cases D with
    | nil => exact absurd rfl hD
    | cons a t => simp
  have h5 : (D ++ [([] : Str)]).dropLast = D := List.dropLast_concat
  unfold matchFields
  simp only [h1, h2, h3, h4, h5, and_self, decide_true, if_true]

theorem dropLast_concat_of_last : ∀ S : List Str, S ≠ [] → S.getLastD [] = [] → S = S.dropLast ++ [[]]
  | [], h, _ => absurd rfl h
  | [x], _, h => by simp [List.getLastD] at h; simp [h]
  | x :: y :: t, _, h => by
    have ih := dropLast_concat_of_last (y :: t) (by simp) (by simpa [List.getLastD] using h)
    simp only [List.dropLast_cons_cons, List.cons_append]
    rw [← ih]

theorem named_of_any {kc : Int} (h : (keyNames.any fun e => e.1 == kc) = true) : ∃ e ∈ keyNames, e.1 = kc := by
  obtain ⟨e, he, h⟩ := List.any_eq_true.mp h
  exact ⟨e, he, by simpa using h⟩

end VaxisModel.Lemmas.KeySelf
