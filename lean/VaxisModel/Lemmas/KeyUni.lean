/-
Helper lemmas for Props/C09Uni.lean (round 2): the CSI arm of `decodeKey` in closed form for every
parameter list over ℤ, and `sameForMatching_sound` for an arbitrary `unicode` oracle.
-/
import VaxisModel.Model.Key
import VaxisModel.Spec.KeyEnc
import VaxisModel.Spec.KeyEncUni
import VaxisModel.Lemmas.KeyMatch
import VaxisModel.Lemmas.KeyDecode
import VaxisModel.Lemmas.KeyCross

namespace VaxisModel.Lemmas.KeyUni
open VaxisModel.Model.Key VaxisModel.Spec.KeyEnc VaxisModel.Spec.KeyEncUni VaxisModel.Gen.Keys
open VaxisModel.Lemmas.KeyMatch VaxisModel.Lemmas.KeyDecode VaxisModel.Lemmas.KeyCross

/-! ## `rune(x)` -/

theorem toRune_eq_wrap32 (x : Int) : toRune x = wrap32 x := by
  unfold toRune wrap32
  simp only
  split <;> omega

theorem wrap32_id (x : Int) (h0 : 0 ≤ x) (h1 : x < 2147483648) : wrap32 x = x := by
  unfold wrap32; simp only; split <;> omega

theorem wrap32_periodic (x n : Int) : wrap32 (x + 4294967296 * n) = wrap32 x := by
  unfold wrap32
  simp only [Int.add_mul_emod_self_left]

theorem wrap32_high (x : Int) (h0 : 2147483648 ≤ x) (h1 : x < 4294967296) : wrap32 x = x - 4294967296 := by
  unfold wrap32; simp only; split <;> omega

theorem wrap32_range (x : Int) : -2147483648 ≤ wrap32 x ∧ wrap32 x < 2147483648 := by
  unfold wrap32; simp only; split <;> omega

/-! ## Loops of the CSI arm run out of cases -/

theorem csiCodes_ge3 (fin : Int) : ∀ (l : List Int) (j : Nat) (key : Key), 3 ≤ j → csiCodes fin l j key = key
  | [], _, _, _ => rfl
  | _ :: rest, j, key, h => by
    unfold csiCodes
    match j, h with
    | j + 3, _ => exact csiCodes_ge3 fin rest (j + 3 + 1) key (by omega)

theorem csiMods_ge2 (pm : List Int) : ∀ (l : List Int) (j : Nat) (key : Key), 2 ≤ j → csiMods pm l j key = key
  | [], _, _, _ => rfl
  | _ :: rest, j, key, h => by
    unfold csiMods
    match j, h with
    | j + 2, _ => exact csiMods_ge2 pm rest (j + 2 + 1) key (by omega)

theorem csiParams_ge3 (fin : Int) : ∀ (l : List (List Int)) (i : Nat) (key : Key), 3 ≤ i → csiParams fin l i key = key
  | [], _, _, _ => rfl
  | _ :: rest, i, key, h => by
    unfold csiParams
    match i, h with
    | i + 3, _ => exact csiParams_ge3 fin rest (i + 3 + 1) key (by omega)

/-- The key-code sub-parameters in closed form (any length). -/
def codesSpec (fin : Int) (p0 : List Int) (key : Key) : Key :=
  let k1 : Key := match p0[0]? with
    | none => key
    | some n =>
      if wrap32 n = 1 ∧ fin = 90 then { key with keycode := KeyTab, mods := ModShift }
      else match lookup2 (wrap32 n, fin) specialsKeys with
        | some k => { key with keycode := k }
        | none => { key with keycode := wrap32 n }
  let k2 : Key := match p0[1]? with | some s => { k1 with shifted := wrap32 s } | none => k1
  match p0[2]? with | some b => { k2 with base := wrap32 b } | none => k2

theorem csiCodes_eq (fin : Int) (p0 : List Int) (key : Key) : csiCodes fin p0 0 key = codesSpec fin p0 key := by
  match p0 with
  | [] => rfl
  | [a] =>
    simp only [csiCodes, codesSpec, toRune_eq_wrap32]
    by_cases hz : wrap32 a = 1 ∧ fin = 90
    · simp [hz]
    · cases hl : lookup2 (wrap32 a, fin) specialsKeys <;> simp [hz, hl]
  | [a, b] =>
    simp only [csiCodes, codesSpec, toRune_eq_wrap32]
    by_cases hz : wrap32 a = 1 ∧ fin = 90
    · simp [hz]
    · cases hl : lookup2 (wrap32 a, fin) specialsKeys <;> simp [hz, hl]
  | a :: b :: c :: rest =>
    simp only [csiCodes, codesSpec, toRune_eq_wrap32, csiCodes_ge3 fin rest 3 _ (Nat.le_refl 3)]
    by_cases hz : wrap32 a = 1 ∧ fin = 90
    · simp [hz]
    · cases hl : lookup2 (wrap32 a, fin) specialsKeys <;> simp [hz, hl]

/-- The modifier sub-parameters in closed form (any length).  The model's `pm.headD 0` is only
    evaluated at `j = 0` of `csiMods pm pm 0`, where the list is `m :: _`: the default is never used. -/
def modsSpec (p1 : List Int) (key : Key) : Key :=
  match p1 with
  | [] => key
  | [m] => { key with mods := (m - 1).toNat }
  | m :: e :: _ => { key with mods := (m - 1).toNat, event := e - 1 }

theorem csiMods_eq (p1 : List Int) (key : Key) : csiMods p1 p1 0 key = modsSpec p1 key := by
  match p1 with
  | [] => rfl
  | [m] => simp [csiMods, modsSpec]
  | m :: e :: rest =>
    simp only [csiMods, modsSpec, csiMods_ge2 (m :: e :: rest) rest 2 _ (Nat.le_refl 2)]
    simp

/-- The same loop with the default of `headD` replaced by any other value gives the same result:
    Go's `pm[0]` inside `for j, ps := range pm` is never out of range. -/
def csiModsD (d : Int) (pm : List Int) : List Int → Nat → Key → Key
  | [], _, key => key
  | ps :: rest, j, key =>
    let key' :=
      match j with
      | 0 => { key with mods := (pm.headD d - 1).toNat }
      | 1 => { key with event := ps - 1 }
      | _ => key
    csiModsD d pm rest (j + 1) key'

theorem csiModsD_zero (pm l : List Int) (j : Nat) (key : Key) : csiModsD 0 pm l j key = csiMods pm l j key := by
  induction l generalizing j key with
  | nil => rfl
  | cons a l ih => unfold csiModsD csiMods; exact ih _ _

theorem csiModsD_ge2 (d : Int) (pm : List Int) : ∀ (l : List Int) (j : Nat) (key : Key), 2 ≤ j → csiModsD d pm l j key = key
  | [], _, _, _ => rfl
  | _ :: rest, j, key, h => by
    unfold csiModsD
    match j, h with
    | j + 2, _ => exact csiModsD_ge2 d pm rest (j + 2 + 1) key (by omega)

theorem csiMods_default_unused (d : Int) (p1 : List Int) (key : Key) : csiModsD d p1 p1 0 key = csiMods p1 p1 0 key := by
  rw [csiMods_eq]
  match p1 with
  | [] => rfl
  | [m] => simp [csiModsD, modsSpec]
  | m :: e :: rest =>
    simp only [csiModsD, modsSpec, csiModsD_ge2 d (m :: e :: rest) rest 2 _ (Nat.le_refl 2)]
    simp

/-- The text / modifyOtherKeys parameter in closed form. -/
def textSpec (fin : Int) (p2 : List Int) (key : Key) : Key :=
  match p2 with
  | [] => { key with text := key.text }
  | c :: _ =>
    if key.keycode = 27 ∧ fin = 126 then { key with keycode := wrap32 c }
    else { key with text := key.text ++ p2.map textRune }

theorem map_textRune (p2 : List Int) :
    (p2.map fun p => if validRune (toRune p) then toRune p else 0xFFFD) = p2.map textRune := by
  apply List.map_congr_left
  intro p _
  simp only [textRune, toRune_eq_wrap32]

/-- All parameters in closed form. -/
def paramsSpec (fin : Int) (ps : List (List Int)) (key : Key) : Key :=
  let k0 := match ps[0]? with | some p0 => codesSpec fin p0 key | none => key
  let k1 := match ps[1]? with | some p1 => modsSpec p1 k0 | none => k0
  match ps[2]? with | some p2 => textSpec fin p2 k1 | none => k1

theorem csiParams2_eq (fin : Int) (p2 : List Int) (key : Key) (rest : List (List Int)) :
    csiParams fin (p2 :: rest) 2 key = textSpec fin p2 key := by
  unfold csiParams
  simp only [csiParams_ge3 fin rest 3 _ (Nat.le_refl 3), map_textRune]
  match p2 with
  | [] => simp [textSpec]
  | c :: t =>
    by_cases h : key.keycode = 27 ∧ fin = 126
    · simp [textSpec, h, toRune_eq_wrap32]
    · have h' : ¬(key.keycode = 27 ∧ fin = 126 ∧ c :: t ≠ []) := fun x => h ⟨x.1, x.2.1⟩
      simp only [textSpec, h, h', if_false]

theorem csiParams_eq (fin : Int) (ps : List (List Int)) (key : Key) :
    csiParams fin ps 0 key = paramsSpec fin ps key := by
  match ps with
  | [] => rfl
  | [p0] => simp [csiParams, paramsSpec, csiCodes_eq]
  | [p0, p1] => simp [csiParams, paramsSpec, csiCodes_eq, csiMods_eq]
  | p0 :: p1 :: p2 :: rest =>
    have := csiParams2_eq fin p2 (modsSpec p1 (codesSpec fin p0 key)) rest
    simp only [csiParams, paramsSpec, csiCodes_eq, csiMods_eq] at this ⊢
    simpa using this

/-! ## The closed forms are the Spec's `csiFields` -/

theorem codesSpec_fields (fin : Int) (p0 : List Int)
    (htab : ∀ k, lookup2 k specialsKeys = lookup2 k functional) :
    codesSpec fin p0 {} =
      { keycode := csiKeyOf p0 fin
        shifted := match p0[1]? with | some s => wrap32 s | none => 0
        base := match p0[2]? with | some b => wrap32 b | none => 0
        mods := if isShiftTab p0 fin = true then shiftBit else 0 } := by
  have hs : ModShift = shiftBit := rfl
  match p0 with
  | [] => rfl
  | [a] =>
    simp only [codesSpec, csiKeyOf, isShiftTab, htab, hs]
    by_cases hz : wrap32 a = 1 ∧ fin = 90
    · simp [hz]
    · cases hl : lookup2 (wrap32 a, fin) functional <;> simp [hz, hl]
  | [a, b] =>
    simp only [codesSpec, csiKeyOf, isShiftTab, htab, hs]
    by_cases hz : wrap32 a = 1 ∧ fin = 90
    · simp [hz]
    · cases hl : lookup2 (wrap32 a, fin) functional <;> simp [hz, hl]
  | a :: b :: c :: rest =>
    simp only [codesSpec, csiKeyOf, isShiftTab, htab, hs]
    by_cases hz : wrap32 a = 1 ∧ fin = 90
    · simp [hz]
    · cases hl : lookup2 (wrap32 a, fin) functional <;> simp [hz, hl]

theorem modsSpec_fields (p1 : List Int) (k : Key) :
    modsSpec p1 k =
      { k with
        mods := match p1[0]? with | some m => (m - 1).toNat | none => k.mods
        event := match p1[1]? with | some e => e - 1 | none => k.event } := by
  match p1 with
  | [] => rfl
  | [m] => rfl
  | m :: e :: rest => rfl

theorem textSpec_fields (fin : Int) (p2 : List Int) (k : Key) (ht : k.text = []) :
    textSpec fin p2 k =
      { k with
        keycode := match p2[0]? with
          | some c => if decide (k.keycode = 27 ∧ fin = 126) = true then wrap32 c else k.keycode
          | none => k.keycode
        text := if decide (k.keycode = 27 ∧ fin = 126) = true then [] else p2.map textRune } := by
  match p2 with
  | [] => cases k; simp_all [textSpec]
  | c :: t =>
    by_cases h : k.keycode = 27 ∧ fin = 126
    · simp [textSpec, h, ht]
    · simp [textSpec, h, ht]

theorem paramsSpec_fields (fin : Int) (ps : List (List Int)) (hne : ps ≠ [])
    (htab : ∀ k, lookup2 k specialsKeys = lookup2 k functional) :
    paramsSpec fin ps {} = csiFieldsNE ps fin := by
  match ps, hne with
  | [p0], _ =>
    simp only [paramsSpec, csiFieldsNE, List.getElem?_cons_zero, List.getElem?_cons_succ, List.getElem?_nil,
      Option.getD_some, Option.getD_none, codesSpec_fields fin p0 htab, List.map_nil, ite_self]
    rfl
  | [p0, p1], _ =>
    simp only [paramsSpec, csiFieldsNE, List.getElem?_cons_zero, List.getElem?_cons_succ, List.getElem?_nil,
      Option.getD_some, Option.getD_none, codesSpec_fields fin p0 htab, modsSpec_fields, List.map_nil, ite_self]
    rfl
  | p0 :: p1 :: p2 :: rest, _ =>
    simp only [paramsSpec, csiFieldsNE, List.getElem?_cons_zero, List.getElem?_cons_succ,
      Option.getD_some, codesSpec_fields fin p0 htab, modsSpec_fields]
    rw [textSpec_fields fin p2 _ rfl]
    rfl

theorem decodeRaw_csi_fields (u : Uni) (params : List (List Int)) (fin : Int)
    (htab : ∀ k, lookup2 k specialsKeys = lookup2 k functional) :
    decodeRaw u (.csi params fin) = csiFields params fin := by
  show csiParams fin (if params = [] then [[1]] else params) 0 {} = _
  rw [csiParams_eq, paramsSpec_fields fin _ (by split <;> simp_all) htab]
  rfl

theorem shiftFix_keycode (u : Uni) (k : Key) : (shiftFix u k).keycode = k.keycode := by
  unfold shiftFix; split <;> rfl

theorem shiftFix_mods (u : Uni) (k : Key) : (shiftFix u k).mods = k.mods := by
  unfold shiftFix; split <;> rfl

theorem lookup2_neg (n f : Int) (hn : n < 0) : ∀ (l : List ((Int × Int) × Int)),
    (l.all fun e => decide (0 ≤ e.1.1)) = true → lookup2 (n, f) l = none
  | [], _ => rfl
  | (k', v) :: rest, h => by
    simp only [List.all_cons, Bool.and_eq_true, decide_eq_true_eq] at h
    unfold lookup2
    have : ¬((n, f).1 = k'.1 ∧ (n, f).2 = k'.2) := by
      intro hh; have := hh.1; simp only at this; omega
    rw [if_neg this]
    exact lookup2_neg n f hn rest h.2

theorem functional_nonneg : (functional.all fun e => decide (0 ≤ e.1.1)) = true := by decide +kernel

/-- `String()` of a key with a negative key code. -/
theorem keyString_neg (u : Uni) (k : Key) (h : k.keycode < 0) :
    keyString u k = [105, 110, 118, 97, 108, 105, 100] := by
  unfold keyString
  have e1 : ¬(k.keycode = KeyTab ∨ k.keycode = KeySpace ∨ k.keycode = KeyEsc ∨ k.keycode = KeyBackspace ∨ k.keycode = KeyEnter) := by
    simp only [KeyTab, KeySpace, KeyEsc, KeyBackspace, KeyEnter]; omega
  have e2 : ¬ k.keycode = 8 := by omega
  simp only [e1, e2, h, if_true, if_false]

theorem wrap32_idem (x : Int) : wrap32 (wrap32 x) = wrap32 x := by
  have := wrap32_range x
  unfold wrap32 at this ⊢
  simp only at this ⊢
  split <;> split <;> omega

theorem textRune_wrap (x : Int) : textRune (wrap32 x) = textRune x := by
  unfold textRune; rw [wrap32_idem]

/-- Only the residues modulo 2^32 of the rune-typed fields matter, and nothing after the third parameter. -/
theorem csiFieldsNE_normal (ps : List (List Int)) (fin : Int) :
    csiFieldsNE ps fin = csiFieldsNE (csiNormal ps) fin := by
  have ht : (textRune ∘ wrap32) = textRune := by funext x; exact textRune_wrap x
  match ps with
  | [] => rfl
  | [p0] =>
    rcases p0 with _ | ⟨a, _ | ⟨b, _ | ⟨c, r⟩⟩⟩ <;>
      simp [csiNormal, csiFieldsNE, isShiftTab, csiKeyOf, isModifyOther, wrap32_idem]
  | [p0, p1] =>
    rcases p0 with _ | ⟨a, _ | ⟨b, _ | ⟨c, r⟩⟩⟩ <;>
      simp [csiNormal, csiFieldsNE, isShiftTab, csiKeyOf, isModifyOther, wrap32_idem]
  | p0 :: p1 :: p2 :: rest =>
    rcases p0 with _ | ⟨a, _ | ⟨b, _ | ⟨c, r⟩⟩⟩ <;> rcases p2 with _ | ⟨d, t⟩ <;>
      simp [csiNormal, csiFieldsNE, isShiftTab, csiKeyOf, isModifyOther, wrap32_idem, textRune_wrap, ht]

theorem csiFields_normal (params : List (List Int)) (fin : Int) :
    csiFields params fin = csiFields (csiNormal params) fin := by
  unfold csiFields
  match params with
  | [] => rfl
  | [p0] => simpa [csiNormal] using csiFieldsNE_normal [p0] fin
  | [p0, p1] => simpa [csiNormal] using csiFieldsNE_normal [p0, p1] fin
  | p0 :: p1 :: p2 :: rest => simpa [csiNormal] using csiFieldsNE_normal (p0 :: p1 :: p2 :: rest) fin

/-- A valid code point is a 31-bit non-negative value. -/
theorem validRune_inRune {c : Int} (hv : validRune c = true) : inRune c := by
  simp only [validRune, Bool.and_eq_true, decide_eq_true_eq] at hv
  have hmr : maxRune = 1114111 := rfl
  exact ⟨hv.1.1, by have := hv.1.2; omega⟩

/-! ## Two events `String()` and `Matches` cannot tell apart, for an arbitrary `unicode` oracle -/

/-- The legacy byte carries the key's own character as text, the kitty report carries no text; the
    key is unmodified; no lower-case rune *with an upper case of its own* has the key's character as that
    upper case (else rule 6 of `Matches` — "Shift + lower-case binding matches the upper-case text" — fires
    for the legacy event only).  Since the repair of F209 rule 6 does not fire for a rune that is its own
    upper case ('ß': `IsLower('ß')` and `ToUpper('ß') = 'ß'`), so such keys meet the clause; Go's tables
    violate it only for the 27 title-case letters ᾈ … ῼ, which are what Shift + ᾀ … produces, not keys. -/
def OwnCharText (u : Uni) (k1 k2 : Key) : Prop :=
  k1.mods = 0 ∧ k1.text = [k1.keycode] ∧ k2.text = [] ∧ validRune k1.keycode = true ∧ k1.keycode ≠ 0xFFFD ∧
  ∀ r, u.isLower r = true → u.toUpper r ≠ r → u.toUpper r ≠ k1.keycode

theorem sameForMatching_sound_uni (u : Uni) (k1 k2 : Key)
    (hk : k1.keycode = k2.keycode) (hs : k1.shifted = k2.shifted) (hb : k1.base = k2.base)
    (hm : k1.mods = k2.mods) (he : k1.event = k2.event)
    (ht : k1.text = k2.text ∨ OwnCharText u k1 k2) :
    keyString u k1 = keyString u k2 ∧ ∀ b m, «matches» u k1 b m = «matches» u k2 b m := by
  refine ⟨keyString_congr _ _ _ hk hm he (by
    rcases ht with ht | ⟨hm0, _⟩
    · exact Or.inl ht
    · exact Or.inr hm0), ?_⟩
  intro b m
  rcases ht with ht | ⟨hm0, ht1, ht2, hv, hfffd, hup⟩
  · have : k1 = k2 := by
      cases k1; cases k2; simp_all
    rw [this]
  · rw [Bool.eq_iff_iff, matches_iff, matches_iff]
    unfold matchSpec
    rw [← hk, ← hs, ← hb, ← hm, ht1, ht2]
    have f2 : ∀ key, ([k1.keycode] : Str) = strOfRune key → k1.keycode = key := by
      intro key h
      unfold strOfRune at h
      split at h
      · simpa using h
      · simp at h; exact absurd h hfffd
    have g : ∀ key, ([] : Str) ≠ strOfRune key := by
      intro key; unfold strOfRune; split <;> simp
    have f6 : ∀ key, u.isLower key = true → u.toUpper key ≠ key → ([k1.keycode] : Str) ≠ strOfRune (u.toUpper key) := by
      intro key hl hne h
      exact hup key hl hne (f2 _ h).symm
    constructor
    · rintro (h | ⟨h, hM⟩ | h | h | h | ⟨_, hl, hne, h, _⟩)
      · exact Or.inl h
      · exact Or.inl ⟨f2 _ h, hM⟩
      · exact Or.inr (Or.inr (Or.inl h))
      · exact Or.inr (Or.inr (Or.inr (Or.inl h)))
      · exact Or.inr (Or.inr (Or.inr (Or.inr (Or.inl h))))
      · exact absurd h (f6 _ hl hne)
    · rintro (h | ⟨h, _⟩ | h | h | h | ⟨_, _, _, h, _⟩)
      · exact Or.inl h
      · exact absurd h (g _)
      · exact Or.inr (Or.inr (Or.inl h))
      · exact Or.inr (Or.inr (Or.inr (Or.inl h)))
      · exact Or.inr (Or.inr (Or.inr (Or.inr (Or.inl h))))
      · exact absurd h (g _)

/-- The ASCII criterion `sameForMatching` (Lemmas/KeyCross.lean) is an instance. -/
theorem sameForMatching_is_instance (k1 k2 : Key) (h : sameForMatching k1 k2 = true) :
    k1.keycode = k2.keycode ∧ k1.shifted = k2.shifted ∧ k1.base = k2.base ∧ k1.mods = k2.mods ∧
    k1.event = k2.event ∧ (k1.text = k2.text ∨ OwnCharText asciiUni k1 k2) := by
  simp only [sameForMatching, Bool.and_eq_true, Bool.or_eq_true, beq_iff_eq, Bool.not_eq_true',
    Bool.and_eq_false_imp, decide_eq_true_eq, decide_eq_false_iff_not] at h
  obtain ⟨⟨⟨⟨⟨hk, hs⟩, hb⟩, hm⟩, he⟩, ht⟩ := h
  refine ⟨hk, hs, hb, hm, he, ?_⟩
  rcases ht with ht | ⟨⟨⟨⟨⟨hm0, ht1⟩, ht2⟩, hv⟩, hfffd⟩, hup⟩
  · exact Or.inl ht
  · refine Or.inr ⟨hm0, ht1, ht2, hv, by simpa using hfffd, ?_⟩
    intro r hl _
    simp only [asciiUni, decide_eq_true_eq] at hl
    simp only [asciiUni, hl, and_self, if_true]
    omega

end VaxisModel.Lemmas.KeyUni
