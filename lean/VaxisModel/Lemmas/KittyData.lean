/-
Lemmas for C20 round 4: the image-data side of the terminal model (`Model/KittyTerm.lean`).  Invariant over all
histories: for every image, either `uploaded` is set, nothing waits in `k.buf` and the terminal holds the encoding of
the last successful `Resize`; or `uploaded` is clear and that encoding is the last one waiting in `k.buf`.
-/
import VaxisModel.Lemmas.KittyTerm

namespace VaxisModel.Lemmas.KittyData
open VaxisModel.Model.KittyTerm VaxisModel.Model.Placements VaxisModel.Spec.Images VaxisModel.Gen.ImageConsts
open VaxisModel.Lemmas.KittyTerm

/-- The invariant for one image, on the parts of the world it speaks about. -/
def DI (imgs : Nat → KBuf) (t : Term) (latest : Nat → Option Nat) (id : Nat) : Prop :=
  ((imgs id).uploaded = true ∧ (imgs id).buf = [] ∧ t.data id = latest id) ∨
  ((imgs id).uploaded = false ∧ (imgs id).buf.getLast? = latest id ∧ ((imgs id).buf = [] → t.data id = none))

def DataInv (w : World) (id : Nat) : Prop := DI w.imgs w.term w.latest id

theorem update_same {α : Type} (f : Nat → α) (i : Nat) (v : α) : update f i v i = v := by simp [update]
theorem update_other {α : Type} (f : Nat → α) (i j : Nat) (v : α) (h : j ≠ i) : update f i v j = f j := by simp [update, h]

/-- Transmitting a list of encodings for `id`: the last one stays (nothing changes when the list is empty); other
    images' data is untouched. -/
theorem run_transmits_data (t : Term) (id : Nat) (es : List Nat) (j : Nat) :
    (t.run (es.map fun e => Cmd.transmit id e)).data j =
      if j = id then (match es.getLast? with | some e => some e | none => t.data j) else t.data j := by
  induction es generalizing t with
  | nil => simp [Term.run]
  | cons e r ih =>
    rw [List.map_cons, run_cons, ih]
    by_cases hj : j = id
    · simp only [hj, if_true, Term.apply]
      cases hr : r.getLast? with
      | none =>
        have : r = [] := by simpa using hr
        subst this; simp
      | some x => rw [List.getLast?_cons, hr]; rfl
    · simp [hj, Term.apply]

theorem run_place_data (t : Term) (p : Placement) : (t.run [Cmd.place p]).data = t.data := rfl

/-- One `writeTo` of a placement keeps the invariant of every image. -/
theorem write_DI (imgs : Nat → KBuf) (t : Term) (latest : Nat → Option Nat) (p : Placement)
    (h : ∀ id, DI imgs t latest id) (id : Nat) :
    DI (update imgs p.id (writeWith stdWriteBody (imgs p.id)).1)
       (t.run ((writeWith stdWriteBody (imgs p.id)).2.flatMap (outCmds p))) latest id := by
  rw [outCmds_std, run_append]
  unfold DI
  rw [run_place_data]
  by_cases hid : id = p.id
  · subst hid
    rw [update_same, writeWith_std]
    rcases h p.id with ⟨hu, hb, hd⟩ | ⟨hu, hb, hd⟩
    · left
      simp only [hu, if_true]
      exact ⟨trivial, hb, hd⟩
    · left
      simp only [hu, Bool.false_eq_true, if_false, true_and]
      rw [run_transmits_data]
      simp only [if_true]
      cases hl : (imgs p.id).buf.getLast? with
      | none =>
        have hnil : (imgs p.id).buf = [] := by simpa using hl
        rw [← hb, hl]; exact hd hnil
      | some e => rw [← hb, hl]
  · rw [update_other _ _ _ _ hid]
    have hdata : (t.run (if (imgs p.id).uploaded = true then [] else List.map (fun e => Cmd.transmit p.id e) (imgs p.id).buf)).data id = t.data id := by
      cases (imgs p.id).uploaded
      · simp only [Bool.false_eq_true, if_false]; rw [run_transmits_data, if_neg hid]
      · rfl
    rw [hdata]
    exact h id

/-- All events of a frame keep the invariant. -/
theorem emit_DI (latest : Nat → Option Nat) (evs : List REv) : ∀ (imgs : Nat → KBuf) (t : Term),
    (∀ id, DI imgs t latest id) →
    ∀ id, DI (emit (fun _ => true) stdWriteBody imgs evs).1 (t.run (emit (fun _ => true) stdWriteBody imgs evs).2) latest id := by
  induction evs with
  | nil => intro imgs t h; exact h
  | cons ev r ih =>
    intro imgs t h
    rw [emit_cons, run_append]
    apply ih
    cases ev with
    | del p => exact h
    | wr p =>
      simp only [emitEv, if_true, List.nil_append]
      exact write_DI imgs t latest p h

theorem emit_keeps_uploaded (evs : List REv) : ∀ (imgs : Nat → KBuf) (id : Nat), (imgs id).uploaded = true →
    ((emit (fun _ => true) stdWriteBody imgs evs).1 id).uploaded = true := by
  induction evs with
  | nil => intro imgs id h; exact h
  | cons ev r ih =>
    intro imgs id h
    rw [emit_cons]
    apply ih
    cases ev with
    | del p => exact h
    | wr p =>
      simp only [emitEv, if_true]
      by_cases hid : id = p.id
      · subst hid; rw [update_same, writeWith_std, h]; exact h
      · rw [update_other _ _ _ _ hid]; exact h

/-- After the events of a frame, every image one of whose placements was written has `uploaded` set. -/
theorem emit_sets_uploaded (evs : List REv) : ∀ (imgs : Nat → KBuf) (p : Placement), REv.wr p ∈ evs →
    ((emit (fun _ => true) stdWriteBody imgs evs).1 p.id).uploaded = true := by
  induction evs with
  | nil => intro imgs p h; cases h
  | cons ev r ih =>
    intro imgs p h
    rw [emit_cons]
    rcases List.mem_cons.mp h with h | h
    · subst h
      apply emit_keeps_uploaded
      simp only [emitEv, if_true]
      rw [update_same, writeWith_std]
      cases hU : (imgs p.id).uploaded <;> simp [hU]
    · exact ih _ p h

theorem step_DI (w : World) (op : WOp) (h : ∀ id, DataInv w id) : ∀ id, DataInv (w.step op) id := by
  rw [step_std]
  cases op with
  | resize i ok =>
    cases ok
    · exact h
    · intro id
      show DI (update w.imgs i (resizeWith stdResizeBody (w.imgs i) w.serial)) w.term (update w.latest i (some w.serial)) id
      rw [resizeWith_std]
      by_cases hid : id = i
      · subst hid
        right
        rw [update_same, update_same]
        exact ⟨rfl, by simp, fun hn => by simp at hn⟩
      · unfold DI
        rw [update_other _ _ _ _ hid, update_other _ _ _ _ hid]
        exact h id
  | draw p => exact h
  | clear => exact h
  | render =>
    intro id
    exact emit_DI w.latest _ w.imgs w.term h id
  | refresh =>
    intro id
    exact emit_DI w.latest _ w.imgs w.term h id

theorem run_data (ops : List WOp) : ∀ w : World, (∀ id, DataInv w id) → ∀ id, DataInv (w.run ops) id := by
  induction ops with
  | nil => intro w h; exact h
  | cons op rest ih => intro w h; exact ih (w.step op) (step_DI w op h)

theorem init_data (id : Nat) : DataInv World.init id := Or.inr ⟨rfl, rfl, fun _ => rfl⟩

/-- Right after a render that wrote a placement of an image, the terminal has that image's latest encoding. -/
theorem written_data (w : World) (hw : ∀ id, DataInv w id) (refresh : Bool) (p : Placement)
    (hp : REv.wr p ∈ (renderGen { w.ps with refresh := w.ps.refresh || refresh }).2) :
    (w.step (if refresh then .refresh else .render)).term.data p.id = w.latest p.id := by
  have hinv := step_DI w (if refresh then .refresh else .render) hw p.id
  have h1 : renderOrder = stdOrder := by decide
  have h2 : renderShape = stdShape := by decide
  unfold renderGen at hp
  rw [h1, h2, same_std] at hp
  have hup : (((w.step (if refresh then .refresh else .render)).imgs) p.id).uploaded = true := by
    rw [step_std]
    cases refresh
    · exact emit_sets_uploaded _ w.imgs p hp
    · exact emit_sets_uploaded _ w.imgs p hp
  have hl : (w.step (if refresh then .refresh else .render)).latest = w.latest := by
    rw [step_std]; cases refresh <;> rfl
  rcases hinv with ⟨_, _, hd⟩ | ⟨hu, _, _⟩
  · rw [← hl]; exact hd
  · rw [hup] at hu; cases hu

end VaxisModel.Lemmas.KittyData
