/-
Lemmas for C20 round 4: histories that mix kitty and sixel images (`World.stepK`).  What a frame does to the terminal's
kitty tables is what the frame restricted to the kitty images does: sixel placements contribute no delete command and a
write the tables ignore, and the diff of `render` commutes with restricting both lists to the kitty images.
-/
import VaxisModel.Lemmas.KittyTerm
import VaxisModel.Lemmas.KittyData

namespace VaxisModel.Lemmas.KittyMixed
open VaxisModel.Model.KittyTerm VaxisModel.Model.Placements VaxisModel.Spec.Images VaxisModel.Gen.ImageConsts
open VaxisModel.Lemmas.KittyTerm

def evKitty (kitty : Nat → Bool) : REv → Bool
  | .del p => kitty p.id
  | .wr p => kitty p.id

/-- The regenerated staged render is `renderWith` on equality, deletes first. -/
theorem renderGen_std (s : State) :
    renderGen s = ((renderWith (fun a b => a == b) s).1,
      (renderWith (fun a b => a == b) s).2.deletes.map .del ++ (renderWith (fun a b => a == b) s).2.writes.map .wr) := by
  have h1 : renderOrder = stdOrder := by decide
  have h2 : renderShape = stdShape := by decide
  unfold renderGen
  rw [h1, h2, same_std]
  exact renderStaged_std _ s

theorem run_nil (t : Term) : t.run [] = t := rfl

/-- Events of sixel images change neither the image states nor the terminal. -/
theorem emit_kitty (kitty : Nat → Bool) (wb : List KStmt) (evs : List REv) : ∀ (imgs : Nat → KBuf) (t : Term),
    (emit kitty wb imgs evs).1 = (emit (fun _ => true) wb imgs (evs.filter (evKitty kitty))).1 ∧
    t.run (emit kitty wb imgs evs).2 = t.run (emit (fun _ => true) wb imgs (evs.filter (evKitty kitty))).2 := by
  induction evs with
  | nil => intro imgs t; exact ⟨rfl, rfl⟩
  | cons ev r ih =>
    intro imgs t
    rw [emit_cons]
    cases ev with
    | del p =>
      cases hk : kitty p.id
      · -- a sixel delete: nothing
        have hf : (REv.del p :: r).filter (evKitty kitty) = r.filter (evKitty kitty) := by simp [evKitty, hk]
        rw [hf]
        simp only [emitEv, hk, Bool.false_eq_true, if_false, List.nil_append]
        exact ih imgs t
      · have hf : (REv.del p :: r).filter (evKitty kitty) = REv.del p :: r.filter (evKitty kitty) := by simp [evKitty, hk]
        rw [hf, emit_cons]
        simp only [emitEv, hk, if_true, List.nil_append]
        rw [run_append, run_append]
        exact ih imgs _
    | wr p =>
      cases hk : kitty p.id
      · -- a sixel write: data at the cursor, ignored by the tables
        have hf : (REv.wr p :: r).filter (evKitty kitty) = r.filter (evKitty kitty) := by simp [evKitty, hk]
        rw [hf]
        simp only [emitEv, hk, Bool.false_eq_true, if_false, List.nil_append]
        rw [run_append]
        exact ih imgs _
      · have hf : (REv.wr p :: r).filter (evKitty kitty) = REv.wr p :: r.filter (evKitty kitty) := by simp [evKitty, hk]
        rw [hf, emit_cons]
        simp only [emitEv, hk, if_true, List.nil_append, run_append]
        exact ih _ _

/-- The diff of a render commutes with restricting both lists to the kitty images. -/
theorem renderWith_kitty (kitty : Nat → Bool) (s : State) :
    (renderWith (fun a b => a == b) { next := kittyOf kitty s.next, last := kittyOf kitty s.last, refresh := s.refresh }).2 =
      ⟨kittyOf kitty (renderWith (fun a b => a == b) s).2.deletes, kittyOf kitty (renderWith (fun a b => a == b) s).2.writes⟩ := by
  rw [VaxisModel.Lemmas.Placements.renderWith_eq_spec, VaxisModel.Lemmas.Placements.renderWith_eq_spec]
  simp only [mustDelete, mustWrite, kittyOf, List.filter_filter, Out.mk.injEq]
  constructor
  · apply List.filter_congr
    intro p _
    cases hk : kitty p.id
    · simp
    · simp [List.contains_eq_mem, List.mem_filter, hk]
  · apply List.filter_congr
    intro p _
    cases hk : kitty p.id
    · simp
    · simp [List.contains_eq_mem, List.mem_filter, hk]

theorem events_filter (kitty : Nat → Bool) (ds ws : List Placement) :
    (ds.map REv.del ++ ws.map REv.wr).filter (evKitty kitty) =
      (kittyOf kitty ds).map REv.del ++ (kittyOf kitty ws).map REv.wr := by
  rw [List.filter_append, List.filter_map, List.filter_map]
  rfl

/-- The terminal's kitty table is the table of the kitty placements of the saved frame. -/
def InvK (kitty : Nat → Bool) (w : World) : Prop :=
  (∀ k, w.term.places k = tableOf (kittyOf kitty w.ps.last) k) ∧ KeyFun (kittyOf kitty w.ps.last)

theorem renderK_inv (kitty : Nat → Bool) (w : World) (r : Bool) (hi : InvK kitty w) (hn : KeyFun (kittyOf kitty w.ps.next)) :
    InvK kitty (w.renderK kitty r).1 := by
  unfold World.renderK
  simp only
  rw [renderGen_std, emit_congr kitty _ _ writeGen_std]
  constructor
  · intro k
    show ((w.term.run (emit kitty stdWriteBody w.imgs _).2)).places k = tableOf (kittyOf kitty w.ps.next) k
    rw [(emit_kitty kitty stdWriteBody _ w.imgs w.term).2, events_filter, emit_append, emit_dels, run_append]
    have hrw := renderWith_kitty kitty { w.ps with refresh := w.ps.refresh || r }
    have hd : kittyOf kitty (renderWith (fun a b => a == b) { w.ps with refresh := w.ps.refresh || r }).2.deletes =
        (renderWith (fun a b => a == b) { next := kittyOf kitty w.ps.next, last := kittyOf kitty w.ps.last, refresh := w.ps.refresh || r }).2.deletes := by
      rw [hrw]
    have hw : kittyOf kitty (renderWith (fun a b => a == b) { w.ps with refresh := w.ps.refresh || r }).2.writes =
        (renderWith (fun a b => a == b) { next := kittyOf kitty w.ps.next, last := kittyOf kitty w.ps.last, refresh := w.ps.refresh || r }).2.writes := by
      rw [hrw]
    rw [hd, hw]
    exact frame_table w.term w.imgs { next := kittyOf kitty w.ps.next, last := kittyOf kitty w.ps.last, refresh := w.ps.refresh || r }
      hi.2 hn hi.1 k
  · exact hn

theorem runK_inv (kitty : Nat → Bool) (ops : List WOp) : ∀ w : World, InvK kitty w → FramesKeyFunK kitty w.ps.next ops →
    InvK kitty (w.runK kitty ops) := by
  induction ops with
  | nil => intro w hi _; exact hi
  | cons op rest ih =>
    intro w hi hf
    show InvK kitty ((w.stepK kitty op).runK kitty rest)
    cases op with
    | resize id ok => cases ok <;> exact ih _ hi hf
    | draw p => exact ih _ hi hf
    | clear => exact ih _ hi hf
    | render =>
      refine ih _ (renderK_inv kitty w false hi hf.1) ?_
      show FramesKeyFunK kitty (w.renderK kitty false).1.ps.next rest
      unfold World.renderK
      simp only
      rw [renderGen_std]
      exact hf.2
    | refresh =>
      refine ih _ (renderK_inv kitty w true hi hf.1) ?_
      show FramesKeyFunK kitty (w.renderK kitty true).1.ps.next rest
      unfold World.renderK
      simp only
      rw [renderGen_std]
      exact hf.2

/-! ### image data in mixed histories -/

open VaxisModel.Lemmas.KittyData in
theorem stepK_DI (kitty : Nat → Bool) (w : World) (op : WOp) (h : ∀ id, DataInv w id) : ∀ id, DataInv (w.stepK kitty op) id := by
  cases op with
  | resize i ok =>
    cases ok
    · exact h
    · intro id
      show DI (update w.imgs i (resizeGen (w.imgs i) w.serial)) w.term (update w.latest i (some w.serial)) id
      unfold resizeGen
      rw [resizeGen_std, resizeWith_std]
      by_cases hid : id = i
      · subst hid
        right
        rw [update_same, update_same]
        exact ⟨rfl, by simp, fun hn => by simp at hn⟩
      · unfold DI
        rw [update_other _ _ _ _ hid, update_other _ _ _ _ hid]
        exact h id
  | draw p => exact h
  | clear => exact h
  | render =>
    intro id
    show DI (emit kitty kittyWriteBody w.imgs _).1 (w.term.run (emit kitty kittyWriteBody w.imgs _).2) w.latest id
    rw [emit_congr kitty _ _ writeGen_std, (emit_kitty kitty stdWriteBody _ w.imgs w.term).1,
      (emit_kitty kitty stdWriteBody _ w.imgs w.term).2]
    exact emit_DI w.latest _ w.imgs w.term h id
  | refresh =>
    intro id
    show DI (emit kitty kittyWriteBody w.imgs _).1 (w.term.run (emit kitty kittyWriteBody w.imgs _).2) w.latest id
    rw [emit_congr kitty _ _ writeGen_std, (emit_kitty kitty stdWriteBody _ w.imgs w.term).1,
      (emit_kitty kitty stdWriteBody _ w.imgs w.term).2]
    exact emit_DI w.latest _ w.imgs w.term h id

open VaxisModel.Lemmas.KittyData in
theorem runK_data (kitty : Nat → Bool) (ops : List WOp) : ∀ w : World, (∀ id, DataInv w id) → ∀ id, DataInv (w.runK kitty ops) id := by
  induction ops with
  | nil => intro w h; exact h
  | cons op rest ih => intro w h; exact ih (w.stepK kitty op) (stepK_DI kitty w op h)

end VaxisModel.Lemmas.KittyMixed
