/-
Lemmas for C20 round 4: the STRICT terminal (`Term.applyDrop`: kitty's own behaviour — transmitting data under an id that
already has an image removes that image's placements) agrees with the lenient one of `Lemmas/KittyTerm.lean` on every
history in which no placement is kept across a frame while its image has new data waiting (`StrictFrames`).
-/
import VaxisModel.Lemmas.KittyData

namespace VaxisModel.Lemmas.KittyStrict
open VaxisModel.Model.KittyTerm VaxisModel.Model.Placements VaxisModel.Spec.Images VaxisModel.Gen.ImageConsts
open VaxisModel.Lemmas.KittyTerm VaxisModel.Lemmas.KittyData

def runDrop (t : Term) (cs : List Cmd) : Term := cs.foldl Term.applyDrop t

theorem runDrop_append (t : Term) (a b : List Cmd) : runDrop t (a ++ b) = runDrop (runDrop t a) b := by
  simp [runDrop, List.foldl_append]

theorem runDrop_cons (t : Term) (c : Cmd) (cs : List Cmd) : runDrop t (c :: cs) = runDrop (t.applyDrop c) cs := rfl

theorem term_ext (a b : Term) (h1 : a.data = b.data) (h2 : a.places = b.places) : a = b := by
  cases a; cases b; simp_all

/-- Transmitting for an image none of whose placements is on the terminal: nothing to drop. -/
theorem applyDrop_transmit (t : Term) (id e : Nat) (h : ∀ k : Key, k.1 = id → t.places k = none) :
    t.applyDrop (.transmit id e) = t.apply (.transmit id e) := by
  apply term_ext
  · rfl
  · funext k
    show (if k.1 = id ∧ (t.data id).isSome = true then none else t.places k) = t.places k
    by_cases hk : k.1 = id
    · rw [h k hk]; split <;> rfl
    · rw [if_neg (fun hh => hk hh.1)]

theorem runDrop_transmits (id : Nat) (es : List Nat) : ∀ t : Term, (∀ k : Key, k.1 = id → t.places k = none) →
    runDrop t (es.map fun e => Cmd.transmit id e) = t.run (es.map fun e => Cmd.transmit id e) := by
  induction es with
  | nil => intro t _; rfl
  | cons e r ih =>
    intro t h
    rw [List.map_cons, runDrop_cons, run_cons, applyDrop_transmit t id e h]
    exact ih _ h

theorem runDrop_deletes (ds : List Placement) : ∀ t : Term,
    runDrop t (ds.map fun p => Cmd.delete (key p)) = t.run (ds.map fun p => Cmd.delete (key p)) := by
  induction ds with
  | nil => intro t; rfl
  | cons d r ih => intro t; rw [List.map_cons, runDrop_cons, run_cons]; exact ih _

/-- No write of the list will transmit for an image that has a placement on the terminal. -/
def NoPending (t : Term) (imgs : Nat → KBuf) (ws : List Placement) : Prop :=
  ∀ p ∈ ws, (imgs p.id).uploaded = false → ∀ k : Key, k.1 = p.id → t.places k = none

theorem write_uploaded (k : KBuf) : (writeWith stdWriteBody k).1.uploaded = true := by
  rw [writeWith_std]
  cases h : k.uploaded <;> simp [h]

theorem runDrop_writes (ws : List Placement) : ∀ (t : Term) (imgs : Nat → KBuf), NoPending t imgs ws →
    runDrop t (writeCmds imgs ws).2 = t.run (writeCmds imgs ws).2 := by
  induction ws with
  | nil => intro t imgs _; rfl
  | cons p r ih =>
    intro t imgs h
    unfold writeCmds
    rw [List.map_cons, emit_cons]
    simp only [emitEv, if_true]
    rw [outCmds_std, List.nil_append, runDrop_append, run_append, runDrop_append, run_append]
    -- the transmissions of this write (none when the image is uploaded)
    have ht : runDrop t (if (imgs p.id).uploaded = true then [] else List.map (fun e => Cmd.transmit p.id e) (imgs p.id).buf) =
        t.run (if (imgs p.id).uploaded = true then [] else List.map (fun e => Cmd.transmit p.id e) (imgs p.id).buf) := by
      cases hu : (imgs p.id).uploaded
      · simp only [Bool.false_eq_true, if_false]
        exact runDrop_transmits p.id _ t (h p (List.mem_cons_self ..) hu)
      · rfl
    rw [ht]
    have hp : runDrop (t.run (if (imgs p.id).uploaded = true then [] else List.map (fun e => Cmd.transmit p.id e) (imgs p.id).buf)) [Cmd.place p] =
        (t.run (if (imgs p.id).uploaded = true then [] else List.map (fun e => Cmd.transmit p.id e) (imgs p.id).buf)).run [Cmd.place p] := rfl
    rw [hp]
    have := ih ((t.run (if (imgs p.id).uploaded = true then [] else List.map (fun e => Cmd.transmit p.id e) (imgs p.id).buf)).run [Cmd.place p])
      (update imgs p.id (writeWith stdWriteBody (imgs p.id)).1) ?_
    · unfold writeCmds at this
      exact this
    · intro q hq hu k hk
      have hne : q.id ≠ p.id := by
        intro e
        rw [e, update_same, write_uploaded] at hu
        cases hu
      rw [update_other _ _ _ _ hne] at hu
      rw [← run_append, run_write_one]
      have hkp : ¬ k = key p := by
        intro e
        apply hne
        rw [← hk, e]; rfl
      rw [if_neg hkp]
      exact h q (List.mem_cons_of_mem _ hq) hu k hk

/-- **One frame on the strict terminal**: when no kept placement belongs to an image that is not uploaded, the strict
    terminal ends the frame where the lenient one does. -/
theorem frame_strict (t : Term) (imgs : Nat → KBuf) (s : State)
    (inv : ∀ k, t.places k = tableOf s.last k)
    (hs : ∀ q ∈ s.next, s.refresh = false → q ∈ s.last → (imgs q.id).uploaded = true) :
    let o := (renderWith (fun a b => a == b) s).2
    runDrop t ((o.deletes.map fun p => Cmd.delete (key p)) ++ (writeCmds imgs o.writes).2) =
      t.run ((o.deletes.map fun p => Cmd.delete (key p)) ++ (writeCmds imgs o.writes).2) := by
  intro o
  have ho : o = ⟨mustDelete s.last ⟨s.next, s.refresh⟩, mustWrite s.last ⟨s.next, s.refresh⟩⟩ := by
    show (renderWith (fun a b => a == b) s).2 = _
    rw [VaxisModel.Lemmas.Placements.renderWith_eq_spec]
  have hd : ∀ p, p ∈ o.deletes ↔ p ∈ s.last ∧ (s.refresh = true ∨ p ∉ s.next) := by
    intro p; rw [ho]; simp [mustDelete, List.mem_filter]
  rw [runDrop_append, run_append, runDrop_deletes]
  apply runDrop_writes
  intro p _ hu k hk
  rw [run_deletes_places]
  split
  · rfl
  · rename_i hnd
    rw [inv]
    cases hq : tableOf s.last k with
    | none => rfl
    | some q =>
      exfalso
      obtain ⟨hql, hqk⟩ := tableOf_some_mem hq
      have hnotdel : q ∉ o.deletes := by
        intro hdq
        apply hnd
        rw [List.any_eq_true]
        exact ⟨q, hdq, by simpa using hqk⟩
      have hkeep : ¬ (s.refresh = true ∨ q ∉ s.next) := fun hh => hnotdel ((hd q).mpr ⟨hql, hh⟩)
      have hr : s.refresh = false := by cases h : s.refresh <;> simp_all
      have hqn : q ∈ s.next := by
        rcases Classical.em (q ∈ s.next) with h | h
        · exact h
        · exact absurd (Or.inr h) hkeep
      have hup := hs q hqn hr hql
      have hid : q.id = p.id := by rw [← hk, ← hqk]; rfl
      rw [hid, hu] at hup
      cases hup

/-- What a frame must satisfy for the strict terminal: key-functional, and no placement is kept while its image has new
    data waiting (its `uploaded` flag is clear). -/
def OKFrame (w : World) (r : Bool) : Prop :=
  KeyFun w.ps.next ∧ ∀ q ∈ w.ps.next, (w.ps.refresh || r) = false → q ∈ w.ps.last → (w.imgs q.id).uploaded = true

/-- Every frame of the history, at the state it is rendered in. -/
def StrictFrames (w : World) : List WOp → Prop
  | [] => True
  | op :: rest =>
    (match op with
     | .render => OKFrame w false
     | .refresh => OKFrame w true
     | _ => True) ∧ StrictFrames (w.step op) rest

theorem render_std (w : World) (r : Bool) :
    w.render renderOrder renderShape samePlacement kittyWriteBody r =
      w.render stdOrder stdShape (fun a b => a == b) stdWriteBody r := by
  have h1 : renderOrder = stdOrder := by decide
  have h2 : renderShape = stdShape := by decide
  rw [h1, h2, same_std]
  simp only [World.render, emit_congr _ _ _ writeGen_std]

theorem strict_run (ops : List WOp) : ∀ w : World, Inv w → StrictFrames w ops →
    runDrop w.term (World.trace w ops) = (w.run ops).term ∧ Inv (w.run ops) := by
  induction ops with
  | nil => intro w hi _; exact ⟨rfl, hi⟩
  | cons op rest ih =>
    intro w hi hf
    show runDrop w.term (World.trace w (op :: rest)) = ((w.step op).run rest).term ∧ Inv ((w.step op).run rest)
    cases op with
    | resize id ok =>
      have hi' : Inv (w.step (.resize id ok)) := by rw [step_std]; cases ok <;> exact hi
      have ht : (w.step (.resize id ok)).term = w.term := by rw [step_std]; cases ok <;> rfl
      have := ih (w.step (.resize id ok)) hi' hf.2
      rw [ht] at this
      exact this
    | draw p => exact ih (w.step (.draw p)) (by rw [step_std]; exact hi) hf.2
    | clear => exact ih (w.step .clear) (by rw [step_std]; exact hi) hf.2
    | render =>
      obtain ⟨⟨hk, hs⟩, hrest⟩ := hf
      have hstep : w.step .render = (w.render stdOrder stdShape (fun a b => a == b) stdWriteBody false).1 := by
        rw [step_std]; rfl
      have hi' : Inv (w.step .render) := by rw [hstep]; exact render_inv w false hi hk
      have hcmd : runDrop w.term (w.render renderOrder renderShape samePlacement kittyWriteBody false).2 = (w.step .render).term := by
        rw [render_std, hstep, render_cmds]
        simp only
        rw [← run_append]
        exact frame_strict w.term w.imgs { w.ps with refresh := w.ps.refresh || false } hi.1 hs
      show runDrop w.term ((w.render renderOrder renderShape samePlacement kittyWriteBody false).2 ++ World.trace (w.step .render) rest) = _ ∧ _
      rw [runDrop_append, hcmd]
      exact ih _ hi' hrest
    | refresh =>
      obtain ⟨⟨hk, hs⟩, hrest⟩ := hf
      have hstep : w.step .refresh = (w.render stdOrder stdShape (fun a b => a == b) stdWriteBody true).1 := by
        rw [step_std]; rfl
      have hi' : Inv (w.step .refresh) := by rw [hstep]; exact render_inv w true hi hk
      have hcmd : runDrop w.term (w.render renderOrder renderShape samePlacement kittyWriteBody true).2 = (w.step .refresh).term := by
        rw [render_std, hstep, render_cmds]
        simp only
        rw [← run_append]
        exact frame_strict w.term w.imgs { w.ps with refresh := w.ps.refresh || true } hi.1 hs
      show runDrop w.term ((w.render renderOrder renderShape samePlacement kittyWriteBody true).2 ++ World.trace (w.step .refresh) rest) = _ ∧ _
      rw [runDrop_append, hcmd]
      exact ih _ hi' hrest

end VaxisModel.Lemmas.KittyStrict
