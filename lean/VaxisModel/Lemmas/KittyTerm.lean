/-
Lemmas for C20 round 4 (`Model/KittyTerm.lean`): closed forms of the interpreted kitty upload bodies and of the staged
render; how a list of delete / write events changes the terminal's placement table; the frame invariant
"the terminal's placement table is the table of the last rendered frame".
-/
import VaxisModel.Model.KittyTerm
import VaxisModel.Lemmas.Placements
import VaxisModel.Model.ImageTerm
import VaxisModel.Model.ImageDraw

namespace VaxisModel.Lemmas.KittyTerm
open VaxisModel.Model.KittyTerm VaxisModel.Model.Placements VaxisModel.Spec.Images VaxisModel.Gen.ImageConsts

/-! ### closed forms -/

def stdOrder : List RStage := [.deleteLoop, .clearLast, .writeLoop, .saveLast]
def stdShape : RenderShape := ⟨true, true, true, true, true, true, true, []⟩
def stdResizeBody : List KStmt := [.act (.storeUploaded false), .act .appendChunks]
def stdWriteBody : List KStmt := [.ifNotUploaded [.sendBuf, .storeUploaded true, .resetBuf], .act .place]

theorem resizeWith_std (k : KBuf) (e : Nat) : resizeWith stdResizeBody k e = ⟨k.buf ++ [e], false⟩ := rfl

theorem writeWith_std (k : KBuf) :
    writeWith stdWriteBody k = if k.uploaded then (k, [.place]) else (⟨[], true⟩, [.send k.buf, .place]) := by
  cases k with
  | mk buf up => cases up <;> rfl

/-- With the source's order and statements the staged render is `renderWith`, deletes before writes. -/
theorem renderStaged_std (same : Placement → Placement → Bool) (s : State) :
    renderStaged stdOrder stdShape same s =
      ((renderWith same s).1, (renderWith same s).2.deletes.map .del ++ (renderWith same s).2.writes.map .wr) := by
  have h := VaxisModel.Lemmas.Placements.renderShaped_std same s
  unfold renderShaped renderWith at h
  simp only [Prod.mk.injEq, Out.mk.injEq] at h
  unfold renderStaged renderWith stdOrder stdShape
  simp only [List.foldl_cons, List.foldl_nil, runStage, List.nil_append, if_true]
  rw [h.2.1, h.2.2]

/-! ### events → commands, on the placement table -/

theorem run_append (t : Term) (a b : List Cmd) : t.run (a ++ b) = (t.run a).run b := by
  simp [Term.run, List.foldl_append]

theorem run_cons (t : Term) (c : Cmd) (cs : List Cmd) : t.run (c :: cs) = (t.apply c).run cs := rfl

/-- The commands of a `writeTo` of `p` under the standard body: transmissions, then the placement. -/
theorem outCmds_std (k : KBuf) (p : Placement) :
    (writeWith stdWriteBody k).2.flatMap (outCmds p) =
      (if k.uploaded then [] else k.buf.map fun e => Cmd.transmit p.id e) ++ [.place p] := by
  rw [writeWith_std]
  cases k.uploaded <;> simp [outCmds]

theorem transmits_places (t : Term) (id : Nat) (es : List Nat) :
    (t.run (es.map fun e => Cmd.transmit id e)).places = t.places := by
  induction es generalizing t with
  | nil => rfl
  | cons e r ih => rw [List.map_cons, run_cons, ih]; rfl

theorem run_write_one (t : Term) (kb : KBuf) (p : Placement) (k : Key) :
    (t.run ((if kb.uploaded then [] else kb.buf.map fun e => Cmd.transmit p.id e) ++ [.place p])).places k =
      if k = key p then some p else t.places k := by
  rw [run_append]
  have : (t.run (if kb.uploaded then [] else kb.buf.map fun e => Cmd.transmit p.id e)).places = t.places := by
    cases kb.uploaded
    · simp only [Bool.false_eq_true, if_false]; rw [transmits_places]
    · rfl
  show (if k = key p then some p else (t.run _).places k) = _
  rw [this]

/-- The commands of a list of write events (all images kitty images, standard body), from any image states. -/
def writeCmds (imgs : Nat → KBuf) (ws : List Placement) : (Nat → KBuf) × List Cmd :=
  emit (fun _ => true) stdWriteBody imgs (ws.map .wr)

theorem emit_from (kitty : Nat → Bool) (wb : List KStmt) (imgs : Nat → KBuf) (pre : List Cmd) (evs : List REv) :
    evs.foldl (emitEv kitty wb) (imgs, pre) =
      ((emit kitty wb imgs evs).1, pre ++ (emit kitty wb imgs evs).2) := by
  induction evs generalizing imgs pre with
  | nil => simp [emit]
  | cons ev r ih =>
    unfold emit
    rw [List.foldl_cons, List.foldl_cons]
    cases ev with
    | del p =>
      simp only [emitEv]
      split
      · rw [ih, ih (pre := [] ++ _)]; simp [emit]
      · rw [ih]; simp [emit]
    | wr p =>
      simp only [emitEv]
      split
      · rw [ih, ih (pre := [] ++ _)]; simp [emit]
      · rw [ih, ih (pre := [] ++ _)]; simp [emit]

theorem emit_cons (kitty : Nat → Bool) (wb : List KStmt) (imgs : Nat → KBuf) (ev : REv) (evs : List REv) :
    emit kitty wb imgs (ev :: evs) =
      ((emit kitty wb (emitEv kitty wb (imgs, []) ev).1 evs).1,
       (emitEv kitty wb (imgs, []) ev).2 ++ (emit kitty wb (emitEv kitty wb (imgs, []) ev).1 evs).2) := by
  show (evs.foldl (emitEv kitty wb) (emitEv kitty wb (imgs, []) ev)) = _
  rw [show emitEv kitty wb (imgs, []) ev = ((emitEv kitty wb (imgs, []) ev).1, (emitEv kitty wb (imgs, []) ev).2) from rfl,
    emit_from]

theorem emit_append (kitty : Nat → Bool) (wb : List KStmt) (imgs : Nat → KBuf) (a b : List REv) :
    emit kitty wb imgs (a ++ b) =
      ((emit kitty wb (emit kitty wb imgs a).1 b).1, (emit kitty wb imgs a).2 ++ (emit kitty wb (emit kitty wb imgs a).1 b).2) := by
  unfold emit
  rw [List.foldl_append]
  rw [show List.foldl (emitEv kitty wb) (imgs, []) a = ((emit kitty wb imgs a).1, (emit kitty wb imgs a).2) from rfl, emit_from]
  rfl

/-- Delete events only: the image states stay, the commands are the deletes. -/
theorem emit_dels (wb : List KStmt) (imgs : Nat → KBuf) (ds : List Placement) :
    emit (fun _ => true) wb imgs (ds.map .del) = (imgs, ds.map fun p => Cmd.delete (key p)) := by
  induction ds generalizing imgs with
  | nil => rfl
  | cons d r ih => rw [List.map_cons, emit_cons]; simp [emitEv, ih]

/-- Running delete commands: a key is emptied iff some deleted placement has it. -/
theorem run_deletes_places (t : Term) (ds : List Placement) (k : Key) :
    (t.run (ds.map fun p => Cmd.delete (key p))).places k = if (ds.any fun p => key p = k) then none else t.places k := by
  induction ds generalizing t with
  | nil => rfl
  | cons d r ih =>
    rw [List.map_cons, run_cons, ih]
    simp only [Term.apply, List.any_cons, Bool.or_eq_true, decide_eq_true_eq]
    by_cases h1 : key d = k
    · simp [h1]
    · have h2 : ¬ k = key d := fun h => h1 h.symm
      simp [h1, h2]

theorem run_deletes_data (t : Term) (ds : List Placement) :
    (t.run (ds.map fun p => Cmd.delete (key p))).data = t.data := by
  induction ds generalizing t with
  | nil => rfl
  | cons d r ih => rw [List.map_cons, run_cons, ih]; rfl

/-- Write events whose keys all differ from `k` leave the table at `k` alone. -/
theorem run_writes_other (t : Term) (imgs : Nat → KBuf) (ws : List Placement) (k : Key)
    (h : ∀ p ∈ ws, key p ≠ k) : (t.run (writeCmds imgs ws).2).places k = t.places k := by
  induction ws generalizing t imgs with
  | nil => rfl
  | cons p r ih =>
    unfold writeCmds
    rw [List.map_cons, emit_cons]
    simp only [emitEv, if_true]
    rw [outCmds_std, run_append, run_append]
    have hr : ∀ q ∈ r, key q ≠ k := fun q hq => h q (List.mem_cons_of_mem _ hq)
    have := fun t' => ih t' (update imgs p.id (writeWith stdWriteBody (imgs p.id)).1) hr
    unfold writeCmds at this
    rw [this]
    have hp : ¬ k = key p := fun e => h p (List.mem_cons_self ..) e.symm
    rw [show t.run [] = t from rfl, run_write_one, if_neg hp]

/-- Write events among which `p` has key `k` and is the only placement with that key: the table holds `p` at `k`. -/
theorem run_writes_at (t : Term) (imgs : Nat → KBuf) (ws : List Placement) (p : Placement)
    (hp : p ∈ ws) (hu : ∀ q ∈ ws, key q = key p → q = p) :
    (t.run (writeCmds imgs ws).2).places (key p) = some p := by
  induction ws generalizing t imgs with
  | nil => cases hp
  | cons q r ih =>
    unfold writeCmds
    rw [List.map_cons, emit_cons]
    simp only [emitEv, if_true]
    rw [outCmds_std, run_append, run_append]
    have hur : ∀ q' ∈ r, key q' = key p → q' = p := fun q' h' => hu q' (List.mem_cons_of_mem _ h')
    by_cases hpr : p ∈ r
    · have := fun t' => ih t' (update imgs q.id (writeWith stdWriteBody (imgs q.id)).1) hpr hur
      unfold writeCmds at this
      exact this _
    · have hqp : q = p := by
        rcases List.mem_cons.mp hp with h | h
        · exact h.symm
        · exact absurd h hpr
      have hno : ∀ q' ∈ r, key q' ≠ key p := fun q' h' e => hpr (hur q' h' e ▸ h')
      have := fun t' => run_writes_other t' (update imgs q.id (writeWith stdWriteBody (imgs q.id)).1) r (key p) hno
      unfold writeCmds at this
      rw [this, hqp, show t.run [] = t from rfl, run_write_one, if_pos rfl]

/-! ### the table of a frame -/

theorem tableOf_none {l : List Placement} {k : Key} : tableOf l k = none ↔ ∀ p ∈ l, key p ≠ k := by
  unfold tableOf
  rw [List.find?_eq_none]
  simp

theorem tableOf_some_mem {l : List Placement} {k : Key} {p : Placement} (h : tableOf l k = some p) : p ∈ l ∧ key p = k := by
  unfold tableOf at h
  exact ⟨List.mem_of_find?_eq_some h, by simpa using List.find?_some h⟩

theorem tableOf_of_mem {l : List Placement} {p : Placement} (hk : KeyFun l) (hp : p ∈ l) : tableOf l (key p) = some p := by
  cases h : tableOf l (key p) with
  | none => exact absurd rfl (tableOf_none.mp h p hp)
  | some q =>
    have ⟨hq, hkq⟩ := tableOf_some_mem h
    rw [hk q hq p hp hkq]

theorem keyFun_filter {l : List Placement} (f : Placement → Bool) (h : KeyFun l) : KeyFun (l.filter f) :=
  fun p hp q hq e => h p (List.mem_filter.mp hp).1 q (List.mem_filter.mp hq).1 e

theorem keyFun_nil : KeyFun [] := fun p hp => by cases hp

/-- **One frame.**  The terminal's placement table is the table of `last`; both lists are key-functional; the deletes
    and writes are the diff `renderWith` computes (equality as `same`), emitted deletes first.  Then afterwards the
    terminal's placement table is the table of `next`. -/
theorem frame_table (t : Term) (imgs : Nat → KBuf) (s : State)
    (hl : KeyFun s.last) (hn : KeyFun s.next) (inv : ∀ k, t.places k = tableOf s.last k) (k : Key) :
    let o := (renderWith (fun a b => a == b) s).2
    ((t.run (o.deletes.map fun p => Cmd.delete (key p))).run (writeCmds imgs o.writes).2).places k = tableOf s.next k := by
  intro o
  have ho : o = ⟨mustDelete s.last ⟨s.next, s.refresh⟩, mustWrite s.last ⟨s.next, s.refresh⟩⟩ := by
    show (renderWith (fun a b => a == b) s).2 = _
    rw [VaxisModel.Lemmas.Placements.renderWith_eq_spec]
  have hd : ∀ p, p ∈ o.deletes ↔ p ∈ s.last ∧ (s.refresh = true ∨ p ∉ s.next) := by
    intro p; rw [ho]; simp [mustDelete, List.mem_filter]
  have hw : ∀ p, p ∈ o.writes ↔ p ∈ s.next ∧ (s.refresh = true ∨ p ∉ s.last) := by
    intro p; rw [ho]; simp [mustWrite, List.mem_filter]
  have hwk : KeyFun o.writes := fun p hp q hq e => hn p ((hw p).mp hp).1 q ((hw q).mp hq).1 e
  cases hnext : tableOf s.next k with
  | some p =>
    have ⟨hpn, hpk⟩ := tableOf_some_mem hnext
    subst hpk
    by_cases hpw : p ∈ o.writes
    · exact run_writes_at _ imgs o.writes p hpw (fun q hq e => hwk q hq p hpw e)
    · -- kept: not refreshed, was in `last`, not deleted, not written
      have hno : ∀ q ∈ o.writes, key q ≠ key p := by
        intro q hq e
        exact hpw (hn q ((hw q).mp hq).1 p hpn e ▸ hq)
      rw [run_writes_other _ imgs o.writes (key p) hno, run_deletes_places]
      have hkeep : ¬ (s.refresh = true ∨ p ∉ s.last) := fun h => hpw ((hw p).mpr ⟨hpn, h⟩)
      have hr : s.refresh = false := by cases h : s.refresh <;> simp_all
      have hpl : p ∈ s.last := by
        rcases Classical.em (p ∈ s.last) with h | h
        · exact h
        · exact absurd (Or.inr h) hkeep
      have hnd : (o.deletes.any fun q => key q = key p) = false := by
        rw [Bool.eq_false_iff]
        intro h
        rw [List.any_eq_true] at h
        obtain ⟨q, hq, hqk⟩ := h
        have hqk : key q = key p := by simpa using hqk
        have ⟨hql, hq2⟩ := (hd q).mp hq
        have : q = p := hl q hql p hpl hqk
        subst this
        rcases hq2 with h | h
        · rw [hr] at h; cases h
        · exact h hpn
      rw [hnd]
      simp only [Bool.false_eq_true, if_false]
      rw [inv, tableOf_of_mem hl hpl]
  | none =>
    have hnone := tableOf_none.mp hnext
    have hno : ∀ q ∈ o.writes, key q ≠ k := fun q hq => hnone q ((hw q).mp hq).1
    rw [run_writes_other _ imgs o.writes k hno, run_deletes_places]
    cases hlast : tableOf s.last k with
    | none =>
      split
      · rfl
      · rw [inv, hlast]
    | some p1 =>
      have ⟨h1, h1k⟩ := tableOf_some_mem hlast
      have : (o.deletes.any fun q => key q = k) = true := by
        rw [List.any_eq_true]
        refine ⟨p1, (hd p1).mpr ⟨h1, Or.inr ?_⟩, by simpa using h1k⟩
        intro h
        exact hnone p1 h h1k
      rw [this]; rfl

/-! ### the invariant over histories -/

/-- The terminal's placement table is the table of the saved frame, which is key-functional. -/
def Inv (w : World) : Prop := (∀ k, w.term.places k = tableOf w.ps.last k) ∧ KeyFun w.ps.last

theorem same_std : samePlacement = fun a b => a == b := by
  funext a b
  have h : samePlacementFields = [.id, .col, .row, .w, .h] := by decide
  rw [samePlacement, h, VaxisModel.Lemmas.Placements.samePlacementWith_all_eq]

theorem render_cmds (w : World) (r : Bool) :
    let s : State := { w.ps with refresh := w.ps.refresh || r }
    let o := (renderWith (fun a b => a == b) s).2
    w.render stdOrder stdShape (fun a b => a == b) stdWriteBody r =
      ({ w with ps := (renderWith (fun a b => a == b) s).1, imgs := (writeCmds w.imgs o.writes).1,
                term := (w.term.run (o.deletes.map fun p => Cmd.delete (key p))).run (writeCmds w.imgs o.writes).2 },
       (o.deletes.map fun p => Cmd.delete (key p)) ++ (writeCmds w.imgs o.writes).2) := by
  intro s o
  unfold World.render
  simp only
  rw [renderStaged_std, emit_append, emit_dels, run_append]
  rfl

theorem render_inv (w : World) (r : Bool) (hi : Inv w) (hn : KeyFun w.ps.next) :
    Inv (w.render stdOrder stdShape (fun a b => a == b) stdWriteBody r).1 := by
  rw [render_cmds]
  constructor
  · intro k
    exact frame_table w.term w.imgs { w.ps with refresh := w.ps.refresh || r } hi.2 hn hi.1 k
  · exact hn

set_option linter.unusedSimpArgs false in
/-- The regenerated `writeTo` body does what the standard one does (SEMANTIC: evaluated on both values of the flag and a
    symbolic buffer, so a harmless reordering of its statements still passes). -/
theorem writeGen_std (k : KBuf) : writeWith kittyWriteBody k = writeWith stdWriteBody k := by
  cases k with
  | mk buf up =>
    cases up <;>
      simp [writeWith, runBody, kittyWriteBody, stdWriteBody, runStmt, runAct, runActs]

set_option linter.unusedSimpArgs false in
/-- The regenerated upload side of `Resize` does what the standard one does (semantic, as above). -/
theorem resizeGen_std (k : KBuf) (e : Nat) : resizeWith kittyResizeBody k e = resizeWith stdResizeBody k e := by
  cases k with
  | mk buf up =>
    cases up <;>
      simp [resizeWith, runBody, kittyResizeBody, stdResizeBody, runStmt, runAct, runActs]

theorem emitEv_congr (kitty : Nat → Bool) (b1 b2 : List KStmt) (h : ∀ k, writeWith b1 k = writeWith b2 k) :
    emitEv kitty b1 = emitEv kitty b2 := by
  funext st ev
  cases ev with
  | del p => rfl
  | wr p => simp only [emitEv, h]

theorem emit_congr (kitty : Nat → Bool) (b1 b2 : List KStmt) (h : ∀ k, writeWith b1 k = writeWith b2 k) :
    emit kitty b1 = emit kitty b2 := by
  funext imgs evs
  unfold emit
  rw [emitEv_congr kitty b1 b2 h]

theorem step_std (w : World) (op : WOp) :
    w.step op = World.stepWith stdOrder stdShape (fun a b => a == b) stdResizeBody stdWriteBody w op := by
  have h1 : renderOrder = stdOrder := by decide
  have h2 : renderShape = stdShape := by decide
  unfold World.step
  rw [h1, h2, same_std]
  cases op with
  | resize id ok => simp only [World.stepWith, resizeGen_std]
  | draw p => rfl
  | clear => rfl
  | render => simp only [World.stepWith, World.render, emit_congr _ _ _ writeGen_std]
  | refresh => simp only [World.stepWith, World.render, emit_congr _ _ _ writeGen_std]

theorem run_inv (ops : List WOp) : ∀ w : World, Inv w → FramesKeyFun w.ps.next ops → Inv (w.run ops) := by
  induction ops with
  | nil => intro w hi _; exact hi
  | cons op rest ih =>
    intro w hi hf
    show Inv ((w.step op).run rest)
    rw [step_std]
    cases op with
    | resize id ok => cases ok <;> exact ih _ hi hf
    | draw p => exact ih _ hi hf
    | clear => exact ih _ hi hf
    | render =>
      refine ih _ (render_inv w false hi hf.1) ?_
      rw [World.stepWith, render_cmds]; exact hf.2
    | refresh =>
      refine ih _ (render_inv w true hi hf.1) ?_
      rw [World.stepWith, render_cmds]; exact hf.2

theorem next_is_drawn (ops : List WOp) : ∀ w : World, (w.run ops).ps.next = drawnSinceClear w.ps.next ops := by
  induction ops with
  | nil => intro w; rfl
  | cons op rest ih =>
    intro w
    show ((w.step op).run rest).ps.next = _
    rw [ih]
    cases op with
    | resize id ok => cases ok <;> rfl
    | draw p => rfl
    | clear => rfl
    | render => rfl
    | refresh => rfl

/-- Whatever is in the bookkeeping's lists was drawn: a property every drawn placement (and every placement already
    in the lists) has, every placement of the lists has after any history. -/
theorem lists_good (Good : Placement → Prop) (ops : List WOp) : ∀ w : World,
    (∀ p ∈ w.ps.next, Good p) → (∀ p ∈ w.ps.last, Good p) → (∀ p, WOp.draw p ∈ ops → Good p) →
    (∀ p ∈ (w.run ops).ps.next, Good p) ∧ (∀ p ∈ (w.run ops).ps.last, Good p) := by
  induction ops with
  | nil => intro w hn hl _; exact ⟨hn, hl⟩
  | cons op rest ih =>
    intro w hn hl hd
    have hd' : ∀ p, WOp.draw p ∈ rest → Good p := fun p hp => hd p (List.mem_cons_of_mem _ hp)
    show (∀ p ∈ ((w.step op).run rest).ps.next, Good p) ∧ (∀ p ∈ ((w.step op).run rest).ps.last, Good p)
    rw [step_std]
    cases op with
    | resize id ok => cases ok <;> exact ih _ hn hl hd'
    | draw p =>
      refine ih _ ?_ hl hd'
      intro q hq
      rcases List.mem_append.mp hq with h | h
      · exact hn q h
      · have : q = p := by simpa using h
        rw [this]; exact hd p (List.mem_cons_self ..)
    | clear => exact ih _ (fun q hq => by cases hq) hl hd'
    | render => rw [World.stepWith, render_cmds]; exact ih _ hn hn hd'
    | refresh => rw [World.stepWith, render_cmds]; exact ih _ hn hn hd'

/-- The terminal a history leaves is the fold of the commands it emitted, in order. -/
theorem trace_run (ops : List WOp) : ∀ w : World, (w.run ops).term = w.term.run (World.trace w ops) := by
  induction ops with
  | nil => intro w; rfl
  | cons op rest ih =>
    intro w
    show ((w.step op).run rest).term = _
    rw [ih]
    cases op with
    | resize id ok => cases ok <;> rfl
    | draw p => rfl
    | clear => rfl
    | render => rw [World.trace, run_append]; rfl
    | refresh => rw [World.trace, run_append]; rfl

/-! ### the counting abstraction and the block loops -/

/-- The counting model of round 2 (`ImageTerm.KImg`): how many encodings wait in the buffer. -/
def absK (k : KBuf) : VaxisModel.Model.ImageTerm.KImg := ⟨k.buf.length, k.uploaded⟩

/-- Number of encodings a `writeTo` output sends. -/
def sentCount (o : List KOut) : Nat := (o.map fun | .send encs => encs.length | _ => 0).sum

open VaxisModel.Model.Blocks VaxisModel.Model.ImageDraw in
theorem loopCoords_std (cf : CellForm) (w i : Nat) (hw : 0 < w) :
    loopCoords ⟨true, .div .i .width, .sub .i (.mul .y .width), .x, .y, cf, []⟩ w i =
      some (((i - i / w * w : Nat) : Int), ((i / w : Nat) : Int)) := by
  have hne : ¬ ((w : Int) = 0) := by omega
  have hdiv : Int.tdiv (i : Int) (w : Int) = ((i / w : Nat) : Int) := by
    rw [Int.tdiv_eq_ediv_of_nonneg (by omega)]; exact (Int.natCast_ediv i w).symm
  have hle : i / w * w ≤ i := Nat.div_mul_le_self i w
  simp only [loopCoords, evalI, hne, if_false, hdiv]
  congr 2
  rw [Int.natCast_sub hle, Int.natCast_mul]

open VaxisModel.Model.Blocks VaxisModel.Model.ImageDraw in
theorem mapM_loop (cf : CellForm) (toCell : BCell → VaxisModel.Model.Window.Cell) (w : Nat) (hw : 0 < w) (f : Nat → BCell) (l : List Nat) :
    (l.map fun i => (f i, i)).mapM (fun (ci : BCell × Nat) =>
        (loopCoords ⟨true, .div .i .width, .sub .i (.mul .y .width), .x, .y, cf, []⟩ w ci.2).map fun cr =>
          ({ col := cr.1, row := cr.2, cell := toCell ci.1 } : VaxisModel.Model.Window.Op)) =
      some (blockOps toCell (l.map fun i => (i - i / w * w, i / w, f i))) := by
  induction l with
  | nil => rfl
  | cons i r ih =>
    rw [List.map_cons, List.mapM_cons, ih, loopCoords_std cf w i hw]
    rfl

theorem zipIdx_map_range {α : Type} (g : Nat → α) (n : Nat) :
    ((List.range n).map g).zipIdx = (List.range n).map fun i => (g i, i) := by
  apply List.ext_getElem <;> simp

open VaxisModel.Model.Blocks VaxisModel.Model.ImageDraw in
/-- The interpreted standard loop on the cell list `Resize` built = `blockOps`. -/
theorem drawLoopOps_std (cf : CellForm) (toCell : BCell → VaxisModel.Model.Window.Cell) (mode : Bottom) (cell : C16 → C16 → BCell) (img : Img) :
    drawLoopOps ⟨true, .div .i .width, .sub .i (.mul .y .width), .x, .y, cf, []⟩ toCell img.w ((blockCellsWith mode cell img).map (·.2.2)) =
      some (blockOps toCell (blockCellsWith mode cell img)) := by
  unfold drawLoopOps
  simp only [Bool.not_true, List.isEmpty_nil, Bool.or_self, Bool.false_eq_true, if_false]
  rcases Nat.eq_zero_or_pos img.w with h0 | hw
  · simp [blockCellsWith, h0, blockOps]
  · unfold blockCellsWith
    simp only [List.map_map]
    rw [zipIdx_map_range]
    exact mapM_loop cf toCell img.w hw (fun i => cell (img.at (i - i / img.w * img.w) (2 * (i / img.w))) (lowerPx mode img (i - i / img.w * img.w) (2 * (i / img.w)))) _

end VaxisModel.Lemmas.KittyTerm
