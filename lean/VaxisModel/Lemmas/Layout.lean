/-
Layout contract of the built-in widgets (C14): for every widget tree, constraint and content, Draw
either returns a surface no larger than the maximum, or stops with the documented
`panic("… bounded constraints")` — and the latter exactly when some Center / Button / Dynamic of the
tree receives an unbounded constraint (`accepts`).
-/
import VaxisModel.Lemmas.Surface

namespace VaxisModel.Lemmas.Layout
open VaxisModel.Model.Window VaxisModel.Model.Surface VaxisModel.Model.Layout VaxisModel.Lemmas.Surface

/-- Neither dimension of `Max` is the unbounded marker. -/
def bounded (c : Ctx) : Prop := c.maxW ≠ unbounded ∧ c.maxH ≠ unbounded

def boundedB (c : Ctx) : Bool := c.maxW != unbounded && c.maxH != unbounded

theorem boundedB_iff (c : Ctx) : boundedB c = true ↔ bounded c := by
  simp [boundedB, bounded]

/-- Widgets whose Draw documents "must have bounded constraints": read from the source. -/
def needsBounded (w : Widget) : Bool := Gen.SurfaceFacts.boundedPanicWidgets.contains w.goName

mutual
/-- No widget of the tree that needs bounded constraints receives an unbounded one.  Center and
Button hand their own Max on; Dynamic hands every child an unbounded height. -/
def accepts : Widget → Ctx → Bool
  | .text .., _ => true
  | .rich .., _ => true
  | .field .., _ => true
  | .center child, c => boundedB c && accepts child { minW := 0, minH := 0, maxW := c.maxW, maxH := c.maxH }
  | .button .., c => boundedB c
  | .dynamic cursor _ kids, c => boundedB c && acceptsAll kids (dynChildCtx cursor c)
def acceptsAll : Widgets → Ctx → Bool
  | .nil, _ => true
  | .cons w rest, c => accepts w c && acceptsAll rest c
end

/-! ### the guards as the source has them -/

theorem guard_center (c : Ctx) : boundedPanic "center.Center" c = !boundedB c := by
  have h : Gen.SurfaceFacts.boundedPanicWidgets.contains "center.Center" = true := by decide
  simp only [boundedPanic, h, boundedB, Bool.true_and, bne]
  cases (c.maxH == unbounded) <;> cases (c.maxW == unbounded) <;> rfl

theorem guard_button (c : Ctx) : boundedPanic "button.Button" c = !boundedB c := by
  have h : Gen.SurfaceFacts.boundedPanicWidgets.contains "button.Button" = true := by decide
  simp only [boundedPanic, h, boundedB, Bool.true_and, bne]
  cases (c.maxH == unbounded) <;> cases (c.maxW == unbounded) <;> rfl

theorem guard_dynamic (c : Ctx) : boundedPanic "list.Dynamic" c = !boundedB c := by
  have h : Gen.SurfaceFacts.boundedPanicWidgets.contains "list.Dynamic" = true := by decide
  simp only [boundedPanic, h, boundedB, Bool.true_and, bne]
  cases (c.maxH == unbounded) <;> cases (c.maxW == unbounded) <;> rfl

/-! ### leaves -/

/-- Text / RichText (either wrap mode), any scanned lines, any constraint. -/
theorem text_size_le (m : TextMode) (hm : m.sizeOK) (c : Ctx) (lines : List (List Cell)) :
    ∃ s, drawText exact m c lines = .ok s ∧ s.w ≤ c.maxW ∧ s.h ≤ c.maxH ∧
      s.buf.length = s.w.toNat * s.h.toNat := by
  obtain ⟨s, h, hw, hh, _, hs⟩ := drawText_ok m c lines
  have hle := sizeLoop_le c.maxW c.maxH lines 0 0 (UInt16.le_iff_toNat_le.2 (Nat.zero_le _))
    (UInt16.le_iff_toNat_le.2 (Nat.zero_le _))
  refine ⟨s, h, ?_, ?_, by rw [hs, Nat.mul_comm]⟩
  · rw [hw, hm.2, findContainerSize, hm.1]; exact hle.1
  · rw [hh, hm.2, findContainerSize, hm.1]; exact hle.2

/-- TextField: `Max.Width × 1`, or the zero surface for a zero constraint; never a panic. -/
theorem field_size_le (c : Ctx) (chars : List Cell) :
    ∃ s, drawField exact c chars = .ok s ∧ s.w ≤ c.maxW ∧ s.h ≤ c.maxH := by
  unfold drawField
  rw [surface_field]
  split
  · refine ⟨emptySurface, rfl, ?_, ?_⟩ <;> exact UInt16.le_iff_toNat_le.2 (Nat.zero_le _)
  · rename_i hz
    have d := newSurface_dims exact c.maxW 1
    obtain ⟨s', h, hw, hh, _, _⟩ := fieldLoop_ok chars 0 (newSurface exact c.maxW 1) (newSurface_sized c.maxW 1)
    refine ⟨s', h, ?_, ?_⟩
    · rw [hw, d.1]; exact UInt16.le_refl _
    · rw [hh, d.2.1]
      have : c.maxH ≠ 0 := by
        intro e; apply hz; simp [e]
      rw [UInt16.le_iff_toNat_le]
      have h0 : c.maxH.toNat ≠ 0 := fun e => this (UInt16.toNat_inj.1 (by simpa using e))
      have : (1 : UInt16).toNat = 1 := rfl
      omega

/-! ### Dynamic -/

theorem addChild_dims (s : Surface) (col row : Int) (ch : Surface) :
    (addChild s col row ch).w = s.w ∧ (addChild s col row ch).h = s.h ∧ (addChild s col row ch).buf = s.buf := by
  cases s; simp [addChild, Surface.w, Surface.h, Surface.buf]

theorem dynPlace_dims (off gap : Int) (chs : List Surface) (ah : Int) (s : Surface) :
    (dynPlace off gap chs ah s).w = s.w ∧ (dynPlace off gap chs ah s).h = s.h ∧
    (dynPlace off gap chs ah s).buf = s.buf := by
  induction chs generalizing ah s with
  | nil => exact ⟨rfl, rfl, rfl⟩
  | cons ch rest ih =>
    simp only [dynPlace]
    have h1 := ih (ah + Int.ofNat ch.h.toNat + gap) (addChild s off ah ch)
    have h2 := addChild_dims s off ah ch
    exact ⟨h1.1.trans h2.1, h1.2.1.trans h2.2.1, h1.2.2.trans h2.2.2⟩

/-- Dynamic's own surface is exactly `Max.Width × Max.Height` with a buffer of that many cells,
whatever it drew. -/
theorem dynAround_dims (a : Arith) (cursor : Bool) (gap : Int) (c : Ctx) (chs : List Surface) :
    (dynAround a cursor gap c chs).w = c.maxW ∧ (dynAround a cursor gap c chs).h = c.maxH ∧
    (dynAround a cursor gap c chs).buf = (newSurface a c.maxW c.maxH).buf := by
  have h := dynPlace_dims (Int.ofNat (dynOff cursor).toNat) gap chs 0 (newSurface a c.maxW c.maxH)
  have d := newSurface_dims a c.maxW c.maxH
  simp only [dynAround, surface_dynamic]
  generalize dynPlace (Int.ofNat (dynOff cursor).toNat) gap chs 0 (newSurface a c.maxW c.maxH) = p at h ⊢
  cases p with
  | mk w hh b k =>
    simp only [Surface.w, Surface.h, Surface.buf] at h ⊢
    exact ⟨h.1.trans d.1, h.2.1.trans d.2.1, h.2.2⟩

/-- The child constraint of a Dynamic is never bounded: its height is the unbounded marker. -/
theorem dynChildCtx_unbounded (cursor : Bool) (c : Ctx) : boundedB (dynChildCtx cursor c) = false := by
  simp [boundedB, dynChildCtx]

/-! ### the contract -/

section
variable (tm : Bool → Nat → TextMode) (rm : Bool → TextMode)
  (htm : ∀ hard st, (tm hard st).sizeOK) (hrm : ∀ hard, (rm hard).sizeOK)
include htm hrm

mutual
theorem draw_spec : ∀ (w : Widget) (c : Ctx),
    (accepts w c = true ∧ ∃ s, drawWith exact tm rm w c = .ok s ∧ s.w ≤ c.maxW ∧ s.h ≤ c.maxH) ∨
    (accepts w c = false ∧ drawWith exact tm rm w c = .error .explicit)
  | .text hard st lines, c => by
    obtain ⟨s, h, hw, hh, _⟩ := text_size_le (tm hard st) (htm hard st) c lines
    exact Or.inl ⟨rfl, s, h, hw, hh⟩
  | .rich hard lines, c => by
    obtain ⟨s, h, hw, hh, _⟩ := text_size_le (rm hard) (hrm hard) c lines
    exact Or.inl ⟨rfl, s, h, hw, hh⟩
  | .field chars, c => Or.inl ⟨rfl, field_size_le c chars⟩
  | .center child, c => by
    simp only [drawWith, accepts, guard_center]
    cases hb : boundedB c with
    | false => exact Or.inr ⟨by trivial, by trivial⟩
    | true =>
      simp only [Bool.not_true, Bool.false_eq_true, if_false, Bool.true_and]
      rcases draw_spec child { minW := 0, minH := 0, maxW := c.maxW, maxH := c.maxH } with ⟨ha, ch, hch, _, _⟩ | ⟨ha, he⟩
      · simp only [hch, ha]
        have p := centerAround_props exact c ch
        exact Or.inl ⟨by trivial, _, rfl, by rw [p.1]; exact UInt16.le_refl _, by rw [p.2.1]; exact UInt16.le_refl _⟩
      · simp only [he, ha]
        exact Or.inr ⟨by trivial, by trivial⟩
  | .button st lines, c => by
    simp only [drawWith, accepts, guard_button]
    cases hb : boundedB c with
    | false => exact Or.inr ⟨by trivial, by trivial⟩
    | true =>
      simp only [Bool.not_true, Bool.false_eq_true, if_false]
      obtain ⟨ch, hch, _, _, _⟩ := text_size_le (tm false st) (htm false st)
        { minW := 0, minH := 0, maxW := c.maxW, maxH := c.maxH } lines
      simp only [hch]
      have p := centerAround_props exact c ch
      have q := setBuf_dims (centerAround exact c ch) ((centerAround exact c ch).buf.map fun x => { x with st := st })
      refine Or.inl ⟨by trivial, _, rfl, ?_, ?_⟩
      · simp only [fillStyle, q.1, p.1]; exact UInt16.le_refl _
      · simp only [fillStyle, q.2.1, p.2.1]; exact UInt16.le_refl _
  | .dynamic cursor gap kids, c => by
    simp only [drawWith, accepts, guard_dynamic]
    cases hb : boundedB c with
    | false => exact Or.inr ⟨by trivial, by trivial⟩
    | true =>
      simp only [Bool.not_true, Bool.false_eq_true, if_false, Bool.true_and]
      rcases drawKids_spec kids (dynChildCtx cursor c) with ⟨ha, l, hl, _⟩ | ⟨ha, he⟩
      · simp only [hl, ha]
        have p := dynAround_dims exact cursor gap c l
        exact Or.inl ⟨by trivial, _, rfl, by rw [p.1]; exact UInt16.le_refl _, by rw [p.2.1]; exact UInt16.le_refl _⟩
      · simp only [he, ha]
        exact Or.inr ⟨by trivial, by trivial⟩
theorem drawKids_spec : ∀ (k : Widgets) (c : Ctx),
    (acceptsAll k c = true ∧ ∃ l, drawKids exact tm rm k c = .ok l ∧ l.length = k.toList.length ∧
      ∀ s ∈ l, s.w ≤ c.maxW ∧ s.h ≤ c.maxH) ∨
    (acceptsAll k c = false ∧ drawKids exact tm rm k c = .error .explicit)
  | .nil, c => Or.inl ⟨rfl, [], rfl, rfl, by intro s hs; cases hs⟩
  | .cons w rest, c => by
    simp only [drawKids, acceptsAll]
    rcases draw_spec w c with ⟨ha, s, hs, hw, hh⟩ | ⟨ha, he⟩
    · simp only [hs, ha, Bool.true_and]
      rcases drawKids_spec rest c with ⟨hb, l, hl, hlen, hall⟩ | ⟨hb, he⟩
      · simp only [hl, hb]
        refine Or.inl ⟨by trivial, _, rfl, by simp [Widgets.toList, hlen], ?_⟩
        intro s' hs'
        rcases List.mem_cons.1 hs' with rfl | hm
        · exact ⟨hw, hh⟩
        · exact hall s' hm
      · simp only [he, hb]
        exact Or.inr ⟨by trivial, by trivial⟩
    · simp only [he, ha, Bool.false_and]
      exact Or.inr ⟨by trivial, by trivial⟩
end
end

/-! ### which nestings are accepted -/

/-- A widget that needs bounded constraints is not accepted under an unbounded one. -/
theorem not_accepts_of_needsBounded (w : Widget) (c : Ctx) (hn : needsBounded w = true) (hb : boundedB c = false) :
    accepts w c = false := by
  cases w with
  | text hard st lines => (simp only [needsBounded, Widget.goName] at hn; exact absurd hn (by decide))
  | rich hard lines => (simp only [needsBounded, Widget.goName] at hn; exact absurd hn (by decide))
  | field chars => (simp only [needsBounded, Widget.goName] at hn; exact absurd hn (by decide))
  | center child => simp [accepts, hb]
  | button st lines => simp [accepts, hb]
  | dynamic cursor gap kids => simp [accepts, hb]

/-- A widget that does not need bounded constraints (Text, RichText, TextField) accepts everything. -/
theorem accepts_of_not_needsBounded (w : Widget) (c : Ctx) (hn : needsBounded w = false) : accepts w c = true := by
  cases w with
  | text hard st lines => rfl
  | rich hard lines => rfl
  | field chars => rfl
  | center child => (simp only [needsBounded, Widget.goName] at hn; exact absurd hn (by decide))
  | button st lines => (simp only [needsBounded, Widget.goName] at hn; exact absurd hn (by decide))
  | dynamic cursor gap kids => (simp only [needsBounded, Widget.goName] at hn; exact absurd hn (by decide))

/-- Under Dynamic's child constraint exactly the widgets that need no bounded constraint are accepted. -/
theorem acceptsAll_dyn (cursor : Bool) (c : Ctx) : ∀ k : Widgets,
    acceptsAll k (dynChildCtx cursor c) = k.toList.all (fun w => !needsBounded w)
  | .nil => rfl
  | .cons w rest => by
    simp only [acceptsAll, Widgets.toList, List.all_cons, acceptsAll_dyn cursor c rest]
    cases hn : needsBounded w with
    | true => rw [not_accepts_of_needsBounded w _ hn (dynChildCtx_unbounded cursor c)]; rfl
    | false => rw [accepts_of_not_needsBounded w _ hn]; rfl

end VaxisModel.Lemmas.Layout
