import VaxisModel.Model.Pager

/-! Helper lemmas for `Props/C19.lean` (widgets/pager). -/
namespace VaxisModel.Lemmas.Pager
open VaxisModel.Model.Pager

/-- Total width of a line. -/
def widthSum : Line → Int
  | [] => 0
  | c :: cs => c.width + widthSum cs

theorem widthSum_append (a b : Line) : widthSum (a ++ b) = widthSum a + widthSum b := by
  induction a with
  | nil => simp [widthSum]
  | cons c cs ih => simp only [List.cons_append, widthSum, ih]; omega

/-- A line respects the width `w`: it is at most one character, or everything before its last
    character is narrower than `w` (the last character — possibly a wide one — is what made the
    line reach the width). -/
def Good (w : Int) (l : Line) : Prop := l.length ≤ 1 ∨ widthSum l.dropLast < w

/-- Everything laid out so far, in order. -/
def flat (s : LState) : List Ch := s.lines.flatten ++ s.cur

theorem flat_step (w : Int) (s : LState) (c : Ch) :
    flat (layoutStep w s c) = flat s ++ (if c.isNl then [] else [c]) := by
  unfold layoutStep flat
  by_cases hn : c.isNl = true
  · simp [hn]
  · simp only [hn, Bool.false_eq_true, if_false]
    split <;> simp

theorem flat_loop (w : Int) (cs : List Ch) : ∀ s : LState,
    flat (layoutLoop w s cs) = flat s ++ cs.filter (fun c => !c.isNl) := by
  induction cs with
  | nil => intro s; simp [layoutLoop]
  | cons c cs ih =>
    intro s
    have := ih (layoutStep w s c)
    simp only [layoutLoop, List.foldl_cons] at this ⊢
    rw [this, flat_step]
    by_cases hn : c.isNl = true <;> simp [hn]

structure LInv (w : Int) (s : LState) : Prop where
  col_eq : s.col = widthSum s.cur
  col_lt : s.cur ≠ [] → s.col < w
  cur_good : Good w s.cur
  lines_good : ∀ l ∈ s.lines, Good w l

theorem good_snoc (w : Int) (cur : Line) (c : Ch) (h : cur ≠ [] → widthSum cur < w) :
    Good w (cur ++ [c]) := by
  unfold Good
  by_cases hc : cur = []
  · left; simp [hc]
  · right; simp only [List.dropLast_concat]; exact h hc

theorem inv_step (w : Int) (s : LState) (c : Ch) (h : LInv w s) : LInv w (layoutStep w s c) := by
  unfold layoutStep
  by_cases hn : c.isNl = true
  · simp only [hn, if_true]
    refine ⟨by simp [widthSum], by simp, by simp [Good], ?_⟩
    intro l hl
    simp only [List.mem_append, List.mem_singleton] at hl
    rcases hl with hl | rfl
    · exact h.lines_good l hl
    · exact h.cur_good
  · simp only [hn, Bool.false_eq_true, if_false]
    have hg : Good w (s.cur ++ [c]) := good_snoc w s.cur c (fun hc => by have := h.col_lt hc; rw [h.col_eq] at this; exact this)
    split
    · refine ⟨by simp [widthSum], by simp, by simp [Good], ?_⟩
      intro l hl
      simp only [List.mem_append, List.mem_singleton] at hl
      rcases hl with hl | rfl
      · exact h.lines_good l hl
      · exact hg
    · rename_i hlt
      refine ⟨?_, ?_, hg, h.lines_good⟩
      · simp only [widthSum_append, widthSum, h.col_eq]; omega
      · intro _; simp only []; omega

theorem inv_loop (w : Int) (cs : List Ch) : ∀ s : LState, LInv w s → LInv w (layoutLoop w s cs) := by
  induction cs with
  | nil => intro s h; simpa [layoutLoop] using h
  | cons c cs ih =>
    intro s h
    have := ih (layoutStep w s c) (inv_step w s c h)
    simpa [layoutLoop] using this

theorem inv_init (w : Int) : LInv w { lines := [], cur := [], col := 0 } :=
  ⟨by simp [widthSum], by simp, by simp [Good], by simp⟩

/-- `Layout` with the final flush reproduces the text. -/
theorem layout_flatten (w : Int) (cs : List Ch) :
    (layout true w cs).flatten = cs.filter (fun c => !c.isNl) := by
  have h := flat_loop w cs { lines := [], cur := [], col := 0 }
  simp only [flat, List.flatten_nil, List.nil_append] at h
  unfold layout
  simp only [Bool.true_and]
  split
  · rw [List.flatten_append]; simpa using h
  · rename_i hc
    have : (layoutLoop w { lines := [], cur := [], col := 0 } cs).cur = [] := by
      simpa using hc
    rw [this] at h; simpa using h

theorem layout_good (flush : Bool) (w : Int) (cs : List Ch) : ∀ l ∈ layout flush w cs, Good w l := by
  have h := inv_loop w cs _ (inv_init w)
  unfold layout
  intro l hl
  simp only [] at hl
  split at hl
  · simp only [List.mem_append, List.mem_singleton] at hl
    rcases hl with hl | rfl
    · exact h.lines_good l hl
    · exact h.cur_good
  · exact h.lines_good l hl

theorem clamp_bounds (n : Nat) (off : Int) (h : Nat) :
    0 ≤ clampOffset n off h ∧ clampOffset n off h ≤ max 0 ((n : Int) - h) := by
  unfold clampOffset
  simp only []
  split <;> split <;> omega

/-! ### drawing one row places every character -/

theorem go_spec (w : Nat) : ∀ (rest : List Ch) (cells : List (Option Ch)) (col : Int),
    0 ≤ col → (∀ c ∈ rest, 1 ≤ c.width) → cells.length = w →
    (drawRow.go w cells col rest).length = w ∧
    (∀ j : Nat, (j : Int) < col → (drawRow.go w cells col rest)[j]? = cells[j]?) ∧
    (∀ (k : Nat) (c : Ch), rest[k]? = some c → col + widthSum (rest.take k) < w →
      (drawRow.go w cells col rest)[(col + widthSum (rest.take k)).toNat]? = some (some c)) := by
  intro rest
  induction rest with
  | nil =>
    intro cells col _ _ hl
    exact ⟨hl, fun _ _ => rfl, fun k c h => by simp at h⟩
  | cons d rest ih =>
    intro cells col h0 hpos hl
    have hd : 1 ≤ d.width := hpos d List.mem_cons_self
    obtain ⟨cells', hc'⟩ : ∃ x, x = (if 0 ≤ col ∧ col < (w : Int) then cells.set col.toNat (some d) else cells) := ⟨_, rfl⟩
    have hl' : cells'.length = w := by rw [hc']; split <;> simp [hl]
    obtain ⟨i1, i2, i3⟩ := ih cells' (col + d.width) (by omega) (fun c hc => hpos c (List.mem_cons_of_mem _ hc)) hl'
    have hgo : drawRow.go w cells col (d :: rest) = drawRow.go w cells' (col + d.width) rest := by
      rw [hc']; rfl
    rw [hgo]
    refine ⟨i1, ?_, ?_⟩
    · intro j hj
      rw [i2 j (by omega), hc']
      split
      · rw [List.getElem?_set_ne (by omega)]
      · rfl
    · intro k c hk hlt
      cases k with
      | zero =>
        simp only [List.getElem?_cons_zero, Option.some.injEq] at hk
        subst hk
        simp only [List.take_zero, widthSum, Int.add_zero] at hlt ⊢
        rw [i2 col.toNat (by omega), hc', if_pos ⟨h0, hlt⟩]
        rw [List.getElem?_set_self (by omega)]
      | succ k =>
        have hk' : rest[k]? = some c := by simpa using hk
        have e : col + widthSum ((d :: rest).take (k + 1)) = col + d.width + widthSum (rest.take k) := by
          simp only [List.take_succ_cons, widthSum]; omega
        rw [e] at hlt ⊢
        exact i3 k c hk' hlt

/-- In a line that respects the width (all characters at least one column wide), every character
    starts in a column inside the window. -/
theorem good_cols (w : Nat) (hw : 1 ≤ w) (l : Line) (hg : Good w l) (hpos : ∀ c ∈ l, 1 ≤ c.width)
    (k : Nat) (c : Ch) (hk : l[k]? = some c) : widthSum (l.take k) < w := by
  have hkl : k < l.length := by
    rcases Nat.lt_or_ge k l.length with h | h
    · exact h
    · rw [List.getElem?_eq_none h] at hk; cases hk
  have mono : ∀ (a b : Line), (∀ c ∈ b, 1 ≤ c.width) → widthSum a ≤ widthSum (a ++ b) := by
    intro a b hb
    rw [widthSum_append]
    have : ∀ (b : Line), (∀ c ∈ b, 1 ≤ c.width) → 0 ≤ widthSum b := by
      intro b
      induction b with
      | nil => intro _; simp [widthSum]
      | cons x xs ih =>
        intro hx
        have := ih (fun c hc => hx c (List.mem_cons_of_mem _ hc))
        have := hx x List.mem_cons_self
        simp only [widthSum]; omega
    have := this b hb
    omega
  rcases hg with h1 | h1
  · have : k = 0 := by omega
    subst this
    simp [widthSum]; omega
  · -- take k l is a prefix of dropLast l
    have hpre : l.dropLast = l.take k ++ (l.dropLast.drop k) := by
      have : l.take k = l.dropLast.take k := by
        rw [List.dropLast_eq_take, List.take_take]
        congr 1; omega
      rw [this, List.take_append_drop]
    have hm := mono (l.take k) (l.dropLast.drop k) (fun c hc => hpos c (by
      have h' := List.mem_of_mem_drop hc
      rw [List.dropLast_eq_take] at h'
      exact List.mem_of_mem_take h'))
    rw [← hpre] at hm
    omega

end VaxisModel.Lemmas.Pager
