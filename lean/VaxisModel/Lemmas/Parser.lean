/-
C02: step lemmas for the hand model (`pstep`), one per (state, byte class) that the round-trip
theorems need, and the run lemmas built from them.
-/
import VaxisModel.Model.Parser
import VaxisModel.Lemmas.ParserParams

namespace VaxisModel.Lemmas.Parser
open VaxisModel.Model.ParserTable VaxisModel.Model.Parser VaxisModel.Lemmas.ParserParams

theorem row_class (f : StateFn) (a hi r : Nat) (res : List Act × Next)
    (hc : clear f.bounds a hi = true) (hrow : f.row (.rune a) = res) (h1 : a ≤ r) (h2 : r ≤ hi) :
    f.row (.rune r) = res := by
  rw [StateFn.row_const f a hi r hc h1 h2, hrow]

theorem row_class_above (f : StateFn) (a r : Nat) (res : List Act × Next)
    (hc : clearAbove f.bounds a = true) (hrow : f.row (.rune a) = res) (h1 : a ≤ r) :
    f.row (.rune r) = res := by
  rw [StateFn.row_const_above f a r hc h1, hrow]

/-- A rune other than CAN, SUB, ESC is passed by `anywhere` to the state function. -/
theorem anywhere_plain (r : Nat) (h1 : r ≠ 0x18) (h2 : r ≠ 0x1A) (h3 : r ≠ 0x1B) :
    handAnywhere.row (.rune r) = ([], .dispatch) := by
  simp [StateFn.row, StateFn.arm, handAnywhere, findArm, findEarly, Arm.fires, Guard.eval, h1, h2, h3]

/-- `pstep` on such a rune = the state function's arm. -/
theorem pstep_plain (s : PState) (r : Nat) (h1 : r ≠ 0x18) (h2 : r ≠ 0x1A) (h3 : r ≠ 0x1B) :
    pstep s (.rune r) =
      finish
        (if ((handFn s.state).row (.rune r)).1.contains .deferClearIgnoreST
          then { (runActs ((handFn s.state).row (.rune r)).1 (.rune r) s [] ((handFn s.state).row (.rune r)).2).1 with ignoreST := false }
          else (runActs ((handFn s.state).row (.rune r)).1 (.rune r) s [] ((handFn s.state).row (.rune r)).2).1)
        (runActs ((handFn s.state).row (.rune r)).1 (.rune r) s [] ((handFn s.state).row (.rune r)).2).2.1
        (runActs ((handFn s.state).row (.rune r)).1 (.rune r) s [] ((handFn s.state).row (.rune r)).2).2.2 := by
  have ha : runFn handAnywhere (.rune r) s = (s, [], .dispatch) := by
    simp only [runFn, anywhere_plain r h1 h2 h3, runActs]; rfl
  show step handTable s (.rune r) = _
  unfold step
  simp only [handTable, ha]
  simp only [runFn, List.nil_append]

/-- ESC from any state whose exit function is unset: clear, go to `escape`. -/
theorem pstep_esc (s : PState) (he : s.exit = none) :
    pstep s (.rune 0x1B) = ⟨{ s with state := .escape, inter := [], params := [] }, [], false⟩ := by
  have hrow : handAnywhere.row (.rune 0x1B) = ([.runExitIfSet, .clear, .startTimer], .st .escape) := by decide
  have hpre : ([.runExitIfSet, .clear, .startTimer] : List Act).contains Act.deferClearIgnoreST = false := by decide
  show step handTable s (.rune 0x1B) = _
  unfold step
  simp only [handTable, runFn, hrow, hpre, runActs, applyAct, he]
  rfl

/-! ### escape -/

theorem escape_csi (s : PState) (hs : s.state = .escape) :
    pstep s (.rune 0x5B) = ⟨{ s with state := .csiEntry, inter := [], params := [], ignoreST := false }, [], false⟩ := by
  have hrow : (handFn .escape).row (.rune 0x5B) = ([.deferClearIgnoreST, .clear], .st .csiEntry) := by decide
  rw [pstep_plain s _ (by decide) (by decide) (by decide), hs, hrow]
  simp [runActs, applyAct, finish, handFn]

/-! ### CSI -/

def CsiHead (s : PState) : Prop := s.state = .csiEntry ∨ s.state = .csiParam
def CsiBody (s : PState) : Prop := s.state = .csiEntry ∨ s.state = .csiParam ∨ s.state = .csiIntermediate

theorem row_param (st : StateId) (hst : st = .csiEntry ∨ st = .csiParam) (r : Nat) (h1 : 0x30 ≤ r) (h2 : r ≤ 0x3B) :
    (handFn st).row (.rune r) = ([.param], .st .csiParam) := by
  by_cases h : r ≤ 0x39
  · rcases hst with h' | h' <;> subst h' <;> exact row_class _ 0x30 0x39 r _ (by decide) (by decide) h1 h
  · by_cases h' : r = 0x3A
    · subst h'; rcases hst with h' | h' <;> subst h' <;> decide
    · have : r = 0x3B := by omega
      subst this; rcases hst with h' | h' <;> subst h' <;> decide

theorem csi_param (s : PState) (hs : CsiHead s) (r : Nat) (h1 : 0x30 ≤ r) (h2 : r ≤ 0x3B) :
    pstep s (.rune r) = ⟨{ s with state := .csiParam, params := s.params ++ [r] }, [], false⟩ := by
  rw [pstep_plain s r (by omega) (by omega) (by omega), row_param s.state hs r h1 h2]
  rcases hs with hs | hs <;> simp [runActs, applyAct, finish, handFn, hs]

theorem csi_private (s : PState) (hs : s.state = .csiEntry) (r : Nat) (h1 : 0x3C ≤ r) (h2 : r ≤ 0x3F) :
    pstep s (.rune r) = ⟨{ s with state := .csiParam, inter := s.inter ++ [r] }, [], false⟩ := by
  have hrow : (handFn .csiEntry).row (.rune r) = ([.collect], .st .csiParam) :=
    row_class _ 0x3C 0x3F r _ (by decide) (by decide) h1 h2
  rw [pstep_plain s r (by omega) (by omega) (by omega), hs, hrow]
  simp [runActs, applyAct, finish, handFn]

theorem row_inter (st : StateId) (hst : st = .csiEntry ∨ st = .csiParam ∨ st = .csiIntermediate) (r : Nat)
    (h1 : 0x20 ≤ r) (h2 : r ≤ 0x2F) :
    (handFn st).row (.rune r) = ([.collect], .st .csiIntermediate) := by
  rcases hst with h' | h' | h' <;> subst h' <;> exact row_class _ 0x20 0x2F r _ (by decide) (by decide) h1 h2

theorem csi_inter (s : PState) (hs : CsiBody s) (r : Nat) (h1 : 0x20 ≤ r) (h2 : r ≤ 0x2F) :
    pstep s (.rune r) = ⟨{ s with state := .csiIntermediate, inter := s.inter ++ [r] }, [], false⟩ := by
  rw [pstep_plain s r (by omega) (by omega) (by omega), row_inter s.state hs r h1 h2]
  rcases hs with hs | hs | hs <;> simp [runActs, applyAct, finish, handFn, hs]

theorem row_final (st : StateId) (hst : st = .csiEntry ∨ st = .csiParam ∨ st = .csiIntermediate) (r : Nat)
    (h1 : 0x40 ≤ r) (h2 : r ≤ 0x7E) :
    (handFn st).row (.rune r) = ([.csiDispatch], .st .ground) := by
  rcases hst with h' | h' | h' <;> subst h' <;> exact row_class _ 0x40 0x7E r _ (by decide) (by decide) h1 h2

theorem csi_final (s : PState) (hs : CsiBody s) (r : Nat) (h1 : 0x40 ≤ r) (h2 : r ≤ 0x7E) :
    pstep s (.rune r) =
      ⟨{ s with state := .ground, inter := [] }, [.csi s.inter (decodeParams s.params) r], false⟩ := by
  rw [pstep_plain s r (by omega) (by omega) (by omega), row_final s.state hs r h1 h2]
  rcases hs with hs | hs | hs <;> simp [runActs, applyAct, finish, handFn, hs]

/-! ### run -/

theorem run_append (s : PState) (u v : List Nat) :
    run s (u ++ v) = ((run (run s u).1 v).1, (run s u).2 ++ (run (run s u).1 v).2) := by
  induction u generalizing s with
  | nil => simp [run]
  | cons a u ih => simp only [List.cons_append, run, ih, List.append_assoc]

/-- Parameter bytes accumulate. -/
theorem run_params (w : List Nat) (hw : ∀ b ∈ w, 0x30 ≤ b ∧ b ≤ 0x3B) (s : PState) (hs : CsiHead s) :
    run s w = ({ s with state := if w.isEmpty then s.state else .csiParam, params := s.params ++ w }, []) := by
  induction w generalizing s with
  | nil => simp [run]
  | cons b w ih =>
    have hb := hw b (by simp)
    simp only [run, csi_param s hs b hb.1 hb.2]
    rw [ih (fun b' hb' => hw b' (by simp [hb'])) _ (Or.inr rfl)]
    cases w <;> simp

/-- Intermediate bytes accumulate. -/
theorem run_inters (w : List Nat) (hw : ∀ b ∈ w, 0x20 ≤ b ∧ b ≤ 0x2F) (s : PState) (hs : CsiBody s) :
    run s w = ({ s with state := if w.isEmpty then s.state else .csiIntermediate, inter := s.inter ++ w }, []) := by
  induction w generalizing s with
  | nil => simp [run]
  | cons b w ih =>
    have hb := hw b (by simp)
    simp only [run, csi_inter s hs b hb.1 hb.2]
    rw [ih (fun b' hb' => hw b' (by simp [hb'])) _ (Or.inr (Or.inr rfl))]
    cases w <;> simp

/-- From the head of a control sequence: parameter bytes, intermediates, final. -/
theorem csi_tail (s : PState) (hs : CsiHead s) (pb ib : List Nat) (f : Nat)
    (hp : ∀ b ∈ pb, 0x30 ≤ b ∧ b ≤ 0x3B) (hi : ∀ b ∈ ib, 0x20 ≤ b ∧ b ≤ 0x2F) (hf1 : 0x40 ≤ f) (hf2 : f ≤ 0x7E) :
    run s (pb ++ (ib ++ [f])) =
      ({ s with state := .ground, inter := [], params := s.params ++ pb },
       [.csi (s.inter ++ ib) (decodeParams (s.params ++ pb)) f]) := by
  rw [run_append, run_params pb hp s hs]
  simp only []
  generalize hs1 : ({ s with state := if pb.isEmpty then s.state else .csiParam, params := s.params ++ pb } : PState) = s1
  have hb1 : CsiBody s1 := by
    subst hs1; unfold CsiBody; rcases hs with h | h <;> cases pb <;> simp [h]
  rw [run_append, run_inters ib hi s1 hb1]
  simp only []
  generalize hs2 : ({ s1 with state := if ib.isEmpty then s1.state else .csiIntermediate, inter := s1.inter ++ ib } : PState) = s2
  have hb2 : CsiBody s2 := by
    subst hs2; unfold CsiBody; rcases hb1 with h | h | h <;> cases ib <;> simp [h]
  simp only [run]
  rw [csi_final s2 hb2 f hf1 hf2]
  subst hs2; subst hs1
  simp

/-- A well-formed control sequence value. `priv` is the private marker (3C–3F), delivered as the
    first intermediate, as the implementation documents. -/
structure CsiVal where
  priv : Option Nat
  params : List (List Nat)
  inters : List Nat
  final : Nat

def CsiVal.WF (v : CsiVal) : Prop :=
  (∀ p ∈ v.priv, 0x3C ≤ p ∧ p ≤ 0x3F) ∧ ParamsOk v.params ∧
  (∀ b ∈ v.inters, 0x20 ≤ b ∧ b ≤ 0x2F) ∧ 0x40 ≤ v.final ∧ v.final ≤ 0x7E

def encodeCsi (v : CsiVal) : List Nat :=
  0x1B :: 0x5B :: (v.priv.toList ++ (encParams v.params ++ (v.inters ++ [v.final])))

/-! ### ESC with an exit function pending; CAN/SUB -/

/-- ESC inside a control string: the exit function runs first. -/
theorem pstep_esc_exit (s : PState) (f : ExitFn) (he : s.exit = some f) :
    pstep s (.rune 0x1B) =
      ⟨{ (runExitFn s f).1 with state := .escape, inter := [], params := [], exit := none }, (runExitFn s f).2, false⟩ := by
  have hrow : handAnywhere.row (.rune 0x1B) = ([.runExitIfSet, .clear, .startTimer], .st .escape) := by decide
  have hpre : ([.runExitIfSet, .clear, .startTimer] : List Act).contains Act.deferClearIgnoreST = false := by decide
  show step handTable s (.rune 0x1B) = _
  unfold step
  simp only [handTable, runFn, hrow, hpre, runActs, applyAct, he]
  cases f <;> rfl

/-! ### escape sequences -/

theorem escape_inter (s : PState) (hs : s.state = .escape) (r : Nat) (h1 : 0x20 ≤ r) (h2 : r ≤ 0x2F) :
    pstep s (.rune r) = ⟨{ s with state := .escapeIntermediate, inter := s.inter ++ [r], ignoreST := false }, [], false⟩ := by
  have hrow : (handFn .escape).row (.rune r) = ([.deferClearIgnoreST, .collect], .st .escapeIntermediate) :=
    row_class _ 0x20 0x2F r _ (by decide) (by decide) h1 h2
  rw [pstep_plain s r (by omega) (by omega) (by omega), hs, hrow]
  simp [runActs, applyAct, finish, handFn]

theorem escInt_inter (s : PState) (hs : s.state = .escapeIntermediate) (r : Nat) (h1 : 0x20 ≤ r) (h2 : r ≤ 0x2F) :
    pstep s (.rune r) = ⟨{ s with inter := s.inter ++ [r] }, [], false⟩ := by
  have hrow : (handFn .escapeIntermediate).row (.rune r) = ([.collect], .st .escapeIntermediate) :=
    row_class _ 0x20 0x2F r _ (by decide) (by decide) h1 h2
  rw [pstep_plain s r (by omega) (by omega) (by omega), hs, hrow]
  simp [runActs, applyAct, finish, handFn, hs]

theorem escInt_final (s : PState) (hs : s.state = .escapeIntermediate) (r : Nat) (h1 : 0x30 ≤ r) (h2 : r ≤ 0x7E) :
    pstep s (.rune r) = ⟨{ s with state := .ground, inter := [] }, [.esc s.inter r], false⟩ := by
  have hrow : (handFn .escapeIntermediate).row (.rune r) = ([.escapeDispatch], .st .ground) :=
    row_class _ 0x30 0x7E r _ (by decide) (by decide) h1 h2
  rw [pstep_plain s r (by omega) (by omega) (by omega), hs, hrow]
  simp [runActs, applyAct, finish, handFn]

/-- The finals that `escape` dispatches directly (everything in 30–7F except the introducers
    O P X [ \ ] ^ _). -/
def EscFinal (r : Nat) : Prop :=
  (0x30 ≤ r ∧ r ≤ 0x4E) ∨ (0x51 ≤ r ∧ r ≤ 0x57) ∨ r = 0x59 ∨ r = 0x5A ∨ (0x60 ≤ r ∧ r ≤ 0x7F)

theorem escape_final (s : PState) (hs : s.state = .escape) (r : Nat) (hr : EscFinal r) :
    pstep s (.rune r) = ⟨{ s with state := .ground, inter := [], ignoreST := false }, [.esc s.inter r], false⟩ := by
  have hrow : (handFn .escape).row (.rune r) = ([.deferClearIgnoreST, .escapeDispatch], .st .ground) := by
    rcases hr with ⟨h1, h2⟩ | ⟨h1, h2⟩ | h | h | ⟨h1, h2⟩
    · exact row_class _ 0x30 0x4E r _ (by decide) (by decide) h1 h2
    · exact row_class _ 0x51 0x57 r _ (by decide) (by decide) h1 h2
    · subst h; decide
    · subst h; decide
    · exact row_class _ 0x60 0x7F r _ (by decide) (by decide) h1 h2
  have hne : r ≠ 0x18 ∧ r ≠ 0x1A ∧ r ≠ 0x1B := by
    rcases hr with ⟨h1, h2⟩ | ⟨h1, h2⟩ | h | h | ⟨h1, h2⟩ <;> omega
  rw [pstep_plain s r hne.1 hne.2.1 hne.2.2, hs, hrow]
  simp [runActs, applyAct, finish, handFn]

/-- `ESC \` when no control string was open: an ordinary escape sequence (Alt+\). -/
theorem escape_backslash (s : PState) (hs : s.state = .escape) (hi : s.ignoreST = false) :
    pstep s (.rune 0x5C) = ⟨{ s with state := .ground, inter := [] }, [.esc s.inter 0x5C], false⟩ := by
  have hrow : (handFn .escape).row (.rune 0x5C) =
      ([.deferClearIgnoreST, .retIfIgnoreST (.st .ground), .escapeDispatch], .st .ground) := by decide
  rw [pstep_plain s _ (by decide) (by decide) (by decide), hs, hrow]
  simp [runActs, applyAct, finish, handFn, hi]

/-- `ESC \` as the terminator of a control string: nothing is delivered. -/
theorem escape_st (s : PState) (hs : s.state = .escape) (hi : s.ignoreST = true) :
    pstep s (.rune 0x5C) = ⟨{ s with state := .ground, ignoreST := false }, [], false⟩ := by
  have hrow : (handFn .escape).row (.rune 0x5C) =
      ([.deferClearIgnoreST, .retIfIgnoreST (.st .ground), .escapeDispatch], .st .ground) := by decide
  rw [pstep_plain s _ (by decide) (by decide) (by decide), hs, hrow]
  simp [runActs, applyAct, finish, handFn, hi]

theorem run_escInters (w : List Nat) (hw : ∀ b ∈ w, 0x20 ≤ b ∧ b ≤ 0x2F) (s : PState) (hs : s.state = .escapeIntermediate) :
    run s w = ({ s with inter := s.inter ++ w }, []) := by
  induction w generalizing s with
  | nil => simp [run]
  | cons b w ih =>
    have hb := hw b (by simp)
    simp only [run, escInt_inter s hs b hb.1 hb.2]
    rw [ih (fun b' hb' => hw b' (by simp [hb'])) _ (by exact hs)]
    simp

/-! ### SS3 -/

theorem escape_ss3 (s : PState) (hs : s.state = .escape) :
    pstep s (.rune 0x4F) = ⟨{ s with state := .ss3, ignoreST := false }, [], false⟩ := by
  have hrow : (handFn .escape).row (.rune 0x4F) = ([.deferClearIgnoreST], .st .ss3) := by decide
  rw [pstep_plain s _ (by decide) (by decide) (by decide), hs, hrow]
  simp [runActs, applyAct, finish, handFn]

theorem ss3_final (s : PState) (hs : s.state = .ss3) (r : Nat) (h1 : 0x20 ≤ r) (h2 : r ≠ 0x7F) :
    pstep s (.rune r) = ⟨{ s with state := .ground }, [.ss3 r], false⟩ := by
  have hrow : (handFn .ss3).row (.rune r) = ([.emitSS3], .st .ground) := by
    by_cases h : r ≤ 0x7E
    · exact row_class _ 0x20 0x7E r _ (by decide) (by decide) h1 h
    · exact row_class_above _ 0x80 r _ (by decide) (by decide) (by omega)
  rw [pstep_plain s r (by omega) (by omega) (by omega), hs, hrow]
  simp [runActs, applyAct, finish, handFn]

/-! ### OSC -/

theorem escape_osc (s : PState) (hs : s.state = .escape) :
    pstep s (.rune 0x5D) = ⟨{ s with state := .oscString, exit := some .oscEnd, ignoreST := false }, [], false⟩ := by
  have hrow : (handFn .escape).row (.rune 0x5D) = ([.deferClearIgnoreST, .oscStart], .st .oscString) := by decide
  rw [pstep_plain s _ (by decide) (by decide) (by decide), hs, hrow]
  simp [runActs, applyAct, finish, handFn]

theorem osc_put (s : PState) (hs : s.state = .oscString) (r : Nat) (h1 : 0x20 ≤ r) :
    pstep s (.rune r) = ⟨{ s with osc := s.osc ++ [r], ignoreST := true }, [], false⟩ := by
  have hrow : (handFn .oscString).row (.rune r) = ([.setIgnoreST, .oscPut], .st .oscString) := by
    by_cases h : r ≤ 0x7F
    · exact row_class _ 0x20 0x7F r _ (by decide) (by decide) h1 h
    · exact row_class_above _ 0x80 r _ (by decide) (by decide) (by omega)
  rw [pstep_plain s r (by omega) (by omega) (by omega), hs, hrow]
  simp [runActs, applyAct, finish, handFn, hs]

theorem osc_bel (s : PState) (hs : s.state = .oscString) (he : s.exit = some .oscEnd) :
    pstep s (.rune 0x07) = ⟨{ s with state := .ground, exit := none, osc := [], ignoreST := false }, [.osc s.osc], false⟩ := by
  have hrow : (handFn .oscString).row (.rune 0x07) =
      ([.setIgnoreST, .runExit, .clearExit, .clearIgnoreST], .st .ground) := by decide
  rw [pstep_plain s _ (by decide) (by decide) (by decide), hs, hrow]
  simp [runActs, applyAct, finish, handFn, he, runExitFn]

theorem run_osc (w : List Nat) (hw : ∀ b ∈ w, 0x20 ≤ b) (s : PState) (hs : s.state = .oscString) :
    run s w = ({ s with osc := s.osc ++ w, ignoreST := if w.isEmpty then s.ignoreST else true }, []) := by
  induction w generalizing s with
  | nil => simp [run]
  | cons b w ih =>
    have hb := hw b (by simp)
    simp only [run, osc_put s hs b hb]
    rw [ih (fun b' hb' => hw b' (by simp [hb'])) _ (by exact hs)]
    cases w <;> simp

/-! ### APC -/

theorem escape_apc (s : PState) (hs : s.state = .escape) :
    pstep s (.rune 0x5F) = ⟨{ s with state := .apc, exit := some .apcUnhook, ignoreST := false }, [], false⟩ := by
  have hrow : (handFn .escape).row (.rune 0x5F) = ([.deferClearIgnoreST, .setExitApc], .st .apc) := by decide
  rw [pstep_plain s _ (by decide) (by decide) (by decide), hs, hrow]
  simp [runActs, applyAct, finish, handFn]

theorem apc_put (s : PState) (hs : s.state = .apc) (r : Nat) (h1 : 0x20 ≤ r) :
    pstep s (.rune r) = ⟨{ s with apc := s.apc ++ [r], ignoreST := true }, [], false⟩ := by
  have hrow : (handFn .apc).row (.rune r) = ([.setIgnoreST, .apcPut], .st .apc) :=
    row_class_above _ 0x20 r _ (by decide) (by decide) h1
  rw [pstep_plain s r (by omega) (by omega) (by omega), hs, hrow]
  simp [runActs, applyAct, finish, handFn, hs]

theorem run_apc (w : List Nat) (hw : ∀ b ∈ w, 0x20 ≤ b) (s : PState) (hs : s.state = .apc) :
    run s w = ({ s with apc := s.apc ++ w, ignoreST := if w.isEmpty then s.ignoreST else true }, []) := by
  induction w generalizing s with
  | nil => simp [run]
  | cons b w ih =>
    have hb := hw b (by simp)
    simp only [run, apc_put s hs b hb]
    rw [ih (fun b' hb' => hw b' (by simp [hb'])) _ (by exact hs)]
    cases w <;> simp

/-! ### ground, ignore states -/

theorem ground_print (s : PState) (hs : s.state = .ground) (r : Nat) (h1 : 0x20 ≤ r) :
    pstep s (.rune r) = ⟨s, [.print r], false⟩ := by
  have hrow : (handFn .ground).row (.rune r) = ([.print], .st .ground) :=
    row_class_above _ 0x20 r _ (by decide) (by decide) h1
  rw [pstep_plain s r (by omega) (by omega) (by omega), hs, hrow]
  simp [runActs, applyAct, finish, handFn, ← hs]

theorem run_ground_text (w : List Nat) (hw : ∀ b ∈ w, 0x20 ≤ b) (s : PState) (hs : s.state = .ground) :
    run s w = (s, w.map .print) := by
  induction w with
  | nil => simp [run]
  | cons b w ih =>
    simp only [run, ground_print s hs b (hw b (by simp)), ih (fun b' hb' => hw b' (by simp [hb']))]
    simp

/-- Every row of a state function satisfies `P` if the rows for the runes 0…256 do. -/
theorem row_forall (f : StateFn) (P : List Act × Next → Prop)
    (hb : clearAbove f.bounds 256 = true) (h : ∀ c ∈ List.range 257, P (f.row (.rune c))) (c : Nat) :
    P (f.row (.rune c)) := by
  by_cases hc : c ≤ 256
  · exact h c (List.mem_range.mpr (by omega))
  · rw [StateFn.row_const_above f 256 c hb (by omega)]
    exact h 256 (List.mem_range.mpr (by omega))

/-- Statement lists made of `execute` and flag writes only emit C0 items (and return normally). -/
theorem runActs_quiet (acts : List Act) (hq : ∀ a ∈ acts, a = .execute ∨ a = .setIgnoreST) (r : Nat)
    (s : PState) (out : List Seq) (n : Next) (ho : ∀ x ∈ out, ∃ c, x = Seq.c0 c) :
    (∀ x ∈ (runActs acts (.rune r) s out n).2.1, ∃ c, x = Seq.c0 c) ∧
    (runActs acts (.rune r) s out n).2.2 = n := by
  induction acts generalizing s out with
  | nil => exact ⟨by simpa [runActs] using ho, rfl⟩
  | cons a rest ih =>
    rcases hq a (by simp) with h | h <;> subst h
    · simp only [runActs]
      apply ih (fun a' ha' => hq a' (by simp [ha']))
      intro x hx
      simp only [applyAct, List.mem_append] at hx
      rcases hx with hx | hx
      · exact ho x hx
      · split at hx <;> simp at hx
        exact ⟨r, hx⟩
    · simp only [runActs]
      apply ih (fun a' ha' => hq a' (by simp [ha']))
      intro x hx
      simp only [applyAct, List.append_nil] at hx
      exact ho x hx

def quietRow (row : List Act × Next) : Bool :=
  (row.1.all fun a => a == .execute || a == .setIgnoreST) && row.2 != .dispatch

end VaxisModel.Lemmas.Parser
