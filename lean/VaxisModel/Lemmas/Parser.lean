/-
C02: step lemmas for the hand model (`pstep`), one per (state, byte class) that the round-trip
theorems need, and the run lemmas built from them.
-/
import VaxisModel.Model.Parser
import VaxisModel.Lemmas.ParserParams

namespace VaxisModel.Lemmas.Parser
open VaxisModel.Model.ParserTable VaxisModel.Model.Parser VaxisModel.Lemmas.ParserParams

theorem row_class (f : StateFn) (a hi r : Nat) (res : List Act × Next)
    (hc : clear f.bounds a hi = true) (hrow : f.row (.rune a) = res) (h1 : a ≤ r) (h2 : r ≤ hi) :
    f.row (.rune r) = res := by
  rw [StateFn.row_const f a hi r hc h1 h2, hrow]

theorem row_class_above (f : StateFn) (a r : Nat) (res : List Act × Next)
    (hc : clearAbove f.bounds a = true) (hrow : f.row (.rune a) = res) (h1 : a ≤ r) :
    f.row (.rune r) = res := by
  rw [StateFn.row_const_above f a r hc h1, hrow]

/-- A rune other than CAN, SUB, ESC is passed by `anywhere` to the state function. -/
theorem anywhere_plain (r : Nat) (h1 : r ≠ 0x18) (h2 : r ≠ 0x1A) (h3 : r ≠ 0x1B) :
    handAnywhere.row (.rune r) = ([], .dispatch) := by
  simp [StateFn.row, StateFn.arm, handAnywhere, findArm, Arm.fires, Guard.eval, h1, h2, h3]

/-- `pstep` on such a rune = the state function's arm. -/
theorem pstep_plain (s : PState) (r : Nat) (h1 : r ≠ 0x18) (h2 : r ≠ 0x1A) (h3 : r ≠ 0x1B) :
    pstep s (.rune r) =
      finish
        (if (handFn s.state).pre.contains .deferClearIgnoreST
          then { (runActs ((handFn s.state).row (.rune r)).1 (.rune r) s [] ((handFn s.state).row (.rune r)).2).1 with ignoreST := false }
          else (runActs ((handFn s.state).row (.rune r)).1 (.rune r) s [] ((handFn s.state).row (.rune r)).2).1)
        (runActs ((handFn s.state).row (.rune r)).1 (.rune r) s [] ((handFn s.state).row (.rune r)).2).2.1
        (runActs ((handFn s.state).row (.rune r)).1 (.rune r) s [] ((handFn s.state).row (.rune r)).2).2.2 := by
  have hpre : handAnywhere.pre.contains Act.deferClearIgnoreST = false := by decide
  have ha : runFn handAnywhere (.rune r) s = (s, [], .dispatch) := by
    simp only [runFn, anywhere_plain r h1 h2 h3, runActs, hpre]; rfl
  show step handTable s (.rune r) = _
  unfold step
  simp only [handTable, ha]
  simp only [runFn, List.nil_append]

/-- ESC from any state whose exit function is unset: clear, go to `escape`. -/
theorem pstep_esc (s : PState) (he : s.exit = none) :
    pstep s (.rune 0x1B) = ⟨{ s with state := .escape, inter := [], params := [] }, [], false⟩ := by
  have hrow : handAnywhere.row (.rune 0x1B) = ([.runExitIfSet, .clear, .startTimer], .st .escape) := by decide
  have hpre : handAnywhere.pre.contains Act.deferClearIgnoreST = false := by decide
  show step handTable s (.rune 0x1B) = _
  unfold step
  simp only [handTable, runFn, hrow, hpre, runActs, applyAct, he]
  rfl

/-! ### escape -/

theorem escape_csi (s : PState) (hs : s.state = .escape) :
    pstep s (.rune 0x5B) = ⟨{ s with state := .csiEntry, inter := [], params := [], ignoreST := false }, [], false⟩ := by
  have hrow : (handFn .escape).row (.rune 0x5B) = ([.deferClearIgnoreST, .clear], .st .csiEntry) := by decide
  rw [pstep_plain s _ (by decide) (by decide) (by decide), hs, hrow]
  simp [runActs, applyAct, finish, handFn]

/-! ### CSI -/

def CsiHead (s : PState) : Prop := s.state = .csiEntry ∨ s.state = .csiParam
def CsiBody (s : PState) : Prop := s.state = .csiEntry ∨ s.state = .csiParam ∨ s.state = .csiIntermediate

theorem row_param (st : StateId) (hst : st = .csiEntry ∨ st = .csiParam) (r : Nat) (h1 : 0x30 ≤ r) (h2 : r ≤ 0x3B) :
    (handFn st).row (.rune r) = ([.param], .st .csiParam) := by
  by_cases h : r ≤ 0x39
  · rcases hst with h' | h' <;> subst h' <;> exact row_class _ 0x30 0x39 r _ (by decide) (by decide) h1 h
  · by_cases h' : r = 0x3A
    · subst h'; rcases hst with h' | h' <;> subst h' <;> decide
    · have : r = 0x3B := by omega
      subst this; rcases hst with h' | h' <;> subst h' <;> decide

theorem csi_param (s : PState) (hs : CsiHead s) (r : Nat) (h1 : 0x30 ≤ r) (h2 : r ≤ 0x3B) :
    pstep s (.rune r) = ⟨{ s with state := .csiParam, params := s.params ++ [r] }, [], false⟩ := by
  rw [pstep_plain s r (by omega) (by omega) (by omega), row_param s.state hs r h1 h2]
  rcases hs with hs | hs <;> simp [runActs, applyAct, finish, handFn, hs]

theorem csi_private (s : PState) (hs : s.state = .csiEntry) (r : Nat) (h1 : 0x3C ≤ r) (h2 : r ≤ 0x3F) :
    pstep s (.rune r) = ⟨{ s with state := .csiParam, inter := s.inter ++ [r] }, [], false⟩ := by
  have hrow : (handFn .csiEntry).row (.rune r) = ([.collect], .st .csiParam) :=
    row_class _ 0x3C 0x3F r _ (by decide) (by decide) h1 h2
  rw [pstep_plain s r (by omega) (by omega) (by omega), hs, hrow]
  simp [runActs, applyAct, finish, handFn]

theorem row_inter (st : StateId) (hst : st = .csiEntry ∨ st = .csiParam ∨ st = .csiIntermediate) (r : Nat)
    (h1 : 0x20 ≤ r) (h2 : r ≤ 0x2F) :
    (handFn st).row (.rune r) = ([.collect], .st .csiIntermediate) := by
  rcases hst with h' | h' | h' <;> subst h' <;> exact row_class _ 0x20 0x2F r _ (by decide) (by decide) h1 h2

theorem csi_inter (s : PState) (hs : CsiBody s) (r : Nat) (h1 : 0x20 ≤ r) (h2 : r ≤ 0x2F) :
    pstep s (.rune r) = ⟨{ s with state := .csiIntermediate, inter := s.inter ++ [r] }, [], false⟩ := by
  rw [pstep_plain s r (by omega) (by omega) (by omega), row_inter s.state hs r h1 h2]
  rcases hs with hs | hs | hs <;> simp [runActs, applyAct, finish, handFn, hs]

theorem row_final (st : StateId) (hst : st = .csiEntry ∨ st = .csiParam ∨ st = .csiIntermediate) (r : Nat)
    (h1 : 0x40 ≤ r) (h2 : r ≤ 0x7E) :
    (handFn st).row (.rune r) = ([.csiDispatch], .st .ground) := by
  rcases hst with h' | h' | h' <;> subst h' <;> exact row_class _ 0x40 0x7E r _ (by decide) (by decide) h1 h2

theorem csi_final (s : PState) (hs : CsiBody s) (r : Nat) (h1 : 0x40 ≤ r) (h2 : r ≤ 0x7E) :
    pstep s (.rune r) =
      ⟨{ s with state := .ground, inter := [] }, [.csi s.inter (decodeParams s.params) r], false⟩ := by
  rw [pstep_plain s r (by omega) (by omega) (by omega), row_final s.state hs r h1 h2]
  rcases hs with hs | hs | hs <;> simp [runActs, applyAct, finish, handFn, hs]

/-! ### run -/

theorem run_append (s : PState) (u v : List Nat) :
    run s (u ++ v) = ((run (run s u).1 v).1, (run s u).2 ++ (run (run s u).1 v).2) := by
  induction u generalizing s with
  | nil => simp [run]
  | cons a u ih => simp only [List.cons_append, run, ih, List.append_assoc]

/-- Parameter bytes accumulate. -/
theorem run_params (w : List Nat) (hw : ∀ b ∈ w, 0x30 ≤ b ∧ b ≤ 0x3B) (s : PState) (hs : CsiHead s) :
    run s w = ({ s with state := if w.isEmpty then s.state else .csiParam, params := s.params ++ w }, []) := by
  induction w generalizing s with
  | nil => simp [run]
  | cons b w ih =>
    have hb := hw b (by simp)
    simp only [run, csi_param s hs b hb.1 hb.2]
    rw [ih (fun b' hb' => hw b' (by simp [hb'])) _ (Or.inr rfl)]
    cases w <;> simp

/-- Intermediate bytes accumulate. -/
theorem run_inters (w : List Nat) (hw : ∀ b ∈ w, 0x20 ≤ b ∧ b ≤ 0x2F) (s : PState) (hs : CsiBody s) :
    run s w = ({ s with state := if w.isEmpty then s.state else .csiIntermediate, inter := s.inter ++ w }, []) := by
  induction w generalizing s with
  | nil => simp [run]
  | cons b w ih =>
    have hb := hw b (by simp)
    simp only [run, csi_inter s hs b hb.1 hb.2]
    rw [ih (fun b' hb' => hw b' (by simp [hb'])) _ (Or.inr (Or.inr rfl))]
    cases w <;> simp

/-- From the head of a control sequence: parameter bytes, intermediates, final. -/
theorem csi_tail (s : PState) (hs : CsiHead s) (pb ib : List Nat) (f : Nat)
    (hp : ∀ b ∈ pb, 0x30 ≤ b ∧ b ≤ 0x3B) (hi : ∀ b ∈ ib, 0x20 ≤ b ∧ b ≤ 0x2F) (hf1 : 0x40 ≤ f) (hf2 : f ≤ 0x7E) :
    run s (pb ++ (ib ++ [f])) =
      ({ s with state := .ground, inter := [], params := s.params ++ pb },
       [.csi (s.inter ++ ib) (decodeParams (s.params ++ pb)) f]) := by
  rw [run_append, run_params pb hp s hs]
  simp only []
  generalize hs1 : ({ s with state := if pb.isEmpty then s.state else .csiParam, params := s.params ++ pb } : PState) = s1
  have hb1 : CsiBody s1 := by
    subst hs1; unfold CsiBody; rcases hs with h | h <;> cases pb <;> simp [h]
  rw [run_append, run_inters ib hi s1 hb1]
  simp only []
  generalize hs2 : ({ s1 with state := if ib.isEmpty then s1.state else .csiIntermediate, inter := s1.inter ++ ib } : PState) = s2
  have hb2 : CsiBody s2 := by
    subst hs2; unfold CsiBody; rcases hb1 with h | h | h <;> cases ib <;> simp [h]
  simp only [run]
  rw [csi_final s2 hb2 f hf1 hf2]
  subst hs2; subst hs1
  simp

/-- A well-formed control sequence value. `priv` is the private marker (3C–3F), delivered as the
    first intermediate, as the implementation documents. -/
structure CsiVal where
  priv : Option Nat
  params : List (List Nat)
  inters : List Nat
  final : Nat

def CsiVal.WF (v : CsiVal) : Prop :=
  (∀ p ∈ v.priv, 0x3C ≤ p ∧ p ≤ 0x3F) ∧ ParamsOk v.params ∧
  (∀ b ∈ v.inters, 0x20 ≤ b ∧ b ≤ 0x2F) ∧ 0x40 ≤ v.final ∧ v.final ≤ 0x7E

def encodeCsi (v : CsiVal) : List Nat :=
  0x1B :: 0x5B :: (v.priv.toList ++ (encParams v.params ++ (v.inters ++ [v.final])))

end VaxisModel.Lemmas.Parser
