/-
C02/C08: a finite abstraction of the parser state — (state function, exit function, ignoreST) —
that `step` respects exactly.  Invariants over these three fields are then decided on the finite
abstraction (all abstract states × all runes ≤ 256 + eof) and lifted to every concrete state and
every input by the interval lemma.
-/
import VaxisModel.Model.Parser
import VaxisModel.Lemmas.ParserConform

namespace VaxisModel.Lemmas.ParserAbs
open VaxisModel.Model.ParserTable VaxisModel.Model.Parser VaxisModel.Lemmas.ParserConform

structure AS where
  state : StateId
  exit : Option ExitFn
  ign : Bool
  deriving DecidableEq, Repr, Inhabited

def α (s : PState) : AS := ⟨s.state, s.exit, s.ignoreST⟩

/-- Effect of one statement on (exit, ignoreST), and whether it panics. -/
def aAct (a : Act) (e : Option ExitFn) (g : Bool) : Option ExitFn × Bool × Bool :=
  match a with
  | .hook => (some .unhook, g, false)
  | .oscStart => (some .oscEnd, g, false)
  | .setIgnoreST => (e, true, false)
  | .clearIgnoreST => (e, false, false)
  | .setExitUnhook => (some .unhook, g, false)
  | .setExitApc => (some .apcUnhook, g, false)
  | .runExit => (e, g, e.isNone)
  | .clearExit => (none, g, false)
  | .runExitIfSet => (none, g, false)
  | .runExitIfSetST => (none, if e.isSome then true else g, false)
  | _ => (e, g, false)

theorem applyAct_abs (a : Act) (r : Nat) (s : PState) :
    (applyAct a r s).1.exit = (aAct a s.exit s.ignoreST).1 ∧
    (applyAct a r s).1.ignoreST = (aAct a s.exit s.ignoreST).2.1 ∧
    (applyAct a r s).1.state = s.state ∧
    (Seq.panic ∈ (applyAct a r s).2 ↔ (aAct a s.exit s.ignoreST).2.2 = true) := by
  cases a
  case execute => simp only [applyAct, aAct]; split <;> simp
  case hook =>
    simp only [applyAct, aAct]
    split
    · simp
    · split <;> simp
  case runExit =>
    simp only [applyAct, aAct]
    cases h : s.exit with
    | none => simp [h]
    | some f => cases f <;> simp [runExitFn, h]
  case runExitIfSet =>
    simp only [applyAct, aAct]
    cases h : s.exit with
    | none => simp_all
    | some f => cases f <;> simp [runExitFn]
  case runExitIfSetST =>
    simp only [applyAct, aAct]
    cases h : s.exit with
    | none => simp_all
    | some f => cases f <;> simp [runExitFn]
  all_goals simp [applyAct, aAct]

/-- Abstract `runActs`: (exit, ignoreST, panicked, next). -/
def aRunActs : List Act → Bool → Option ExitFn → Bool → Bool → Next → Option ExitFn × Bool × Bool × Next
  | [], _, e, g, p, n => (e, g, p, n)
  | .retIfIgnoreST n' :: rest, eof, e, g, p, n => if g then (e, g, p, n') else aRunActs rest eof e g p n
  | a :: rest, eof, e, g, p, n =>
    if eof && usesRune a then (e, g, true, .stop)
    else
      let (e', g', p') := aAct a e g
      aRunActs rest eof e' g' (p || p') n

def isEof : Inp → Bool
  | .eof => true
  | _ => false

theorem runActs_abs (acts : List Act) (i : Inp) (s : PState) (out : List Seq) (n : Next) :
    let c := runActs acts i s out n
    let a := aRunActs acts (isEof i) s.exit s.ignoreST (decide (Seq.panic ∈ out)) n
    c.1.exit = a.1 ∧ c.1.ignoreST = a.2.1 ∧ c.1.state = s.state ∧
    (Seq.panic ∈ c.2.1 ↔ a.2.2.1 = true) ∧ c.2.2 = a.2.2.2 := by
  induction acts generalizing s out with
  | nil => simp [runActs, aRunActs]
  | cons a rest ih =>
    by_cases hret : ∃ n', a = .retIfIgnoreST n'
    · obtain ⟨n', rfl⟩ := hret
      simp only [runActs, aRunActs]
      by_cases hg : s.ignoreST = true
      · simp [hg]
      · have hg' : s.ignoreST = false := by simpa using hg
        have := ih s out
        simp only [hg'] at this
        simp only [hg', Bool.false_eq_true, if_false]
        exact this
    · have hr1 : ∀ i s out n, runActs (a :: rest) i s out n =
          (match i with
           | .rune r => runActs rest i (applyAct a r s).1 (out ++ (applyAct a r s).2) n
           | .eof => if usesRune a then (s, out ++ [.panic], .stop)
                     else runActs rest i (applyAct a 0 s).1 (out ++ (applyAct a 0 s).2) n) := by
        intro i s out n
        cases a <;> first | (exfalso; exact hret ⟨_, rfl⟩) | (cases i <;> simp [runActs])
      have hr2 : ∀ eof e g p n, aRunActs (a :: rest) eof e g p n =
          (if eof && usesRune a then (e, g, true, .stop)
           else aRunActs rest eof (aAct a e g).1 (aAct a e g).2.1 (p || (aAct a e g).2.2) n) := by
        intro eof e g p n
        cases a <;> first | (exfalso; exact hret ⟨_, rfl⟩) | simp [aRunActs]
      simp only [hr1, hr2]
      cases i with
      | rune r =>
        simp only [isEof, Bool.false_and, Bool.false_eq_true, if_false]
        have hab := applyAct_abs a r s
        have := ih (applyAct a r s).1 (out ++ (applyAct a r s).2)
        simp only [hab.1, hab.2.1, hab.2.2.1] at this
        have hp : decide (Seq.panic ∈ out ++ (applyAct a r s).2) =
            (decide (Seq.panic ∈ out) || (aAct a s.exit s.ignoreST).2.2) := by
          have := hab.2.2.2
          by_cases h1 : Seq.panic ∈ out <;> by_cases h2 : (aAct a s.exit s.ignoreST).2.2 = true <;>
            simp_all
        rw [hp] at this
        exact this
      | eof =>
        simp only [isEof, Bool.true_and]
        by_cases hu : usesRune a = true
        · simp [hu]
        · simp only [hu, Bool.false_eq_true, if_false]
          have hab := applyAct_abs a 0 s
          have := ih (applyAct a 0 s).1 (out ++ (applyAct a 0 s).2)
          simp only [hab.1, hab.2.1, hab.2.2.1] at this
          have hp : decide (Seq.panic ∈ out ++ (applyAct a 0 s).2) =
              (decide (Seq.panic ∈ out) || (aAct a s.exit s.ignoreST).2.2) := by
            have := hab.2.2.2
            by_cases h1 : Seq.panic ∈ out <;> by_cases h2 : (aAct a s.exit s.ignoreST).2.2 = true <;>
              simp_all
          rw [hp] at this
          exact this

def aRunFn (f : StateFn) (i : Inp) (a : AS) : AS × Bool × Next :=
  let r := aRunActs (f.row i).1 (isEof i) a.exit a.ign false (f.row i).2
  (⟨a.state, r.1, if (f.row i).1.contains .deferClearIgnoreST then false else r.2.1⟩, r.2.2.1, r.2.2.2)

theorem runFn_abs (f : StateFn) (i : Inp) (s : PState) :
    α (runFn f i s).1 = (aRunFn f i (α s)).1 ∧
    (Seq.panic ∈ (runFn f i s).2.1 ↔ (aRunFn f i (α s)).2.1 = true) ∧
    (runFn f i s).2.2 = (aRunFn f i (α s)).2.2 := by
  have h := runActs_abs (f.row i).1 i s [] (f.row i).2
  simp only [List.not_mem_nil, decide_false] at h
  obtain ⟨h1, h2, h3, h4, h5⟩ := h
  simp only [runFn, aRunFn, α]
  refine ⟨?_, h4, h5⟩
  split <;> simp [h1, h2, h3]

def aFinish (a : AS) (p : Bool) : Next → AS × Bool × Bool
  | .st x => ({ a with state := x }, p, false)
  | .stop => (a, p, true)
  | .dispatch => (a, true, true)

theorem finish_abs (s : PState) (out : List Seq) (n : Next) (p : Bool) (hp : Seq.panic ∈ out ↔ p = true) :
    α (finish s out n).st = (aFinish (α s) p n).1 ∧
    (Seq.panic ∈ (finish s out n).out ↔ (aFinish (α s) p n).2.1 = true) ∧
    (finish s out n).stop = (aFinish (α s) p n).2.2 := by
  cases n <;> simp [finish, aFinish, α, hp]

/-- Abstract `step`. Result: new abstract state, panicked, stopped. -/
def aStep (T : Table) (a : AS) (i : Inp) : AS × Bool × Bool :=
  match aRunFn T.anywhere i a with
  | (a1, p1, .dispatch) =>
    let r := aRunFn (T.fn a1.state) i a1
    aFinish r.1 (p1 || r.2.1) r.2.2
  | (a1, p1, n) => aFinish a1 p1 n

/-- `step` respects the abstraction exactly. -/
theorem step_abs (T : Table) (s : PState) (i : Inp) :
    α (step T s i).st = (aStep T (α s) i).1 ∧
    (Seq.panic ∈ (step T s i).out ↔ (aStep T (α s) i).2.1 = true) ∧
    (step T s i).stop = (aStep T (α s) i).2.2 := by
  obtain ⟨h1, h2, h3⟩ := runFn_abs T.anywhere i s
  unfold step aStep
  generalize hr : runFn T.anywhere i s = r at h1 h2 h3
  obtain ⟨s1, o1, n1⟩ := r
  generalize ha : aRunFn T.anywhere i (α s) = ra at h1 h2 h3
  obtain ⟨a1, p1, m1⟩ := ra
  simp only at h1 h2 h3
  subst h3
  cases n1 with
  | dispatch =>
    simp only
    obtain ⟨g1, g2, g3⟩ := runFn_abs (T.fn s1.state) i s1
    have hst : s1.state = a1.state := by rw [← h1]; rfl
    rw [h1, hst] at g1 g2 g3
    rw [hst]
    generalize runFn (T.fn a1.state) i s1 = r2 at g1 g2 g3
    obtain ⟨s2, o2, n2⟩ := r2
    simp only at g1 g2 g3
    rw [← g3]
    have hp : Seq.panic ∈ o1 ++ o2 ↔ (p1 || (aRunFn (T.fn a1.state) i a1).2.1) = true := by
      simp only [List.mem_append, Bool.or_eq_true, h2, g2]
    have := finish_abs s2 (o1 ++ o2) n2 _ hp
    rw [g1] at this
    exact this
  | st x =>
    simp only
    have := finish_abs s1 o1 (.st x) p1 h2
    rw [h1] at this
    exact this
  | stop =>
    simp only
    have := finish_abs s1 o1 .stop p1 h2
    rw [h1] at this
    exact this

/-! ### all inputs from finitely many -/

theorem aRunFn_above (f : StateFn) (hb : clearAbove f.bounds cut = true) (a : AS) (c : Nat) (hc : cut ≤ c) :
    aRunFn f (.rune c) a = aRunFn f (.rune cut) a := by
  simp only [aRunFn, StateFn.row_const_above f cut c hb hc, isEof]

theorem aStep_above (T : Table) (hb : boundsOk T = true) (a : AS) (c : Nat) (hc : cut ≤ c) :
    aStep T a (.rune c) = aStep T a (.rune cut) := by
  simp only [boundsOk, Bool.and_eq_true, List.all_eq_true] at hb
  unfold aStep
  rw [aRunFn_above T.anywhere hb.1 a c hc]
  have : ∀ a1 : AS, aRunFn (T.fn a1.state) (.rune c) a1 = aRunFn (T.fn a1.state) (.rune cut) a1 :=
    fun a1 => aRunFn_above _ (hb.2 _ (mem_allStates _)) a1 c hc
  simp only [this]

/-- The inputs that have to be looked at: eof and the runes 0 … cut. -/
def reps : List Inp := .eof :: (List.range (cut + 1)).map .rune

theorem forall_inputs (T : Table) (hb : boundsOk T = true) (a : AS) (P : AS × Bool × Bool → Prop)
    (h : ∀ i ∈ reps, P (aStep T a i)) (i : Inp) : P (aStep T a i) := by
  cases i with
  | eof => exact h .eof (by simp [reps])
  | rune c =>
    by_cases hc : c ≤ cut
    · exact h (.rune c) (by simp only [reps, List.mem_cons, List.mem_map, List.mem_range]; exact Or.inr ⟨c, by omega, rfl⟩)
    · rw [aStep_above T hb a c (by omega)]
      exact h (.rune cut) (by simp only [reps, List.mem_cons, List.mem_map, List.mem_range]; exact Or.inr ⟨cut, by omega, rfl⟩)

theorem forall_runes (T : Table) (hb : boundsOk T = true) (a : AS) (P : AS × Bool × Bool → Prop)
    (h : ∀ c ∈ List.range (cut + 1), P (aStep T a (.rune c))) (c : Nat) : P (aStep T a (.rune c)) := by
  by_cases hc : c ≤ cut
  · exact h c (List.mem_range.mpr (by omega))
  · rw [aStep_above T hb a c (by omega)]
    exact h cut (List.mem_range.mpr (by omega))

/-! ### the invariant -/

def isStringState : StateId → Bool
  | .dcsPassthrough | .dcsIgnore | .oscString | .sosPm | .apc => true
  | _ => false

/-- `exit` is the exit function of the current state, and `ignoreST` is only set inside a control
    string or in the escape state. -/
def invB (a : AS) : Bool :=
  decide (a.exit = implExit a.state) && (!a.ign || isStringState a.state || decide (a.state = .escape))

theorem invB_spec (a : AS) : invB a = true ↔
    a.exit = implExit a.state ∧ (a.ign = true → isStringState a.state = true ∨ a.state = .escape) := by
  obtain ⟨st, e, g⟩ := a
  cases g <;> simp [invB]

def invStates : List AS :=
  allStates.flatMap fun st => [⟨st, implExit st, false⟩, ⟨st, implExit st, true⟩].filter invB

theorem mem_invStates (a : AS) (h : invB a = true) : a ∈ invStates := by
  obtain ⟨st, e, g⟩ := a
  have he : e = implExit st := by
    simp only [invB, Bool.and_eq_true, decide_eq_true_eq] at h; exact h.1
  subst he
  simp only [invStates, List.mem_flatMap]
  refine ⟨st, mem_allStates st, ?_⟩
  cases g <;> simp [h]

/-- What is checked for every invariant state and every representative input. -/
def stepOk (T : Table) : Bool :=
  invStates.all fun a =>
    (List.range (cut + 1)).all (fun c =>
      let r := aStep T a (.rune c); invB r.1 && !r.2.1 && !r.2.2) &&
    (let r := aStep T a .eof; !r.2.1 && r.2.2)

theorem inv_step_of_ok (T : Table) (hb : boundsOk T = true) (hok : stepOk T = true) (s : PState)
    (h : invB (α s) = true) (i : Inp) :
    (isEof i = false → invB (α (step T s i).st) = true) ∧ Seq.panic ∉ (step T s i).out ∧
    (step T s i).stop = isEof i := by
  obtain ⟨h1, h2, h3⟩ := step_abs T s i
  simp only [stepOk, List.all_eq_true, Bool.and_eq_true] at hok
  have ha := hok (α s) (mem_invStates _ h)
  cases i with
  | eof =>
    have := ha.2
    simp only [Bool.not_eq_true'] at this
    rw [h3]
    refine ⟨by simp [isEof], ?_, by simpa [isEof] using this.2⟩
    rw [h2]; simp [this.1]
  | rune c =>
    have := forall_runes T hb (α s)
      (fun r => (invB r.1 = true ∧ (!r.2.1) = true) ∧ (!r.2.2) = true) (fun c hc => ha.1 c hc) c
    simp only [Bool.not_eq_true'] at this
    rw [h1, h3]
    refine ⟨fun _ => this.1.1, ?_, by simpa [isEof] using this.2⟩
    rw [h2]; simp [this.1.2]

/-! ### the hand table -/

theorem hand_boundsOk : boundsOk handTable = true := by decide +kernel
theorem hand_stepOk : stepOk handTable = true := by decide +kernel

/-- Invariant step for the hand model. -/
theorem hand_inv_step (s : PState) (h : invB (α s) = true) (i : Inp) :
    (isEof i = false → invB (α (pstep s i).st) = true) ∧ Seq.panic ∉ (pstep s i).out ∧
    (pstep s i).stop = isEof i :=
  inv_step_of_ok handTable hand_boundsOk hand_stepOk s h i

end VaxisModel.Lemmas.ParserAbs
