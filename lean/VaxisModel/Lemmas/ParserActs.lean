/-
Lemmas for Props/C02Acts.lean: the interpretation (`Model/ParserActs.lean`) of the statement skeletons
of `csiDispatch` and `hook` equals the hand-written `applyAct` of `Model/Parser.lean`, and Go `int`
wrap-around in the parameter decoder.

Nothing here mentions a particular statement list (no hand copy of a body): the lemmas say what the
`switch` of csiDispatch's loop / the body of hook's `range` loop have to *compute* (`CsiStep`,
`HookFieldOk`) for the loops to be `decodeLoop` / `hookParams`; `Props/C02Acts.lean` proves these
conditions for the bodies regenerated from ansi/parser.go (`Gen/ParserActs.lean`) by evaluating the
interpreter on them, so a reordering the interpreter evaluates to the same function keeps the proofs.
This file does not import the generated file, so it keeps building when the source changes and each
theorem of `Props/C02Acts.lean` fails on its own.
Core Lean only.
-/
import VaxisModel.Model.ParserActs

namespace VaxisModel.Lemmas.ParserActs
open VaxisModel.Model.Parser VaxisModel.Model.ParserActs VaxisModel.Model.ParserTable

/-! ### Go `int` arithmetic: `wrap64` is reduction mod 2^64 into the signed range -/

theorem wrap64_range (a : Int) : -9223372036854775808 ≤ wrap64 a ∧ wrap64 a < 9223372036854775808 := by
  unfold wrap64; omega

theorem wrap64_emod (a : Int) : wrap64 a % 18446744073709551616 = a % 18446744073709551616 := by
  unfold wrap64; omega

theorem wrap64_id (a : Int) (h1 : -9223372036854775808 ≤ a) (h2 : a < 9223372036854775808) :
    wrap64 a = a := by
  unfold wrap64; omega

/-- `ps *= 10; ps += d` with a wrap after each operation = one wrap of the exact result. -/
theorem wrap64_mul_add (a d : Int) : wrap64 (wrap64 (a * 10) + d) = wrap64 (a * 10 + d) := by
  unfold wrap64; omega

/-- Wrapping the accumulator before the next digit step changes nothing (ring hom mod 2^64). -/
theorem wrap64_step (a d : Int) : wrap64 (wrap64 a * 10 + d) = wrap64 (a * 10 + d) := by
  unfold wrap64; omega

/-! ### csiDispatch -/

/-- What one iteration of csiDispatch's loop (`switch b { … }`) must compute on the locals
    `(ps, param, csi.Parameters)`. -/
def CsiStep (cases : List (Nat × List LoopOp)) (dflt : List LoopOp) : Prop :=
  ∀ (b : Rune) (st : LoopSt),
    runOps b (findCase cases dflt b) st =
      if b = 0x3B then { ps := 0, param := [], acc := st.acc ++ [st.param ++ [st.ps]] }
      else if b = 0x3A then { ps := 0, param := st.param ++ [st.ps], acc := st.acc }
      else { ps := wrap64 (st.ps * 10 + ((b : Int) - 0x30)), param := st.param, acc := st.acc }

/-- A loop whose iteration is `CsiStep`, followed by the two statements after it = `decodeLoop`, from
    any loop state. -/
theorem loopRun_sem (cases : List (Nat × List LoopOp)) (dflt : List LoopOp) (h : CsiStep cases dflt)
    (bs : List Rune) (st : LoopSt) :
    (loopRun cases dflt bs st).acc ++
      [(loopRun cases dflt bs st).param ++ [(loopRun cases dflt bs st).ps]]
      = decodeLoop bs st.ps st.param st.acc := by
  induction bs generalizing st with
  | nil => rfl
  | cons b rest ih =>
    simp only [loopRun, decodeLoop, h b st]
    by_cases h1 : b = 0x3B
    · simp only [h1, if_true]; rw [ih]
    · by_cases h2 : b = 0x3A
      · simp only [h2, if_true]; rw [ih]; rfl
      · simp only [h1, h2, if_false]; rw [ih]

/-! ### hook -/

/-- What the body of hook's `for _, param := range paramStr` must compute for one field, from the
    locals `params` (`val`, `err` are fresh in every iteration). -/
def HookFieldOk (ops : List HookOp) : Prop :=
  ∀ (f : List Rune) (ps : List Int),
    hookField f ops ps 0 false =
      if f.isEmpty then .cont (ps ++ [0])
      else match atoi f with
        | some v => .cont (ps ++ [v])
        | none => .ret ps [.err]

/-- No Atoi error: the loop appends exactly the values of `hookParams`, emits nothing, falls through. -/
theorem hookLoop_some (ops : List HookOp) (hf : HookFieldOk ops) (fs : List (List Rune)) (acc l : List Int)
    (h : hookParams fs = some l) :
    hookLoopRun ops fs acc = (acc ++ l, [], false) := by
  induction fs generalizing acc l with
  | nil => simp [hookParams] at h; subst h; simp [hookLoopRun]
  | cons f rest ih =>
    simp only [hookParams] at h
    simp only [hookLoopRun, hf f acc]
    split at h
    · rename_i he
      cases hr : hookParams rest with
      | none => simp [hr] at h
      | some l' =>
        simp [hr] at h; subst h
        simp only [he, if_true]
        rw [ih _ _ hr]; simp
    · rename_i he
      cases ha : atoi f with
      | none => simp [ha] at h
      | some v =>
        simp only [ha] at h
        cases hr : hookParams rest with
        | none => simp [hr] at h
        | some l' =>
          simp [hr] at h; subst h
          simp only [he]
          simp
          rw [ih _ _ hr]; simp

/-- An Atoi error: exactly one `err` item and `return`. -/
theorem hookLoop_none (ops : List HookOp) (hf : HookFieldOk ops) (fs : List (List Rune)) (acc : List Int)
    (h : hookParams fs = none) :
    ∃ ps, hookLoopRun ops fs acc = (ps, [.err], true) := by
  induction fs generalizing acc with
  | nil => simp [hookParams] at h
  | cons f rest ih =>
    simp only [hookParams] at h
    simp only [hookLoopRun, hf f acc]
    split at h
    · rename_i he
      simp only [he, if_true]
      cases hr : hookParams rest with
      | some l' => simp [hr] at h
      | none => exact ih _ hr
    · rename_i he
      simp only [he]
      cases ha : atoi f with
      | none => simp
      | some v =>
        simp only [ha] at h
        cases hr : hookParams rest with
        | some l' => simp [hr] at h
        | none => simp; exact ih _ hr

/-! ### over-long digit strings -/

theorem isDigit_iff (b : Nat) : isDigit b = true ↔ 0x30 ≤ b ∧ b ≤ 0x39 := by
  simp [isDigit]

theorem decodeLoop_digits_aux (ds : List Nat) (h : ds.all isDigit = true) (v : Nat) (param : List Int)
    (acc : List (List Int)) :
    decodeLoop ds (wrap64 v) param acc
      = acc ++ [param ++ [wrap64 ((ds.foldl (fun v b => v * 10 + (b - 0x30)) v : Nat) : Int)]] := by
  induction ds generalizing v with
  | nil => rfl
  | cons b rest ih =>
    simp only [List.all_cons, Bool.and_eq_true] at h
    have hb := (isDigit_iff b).mp h.1
    have h1 : ¬ b = 0x3B := by omega
    have h2 : ¬ b = 0x3A := by omega
    simp only [decodeLoop, h1, h2, if_false, List.foldl_cons]
    rw [wrap64_step, ← ih h.2]
    congr 2
    omega

theorem decodeLoop_digits (ds : List Rune) (h : ds.all isDigit = true) :
    decodeLoop ds 0 [] [] = [[wrap64 (decimal ds)]] := by
  have := decodeLoop_digits_aux ds h 0 [] []
  have w0 : wrap64 ((0 : Nat) : Int) = 0 := by decide
  rw [w0] at this
  simpa [decimal] using this

theorem splitOn_no_sep (sep : Nat) (ds cur : List Nat) (h : ∀ b ∈ ds, b ≠ sep) :
    splitOn sep ds cur = [cur ++ ds] := by
  induction ds generalizing cur with
  | nil => simp [splitOn]
  | cons b rest ih =>
    have hb : ¬ b = sep := h b (by simp)
    simp only [splitOn, hb, if_false]
    rw [ih _ (fun x hx => h x (by simp [hx]))]; simp

theorem splitOn_digits (ds : List Nat) (h : ds.all isDigit = true) : splitOn 0x3B ds [] = [ds] := by
  rw [splitOn_no_sep]
  · simp
  · intro b hb
    have := (isDigit_iff b).mp (List.all_eq_true.mp h b hb)
    omega

/-- `123456789012345678901234567890` as parameter bytes. -/
def digits30 : List Rune :=
  [0x31, 0x32, 0x33, 0x34, 0x35, 0x36, 0x37, 0x38, 0x39, 0x30, 0x31, 0x32, 0x33, 0x34, 0x35, 0x36, 0x37, 0x38, 0x39, 0x30,
   0x31, 0x32, 0x33, 0x34, 0x35, 0x36, 0x37, 0x38, 0x39, 0x30]

/-- `9223372036854775808` (2^63) as parameter bytes. -/
def digitsTwo63 : List Rune :=
  [0x39, 0x32, 0x32, 0x33, 0x33, 0x37, 0x32, 0x30, 0x33, 0x36, 0x38, 0x35, 0x34, 0x37, 0x37, 0x35, 0x38, 0x30, 0x38]

end VaxisModel.Lemmas.ParserActs
