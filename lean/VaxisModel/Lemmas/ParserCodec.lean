/-
C02: the two parameter decoders agree on everything that can be collected:
`csiDispatch`'s loop (`decodeParams`, Go `int` wrap-around) = the Spec's `parseParams` with every
number reduced into the 64-bit signed range; `hook`'s `strings.Split` + `strconv.Atoi`
(`hookParams`) = the Spec's `parseDcsParams`, or an error when a value does not fit an `int`.
-/
import VaxisModel.Lemmas.ParserRefine
import VaxisModel.Lemmas.ParserActs

namespace VaxisModel.Lemmas.ParserCodec
open VaxisModel.Model.Parser VaxisModel.Lemmas.ParserRefine VaxisModel.Lemmas.ParserActs
open VaxisModel.Spec.VT500 (splitAt number parseParams parseDcsParams)

def numFrom (v : Nat) (ds : List Nat) : Nat := ds.foldl (fun v d => 10 * v + (d - 0x30)) v

theorem number_eq (ds : List Nat) : number ds = numFrom 0 ds := rfl

theorem splitAt_ne_nil (sep : Nat) (l : List Nat) : splitAt sep l ≠ [] := by
  induction l with
  | nil => simp [splitAt]
  | cons c rest ih =>
    simp only [splitAt]
    cases h : splitAt sep rest with
    | nil => exact absurd h ih
    | cons hd tl => simp only; split <;> simp

theorem splitAt_cons_sep (sep : Nat) (rest : List Nat) : splitAt sep (sep :: rest) = [] :: splitAt sep rest := by
  simp only [splitAt]
  cases h : splitAt sep rest with
  | nil => exact absurd h (splitAt_ne_nil sep rest)
  | cons hd tl => simp

theorem splitAt_cons_other (sep c : Nat) (hc : c ≠ sep) (rest : List Nat) :
    ∃ hd tl, splitAt sep rest = hd :: tl ∧ splitAt sep (c :: rest) = (c :: hd) :: tl := by
  cases h : splitAt sep rest with
  | nil => exact absurd h (splitAt_ne_nil sep rest)
  | cons hd tl => exact ⟨hd, tl, rfl, by simp [splitAt, h, hc]⟩

/-- Sub-parameters of the field being read, the first number continuing from `v`. -/
def subG (v : Nat) (first : List Nat) : List Int :=
  match splitAt 0x3A first with
  | [] => []
  | f0 :: fs => goInt (numFrom v f0) :: fs.map (fun p => goInt (number p))

def G (v : Nat) (param : List Int) (ps : List Nat) : List (List Int) :=
  match splitAt 0x3B ps with
  | [] => []
  | first :: others =>
    (param ++ subG v first) :: others.map (fun p => (splitAt 0x3A p).map (fun q => goInt (number q)))

theorem subG_zero (first : List Nat) : subG 0 first = (splitAt 0x3A first).map (fun q => goInt (number q)) := by
  unfold subG
  cases h : splitAt 0x3A first with
  | nil => rfl
  | cons f0 fs => simp [number_eq]


theorem wrap64_zero : wrap64 ((0 : Nat) : Int) = 0 := by unfold wrap64; omega

theorem subG_nil (v : Nat) : subG v [] = [goInt v] := by simp [subG, splitAt, numFrom]

theorem subG_sep (v : Nat) (first : List Nat) : subG v (0x3A :: first) = goInt v :: subG 0 first := by
  rw [subG_zero]
  simp [subG, splitAt_cons_sep, numFrom]

theorem subG_digit (v b : Nat) (hb : b ≠ 0x3A) (first : List Nat) :
    subG v (b :: first) = subG (10 * v + (b - 0x30)) first := by
  obtain ⟨f0, fs, e3, e4⟩ := splitAt_cons_other 0x3A b hb first
  simp [subG, e3, e4, numFrom]

/-- csiDispatch's loop from any loop state, in terms of the Spec's `splitAt`/`number`. -/
theorem decodeLoop_G (ps : List Nat) (hps : ∀ b ∈ ps, 0x30 ≤ b ∧ b ≤ 0x3B) (v : Nat) (param : List Int)
    (acc : List (List Int)) : decodeLoop ps (wrap64 (v : Int)) param acc = acc ++ G v param ps := by
  induction ps generalizing v param acc with
  | nil => simp [decodeLoop, G, splitAt, subG_nil, goInt]
  | cons b rest ih =>
    have hb := hps b (by simp)
    have hrest : ∀ b' ∈ rest, 0x30 ≤ b' ∧ b' ≤ 0x3B := fun b' hb' => hps b' (by simp [hb'])
    by_cases h1 : b = 0x3B
    · subst h1
      simp only [decodeLoop, if_true]
      have := ih hrest 0 [] (acc ++ [param ++ [wrap64 (v : Int)]])
      rw [wrap64_zero] at this
      rw [this]
      simp only [G, splitAt_cons_sep]
      cases hsp : splitAt 0x3B rest with
      | nil => exact absurd hsp (splitAt_ne_nil _ _)
      | cons first others => simp [subG_nil, subG_zero, goInt]
    by_cases h2 : b = 0x3A
    · subst h2
      simp only [decodeLoop, h1, if_false, if_true]
      have := ih hrest 0 (param ++ [wrap64 (v : Int)]) acc
      rw [wrap64_zero] at this
      rw [this]
      obtain ⟨first, others, e1, e2⟩ := splitAt_cons_other 0x3B 0x3A (by decide) rest
      simp only [G, e1, e2, subG_sep]
      simp [goInt]
    · simp only [decodeLoop, h1, h2, if_false]
      have hstep : wrap64 (wrap64 (v : Int) * 10 + ((b : Int) - 0x30)) = wrap64 (((10 * v + (b - 0x30) : Nat)) : Int) := by
        rw [wrap64_step]
        congr 1
        omega
      rw [hstep, ih hrest (10 * v + (b - 0x30)) param acc]
      obtain ⟨first, others, e1, e2⟩ := splitAt_cons_other 0x3B b h1 rest
      simp only [G, e1, e2, subG_digit v b h2]


theorem G_zero (ps : List Nat) :
    [] ++ G 0 [] ps = ((splitAt 0x3B ps).map fun p => (splitAt 0x3A p).map number).map (·.map goInt) := by
  simp only [G, List.nil_append]
  cases hsp : splitAt 0x3B ps with
  | nil => exact absurd hsp (splitAt_ne_nil _ _)
  | cons first others => simp only [subG_zero, List.map_cons, List.map_map, Function.comp_def]

/-- **CSI parameters**: for any collected parameter bytes (30–3B), `csiDispatch` delivers the Spec's
    parameters and sub-parameters with every number reduced mod 2^64 into the signed range. -/
theorem codec_csi (ps : List Nat) (hps : ∀ b ∈ ps, 0x30 ≤ b ∧ b ≤ 0x3B) :
    decodeParams ps = (parseParams ps).map (·.map goInt) := by
  cases ps with
  | nil => simp [decodeParams, parseParams]
  | cons b rest =>
    have h1 : decodeParams (b :: rest) = decodeLoop (b :: rest) 0 [] [] := by simp [decodeParams]
    have h2 : parseParams (b :: rest) =
        (splitAt 0x3B (b :: rest)).map fun p => (splitAt 0x3A p).map number := by simp [parseParams]
    have h3 := decodeLoop_G (b :: rest) hps 0 [] []
    rw [wrap64_zero] at h3
    rw [h1, h2, h3]
    exact G_zero (b :: rest)

/-! ### DCS: `strings.Split` + `strconv.Atoi` -/

theorem splitOn_splitAt (sep : Nat) (l cur : List Nat) :
    ∃ hd tl, splitAt sep l = hd :: tl ∧ splitOn sep l cur = (cur ++ hd) :: tl := by
  induction l generalizing cur with
  | nil => exact ⟨[], [], by simp [splitAt], by simp [splitOn]⟩
  | cons b rest ih =>
    by_cases hb : b = sep
    · subst hb
      obtain ⟨hd, tl, e1, e2⟩ := ih []
      refine ⟨[], hd :: tl, by rw [splitAt_cons_sep, e1], ?_⟩
      simp [splitOn, e2]
    · obtain ⟨hd, tl, e1, e2⟩ := ih (cur ++ [b])
      obtain ⟨hd', tl', e3, e4⟩ := splitAt_cons_other sep b hb rest
      rw [e1] at e3
      obtain ⟨rfl, rfl⟩ := List.cons.inj e3
      exact ⟨b :: hd, tl, e4, by simp [splitOn, hb, e2]⟩

theorem splitAt_fields (sep : Nat) (l : List Nat) : ∀ f ∈ splitAt sep l, ∀ b ∈ f, b ∈ l ∧ b ≠ sep := by
  induction l with
  | nil => simp [splitAt]
  | cons c rest ih =>
    by_cases hc : c = sep
    · subst hc
      rw [splitAt_cons_sep]
      intro f hf b hb
      rcases List.mem_cons.mp hf with rfl | hf
      · cases hb
      · have := ih f hf b hb
        exact ⟨by simp [this.1], this.2⟩
    · obtain ⟨hd, tl, e1, e2⟩ := splitAt_cons_other sep c hc rest
      rw [e2]
      intro f hf b hb
      rcases List.mem_cons.mp hf with rfl | hf
      · rcases List.mem_cons.mp hb with rfl | hb
        · exact ⟨by simp, hc⟩
        · have := ih hd (by rw [e1]; simp) b hb
          exact ⟨by simp [this.1], this.2⟩
      · have := ih f (by rw [e1]; simp [hf]) b hb
        exact ⟨by simp [this.1], this.2⟩

theorem number_eq_decimal (ds : List Nat) : number ds = decimal ds := by
  unfold number decimal
  congr 1
  funext v b
  omega

theorem hookParams_fields (fs : List (List Nat)) (hd : ∀ f ∈ fs, ∀ b ∈ f, 0x30 ≤ b ∧ b ≤ 0x39) :
    hookParams fs =
      (if (fs.map number).all (fun p => decide (p < 9223372036854775808))
       then some ((fs.map number).map Int.ofNat) else none) := by
  induction fs with
  | nil => simp [hookParams]
  | cons p rest ih =>
    have ih' := ih (fun f hf => hd f (by simp [hf]))
    simp only [hookParams, ih', List.map_cons, List.all_cons]
    cases hp : p with
    | nil =>
      simp only [List.isEmpty_nil, if_true]
      have : number [] = 0 := rfl
      simp only [this]
      by_cases hall : ((rest.map number).all fun p => decide (p < 9223372036854775808)) = true <;> simp [hall]
    | cons b t =>
      simp only [List.isEmpty_cons, Bool.false_eq_true, if_false]
      have hdig : (b :: t).all isDigit = true := by
        simp only [List.all_eq_true]
        intro x hx
        have := hd p (by simp) x (by rw [hp]; exact hx)
        simp [isDigit, this.1, this.2]
      by_cases hlt : number (b :: t) < 9223372036854775808
      · have ha : atoi (b :: t) = some ((number (b :: t) : Nat) : Int) := by
          simp only [atoi, hdig, ← number_eq_decimal, hlt, decide_true, Bool.and_self, if_true]
        simp only [ha, hlt, decide_true, Bool.true_and]
        by_cases hall : ((rest.map number).all fun p => decide (p < 9223372036854775808)) = true <;> simp [hall]
      · have ha : atoi (b :: t) = none := by
          simp only [atoi, hdig, ← number_eq_decimal, hlt, decide_false, Bool.and_false, Bool.false_eq_true, if_false]
        simp [ha, hlt]

/-- **DCS parameters**: `hook` delivers the Spec's parameters, or reports an error (and delivers
    none) exactly when one of them does not fit a Go `int`. -/
theorem codec_dcs (ps : List Nat) (hne : ps ≠ []) (hps : ∀ b ∈ ps, 0x30 ≤ b ∧ b ≤ 0x3B ∧ b ≠ 0x3A) :
    hookParams (splitOn 0x3B ps []) =
      (if (parseDcsParams ps).all (fun p => decide (p < 9223372036854775808))
       then some ((parseDcsParams ps).map Int.ofNat) else none) := by
  obtain ⟨hd, tl, e1, e2⟩ := splitOn_splitAt 0x3B ps []
  have hpd : parseDcsParams ps = (splitAt 0x3B ps).map number := by simp [parseDcsParams, hne]
  rw [hpd, e2, List.nil_append, ← e1]
  apply hookParams_fields
  intro f hf b hb
  have := splitAt_fields 0x3B ps f hf b hb
  have h2 := hps b this.1
  omega

theorem codec : Codec := ⟨codec_csi, codec_dcs⟩

end VaxisModel.Lemmas.ParserCodec
