/-
C02: the bridge between the implementation's transition table (statement lists per `case` arm)
and the Spec's (Williams actions with entry/exit actions): `implRow` abstracts an arm into Spec
actions; the comparison is decided on every rune < 256 and extended to all runes by the
interval lemmas of Model/ParserTable.lean.
-/
import VaxisModel.Model.Parser
import VaxisModel.Spec.VT500

namespace VaxisModel.Lemmas.ParserConform
open VaxisModel.Model.ParserTable VaxisModel.Model.Parser
open VaxisModel.Spec.VT500 (S A)

/-- Implementation state ↦ Spec state. -/
def toS : StateId → S
  | .ground => .ground | .escape => .escape | .escapeIntermediate => .escapeIntermediate
  | .csiEntry => .csiEntry | .csiParam => .csiParam | .csiIntermediate => .csiIntermediate
  | .csiIgnore => .csiIgnore | .dcsEntry => .dcsEntry | .dcsParam => .dcsParam
  | .dcsIntermediate => .dcsIntermediate | .dcsPassthrough => .dcsPassthrough
  | .dcsIgnore => .dcsIgnore | .oscString => .oscString | .sosPm => .sosPmApcString
  | .apc => .apcString | .ss3 => .ss3

/-- The exit function the implementation holds in each state (invariant `exit_matches_state`). -/
def implExit : StateId → Option ExitFn
  | .oscString => some .oscEnd
  | .dcsPassthrough => some .unhook
  | .apc => some .apcUnhook
  | _ => none

def exitA : Option ExitFn → List A
  | some .oscEnd => [.oscEnd]
  | some .unhook => [.unhook]
  | some .apcUnhook => [.apcEnd]
  | none => []

/-- Statement list of an arm ↦ Spec actions, in state `st`.  Bookkeeping that has no counterpart in
    the published machine (flag writes, the timer, re-asserting the exit function, error reports)
    maps to nothing; running the exit function maps to the exit action of the current state;
    `if p.ignoreST { return n }; escapeDispatch` is the Spec's `stOrDispatch`. -/
def absActs (st : StateId) (n : Next) : List Act → List A
  | [] => []
  | .retIfIgnoreST n' :: .escapeDispatch :: rest =>
    if n' = n then .stOrDispatch :: absActs st n rest else .escDispatch :: absActs st n rest
  | a :: rest =>
    (match a with
     | .execute => [A.execute] | .print => [.print] | .collect => [.collect] | .param => [.param]
     | .csiDispatch => [.csiDispatch] | .escapeDispatch => [.escDispatch] | .hook => [.hook]
     | .put => [.put] | .oscStart => [.oscStart] | .oscPut => [.oscPut] | .apcPut => [.apcPut]
     | .clear => [.clear] | .emitSS3 => [.ss3Dispatch] | .setExitApc => [.apcStart]
     | .runExit | .runExitIfSet | .runExitIfSetST => exitA (implExit st)
     | _ => []) ++ absActs st n rest

def nextS : Next → Option S
  | .st x => some (toS x)
  | _ => none

/-- Everything the implementation does for input `i` in state `st`, in Spec vocabulary:
    `anywhere` first, then (on `p.state(r, p)`) the state function. -/
def implRow (T : Table) (st : StateId) (i : Inp) : List A × Option S :=
  let (a1, n1) := T.anywhere.row i
  match n1 with
  | .dispatch =>
    let (a2, n2) := (T.fn st).row i
    (absActs st n1 a1 ++ absActs st n2 a2, nextS n2)
  | n => (absActs st n a1, nextS n)

/-- What the Spec prescribes, in the same shape. -/
def specRow (st : StateId) : Inp → List A × Option S
  | .rune c => let (a, t) := Spec.VT500.trans (toS st) (.rune c); (a, some t)
  | .eof => ((Spec.VT500.trans (toS st) .eof).1, none)

/-- Largest rune that has to be looked at individually. -/
def cut : Nat := 256

/-- All guard constants of the table are below `cut`. -/
def boundsOk (T : Table) : Bool :=
  clearAbove T.anywhere.bounds cut && allStates.all fun st => clearAbove (T.fn st).bounds cut

/-- The finite part of the comparison. -/
def conformsBelow (T : Table) : Bool :=
  allStates.all fun st =>
    (List.range (cut + 1)).all (fun c => decide (implRow T st (.rune c) = specRow st (.rune c))) &&
    decide (implRow T st .eof = specRow st .eof)

theorem implRow_above (T : Table) (hb : boundsOk T = true) (st : StateId) (c : Nat) (hc : cut ≤ c) :
    implRow T st (.rune c) = implRow T st (.rune cut) := by
  simp only [boundsOk, Bool.and_eq_true, List.all_eq_true] at hb
  have h1 := StateFn.row_const_above T.anywhere cut c hb.1 hc
  have h2 := StateFn.row_const_above (T.fn st) cut c (hb.2 st (mem_allStates st)) hc
  simp only [implRow, h1, h2]

theorem specRow_above (st : StateId) (c : Nat) (hc : cut ≤ c) :
    specRow st (.rune c) = specRow st (.rune cut) := by
  have h1 : 0x80 ≤ c := by simp only [cut] at hc; omega
  have h2 : (0x80 : Nat) ≤ cut := by decide
  simp only [specRow, Spec.VT500.trans, h1, h2, if_true]

/-- Conformance on the finite part and boundedness of the guards give conformance everywhere. -/
theorem conforms_of_below (T : Table) (hb : boundsOk T = true) (hf : conformsBelow T = true)
    (st : StateId) (i : Inp) : implRow T st i = specRow st i := by
  simp only [conformsBelow, List.all_eq_true, Bool.and_eq_true, decide_eq_true_eq] at hf
  have hst := hf st (mem_allStates st)
  cases i with
  | eof => exact hst.2
  | rune c =>
    by_cases hc : c ≤ cut
    · exact hst.1 c (List.mem_range.mpr (by omega))
    · have hc' : cut ≤ c := by omega
      rw [implRow_above T hb st c hc', specRow_above st c hc']
      exact hst.1 cut (List.mem_range.mpr (by omega))

/-! ### two tables with the same rows -/

def sameFn (f g : StateFn) : Bool :=
  (List.range (cut + 1)).all (fun c => decide (f.row (.rune c) = g.row (.rune c))) &&
  decide (f.row .eof = g.row .eof) &&
  (f.pre.contains .deferClearIgnoreST == g.pre.contains .deferClearIgnoreST)

def sameRows (T U : Table) : Bool :=
  sameFn T.anywhere U.anywhere && allStates.all fun st => sameFn (T.fn st) (U.fn st)

theorem sameFn_row (f g : StateFn) (hf : clearAbove f.bounds cut = true) (hg : clearAbove g.bounds cut = true)
    (h : sameFn f g = true) (i : Inp) : f.row i = g.row i := by
  simp only [sameFn, Bool.and_eq_true, List.all_eq_true, decide_eq_true_eq] at h
  cases i with
  | eof => exact h.1.2
  | rune c =>
    by_cases hc : c ≤ cut
    · exact h.1.1 c (List.mem_range.mpr (by omega))
    · rw [StateFn.row_const_above f cut c hf (by omega), StateFn.row_const_above g cut c hg (by omega)]
      exact h.1.1 cut (List.mem_range.mpr (by omega))

theorem runFn_congr (f g : StateFn) (hf : clearAbove f.bounds cut = true) (hg : clearAbove g.bounds cut = true)
    (h : sameFn f g = true) (i : Inp) (s : PState) : runFn f i s = runFn g i s := by
  have hr := sameFn_row f g hf hg h i
  simp only [runFn, hr]

/-- Tables with the same rows give the same `step`. -/
theorem step_congr (T U : Table) (hT : boundsOk T = true) (hU : boundsOk U = true)
    (h : sameRows T U = true) (s : PState) (i : Inp) : step T s i = step U s i := by
  simp only [boundsOk, Bool.and_eq_true, List.all_eq_true] at hT hU
  simp only [sameRows, Bool.and_eq_true, List.all_eq_true] at h
  unfold step
  rw [runFn_congr _ _ hT.1 hU.1 h.1 i s]
  have : ∀ s1 : PState, runFn (T.fn s1.state) i s1 = runFn (U.fn s1.state) i s1 := fun s1 =>
    runFn_congr _ _ (hT.2 _ (mem_allStates _)) (hU.2 _ (mem_allStates _)) (h.2 _ (mem_allStates _)) i s1
  simp only [this]

end VaxisModel.Lemmas.ParserConform
