/-
C02: device control strings — the `hook` parameter codec (`strings.Split` + `Atoi`) and the step
lemmas of the DCS states.
-/
import VaxisModel.Lemmas.Parser

namespace VaxisModel.Lemmas.ParserDcs
open VaxisModel.Model.ParserTable VaxisModel.Model.Parser VaxisModel.Lemmas.ParserParams
open VaxisModel.Lemmas.Parser

/-- DCS parameters have no sub-parameters: digits joined by `;`. -/
def encDcs (ps : List Nat) : List Nat := encParams (ps.map fun x => [x])

theorem encDcs_bytes : ∀ (ps : List Nat), ∀ b ∈ encDcs ps, (0x30 ≤ b ∧ b ≤ 0x39) ∨ b = 0x3B
  | [], b, hb => by simp [encDcs, encParams] at hb
  | [x], b, hb => by
    simp only [encDcs, List.map_cons, List.map_nil, encParams, encSub] at hb
    exact Or.inl (digitsOf_bytes x b hb)
  | x :: y :: rest, b, hb => by
    simp only [encDcs, List.map_cons, encParams, encSub, List.mem_append, List.mem_cons] at hb
    rcases hb with hb | hb | hb
    · exact Or.inl (digitsOf_bytes x b hb)
    · exact Or.inr hb
    · exact encDcs_bytes (y :: rest) b (by simpa [encDcs] using hb)

theorem splitOn_digits (ds rest cur : List Nat) (hd : ∀ b ∈ ds, 0x30 ≤ b ∧ b ≤ 0x39) :
    splitOn 0x3B (ds ++ rest) cur = splitOn 0x3B rest (cur ++ ds) := by
  induction ds generalizing cur with
  | nil => simp
  | cons b ds ih =>
    have hb := hd b (by simp)
    have : b ≠ 0x3B := by omega
    simp only [List.cons_append, splitOn, this, if_false]
    rw [ih _ (fun b' hb' => hd b' (by simp [hb']))]
    simp

theorem splitOn_encDcs : ∀ (ps : List Nat), ps ≠ [] → splitOn 0x3B (encDcs ps) [] = ps.map digitsOf
  | [], h => absurd rfl h
  | [x], _ => by
    have := splitOn_digits (digitsOf x) [] [] (digitsOf_bytes x)
    simp only [List.append_nil, List.nil_append] at this
    simp [encDcs, encParams, encSub, this, splitOn]
  | x :: y :: rest, _ => by
    have ih := splitOn_encDcs (y :: rest) (by simp)
    simp only [encDcs, List.map_cons, encParams, encSub] at ih ⊢
    rw [splitOn_digits (digitsOf x) _ [] (digitsOf_bytes x)]
    simp only [List.nil_append, splitOn, if_true]
    rw [ih]

theorem decimal_digitsOf (n : Nat) : decimal (digitsOf n) = n := by
  induction n using digitsOf.induct with
  | case1 n h =>
    unfold digitsOf; simp only [h, if_true, decimal, List.foldl_cons, List.foldl_nil]; omega
  | case2 n h ih =>
    unfold digitsOf
    simp only [h, if_false, decimal, List.foldl_append, List.foldl_cons, List.foldl_nil]
    simp only [decimal] at ih
    rw [ih]; omega

theorem atoi_digitsOf (n : Nat) (hn : n < 9223372036854775808) : atoi (digitsOf n) = some (n : Int) := by
  have hd : (digitsOf n).all isDigit = true := by
    rw [List.all_eq_true]
    intro b hb
    have := digitsOf_bytes n b hb
    simp [isDigit, this.1, this.2]
  simp [atoi, hd, decimal_digitsOf, hn]

theorem hookParams_digits : ∀ (ps : List Nat), (∀ x ∈ ps, x < 9223372036854775808) →
    hookParams (ps.map digitsOf) = some (ps.map Int.ofNat)
  | [], _ => rfl
  | x :: rest, h => by
    have hne : (digitsOf x).isEmpty = false := by
      cases hx : digitsOf x with
      | nil => exact absurd hx (digitsOf_ne_nil x)
      | cons _ _ => rfl
    simp only [List.map_cons, hookParams, hne, Bool.false_eq_true, if_false,
      atoi_digitsOf x (h x (by simp)), hookParams_digits rest (fun y hy => h y (by simp [hy])),
      Option.map_some]
    rfl

/-- `hook` decodes the printed DCS parameters. -/
theorem hook_codec (ps : List Nat) (hne : ps ≠ []) (h : ∀ x ∈ ps, x < 9223372036854775808) :
    hookParams (splitOn 0x3B (encDcs ps) []) = some (ps.map Int.ofNat) := by
  rw [splitOn_encDcs ps hne, hookParams_digits ps h]

theorem encDcs_ne_nil (ps : List Nat) (hne : ps ≠ []) : (encDcs ps).isEmpty = false := by
  cases ps with
  | nil => exact absurd rfl hne
  | cons x rest =>
    cases rest with
    | nil =>
      simp only [encDcs, List.map_cons, List.map_nil, encParams, encSub]
      cases hx : digitsOf x with
      | nil => exact absurd hx (digitsOf_ne_nil x)
      | cons _ _ => rfl
    | cons y rest =>
      simp only [encDcs, List.map_cons, encParams, encSub]
      cases hx : digitsOf x with
      | nil => exact absurd hx (digitsOf_ne_nil x)
      | cons _ _ => rfl

/-! ### steps -/

theorem escape_dcs (s : PState) (hs : s.state = .escape) :
    pstep s (.rune 0x50) = ⟨{ s with state := .dcsEntry, inter := [], params := [], ignoreST := false }, [], false⟩ := by
  have hrow : (handFn .escape).row (.rune 0x50) = ([.deferClearIgnoreST, .clear], .st .dcsEntry) := by decide
  rw [pstep_plain s _ (by decide) (by decide) (by decide), hs, hrow]
  simp [runActs, applyAct, finish, handFn]

def DcsHead (s : PState) : Prop := s.state = .dcsEntry ∨ s.state = .dcsParam
def DcsBody (s : PState) : Prop := s.state = .dcsEntry ∨ s.state = .dcsParam ∨ s.state = .dcsIntermediate

theorem dcs_param (s : PState) (hs : DcsHead s) (r : Nat) (hr : (0x30 ≤ r ∧ r ≤ 0x39) ∨ r = 0x3B) :
    pstep s (.rune r) = ⟨{ s with state := .dcsParam, params := s.params ++ [r] }, [], false⟩ := by
  have hrow : (handFn s.state).row (.rune r) = ([.param], .st .dcsParam) := by
    rcases hr with ⟨h1, h2⟩ | h
    · rcases hs with h' | h' <;> rw [h'] <;> exact row_class _ 0x30 0x39 r _ (by decide) (by decide) h1 h2
    · subst h; rcases hs with h' | h' <;> rw [h'] <;> decide
  have hne : r ≠ 0x18 ∧ r ≠ 0x1A ∧ r ≠ 0x1B := by rcases hr with ⟨h1, h2⟩ | h <;> omega
  rw [pstep_plain s r hne.1 hne.2.1 hne.2.2, hrow]
  rcases hs with hs | hs <;> simp [runActs, applyAct, finish, handFn, hs]

theorem dcs_private (s : PState) (hs : s.state = .dcsEntry) (r : Nat) (h1 : 0x3C ≤ r) (h2 : r ≤ 0x3F) :
    pstep s (.rune r) = ⟨{ s with state := .dcsParam, inter := s.inter ++ [r] }, [], false⟩ := by
  have hrow : (handFn .dcsEntry).row (.rune r) = ([.collect], .st .dcsParam) :=
    row_class _ 0x3C 0x3F r _ (by decide) (by decide) h1 h2
  rw [pstep_plain s r (by omega) (by omega) (by omega), hs, hrow]
  simp [runActs, applyAct, finish, handFn]

theorem dcs_inter (s : PState) (hs : DcsBody s) (r : Nat) (h1 : 0x20 ≤ r) (h2 : r ≤ 0x2F) :
    pstep s (.rune r) = ⟨{ s with state := .dcsIntermediate, inter := s.inter ++ [r] }, [], false⟩ := by
  have hrow : (handFn s.state).row (.rune r) = ([.collect], .st .dcsIntermediate) := by
    rcases hs with h' | h' | h' <;> rw [h'] <;> exact row_class _ 0x20 0x2F r _ (by decide) (by decide) h1 h2
  rw [pstep_plain s r (by omega) (by omega) (by omega), hrow]
  rcases hs with hs | hs | hs <;> simp [runActs, applyAct, finish, handFn, hs]

theorem dcs_final_row (st : StateId) (hst : st = .dcsEntry ∨ st = .dcsParam ∨ st = .dcsIntermediate) (r : Nat)
    (h1 : 0x40 ≤ r) (h2 : r ≤ 0x7E) : (handFn st).row (.rune r) = ([.hook], .st .dcsPassthrough) := by
  rcases hst with h' | h' | h' <;> subst h' <;> exact row_class _ 0x40 0x7E r _ (by decide) (by decide) h1 h2

theorem run_dcs_params (w : List Nat) (hw : ∀ b ∈ w, (0x30 ≤ b ∧ b ≤ 0x39) ∨ b = 0x3B) (s : PState) (hs : DcsHead s) :
    run s w = ({ s with state := if w.isEmpty then s.state else .dcsParam, params := s.params ++ w }, []) := by
  induction w generalizing s with
  | nil => simp [run]
  | cons b w ih =>
    simp only [run, dcs_param s hs b (hw b (by simp))]
    rw [ih (fun b' hb' => hw b' (by simp [hb'])) _ (Or.inr rfl)]
    cases w <;> simp

theorem run_dcs_inters (w : List Nat) (hw : ∀ b ∈ w, 0x20 ≤ b ∧ b ≤ 0x2F) (s : PState) (hs : DcsBody s) :
    run s w = ({ s with state := if w.isEmpty then s.state else .dcsIntermediate, inter := s.inter ++ w }, []) := by
  induction w generalizing s with
  | nil => simp [run]
  | cons b w ih =>
    have hb := hw b (by simp)
    simp only [run, dcs_inter s hs b hb.1 hb.2]
    rw [ih (fun b' hb' => hw b' (by simp [hb'])) _ (Or.inr (Or.inr rfl))]
    cases w <;> simp

theorem dcs_put (s : PState) (hs : s.state = .dcsPassthrough) (r : Nat) (h1 : 0x20 ≤ r) (h2 : r ≠ 0x7F) :
    pstep s (.rune r) =
      ⟨{ s with ignoreST := true, exit := some .unhook, dcs := { s.dcs with data := s.dcs.data ++ [r] } }, [], false⟩ := by
  have hrow : (handFn .dcsPassthrough).row (.rune r) = ([.setIgnoreST, .setExitUnhook, .put], .st .dcsPassthrough) := by
    by_cases h : r ≤ 0x7E
    · exact row_class _ 0x20 0x7E r _ (by decide) (by decide) h1 h
    · exact row_class_above _ 0x80 r _ (by decide) (by decide) (by omega)
  rw [pstep_plain s r (by omega) (by omega) (by omega), hs, hrow]
  simp [runActs, applyAct, finish, handFn, hs]

theorem run_dcs_data (w : List Nat) (hw : ∀ b ∈ w, 0x20 ≤ b ∧ b ≠ 0x7F) (s : PState) (hs : s.state = .dcsPassthrough)
    (he : s.exit = some .unhook) :
    run s w = ({ s with ignoreST := if w.isEmpty then s.ignoreST else true,
                        dcs := { s.dcs with data := s.dcs.data ++ w } }, []) := by
  induction w generalizing s with
  | nil => simp [run]
  | cons b w ih =>
    have hb := hw b (by simp)
    simp only [run, dcs_put s hs b hb.1 hb.2]
    rw [ih (fun b' hb' => hw b' (by simp [hb'])) _ (by exact hs) rfl]
    cases w <;> simp [he]

/-- The final byte of the DCS header: `hook` with the decoded parameters, into passthrough. -/
theorem dcs_final (s : PState) (hs : DcsBody s) (r : Nat) (h1 : 0x40 ≤ r) (h2 : r ≤ 0x7E)
    (ps : List Nat) (hp : s.params = encDcs ps) (hok : ∀ x ∈ ps, x < 9223372036854775808) :
    pstep s (.rune r) =
      ⟨{ s with state := .dcsPassthrough, exit := some .unhook, inter := [],
                dcs := { final := r, inter := s.inter, params := ps.map Int.ofNat, data := [] } }, [], false⟩ := by
  rw [pstep_plain s r (by omega) (by omega) (by omega), dcs_final_row s.state hs r h1 h2]
  cases ps with
  | nil =>
    have hpe : s.params = [] := by simpa [encDcs, encParams] using hp
    rcases hs with hs | hs | hs <;> simp [runActs, applyAct, finish, handFn, hs, hpe]
  | cons x rest =>
    have hne : s.params.isEmpty = false := by rw [hp]; exact encDcs_ne_nil _ (by simp)
    have hc := hook_codec (x :: rest) (by simp) hok
    rw [← hp] at hc
    rcases hs with hs | hs | hs <;> simp [runActs, applyAct, finish, handFn, hs, hne, hc]

/-- From the head of a DCS: parameters, intermediates, final, data, ST. -/
theorem dcs_tail (s : PState) (hs : DcsHead s) (hp0 : s.params = []) (hd0 : s.dcs = {}) (ps ib : List Nat) (f : Nat)
    (data : List Nat) (hok : ∀ x ∈ ps, x < 9223372036854775808) (hi : ∀ b ∈ ib, 0x20 ≤ b ∧ b ≤ 0x2F)
    (hf1 : 0x40 ≤ f) (hf2 : f ≤ 0x7E) (hdata : ∀ b ∈ data, 0x20 ≤ b ∧ b ≠ 0x7F) (hne : data ≠ []) :
    run s (encDcs ps ++ (ib ++ (f :: (data ++ [0x1B, 0x5C])))) =
      ({ s with state := .ground, inter := [], params := [], exit := none, ignoreST := false, dcs := {} },
       [.dcs f (s.inter ++ ib) (ps.map Int.ofNat) data]) := by
  rw [run_append, run_dcs_params _ (encDcs_bytes ps) s hs]
  simp only []
  generalize hs1 : ({ s with state := if (encDcs ps).isEmpty then s.state else .dcsParam,
                             params := s.params ++ encDcs ps } : PState) = s1
  have hb1 : DcsBody s1 := by
    subst hs1; unfold DcsBody; rcases hs with h | h <;> cases (encDcs ps) <;> simp [h]
  have hp1 : s1.params = encDcs ps := by subst hs1; simp [hp0]
  rw [run_append, run_dcs_inters ib hi s1 hb1]
  simp only []
  generalize hs2 : ({ s1 with state := if ib.isEmpty then s1.state else .dcsIntermediate, inter := s1.inter ++ ib } : PState) = s2
  have hb2 : DcsBody s2 := by
    subst hs2; unfold DcsBody; rcases hb1 with h | h | h <;> cases ib <;> simp [h]
  have hp2 : s2.params = encDcs ps := by subst hs2; exact hp1
  simp only [run]
  rw [dcs_final s2 hb2 f hf1 hf2 ps hp2 hok]
  simp only []
  rw [run_append, run_dcs_data data hdata _ rfl rfl]
  simp only [run]
  rw [pstep_esc_exit _ .unhook rfl]
  simp only [runExitFn]
  rw [escape_st _ rfl (by cases data <;> simp_all)]
  subst hs2; subst hs1
  simp

end VaxisModel.Lemmas.ParserDcs
