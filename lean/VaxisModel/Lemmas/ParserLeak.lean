/-
C02, no_leak: collected intermediates and parameter bytes that are left over from an earlier
(finished, cancelled or malformed) sequence never influence what is delivered later.  In the
states where no sequence header is being collected ("dead" states: ground, ss3, the string states,
the ignore states) every arm either does not touch `intermediate`/`params` at all or clears them
first (the ESC arm of `anywhere`); checked on the table for all runes, then lifted by simulation.
-/
import VaxisModel.Model.Parser
import VaxisModel.Lemmas.ParserConform
import VaxisModel.Lemmas.ParserAbs

namespace VaxisModel.Lemmas.ParserLeak
open VaxisModel.Model.ParserTable VaxisModel.Model.Parser VaxisModel.Lemmas.ParserConform

/-- Equal except for `inter` and `params`. -/
def Sim (s s' : PState) : Prop :=
  s.state = s'.state ∧ s.exit = s'.exit ∧ s.ignoreST = s'.ignoreST ∧ s.osc = s'.osc ∧ s.apc = s'.apc ∧
  s.dcs = s'.dcs

theorem Sim.refl (s : PState) : Sim s s := ⟨rfl, rfl, rfl, rfl, rfl, rfl⟩

theorem eq_of_sim (s s' : PState) (h : Sim s s') (hi : s.inter = s'.inter) (hp : s.params = s'.params) : s = s' := by
  obtain ⟨h1, h2, h3, h4, h5, h6⟩ := h
  cases s; cases s'; simp_all

/-- The statement neither reads nor writes `intermediate` / `params`. -/
def ipFree : Act → Bool
  | .collect | .param | .csiDispatch | .escapeDispatch | .hook | .clear => false
  | _ => true

theorem applyAct_sim (a : Act) (ha : ipFree a = true) (r : Nat) (s s' : PState) (hs : Sim s s') :
    (applyAct a r s).2 = (applyAct a r s').2 ∧ Sim (applyAct a r s).1 (applyAct a r s').1 := by
  obtain ⟨st, i, p, e, g, o, ap, d⟩ := s
  obtain ⟨st', i', p', e', g', o', ap', d'⟩ := s'
  simp only [Sim] at hs
  obtain ⟨rfl, rfl, rfl, rfl, rfl, rfl⟩ := hs
  cases a <;> simp only [ipFree] at ha <;> try (cases ha)
  case runExit => cases e with
    | none => simp [applyAct, Sim]
    | some f => cases f <;> simp [applyAct, runExitFn, Sim]
  case runExitIfSet => cases e with
    | none => simp [applyAct, Sim]
    | some f => cases f <;> simp [applyAct, runExitFn, Sim]
  case runExitIfSetST => cases e with
    | none => simp [applyAct, Sim]
    | some f => cases f <;> simp [applyAct, runExitFn, Sim]
  all_goals simp [applyAct, Sim]

/-- Safe statement list: free statements, possibly up to a `clear` (after which anything goes). -/
def ipSafe : List Act → Bool
  | [] => true
  | .clear :: _ => true
  | a :: rest => ipFree a && ipSafe rest

/-- … and it does reach that `clear` (no early return before it). -/
def clearsFirst : List Act → Bool
  | [] => false
  | .clear :: _ => true
  | .retIfIgnoreST _ :: _ => false
  | a :: rest => ipFree a && clearsFirst rest

theorem runActs_sim (acts : List Act) (hsafe : ipSafe acts = true) (r : Nat) (s s' : PState) (out : List Seq)
    (n : Next) (hs : Sim s s') :
    (runActs acts (.rune r) s out n).2 = (runActs acts (.rune r) s' out n).2 ∧
    Sim (runActs acts (.rune r) s out n).1 (runActs acts (.rune r) s' out n).1 ∧
    (clearsFirst acts = true → (runActs acts (.rune r) s out n).1 = (runActs acts (.rune r) s' out n).1) := by
  induction acts generalizing s s' out with
  | nil => simp [runActs, hs, clearsFirst]
  | cons a rest ih =>
    by_cases hcl : a = .clear
    · subst hcl
      have heq : (applyAct .clear r s).1 = (applyAct .clear r s').1 := by
        apply eq_of_sim
        · obtain ⟨h1, h2, h3, h4, h5, h6⟩ := hs
          exact ⟨h1, h2, h3, h4, h5, h6⟩
        · rfl
        · rfl
      have hout : (applyAct .clear r s).2 = (applyAct .clear r s').2 := rfl
      simp only [runActs]
      rw [heq, hout]
      exact ⟨rfl, Sim.refl _, fun _ => rfl⟩
    · have hfree : ipFree a = true ∧ ipSafe rest = true := by
        cases a <;> simp_all [ipSafe]
      by_cases hret : ∃ n', a = .retIfIgnoreST n'
      · obtain ⟨n', rfl⟩ := hret
        simp only [runActs, ← hs.2.2.1]
        split
        · exact ⟨rfl, hs, fun h => by simp [clearsFirst] at h⟩
        · have := ih hfree.2 s s' out hs
          exact ⟨this.1, this.2.1, fun h => by simp [clearsFirst] at h⟩
      · have hr1 : ∀ s, runActs (a :: rest) (.rune r) s out n =
            runActs rest (.rune r) (applyAct a r s).1 (out ++ (applyAct a r s).2) n := by
          intro s
          cases a <;> first | (exfalso; exact hret ⟨_, rfl⟩) | simp [runActs]
        rw [hr1 s, hr1 s']
        obtain ⟨e1, e2⟩ := applyAct_sim a hfree.1 r s s' hs
        rw [e1]
        have := ih hfree.2 (applyAct a r s).1 (applyAct a r s').1 (out ++ (applyAct a r s').2) e2
        refine ⟨this.1, this.2.1, fun hc => this.2.2 ?_⟩
        cases a <;> simp_all [clearsFirst]

/-- States in which no sequence header is being collected. -/
def dead : StateId → Bool
  | .ground | .ss3 | .oscString | .sosPm | .apc | .dcsPassthrough | .dcsIgnore | .csiIgnore => true
  | _ => false

/-- The row (statements of `anywhere` and, on dispatch, of the state function; returned state) that
    a dead state executes for a rune, and the check: safe, and if the next state is not dead the
    leftovers have been cleared. -/
def deadRowOk (T : Table) (st : StateId) (c : Nat) : Bool :=
  let (a1, n1) := T.anywhere.row (.rune c)
  match n1 with
  | .dispatch =>
    let (a2, n2) := (T.fn st).row (.rune c)
    ipSafe a1 && ipSafe a2 && !(a1.any fun a => !ipFree a) &&
    (match n2 with
     | .st x => dead x || clearsFirst a2
     | _ => true)
  | .st x => ipSafe a1 && (dead x || clearsFirst a1)
  | .stop => ipSafe a1

def deadOk (T : Table) : Bool :=
  (allStates.filter dead).all fun st => (List.range (cut + 1)).all fun c => deadRowOk T st c

theorem deadRowOk_all (T : Table) (hb : boundsOk T = true) (hok : deadOk T = true) (st : StateId)
    (hd : dead st = true) (c : Nat) : deadRowOk T st c = true := by
  simp only [deadOk, List.all_eq_true, List.mem_filter, and_imp] at hok
  simp only [boundsOk, Bool.and_eq_true, List.all_eq_true] at hb
  by_cases hc : c ≤ cut
  · exact hok st (mem_allStates st) hd c (List.mem_range.mpr (by omega))
  · have h1 := StateFn.row_const_above T.anywhere cut c hb.1 (by omega)
    have h2 := StateFn.row_const_above (T.fn st) cut c (hb.2 st (mem_allStates st)) (by omega)
    have := hok st (mem_allStates st) hd cut (List.mem_range.mpr (by omega))
    simp only [deadRowOk, h1, h2] at this ⊢
    exact this

def isRet : Act → Bool
  | .retIfIgnoreST _ => true
  | _ => false

/-- Without an early return the arm's `return` value is what comes back. -/
theorem runActs_next (acts : List Act) (hn : acts.all (fun a => !isRet a) = true) (r : Nat) (s : PState)
    (out : List Seq) (n : Next) : (runActs acts (.rune r) s out n).2.2 = n := by
  induction acts generalizing s out with
  | nil => rfl
  | cons a rest ih =>
    simp only [List.all_cons, Bool.and_eq_true, Bool.not_eq_true'] at hn
    have hr1 : runActs (a :: rest) (.rune r) s out n =
        runActs rest (.rune r) (applyAct a r s).1 (out ++ (applyAct a r s).2) n := by
      have h1 := hn.1
      cases a <;> first | (simp [isRet] at h1; done) | simp [runActs]
    rw [hr1]
    exact ih (by simpa using hn.2) _ _

theorem runFn_sim (f : StateFn) (c : Nat) (hsafe : ipSafe (f.row (.rune c)).1 = true)
    (hnr : (f.row (.rune c)).1.all (fun a => !isRet a) = true) (s s' : PState) (hs : Sim s s') :
    (runFn f (.rune c) s).2.1 = (runFn f (.rune c) s').2.1 ∧
    (runFn f (.rune c) s).2.2 = (f.row (.rune c)).2 ∧ (runFn f (.rune c) s').2.2 = (f.row (.rune c)).2 ∧
    Sim (runFn f (.rune c) s).1 (runFn f (.rune c) s').1 ∧
    (clearsFirst (f.row (.rune c)).1 = true → (runFn f (.rune c) s).1 = (runFn f (.rune c) s').1) ∧
    (runFn f (.rune c) s).1.state = s.state := by
  have h := runActs_sim (f.row (.rune c)).1 hsafe c s s' [] (f.row (.rune c)).2 hs
  have hst := (VaxisModel.Lemmas.ParserAbs.runActs_abs (f.row (.rune c)).1 (.rune c) s [] (f.row (.rune c)).2).2.2.1
  have hn1 := runActs_next (f.row (.rune c)).1 hnr c s [] (f.row (.rune c)).2
  have hn2 := runActs_next (f.row (.rune c)).1 hnr c s' [] (f.row (.rune c)).2
  simp only [runFn]
  refine ⟨congrArg Prod.fst h.1, hn1, hn2, ?_, ?_, ?_⟩
  · split
    · obtain ⟨a, b, _, d, e, g⟩ := h.2.1
      exact ⟨a, b, rfl, d, e, g⟩
    · exact h.2.1
  · intro hc
    rw [h.2.2 hc]
  · split <;> exact hst

/-- The relation carried along a run: equal, or both in a dead state and equal up to the leftovers. -/
def Rel (s s' : PState) : Prop := s = s' ∨ (dead s.state = true ∧ Sim s s')

/-- The table check, with "no early return" added. -/
def deadRowOk' (T : Table) (st : StateId) (c : Nat) : Bool :=
  deadRowOk T st c &&
  (T.anywhere.row (.rune c)).1.all (fun a => !isRet a) &&
  ((T.fn st).row (.rune c)).1.all (fun a => !isRet a)

def deadOk' (T : Table) : Bool :=
  (allStates.filter dead).all fun st => (List.range (cut + 1)).all fun c => deadRowOk' T st c

theorem deadRowOk'_all (T : Table) (hb : boundsOk T = true) (hok : deadOk' T = true) (st : StateId)
    (hd : dead st = true) (c : Nat) : deadRowOk' T st c = true := by
  simp only [deadOk', List.all_eq_true, List.mem_filter, and_imp] at hok
  simp only [boundsOk, Bool.and_eq_true, List.all_eq_true] at hb
  by_cases hc : c ≤ cut
  · exact hok st (mem_allStates st) hd c (List.mem_range.mpr (by omega))
  · have h1 := StateFn.row_const_above T.anywhere cut c hb.1 (by omega)
    have h2 := StateFn.row_const_above (T.fn st) cut c (hb.2 st (mem_allStates st)) (by omega)
    have := hok st (mem_allStates st) hd cut (List.mem_range.mpr (by omega))
    simp only [deadRowOk', deadRowOk, h1, h2] at this ⊢
    exact this

theorem finish_rel (s s' : PState) (out : List Seq) (n : Next) (hs : Sim s s')
    (h : s = s' ∨ (match n with | .st x => dead x = true | _ => dead s.state = true)) :
    (finish s out n).out = (finish s' out n).out ∧ (finish s out n).stop = (finish s' out n).stop ∧
    Rel (finish s out n).st (finish s' out n).st := by
  rcases h with rfl | h
  · exact ⟨rfl, rfl, Or.inl rfl⟩
  · cases n with
    | st x =>
      refine ⟨rfl, rfl, Or.inr ⟨h, ?_⟩⟩
      obtain ⟨_, b, c, d, e, g⟩ := hs
      exact ⟨rfl, b, c, d, e, g⟩
    | stop => exact ⟨rfl, rfl, Or.inr ⟨h, hs⟩⟩
    | dispatch => exact ⟨rfl, rfl, Or.inr ⟨h, hs⟩⟩

/-- One step from related states: same items, same stop flag, related states. -/
theorem step_rel (T : Table) (hb : boundsOk T = true) (hok : deadOk' T = true) (s s' : PState) (h : Rel s s')
    (c : Nat) :
    (step T s (.rune c)).out = (step T s' (.rune c)).out ∧ (step T s (.rune c)).stop = (step T s' (.rune c)).stop ∧
    Rel (step T s (.rune c)).st (step T s' (.rune c)).st := by
  rcases h with rfl | ⟨hd, hs⟩
  · exact ⟨rfl, rfl, Or.inl rfl⟩
  · have hrow := deadRowOk'_all T hb hok s.state hd c
    simp only [deadRowOk', deadRowOk, Bool.and_eq_true] at hrow
    obtain ⟨⟨hrow, hnr1⟩, hnr2⟩ := hrow
    unfold step
    cases hn1 : (T.anywhere.row (.rune c)).2 with
    | dispatch =>
      simp only [hn1, Bool.and_eq_true, Bool.not_eq_true', List.any_eq_false] at hrow
      obtain ⟨⟨⟨hs1, hs2⟩, hfree⟩, hnext⟩ := hrow
      obtain ⟨e1, e2, e3, e4, _, e6⟩ := runFn_sim T.anywhere c hs1 hnr1 s s' hs
      have e6' : (runFn T.anywhere (.rune c) s').1.state = s'.state :=
        (runFn_sim T.anywhere c hs1 hnr1 s' s' (Sim.refl _)).2.2.2.2.2
      generalize hr : runFn T.anywhere (.rune c) s = r at e1 e2 e4 e6
      generalize hr' : runFn T.anywhere (.rune c) s' = r' at e1 e3 e4 e6'
      obtain ⟨s1, o1, n1⟩ := r
      obtain ⟨s1', o1', n1'⟩ := r'
      simp only at e1 e2 e3 e4 e6 e6'
      subst e1
      rw [hn1] at e2 e3
      subst e2; subst e3
      simp only
      have hst' : s1'.state = s1.state := by rw [e6', e6, hs.1]
      rw [hst', e6]
      obtain ⟨g1, g2, g3, g4, g5, _⟩ := runFn_sim (T.fn s.state) c hs2 hnr2 s1 s1' e4
      generalize hq : runFn (T.fn s.state) (.rune c) s1 = q at g1 g2 g4 g5
      generalize hq' : runFn (T.fn s.state) (.rune c) s1' = q' at g1 g3 g4 g5
      obtain ⟨s2, o2, n2⟩ := q
      obtain ⟨s2', o2', n2'⟩ := q'
      simp only at g1 g2 g3 g4 g5
      subst g1; subst g2; subst g3
      apply finish_rel _ _ _ _ g4
      cases hn2 : ((T.fn s.state).row (.rune c)).2 with
      | st x =>
        simp only [hn2, Bool.or_eq_true] at hnext
        rcases hnext with hx | hx
        · exact Or.inr hx
        · exact Or.inl (g5 hx)
      | stop =>
        right
        have := (runFn_sim (T.fn s.state) c hs2 hnr2 s1 s1 (Sim.refl _)).2.2.2.2.2
        rw [hq] at this
        simp only at this
        rw [this, e6]; exact hd
      | dispatch =>
        right
        have := (runFn_sim (T.fn s.state) c hs2 hnr2 s1 s1 (Sim.refl _)).2.2.2.2.2
        rw [hq] at this
        simp only at this
        rw [this, e6]; exact hd
    | st x =>
      simp only [hn1, Bool.and_eq_true, Bool.or_eq_true] at hrow
      obtain ⟨hs1, hnext⟩ := hrow
      obtain ⟨e1, e2, e3, e4, e5, _⟩ := runFn_sim T.anywhere c hs1 hnr1 s s' hs
      generalize hr : runFn T.anywhere (.rune c) s = r at e1 e2 e4 e5
      generalize hr' : runFn T.anywhere (.rune c) s' = r' at e1 e3 e4 e5
      obtain ⟨s1, o1, n1⟩ := r
      obtain ⟨s1', o1', n1'⟩ := r'
      simp only at e1 e2 e3 e4 e5
      subst e1
      rw [hn1] at e2 e3
      subst e2; subst e3
      simp only
      apply finish_rel _ _ _ _ e4
      rcases hnext with hx | hx
      · exact Or.inr hx
      · exact Or.inl (e5 hx)
    | stop =>
      simp only [hn1] at hrow
      obtain ⟨e1, e2, e3, e4, _, e6⟩ := runFn_sim T.anywhere c hrow hnr1 s s' hs
      generalize hr : runFn T.anywhere (.rune c) s = r at e1 e2 e4 e6
      generalize hr' : runFn T.anywhere (.rune c) s' = r' at e1 e3 e4
      obtain ⟨s1, o1, n1⟩ := r
      obtain ⟨s1', o1', n1'⟩ := r'
      simp only at e1 e2 e3 e4 e6
      subst e1
      rw [hn1] at e2 e3
      subst e2; subst e3
      simp only
      apply finish_rel _ _ _ _ e4
      right
      rw [e6]; exact hd

end VaxisModel.Lemmas.ParserLeak
