/-
C02: a property of every item the automaton can emit, from a property of what each statement emits.
Used for `params_nonempty`.
-/
import VaxisModel.Model.Parser

namespace VaxisModel.Lemmas.ParserOut
open VaxisModel.Model.ParserTable VaxisModel.Model.Parser

theorem runActs_forall (P : Seq → Prop) (hP : ∀ a r s, ∀ x ∈ (applyAct a r s).2, P x) (hpanic : P .panic)
    (acts : List Act) (i : Inp) (s : PState) (out : List Seq) (n : Next) (ho : ∀ x ∈ out, P x) :
    ∀ x ∈ (runActs acts i s out n).2.1, P x := by
  induction acts generalizing s out with
  | nil => simpa [runActs] using ho
  | cons a rest ih =>
    by_cases hret : ∃ n', a = .retIfIgnoreST n'
    · obtain ⟨n', rfl⟩ := hret
      simp only [runActs]
      split
      · exact ho
      · exact ih s out ho
    · have hr1 : runActs (a :: rest) i s out n =
          (match i with
           | .rune r => runActs rest i (applyAct a r s).1 (out ++ (applyAct a r s).2) n
           | .eof => if usesRune a then (s, out ++ [.panic], .stop)
                     else runActs rest i (applyAct a 0 s).1 (out ++ (applyAct a 0 s).2) n) := by
        cases a <;> first | (exfalso; exact hret ⟨_, rfl⟩) | (cases i <;> simp [runActs])
      rw [hr1]
      cases i with
      | rune r =>
        apply ih
        intro x hx
        rcases List.mem_append.mp hx with hx | hx
        · exact ho x hx
        · exact hP a r s x hx
      | eof =>
        simp only
        by_cases hu : usesRune a = true
        · simp only [hu, if_true]
          intro x hx
          rcases List.mem_append.mp hx with hx | hx
          · exact ho x hx
          · simp at hx; subst hx; exact hpanic
        · simp only [hu, Bool.false_eq_true, if_false]
          apply ih
          intro x hx
          rcases List.mem_append.mp hx with hx | hx
          · exact ho x hx
          · exact hP a 0 s x hx

theorem step_forall (P : Seq → Prop) (hP : ∀ a r s, ∀ x ∈ (applyAct a r s).2, P x) (hpanic : P .panic)
    (T : Table) (s : PState) (i : Inp) : ∀ x ∈ (step T s i).out, P x := by
  have hfn : ∀ f s, ∀ x ∈ (runFn f i s).2.1, P x := by
    intro f s
    simp only [runFn]
    exact runActs_forall P hP hpanic _ i s [] _ (by simp)
  have hfin : ∀ s out n, (∀ x ∈ out, P x) → ∀ x ∈ (finish s out n).out, P x := by
    intro s out n ho
    cases n <;> simp only [finish] <;> try exact ho
    intro x hx
    rcases List.mem_append.mp hx with hx | hx
    · exact ho x hx
    · simp at hx; subst hx; exact hpanic
  unfold step
  have h1 := hfn T.anywhere s
  generalize runFn T.anywhere i s = r1 at h1
  obtain ⟨s1, o1, n1⟩ := r1
  cases n1 with
  | dispatch =>
    simp only
    have h2 := hfn (T.fn s1.state) s1
    generalize runFn (T.fn s1.state) i s1 = r2 at h2
    obtain ⟨s2, o2, n2⟩ := r2
    apply hfin
    intro x hx
    rcases List.mem_append.mp hx with hx | hx
    · exact h1 x hx
    · exact h2 x hx
  | st x => exact hfin _ _ _ h1
  | stop => exact hfin _ _ _ h1

/-- Every parameter produced by the `csiDispatch` loop has at least one element. -/
theorem decodeLoop_nonempty (ps : List Nat) (v : Int) (param : List Int) (acc : List (List Int))
    (hacc : ∀ p ∈ acc, p ≠ []) : ∀ p ∈ decodeLoop ps v param acc, p ≠ [] := by
  induction ps generalizing v param acc with
  | nil =>
    simp only [decodeLoop]
    intro p hp
    rcases List.mem_append.mp hp with hp | hp
    · exact hacc p hp
    · simp at hp; subst hp; simp
  | cons b rest ih =>
    simp only [decodeLoop]
    split
    · apply ih
      intro p hp
      rcases List.mem_append.mp hp with hp | hp
      · exact hacc p hp
      · simp at hp; subst hp; simp
    · split
      · exact ih _ _ _ hacc
      · exact ih _ _ _ hacc

theorem decodeParams_nonempty (ps : List Nat) : ∀ p ∈ decodeParams ps, p ≠ [] := by
  unfold decodeParams
  split
  · simp
  · exact decodeLoop_nonempty ps 0 [] [] (by simp)

def CsiOk (x : Seq) : Prop := ∀ i p f, x = .csi i p f → ∀ q ∈ p, q ≠ []

theorem applyAct_csiOk (a : Act) (r : Nat) (s : PState) : ∀ x ∈ (applyAct a r s).2, CsiOk x := by
  cases a
  case csiDispatch =>
    simp only [applyAct, List.mem_singleton]
    intro x hx i p f he
    subst hx
    cases he
    exact decodeParams_nonempty s.params
  case execute => simp only [applyAct]; split <;> simp [CsiOk]
  case hook =>
    simp only [applyAct]
    split
    · simp
    · split <;> simp [CsiOk]
  case runExit =>
    simp only [applyAct]
    cases h : s.exit with
    | none => simp [CsiOk]
    | some f => cases f <;> simp [runExitFn, CsiOk]
  case runExitIfSet =>
    simp only [applyAct]
    cases h : s.exit with
    | none => simp
    | some f => cases f <;> simp [runExitFn, CsiOk]
  case runExitIfSetST =>
    simp only [applyAct]
    cases h : s.exit with
    | none => simp
    | some f => cases f <;> simp [runExitFn, CsiOk]
  all_goals simp [applyAct, CsiOk]

end VaxisModel.Lemmas.ParserOut
