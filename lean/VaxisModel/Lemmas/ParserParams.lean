/-
C02: the CSI parameter codec.  `encParams` prints parameters with sub-parameters the way a
terminal or application does (`;` between parameters, `:` between sub-parameters, decimal
digits); `decodeParams` (the loop of `csiDispatch`, with Go `int` wrap-around) inverts it for all
values below 2^63.
-/
import VaxisModel.Model.Parser

namespace VaxisModel.Lemmas.ParserParams
open VaxisModel.Model.Parser

/-- Decimal digits of `n` as character codes. -/
def digitsOf (n : Nat) : List Nat :=
  if n < 10 then [0x30 + n] else digitsOf (n / 10) ++ [0x30 + n % 10]

/-- One parameter: sub-parameters joined by `:`. -/
def encSub : List Nat → List Nat
  | [] => []
  | [x] => digitsOf x
  | x :: y :: rest => digitsOf x ++ 0x3A :: encSub (y :: rest)

/-- Parameter list: parameters joined by `;`. -/
def encParams : List (List Nat) → List Nat
  | [] => []
  | [p] => encSub p
  | p :: q :: rest => encSub p ++ 0x3B :: encParams (q :: rest)

theorem digitsOf_bytes (n : Nat) : ∀ b ∈ digitsOf n, 0x30 ≤ b ∧ b ≤ 0x39 := by
  induction n using digitsOf.induct with
  | case1 n h => unfold digitsOf; simp only [h, if_true, List.mem_singleton]; intro b hb; omega
  | case2 n h ih =>
    unfold digitsOf; simp only [h, if_false, List.mem_append, List.mem_singleton]
    intro b hb
    cases hb with
    | inl hb => exact ih b hb
    | inr hb => omega

theorem digitsOf_ne_nil (n : Nat) : digitsOf n ≠ [] := by
  unfold digitsOf; split <;> simp

theorem encSub_bytes : ∀ (p : List Nat), ∀ b ∈ encSub p, 0x30 ≤ b ∧ b ≤ 0x3B
  | [], b, hb => by simp [encSub] at hb
  | [x], b, hb => by
    have := digitsOf_bytes x b (by simpa [encSub] using hb); omega
  | x :: y :: rest, b, hb => by
    simp only [encSub, List.mem_append, List.mem_cons] at hb
    rcases hb with hb | hb | hb
    · have := digitsOf_bytes x b hb; omega
    · omega
    · exact encSub_bytes (y :: rest) b hb

theorem encParams_bytes : ∀ (ps : List (List Nat)), ∀ b ∈ encParams ps, 0x30 ≤ b ∧ b ≤ 0x3B
  | [], b, hb => by simp [encParams] at hb
  | [p], b, hb => encSub_bytes p b (by simpa [encParams] using hb)
  | p :: q :: rest, b, hb => by
    simp only [encParams, List.mem_append, List.mem_cons] at hb
    rcases hb with hb | hb | hb
    · exact encSub_bytes p b hb
    · omega
    · exact encParams_bytes (q :: rest) b hb

theorem wrap64_id (x : Int) (h0 : 0 ≤ x) (h1 : x < 9223372036854775808) : wrap64 x = x := by
  unfold wrap64; omega

/-- The digit loop: while the input is digits the accumulator is updated, nothing else happens. -/
theorem decodeLoop_digits (ds rest : List Nat) (hd : ∀ b ∈ ds, 0x30 ≤ b ∧ b ≤ 0x39)
    (ps : Int) (param : List Int) (acc : List (List Int)) :
    decodeLoop (ds ++ rest) ps param acc =
      decodeLoop rest (ds.foldl (fun (v : Int) (b : Nat) => wrap64 (v * 10 + ((b : Int) - 0x30))) ps) param acc := by
  induction ds generalizing ps with
  | nil => rfl
  | cons b ds ih =>
    have hb := hd b (by simp)
    have h1 : b ≠ 0x3B := by omega
    have h2 : b ≠ 0x3A := by omega
    simp only [List.cons_append, decodeLoop, h1, h2, if_false, List.foldl_cons]
    exact ih (fun b' hb' => hd b' (by simp [hb'])) _

/-- Accumulating the digits of `n < 2^63` from 0 gives `n` (no wrap-around on the way). -/
theorem fold_digitsOf (n : Nat) (hn : n < 9223372036854775808) :
    (digitsOf n).foldl (fun (v : Int) (b : Nat) => wrap64 (v * 10 + ((b : Int) - 0x30))) 0 = (n : Int) := by
  induction n using digitsOf.induct with
  | case1 n h =>
    unfold digitsOf; simp only [h, if_true, List.foldl_cons, List.foldl_nil]
    rw [wrap64_id] <;> omega
  | case2 n h ih =>
    unfold digitsOf; simp only [h, if_false, List.foldl_append, List.foldl_cons, List.foldl_nil]
    rw [ih (by omega), wrap64_id] <;> omega

def SubOk (p : List Nat) : Prop := p ≠ [] ∧ ∀ x ∈ p, x < 9223372036854775808

def initOf : List Nat → List Nat
  | [] => []
  | [_] => []
  | x :: y :: t => x :: initOf (y :: t)

def lastOf : List Nat → Nat
  | [] => 0
  | [x] => x
  | _ :: y :: t => lastOf (y :: t)

theorem init_last : ∀ (p : List Nat), p ≠ [] → initOf p ++ [lastOf p] = p
  | [], h => absurd rfl h
  | [x], _ => rfl
  | x :: y :: t, _ => by
    simp only [initOf, lastOf, List.cons_append]
    rw [init_last (y :: t) (by simp)]

/-- One parameter with its sub-parameters. -/
theorem decodeLoop_encSub : ∀ (p : List Nat) (_ : SubOk p) (rest : List Nat) (param : List Int)
    (acc : List (List Int)),
    decodeLoop (encSub p ++ rest) 0 param acc =
      decodeLoop rest ((lastOf p : Nat) : Int) (param ++ ((initOf p).map Int.ofNat)) acc
  | [], h, _, _, _ => absurd rfl h.1
  | [x], h, rest, param, acc => by
    simp only [encSub]
    rw [decodeLoop_digits _ _ (digitsOf_bytes x), fold_digitsOf x (h.2 x (by simp))]
    simp [initOf, lastOf]
  | x :: y :: tl, h, rest, param, acc => by
    simp only [encSub, List.append_assoc, List.cons_append]
    rw [decodeLoop_digits _ _ (digitsOf_bytes x), fold_digitsOf x (h.2 x (by simp))]
    simp only [decodeLoop]
    have ih := decodeLoop_encSub (y :: tl) ⟨by simp, fun z hz => h.2 z (by simp [hz])⟩ rest
      (param ++ [(x : Int)]) acc
    simp only [show (0x3A : Nat) ≠ 0x3B by decide, if_false, if_true]
    rw [ih]
    simp [initOf, lastOf]

def ParamsOk (ps : List (List Nat)) : Prop := ∀ p ∈ ps, SubOk p

theorem map_init_last (p : List Nat) (h : p ≠ []) :
    (initOf p).map Int.ofNat ++ [((lastOf p : Nat) : Int)] = p.map Int.ofNat := by
  conv => rhs; rw [← init_last p h]
  simp

theorem decodeLoop_encParams : ∀ (ps : List (List Nat)) (_ : ps ≠ []) (_ : ParamsOk ps)
    (acc : List (List Int)),
    decodeLoop (encParams ps) 0 [] acc = acc ++ ps.map (·.map Int.ofNat)
  | [], h, _, _ => absurd rfl h
  | [p], _, hok, acc => by
    have hp := hok p (by simp)
    have := decodeLoop_encSub p hp [] [] acc
    simp only [List.append_nil] at this
    simp only [encParams, this, decodeLoop, List.nil_append, List.map_cons, List.map_nil]
    rw [map_init_last p hp.1]
  | p :: q :: tl, _, hok, acc => by
    have hp := hok p (by simp)
    simp only [encParams]
    rw [decodeLoop_encSub p hp]
    simp only [decodeLoop, if_true, List.nil_append]
    rw [decodeLoop_encParams (q :: tl) (by simp) (fun z hz => hok z (by simp [hz]))]
    rw [map_init_last p hp.1]
    simp

theorem encParams_ne_nil : ∀ (ps : List (List Nat)), ps ≠ [] → ParamsOk ps → encParams ps ≠ []
  | [], h, _ => absurd rfl h
  | [p], _, hok => by
    have hp := (hok p (by simp)).1
    cases p with
    | nil => exact absurd rfl hp
    | cons x t =>
      cases t with
      | nil => simpa [encParams, encSub] using digitsOf_ne_nil x
      | cons y t => simp [encParams, encSub]
  | p :: q :: tl, _, _ => by simp [encParams]

/-- **Parameter round trip**: decoding the printed form of any parameter list (every parameter with
    at least one sub-parameter, every value below 2^63) gives the list back; no parameters ↔ nil. -/
theorem decodeParams_encParams (ps : List (List Nat)) (hok : ParamsOk ps) :
    decodeParams (encParams ps) = ps.map (·.map Int.ofNat) := by
  cases ps with
  | nil => rfl
  | cons p tl =>
    have hne := encParams_ne_nil (p :: tl) (by simp) hok
    unfold decodeParams
    have : (encParams (p :: tl)).isEmpty = false := by
      cases h : encParams (p :: tl) with
      | nil => exact absurd h hne
      | cons _ _ => rfl
    rw [this]
    simp only [Bool.false_eq_true, if_false]
    rw [decodeLoop_encParams (p :: tl) (by simp) hok]
    simp

end VaxisModel.Lemmas.ParserParams
