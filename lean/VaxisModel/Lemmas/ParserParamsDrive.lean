/-
C08: the parameter-pool model driven by the automaton (Model/ParserParamsDrive.lean): every pool
operation of an expanded `csiDispatch` is enabled whatever the consumer does in between, the labels
issued are a run of `pstep`, and what `csi.Parameters` reads at the `emit` is `decodeParams p.params`.
-/
import VaxisModel.Model.ParserParamsDrive
import VaxisModel.Lemmas.ParserPools
import VaxisModel.Lemmas.ParserPoolsDrive

namespace VaxisModel.Lemmas.ParserParamsDrive
open VaxisModel.Model.ParserTable VaxisModel.Model.ParserPools
open VaxisModel.Model.Parser hiding pstep run
open VaxisModel.Model.ParserParamsDrive VaxisModel.Lemmas.ParserPools

/-! ### cells -/

theorem dec_enc (v : Int) : dec (enc v) = v := by
  cases v with
  | ofNat n =>
    have h1 : 2 * n % 2 = 0 := by omega
    have h2 : 2 * n / 2 = n := by omega
    simp only [enc, dec, h1, h2, if_true]
  | negSucc n =>
    have h1 : ¬ ((2 * n + 1) % 2 = 0) := by omega
    have h2 : (2 * n + 1) / 2 = n := by omega
    simp only [enc, dec, h1, h2, if_false]

theorem enc_injective (v w : Int) (h : enc v = enc w) : v = w := by
  rw [← dec_enc v, ← dec_enc w, h]

/-! ### the shape of an expanded `csiDispatch` -/

/-- Where the body of `csiDispatch` is: outside / `csi.Parameters` taken and empty / `csi.Parameters`
    non-empty, no current `param` / a current `param`. -/
inductive Phase | idle | listE | listN | param
  deriving DecidableEq, Repr

def phStep : Phase → POp → Option Phase
  | .idle, .begin => some .listE
  | .listE, .get => some .param
  | .listN, .get => some .param
  | .param, .app _ => some .param
  | .param, .push => some .listN
  | .listN, .emit => some .idle
  | _, _ => none

/-- The operations are in an order the pool model accepts, and end outside the body. -/
def okOps : Phase → List POp → Bool
  | ph, [] => ph == .idle
  | ph, op :: rest =>
    match phStep ph op with
    | none => false
    | some ph' => okOps ph' rest

theorem okOps_loopOps (bs : List Rune) (ps : Int) : okOps .param (loopOps bs ps) = true := by
  induction bs generalizing ps with
  | nil => rfl
  | cons b rest ih =>
    simp only [loopOps]
    split
    · simpa [okOps, phStep] using ih 0
    · split
      · simpa [okOps, phStep] using ih 0
      · exact ih _

theorem okOps_csiOps (params : List Rune) : okOps .idle (csiOps params) = true := by
  unfold csiOps
  split
  · rfl
  · simpa [okOps, phStep] using okOps_loopOps params 0

theorem okOps_actOps (a : Act) (s : PState) : okOps .idle (actOps a s) = true := by
  cases a <;> first | rfl | exact okOps_csiOps _

/-- What the operations compute, on lists: the values of `csi.Parameters` at each `emit`
    (`a` = `csi.Parameters`, `p` = `param`). -/
def semOps : List POp → List (List Nat) → List Nat → List (List (List Nat))
  | [], _, _ => []
  | .begin :: r, _, p => semOps r [] p
  | .get :: r, a, _ => semOps r a []
  | .app v :: r, a, p => semOps r a (p ++ [enc v])
  | .push :: r, a, p => semOps r (a ++ [p]) p
  | .emit :: r, a, p => a :: semOps r a p

theorem semOps_loopOps (bs : List Rune) (ps : Int) (param : List Int) (acc : List (List Int)) :
    semOps (loopOps bs ps) (acc.map (·.map enc)) (param.map enc) =
      [(decodeLoop bs ps param acc).map (·.map enc)] := by
  induction bs generalizing ps param acc with
  | nil => simp [loopOps, semOps, decodeLoop]
  | cons b rest ih =>
    simp only [loopOps, decodeLoop]
    split
    · have := ih 0 [] (acc ++ [param ++ [ps]])
      simpa [semOps] using this
    · split
      · have := ih 0 (param ++ [ps]) acc
        simpa [semOps] using this
      · exact ih _ _ _

theorem semOps_csiOps (params : List Rune) (a : List (List Nat)) (p : List Nat) :
    ∀ x ∈ semOps (csiOps params) a p, x = (decodeParams params).map (·.map enc) := by
  unfold csiOps decodeParams
  split
  · intro x hx; simp [semOps] at hx
  · intro x hx
    have := semOps_loopOps params 0 [] []
    simp only [List.map_nil] at this
    simp only [List.cons_append, List.nil_append, semOps, this, List.mem_singleton] at hx
    exact hx

theorem semOps_actOps (act : Act) (s : PState) (a : List (List Nat)) (p : List Nat) :
    ∀ x ∈ semOps (actOps act s) a p, x = (decodeParams s.params).map (·.map enc) := by
  cases act <;> first | (intro x hx; simp [actOps, semOps] at hx; done) | exact semOps_csiOps _ _ _

/-! ### the state of a running `csiDispatch` in the pool model -/

/-- The pool state is at phase `ph` of the body and its locals read `a` (`csi.Parameters`) and `p`
    (`param`). -/
def Reads (ph : Phase) (s : PSt) (a : List (List Nat)) (p : List Nat) : Prop :=
  match ph with
  | .idle => s.work = none
  | .listE => ∃ l, s.work = some (l, none) ∧ readParams s.pheap s.lheap l = a
  | .listN => ∃ l, s.work = some (l, none) ∧ l.len ≠ 0 ∧ readParams s.pheap s.lheap l = a
  | .param => ∃ l q, s.work = some (l, some q) ∧ readParams s.pheap s.lheap l = a ∧
      q.len ≤ (cells s.pheap q.arr).length ∧ (cells s.pheap q.arr).take q.len = p

theorem Reads_frame (ph : Phase) (s s' : PSt) (a : List (List Nat)) (p : List Nat)
    (hw : s'.work = s.work) (hp : s'.pheap = s.pheap) (hl : s'.lheap = s.lheap)
    (h : Reads ph s a p) : Reads ph s' a p := by
  cases ph <;> simpa only [Reads, hw, hp, hl] using h

theorem getAns_lt {g : Option Nat} {pool : List Slice} {k : Nat} (h : getAns g pool = some k) :
    k < pool.length := by
  unfold getAns at h
  split at h
  · split at h
    · cases h; assumption
    · cases h
  · cases h

/-- A consumer move changes neither the heaps nor the locals of the running dispatch. -/
theorem cons_frame (s s' : PSt) (c : CLabel) (h : pstep s c.toP = some s') :
    s'.work = s.work ∧ s'.pheap = s.pheap ∧ s'.lheap = s.lheap := by
  cases c with
  | finish k =>
    simp only [CLabel.toP, pstep] at h
    split at h
    · cases h
    · cases h; exact ⟨rfl, rfl, rfl⟩
  | finPut j =>
    simp only [CLabel.toP, pstep] at h
    split at h
    · cases h
    · split at h <;> (cases h; exact ⟨rfl, rfl, rfl⟩)

theorem work_hdr_lt {s : PSt} (hinv : PInv s) (l : Slice) (q : Option Slice)
    (hw : s.work = some (l, q)) (h : Slice) (hh : h ∈ hdrs s.lheap l) : h.arr < s.pheap.length := by
  apply hinv.pown.2
  simp only [powners, wl, hw, List.flatMap_cons, List.flatMap_nil, List.append_nil, List.map_append,
    List.mem_append, List.mem_map]
  exact Or.inl (Or.inl (Or.inl (Or.inr ⟨h, hh, rfl⟩)))

theorem work_param_lt {s : PSt} (hinv : PInv s) (l q : Slice)
    (hw : s.work = some (l, some q)) : q.arr < s.pheap.length := by
  apply hinv.pown.2
  simp [powners, wp, hw]

theorem work_param_ne_hdr {s : PSt} (hinv : PInv s) (l q : Slice)
    (hw : s.work = some (l, some q)) (h : Slice) (hh : h ∈ hdrs s.lheap l) : q.arr ≠ h.arr := by
  have hn := hinv.pown.1
  simp only [powners, wp, wl, hw, List.flatMap_cons, List.flatMap_nil, List.append_nil, List.map_append,
    List.map_cons, List.cons_append, List.nil_append, List.nodup_cons, List.mem_append, List.mem_map,
    not_or] at hn
  intro he
  exact hn.1.1.1.1 ⟨h, hh, he.symm⟩

theorem readParams_alloc (s : PSt) (hinv : PInv s) (l : Slice) (q : Option Slice)
    (hw : s.work = some (l, q)) (c : List Nat) :
    readParams (s.pheap ++ [c]) s.lheap l = readParams s.pheap s.lheap l :=
  readParams_congr _ _ _ _ _ rfl (fun h hh => cells_alloc_lt _ _ _ (work_hdr_lt hinv l q hw h hh))

/-! ### one operation -/

theorem step_begin (sl : Slot) (s : PSt) (a : List (List Nat)) (p : List Nat)
    (h : Reads .idle s a p) :
    ∃ s', pstep s (opLabel sl s .begin) = some s' ∧ Reads .listE s' [] p := by
  simp only [Reads] at h
  simp only [opLabel, pstep, h]
  cases hg : getAns sl.g s.lpool with
  | none => exact ⟨_, rfl, _, rfl, by simp [readParams, hdrs]⟩
  | some k =>
    have hk := getAns_lt hg
    simp only [List.getElem?_eq_getElem hk]
    exact ⟨_, rfl, _, rfl, by simp [readParams, hdrs]⟩

theorem step_get (sl : Slot) (s : PSt) (a : List (List Nat)) (hinv : PInv s) (l : Slice)
    (hw : s.work = some (l, none)) (ha : readParams s.pheap s.lheap l = a) :
    ∃ s', pstep s (opLabel sl s .get) = some s' ∧ Reads .param s' a [] := by
  simp only [opLabel, pstep, hw]
  cases hg : getAns sl.g s.ppool with
  | none =>
    refine ⟨_, rfl, l, _, rfl, ?_, Nat.zero_le _, rfl⟩
    rw [← ha]; exact readParams_alloc s hinv l none hw _
  | some k =>
    have hk := getAns_lt hg
    simp only [List.getElem?_eq_getElem hk]
    exact ⟨_, rfl, l, _, rfl, ha, Nat.zero_le _, rfl⟩

theorem take_set_succ {α : Type} (c : List α) (n : Nat) (v : α) (h : n < c.length) :
    (c.set n v).take (n + 1) = c.take n ++ [v] := by
  simp only [List.take_add_one, List.take_set_of_le (Nat.le_refl _), List.getElem?_set_self h,
    Option.toList_some]

theorem take_grow {α : Type} [Inhabited α] (c : List α) (n : Nat) (v : α) (nc : Nat) (h : n ≤ c.length) :
    (grow c n v nc).take (n + 1) = c.take n ++ [v] := by
  have hlen : (c.take n ++ [v]).length = n + 1 := by
    simp only [List.length_append, List.length_take, List.length_cons, List.length_nil]; omega
  simp only [grow]
  rw [List.take_append_of_le_length (by omega), ← hlen, List.take_length]

theorem step_app (sl : Slot) (s : PSt) (a : List (List Nat)) (p : List Nat) (v : Int) (hinv : PInv s)
    (h : Reads .param s a p) :
    ∃ s', pstep s (opLabel sl s (.app v)) = some s' ∧ Reads .param s' a (p ++ [enc v]) := by
  obtain ⟨l, q, hw, ha, hcap, hp⟩ := h
  simp only [opLabel, pstep, hw]
  by_cases hroom : q.len < (cells s.pheap q.arr).length
  · simp only [hroom, if_true]
    have hq := work_param_lt hinv l q hw
    refine ⟨_, rfl, l, _, rfl, ?_, ?_, ?_⟩
    · rw [← ha]
      exact readParams_congr _ _ _ _ _ rfl
        (fun h hh => cells_write_ne _ _ _ _ _ (work_param_ne_hdr hinv l q hw h hh))
    · simp only [cells_write_eq _ _ _ _ hq, List.length_set]; exact hroom
    · simp only [cells_write_eq _ _ _ _ hq]
      rw [take_set_succ _ _ _ hroom, hp]
  · have hn : q.len + 1 ≤ q.len + 1 + sl.extra := Nat.le_add_right _ _
    simp only [hroom, if_false, hn, if_true]
    refine ⟨_, rfl, l, _, rfl, ?_, ?_, ?_⟩
    · rw [← ha]; exact readParams_alloc s hinv l _ hw _
    · simp only [cells_alloc_eq, length_grow _ _ _ _ hcap hn]; exact hn
    · simp only [cells_alloc_eq]
      rw [take_grow _ _ _ _ hcap, hp]

theorem step_push (sl : Slot) (s : PSt) (a : List (List Nat)) (p : List Nat) (hinv : PInv s)
    (h : Reads .param s a p) :
    ∃ s', pstep s (opLabel sl s .push) = some s' ∧ Reads .listN s' (a ++ [p]) p := by
  obtain ⟨l, q, hw, ha, _, hp⟩ := h
  have hlt := hinv.work_lt l _ hw
  have hc := hinv.wcap _ _ hw
  simp only [opLabel, pstep, hw]
  by_cases hroom : l.len < (cells s.lheap l.arr).length
  · simp only [hroom, if_true]
    refine ⟨_, rfl, _, rfl, Nat.succ_ne_zero _, ?_⟩
    simp only [readParams, hdrs_write_push _ _ _ hlt hroom, List.map_append, List.map_cons, List.map_nil,
      hp]
    simp only [readParams] at ha
    rw [ha]
  · have hn : l.len + 1 ≤ l.len + 1 + sl.extra := Nat.le_add_right _ _
    simp only [hroom, if_false, hn, if_true]
    refine ⟨_, rfl, _, rfl, Nat.succ_ne_zero _, ?_⟩
    simp only [readParams, hdrs_grow_push _ _ _ _ hc, List.map_append, List.map_cons, List.map_nil, hp]
    simp only [readParams] at ha
    rw [ha]

theorem step_emit (sl : Slot) (s : PSt) (a : List (List Nat)) (p : List Nat)
    (h : Reads .listN s a p) :
    ∃ s', pstep s (opLabel sl s .emit) = some s' ∧ Reads .idle s' a p ∧ readWork s = a := by
  obtain ⟨l, hw, hlen, ha⟩ := h
  simp only [opLabel, pstep, hw, hlen, if_false, readWork]
  exact ⟨_, rfl, rfl, ha⟩

/-- The effect of one operation on the ghost locals. -/
def semStep : POp → List (List Nat) × List Nat → List (List Nat) × List Nat
  | .begin, (_, p) => ([], p)
  | .get, (a, _) => (a, [])
  | .app v, (a, p) => (a, p ++ [enc v])
  | .push, (a, p) => (a ++ [p], p)
  | .emit, (a, p) => (a, p)

theorem semOps_cons (op : POp) (r : List POp) (a : List (List Nat)) (p : List Nat) :
    semOps (op :: r) a p =
      (if isEmit op then [a] else []) ++ semOps r (semStep op (a, p)).1 (semStep op (a, p)).2 := by
  cases op <;> rfl

/-- Any operation the phase allows is enabled, and the locals follow `semStep`. -/
theorem step_op (sl : Slot) (s : PSt) (ph ph' : Phase) (op : POp) (a : List (List Nat)) (p : List Nat)
    (hinv : PInv s) (h : Reads ph s a p) (hph : phStep ph op = some ph') :
    ∃ s', pstep s (opLabel sl s op) = some s' ∧
      Reads ph' s' (semStep op (a, p)).1 (semStep op (a, p)).2 ∧ (isEmit op = true → readWork s = a) := by
  cases ph <;> cases op <;> simp only [phStep, Option.some.injEq] at hph <;> try (cases hph; done)
  all_goals subst hph
  · obtain ⟨s', h1, h2⟩ := step_begin sl s a p h
    exact ⟨s', h1, h2, fun hf => by cases hf⟩
  · obtain ⟨l, hw, ha⟩ := h
    obtain ⟨s', h1, h2⟩ := step_get sl s a hinv l hw ha
    exact ⟨s', h1, h2, fun hf => by cases hf⟩
  · obtain ⟨l, hw, _, ha⟩ := h
    obtain ⟨s', h1, h2⟩ := step_get sl s a hinv l hw ha
    exact ⟨s', h1, h2, fun hf => by cases hf⟩
  · obtain ⟨s', h1, h2, h3⟩ := step_emit sl s a p h
    exact ⟨s', h1, h2, fun _ => h3⟩
  · obtain ⟨s', h1, h2⟩ := step_app sl s a p _ hinv h
    exact ⟨s', h1, h2, fun hf => by cases hf⟩
  · obtain ⟨s', h1, h2⟩ := step_push sl s a p hinv h
    exact ⟨s', h1, h2, fun hf => by cases hf⟩

/-! ### runs -/

theorem prun_snoc (st st1 st2 : PSt) (ls : List PLabel) (l : PLabel) (h1 : prun st ls = some st1)
    (h2 : pstep st1 l = some st2) : prun st (ls ++ [l]) = some st2 := by
  rw [prun_append ls [l] st st1 h1]
  simp [prun, h2]

/-- What is kept along the walk: the pool state satisfies the ownership invariant and the labels
    issued lead to it. -/
structure AInv (st0 : PSt) (acc : Acc) : Prop where
  inv : PInv acc.st
  run : prun st0 acc.ls = some acc.st

theorem consStep_spec (st0 : PSt) (acc : Acc) (c : CLabel) (ph : Phase) (a : List (List Nat)) (p : List Nat)
    (hA : AInv st0 acc) (hR : Reads ph acc.st a p) :
    AInv st0 (consStep acc c) ∧ Reads ph (consStep acc c).st a p ∧ (consStep acc c).views = acc.views := by
  unfold consStep
  cases hs : pstep acc.st c.toP with
  | none => exact ⟨hA, hR, rfl⟩
  | some st' =>
    obtain ⟨hw, hp, hl⟩ := cons_frame _ _ _ hs
    exact ⟨⟨pstep_inv _ _ _ hA.inv hs, prun_snoc _ _ _ _ _ hA.run hs⟩, Reads_frame _ _ _ _ _ hw hp hl hR, rfl⟩

theorem consSteps_spec (st0 : PSt) (cs : List CLabel) (acc : Acc) (ph : Phase) (a : List (List Nat))
    (p : List Nat) (hA : AInv st0 acc) (hR : Reads ph acc.st a p) :
    AInv st0 (consSteps acc cs) ∧ Reads ph (consSteps acc cs).st a p ∧ (consSteps acc cs).views = acc.views := by
  induction cs generalizing acc with
  | nil => exact ⟨hA, hR, rfl⟩
  | cons c rest ih =>
    obtain ⟨h1, h2, h3⟩ := consStep_spec st0 acc c ph a p hA hR
    obtain ⟨h4, h5, h6⟩ := ih (consStep acc c) h1 h2
    exact ⟨h4, h5, h6.trans h3⟩

/-- **An expanded `csiDispatch` never blocks**, whatever the consumer does between its operations and
    whatever the `Get`s return; the labels issued extend the run; at every `emit` the slice handed
    over reads what the operations computed. -/
theorem driveOps_spec (st0 : PSt) (auto : List (List Int)) (ops : List POp) (ph : Phase) (sch : List Slot)
    (acc : Acc) (a : List (List Nat)) (p : List Nat)
    (hok : okOps ph ops = true) (hA : AInv st0 acc) (hR : Reads ph acc.st a p) :
    ∃ acc' sch', driveOps auto ops sch acc = some (acc', sch') ∧ AInv st0 acc' ∧ acc'.st.work = none ∧
      acc'.views = acc.views ++ (semOps ops a p).map (fun x => ⟨auto, x⟩) := by
  induction ops generalizing ph sch acc a p with
  | nil =>
    simp only [okOps, beq_iff_eq] at hok
    subst hok
    exact ⟨acc, sch, rfl, hA, hR, by simp [semOps]⟩
  | cons op rest ih =>
    simp only [okOps] at hok
    cases hph : phStep ph op with
    | none => simp [hph] at hok
    | some ph' =>
      simp only [hph] at hok
      obtain ⟨hA1, hR1, hv1⟩ := consSteps_spec st0 (sch.headD {}).pre acc ph a p hA hR
      obtain ⟨s', hs, hR', hem⟩ := step_op (sch.headD {}) _ ph ph' op a p hA1.inv hR1 hph
      simp only [driveOps, hs]
      have hA' : AInv st0
          { st := s', ls := (consSteps acc (sch.headD {}).pre).ls ++ [opLabel (sch.headD {}) (consSteps acc (sch.headD {}).pre).st op],
            views := if isEmit op then (consSteps acc (sch.headD {}).pre).views ++
              [⟨auto, readWork (consSteps acc (sch.headD {}).pre).st⟩] else (consSteps acc (sch.headD {}).pre).views } :=
        ⟨pstep_inv _ _ _ hA1.inv hs, prun_snoc _ _ _ _ _ hA1.run hs⟩
      obtain ⟨acc', sch', e1, e2, e3, e4⟩ := ih ph' sch.tail _ _ _ hok hA' hR'
      refine ⟨acc', sch', e1, e2, e3, ?_⟩
      rw [e4, semOps_cons, hv1]
      cases hE : isEmit op with
      | false => simp
      | true => simpa using hem hE

/-! ### held sequences were handed over at a recorded hand-over -/

/-- Every held CSI's snapshot is the slice of a recorded hand-over. -/
def Cov (acc : Acc) : Prop := ∀ x ∈ acc.st.delivered, ∃ v ∈ acc.views, x.snap = v.slice

/-- Only `emit` adds a delivered record, and its snapshot is what `csi.Parameters` reads then. -/
theorem pstep_delivered (s s' : PSt) (l : PLabel) (h : Model.ParserPools.pstep s l = some s') :
    ∀ x ∈ s'.delivered, x ∈ s.delivered ∨ (l = .emit ∧ x.snap = readWork s) := by
  cases l with
  | «begin» gl =>
    simp only [Model.ParserPools.pstep] at h
    split at h
    · cases h
    · split at h
      · cases h; exact fun x hx => Or.inl hx
      · split at h
        · cases h
        · cases h; exact fun x hx => Or.inl hx
  | get gp =>
    simp only [Model.ParserPools.pstep] at h
    split at h
    · split at h
      · cases h; exact fun x hx => Or.inl hx
      · split at h
        · cases h
        · cases h; exact fun x hx => Or.inl hx
    · cases h
  | app v nc =>
    simp only [Model.ParserPools.pstep] at h
    split at h
    · split at h
      · cases h; exact fun x hx => Or.inl hx
      · split at h
        · cases h; exact fun x hx => Or.inl hx
        · cases h
    · cases h
  | push nc =>
    simp only [Model.ParserPools.pstep] at h
    split at h
    · split at h
      · cases h; exact fun x hx => Or.inl hx
      · split at h
        · cases h; exact fun x hx => Or.inl hx
        · cases h
    · cases h
  | emit =>
    simp only [Model.ParserPools.pstep] at h
    split at h
    · rename_i l hw
      split at h
      · cases h
      · cases h
        intro x hx
        rcases List.mem_cons.1 hx with rfl | hx
        · exact Or.inr ⟨rfl, by simp only [readWork, hw]⟩
        · exact Or.inl hx
    · cases h
  | finish k =>
    simp only [Model.ParserPools.pstep] at h
    split at h
    · cases h
    · cases h; exact fun x hx => Or.inl (List.mem_of_mem_eraseIdx hx)
  | finPut j =>
    simp only [Model.ParserPools.pstep] at h
    split at h
    · cases h
    · split at h <;> (cases h; exact fun x hx => Or.inl hx)

theorem consStep_cov (acc : Acc) (c : CLabel) (h : Cov acc) : Cov (consStep acc c) := by
  unfold consStep
  cases hs : Model.ParserPools.pstep acc.st c.toP with
  | none => exact h
  | some st' =>
    intro x hx
    rcases pstep_delivered _ _ _ hs x hx with hx | ⟨he, _⟩
    · exact h x hx
    · cases c <;> cases he

theorem consSteps_cov (cs : List CLabel) (acc : Acc) (h : Cov acc) : Cov (consSteps acc cs) := by
  induction cs generalizing acc with
  | nil => exact h
  | cons c rest ih => exact ih _ (consStep_cov acc c h)

theorem driveOps_cov (auto : List (List Int)) (ops : List POp) (sch : List Slot) (acc : Acc)
    (r : Acc × List Slot) (h : Cov acc) (hd : driveOps auto ops sch acc = some r) : Cov r.1 := by
  induction ops generalizing sch acc with
  | nil => simp only [driveOps, Option.some.injEq] at hd; subst hd; exact h
  | cons op rest ih =>
    simp only [driveOps] at hd
    split at hd
    · cases hd
    · rename_i st' hs
      refine ih _ _ ?_ hd
      have h1 := consSteps_cov (sch.headD {}).pre acc h
      intro x hx
      rcases pstep_delivered _ _ _ hs x hx with hx | ⟨he, hsn⟩
      · obtain ⟨v, hv, e⟩ := h1 x hx
        refine ⟨v, ?_, e⟩
        show v ∈ (if isEmit op then _ else _)
        split
        · exact List.mem_append_left _ hv
        · exact hv
      · have hop : isEmit op = true := by cases op <;> first | rfl | cases he
        refine ⟨⟨auto, readWork (consSteps acc (sch.headD {}).pre).st⟩, ?_, hsn⟩
        show _ ∈ (if isEmit op then _ else _)
        rw [if_pos hop]
        exact List.mem_append_right _ (List.mem_singleton.2 rfl)

/-! ### rows, runes, schedules -/

/-- Every hand-over so far gave the consumer a slice that reads the decoded parameters. -/
def Good (vs : List View) : Prop := ∀ v ∈ vs, v.slice = v.auto.map (·.map enc)

/-- The invariant of the walk between two statements: ownership invariant, the labels issued lead to
    the pool state, no `csiDispatch` is running, all hand-overs were good. -/
structure WInv (st0 : PSt) (acc : Acc) : Prop where
  a : AInv st0 acc
  idle : acc.st.work = none
  good : Good acc.views
  cov : Cov acc

theorem driveActs_spec (st0 : PSt) (acts : List Act) (r : Nat) (s : PState) (sch : List Slot) (acc : Acc)
    (h : WInv st0 acc) :
    ∃ acc' sch', driveActs acts r s sch acc = some (acc', sch') ∧ WInv st0 acc' := by
  induction acts generalizing s sch acc with
  | nil => exact ⟨acc, sch, rfl, h⟩
  | cons a rest ih =>
    simp only [driveActs]
    split
    · exact ⟨acc, sch, rfl, h⟩
    · obtain ⟨acc1, sch1, e1, e2, e3, e4⟩ :=
        driveOps_spec st0 (decodeParams s.params) (actOps a s) .idle sch acc [] [] (okOps_actOps a s) h.a h.idle
      simp only [e1]
      refine ih _ sch1 acc1 ⟨e2, e3, ?_, driveOps_cov _ _ _ _ _ h.cov e1⟩
      intro v hv
      rw [e4] at hv
      rcases List.mem_append.1 hv with hv | hv
      · exact h.good v hv
      · obtain ⟨x, hx, rfl⟩ := List.mem_map.1 hv
        exact semOps_actOps a s [] [] x hx

theorem driveRune_spec (st0 : PSt) (T : Table) (sch : List Slot) (s : PState) (acc : Acc) (r : Nat)
    (h : WInv st0 acc) : ∃ acc', driveRune T sch s acc r = some acc' ∧ WInv st0 acc' := by
  obtain ⟨acc1, sch1, e1, e2⟩ := driveActs_spec st0 (T.anywhere.row (.rune r)).1 r s sch acc h
  simp only [driveRune, e1]
  cases hn : (runFn T.anywhere (.rune r) s).2.2 with
  | dispatch =>
    simp only
    obtain ⟨acc2, sch2, e3, e4⟩ := driveActs_spec st0 ((T.fn (runFn T.anywhere (.rune r) s).1.state).row (.rune r)).1 r
      (runFn T.anywhere (.rune r) s).1 sch1 acc1 e2
    exact ⟨acc2, by simp [e3], e4⟩
  | st x => exact ⟨acc1, rfl, e2⟩
  | stop => exact ⟨acc1, rfl, e2⟩

/-! ### the hand-overs are the CSI items the automaton delivers with parameters -/

def handed1 : Seq → List (List (List Int))
  | .csi _ ps _ => if ps.isEmpty then [] else [ps]
  | _ => []

/-- The `Parameters` of the CSI items delivered with parameters (non-nil), in order. -/
def handed (out : List Seq) : List (List (List Int)) := out.flatMap handed1

theorem handed_append (a b : List Seq) : handed (a ++ b) = handed a ++ handed b := by
  simp [handed, List.flatMap_append]

theorem decodeLoop_ne_nil (bs : List Rune) (ps : Int) (param : List Int) (acc : List (List Int)) :
    decodeLoop bs ps param acc ≠ [] := by
  induction bs generalizing ps param acc with
  | nil => simp [decodeLoop]
  | cons b rest ih =>
    simp only [decodeLoop]
    split
    · exact ih _ _ _
    · split <;> exact ih _ _ _

theorem decodeParams_isEmpty (ps : List Rune) : (decodeParams ps).isEmpty = ps.isEmpty := by
  unfold decodeParams
  split
  · rename_i h; simp [h]
  · rename_i h
    have := decodeLoop_ne_nil ps 0 [] []
    simp only [Bool.not_eq_true] at h
    rw [h]
    cases hd : decodeLoop ps 0 [] [] with
    | nil => exact absurd hd this
    | cons x xs => rfl

theorem semOps_csiOps_eq (params : List Rune) (a : List (List Nat)) (p : List Nat) :
    semOps (csiOps params) a p =
      if params.isEmpty then [] else [(decodeParams params).map (·.map enc)] := by
  unfold csiOps decodeParams
  split
  · rfl
  · have := semOps_loopOps params 0 [] []
    simp only [List.map_nil] at this
    simp only [List.cons_append, List.nil_append, semOps, this]

/-- One statement: as many hand-overs recorded as CSI items with parameters emitted (0 or 1), with
    the same `Parameters`. -/
theorem act_handed (a : Act) (r : Nat) (s : PState) :
    (semOps (actOps a s) [] []).map (fun _ => decodeParams s.params) = handed (applyAct a r s).2 := by
  cases a
  case csiDispatch =>
    simp only [actOps, semOps_csiOps_eq, applyAct, handed, List.flatMap_cons, List.flatMap_nil,
      List.append_nil, handed1, decodeParams_isEmpty]
    split <;> rfl
  case hook =>
    simp only [actOps, semOps, List.map_nil, applyAct]
    split
    · rfl
    · split <;> rfl
  case runExit =>
    simp only [actOps, semOps, List.map_nil, applyAct]
    split
    · rename_i f _; cases f <;> rfl
    · rfl
  case runExitIfSet =>
    simp only [actOps, semOps, List.map_nil, applyAct]
    split
    · rename_i f _; cases f <;> rfl
    · rfl
  case runExitIfSetST =>
    simp only [actOps, semOps, List.map_nil, applyAct]
    split
    · rename_i f _; cases f <;> rfl
    · rfl
  case execute =>
    simp only [actOps, semOps, List.map_nil, applyAct]
    split <;> rfl
  all_goals rfl

theorem runActs_cons (a : Act) (rest : List Act) (hr : isRet a = false) (r : Nat) (s : PState)
    (out : List Seq) (n : Next) :
    runActs (a :: rest) (.rune r) s out n =
      runActs rest (.rune r) (applyAct a r s).1 (out ++ (applyAct a r s).2) n := by
  cases a <;> first | (cases hr; done) | simp [runActs]

/-- One statement of the walk keeps the invariant and records the hand-overs of `semOps`. -/
theorem driveOps_winv (st0 : PSt) (a : Act) (s : PState) (sch : List Slot) (acc : Acc) (h : WInv st0 acc) :
    ∃ acc1 sch1, driveOps (decodeParams s.params) (actOps a s) sch acc = some (acc1, sch1) ∧ WInv st0 acc1 ∧
      acc1.views = acc.views ++ (semOps (actOps a s) [] []).map (fun x => ⟨decodeParams s.params, x⟩) := by
  obtain ⟨acc1, sch1, e1, e2, e3, e4⟩ :=
    driveOps_spec st0 (decodeParams s.params) (actOps a s) .idle sch acc [] [] (okOps_actOps a s) h.a h.idle
  refine ⟨acc1, sch1, e1, ⟨e2, e3, ?_, driveOps_cov _ _ _ _ _ h.cov e1⟩, e4⟩
  intro v hv
  rw [e4] at hv
  rcases List.mem_append.1 hv with hv | hv
  · exact h.good v hv
  · obtain ⟨x, hx, rfl⟩ := List.mem_map.1 hv
    exact semOps_actOps a s [] [] x hx

/-- Walking a row records exactly the hand-overs of the items `runActs` emits for it. -/
theorem driveActs_views (st0 : PSt) (acts : List Act) (r : Nat) (s : PState) (sch : List Slot) (acc : Acc)
    (h : WInv st0 acc) (res : Acc × List Slot) (hd : driveActs acts r s sch acc = some res)
    (out : List Seq) (n : Next) (V : List (List (List Int)))
    (hV : acc.views.map (·.auto) = V ++ handed out) :
    res.1.views.map (·.auto) = V ++ handed (runActs acts (.rune r) s out n).2.1 := by
  induction acts generalizing s sch acc out with
  | nil =>
    simp only [driveActs, Option.some.injEq] at hd
    subst hd
    simpa [runActs] using hV
  | cons a rest ih =>
    obtain ⟨acc1, sch1, e1, w1, v1⟩ := driveOps_winv st0 a s sch acc h
    cases hr : isRet a with
    | true =>
      cases a <;> try (cases hr; done)
      rename_i n'
      simp only [driveActs, isRet, Bool.true_and, runActs] at hd ⊢
      cases hig : s.ignoreST with
      | true =>
        simp only [hig, if_true, Option.some.injEq] at hd ⊢
        subst hd
        exact hV
      | false =>
        simp only [hig, Bool.false_eq_true, if_false, actOps, driveOps, applyAct] at hd ⊢
        exact ih s sch acc h hd out hV
    | false =>
      simp only [driveActs, hr, Bool.false_and, Bool.false_eq_true, if_false, e1] at hd
      rw [runActs_cons a rest hr]
      refine ih _ sch1 acc1 w1 hd _ ?_
      rw [v1, List.map_append, hV, handed_append, List.append_assoc, ← act_handed a r s]
      simp only [List.map_map]
      rfl

theorem runFn_out_eq (f : StateFn) (i : Inp) (s : PState) :
    (runFn f i s).2.1 = (runActs (f.row i).1 i s [] (f.row i).2).2.1 := by
  simp only [runFn]

theorem handed_finish (s : PState) (out : List Seq) (n : Next) : handed (Model.Parser.finish s out n).out = handed out := by
  cases n <;> simp [Model.Parser.finish, handed, handed1]

theorem handed_step (T : Table) (s : PState) (i : Inp) :
    handed (Model.Parser.step T s i).out =
      handed (runFn T.anywhere i s).2.1 ++
        (match (runFn T.anywhere i s).2.2 with
         | .dispatch => handed (runFn (T.fn (runFn T.anywhere i s).1.state) i (runFn T.anywhere i s).1).2.1
         | _ => []) := by
  unfold Model.Parser.step
  rcases hA : runFn T.anywhere i s with ⟨s1, o1, n1⟩
  cases n1 with
  | dispatch => simp only [handed_finish, handed_append]
  | st x => simp only [handed_finish, List.append_nil]
  | stop => simp only [handed_finish, List.append_nil]

theorem driveRune_views (st0 : PSt) (T : Table) (sch : List Slot) (s : PState) (acc acc' : Acc) (r : Nat)
    (h : WInv st0 acc) (hd : driveRune T sch s acc r = some acc') :
    acc'.views.map (·.auto) = acc.views.map (·.auto) ++ handed (Model.Parser.step T s (.rune r)).out := by
  obtain ⟨acc1, sch1, e1, w1⟩ := driveActs_spec st0 (T.anywhere.row (.rune r)).1 r s sch acc h
  have v1 := driveActs_views st0 _ r s sch acc h _ e1 [] (T.anywhere.row (.rune r)).2 (acc.views.map (·.auto))
    (by simp [handed])
  rw [← runFn_out_eq] at v1
  simp only [driveRune, e1] at hd
  rw [handed_step]
  cases hn : (runFn T.anywhere (.rune r) s).2.2 with
  | dispatch =>
    simp only [hn] at hd ⊢
    cases hd2 : driveActs ((T.fn (runFn T.anywhere (.rune r) s).1.state).row (.rune r)).1 r
        (runFn T.anywhere (.rune r) s).1 sch1 acc1 with
    | none => simp [hd2] at hd
    | some res =>
      simp only [hd2, Option.map_some, Option.some.injEq] at hd
      subst hd
      have v2 := driveActs_views st0 _ r _ sch1 acc1 w1 _ hd2 []
        ((T.fn (runFn T.anywhere (.rune r) s).1.state).row (.rune r)).2 (acc1.views.map (·.auto)) (by simp [handed])
      rw [← runFn_out_eq] at v2
      rw [v2, v1, List.append_assoc]
  | st x =>
    simp only [hn, Option.some.injEq] at hd ⊢
    subst hd
    simpa using v1
  | stop =>
    simp only [hn, Option.some.injEq] at hd ⊢
    subst hd
    simpa using v1

theorem WInv_init : WInv PSt.init ({} : Acc) :=
  ⟨⟨PInv_init, rfl⟩, rfl, fun _ hv => (by cases hv), fun x hx => (by have h0 : x ∈ ([] : List PDeliv) := hx; cases h0)⟩

theorem consStep_winv (st0 : PSt) (acc : Acc) (c : CLabel) (h : WInv st0 acc) : WInv st0 (consStep acc c) := by
  obtain ⟨h1, h2, h3⟩ := consStep_spec st0 acc c .idle [] [] h.a h.idle
  exact ⟨h1, h2, by rw [h3]; exact h.good, consStep_cov _ _ h.cov⟩

/-- The composite never blocks and keeps the invariant. -/
theorem drun_spec (T : Table) (ls : List DLabel) (d : DSt) (h : WInv PSt.init d.acc) :
    ∃ d', drun T d ls = some d' ∧ WInv PSt.init d'.acc := by
  induction ls generalizing d with
  | nil => exact ⟨d, rfl, h⟩
  | cons l rest ih =>
    cases l with
    | rune r sch =>
      obtain ⟨acc', e1, e2⟩ := driveRune_spec PSt.init T sch d.ps d.acc r h
      simp only [drun, dstep, e1]
      exact ih _ e2
    | cons c =>
      simp only [drun, dstep]
      exact ih _ (consStep_winv _ _ c h)

/-- Along the composite, the hand-overs recorded are the CSI items with parameters on the channel. -/
theorem drun_views (T : Table) (ls : List DLabel) (d d' : DSt) (h : WInv PSt.init d.acc)
    (hv : d.acc.views.map (·.auto) = handed d.out) (hd : drun T d ls = some d') :
    d'.acc.views.map (·.auto) = handed d'.out := by
  induction ls generalizing d with
  | nil => simp only [drun, Option.some.injEq] at hd; subst hd; exact hv
  | cons l rest ih =>
    cases l with
    | rune r sch =>
      obtain ⟨acc', e1, e2⟩ := driveRune_spec PSt.init T sch d.ps d.acc r h
      simp only [drun, dstep, e1] at hd
      refine ih _ e2 ?_ hd
      simp only [handed_append, ← hv]
      exact driveRune_views PSt.init T sch d.ps d.acc acc' r h e1
    | cons c =>
      simp only [drun, dstep] at hd
      refine ih _ (consStep_winv _ _ c h) ?_ hd
      rw [(consStep_spec PSt.init d.acc c .idle [] [] h.a h.idle).2.2]
      exact hv

/-- Every prefix of a run is a run (the states in the middle of a `csiDispatch` included). -/
theorem prun_take (ls : List PLabel) (s s' : PSt) (h : prun s ls = some s') (n : Nat) :
    ∃ s1, prun s (ls.take n) = some s1 ∧ prun s1 (ls.drop n) = some s' := by
  induction ls generalizing s n with
  | nil => exact ⟨s, by simpa [prun] using h⟩
  | cons l rest ih =>
    cases n with
    | zero => exact ⟨s, rfl, h⟩
    | succ n =>
      simp only [prun] at h
      cases hs : Model.ParserPools.pstep s l with
      | none => rw [hs] at h; cases h
      | some s1 =>
        rw [hs] at h
        obtain ⟨s2, e1, e2⟩ := ih s1 h n
        exact ⟨s2, by simp only [List.take_succ_cons, prun, hs, e1], by simpa using e2⟩

/-- The runes of a composite schedule. -/
def runesOf : List DLabel → List Nat
  | [] => []
  | .rune r _ :: ls => r :: runesOf ls
  | .cons _ :: ls => runesOf ls

open VaxisModel.Lemmas.ParserPoolsDrive (autoRun) in
/-- The parser component of the composite is the automaton's own run over the runes of the schedule. -/
theorem drun_automaton (T : Table) (ls : List DLabel) (d d' : DSt) (h : drun T d ls = some d') :
    (d'.ps, d'.out) = autoRun T d.ps d.out (runesOf ls) := by
  induction ls generalizing d with
  | nil => simp only [drun, Option.some.injEq] at h; subst h; rfl
  | cons l rest ih =>
    simp only [drun] at h
    cases hs : dstep T d l with
    | none => rw [hs] at h; cases h
    | some d1 =>
      rw [hs] at h
      have := ih d1 h
      cases l with
      | rune r sch =>
        simp only [dstep] at hs
        split at hs
        · cases hs
        · cases hs; simpa [runesOf, autoRun] using this
      | cons c =>
        simp only [dstep, Option.some.injEq] at hs
        subst hs; simpa [runesOf] using this

/-! ### the expansion read off the statement skeleton of `csiDispatch`

Nothing here mentions a particular statement list: `OpsStep` says what the `switch` of the loop has
to issue and compute; `Props/C08DriveParams.lean` proves it for the regenerated body by evaluation. -/

section Body
open VaxisModel.Model.ParserActs

/-- `ps *= 10; ps += d` with a wrap after each operation = one wrap of the exact result. -/
theorem wrap64_mul_add (a d : Int) : wrap64 (wrap64 (a * 10) + d) = wrap64 (a * 10 + d) := by
  unfold wrap64; omega

/-- What one iteration of the loop (`switch b { … }`) must issue, and leave in `ps`. -/
def OpsStep (cases : List (Nat × List LoopOp)) (dflt : List LoopOp) : Prop :=
  ∀ (b : Rune) (st : LoopSt),
    (opsOfOps b (findCase cases dflt b) st).1 =
      (if b = 0x3B then [.app st.ps, .push, .get] else if b = 0x3A then [.app st.ps] else []) ∧
    (opsOfOps b (findCase cases dflt b) st).2.ps =
      (if b = 0x3B then 0 else if b = 0x3A then 0 else wrap64 (st.ps * 10 + ((b : Int) - 0x30)))

/-- A loop whose iteration is `OpsStep`, followed by `append(param, ps)`, `append(csi.Parameters, param)`,
    `emit` = `loopOps`, from any decoder state. -/
theorem opsOfLoop_sem (cases : List (Nat × List LoopOp)) (dflt : List LoopOp) (h : OpsStep cases dflt)
    (bs : List Rune) (st : LoopSt) :
    (opsOfLoop cases dflt bs st).1 ++ [.app (opsOfLoop cases dflt bs st).2.ps, .push, .emit] =
      loopOps bs st.ps := by
  induction bs generalizing st with
  | nil => rfl
  | cons b rest ih =>
    simp only [opsOfLoop, loopOps, List.append_assoc]
    rw [ih, (h b st).1, (h b st).2]
    by_cases h1 : b = 0x3B
    · simp only [h1, if_true]
    · by_cases h2 : b = 0x3A
      · simp only [h2, if_true]; rfl
      · simp only [h1, h2, if_false, List.nil_append]

end Body

end VaxisModel.Lemmas.ParserParamsDrive
