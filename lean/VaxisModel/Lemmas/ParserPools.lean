/-
C08 (deliverable B) — helper lemmas for the pool model over explicit backing arrays
(Model/ParserPools.lean): heap lemmas, the ownership invariant and its preservation.
-/
import VaxisModel.Model.ParserPools
import VaxisModel.Model.ParserRun

namespace VaxisModel.Lemmas.ParserPools
open VaxisModel.Model.ParserPools

/-! ### heap -/

theorem cells_write_ne {α : Type} (h : List (List α)) (a b i : Nat) (v : α) (hab : a ≠ b) :
    cells (write h a i v) b = cells h b := by
  simp only [cells, write, List.getElem?_set_ne hab]

theorem cells_write_eq {α : Type} (h : List (List α)) (a i : Nat) (v : α) (ha : a < h.length) :
    cells (write h a i v) a = (cells h a).set i v := by
  simp only [cells, write, List.getElem?_set_self ha, Option.getD_some]

theorem cells_alloc_lt {α : Type} (h : List (List α)) (c : List α) (b : Nat) (hb : b < h.length) :
    cells (h ++ [c]) b = cells h b := by
  simp only [cells, List.getElem?_append_left hb]

theorem cells_alloc_eq {α : Type} (h : List (List α)) (c : List α) : cells (h ++ [c]) h.length = c := by
  simp [cells]

theorem length_write {α : Type} (h : List (List α)) (a i : Nat) (v : α) :
    (write h a i v).length = h.length := by
  simp [write]

/-! ### lists -/

/-- The element taken out at index `k` is related to everything that stays. -/
theorem pairwise_getElem?_eraseIdx {α : Type} (R : α → α → Prop) (hsym : ∀ a b, R a b → R b a)
    (l : List α) (hp : l.Pairwise R) (k : Nat) (x : α) (hk : l[k]? = some x) :
    ∀ y ∈ l.eraseIdx k, R x y := by
  induction l generalizing k with
  | nil => simp at hk
  | cons a l ih =>
    rw [List.pairwise_cons] at hp
    cases k with
    | zero =>
      simp only [List.getElem?_cons_zero, Option.some.injEq] at hk
      subst hk
      simpa using hp.1
    | succ k =>
      simp only [List.getElem?_cons_succ] at hk
      intro y hy
      simp only [List.eraseIdx_cons_succ, List.mem_cons] at hy
      rcases hy with rfl | hy
      · exact hsym _ _ (hp.1 x (List.mem_of_getElem? hk))
      · exact ih hp.2 k hk y hy

/-! ### the ownership invariant -/

/-- Every backing array has at most one owner among: the parser (`cur`), the pool, the delivered
    sequences; all of them are allocated; and every delivered sequence reads what it read at delivery. -/
structure Inv (s : St) : Prop where
  curPool : ∀ c, s.cur = some c → ∀ p ∈ s.pool, p.arr ≠ c.arr
  curDel : ∀ c, s.cur = some c → ∀ d ∈ s.delivered, d.s.arr ≠ c.arr
  poolDel : ∀ p ∈ s.pool, ∀ d ∈ s.delivered, p.arr ≠ d.s.arr
  poolDistinct : s.pool.Pairwise (fun a b => a.arr ≠ b.arr)
  delDistinct : s.delivered.Pairwise (fun a b => a.s.arr ≠ b.s.arr)
  curLt : ∀ c, s.cur = some c → c.arr < s.heap.length
  poolLt : ∀ p ∈ s.pool, p.arr < s.heap.length
  delLt : ∀ d ∈ s.delivered, d.s.arr < s.heap.length
  intact : ∀ d ∈ s.delivered, d.now s.heap = d.snap

theorem Inv_init : Inv St.init := by
  constructor <;> simp [St.init]

/-- Allocation keeps the invariant when the new array becomes the parser's. -/
theorem Inv_alloc (s : St) (hinv : Inv s) (c : List Nat) (n : Nat) :
    Inv { s with heap := s.heap ++ [c], cur := some ⟨s.heap.length, n⟩ } := by
  obtain ⟨h1, h2, h3, h4, h5, h6, h7, h8, h9⟩ := hinv
  refine ⟨?_, ?_, h3, h4, h5, ?_, ?_, ?_, ?_⟩
  · intro c hc p hp
    simp only [Option.some.injEq] at hc; subst hc
    exact Nat.ne_of_lt (h7 p hp)
  · intro c hc d hd
    simp only [Option.some.injEq] at hc; subst hc
    exact Nat.ne_of_lt (h8 d hd)
  · intro c hc
    simp only [Option.some.injEq] at hc; subst hc
    simp
  · intro p hp; have := h7 p hp; simp; omega
  · intro d hd; have := h8 d hd; simp; omega
  · intro d hd
    simp only [Deliv.now, cells_alloc_lt _ _ _ (h8 d hd)]
    exact h9 d hd

theorem step_collect_inv (c : Cfg) (s s' : St) (r newcap : Nat) (hinv : Inv s)
    (hstep : step c s (.collect r newcap) = some s') : Inv s' := by
  simp only [step] at hstep
  split at hstep
  · split at hstep
    · simp only [Option.some.injEq] at hstep; subst hstep
      exact Inv_alloc s hinv _ _
    · cases hstep
  · rename_i sl hcur
    split at hstep
    · simp only [Option.some.injEq] at hstep; subst hstep
      obtain ⟨h1, h2, h3, h4, h5, h6, h7, h8, h9⟩ := hinv
      refine ⟨?_, ?_, h3, h4, h5, ?_, ?_, ?_, ?_⟩
      · intro c hc p hp
        simp only [Option.some.injEq] at hc; subst hc
        exact h1 sl hcur p hp
      · intro c hc d hd
        simp only [Option.some.injEq] at hc; subst hc
        exact h2 sl hcur d hd
      · intro c hc
        simp only [Option.some.injEq] at hc; subst hc
        simpa [length_write] using h6 sl hcur
      · intro p hp; simpa [length_write] using h7 p hp
      · intro d hd; simpa [length_write] using h8 d hd
      · intro d hd
        have hne : sl.arr ≠ d.s.arr := fun h => h2 sl hcur d hd h.symm
        simp only [Deliv.now, cells_write_ne _ _ _ _ _ hne]
        exact h9 d hd
    · split at hstep
      · simp only [Option.some.injEq] at hstep; subst hstep
        exact Inv_alloc s hinv _ _
      · cases hstep

theorem step_clear_inv (c : Cfg) (s s' : St) (hinv : Inv s)
    (hstep : step c s .clear = some s') : Inv s' := by
  simp only [step, Option.some.injEq] at hstep; subst hstep
  obtain ⟨h1, h2, h3, h4, h5, h6, h7, h8, h9⟩ := hinv
  refine ⟨?_, ?_, h3, h4, h5, ?_, h7, h8, h9⟩
  · intro c hc p hp
    simp only [Option.map_eq_some_iff] at hc
    obtain ⟨sl, hsl, rfl⟩ := hc
    exact h1 sl hsl p hp
  · intro c hc d hd
    simp only [Option.map_eq_some_iff] at hc
    obtain ⟨sl, hsl, rfl⟩ := hc
    exact h2 sl hsl d hd
  · intro c hc
    simp only [Option.map_eq_some_iff] at hc
    obtain ⟨sl, hsl, rfl⟩ := hc
    exact h6 sl hsl

/-- Handing the parser's array to a delivered sequence (ownership moves from `cur` to `delivered`). -/
theorem Inv_deliver (s : St) (hinv : Inv s) (sl : Slice) (hcur : s.cur = some sl) :
    (∀ d ∈ (⟨sl, (cells s.heap sl.arr).take sl.len⟩ :: s.delivered : List Deliv), d.now s.heap = d.snap) ∧
    (⟨sl, (cells s.heap sl.arr).take sl.len⟩ :: s.delivered : List Deliv).Pairwise
      (fun a b => a.s.arr ≠ b.s.arr) ∧
    (∀ d ∈ (⟨sl, (cells s.heap sl.arr).take sl.len⟩ :: s.delivered : List Deliv), d.s.arr < s.heap.length) ∧
    (∀ p ∈ s.pool, ∀ d ∈ (⟨sl, (cells s.heap sl.arr).take sl.len⟩ :: s.delivered : List Deliv),
      p.arr ≠ d.s.arr) := by
  obtain ⟨h1, h2, h3, h4, h5, h6, h7, h8, h9⟩ := hinv
  refine ⟨?_, ?_, ?_, ?_⟩
  · intro d hd
    rcases List.mem_cons.1 hd with rfl | hd
    · rfl
    · exact h9 d hd
  · rw [List.pairwise_cons]
    exact ⟨fun d hd h => h2 sl hcur d hd h.symm, h5⟩
  · intro d hd
    rcases List.mem_cons.1 hd with rfl | hd
    · exact h6 sl hcur
    · exact h8 d hd
  · intro p hp d hd
    rcases List.mem_cons.1 hd with rfl | hd
    · exact h1 sl hcur p hp
    · exact h3 p hp d hd

theorem step_dispatch_inv (s s' : St) (g : Option Nat) (hinv : Inv s)
    (hstep : step Cfg.code s (.dispatch g) = some s') : Inv s' := by
  simp only [step, Cfg.code] at hstep
  split at hstep
  · cases hstep
  · rename_i sl hcur
    split at hstep
    · cases hstep
    · obtain ⟨d1, d2, d3, d4⟩ := Inv_deliver s hinv sl hcur
      simp only [if_true] at hstep
      split at hstep
      · -- Get() makes a new array
        simp only [Option.some.injEq] at hstep; subst hstep
        refine ⟨?_, ?_, d4, hinv.poolDistinct, d2, ?_, ?_, ?_, ?_⟩
        · intro c hc p hp
          simp only [Option.some.injEq] at hc; subst hc
          exact Nat.ne_of_lt (hinv.poolLt p hp)
        · intro c hc d hd
          simp only [Option.some.injEq] at hc; subst hc
          exact Nat.ne_of_lt (d3 d hd)
        · intro c hc
          simp only [Option.some.injEq] at hc; subst hc
          simp
        · intro p hp; have := hinv.poolLt p hp; simp; omega
        · intro d hd; have := d3 d hd; simp; omega
        · intro d hd
          simp only [Deliv.now, cells_alloc_lt _ _ _ (d3 d hd)]
          exact d1 d hd
      · -- Get() returns the pooled slice number k
        rename_i k
        split at hstep
        · cases hstep
        · rename_i p hp
          simp only [Option.some.injEq] at hstep; subst hstep
          have hpm : p ∈ s.pool := List.mem_of_getElem? hp
          have hrest := pairwise_getElem?_eraseIdx (fun a b : Slice => a.arr ≠ b.arr)
            (fun a b h => Ne.symm h) s.pool hinv.poolDistinct k p hp
          refine ⟨?_, ?_, ?_, ?_, d2, ?_, ?_, d3, d1⟩
          · intro c hc q hq
            simp only [Option.some.injEq] at hc; subst hc
            exact Ne.symm (hrest q hq)
          · intro c hc d hd
            simp only [Option.some.injEq] at hc; subst hc
            exact Ne.symm (d4 p hpm d hd)
          · intro q hq d hd
            exact d4 q (List.mem_of_mem_eraseIdx hq) d hd
          · exact hinv.poolDistinct.sublist (List.eraseIdx_sublist _ _)
          · intro c hc
            simp only [Option.some.injEq] at hc; subst hc
            exact hinv.poolLt p hpm
          · intro q hq; exact hinv.poolLt q (List.mem_of_mem_eraseIdx hq)

theorem step_finish_inv (c : Cfg) (s s' : St) (k : Nat) (hinv : Inv s)
    (hstep : step c s (.finish k) = some s') : Inv s' := by
  simp only [step] at hstep
  split at hstep
  · cases hstep
  · rename_i d hd
    simp only [Option.some.injEq] at hstep; subst hstep
    obtain ⟨h1, h2, h3, h4, h5, h6, h7, h8, h9⟩ := hinv
    have hdm : d ∈ s.delivered := List.mem_of_getElem? hd
    have hrest := pairwise_getElem?_eraseIdx (fun a b : Deliv => a.s.arr ≠ b.s.arr)
      (fun a b h => Ne.symm h) s.delivered h5 k d hd
    refine ⟨?_, ?_, ?_, ?_, ?_, h6, ?_, ?_, ?_⟩
    · intro c hc p hp
      rcases List.mem_cons.1 hp with rfl | hp
      · exact h2 c hc d hdm
      · exact h1 c hc p hp
    · intro c hc e he
      exact h2 c hc e (List.mem_of_mem_eraseIdx he)
    · intro p hp e he
      rcases List.mem_cons.1 hp with rfl | hp
      · exact hrest e he
      · exact h3 p hp e (List.mem_of_mem_eraseIdx he)
    · rw [List.pairwise_cons]
      exact ⟨fun p hp => Ne.symm (h3 p hp d hdm), h4⟩
    · exact h5.sublist (List.eraseIdx_sublist _ _)
    · intro p hp
      rcases List.mem_cons.1 hp with rfl | hp
      · exact h8 d hdm
      · exact h7 p hp
    · intro e he; exact h8 e (List.mem_of_mem_eraseIdx he)
    · intro e he; exact h9 e (List.mem_of_mem_eraseIdx he)

theorem step_inv (s s' : St) (l : Label) (hinv : Inv s) (hstep : step Cfg.code s l = some s') : Inv s' := by
  cases l with
  | collect r n => exact step_collect_inv _ s s' r n hinv hstep
  | clear => exact step_clear_inv _ s s' hinv hstep
  | dispatch g => exact step_dispatch_inv s s' g hinv hstep
  | finish k => exact step_finish_inv _ s s' k hinv hstep

theorem run_inv (ls : List Label) (s s' : St) (hinv : Inv s) (h : run Cfg.code s ls = some s') : Inv s' := by
  induction ls generalizing s with
  | nil => simp only [run, Option.some.injEq] at h; rw [← h]; exact hinv
  | cons l ls ih =>
    simp only [run] at h
    cases hs : step Cfg.code s l with
    | none => simp [hs] at h
    | some s1 =>
      simp only [hs] at h
      exact ih s1 (step_inv s s1 l hinv hs) h

/-! ### abstraction to the id-only model `Own` (Model/ParserRun.lean) -/

open VaxisModel.Model.ParserRun (Own) in
/-- Forget cells, lengths and snapshots: who owns which array id. -/
def abs (s : St) : Own :=
  { cur := s.cur.map (·.arr), pool := s.pool.map (·.arr), held := s.delivered.map (·.s.arr),
    next := s.heap.length }

open VaxisModel.Model.ParserRun (OwnLabel) in
/-- The `Own` label a step of the array model corresponds to (in state `s`). -/
def absLabel (s : St) : Label → OwnLabel
  | .collect _ _ =>
    match s.cur with
    | none => .collect true
    | some sl => .collect (!decide (sl.len < (cells s.heap sl.arr).length))
  | .clear => .clear
  | .dispatch none => .dispatch none
  | .dispatch (some k) => .dispatch (some (s.pool[k]?.getD default).arr)
  | .finish k => .finish (s.delivered[k]?.getD default).s.arr

theorem map_eraseIdx_eq_erase {α : Type} (f : α → Nat) (l : List α)
    (hp : l.Pairwise (fun a b => f a ≠ f b)) (k : Nat) (x : α) (hk : l[k]? = some x) :
    (l.eraseIdx k).map f = (l.map f).erase (f x) := by
  induction l generalizing k with
  | nil => simp at hk
  | cons a l ih =>
    rw [List.pairwise_cons] at hp
    cases k with
    | zero =>
      simp only [List.getElem?_cons_zero, Option.some.injEq] at hk
      subst hk
      simp
    | succ k =>
      simp only [List.getElem?_cons_succ] at hk
      have hne : f a ≠ f x := hp.1 x (List.mem_of_getElem? hk)
      simp only [List.eraseIdx_cons_succ, List.map_cons]
      rw [List.erase_cons_tail (by simpa using hne), ih hp.2 k hk]

open VaxisModel.Model.ParserRun (Own OwnLabel) in
theorem collect_refines_Own (s s' : St) (r n : Nat)
    (hstep : step Cfg.code s (.collect r n) = some s') :
    (abs s).step (absLabel s (.collect r n)) = some (abs s', (abs s').cur) := by
  simp only [step] at hstep
  split at hstep
  · rename_i hcur
    split at hstep
    · simp only [Option.some.injEq] at hstep; subst hstep
      simp [Own.step, abs, absLabel, hcur]
    · cases hstep
  · rename_i sl hcur
    split at hstep
    · rename_i hroom
      simp only [Option.some.injEq] at hstep; subst hstep
      simp [Own.step, abs, absLabel, hcur, hroom, length_write]
    · rename_i hroom
      split at hstep
      · simp only [Option.some.injEq] at hstep; subst hstep
        simp [Own.step, abs, absLabel, hcur, hroom]
      · cases hstep

open VaxisModel.Model.ParserRun (Own OwnLabel) in
theorem dispatch_refines_Own (s s' : St) (g : Option Nat) (hinv : Inv s)
    (hstep : step Cfg.code s (.dispatch g) = some s') :
    (abs s).step (absLabel s (.dispatch g)) = some (abs s', none) := by
  simp only [step, Cfg.code] at hstep
  split at hstep
  · cases hstep
  · rename_i sl hcur
    split at hstep
    · cases hstep
    · simp only [if_true] at hstep
      split at hstep
      · simp only [Option.some.injEq] at hstep; subst hstep
        simp [Own.step, abs, absLabel, hcur]
      · rename_i k
        split at hstep
        · cases hstep
        · rename_i p hp
          simp only [Option.some.injEq] at hstep; subst hstep
          have hmem : p.arr ∈ s.pool.map (·.arr) := List.mem_map_of_mem (List.mem_of_getElem? hp)
          have he := map_eraseIdx_eq_erase (fun x : Slice => x.arr) s.pool hinv.poolDistinct k p hp
          simp [Own.step, abs, absLabel, hcur, hp, hmem, he]

open VaxisModel.Model.ParserRun (Own OwnLabel) in
theorem finish_refines_Own (s s' : St) (k : Nat) (hinv : Inv s)
    (hstep : step Cfg.code s (.finish k) = some s') :
    (abs s).step (absLabel s (.finish k)) = some (abs s', none) := by
  simp only [step] at hstep
  split at hstep
  · cases hstep
  · rename_i d hd
    simp only [Option.some.injEq] at hstep; subst hstep
    have hmem : d.s.arr ∈ s.delivered.map (·.s.arr) := List.mem_map_of_mem (List.mem_of_getElem? hd)
    have he := map_eraseIdx_eq_erase (fun x : Deliv => x.s.arr) s.delivered hinv.delDistinct k d hd
    simp [Own.step, abs, absLabel, hd, hmem, he]

open VaxisModel.Model.ParserRun (Own OwnLabel) in
/-- Every step of the array model is the corresponding step of `Own` on the abstraction; the
    array `Own` reports as written is the parser's array after the step. -/
theorem step_refines_Own (s s' : St) (l : Label) (hinv : Inv s) (hstep : step Cfg.code s l = some s') :
    ∃ w, (abs s).step (absLabel s l) = some (abs s', w) ∧ (w ≠ none → w = (abs s').cur) := by
  cases l with
  | collect r n => exact ⟨_, collect_refines_Own s s' r n hstep, fun _ => rfl⟩
  | clear =>
    simp only [step, Option.some.injEq] at hstep; subst hstep
    refine ⟨none, ?_, fun h => absurd rfl h⟩
    cases hc : s.cur <;> simp [Own.step, abs, absLabel, hc]
  | dispatch g => exact ⟨none, dispatch_refines_Own s s' g hinv hstep, fun h => absurd rfl h⟩
  | finish k => exact ⟨none, finish_refines_Own s s' k hinv hstep, fun h => absurd rfl h⟩

/-- The `Own` labels of a run of the array model. -/
def absRun : St → List Label → List VaxisModel.Model.ParserRun.OwnLabel
  | _, [] => []
  | s, l :: ls =>
    absLabel s l :: (match step Cfg.code s l with
                     | none => []
                     | some s' => absRun s' ls)

open VaxisModel.Model.ParserRun (Own OwnLabel) in
theorem run_refines_Own (ls : List Label) (s s' : St) (hinv : Inv s) (h : run Cfg.code s ls = some s') :
    (abs s).run (absRun s ls) = some (abs s') := by
  induction ls generalizing s with
  | nil => simp only [run, Option.some.injEq] at h; subst h; rfl
  | cons l ls ih =>
    simp only [run] at h
    cases hs : step Cfg.code s l with
    | none => simp [hs] at h
    | some s1 =>
      simp only [hs] at h
      obtain ⟨w, hw, _⟩ := step_refines_Own s s1 l hinv hs
      simp only [absRun, hs, Own.run, hw]
      exact ih s1 (step_inv s s1 l hinv hs) h

/-! ### slices stay within capacity (the model's slices are valid Go slices) -/

def lenOk (h : Heap) (sl : Slice) : Prop := sl.len ≤ (cells h sl.arr).length

theorem lenOk_alloc (h : Heap) (c : List Nat) (sl : Slice) (hlt : sl.arr < h.length) (hok : lenOk h sl) :
    lenOk (h ++ [c]) sl := by
  simpa only [lenOk, cells_alloc_lt _ _ _ hlt] using hok

theorem lenOk_write (h : Heap) (a i v : Nat) (sl : Slice) (hne : a ≠ sl.arr) (hok : lenOk h sl) :
    lenOk (write h a i v) sl := by
  simpa only [lenOk, cells_write_ne _ _ _ _ _ hne] using hok

theorem length_grow {α : Type} [Inhabited α] (old : List α) (len : Nat) (r : α) (newcap : Nat) (h1 : len ≤ old.length) (h2 : len + 1 ≤ newcap) :
    (grow old len r newcap).length = newcap := by
  simp only [grow, List.length_append, List.length_take, List.length_cons, List.length_nil,
    List.length_replicate]
  omega

structure Cap (s : St) : Prop where
  cur : ∀ c, s.cur = some c → lenOk s.heap c
  pool : ∀ p ∈ s.pool, lenOk s.heap p
  del : ∀ d ∈ s.delivered, lenOk s.heap d.s

theorem Cap_init : Cap St.init := by
  constructor <;> simp [St.init]

theorem Cap_alloc (s : St) (hinv : Inv s) (hcap : Cap s) (c : List Nat) (n : Nat) (hn : n ≤ c.length) :
    Cap { s with heap := s.heap ++ [c], cur := some ⟨s.heap.length, n⟩ } := by
  refine ⟨?_, ?_, ?_⟩
  · intro x hx
    simp only [Option.some.injEq] at hx; subst hx
    simpa only [lenOk, cells_alloc_eq] using hn
  · intro p hp; exact lenOk_alloc _ _ _ (hinv.poolLt p hp) (hcap.pool p hp)
  · intro d hd; exact lenOk_alloc _ _ _ (hinv.delLt d hd) (hcap.del d hd)

theorem step_collect_cap (c : Cfg) (s s' : St) (r newcap : Nat) (hinv : Inv s) (hcap : Cap s)
    (hstep : step c s (.collect r newcap) = some s') : Cap s' := by
  simp only [step] at hstep
  split at hstep
  · split at hstep
    · rename_i hn
      simp only [Option.some.injEq] at hstep; subst hstep
      refine Cap_alloc s hinv hcap _ _ ?_
      rw [length_grow _ _ _ _ (Nat.zero_le _) hn]; exact hn
    · cases hstep
  · rename_i sl hcur
    split at hstep
    · rename_i hroom
      simp only [Option.some.injEq] at hstep; subst hstep
      refine ⟨?_, ?_, ?_⟩
      · intro x hx
        simp only [Option.some.injEq] at hx; subst hx
        simp only [lenOk, cells_write_eq _ _ _ _ (hinv.curLt sl hcur), List.length_set]
        exact hroom
      · intro p hp
        exact lenOk_write _ _ _ _ _ (fun h => hinv.curPool sl hcur p hp h.symm) (hcap.pool p hp)
      · intro d hd
        exact lenOk_write _ _ _ _ _ (fun h => hinv.curDel sl hcur d hd h.symm) (hcap.del d hd)
    · split at hstep
      · rename_i hn
        simp only [Option.some.injEq] at hstep; subst hstep
        refine Cap_alloc s hinv hcap _ _ ?_
        rw [length_grow _ _ _ _ (hcap.cur sl hcur) hn]; exact hn
      · cases hstep

theorem step_cap (s s' : St) (l : Label) (hinv : Inv s) (hcap : Cap s)
    (hstep : step Cfg.code s l = some s') : Cap s' := by
  cases l with
  | collect r n => exact step_collect_cap _ s s' r n hinv hcap hstep
  | clear =>
    simp only [step, Option.some.injEq] at hstep; subst hstep
    refine ⟨?_, hcap.pool, hcap.del⟩
    intro x hx
    simp only [Option.map_eq_some_iff] at hx
    obtain ⟨sl, _, rfl⟩ := hx
    exact Nat.zero_le _
  | dispatch g =>
    simp only [step, Cfg.code] at hstep
    split at hstep
    · cases hstep
    · rename_i sl hcur
      split at hstep
      · cases hstep
      · simp only [if_true] at hstep
        have hdel : ∀ d ∈ (⟨sl, (cells s.heap sl.arr).take sl.len⟩ :: s.delivered : List Deliv),
            lenOk s.heap d.s ∧ d.s.arr < s.heap.length := by
          intro d hd
          rcases List.mem_cons.1 hd with rfl | hd
          · exact ⟨hcap.cur sl hcur, hinv.curLt sl hcur⟩
          · exact ⟨hcap.del d hd, hinv.delLt d hd⟩
        split at hstep
        · simp only [Option.some.injEq] at hstep; subst hstep
          refine ⟨?_, ?_, ?_⟩
          · intro x hx
            simp only [Option.some.injEq] at hx; subst hx
            exact Nat.zero_le _
          · intro p hp; exact lenOk_alloc _ _ _ (hinv.poolLt p hp) (hcap.pool p hp)
          · intro d hd; exact lenOk_alloc _ _ _ (hdel d hd).2 (hdel d hd).1
        · split at hstep
          · cases hstep
          · rename_i p hp
            simp only [Option.some.injEq] at hstep; subst hstep
            refine ⟨?_, ?_, fun d hd => (hdel d hd).1⟩
            · intro x hx
              simp only [Option.some.injEq] at hx; subst hx
              exact hcap.pool p (List.mem_of_getElem? hp)
            · intro q hq; exact hcap.pool q (List.mem_of_mem_eraseIdx hq)
  | finish k =>
    simp only [step] at hstep
    split at hstep
    · cases hstep
    · rename_i d hd
      simp only [Option.some.injEq] at hstep; subst hstep
      refine ⟨hcap.cur, ?_, fun e he => hcap.del e (List.mem_of_mem_eraseIdx he)⟩
      intro p hp
      rcases List.mem_cons.1 hp with rfl | hp
      · exact hcap.del d (List.mem_of_getElem? hd)
      · exact hcap.pool p hp

theorem run_cap (ls : List Label) (s s' : St) (hinv : Inv s) (hcap : Cap s)
    (h : run Cfg.code s ls = some s') : Cap s' := by
  induction ls generalizing s with
  | nil => simp only [run, Option.some.injEq] at h; rw [← h]; exact hcap
  | cons l ls ih =>
    simp only [run] at h
    cases hs : step Cfg.code s l with
    | none => simp [hs] at h
    | some s1 =>
      simp only [hs] at h
      exact ih s1 (step_inv s s1 l hinv hs) (step_cap s s1 l hinv hcap hs) h

end VaxisModel.Lemmas.ParserPools
