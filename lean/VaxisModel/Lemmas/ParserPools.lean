/-
C08 (deliverable B) — helper lemmas for the pool model over explicit backing arrays
(Model/ParserPools.lean): heap lemmas, the ownership invariant and its preservation.
-/
import VaxisModel.Model.ParserPools
import VaxisModel.Model.ParserRun

namespace VaxisModel.Lemmas.ParserPools
open VaxisModel.Model.ParserPools

/-! ### heap -/

theorem cells_write_ne {α : Type} (h : List (List α)) (a b i : Nat) (v : α) (hab : a ≠ b) :
    cells (write h a i v) b = cells h b := by
  simp only [cells, write, List.getElem?_set_ne hab]

theorem cells_write_eq {α : Type} (h : List (List α)) (a i : Nat) (v : α) (ha : a < h.length) :
    cells (write h a i v) a = (cells h a).set i v := by
  simp only [cells, write, List.getElem?_set_self ha, Option.getD_some]

theorem cells_alloc_lt {α : Type} (h : List (List α)) (c : List α) (b : Nat) (hb : b < h.length) :
    cells (h ++ [c]) b = cells h b := by
  simp only [cells, List.getElem?_append_left hb]

theorem cells_alloc_eq {α : Type} (h : List (List α)) (c : List α) : cells (h ++ [c]) h.length = c := by
  simp [cells]

theorem length_write {α : Type} (h : List (List α)) (a i : Nat) (v : α) :
    (write h a i v).length = h.length := by
  simp [write]

/-! ### lists -/

/-- The element taken out at index `k` is related to everything that stays. -/
theorem pairwise_getElem?_eraseIdx {α : Type} (R : α → α → Prop) (hsym : ∀ a b, R a b → R b a)
    (l : List α) (hp : l.Pairwise R) (k : Nat) (x : α) (hk : l[k]? = some x) :
    ∀ y ∈ l.eraseIdx k, R x y := by
  induction l generalizing k with
  | nil => simp at hk
  | cons a l ih =>
    rw [List.pairwise_cons] at hp
    cases k with
    | zero =>
      simp only [List.getElem?_cons_zero, Option.some.injEq] at hk
      subst hk
      simpa using hp.1
    | succ k =>
      simp only [List.getElem?_cons_succ] at hk
      intro y hy
      simp only [List.eraseIdx_cons_succ, List.mem_cons] at hy
      rcases hy with rfl | hy
      · exact hsym _ _ (hp.1 x (List.mem_of_getElem? hk))
      · exact ih hp.2 k hk y hy

/-! ### the ownership invariant -/

/-- Every backing array has at most one owner among: the parser (`cur`), the pool, the delivered
    sequences; all of them are allocated; and every delivered sequence reads what it read at delivery. -/
structure Inv (s : St) : Prop where
  curPool : ∀ c, s.cur = some c → ∀ p ∈ s.pool, p.arr ≠ c.arr
  curDel : ∀ c, s.cur = some c → ∀ d ∈ s.delivered, d.s.arr ≠ c.arr
  poolDel : ∀ p ∈ s.pool, ∀ d ∈ s.delivered, p.arr ≠ d.s.arr
  poolDistinct : s.pool.Pairwise (fun a b => a.arr ≠ b.arr)
  delDistinct : s.delivered.Pairwise (fun a b => a.s.arr ≠ b.s.arr)
  curLt : ∀ c, s.cur = some c → c.arr < s.heap.length
  poolLt : ∀ p ∈ s.pool, p.arr < s.heap.length
  delLt : ∀ d ∈ s.delivered, d.s.arr < s.heap.length
  intact : ∀ d ∈ s.delivered, d.now s.heap = d.snap

theorem Inv_init : Inv St.init := by
  constructor <;> simp [St.init]

/-- Allocation keeps the invariant when the new array becomes the parser's. -/
theorem Inv_alloc (s : St) (hinv : Inv s) (c : List Nat) (n : Nat) :
    Inv { s with heap := s.heap ++ [c], cur := some ⟨s.heap.length, n⟩ } := by
  obtain ⟨h1, h2, h3, h4, h5, h6, h7, h8, h9⟩ := hinv
  refine ⟨?_, ?_, h3, h4, h5, ?_, ?_, ?_, ?_⟩
  · intro c hc p hp
    simp only [Option.some.injEq] at hc; subst hc
    exact Nat.ne_of_lt (h7 p hp)
  · intro c hc d hd
    simp only [Option.some.injEq] at hc; subst hc
    exact Nat.ne_of_lt (h8 d hd)
  · intro c hc
    simp only [Option.some.injEq] at hc; subst hc
    simp
  · intro p hp; have := h7 p hp; simp; omega
  · intro d hd; have := h8 d hd; simp; omega
  · intro d hd
    simp only [Deliv.now, cells_alloc_lt _ _ _ (h8 d hd)]
    exact h9 d hd

theorem step_collect_inv (c : Cfg) (s s' : St) (r newcap : Nat) (hinv : Inv s)
    (hstep : step c s (.collect r newcap) = some s') : Inv s' := by
  simp only [step] at hstep
  split at hstep
  · split at hstep
    · simp only [Option.some.injEq] at hstep; subst hstep
      exact Inv_alloc s hinv _ _
    · cases hstep
  · rename_i sl hcur
    split at hstep
    · simp only [Option.some.injEq] at hstep; subst hstep
      obtain ⟨h1, h2, h3, h4, h5, h6, h7, h8, h9⟩ := hinv
      refine ⟨?_, ?_, h3, h4, h5, ?_, ?_, ?_, ?_⟩
      · intro c hc p hp
        simp only [Option.some.injEq] at hc; subst hc
        exact h1 sl hcur p hp
      · intro c hc d hd
        simp only [Option.some.injEq] at hc; subst hc
        exact h2 sl hcur d hd
      · intro c hc
        simp only [Option.some.injEq] at hc; subst hc
        simpa [length_write] using h6 sl hcur
      · intro p hp; simpa [length_write] using h7 p hp
      · intro d hd; simpa [length_write] using h8 d hd
      · intro d hd
        have hne : sl.arr ≠ d.s.arr := fun h => h2 sl hcur d hd h.symm
        simp only [Deliv.now, cells_write_ne _ _ _ _ _ hne]
        exact h9 d hd
    · split at hstep
      · simp only [Option.some.injEq] at hstep; subst hstep
        exact Inv_alloc s hinv _ _
      · cases hstep

theorem step_clear_inv (c : Cfg) (s s' : St) (hinv : Inv s)
    (hstep : step c s .clear = some s') : Inv s' := by
  simp only [step, Option.some.injEq] at hstep; subst hstep
  obtain ⟨h1, h2, h3, h4, h5, h6, h7, h8, h9⟩ := hinv
  refine ⟨?_, ?_, h3, h4, h5, ?_, h7, h8, h9⟩
  · intro c hc p hp
    simp only [Option.map_eq_some_iff] at hc
    obtain ⟨sl, hsl, rfl⟩ := hc
    exact h1 sl hsl p hp
  · intro c hc d hd
    simp only [Option.map_eq_some_iff] at hc
    obtain ⟨sl, hsl, rfl⟩ := hc
    exact h2 sl hsl d hd
  · intro c hc
    simp only [Option.map_eq_some_iff] at hc
    obtain ⟨sl, hsl, rfl⟩ := hc
    exact h6 sl hsl

/-- Handing the parser's array to a delivered sequence (ownership moves from `cur` to `delivered`). -/
theorem Inv_deliver (s : St) (hinv : Inv s) (sl : Slice) (hcur : s.cur = some sl) :
    (∀ d ∈ (⟨sl, (cells s.heap sl.arr).take sl.len⟩ :: s.delivered : List Deliv), d.now s.heap = d.snap) ∧
    (⟨sl, (cells s.heap sl.arr).take sl.len⟩ :: s.delivered : List Deliv).Pairwise
      (fun a b => a.s.arr ≠ b.s.arr) ∧
    (∀ d ∈ (⟨sl, (cells s.heap sl.arr).take sl.len⟩ :: s.delivered : List Deliv), d.s.arr < s.heap.length) ∧
    (∀ p ∈ s.pool, ∀ d ∈ (⟨sl, (cells s.heap sl.arr).take sl.len⟩ :: s.delivered : List Deliv),
      p.arr ≠ d.s.arr) := by
  obtain ⟨h1, h2, h3, h4, h5, h6, h7, h8, h9⟩ := hinv
  refine ⟨?_, ?_, ?_, ?_⟩
  · intro d hd
    rcases List.mem_cons.1 hd with rfl | hd
    · rfl
    · exact h9 d hd
  · rw [List.pairwise_cons]
    exact ⟨fun d hd h => h2 sl hcur d hd h.symm, h5⟩
  · intro d hd
    rcases List.mem_cons.1 hd with rfl | hd
    · exact h6 sl hcur
    · exact h8 d hd
  · intro p hp d hd
    rcases List.mem_cons.1 hd with rfl | hd
    · exact h1 sl hcur p hp
    · exact h3 p hp d hd

theorem step_dispatch_inv (s s' : St) (g : Option Nat) (hinv : Inv s)
    (hstep : step Cfg.code s (.dispatch g) = some s') : Inv s' := by
  simp only [step, Cfg.code] at hstep
  split at hstep
  · cases hstep
  · rename_i sl hcur
    split at hstep
    · cases hstep
    · obtain ⟨d1, d2, d3, d4⟩ := Inv_deliver s hinv sl hcur
      simp only [if_true] at hstep
      split at hstep
      · -- Get() makes a new array
        simp only [Option.some.injEq] at hstep; subst hstep
        refine ⟨?_, ?_, d4, hinv.poolDistinct, d2, ?_, ?_, ?_, ?_⟩
        · intro c hc p hp
          simp only [Option.some.injEq] at hc; subst hc
          exact Nat.ne_of_lt (hinv.poolLt p hp)
        · intro c hc d hd
          simp only [Option.some.injEq] at hc; subst hc
          exact Nat.ne_of_lt (d3 d hd)
        · intro c hc
          simp only [Option.some.injEq] at hc; subst hc
          simp
        · intro p hp; have := hinv.poolLt p hp; simp; omega
        · intro d hd; have := d3 d hd; simp; omega
        · intro d hd
          simp only [Deliv.now, cells_alloc_lt _ _ _ (d3 d hd)]
          exact d1 d hd
      · -- Get() returns the pooled slice number k
        rename_i k
        split at hstep
        · cases hstep
        · rename_i p hp
          simp only [Option.some.injEq] at hstep; subst hstep
          have hpm : p ∈ s.pool := List.mem_of_getElem? hp
          have hrest := pairwise_getElem?_eraseIdx (fun a b : Slice => a.arr ≠ b.arr)
            (fun a b h => Ne.symm h) s.pool hinv.poolDistinct k p hp
          refine ⟨?_, ?_, ?_, ?_, d2, ?_, ?_, d3, d1⟩
          · intro c hc q hq
            simp only [Option.some.injEq] at hc; subst hc
            exact Ne.symm (hrest q hq)
          · intro c hc d hd
            simp only [Option.some.injEq] at hc; subst hc
            exact Ne.symm (d4 p hpm d hd)
          · intro q hq d hd
            exact d4 q (List.mem_of_mem_eraseIdx hq) d hd
          · exact hinv.poolDistinct.sublist (List.eraseIdx_sublist _ _)
          · intro c hc
            simp only [Option.some.injEq] at hc; subst hc
            exact hinv.poolLt p hpm
          · intro q hq; exact hinv.poolLt q (List.mem_of_mem_eraseIdx hq)

theorem step_finish_inv (s s' : St) (k : Nat) (hinv : Inv s)
    (hstep : step Cfg.code s (.finish k) = some s') : Inv s' := by
  simp only [step, Cfg.code, Bool.false_eq_true, if_false] at hstep
  split at hstep
  · cases hstep
  · rename_i d hd
    simp only [Option.some.injEq] at hstep; subst hstep
    obtain ⟨h1, h2, h3, h4, h5, h6, h7, h8, h9⟩ := hinv
    have hdm : d ∈ s.delivered := List.mem_of_getElem? hd
    have hrest := pairwise_getElem?_eraseIdx (fun a b : Deliv => a.s.arr ≠ b.s.arr)
      (fun a b h => Ne.symm h) s.delivered h5 k d hd
    refine ⟨?_, ?_, ?_, ?_, ?_, h6, ?_, ?_, ?_⟩
    · intro c hc p hp
      rcases List.mem_cons.1 hp with rfl | hp
      · exact h2 c hc d hdm
      · exact h1 c hc p hp
    · intro c hc e he
      exact h2 c hc e (List.mem_of_mem_eraseIdx he)
    · intro p hp e he
      rcases List.mem_cons.1 hp with rfl | hp
      · exact hrest e he
      · exact h3 p hp e (List.mem_of_mem_eraseIdx he)
    · rw [List.pairwise_cons]
      exact ⟨fun p hp => Ne.symm (h3 p hp d hdm), h4⟩
    · exact h5.sublist (List.eraseIdx_sublist _ _)
    · intro p hp
      rcases List.mem_cons.1 hp with rfl | hp
      · exact h8 d hdm
      · exact h7 p hp
    · intro e he; exact h8 e (List.mem_of_mem_eraseIdx he)
    · intro e he; exact h9 e (List.mem_of_mem_eraseIdx he)

theorem step_inv (s s' : St) (l : Label) (hinv : Inv s) (hstep : step Cfg.code s l = some s') : Inv s' := by
  cases l with
  | collect r n => exact step_collect_inv _ s s' r n hinv hstep
  | clear => exact step_clear_inv _ s s' hinv hstep
  | dispatch g => exact step_dispatch_inv s s' g hinv hstep
  | finish k => exact step_finish_inv s s' k hinv hstep

theorem run_inv (ls : List Label) (s s' : St) (hinv : Inv s) (h : run Cfg.code s ls = some s') : Inv s' := by
  induction ls generalizing s with
  | nil => simp only [run, Option.some.injEq] at h; rw [← h]; exact hinv
  | cons l ls ih =>
    simp only [run] at h
    cases hs : step Cfg.code s l with
    | none => simp [hs] at h
    | some s1 =>
      simp only [hs] at h
      exact ih s1 (step_inv s s1 l hinv hs) h

/-! ### abstraction to the id-only model `Own` (Model/ParserRun.lean) -/

open VaxisModel.Model.ParserRun (Own) in
/-- Forget cells, lengths and snapshots: who owns which array id. -/
def abs (s : St) : Own :=
  { cur := s.cur.map (·.arr), pool := s.pool.map (·.arr), held := s.delivered.map (·.s.arr),
    next := s.heap.length }

open VaxisModel.Model.ParserRun (OwnLabel) in
/-- The `Own` label a step of the array model corresponds to (in state `s`). -/
def absLabel (s : St) : Label → OwnLabel
  | .collect _ _ =>
    match s.cur with
    | none => .collect true
    | some sl => .collect (!decide (sl.len < (cells s.heap sl.arr).length))
  | .clear => .clear
  | .dispatch none => .dispatch none
  | .dispatch (some k) => .dispatch (some (s.pool[k]?.getD default).arr)
  | .finish k => .finish (s.delivered[k]?.getD default).s.arr

theorem map_eraseIdx_eq_erase {α : Type} (f : α → Nat) (l : List α)
    (hp : l.Pairwise (fun a b => f a ≠ f b)) (k : Nat) (x : α) (hk : l[k]? = some x) :
    (l.eraseIdx k).map f = (l.map f).erase (f x) := by
  induction l generalizing k with
  | nil => simp at hk
  | cons a l ih =>
    rw [List.pairwise_cons] at hp
    cases k with
    | zero =>
      simp only [List.getElem?_cons_zero, Option.some.injEq] at hk
      subst hk
      simp
    | succ k =>
      simp only [List.getElem?_cons_succ] at hk
      have hne : f a ≠ f x := hp.1 x (List.mem_of_getElem? hk)
      simp only [List.eraseIdx_cons_succ, List.map_cons]
      rw [List.erase_cons_tail (by simpa using hne), ih hp.2 k hk]

open VaxisModel.Model.ParserRun (Own OwnLabel) in
theorem collect_refines_Own (s s' : St) (r n : Nat)
    (hstep : step Cfg.code s (.collect r n) = some s') :
    (abs s).step (absLabel s (.collect r n)) = some (abs s', (abs s').cur) := by
  simp only [step] at hstep
  split at hstep
  · rename_i hcur
    split at hstep
    · simp only [Option.some.injEq] at hstep; subst hstep
      simp [Own.step, abs, absLabel, hcur]
    · cases hstep
  · rename_i sl hcur
    split at hstep
    · rename_i hroom
      simp only [Option.some.injEq] at hstep; subst hstep
      simp [Own.step, abs, absLabel, hcur, hroom, length_write]
    · rename_i hroom
      split at hstep
      · simp only [Option.some.injEq] at hstep; subst hstep
        simp [Own.step, abs, absLabel, hcur, hroom]
      · cases hstep

open VaxisModel.Model.ParserRun (Own OwnLabel) in
theorem dispatch_refines_Own (s s' : St) (g : Option Nat) (hinv : Inv s)
    (hstep : step Cfg.code s (.dispatch g) = some s') :
    (abs s).step (absLabel s (.dispatch g)) = some (abs s', none) := by
  simp only [step, Cfg.code] at hstep
  split at hstep
  · cases hstep
  · rename_i sl hcur
    split at hstep
    · cases hstep
    · simp only [if_true] at hstep
      split at hstep
      · simp only [Option.some.injEq] at hstep; subst hstep
        simp [Own.step, abs, absLabel, hcur]
      · rename_i k
        split at hstep
        · cases hstep
        · rename_i p hp
          simp only [Option.some.injEq] at hstep; subst hstep
          have hmem : p.arr ∈ s.pool.map (·.arr) := List.mem_map_of_mem (List.mem_of_getElem? hp)
          have he := map_eraseIdx_eq_erase (fun x : Slice => x.arr) s.pool hinv.poolDistinct k p hp
          simp [Own.step, abs, absLabel, hcur, hp, hmem, he]

open VaxisModel.Model.ParserRun (Own OwnLabel) in
theorem finish_refines_Own (s s' : St) (k : Nat) (hinv : Inv s)
    (hstep : step Cfg.code s (.finish k) = some s') :
    (abs s).step (absLabel s (.finish k)) = some (abs s', none) := by
  simp only [step, Cfg.code, Bool.false_eq_true, if_false] at hstep
  split at hstep
  · cases hstep
  · rename_i d hd
    simp only [Option.some.injEq] at hstep; subst hstep
    have hmem : d.s.arr ∈ s.delivered.map (·.s.arr) := List.mem_map_of_mem (List.mem_of_getElem? hd)
    have he := map_eraseIdx_eq_erase (fun x : Deliv => x.s.arr) s.delivered hinv.delDistinct k d hd
    simp [Own.step, abs, absLabel, hd, hmem, he]

open VaxisModel.Model.ParserRun (Own OwnLabel) in
/-- Every step of the array model is the corresponding step of `Own` on the abstraction; the
    array `Own` reports as written is the parser's array after the step. -/
theorem step_refines_Own (s s' : St) (l : Label) (hinv : Inv s) (hstep : step Cfg.code s l = some s') :
    ∃ w, (abs s).step (absLabel s l) = some (abs s', w) ∧ (w ≠ none → w = (abs s').cur) := by
  cases l with
  | collect r n => exact ⟨_, collect_refines_Own s s' r n hstep, fun _ => rfl⟩
  | clear =>
    simp only [step, Option.some.injEq] at hstep; subst hstep
    refine ⟨none, ?_, fun h => absurd rfl h⟩
    cases hc : s.cur <;> simp [Own.step, abs, absLabel, hc]
  | dispatch g => exact ⟨none, dispatch_refines_Own s s' g hinv hstep, fun h => absurd rfl h⟩
  | finish k => exact ⟨none, finish_refines_Own s s' k hinv hstep, fun h => absurd rfl h⟩

/-- The `Own` labels of a run of the array model. -/
def absRun : St → List Label → List VaxisModel.Model.ParserRun.OwnLabel
  | _, [] => []
  | s, l :: ls =>
    absLabel s l :: (match step Cfg.code s l with
                     | none => []
                     | some s' => absRun s' ls)

open VaxisModel.Model.ParserRun (Own OwnLabel) in
theorem run_refines_Own (ls : List Label) (s s' : St) (hinv : Inv s) (h : run Cfg.code s ls = some s') :
    (abs s).run (absRun s ls) = some (abs s') := by
  induction ls generalizing s with
  | nil => simp only [run, Option.some.injEq] at h; subst h; rfl
  | cons l ls ih =>
    simp only [run] at h
    cases hs : step Cfg.code s l with
    | none => simp [hs] at h
    | some s1 =>
      simp only [hs] at h
      obtain ⟨w, hw, _⟩ := step_refines_Own s s1 l hinv hs
      simp only [absRun, hs, Own.run, hw]
      exact ih s1 (step_inv s s1 l hinv hs) h

/-! ### slices stay within capacity (the model's slices are valid Go slices) -/

def lenOk (h : Heap) (sl : Slice) : Prop := sl.len ≤ (cells h sl.arr).length

theorem lenOk_alloc (h : Heap) (c : List Nat) (sl : Slice) (hlt : sl.arr < h.length) (hok : lenOk h sl) :
    lenOk (h ++ [c]) sl := by
  simpa only [lenOk, cells_alloc_lt _ _ _ hlt] using hok

theorem lenOk_write (h : Heap) (a i v : Nat) (sl : Slice) (hne : a ≠ sl.arr) (hok : lenOk h sl) :
    lenOk (write h a i v) sl := by
  simpa only [lenOk, cells_write_ne _ _ _ _ _ hne] using hok

theorem length_grow {α : Type} [Inhabited α] (old : List α) (len : Nat) (r : α) (newcap : Nat) (h1 : len ≤ old.length) (h2 : len + 1 ≤ newcap) :
    (grow old len r newcap).length = newcap := by
  simp only [grow, List.length_append, List.length_take, List.length_cons, List.length_nil,
    List.length_replicate]
  omega

structure Cap (s : St) : Prop where
  cur : ∀ c, s.cur = some c → lenOk s.heap c
  pool : ∀ p ∈ s.pool, lenOk s.heap p
  del : ∀ d ∈ s.delivered, lenOk s.heap d.s

theorem Cap_init : Cap St.init := by
  constructor <;> simp [St.init]

theorem Cap_alloc (s : St) (hinv : Inv s) (hcap : Cap s) (c : List Nat) (n : Nat) (hn : n ≤ c.length) :
    Cap { s with heap := s.heap ++ [c], cur := some ⟨s.heap.length, n⟩ } := by
  refine ⟨?_, ?_, ?_⟩
  · intro x hx
    simp only [Option.some.injEq] at hx; subst hx
    simpa only [lenOk, cells_alloc_eq] using hn
  · intro p hp; exact lenOk_alloc _ _ _ (hinv.poolLt p hp) (hcap.pool p hp)
  · intro d hd; exact lenOk_alloc _ _ _ (hinv.delLt d hd) (hcap.del d hd)

theorem step_collect_cap (c : Cfg) (s s' : St) (r newcap : Nat) (hinv : Inv s) (hcap : Cap s)
    (hstep : step c s (.collect r newcap) = some s') : Cap s' := by
  simp only [step] at hstep
  split at hstep
  · split at hstep
    · rename_i hn
      simp only [Option.some.injEq] at hstep; subst hstep
      refine Cap_alloc s hinv hcap _ _ ?_
      rw [length_grow _ _ _ _ (Nat.zero_le _) hn]; exact hn
    · cases hstep
  · rename_i sl hcur
    split at hstep
    · rename_i hroom
      simp only [Option.some.injEq] at hstep; subst hstep
      refine ⟨?_, ?_, ?_⟩
      · intro x hx
        simp only [Option.some.injEq] at hx; subst hx
        simp only [lenOk, cells_write_eq _ _ _ _ (hinv.curLt sl hcur), List.length_set]
        exact hroom
      · intro p hp
        exact lenOk_write _ _ _ _ _ (fun h => hinv.curPool sl hcur p hp h.symm) (hcap.pool p hp)
      · intro d hd
        exact lenOk_write _ _ _ _ _ (fun h => hinv.curDel sl hcur d hd h.symm) (hcap.del d hd)
    · split at hstep
      · rename_i hn
        simp only [Option.some.injEq] at hstep; subst hstep
        refine Cap_alloc s hinv hcap _ _ ?_
        rw [length_grow _ _ _ _ (hcap.cur sl hcur) hn]; exact hn
      · cases hstep

theorem step_cap (s s' : St) (l : Label) (hinv : Inv s) (hcap : Cap s)
    (hstep : step Cfg.code s l = some s') : Cap s' := by
  cases l with
  | collect r n => exact step_collect_cap _ s s' r n hinv hcap hstep
  | clear =>
    simp only [step, Option.some.injEq] at hstep; subst hstep
    refine ⟨?_, hcap.pool, hcap.del⟩
    intro x hx
    simp only [Option.map_eq_some_iff] at hx
    obtain ⟨sl, _, rfl⟩ := hx
    exact Nat.zero_le _
  | dispatch g =>
    simp only [step, Cfg.code] at hstep
    split at hstep
    · cases hstep
    · rename_i sl hcur
      split at hstep
      · cases hstep
      · simp only [if_true] at hstep
        have hdel : ∀ d ∈ (⟨sl, (cells s.heap sl.arr).take sl.len⟩ :: s.delivered : List Deliv),
            lenOk s.heap d.s ∧ d.s.arr < s.heap.length := by
          intro d hd
          rcases List.mem_cons.1 hd with rfl | hd
          · exact ⟨hcap.cur sl hcur, hinv.curLt sl hcur⟩
          · exact ⟨hcap.del d hd, hinv.delLt d hd⟩
        split at hstep
        · simp only [Option.some.injEq] at hstep; subst hstep
          refine ⟨?_, ?_, ?_⟩
          · intro x hx
            simp only [Option.some.injEq] at hx; subst hx
            exact Nat.zero_le _
          · intro p hp; exact lenOk_alloc _ _ _ (hinv.poolLt p hp) (hcap.pool p hp)
          · intro d hd; exact lenOk_alloc _ _ _ (hdel d hd).2 (hdel d hd).1
        · split at hstep
          · cases hstep
          · rename_i p hp
            simp only [Option.some.injEq] at hstep; subst hstep
            refine ⟨?_, ?_, fun d hd => (hdel d hd).1⟩
            · intro x hx
              simp only [Option.some.injEq] at hx; subst hx
              exact hcap.pool p (List.mem_of_getElem? hp)
            · intro q hq; exact hcap.pool q (List.mem_of_mem_eraseIdx hq)
  | finish k =>
    simp only [step, Cfg.code, Bool.false_eq_true, if_false] at hstep
    split at hstep
    · cases hstep
    · rename_i d hd
      simp only [Option.some.injEq] at hstep; subst hstep
      refine ⟨hcap.cur, ?_, fun e he => hcap.del e (List.mem_of_mem_eraseIdx he)⟩
      intro p hp
      rcases List.mem_cons.1 hp with rfl | hp
      · exact hcap.del d (List.mem_of_getElem? hd)
      · exact hcap.pool p hp

theorem run_cap (ls : List Label) (s s' : St) (hinv : Inv s) (hcap : Cap s)
    (h : run Cfg.code s ls = some s') : Cap s' := by
  induction ls generalizing s with
  | nil => simp only [run, Option.some.injEq] at h; rw [← h]; exact hcap
  | cons l ls ih =>
    simp only [run] at h
    cases hs : step Cfg.code s l with
    | none => simp [hs] at h
    | some s1 =>
      simp only [hs] at h
      exact ih s1 (step_inv s s1 l hinv hs) (step_cap s s1 l hinv hcap hs) h

/-! ## `paramPool` / `paramListPool` -/

/-- A list of array ids without repetition, all allocated (`< n`). -/
def Owned (n : Nat) (l : List Nat) : Prop := l.Nodup ∧ ∀ a ∈ l, a < n

theorem Owned.perm {n : Nat} {l l' : List Nat} (h : Owned n l) (hp : l'.Perm l) : Owned n l' :=
  ⟨hp.symm.nodup h.1, fun a ha => h.2 a (hp.mem_iff.1 ha)⟩

theorem Owned.sublist {n : Nat} {l l' : List Nat} (h : Owned n l) (hs : l'.Sublist l) : Owned n l' :=
  ⟨h.1.sublist hs, fun a ha => h.2 a (hs.subset ha)⟩

theorem Owned.fresh {n : Nat} {l : List Nat} (h : Owned n l) : Owned (n + 1) (n :: l) := by
  refine ⟨List.nodup_cons.2 ⟨fun hm => Nat.lt_irrefl _ (h.2 n hm), h.1⟩, ?_⟩
  intro a ha
  rcases List.mem_cons.1 ha with rfl | ha
  · exact Nat.lt_succ_self _
  · exact Nat.lt_succ_of_lt (h.2 a ha)

theorem perm_cons_eraseIdx {α : Type} (l : List α) (k : Nat) (x : α) (hk : l[k]? = some x) :
    l.Perm (x :: l.eraseIdx k) := by
  induction l generalizing k with
  | nil => simp at hk
  | cons a l ih =>
    cases k with
    | zero =>
      simp only [List.getElem?_cons_zero, Option.some.injEq] at hk
      subst hk; simp
    | succ k =>
      simp only [List.getElem?_cons_succ] at hk
      simp only [List.eraseIdx_cons_succ]
      exact ((ih k hk).cons a).trans (List.Perm.swap x a _)

/-- `csi.Parameters` of the running dispatch, as a list. -/
def wl (s : PSt) : List Slice := match s.work with | some (l, _) => [l] | none => []
/-- `param` of the running dispatch, as a list. -/
def wp (s : PSt) : List Slice := match s.work with | some (_, some p) => [p] | _ => []

/-- All headers reachable through delivered sequences. -/
def dl (lh : List (List Slice)) (ds : List PDeliv) : List Slice := ds.flatMap fun d => hdrs lh d.l

/-- The headers a `Finish` in progress has yet to put. -/
def fl (lh : List (List Slice)) (fs : List (Slice × Nat)) : List Slice :=
  fs.flatMap fun f => (hdrs lh f.1).drop f.2

/-- The `[][]int` arrays in use, by owner: the running dispatch, the list pool, delivered sequences,
    `Finish` calls in progress. -/
def lowners (s : PSt) : List Nat :=
  (wl s ++ s.lpool ++ s.delivered.map (·.l) ++ s.fin.map (·.1)).map (·.arr)

/-- The `[]int` arrays in use, by owner: `param`, the headers already in `csi.Parameters`, the
    param pool, the headers of delivered sequences, the headers `Finish` calls in progress have
    yet to put. -/
def powners (s : PSt) : List Nat :=
  (wp s ++ (wl s).flatMap (hdrs s.lheap) ++ s.ppool ++ dl s.lheap s.delivered ++ fl s.lheap s.fin).map (·.arr)

structure PInv (s : PSt) : Prop where
  lown : Owned s.lheap.length (lowners s)
  pown : Owned s.pheap.length (powners s)
  wcap : ∀ l p, s.work = some (l, p) → l.len ≤ (cells s.lheap l.arr).length
  intact : ∀ d ∈ s.delivered, readParams s.pheap s.lheap d.l = d.snap

theorem PInv_init : PInv PSt.init := by
  refine ⟨?_, ?_, ?_, ?_⟩ <;> simp [PSt.init, Owned, lowners, powners, wl, wp, dl, fl]

/-! ### frame lemmas -/

theorem hdrs_alloc_lt (lh : List (List Slice)) (c : List Slice) (l : Slice) (h : l.arr < lh.length) :
    hdrs (lh ++ [c]) l = hdrs lh l := by
  simp only [hdrs, cells_alloc_lt _ _ _ h]

theorem hdrs_write_ne (lh : List (List Slice)) (a i : Nat) (v l : Slice) (h : a ≠ l.arr) :
    hdrs (write lh a i v) l = hdrs lh l := by
  simp only [hdrs, cells_write_ne _ _ _ _ _ h]

theorem hdrs_len_zero (lh : List (List Slice)) (a : Nat) : hdrs lh ⟨a, 0⟩ = [] := by
  simp [hdrs]

theorem hdrs_write_push (lh : List (List Slice)) (l p : Slice) (h1 : l.arr < lh.length)
    (h2 : l.len < (cells lh l.arr).length) :
    hdrs (write lh l.arr l.len p) ⟨l.arr, l.len + 1⟩ = hdrs lh l ++ [p] := by
  simp only [hdrs, cells_write_eq _ _ _ _ h1, List.take_add_one, List.take_set_of_le (Nat.le_refl _),
    List.getElem?_set_self h2, Option.toList_some]

theorem hdrs_grow_push (lh : List (List Slice)) (l p : Slice) (nc : Nat)
    (h2 : l.len ≤ (cells lh l.arr).length) :
    hdrs (lh ++ [grow (cells lh l.arr) l.len p nc]) ⟨lh.length, l.len + 1⟩ = hdrs lh l ++ [p] := by
  have hlen : ((cells lh l.arr).take l.len ++ [p]).length = l.len + 1 := by
    simp only [List.length_append, List.length_take, List.length_cons, List.length_nil]; omega
  simp only [hdrs, cells_alloc_eq, grow]
  rw [List.take_append_of_le_length (by omega), ← hlen, List.take_length]

theorem dl_congr (lh lh' : List (List Slice)) (ds : List PDeliv)
    (h : ∀ d ∈ ds, hdrs lh' d.l = hdrs lh d.l) : dl lh' ds = dl lh ds := by
  induction ds with
  | nil => rfl
  | cons d ds ih =>
    simp only [dl, List.flatMap_cons] at ih ⊢
    rw [h d (List.mem_cons_self), ih (fun e he => h e (List.mem_cons_of_mem _ he))]

theorem fl_congr (lh lh' : List (List Slice)) (fs : List (Slice × Nat))
    (h : ∀ f ∈ fs, hdrs lh' f.1 = hdrs lh f.1) : fl lh' fs = fl lh fs := by
  induction fs with
  | nil => rfl
  | cons f fs ih =>
    simp only [fl, List.flatMap_cons] at ih ⊢
    rw [h f (List.mem_cons_self), ih (fun e he => h e (List.mem_cons_of_mem _ he))]

theorem readParams_congr (ph ph' : List (List Nat)) (lh lh' : List (List Slice)) (l : Slice)
    (h1 : hdrs lh' l = hdrs lh l) (h2 : ∀ h ∈ hdrs lh l, cells ph' h.arr = cells ph h.arr) :
    readParams ph' lh' l = readParams ph lh l := by
  simp only [readParams, h1]
  exact List.map_congr_left (fun h hh => by rw [h2 h hh])

theorem mem_dl (lh : List (List Slice)) (ds : List PDeliv) (d : PDeliv) (hd : d ∈ ds) (h : Slice)
    (hh : h ∈ hdrs lh d.l) : h ∈ dl lh ds := by
  simp only [dl, List.mem_flatMap]; exact ⟨d, hd, hh⟩

/-! ### what the invariant gives -/

theorem PInv.del_lt {s : PSt} (hinv : PInv s) (d : PDeliv) (hd : d ∈ s.delivered) :
    d.l.arr < s.lheap.length := by
  apply hinv.lown.2
  simp only [lowners, List.map_append, List.mem_append, List.mem_map]
  exact Or.inl (Or.inr ⟨d.l, ⟨d, hd, rfl⟩, rfl⟩)

theorem PInv.del_hdr_lt {s : PSt} (hinv : PInv s) (d : PDeliv) (hd : d ∈ s.delivered) (h : Slice)
    (hh : h ∈ hdrs s.lheap d.l) : h.arr < s.pheap.length := by
  apply hinv.pown.2
  simp only [powners, List.map_append, List.mem_append, List.mem_map]
  exact Or.inl (Or.inr ⟨h, mem_dl _ _ d hd h hh, rfl⟩)

theorem PInv.del_ne_work {s : PSt} (hinv : PInv s) (l : Slice) (p : Option Slice)
    (hw : s.work = some (l, p)) (d : PDeliv) (hd : d ∈ s.delivered) : l.arr ≠ d.l.arr := by
  have h := hinv.lown.1
  simp only [lowners, wl, hw, List.map_append, List.map_cons, List.cons_append,
    List.nil_append, List.nodup_cons, List.mem_append, List.mem_map, not_or] at h
  intro he
  exact h.1.1.2 ⟨d.l, ⟨d, hd, rfl⟩, he.symm⟩

theorem PInv.fin_lt {s : PSt} (hinv : PInv s) (f : Slice × Nat) (hf : f ∈ s.fin) :
    f.1.arr < s.lheap.length := by
  apply hinv.lown.2
  simp only [lowners, List.map_append, List.mem_append, List.mem_map]
  exact Or.inr ⟨f.1, ⟨f, hf, rfl⟩, rfl⟩

theorem PInv.fin_ne_work {s : PSt} (hinv : PInv s) (l : Slice) (p : Option Slice)
    (hw : s.work = some (l, p)) (f : Slice × Nat) (hf : f ∈ s.fin) : l.arr ≠ f.1.arr := by
  have h := hinv.lown.1
  simp only [lowners, wl, hw, List.map_append, List.map_cons, List.cons_append,
    List.nil_append, List.nodup_cons, List.mem_append, List.mem_map, not_or] at h
  intro he
  exact h.1.2 ⟨f.1, ⟨f, hf, rfl⟩, he.symm⟩

theorem PInv.del_hdr_ne_param {s : PSt} (hinv : PInv s) (l p : Slice)
    (hw : s.work = some (l, some p)) (d : PDeliv) (hd : d ∈ s.delivered) (h : Slice)
    (hh : h ∈ hdrs s.lheap d.l) : p.arr ≠ h.arr := by
  have hn := hinv.pown.1
  simp only [powners, wp, hw, List.map_append, List.map_cons, List.cons_append,
    List.nil_append, List.nodup_cons, List.mem_append, List.mem_map, not_or] at hn
  intro he
  exact hn.1.1.2 ⟨h, mem_dl _ _ d hd h hh, he.symm⟩

/-! ### preservation, label by label -/

/-- Delivered sequences are unaffected by a step that allocates in both heaps or neither, writes
    `[]int` cells only outside delivered headers, and leaves delivered list arrays alone. -/
theorem intact_frame (s : PSt) (hinv : PInv s) (ph' : List (List Nat)) (lh' : List (List Slice))
    (h1 : ∀ d ∈ s.delivered, hdrs lh' d.l = hdrs s.lheap d.l)
    (h2 : ∀ d ∈ s.delivered, ∀ h ∈ hdrs s.lheap d.l, cells ph' h.arr = cells s.pheap h.arr) :
    ∀ d ∈ s.delivered, readParams ph' lh' d.l = d.snap := by
  intro d hd
  rw [readParams_congr s.pheap ph' s.lheap lh' d.l (h1 d hd) (h2 d hd)]
  exact hinv.intact d hd

theorem pstep_begin_inv (s s' : PSt) (gl : Option Nat) (hinv : PInv s)
    (hstep : pstep s (.begin gl) = some s') : PInv s' := by
  simp only [pstep] at hstep
  split at hstep
  · cases hstep
  · rename_i hw
    split at hstep
    · simp only [Option.some.injEq] at hstep; subst hstep
      have hfr : ∀ d ∈ s.delivered, hdrs (s.lheap ++ [List.replicate 4 default]) d.l = hdrs s.lheap d.l :=
        fun d hd => hdrs_alloc_lt _ _ _ (hinv.del_lt d hd)
      have hfr2 : ∀ f ∈ s.fin, hdrs (s.lheap ++ [List.replicate 4 default]) f.1 = hdrs s.lheap f.1 :=
        fun f hf => hdrs_alloc_lt _ _ _ (hinv.fin_lt f hf)
      refine ⟨?_, ?_, ?_, ?_⟩
      · have := hinv.lown.fresh
        simpa [lowners, wl, hw] using this
      · have := hinv.pown
        simp only [powners, wl, wp, hw] at this ⊢
        rw [dl_congr _ _ _ hfr, fl_congr _ _ _ hfr2]
        simpa [hdrs_len_zero] using this
      · intro l p hlp
        simp only [Option.some.injEq, Prod.mk.injEq] at hlp
        obtain ⟨rfl, _⟩ := hlp
        exact Nat.zero_le _
      · exact intact_frame s hinv _ _ hfr (fun _ _ _ _ => rfl)
    · rename_i k
      split at hstep
      · cases hstep
      · rename_i l0 hl0
        simp only [Option.some.injEq] at hstep; subst hstep
        refine ⟨?_, ?_, ?_, hinv.intact⟩
        · refine hinv.lown.perm ?_
          have hp := (perm_cons_eraseIdx s.lpool k l0 hl0).map (·.arr)
          simp only [lowners, wl, hw, List.map_append, List.map_cons, List.nil_append,
            List.cons_append]
          simp only [List.map_cons] at hp
          rw [List.perm_iff_count] at hp ⊢
          intro a
          have := hp a
          simp only [List.count_append, List.count_cons] at this ⊢
          omega
        · have := hinv.pown
          simp only [powners, wl, wp, hw] at this ⊢
          simpa [hdrs_len_zero] using this
        · intro l p hlp
          simp only [Option.some.injEq, Prod.mk.injEq] at hlp
          obtain ⟨rfl, _⟩ := hlp
          exact Nat.zero_le _

theorem PInv.work_lt {s : PSt} (hinv : PInv s) (l : Slice) (p : Option Slice)
    (hw : s.work = some (l, p)) : l.arr < s.lheap.length := by
  apply hinv.lown.2
  simp [lowners, wl, hw]

theorem pstep_get_inv (s s' : PSt) (gp : Option Nat) (hinv : PInv s)
    (hstep : pstep s (.get gp) = some s') : PInv s' := by
  simp only [pstep] at hstep
  split at hstep
  · rename_i l hw
    split at hstep
    · simp only [Option.some.injEq] at hstep; subst hstep
      refine ⟨?_, ?_, ?_, ?_⟩
      · have := hinv.lown
        simpa only [lowners, wl, hw] using this
      · have := hinv.pown.fresh
        simpa [powners, wl, wp, hw] using this
      · intro l' p' hlp
        simp only [Option.some.injEq, Prod.mk.injEq] at hlp
        obtain ⟨rfl, _⟩ := hlp
        exact hinv.wcap _ _ hw
      · exact intact_frame s hinv _ _ (fun _ _ => rfl)
          (fun d hd h hh => cells_alloc_lt _ _ _ (hinv.del_hdr_lt d hd h hh))
    · rename_i k
      split at hstep
      · cases hstep
      · rename_i p0 hp0
        simp only [Option.some.injEq] at hstep; subst hstep
        refine ⟨?_, ?_, ?_, hinv.intact⟩
        · have := hinv.lown
          simpa only [lowners, wl, hw] using this
        · refine hinv.pown.perm ?_
          have hp := (perm_cons_eraseIdx s.ppool k p0 hp0).map (·.arr)
          simp only [powners, wl, wp, hw, List.map_append, List.map_cons, List.nil_append,
            List.cons_append, List.flatMap_cons, List.flatMap_nil, List.append_nil]
          simp only [List.map_cons] at hp
          rw [List.perm_iff_count] at hp ⊢
          intro a
          have := hp a
          simp only [List.count_append, List.count_cons] at this ⊢
          omega
        · intro l' p' hlp
          simp only [Option.some.injEq, Prod.mk.injEq] at hlp
          obtain ⟨rfl, _⟩ := hlp
          exact hinv.wcap _ _ hw
  · cases hstep

theorem pstep_app_inv (s s' : PSt) (v nc : Nat) (hinv : PInv s)
    (hstep : pstep s (.app v nc) = some s') : PInv s' := by
  simp only [pstep] at hstep
  split at hstep
  · rename_i l p hw
    split at hstep
    · simp only [Option.some.injEq] at hstep; subst hstep
      refine ⟨?_, ?_, ?_, ?_⟩
      · have := hinv.lown
        simpa only [lowners, wl, hw] using this
      · have := hinv.pown
        simpa [powners, wl, wp, hw, length_write] using this
      · intro l' p' hlp
        simp only [Option.some.injEq, Prod.mk.injEq] at hlp
        obtain ⟨rfl, _⟩ := hlp
        exact hinv.wcap _ _ hw
      · exact intact_frame s hinv _ _ (fun _ _ => rfl)
          (fun d hd h hh => cells_write_ne _ _ _ _ _ (hinv.del_hdr_ne_param l p hw d hd h hh))
    · split at hstep
      · simp only [Option.some.injEq] at hstep; subst hstep
        refine ⟨?_, ?_, ?_, ?_⟩
        · have := hinv.lown
          simpa only [lowners, wl, hw] using this
        · have h0 := hinv.pown
          simp only [powners, wl, wp, hw, List.map_append, List.map_cons,
            List.cons_append, List.nil_append] at h0
          have := (h0.sublist (List.sublist_cons_self _ _)).fresh
          simpa [powners, wl, wp, hw] using this
        · intro l' p' hlp
          simp only [Option.some.injEq, Prod.mk.injEq] at hlp
          obtain ⟨rfl, _⟩ := hlp
          exact hinv.wcap _ _ hw
        · exact intact_frame s hinv _ _ (fun _ _ => rfl)
            (fun d hd h hh => cells_alloc_lt _ _ _ (hinv.del_hdr_lt d hd h hh))
      · cases hstep
  · cases hstep

theorem pstep_push_inv (s s' : PSt) (nc : Nat) (hinv : PInv s)
    (hstep : pstep s (.push nc) = some s') : PInv s' := by
  simp only [pstep] at hstep
  split at hstep
  · rename_i l p hw
    have hlt := hinv.work_lt l _ hw
    split at hstep
    · rename_i hroom
      simp only [Option.some.injEq] at hstep; subst hstep
      have hfr : ∀ d ∈ s.delivered, hdrs (write s.lheap l.arr l.len p) d.l = hdrs s.lheap d.l :=
        fun d hd => hdrs_write_ne _ _ _ _ _ (hinv.del_ne_work l _ hw d hd)
      have hfr2 : ∀ f ∈ s.fin, hdrs (write s.lheap l.arr l.len p) f.1 = hdrs s.lheap f.1 :=
        fun f hf => hdrs_write_ne _ _ _ _ _ (hinv.fin_ne_work l _ hw f hf)
      refine ⟨?_, ?_, ?_, ?_⟩
      · have := hinv.lown
        simpa [lowners, wl, hw, length_write] using this
      · refine hinv.pown.perm ?_
        simp only [powners, wl, wp, hw, List.flatMap_cons, List.flatMap_nil, List.append_nil,
          List.nil_append]
        rw [dl_congr _ _ _ hfr, fl_congr _ _ _ hfr2, hdrs_write_push _ _ _ hlt hroom]
        simp only [List.map_append, List.map_cons, List.map_nil]
        rw [List.perm_iff_count]
        intro a
        simp only [List.count_append, List.count_cons, List.count_nil]
        omega
      · intro l' p' hlp
        simp only [Option.some.injEq, Prod.mk.injEq] at hlp
        obtain ⟨rfl, _⟩ := hlp
        simp only [cells_write_eq _ _ _ _ hlt, List.length_set]
        exact hroom
      · exact intact_frame s hinv _ _ hfr (fun _ _ _ _ => rfl)
    · split at hstep
      · rename_i hn
        simp only [Option.some.injEq] at hstep; subst hstep
        have hfr : ∀ d ∈ s.delivered,
            hdrs (s.lheap ++ [grow (cells s.lheap l.arr) l.len p nc]) d.l = hdrs s.lheap d.l :=
          fun d hd => hdrs_alloc_lt _ _ _ (hinv.del_lt d hd)
        have hfr2 : ∀ f ∈ s.fin,
            hdrs (s.lheap ++ [grow (cells s.lheap l.arr) l.len p nc]) f.1 = hdrs s.lheap f.1 :=
          fun f hf => hdrs_alloc_lt _ _ _ (hinv.fin_lt f hf)
        have hc := hinv.wcap _ _ hw
        refine ⟨?_, ?_, ?_, ?_⟩
        · have h0 := hinv.lown
          simp only [lowners, wl, hw, List.map_append, List.map_cons,
            List.cons_append, List.nil_append] at h0
          have := (h0.sublist (List.sublist_cons_self _ _)).fresh
          simpa [lowners, wl, hw] using this
        · refine hinv.pown.perm ?_
          simp only [powners, wl, wp, hw, List.flatMap_cons, List.flatMap_nil, List.append_nil,
            List.nil_append]
          rw [dl_congr _ _ _ hfr, fl_congr _ _ _ hfr2, hdrs_grow_push _ _ _ _ hc]
          simp only [List.map_append, List.map_cons, List.map_nil]
          rw [List.perm_iff_count]
          intro a
          simp only [List.count_append, List.count_cons, List.count_nil]
          omega
        · intro l' p' hlp
          simp only [Option.some.injEq, Prod.mk.injEq] at hlp
          obtain ⟨rfl, _⟩ := hlp
          simp only [cells_alloc_eq, length_grow _ _ _ _ hc hn]
          exact hn
        · exact intact_frame s hinv _ _ hfr (fun _ _ _ _ => rfl)
      · cases hstep
  · cases hstep

theorem pstep_emit_inv (s s' : PSt) (hinv : PInv s)
    (hstep : pstep s .emit = some s') : PInv s' := by
  simp only [pstep] at hstep
  split at hstep
  · rename_i l hw
    split at hstep
    · cases hstep
    · simp only [Option.some.injEq] at hstep; subst hstep
      refine ⟨?_, ?_, ?_, ?_⟩
      · refine hinv.lown.perm ?_
        simp only [lowners, wl, hw, List.map_append, List.map_cons, List.map_nil, List.nil_append]
        rw [List.perm_iff_count]
        intro a
        simp only [List.count_append, List.count_cons, List.count_nil]
        omega
      · refine hinv.pown.perm ?_
        simp only [powners, wl, wp, hw, dl, List.flatMap_cons, List.flatMap_nil, List.append_nil,
          List.nil_append, List.map_append]
        rw [List.perm_iff_count]
        intro a
        simp only [List.count_append]
        omega
      · intro l' p' hlp; cases hlp
      · intro d hd
        rcases List.mem_cons.1 hd with rfl | hd
        · rfl
        · exact hinv.intact d hd
  · cases hstep

theorem pstep_finish_inv (s s' : PSt) (k : Nat) (hinv : PInv s)
    (hstep : pstep s (.finish k) = some s') : PInv s' := by
  simp only [pstep] at hstep
  split at hstep
  · cases hstep
  · rename_i d hd
    simp only [Option.some.injEq] at hstep; subst hstep
    have hperm := perm_cons_eraseIdx s.delivered k d hd
    refine ⟨?_, ?_, hinv.wcap, fun e he => hinv.intact e (List.mem_of_mem_eraseIdx he)⟩
    · refine hinv.lown.perm ?_
      have hp := (hperm.map (·.l)).map (·.arr)
      simp only [lowners, wl, List.map_append, List.map_cons]
      simp only [List.map_cons] at hp
      rw [List.perm_iff_count] at hp ⊢
      intro a
      have := hp a
      simp only [List.count_append, List.count_cons] at this ⊢
      omega
    · refine hinv.pown.perm ?_
      have hp := (hperm.flatMap_right (fun d => hdrs s.lheap d.l)).map (·.arr)
      simp only [powners, wl, wp, dl, fl, List.map_append, List.flatMap_cons, List.drop_zero]
      simp only [List.flatMap_cons, List.map_append] at hp
      rw [List.perm_iff_count] at hp ⊢
      intro a
      have := hp a
      simp only [List.count_append] at this ⊢
      omega

theorem pstep_finPut_inv (s s' : PSt) (j : Nat) (hinv : PInv s)
    (hstep : pstep s (.finPut j) = some s') : PInv s' := by
  simp only [pstep] at hstep
  split at hstep
  · cases hstep
  · rename_i l i hf
    have hperm := perm_cons_eraseIdx s.fin j (l, i) hf
    split at hstep
    · rename_i h hh
      simp only [Option.some.injEq] at hstep; subst hstep
      refine ⟨?_, ?_, hinv.wcap, hinv.intact⟩
      · refine hinv.lown.perm ?_
        have hp := (hperm.map (·.1)).map (·.arr)
        simp only [lowners, wl, List.map_append, List.map_cons]
        simp only [List.map_cons] at hp
        rw [List.perm_iff_count] at hp ⊢
        intro a
        have := hp a
        simp only [List.count_append, List.count_cons] at this ⊢
        omega
      · refine hinv.pown.perm ?_
        have hp := (hperm.flatMap_right (fun f => (hdrs s.lheap f.1).drop f.2)).map (·.arr)
        have hdrop : (hdrs s.lheap l).drop i = h :: (hdrs s.lheap l).drop (i + 1) := by
          obtain ⟨hi, rfl⟩ := List.getElem?_eq_some_iff.1 hh
          exact List.drop_eq_getElem_cons hi
        simp only [powners, wl, wp, fl, List.map_append, List.flatMap_cons, List.map_cons]
        simp only [List.flatMap_cons, List.map_append, hdrop, List.map_cons] at hp
        rw [List.perm_iff_count] at hp ⊢
        intro a
        have := hp a
        simp only [List.count_append, List.count_cons] at this ⊢
        omega
    · rename_i hh
      simp only [Option.some.injEq] at hstep; subst hstep
      refine ⟨?_, ?_, hinv.wcap, hinv.intact⟩
      · refine hinv.lown.perm ?_
        have hp := (hperm.map (·.1)).map (·.arr)
        simp only [lowners, wl, List.map_append, List.map_cons]
        simp only [List.map_cons] at hp
        rw [List.perm_iff_count] at hp ⊢
        intro a
        have := hp a
        simp only [List.count_append, List.count_cons] at this ⊢
        omega
      · refine hinv.pown.perm ?_
        have hp := (hperm.flatMap_right (fun f => (hdrs s.lheap f.1).drop f.2)).map (·.arr)
        have hdrop : (hdrs s.lheap l).drop i = [] :=
          List.drop_eq_nil_of_le (List.getElem?_eq_none_iff.1 hh)
        simp only [powners, wl, wp, fl, List.map_append]
        simp only [List.flatMap_cons, hdrop, List.nil_append] at hp
        rw [List.perm_iff_count] at hp ⊢
        intro a
        have := hp a
        simp only [List.count_append] at this ⊢
        omega
theorem pstep_inv (s s' : PSt) (l : PLabel) (hinv : PInv s) (hstep : pstep s l = some s') : PInv s' := by
  cases l with
  | «begin» gl => exact pstep_begin_inv s s' gl hinv hstep
  | get gp => exact pstep_get_inv s s' gp hinv hstep
  | app v nc => exact pstep_app_inv s s' v nc hinv hstep
  | push nc => exact pstep_push_inv s s' nc hinv hstep
  | emit => exact pstep_emit_inv s s' hinv hstep
  | finish k => exact pstep_finish_inv s s' k hinv hstep
  | finPut j => exact pstep_finPut_inv s s' j hinv hstep

theorem prun_inv (ls : List PLabel) (s s' : PSt) (hinv : PInv s) (h : prun s ls = some s') : PInv s' := by
  induction ls generalizing s with
  | nil => simp only [prun, Option.some.injEq] at h; rw [← h]; exact hinv
  | cons l ls ih =>
    simp only [prun] at h
    cases hs : pstep s l with
    | none => simp [hs] at h
    | some s1 =>
      simp only [hs] at h
      exact ih s1 (pstep_inv s s1 l hinv hs) h

theorem run_append (c : Cfg) (ls1 ls2 : List Label) (s s1 : St) (h : run c s ls1 = some s1) :
    run c s (ls1 ++ ls2) = run c s1 ls2 := by
  induction ls1 generalizing s with
  | nil => simp only [run, Option.some.injEq] at h; subst h; rfl
  | cons l ls ih =>
    simp only [run, List.cons_append] at h ⊢
    cases hs : step c s l with
    | none => simp [hs] at h
    | some s' => simp only [hs] at h ⊢; exact ih s' h

theorem prun_append (ls1 ls2 : List PLabel) (s s1 : PSt) (h : prun s ls1 = some s1) :
    prun s (ls1 ++ ls2) = prun s1 ls2 := by
  induction ls1 generalizing s with
  | nil => simp only [prun, Option.some.injEq] at h; subst h; rfl
  | cons l ls ih =>
    simp only [prun, List.cons_append] at h ⊢
    cases hs : pstep s l with
    | none => simp [hs] at h
    | some s' => simp only [hs] at h ⊢; exact ih s' h

end VaxisModel.Lemmas.ParserPools
