/-
C08: the pool model driven by the automaton (Model/ParserPoolsDrive.lean): every label the parser's
statements issue is enabled, and what was issued is a run of the pool model.
-/
import VaxisModel.Model.ParserPoolsDrive
import VaxisModel.Lemmas.ParserPools

namespace VaxisModel.Lemmas.ParserPoolsDrive
open VaxisModel.Model.ParserTable VaxisModel.Model.Parser VaxisModel.Model.ParserPools
open VaxisModel.Model.ParserPoolsDrive VaxisModel.Lemmas.ParserPools

/-- Every label a statement of the parser issues is enabled in the pool model. -/
theorem poolLabel_enabled (c : Choice) (st : St) (a : Act) (r : Nat) (l : Label)
    (h : poolLabel c st a r = some l) : ∃ st', Model.ParserPools.step .code st l = some st' := by
  cases a <;> simp only [poolLabel] at h <;> try (cases h; done)
  case collect =>
    cases h
    cases hc : st.cur with
    | none => simp [Model.ParserPools.step, hc]
    | some sl =>
      simp only [Model.ParserPools.step, hc]
      split
      · exact ⟨_, rfl⟩
      · rw [if_pos (by omega)]; exact ⟨_, rfl⟩
  case clear => cases h; exact ⟨_, rfl⟩
  all_goals
    cases hc : st.cur with
    | none => rw [hc] at h; cases h
    | some sl =>
      rw [hc] at h
      simp only at h
      split at h
      · cases h
      · rename_i hlen
        cases h
        simp only [Model.ParserPools.step, hc, hlen, if_false, Cfg.code, if_true]
        cases hg : c.g with
        | none => exact ⟨_, rfl⟩
        | some k =>
          simp only
          by_cases hk : k < st.pool.length
          · have : st.pool[k]? = some st.pool[k] := List.getElem?_eq_getElem hk
            simp only [hk, if_true, this]
            exact ⟨_, rfl⟩
          · simp only [hk, if_false]
            exact ⟨_, rfl⟩

theorem run_snoc (st st1 st2 : St) (ls : List Label) (l : Label) (h1 : run .code st ls = some st1)
    (h2 : Model.ParserPools.step .code st1 l = some st2) : run .code st (ls ++ [l]) = some st2 := by
  rw [run_append .code ls [l] st st1 h1]
  simp [Model.ParserPools.run, h2]

/-- Walking a row never blocks, and the labels issued are a run of the pool model. -/
theorem driveActs_run (c : Choice) (acts : List Act) (r : Nat) (s : PState) (st0 : St) (acc : Acc)
    (h0 : run .code st0 acc.ls = some acc.st) :
    ∃ acc', driveActs c acts r s acc = some acc' ∧ run .code st0 acc'.ls = some acc'.st := by
  induction acts generalizing s acc with
  | nil => exact ⟨acc, rfl, h0⟩
  | cons a rest ih =>
    by_cases hret : ∃ n', a = .retIfIgnoreST n'
    · obtain ⟨n', rfl⟩ := hret
      simp only [driveActs]
      split
      · exact ⟨acc, rfl, h0⟩
      · exact ih s acc h0
    · have hd : driveActs c (a :: rest) r s acc =
          (match poolLabel c acc.st a r with
           | none => driveActs c rest r (applyAct a r s).1 acc
           | some l =>
             match Model.ParserPools.step .code acc.st l with
             | none => none
             | some st' =>
               driveActs c rest r (applyAct a r s).1
                 { st := st', ls := acc.ls ++ [l],
                   views := if isDispatchLabel l then acc.views ++ [⟨s.inter, contents acc.st⟩] else acc.views }) := by
        cases a <;> first | (exfalso; exact hret ⟨_, rfl⟩) | rfl
      rw [hd]
      cases hl : poolLabel c acc.st a r with
      | none => exact ih _ acc h0
      | some l =>
        obtain ⟨st1, hs⟩ := poolLabel_enabled c acc.st a r l hl
        simp only [hs]
        exact ih (applyAct a r s).1 _ (run_snoc st0 acc.st st1 acc.ls l h0 hs)

theorem driveRune_run (T : Table) (c : Choice) (s : PState) (st0 : St) (acc : Acc) (r : Nat)
    (h0 : run .code st0 acc.ls = some acc.st) :
    ∃ acc', driveRune T c s acc r = some acc' ∧ run .code st0 acc'.ls = some acc'.st := by
  obtain ⟨acc1, e1, e2⟩ := driveActs_run c (T.anywhere.row (.rune r)).1 r s st0 acc h0
  simp only [driveRune, e1]
  cases hn : (runFn T.anywhere (.rune r) s).2.2 with
  | dispatch =>
    simp only
    exact driveActs_run c _ r _ st0 acc1 e2
  | st x => exact ⟨acc1, rfl, e2⟩
  | stop => exact ⟨acc1, rfl, e2⟩

/-- The composite never blocks and its trace is a run of the pool model to its pool state. -/
theorem drun_run (T : Table) (ls : List DLabel) (d : DSt) (h0 : run .code St.init d.trace = some d.pool) :
    ∃ d', drun T d ls = some d' ∧ run .code St.init d'.trace = some d'.pool := by
  induction ls generalizing d with
  | nil => exact ⟨d, rfl, h0⟩
  | cons l rest ih =>
    cases l with
    | rune r c =>
      obtain ⟨acc', e1, e2⟩ := driveRune_run T c d.ps St.init d.acc r h0
      simp only [drun, dstep, e1]
      exact ih _ e2
    | finish k =>
      simp only [drun, dstep]
      cases hs : Model.ParserPools.step .code d.acc.st (.finish k) with
      | none => exact ih d h0
      | some st' => exact ih _ (run_snoc St.init d.pool st' d.trace _ h0 hs)

/-- The runes of a composite schedule. -/
def runesOf : List DLabel → List Nat
  | [] => []
  | .rune r _ :: ls => r :: runesOf ls
  | .finish _ :: ls => runesOf ls

/-- The automaton alone over a list of runes (state, everything emitted). -/
def autoRun (T : Table) : PState → List Seq → List Nat → PState × List Seq
  | s, out, [] => (s, out)
  | s, out, r :: rs => autoRun T (Model.Parser.step T s (.rune r)).st (out ++ (Model.Parser.step T s (.rune r)).out) rs

/-- The parser component of the composite is the automaton's own run over the runes of the schedule
    (the pool component does not influence it). -/
theorem drun_automaton (T : Table) (ls : List DLabel) (d d' : DSt) (h : drun T d ls = some d') :
    (d'.ps, d'.out) = autoRun T d.ps d.out (runesOf ls) := by
  induction ls generalizing d with
  | nil => simp only [drun, Option.some.injEq] at h; subst h; rfl
  | cons l rest ih =>
    simp only [drun] at h
    cases hs : dstep T d l with
    | none => rw [hs] at h; cases h
    | some d1 =>
      rw [hs] at h
      have := ih d1 h
      cases l with
      | rune r c =>
        simp only [dstep] at hs
        split at hs
        · cases hs
        · cases hs; simpa [runesOf, autoRun] using this
      | finish k =>
        simp only [dstep] at hs
        split at hs <;> (cases hs; simpa [runesOf] using this)

end VaxisModel.Lemmas.ParserPoolsDrive
