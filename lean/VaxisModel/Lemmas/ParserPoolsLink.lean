/-
C08: the link between the automaton's `inter` (a list, `Model/Parser.lean`) and the slice
`p.intermediate` of the pool model, along the composite run of `Model/ParserPoolsDrive.lean`: outside
the states in which `p.intermediate` is dead (ground, dcsPassthrough: nothing reads it before the next
`clear()`), the slice reads exactly `inter`; hence at every hand-over the slice the consumer receives
reads what the automaton put into the sequence.
-/
import VaxisModel.Lemmas.ParserPoolsDrive
import VaxisModel.Lemmas.ParserStale
import VaxisModel.Lemmas.ParserAbs
import VaxisModel.Lemmas.ParserStepBasic
import VaxisModel.Props.C08Pools

namespace VaxisModel.Lemmas.ParserPoolsLink
open VaxisModel.Model.ParserTable VaxisModel.Model.Parser VaxisModel.Model.ParserPools
open VaxisModel.Model.ParserPoolsDrive VaxisModel.Lemmas.ParserPoolsDrive VaxisModel.Lemmas.ParserPools
open VaxisModel.Lemmas.ParserStale VaxisModel.Lemmas.Parser VaxisModel.Lemmas.ParserConform

def isDeadB : StateId → Bool
  | .ground | .dcsPassthrough => true
  | _ => false

def isDeadNext : Next → Bool
  | .st t => isDeadB t
  | _ => false

/-- One statement on the flag "the slice reads `inter`": `none` = the statement needs the flag and it
    is not known to hold. -/
def linkAct : Act → Bool → Option Bool
  | .collect, f => if f then some true else none
  | .clear, _ => some true
  | .escapeDispatch, f | .csiDispatch, f | .hook, f => if f then some false else none
  | _, f => some f

def linkActs : List Act → Bool → Option Bool
  | [], f => some f
  | .retIfIgnoreST n' :: rest, f => if isDeadNext n' then linkActs rest f else none
  | a :: rest, f =>
    match linkAct a f with
    | none => none
    | some f' => linkActs rest f'

/-! ### the pool side -/

theorem take_succ_set (l : List Nat) (n r : Nat) (h : n < l.length) : (l.set n r).take (n + 1) = l.take n ++ [r] := by
  induction l generalizing n with
  | nil => simp at h
  | cons a t ih =>
    cases n with
    | zero => simp
    | succ k =>
      simp only [List.set_cons_succ, List.take_succ_cons, List.cons_append]
      rw [ih k (by simpa using h)]

theorem take_len_succ_append (l : List Nat) (r : Nat) (t : List Nat) : (l ++ r :: t).take (l.length + 1) = l ++ [r] := by
  induction l with
  | nil => simp
  | cons a l ih => simp [ih]

theorem collect_contents (st st' : St) (r cap : Nat) (hcap : ∀ c, st.cur = some c → c.len ≤ (cells st.heap c.arr).length)
    (h : Model.ParserPools.step .code st (.collect r cap) = some st') : contents st' = contents st ++ [r] := by
  simp only [Model.ParserPools.step] at h
  cases hc : st.cur with
  | none =>
    rw [hc] at h
    simp only at h
    split at h
    · cases h
      simp [contents, hc, cells_alloc_eq, grow]
    · cases h
  | some sl =>
    rw [hc] at h
    simp only at h
    have hle := hcap sl hc
    split at h
    · rename_i hlt
      cases h
      have harr : sl.arr < st.heap.length := by
        rcases Nat.lt_or_ge sl.arr st.heap.length with h | h
        · exact h
        · simp [cells, List.getElem?_eq_none h] at hlt
      simp only [contents, hc, cells, write, List.getElem?_set_self harr, Option.getD_some]
      have hc2 : (st.heap[sl.arr]?.getD []) = cells st.heap sl.arr := rfl
      rw [hc2]
      exact take_succ_set _ _ _ hlt
    · split at h
      · cases h
        have heq : sl.len = (cells st.heap sl.arr).length := by omega
        simp only [contents, hc, cells_alloc_eq, grow]
        rw [heq, List.take_length]
        simp only [List.append_assoc, List.singleton_append]
        exact take_len_succ_append _ _ _
      · cases h

theorem clear_contents (st st' : St) (h : Model.ParserPools.step .code st .clear = some st') : contents st' = [] := by
  simp only [Model.ParserPools.step, Option.some.injEq] at h
  subst h
  cases hc : st.cur <;> simp [contents, hc]

/-! ### the automaton side -/

/-- Statements that do not touch `inter`. -/
theorem applyAct_inter_same (a : Act) (ha : interFree a = true) (r : Nat) (s : PState) :
    (applyAct a r s).1.inter = s.inter := by
  have := applyAct_inter a ha r s s.inter
  have hs : ({ s with inter := s.inter } : PState) = s := rfl
  rw [hs] at this
  exact congrArg (fun x => x.1.inter) this

theorem poolLabel_interFree (c : Choice) (st : St) (a : Act) (r : Nat) (ha : interFree a = true) :
    poolLabel c st a r = none := by
  cases a <;> simp only [interFree] at ha <;> first | (cases ha; done) | rfl

theorem linkAct_interFree (a : Act) (f : Bool) (ha : interFree a = true) : linkAct a f = some f := by
  cases a <;> simp only [interFree] at ha <;> first | (cases ha; done) | rfl

/-- All hand-overs seen so far agree: the automaton's `inter` is what the slice reads. -/
def GoodViews (acc : Acc) : Prop := ∀ v ∈ acc.views, v.auto = v.slice

theorem driveActs_cons (c : Choice) (a : Act) (hnr : ∀ n', a ≠ .retIfIgnoreST n') (rest : List Act) (r : Nat)
    (s : PState) (acc : Acc) :
    driveActs c (a :: rest) r s acc =
      (match poolLabel c acc.st a r with
       | none => driveActs c rest r (applyAct a r s).1 acc
       | some l =>
         match Model.ParserPools.step .code acc.st l with
         | none => none
         | some st' =>
           driveActs c rest r (applyAct a r s).1
             { st := st', ls := acc.ls ++ [l],
               views := if isDispatchLabel l then acc.views ++ [⟨s.inter, contents acc.st⟩] else acc.views }) := by
  cases a <;> first | (exfalso; exact hnr _ rfl) | rfl

/-- One statement on both sides. -/
theorem link_step (c : Choice) (a : Act) (hnr : ∀ n', a ≠ .retIfIgnoreST n') (r : Nat) (s : PState) (acc : Acc)
    (f f1 : Bool) (hrun : run .code St.init acc.ls = some acc.st) (hf : f = true → contents acc.st = s.inter)
    (hg : GoodViews acc) (hla : linkAct a f = some f1) :
    ∃ acc1, (∀ rest, driveActs c (a :: rest) r s acc = driveActs c rest r (applyAct a r s).1 acc1) ∧
      run .code St.init acc1.ls = some acc1.st ∧ GoodViews acc1 ∧
      (f1 = true → contents acc1.st = (applyAct a r s).1.inter) := by
  by_cases hfree : interFree a = true
  · rw [linkAct_interFree a f hfree] at hla
    cases hla
    refine ⟨acc, fun rest => ?_, hrun, hg, fun h => ?_⟩
    · rw [driveActs_cons c a hnr, poolLabel_interFree c acc.st a r hfree]
    · rw [applyAct_inter_same a hfree]; exact hf h
  · have hcap := (VaxisModel.Props.C08Pools.slices_within_capacity acc.ls acc.st hrun).1
    cases a <;> simp only [interFree] at hfree <;> first | (exact absurd trivial hfree) | (exact absurd rfl hfree) | skip
    case collect =>
      simp only [linkAct] at hla
      split at hla
      · rename_i hft
        cases hla
        obtain ⟨st1, hs⟩ := poolLabel_enabled c acc.st .collect r _ rfl
        refine ⟨{ st := st1, ls := acc.ls ++ [_], views := acc.views }, fun rest => ?_,
          run_snoc St.init acc.st st1 acc.ls _ hrun hs, hg, fun _ => ?_⟩
        · rw [driveActs_cons c .collect hnr]
          simp only [poolLabel, hs, isDispatchLabel, Bool.false_eq_true, if_false]
        · simp only [applyAct]
          rw [collect_contents acc.st st1 r _ hcap hs, hf hft]
      · cases hla
    case clear =>
      simp only [linkAct, Option.some.injEq] at hla
      subst hla
      obtain ⟨st1, hs⟩ := poolLabel_enabled c acc.st .clear r _ rfl
      refine ⟨{ st := st1, ls := acc.ls ++ [_], views := acc.views }, fun rest => ?_,
        run_snoc St.init acc.st st1 acc.ls _ hrun hs, hg, fun _ => ?_⟩
      · rw [driveActs_cons c .clear hnr]
        simp only [poolLabel, hs, isDispatchLabel, Bool.false_eq_true, if_false]
      · simp only [applyAct]
        exact clear_contents acc.st st1 hs
    all_goals
      simp only [linkAct] at hla
      split at hla
      · rename_i hft
        cases hla
        cases hl : poolLabel c acc.st _ r with
        | none =>
          refine ⟨acc, fun rest => ?_, hrun, hg, fun h => by cases h⟩
          rw [driveActs_cons c _ hnr, hl]
        | some l =>
          obtain ⟨st1, hs⟩ := poolLabel_enabled c acc.st _ r l hl
          refine ⟨{ st := st1, ls := acc.ls ++ [l],
                    views := if isDispatchLabel l then acc.views ++ [⟨s.inter, contents acc.st⟩] else acc.views },
            fun rest => ?_, run_snoc St.init acc.st st1 acc.ls _ hrun hs, ?_, fun h => by cases h⟩
          · rw [driveActs_cons c _ hnr, hl]
            simp only [hs]
          · intro v hv
            simp only at hv
            split at hv
            · rcases List.mem_append.mp hv with hv | hv
              · exact hg v hv
              · simp only [List.mem_singleton] at hv
                subst hv
                exact (hf hft).symm
            · exact hg v hv
      · cases hla

/-- **One row.**  Walking the statements of a row on both sides: if the flag computation accepts the
    row (`linkActs`), the hand-overs stay good, and at the end either the slice reads `inter`
    (when the flag says so) or the row returned, through its early `return`, a dead state. -/
theorem link_acts (c : Choice) (acts : List Act) (r : Nat) (s : PState) (acc acc' : Acc) (f f' : Bool)
    (out : List Seq) (nx : Next)
    (hrun : run .code St.init acc.ls = some acc.st) (hf : f = true → contents acc.st = s.inter)
    (hg : GoodViews acc) (hl : linkActs acts f = some f') (hd : driveActs c acts r s acc = some acc') :
    GoodViews acc' ∧ run .code St.init acc'.ls = some acc'.st ∧
    (((f' = true → contents acc'.st = (runActs acts (.rune r) s out nx).1.inter) ∧
        (runActs acts (.rune r) s out nx).2.2 = nx) ∨
      isDeadNext (runActs acts (.rune r) s out nx).2.2 = true) := by
  induction acts generalizing s acc f out with
  | nil =>
    simp only [linkActs, Option.some.injEq] at hl
    simp only [driveActs, Option.some.injEq] at hd
    subst hl; subst hd
    exact ⟨hg, hrun, Or.inl ⟨by simpa [runActs] using hf, rfl⟩⟩
  | cons a rest ih =>
    by_cases hret : ∃ n', a = .retIfIgnoreST n'
    · obtain ⟨n', rfl⟩ := hret
      simp only [linkActs] at hl
      split at hl
      · rename_i hdead
        simp only [driveActs] at hd
        simp only [runActs]
        by_cases hi : s.ignoreST = true
        · simp only [hi, if_true] at hd ⊢
          cases hd
          exact ⟨hg, hrun, Or.inr hdead⟩
        · simp only [hi, Bool.false_eq_true, if_false] at hd ⊢
          exact ih s acc f out hrun hf hg hl hd
      · cases hl
    · have hnr : ∀ n', a ≠ .retIfIgnoreST n' := fun n' h => hret ⟨n', h⟩
      have hl1 : linkActs (a :: rest) f = (match linkAct a f with | none => none | some f1 => linkActs rest f1) := by
        cases a <;> first | (exfalso; exact hnr _ rfl) | rfl
      rw [hl1] at hl
      cases hla : linkAct a f with
      | none => rw [hla] at hl; cases hl
      | some f1 =>
        rw [hla] at hl
        simp only at hl
        obtain ⟨acc1, e1, e2, e3, e4⟩ := link_step c a hnr r s acc f f1 hrun hf hg hla
        rw [e1 rest] at hd
        have hr1 : runActs (a :: rest) (.rune r) s out nx =
            runActs rest (.rune r) (applyAct a r s).1 (out ++ (applyAct a r s).2) nx := by
          cases a <;> first | (exfalso; exact hnr _ rfl) | simp [runActs]
        rw [hr1]
        exact ih (applyAct a r s).1 acc1 f1 _ e2 e4 e3 hl hd

/-! ### the table-wide check and one rune -/

/-- Everything the link needs of the table, for one (state, rune): starting with "the slice reads
    `inter`" known exactly outside the dead states, the statements of `anywhere` and of the state
    function only `collect`/dispatch while it is known, and at the end it is known again or the state
    returned is dead. -/
def linkCheck (st : StateId) (c : Nat) : Bool :=
  let r1 := handAnywhere.row (.rune c)
  match linkActs r1.1 (!isDeadB st) with
  | none => false
  | some f1 =>
    match r1.2 with
    | .dispatch =>
      let r2 := (handFn st).row (.rune c)
      match linkActs r2.1 f1 with
      | none => false
      | some f2 => f2 || isDeadNext r2.2
    | n => f1 || isDeadNext n

theorem linkCheck_below : ∀ st ∈ allStates, ∀ c ∈ List.range 257, linkCheck st c = true := by decide +kernel

theorem linkCheck_all (st : StateId) (c : Nat) : linkCheck st c = true := by
  by_cases hc : c ≤ 256
  · exact linkCheck_below st (mem_allStates st) c (List.mem_range.mpr (by omega))
  · have hb := VaxisModel.Lemmas.ParserAbs.hand_boundsOk
    simp only [boundsOk, Bool.and_eq_true, List.all_eq_true] at hb
    have h1 := StateFn.row_const_above handTable.anywhere cut c hb.1 (by simp only [cut]; omega)
    have h2 := StateFn.row_const_above (handTable.fn st) cut c (hb.2 st (mem_allStates st)) (by simp only [cut]; omega)
    simp only [handTable, cut] at h1 h2
    have := linkCheck_below st (mem_allStates st) 256 (List.mem_range.mpr (by omega))
    simp only [linkCheck, h1, h2] at this ⊢
    exact this

/-- The slice reads `inter`, or nothing reads it before the next `clear()`. -/
def Link (s : PState) (st : St) : Prop := isDeadB s.state = true ∨ contents st = s.inter

theorem runFn_inter (f : StateFn) (i : Inp) (s : PState) :
    (runFn f i s).1.inter = (runActs (f.row i).1 i s [] (f.row i).2).1.inter := by
  simp only [runFn]; split <;> rfl

theorem runFn_next (f : StateFn) (i : Inp) (s : PState) :
    (runFn f i s).2.2 = (runActs (f.row i).1 i s [] (f.row i).2).2.2 := by
  simp only [runFn]

theorem link_finish (s : PState) (out : List Seq) (n rn : Next) (st : St) (f : Bool)
    (h : ((f = true → contents st = s.inter) ∧ n = rn) ∨ isDeadNext n = true) (hchk : (f || isDeadNext rn) = true)
    (hnd : n ≠ .dispatch) :
    Link (finish s out n).st st := by
  cases n with
  | dispatch => exact absurd rfl hnd
  | st x =>
    simp only [finish, Link]
    rcases h with ⟨h1, h2⟩ | h
    · subst h2
      cases hf : f with
      | true => exact Or.inr (h1 hf)
      | false => rw [hf] at hchk; exact Or.inl (by simpa [isDeadNext] using hchk)
    · exact Or.inl (by simpa [isDeadNext] using h)
  | stop =>
    simp only [finish, Link]
    rcases h with ⟨h1, h2⟩ | h
    · subst h2
      cases hf : f with
      | true => exact Or.inr (h1 hf)
      | false => rw [hf] at hchk; simp [isDeadNext] at hchk
    · simp [isDeadNext] at h

/-- **One rune**, the parser's table: the link and the good hand-overs are kept. -/
theorem link_rune (c : Choice) (s : PState) (acc acc' : Acc) (r : Nat)
    (hrun : run .code St.init acc.ls = some acc.st) (hL : Link s acc.st) (hg : GoodViews acc)
    (hd : driveRune handTable c s acc r = some acc') :
    GoodViews acc' ∧ run .code St.init acc'.ls = some acc'.st ∧ Link (pstep s (.rune r)).st acc'.st := by
  have hchk := linkCheck_all s.state r
  simp only [linkCheck] at hchk
  simp only [driveRune, handTable] at hd
  cases hl1 : linkActs (handAnywhere.row (.rune r)).1 (!isDeadB s.state) with
  | none => rw [hl1] at hchk; cases hchk
  | some f1 =>
    rw [hl1] at hchk
    simp only at hchk
    cases hd1 : driveActs c (handAnywhere.row (.rune r)).1 r s acc with
    | none => rw [hd1] at hd; cases hd
    | some acc1 =>
      rw [hd1] at hd
      simp only at hd
      have hf0 : (!isDeadB s.state) = true → contents acc.st = s.inter := by
        intro h
        rcases hL with h' | h'
        · rw [h'] at h; cases h
        · exact h'
      obtain ⟨g1, r1, a1⟩ := link_acts c (handAnywhere.row (.rune r)).1 r s acc acc1 _ f1 []
        (handAnywhere.row (.rune r)).2 hrun hf0 hg hl1 hd1
      have hn1 := runFn_next handAnywhere (.rune r) s
      have hi1 := runFn_inter handAnywhere (.rune r) s
      have hs1 := VaxisModel.Lemmas.ParserStepBasic.runFn_state handAnywhere (.rune r) s
      show _ ∧ _ ∧ Link (step handTable s (.rune r)).st acc'.st
      unfold Model.Parser.step
      simp only [handTable]
      generalize hres : runFn handAnywhere (.rune r) s = res at hd hn1 hi1 hs1
      obtain ⟨s1, o1, n1⟩ := res
      simp only at hd hn1 hi1 hs1 ⊢
      rw [← hn1, ← hi1] at a1
      cases n1 with
      | dispatch =>
        simp only at hd ⊢
        -- `anywhere` passed the rune on: its row ends in `p.state(r, p)`
        have hleft : (f1 = true → contents acc1.st = s1.inter) ∧ Next.dispatch = (handAnywhere.row (.rune r)).2 := by
          rcases a1 with h | h
          · exact h
          · simp [isDeadNext] at h
        rw [← hleft.2] at hchk
        simp only at hchk
        rw [hs1] at hd ⊢
        cases hl2 : linkActs ((handFn s.state).row (.rune r)).1 f1 with
        | none => rw [hl2] at hchk; cases hchk
        | some f2 =>
          rw [hl2] at hchk
          simp only at hchk
          obtain ⟨g2, r2, a2⟩ := link_acts c ((handFn s.state).row (.rune r)).1 r s1 acc1 acc' f1 f2 []
            ((handFn s.state).row (.rune r)).2 r1 hleft.1 g1 hl2 hd
          have hn2 := runFn_next (handFn s.state) (.rune r) s1
          have hi2 := runFn_inter (handFn s.state) (.rune r) s1
          generalize hres2 : runFn (handFn s.state) (.rune r) s1 = res2 at hn2 hi2
          obtain ⟨s2, o2, n2⟩ := res2
          simp only at hn2 hi2 ⊢
          rw [← hn2, ← hi2] at a2
          refine ⟨g2, r2, ?_⟩
          by_cases hnd : n2 = .dispatch
          · -- a state function never returns `p.state(r, p)`: excluded by the check
            subst hnd
            rcases a2 with ⟨h1, h⟩ | h
            · rw [← h] at hchk
              cases hf2 : f2 with
              | true => simp only [finish, Link]; exact Or.inr (h1 hf2)
              | false => rw [hf2] at hchk; simp [isDeadNext] at hchk
            · simp [isDeadNext] at h
          · exact link_finish s2 (o1 ++ o2) n2 _ acc'.st f2 a2 hchk hnd
      | st x =>
        simp only at hd ⊢
        cases hd
        refine ⟨g1, r1, ?_⟩
        rcases a1 with ⟨h1, h2⟩ | h
        · rw [← h2] at hchk
          exact link_finish s1 o1 (.st x) (.st x) acc'.st f1 (Or.inl ⟨h1, rfl⟩) hchk (by simp)
        · simp only [finish, Link]
          exact Or.inl (by simpa [isDeadNext] using h)
      | stop =>
        simp only at hd ⊢
        cases hd
        refine ⟨g1, r1, ?_⟩
        rcases a1 with ⟨h1, h2⟩ | h
        · rw [← h2] at hchk
          exact link_finish s1 o1 .stop .stop acc'.st f1 (Or.inl ⟨h1, rfl⟩) hchk (by simp)
        · simp [isDeadNext] at h

theorem finish_contents (st st' : St) (k : Nat) (h : Model.ParserPools.step .code st (.finish k) = some st') :
    contents st' = contents st := by
  simp only [Model.ParserPools.step] at h
  split at h
  · cases h
  · cases h; rfl

/-- The composite invariant (the parser's table). -/
structure DInv (d : DSt) : Prop where
  isRun : run .code St.init d.trace = some d.pool
  link : Link d.ps d.pool
  good : GoodViews d.acc

theorem DInv_init : DInv DSt.init := ⟨rfl, Or.inl rfl, by intro v hv; cases hv⟩

theorem dstep_inv (d d' : DSt) (l : DLabel) (hinv : DInv d) (h : dstep handTable d l = some d') : DInv d' := by
  cases l with
  | rune r c =>
    simp only [dstep] at h
    cases hd : driveRune handTable c d.ps d.acc r with
    | none => rw [hd] at h; cases h
    | some acc' =>
      rw [hd] at h
      cases h
      obtain ⟨g, r', l⟩ := link_rune c d.ps d.acc acc' r hinv.isRun hinv.link hinv.good hd
      exact ⟨r', l, g⟩
  | finish k =>
    simp only [dstep] at h
    cases hs : Model.ParserPools.step .code d.acc.st (.finish k) with
    | none => rw [hs] at h; cases h; exact hinv
    | some st' =>
      rw [hs] at h
      cases h
      refine ⟨run_snoc St.init d.pool st' d.trace _ hinv.isRun hs, ?_, hinv.good⟩
      rcases hinv.link with h | h
      · exact Or.inl h
      · exact Or.inr (by rw [finish_contents d.acc.st st' k hs]; exact h)

theorem drun_inv (ls : List DLabel) (d d' : DSt) (hinv : DInv d) (h : drun handTable d ls = some d') : DInv d' := by
  induction ls generalizing d with
  | nil => simp only [drun, Option.some.injEq] at h; subst h; exact hinv
  | cons l rest ih =>
    simp only [drun] at h
    cases hs : dstep handTable d l with
    | none => rw [hs] at h; cases h
    | some d1 => rw [hs] at h; exact ih d1 (dstep_inv d d1 l hinv hs) h

end VaxisModel.Lemmas.ParserPoolsLink
