/-
C02: the run loop over arbitrary byte streams (Model/ParserIO.lean `runLoop`) equals, modulo
merging adjacent Prints, the automaton run over the units of the stream (`runRunes`): the reads,
bufio and the look-ahead of `print` disappear.
-/
import VaxisModel.Lemmas.ParserTextU
import VaxisModel.Lemmas.ParserOut
import VaxisModel.Lemmas.ParserStepBasic

namespace VaxisModel.Lemmas.ParserRead
open VaxisModel.Model.ParserTable VaxisModel.Model.Parser VaxisModel.Model.ParserIO VaxisModel.Model.ParserUtf8
open VaxisModel.Lemmas.Parser VaxisModel.Lemmas.ParserText VaxisModel.Lemmas.ParserUtf8 VaxisModel.Lemmas.ParserTextU
open VaxisModel.Lemmas.ParserStepBasic

def isPrint : Seq → Bool
  | .print _ => true
  | _ => false

/-! ### where Prints come from -/

theorem applyAct_noprint (a : Act) (ha : a ≠ .print) (r : Nat) (s : PState) :
    ∀ x ∈ (applyAct a r s).2, isPrint x = false := by
  cases a
  case print => exact absurd rfl ha
  case execute => simp only [applyAct]; split <;> simp [isPrint]
  case hook =>
    simp only [applyAct]
    split
    · simp
    · split <;> simp [isPrint]
  case runExit =>
    simp only [applyAct]
    cases h : s.exit with
    | none => simp [isPrint]
    | some f => cases f <;> simp [runExitFn, isPrint]
  case runExitIfSet =>
    simp only [applyAct]
    cases h : s.exit with
    | none => simp
    | some f => cases f <;> simp [runExitFn, isPrint]
  case runExitIfSetST =>
    simp only [applyAct]
    cases h : s.exit with
    | none => simp
    | some f => cases f <;> simp [runExitFn, isPrint]
  all_goals simp [applyAct, isPrint]

theorem runActs_noprint (acts : List Act) (hacts : Act.print ∉ acts) (i : Inp) (s : PState) (out : List Seq)
    (n : Next) (ho : ∀ x ∈ out, isPrint x = false) :
    ∀ x ∈ (runActs acts i s out n).2.1, isPrint x = false := by
  induction acts generalizing s out with
  | nil => simpa [runActs] using ho
  | cons a rest ih =>
    have hrest : Act.print ∉ rest := fun h => hacts (by simp [h])
    have ha : a ≠ .print := fun h => hacts (by simp [h])
    by_cases hret : ∃ n', a = .retIfIgnoreST n'
    · obtain ⟨n', rfl⟩ := hret
      simp only [runActs]
      split
      · exact ho
      · exact ih hrest s out ho
    · have hr1 : runActs (a :: rest) i s out n =
          (match i with
           | .rune r => runActs rest i (applyAct a r s).1 (out ++ (applyAct a r s).2) n
           | .eof => if usesRune a then (s, out ++ [.panic], .stop)
                     else runActs rest i (applyAct a 0 s).1 (out ++ (applyAct a 0 s).2) n) := by
        cases a <;> first | (exfalso; exact hret ⟨_, rfl⟩) | (cases i <;> simp [runActs])
      rw [hr1]
      cases i with
      | rune r =>
        apply ih hrest
        intro x hx
        rcases List.mem_append.mp hx with hx | hx
        · exact ho x hx
        · exact applyAct_noprint a ha r s x hx
      | eof =>
        simp only
        by_cases hu : usesRune a = true
        · simp only [hu, if_true]
          intro x hx
          rcases List.mem_append.mp hx with hx | hx
          · exact ho x hx
          · simp at hx; subst hx; rfl
        · simp only [hu, Bool.false_eq_true, if_false]
          apply ih hrest
          intro x hx
          rcases List.mem_append.mp hx with hx | hx
          · exact ho x hx
          · exact applyAct_noprint a ha 0 s x hx

theorem runFn_noprint (f : StateFn) (i : Inp) (s : PState) (h : Act.print ∉ (f.row i).1) :
    ∀ x ∈ (runFn f i s).2.1, isPrint x = false := by
  simp only [runFn]
  exact runActs_noprint _ h i s [] _ (by simp)

/-- A step on a rune whose `anywhere` row contains no `p.print(r)` and, when `anywhere` passes the
    rune on, whose state-function row contains none either, emits no Print. -/
theorem step_noprint (T : Table) (s : PState) (r : Nat) (h1 : Act.print ∉ (T.anywhere.row (.rune r)).1)
    (hnr : ∀ a ∈ (T.anywhere.row (.rune r)).1, ∀ n', a ≠ .retIfIgnoreST n')
    (h2 : (T.anywhere.row (.rune r)).2 = .dispatch → Act.print ∉ ((T.fn s.state).row (.rune r)).1) :
    ∀ x ∈ (step T s (.rune r)).out, isPrint x = false := by
  have hfin : ∀ s out n, (∀ x ∈ out, isPrint x = false) → ∀ x ∈ (finish s out n).out, isPrint x = false := by
    intro s out n ho
    cases n <;> simp only [finish] <;> try exact ho
    intro x hx
    rcases List.mem_append.mp hx with hx | hx
    · exact ho x hx
    · simp at hx; subst hx; rfl
  unfold step
  have g1 := runFn_noprint T.anywhere (.rune r) s h1
  have gs := runFn_state T.anywhere (.rune r) s
  have gn : (runFn T.anywhere (.rune r) s).2.2 = (T.anywhere.row (.rune r)).2 := by
    simp only [runFn]
    exact runActs_next_rune _ hnr r s [] _
  generalize runFn T.anywhere (.rune r) s = r1 at g1 gs gn
  obtain ⟨s1, o1, n1⟩ := r1
  simp only at gs gn
  cases n1 with
  | dispatch =>
    simp only
    have g2 := runFn_noprint (T.fn s1.state) (.rune r) s1 (by rw [gs]; exact h2 gn.symm)
    generalize runFn (T.fn s1.state) (.rune r) s1 = r2 at g2
    obtain ⟨s2, o2, n2⟩ := r2
    apply hfin
    intro x hx
    rcases List.mem_append.mp hx with hx | hx
    · exact g1 x hx
    · exact g2 x hx
  | st x => exact hfin _ _ _ g1
  | stop => exact hfin _ _ _ g1

def printFree (row : List Act × Next) : Bool := !row.1.contains .print

def noRet (row : List Act × Next) : Bool := row.1.all fun a => match a with | .retIfIgnoreST _ => false | _ => true

theorem anywhere_printFree (c : Nat) : printFree (handAnywhere.row (.rune c)) = true :=
  row_forall handAnywhere (fun row => printFree row = true) (by decide) (by decide +kernel) c

theorem anywhere_noRet (c : Nat) : noRet (handAnywhere.row (.rune c)) = true :=
  row_forall handAnywhere (fun row => noRet row = true) (by decide) (by decide +kernel) c

/-- CAN, SUB, ESC are handled by `anywhere` itself. -/
theorem anywhere_handles (c : Nat) (h : c = 0x18 ∨ c = 0x1A ∨ c = 0x1B) :
    (handAnywhere.row (.rune c)).2 ≠ .dispatch := by
  rcases h with h | h | h <;> subst h <;> decide

theorem nonground_printFree (st : StateId) (hst : st ≠ .ground) (c : Nat) :
    printFree ((handFn st).row (.rune c)) = true := by
  cases st <;> first
    | (exact absurd rfl hst)
    | (exact row_forall _ (fun row => printFree row = true) (by decide) (by decide +kernel) c)

theorem ground_c0_printFree (c : Nat) (hc : c < 0x20) (h1 : c ≠ 0x18) (h2 : c ≠ 0x1A) (h3 : c ≠ 0x1B) :
    printFree ((handFn .ground).row (.rune c)) = true := by
  have : ∀ c ∈ List.range 0x20, c ≠ 0x18 → c ≠ 0x1A → c ≠ 0x1B →
      printFree ((handFn .ground).row (.rune c)) = true := by decide +kernel
  exact this c (List.mem_range.mpr hc) h1 h2 h3

/-- **Prints come from ground only**: if a step of the hand model on a rune emits a Print, the
    parser is in ground, the rune is ≥ 0x20, and the step is exactly "emit that Print, stay". -/
theorem print_only_ground (s : PState) (r : Nat) (x : Seq) (hx : x ∈ (pstep s (.rune r)).out)
    (hp : isPrint x = true) : s.state = .ground ∧ 0x20 ≤ r ∧ pstep s (.rune r) = ⟨s, [.print r], false⟩ := by
  by_cases hg : s.state = .ground ∧ 0x20 ≤ r
  · exact ⟨hg.1, hg.2, ground_print s hg.1 r hg.2⟩
  · exfalso
    have h1 : Act.print ∉ (handAnywhere.row (.rune r)).1 := by
      have := anywhere_printFree r
      simpa [printFree] using this
    have hnr : ∀ a ∈ (handAnywhere.row (.rune r)).1, ∀ n', a ≠ .retIfIgnoreST n' := by
      intro a ha n' he
      have := anywhere_noRet r
      simp only [noRet, List.all_eq_true] at this
      have := this a ha
      subst he
      simp at this
    have h2 : (handAnywhere.row (.rune r)).2 = .dispatch → Act.print ∉ ((handFn s.state).row (.rune r)).1 := by
      intro hd
      have hne : r ≠ 0x18 ∧ r ≠ 0x1A ∧ r ≠ 0x1B := by
        refine ⟨fun h => ?_, fun h => ?_, fun h => ?_⟩
        · exact anywhere_handles r (Or.inl h) hd
        · exact anywhere_handles r (Or.inr (Or.inl h)) hd
        · exact anywhere_handles r (Or.inr (Or.inr h)) hd
      by_cases hs : s.state = .ground
      · rw [hs]
        have := ground_c0_printFree r (by
          rcases Nat.lt_or_ge r 0x20 with h | h
          · exact h
          · exact absurd ⟨hs, h⟩ hg) hne.1 hne.2.1 hne.2.2
        simpa [printFree] using this
      · have := nonground_printFree s.state hs r
        simpa [printFree] using this
    have := step_noprint handTable s r h1 hnr h2 x hx
    rw [hp] at this
    cases this


/-! ### the run loop -/

theorem deliver_noprint (cl : Nat → Nat) (start : Nat) (out : List Seq) (rd : Rd)
    (h : ∀ x ∈ out, isPrint x = false) : deliver cl start out rd = (out.map .seq, rd) := by
  induction out with
  | nil => rfl
  | cons x rest ih =>
    have hx := h x (by simp)
    have ih' := ih (fun y hy => h y (by simp [hy]))
    cases x <;> first | (simp [isPrint] at hx; done) | simp [deliver, ih']

@[simp] theorem flat_map_seq (l : List Seq) : flat (l.map .seq) = l := by
  induction l with
  | nil => rfl
  | cons x rest ih => simp [flat, ih]

theorem flat_append (a b : List Item) : flat (a ++ b) = flat a ++ flat b := by
  induction a with
  | nil => rfl
  | cons x rest ih => cases x <;> simp [flat, ih]

theorem absRun_ge (us rest : List U) (h : us.length ≤ absRun (us ++ rest)) : ∀ u ∈ us, absorbable u = true := by
  induction us with
  | nil => simp
  | cons u us ih =>
    simp only [List.cons_append, absRun, List.length_cons] at h
    by_cases hu : absorbable u = true
    · simp only [hu, if_true] at h
      intro v hv
      rcases List.mem_cons.mp hv with rfl | hv
      · exact hu
      · exact ih (by omega) v hv
    · simp only [hu, Bool.false_eq_true, if_false] at h
      omega

theorem Respects_append (cl : Nat → Nat) (pos : Nat) (us rest : List U) (h : Respects cl pos (us ++ rest)) :
    Respects cl (pos + ulen us) rest := by
  induction us generalizing pos with
  | nil => simpa [ulen] using h
  | cons u us ih =>
    simp only [List.cons_append, Respects] at h
    have := ih _ h.2
    simpa [ulen, Nat.add_assoc] using this

theorem runRunes_ground_text (s : PState) (hs : s.state = .ground) (w rest : List Nat) (hw : ∀ b ∈ w, 0x20 ≤ b) :
    runRunes handTable s (w ++ rest) = w.map .print ++ runRunes handTable s rest := by
  induction w with
  | nil => rfl
  | cons b w ih =>
    have hp := ground_print s hs b (hw b (by simp))
    simp only [pstep] at hp
    simp only [List.cons_append, runRunes, hp, Bool.false_eq_true, if_false, List.map_cons]
    rw [ih (fun b' hb' => hw b' (by simp [hb']))]
    simp

/-- **The reads disappear.**  For every byte stream still to come, every way it is split into reads
    and every cluster oracle that respects the stream, the items the run loop delivers are — once
    every Print is split into its runes — exactly what the automaton delivers for the units of the
    stream read one by one (`readRune`'s raw-byte fallback on every unit), then end of input. -/
theorem runLoop_flat (cl : Nat → Nat) (fuel : Nat) (s : PState) (rd : Rd)
    (hR : Respects cl rd.pos (units (bytesOf rd))) (hf : (bytesOf rd).length + 1 ≤ fuel) :
    flat (runLoop handTable cl fuel s rd) = runRunes handTable s ((units (bytesOf rd)).map U.raw) := by
  induction fuel generalizing s rd with
  | zero => omega
  | succ n ih =>
    obtain ⟨hnil, hcons⟩ := readRune_spec rd
    cases hbytes : bytesOf rd with
    | nil =>
      have h1 := hnil hbytes
      simp only [runLoop]
      generalize hr : readRune rd = rr at h1
      obtain ⟨ro, rd1⟩ := rr
      simp only at h1
      subst h1
      simp [flat_append, flat, runRunes]
    | cons b t =>
      obtain ⟨h1, h2, h3, _⟩ := hcons b t hbytes
      have hus := unit1_sz b t
      rw [hbytes, units_cons] at hR
      simp only [Respects] at hR
      simp only [runLoop]
      generalize hr : readRune rd = rr at h1 h2 h3
      obtain ⟨ro, rd1⟩ := rr
      simp only at h1 h2 h3
      subst h1
      rw [units_cons]
      simp only [List.map_cons, runRunes]
      by_cases hpr : ∃ x ∈ (pstep s (.rune (unit1 (b :: t)).raw)).out, isPrint x = true
      · obtain ⟨x, hx, hxp⟩ := hpr
        obtain ⟨hg, hr20, hp⟩ := print_only_ground s _ x hx hxp
        simp only [pstep] at hp
        simp only [hp, deliver, Bool.false_eq_true, if_false]
        obtain ⟨us, g1, g2, g3, g4, g5, g6, g7, g8, _, g10⟩ :=
          printLoop_spec (max 1 (cl rd.pos)) (rd1.remaining + 1) rd1 [(unit1 (b :: t)).raw]
        generalize hpl : printLoop (max 1 (cl rd.pos)) (rd1.remaining + 1) rd1 [(unit1 (b :: t)).raw] = pl
          at g1 g2 g3 g4 g6 g7 g8
        obtain ⟨g, rd2⟩ := pl
        simp only at g1 g2 g3 g4 g6 g7 g8
        rw [h2] at g2 g3 g4
        -- the units taken by the look-ahead are not C0 controls (oracle) and are valid (the loop itself)
        have habs : ∀ u ∈ us, absorbable u = true := by
          apply absRun_ge us (units (bytesOf rd2))
          rw [← g2]
          by_cases hne : us = []
          · subst hne; simp
          · have := g7 hne
            simp only [List.length_cons, List.length_nil] at this
            have h1 := hR.1
            omega
        have hraw : ∀ r ∈ us.map U.raw, 0x20 ≤ r := by
          intro r hr
          obtain ⟨u, hu, rfl⟩ := List.mem_map.mp hr
          have := habs u hu
          simp only [absorbable, g10 u hu, Bool.false_or, decide_eq_true_eq] at this
          exact this
        have hR2 : Respects cl rd2.pos (units (bytesOf rd2)) := by
          have := Respects_append cl _ us _ (by rw [← g2]; exact hR.2)
          rw [g6, h3]
          exact this
        have hlen : (bytesOf rd2).length + 1 ≤ n := by
          rw [g3]
          simp only [List.length_drop, List.length_cons]
          rw [hbytes] at hf
          simp only [List.length_cons] at hf
          omega
        have ihh := ih s rd2 hR2 hlen
        simp only [flat, flat_append, ihh, g1, g2, List.map_append]
        rw [runRunes_ground_text s hg _ _ hraw]
        simp
      · have hnp : ∀ x ∈ (step handTable s (.rune (unit1 (b :: t)).raw)).out, isPrint x = false := by
          intro x hx
          cases hxp : isPrint x with
          | false => rfl
          | true => exact absurd ⟨x, hx, hxp⟩ hpr
        rw [deliver_noprint _ _ _ _ hnp]
        simp only
        by_cases hstop : (step handTable s (.rune (unit1 (b :: t)).raw)).stop = true
        · simp [hstop, flat_append, flat]
        · simp only [hstop, Bool.false_eq_true, if_false, flat_append, flat_map_seq]
          congr 1
          have hR2 : Respects cl rd1.pos (units (bytesOf rd1)) := by rw [h2, h3]; exact hR.2
          have hlen : (bytesOf rd1).length + 1 ≤ n := by
            rw [h2]
            simp only [List.length_drop, List.length_cons]
            rw [hbytes] at hf
            simp only [List.length_cons] at hf
            omega
          rw [ih _ rd1 hR2 hlen, h2]


/-! ### whole streams -/

theorem runLoop_table_congr (T U : Table) (h : ∀ s i, step T s i = step U s i) (cl : Nat → Nat) (fuel : Nat)
    (s : PState) (rd : Rd) : runLoop T cl fuel s rd = runLoop U cl fuel s rd := by
  induction fuel generalizing s rd with
  | zero => rfl
  | succ n ih => simp only [runLoop, h, ih]

theorem runRunes_table_congr (T U : Table) (h : ∀ s i, step T s i = step U s i) (s : PState) (w : List Nat) :
    runRunes T s w = runRunes U s w := by
  induction w generalizing s with
  | nil => simp only [runRunes, h]
  | cons r w ih => simp only [runRunes, h, ih]

theorem flatten_filter_nonempty (chunks : List (List Nat)) :
    (chunks.filter (!·.isEmpty)).flatten = chunks.flatten := by
  induction chunks with
  | nil => rfl
  | cons c cs ih =>
    cases c with
    | nil => simpa [List.filter] using ih
    | cons b r => simp [List.filter, ih]

/-- `runChunks`, any reads, any respectful oracle: the automaton over the decoded stream. -/
theorem runChunks_flat (cl : Nat → Nat) (chunks : List (List Nat))
    (hR : Respects cl 0 (units chunks.flatten)) :
    flat (runChunks handTable cl chunks) = runRunes handTable PState.init (decodeRunes chunks.flatten) := by
  unfold runChunks
  have hb : bytesOf { buf := [], chunks := chunks.filter (!·.isEmpty) } = chunks.flatten := by
    simp [bytesOf, flatten_filter_nonempty]
  have := runLoop_flat cl (({ buf := [], chunks := chunks.filter (!·.isEmpty) } : Rd).remaining + 2) PState.init
    { buf := [], chunks := chunks.filter (!·.isEmpty) } (by rw [hb]; exact hR) (by rw [remaining_eq]; omega)
  rw [this, hb]
  rfl

/-- The oracle that never joins anything respects every stream. -/
theorem respects_const_one (pos : Nat) (us : List U) : Respects (fun _ => 1) pos us := by
  induction us generalizing pos with
  | nil => trivial
  | cons u us ih => exact ⟨by show 1 ≤ 1 + absRun us; omega, ih _⟩

theorem unit1_raw_ge (b : Nat) (t : List Nat) (hb : 0x20 ≤ b) : 0x20 ≤ (unit1 (b :: t)).raw := by
  by_cases hv : (decodeRune (b :: t)).1 = runeError ∧ (decodeRune (b :: t)).2 = 1
  · have : unit1 (b :: t) = ⟨b, true, 1⟩ := by simp [unit1, hv]
    rw [this]; exact hb
  · obtain ⟨_, h2⟩ := decodeRune_valid b t hv
    have hu : unit1 (b :: t) = ⟨(decodeRune (b :: t)).1, false, (decodeRune (b :: t)).2⟩ := by
      simp only [unit1, hv, if_false]
    rw [hu]
    show 0x20 ≤ (decodeRune (b :: t)).1
    have hsz := decodeRune_sz b t
    rcases Nat.lt_or_ge (decodeRune (b :: t)).1 0x20 with hlt | hge
    · exfalso
      have he : encodeRune (decodeRune (b :: t)).1 = [(decodeRune (b :: t)).1] := by
        unfold encodeRune
        rw [if_pos (by omega)]
      rw [he] at h2
      obtain ⟨k, hk⟩ : ∃ k, (decodeRune (b :: t)).2 = k + 1 := ⟨(decodeRune (b :: t)).2 - 1, by omega⟩
      rw [hk, List.take_succ_cons] at h2
      have h3 := (List.cons.inj h2).1
      rw [h3] at hlt
      omega
    · exact hge

theorem units_raw_ge (bs : List Nat) (h : ∀ b ∈ bs, 0x20 ≤ b) : ∀ u ∈ units bs, 0x20 ≤ u.raw := by
  induction hn : bs.length using Nat.strongRecOn generalizing bs with
  | _ n ih =>
    cases bs with
    | nil => simp
    | cons b t =>
      have hs := unit1_sz b t
      rw [units_cons]
      have hlen : ((b :: t).drop (unit1 (b :: t)).sz).length < n := by
        rw [← hn]; simp only [List.length_drop, List.length_cons]; omega
      have i := ih _ hlen _ (fun x hx => h x (List.mem_of_mem_drop hx)) rfl
      intro u hu
      rcases List.mem_cons.mp hu with rfl | hu
      · exact unit1_raw_ge b t (h b (by simp))
      · exact i u hu

/-- The automaton on text from ground: one Print per rune, then `EOF{}`. -/
theorem runRunes_text (s : PState) (hs : s.state = .ground) (he : s.exit = none) (w : List Nat)
    (hw : ∀ r ∈ w, 0x20 ≤ r) : runRunes handTable s w = w.map .print ++ [.eof] := by
  have := runRunes_ground_text s hs w [] hw
  rw [List.append_nil] at this
  rw [this]
  have hq := pstep_eof_quiet s he
  simp only [pstep] at hq
  simp [runRunes, hq]


/-! ### Prints as clusters: one oracle cluster each, unless cut by a read boundary -/

/-- Reader invariant w.r.t. the original list of reads. -/
def InvRd (chunks0 : List (List Nat)) (rd : Rd) : Prop :=
  rd.pos + (bytesOf rd).length = chunks0.flatten.length ∧ ∃ k, rd.chunks = chunks0.drop k

theorem InvRd.cut {chunks0 : List (List Nat)} {rd : Rd} (h : InvRd chunks0 rd) (hb : rd.buf = []) :
    IsCut chunks0 rd.pos := by
  obtain ⟨h1, k, h2⟩ := h
  refine ⟨k, ?_⟩
  have hsplit : chunks0.flatten.length = (chunks0.take k).flatten.length + (chunks0.drop k).flatten.length := by
    rw [← List.length_append, ← List.flatten_append, List.take_append_drop]
  simp only [bytesOf, hb, h2, List.nil_append] at h1
  omega

theorem startsInvalid_of_flatten (cl : Nat → Nat) (cut : Nat → Prop) (pos : Nat) (blocks : List (List U)) (u : U)
    (rest : List U) (hB : BlocksOk cl cut pos blocks) (hf : blocks.flatten = u :: rest) (hu : u.inv = true) :
    startsInvalid blocks := by
  cases blocks with
  | nil => simp at hf
  | cons b bs =>
    cases b with
    | nil => exact absurd rfl hB.1
    | cons u0 t0 =>
      simp only [List.flatten_cons, List.cons_append, List.cons.injEq] at hf
      show u0.inv = true
      rw [hf.1]; exact hu

/-- **Text as blocks.**  On a stream of bytes ≥ 0x20, whatever the reads and the oracle (no
    hypothesis on it): the items are Prints then `EOF{}`; the Prints are consecutive blocks of the
    units of the stream (`render`: every unit as its own rune; only the first unit of a block can be
    an invalid byte); each block is one cluster of the oracle — or shorter, and then it ends exactly
    at a read boundary or in front of an invalid byte. -/
theorem runLoop_blocks (cl : Nat → Nat) (chunks0 : List (List Nat)) (fuel : Nat) (s : PState)
    (hs : s.state = .ground) (he : s.exit = none) (rd : Rd) (htext : ∀ b ∈ bytesOf rd, 0x20 ≤ b)
    (hinv : InvRd chunks0 rd) (hf : (bytesOf rd).length + 1 ≤ fuel) :
    ∃ blocks : List (List U),
      runLoop handTable cl fuel s rd = blocks.map (fun b => Item.print (render b)) ++ [.seq .eof] ∧
      blocks.flatten = units (bytesOf rd) ∧ BlocksOk cl (IsCut chunks0) rd.pos blocks := by
  induction fuel generalizing rd with
  | zero => omega
  | succ n ih =>
    obtain ⟨hnil, hcons⟩ := readRune_spec rd
    cases hbytes : bytesOf rd with
    | nil =>
      have h1 := hnil hbytes
      simp only [runLoop]
      generalize hr : readRune rd = rr at h1
      obtain ⟨ro, rd1⟩ := rr
      simp only at h1
      subst h1
      have hq := pstep_eof_quiet s he
      simp only [pstep] at hq
      exact ⟨[], by simp [hq], by simp, trivial⟩
    | cons b t =>
      obtain ⟨h1, h2, h3, ⟨k1, h4⟩⟩ := hcons b t hbytes
      have hus := unit1_sz b t
      have hb20 := htext b (by rw [hbytes]; simp)
      have hr20 := unit1_raw_ge b t hb20
      simp only [runLoop]
      generalize hr : readRune rd = rr at h1 h2 h3 h4
      obtain ⟨ro, rd1⟩ := rr
      simp only at h1 h2 h3 h4
      subst h1
      have hp := ground_print s hs _ hr20
      simp only [pstep] at hp
      simp only [hp, deliver, Bool.false_eq_true, if_false]
      obtain ⟨us, g1, g2, g3, g4, g5, g6, g7, g8, ⟨k2, g9⟩, g10⟩ :=
        printLoop_spec (max 1 (cl rd.pos)) (rd1.remaining + 1) rd1 [(unit1 (b :: t)).raw]
      generalize hpl : printLoop (max 1 (cl rd.pos)) (rd1.remaining + 1) rd1 [(unit1 (b :: t)).raw] = pl
        at g1 g2 g3 g4 g6 g7 g8 g9
      obtain ⟨g, rd2⟩ := pl
      simp only at g1 g2 g3 g4 g6 g7 g8 g9
      rw [h2] at g2 g3 g4
      obtain ⟨i1, k0, i2⟩ := hinv
      rw [hbytes] at i1 hf
      simp only [List.length_cons] at i1 hf
      simp only [List.length_drop, List.length_cons] at g4
      have hinv2 : InvRd chunks0 rd2 := by
        refine ⟨?_, ⟨k0 + k1 + k2, ?_⟩⟩
        · rw [g6, h3, g3]
          simp only [List.length_drop, List.length_cons]
          omega
        · rw [g9, h4, i2, List.drop_drop, List.drop_drop, Nat.add_assoc]
      have htext2 : ∀ x ∈ bytesOf rd2, 0x20 ≤ x := by
        intro x hx
        rw [g3] at hx
        exact htext x (by rw [hbytes]; exact List.mem_of_mem_drop (List.mem_of_mem_drop hx))
      have hlen : (bytesOf rd2).length + 1 ≤ n := by
        rw [g3]
        simp only [List.length_drop, List.length_cons]
        omega
      obtain ⟨blocks, j1, j2, j3⟩ := ih rd2 htext2 hinv2 hlen
      refine ⟨(unit1 (b :: t) :: us) :: blocks, ?_, ?_, ?_⟩
      · simp [j1, g1, render]
      · rw [List.flatten_cons, j2, units_cons, g2]; rfl
      · have hpos : rd2.pos = rd.pos + ulen (unit1 (b :: t) :: us) := by
          rw [g6, h3]; simp only [ulen, List.map_cons, List.sum_cons]; omega
        refine ⟨by simp, by simpa using g10, ?_, ?_, by rw [← hpos]; exact j3⟩
        · by_cases hne : us = []
          · subst hne; simp only [List.length_cons, List.length_nil]; omega
          · have := g7 hne
            simp only [List.length_cons, List.length_nil] at this ⊢
            omega
        · have hrem : rd1.remaining = (t.length + 1) - (unit1 (b :: t)).sz := by
            rw [remaining_eq, h2]; simp
          simp only [List.length_cons, List.length_nil] at g8 ⊢
          rcases g8 with h | h | h | ⟨u, rest, h, hu⟩
          · left
            by_cases hne : us = []
            · subst hne; simp only [List.length_nil] at h ⊢; omega
            · have := g7 hne
              simp only [List.length_cons, List.length_nil] at this
              omega
          · right; left; rw [← hpos]; exact hinv2.cut h
          · exfalso; omega
          · right; right
            rw [h] at j2
            exact startsInvalid_of_flatten cl _ _ blocks u rest j3 j2 hu


theorem flat_blocks (blocks : List (List U)) :
    flat (blocks.map (fun b => Item.print (render b)) ++ [.seq .eof]) =
      (blocks.flatten.map U.raw).map Seq.print ++ [.eof] := by
  induction blocks with
  | nil => rfl
  | cons b rest ih =>
    simp only [List.map_cons, List.cons_append, flat, List.flatten_cons, List.map_append,
      List.append_assoc]
    rw [ih]; rfl

theorem take_filter_nonempty (cs : List (List Nat)) (k : Nat) :
    ∃ k', ((cs.filter (!·.isEmpty)).take k).flatten = (cs.take k').flatten := by
  induction cs generalizing k with
  | nil => exact ⟨0, by simp⟩
  | cons c rest ih =>
    cases c with
    | nil =>
      obtain ⟨k', hk⟩ := ih k
      exact ⟨k' + 1, by simpa [List.filter] using hk⟩
    | cons b r =>
      cases k with
      | zero => exact ⟨0, by simp⟩
      | succ j =>
        obtain ⟨k', hk⟩ := ih j
        exact ⟨k' + 1, by simp [List.filter, hk]⟩

theorem IsCut_of_filter (cs : List (List Nat)) (n : Nat) (h : IsCut (cs.filter (!·.isEmpty)) n) : IsCut cs n := by
  obtain ⟨k, hk⟩ := h
  obtain ⟨k', hk'⟩ := take_filter_nonempty cs k
  exact ⟨k', by rw [hk, hk']⟩

theorem BlocksOk_mono (cl : Nat → Nat) (P Q : Nat → Prop) (hPQ : ∀ n, P n → Q n) (pos : Nat) (bl : List (List U))
    (h : BlocksOk cl P pos bl) : BlocksOk cl Q pos bl := by
  induction bl generalizing pos with
  | nil => trivial
  | cons b rest ih =>
    obtain ⟨h1, h2, h3, h4, h5⟩ := h
    exact ⟨h1, h2, h3, h4.imp id (Or.imp (hPQ _) id), ih _ h5⟩

theorem runChunks_blocks (cl : Nat → Nat) (chunks : List (List Nat)) (htext : ∀ b ∈ chunks.flatten, 0x20 ≤ b) :
    ∃ blocks : List (List U),
      runChunks handTable cl chunks = blocks.map (fun b => Item.print (render b)) ++ [.seq .eof] ∧
      blocks.flatten = units chunks.flatten ∧ BlocksOk cl (IsCut chunks) 0 blocks := by
  unfold runChunks
  have hb : bytesOf { buf := [], chunks := chunks.filter (!·.isEmpty) } = chunks.flatten := by
    simp [bytesOf, flatten_filter_nonempty]
  obtain ⟨blocks, h1, h2, h3⟩ := runLoop_blocks cl (chunks.filter (!·.isEmpty))
    (({ buf := [], chunks := chunks.filter (!·.isEmpty) } : Rd).remaining + 2) PState.init rfl rfl
    { buf := [], chunks := chunks.filter (!·.isEmpty) } (by rw [hb]; exact htext)
    ⟨by rw [hb]; simp [flatten_filter_nonempty], ⟨0, by simp⟩⟩ (by rw [remaining_eq]; omega)
  exact ⟨blocks, h1, by rw [h2, hb], BlocksOk_mono cl _ _ (IsCut_of_filter chunks) _ _ h3⟩

end VaxisModel.Lemmas.ParserRead
