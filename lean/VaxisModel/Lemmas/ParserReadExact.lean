/-
C02: the reading side inside the region of finding F102d.  With an oracle that only respects C0
controls (uniseg never joins one: GB4/GB5) — invalid bytes may be joined — the run loop still equals
the automaton over a rune list that is the decoded stream unit by unit, except that an invalid byte
taken by `print`'s look-ahead reads as U+FFFD (`Alt`).  That is the whole alteration.
-/
import VaxisModel.Lemmas.ParserRead

namespace VaxisModel.Lemmas.ParserReadExact
open VaxisModel.Model.ParserTable VaxisModel.Model.Parser VaxisModel.Model.ParserIO VaxisModel.Model.ParserUtf8
open VaxisModel.Lemmas.Parser VaxisModel.Lemmas.ParserText VaxisModel.Lemmas.ParserUtf8 VaxisModel.Lemmas.ParserTextU
open VaxisModel.Lemmas.ParserRead

/-- The look-ahead may take the unit without disturbing the automaton: what `ReadRune` returns for
    it (the scalar, or U+FFFD for an invalid byte) is ≥ 0x20. -/
def absorbableC (u : U) : Bool := decide (0x20 ≤ u.look)

def absRunC : List U → Nat
  | [] => 0
  | u :: us => if absorbableC u then absRunC us + 1 else 0

/-- The oracle never extends a cluster over a C0 control (no condition on invalid bytes). -/
def RespectsC0 (cl : Nat → Nat) : Nat → List U → Prop
  | _, [] => True
  | pos, u :: us => cl pos ≤ 1 + absRunC us ∧ RespectsC0 cl (pos + u.sz) us

instance RespectsC0.dec (cl : Nat → Nat) : ∀ pos us, Decidable (RespectsC0 cl pos us)
  | _, [] => isTrue trivial
  | pos, u :: us =>
    match Nat.decLe (cl pos) (1 + absRunC us), RespectsC0.dec cl (pos + u.sz) us with
    | isTrue h1, isTrue h2 => isTrue ⟨h1, h2⟩
    | isFalse h1, _ => isFalse fun h => h1 h.1
    | _, isFalse h2 => isFalse fun h => h2 h.2

/-- A delivered rune and the unit of the stream it stands for: the unit's rune (raw byte for an
    invalid one) — or U+FFFD if the unit is an invalid byte. -/
def Alt (r : Nat) (u : U) : Prop := r = u.raw ∨ (u.inv = true ∧ r = runeError)

/-- Rune list vs unit list, position by position. -/
inductive AltList : List Nat → List U → Prop
  | nil : AltList [] []
  | cons {r : Nat} {u : U} {rs : List Nat} {us : List U} (h : Alt r u) (t : AltList rs us) : AltList (r :: rs) (u :: us)

theorem AltList.append {a : List Nat} {b : List U} {c : List Nat} {d : List U} (h1 : AltList a b) (h2 : AltList c d) :
    AltList (a ++ c) (b ++ d) := by
  induction h1 with
  | nil => exact h2
  | cons h _ ih => exact .cons h ih

theorem altList_raw (us : List U) : AltList (us.map U.raw) us := by
  induction us with
  | nil => exact .nil
  | cons u us ih => exact .cons (Or.inl rfl) ih

/-- With no invalid unit the two lists are equal. -/
theorem AltList.eq_of_valid {rs : List Nat} {us : List U} (h : AltList rs us) (hv : ∀ u ∈ us, u.inv = false) :
    rs = us.map U.raw := by
  induction h with
  | nil => rfl
  | @cons r u rs us h _ ih =>
    have hu := hv u (by simp)
    rcases h with h | ⟨h, _⟩
    · rw [h, ih (fun v hv' => hv v (by simp [hv']))]; rfl
    · rw [hu] at h; cases h

theorem absRunC_ge (us rest : List U) (h : us.length ≤ absRunC (us ++ rest)) : ∀ u ∈ us, absorbableC u = true := by
  induction us with
  | nil => simp
  | cons u us ih =>
    simp only [List.cons_append, absRunC, List.length_cons] at h
    by_cases hu : absorbableC u = true
    · simp only [hu, if_true] at h
      intro v hv
      rcases List.mem_cons.mp hv with rfl | hv
      · exact hu
      · exact ih (by omega) v hv
    · simp only [hu, Bool.false_eq_true, if_false] at h
      omega

theorem RespectsC0_append (cl : Nat → Nat) (pos : Nat) (us rest : List U) (h : RespectsC0 cl pos (us ++ rest)) :
    RespectsC0 cl (pos + ulen us) rest := by
  induction us generalizing pos with
  | nil => simpa [ulen] using h
  | cons u us ih =>
    simp only [List.cons_append, RespectsC0] at h
    have := ih _ h.2
    simpa [ulen, Nat.add_assoc] using this

theorem alt_look (u : U) : Alt u.look u := by
  unfold Alt U.look
  cases h : u.inv <;> simp

theorem altList_look (us : List U) : AltList (us.map U.look) us := by
  induction us with
  | nil => exact .nil
  | cons u us ih => exact .cons (alt_look u) ih

/-- **The reads disappear — exactly, inside the F102d region too.** -/
theorem runLoop_flat_exact (cl : Nat → Nat) (fuel : Nat) (s : PState) (rd : Rd)
    (hR : RespectsC0 cl rd.pos (units (bytesOf rd))) (hf : (bytesOf rd).length + 1 ≤ fuel) :
    ∃ rs : List Nat, flat (runLoop handTable cl fuel s rd) = runRunes handTable s rs ∧
      AltList rs (units (bytesOf rd)) := by
  induction fuel generalizing s rd with
  | zero => omega
  | succ n ih =>
    obtain ⟨hnil, hcons⟩ := readRune_spec rd
    cases hbytes : bytesOf rd with
    | nil =>
      have h1 := hnil hbytes
      simp only [runLoop]
      generalize hr : readRune rd = rr at h1
      obtain ⟨ro, rd1⟩ := rr
      simp only at h1
      subst h1
      exact ⟨[], by simp [flat_append, flat, runRunes], .nil⟩
    | cons b t =>
      obtain ⟨h1, h2, h3, _⟩ := hcons b t hbytes
      have hus := unit1_sz b t
      rw [hbytes, units_cons] at hR
      simp only [RespectsC0] at hR
      simp only [runLoop]
      generalize hr : readRune rd = rr at h1 h2 h3
      obtain ⟨ro, rd1⟩ := rr
      simp only at h1 h2 h3
      subst h1
      rw [units_cons]
      dsimp only
      by_cases hpr : ∃ x ∈ (pstep s (.rune (unit1 (b :: t)).raw)).out, isPrint x = true
      · obtain ⟨x, hx, hxp⟩ := hpr
        obtain ⟨hg, hr20, hp⟩ := print_only_ground s _ x hx hxp
        simp only [pstep] at hp
        simp only [hp, deliver, Bool.false_eq_true, if_false]
        obtain ⟨us, g1, g2, g3, g4, g5, g6, g7, g8, _⟩ :=
          printLoop_spec (max 1 (cl rd.pos)) (rd1.remaining + 1) rd1 [(unit1 (b :: t)).raw]
        generalize hpl : printLoop (max 1 (cl rd.pos)) (rd1.remaining + 1) rd1 [(unit1 (b :: t)).raw] = pl
          at g1 g2 g3 g4 g6 g7 g8
        obtain ⟨g, rd2⟩ := pl
        simp only at g1 g2 g3 g4 g6 g7 g8
        rw [h2] at g2 g3 g4
        have habs : ∀ u ∈ us, absorbableC u = true := by
          apply absRunC_ge us (units (bytesOf rd2))
          rw [← g2]
          by_cases hne : us = []
          · subst hne; simp
          · have := g7 hne
            simp only [List.length_cons, List.length_nil] at this
            have h1 := hR.1
            omega
        have hraw : ∀ r ∈ us.map U.look, 0x20 ≤ r := by
          intro r hr
          obtain ⟨u, hu, rfl⟩ := List.mem_map.mp hr
          have := habs u hu
          simpa [absorbableC] using this
        have hR2 : RespectsC0 cl rd2.pos (units (bytesOf rd2)) := by
          have := RespectsC0_append cl _ us _ (by rw [← g2]; exact hR.2)
          rw [g6, h3]
          exact this
        have hlen : (bytesOf rd2).length + 1 ≤ n := by
          rw [g3]
          simp only [List.length_drop, List.length_cons]
          rw [hbytes] at hf
          simp only [List.length_cons] at hf
          omega
        obtain ⟨rs2, i1, i2⟩ := ih s rd2 hR2 hlen
        refine ⟨(unit1 (b :: t)).raw :: (us.map U.look ++ rs2), ?_, ?_⟩
        · simp only [flat, flat_append, i1, g1, runRunes, hp, Bool.false_eq_true, if_false]
          rw [runRunes_ground_text s hg _ _ hraw]
          simp
        · rw [g2]
          exact .cons (Or.inl rfl) ((altList_look us).append i2)
      · have hnp : ∀ x ∈ (step handTable s (.rune (unit1 (b :: t)).raw)).out, isPrint x = false := by
          intro x hx
          cases hxp : isPrint x with
          | false => rfl
          | true => exact absurd ⟨x, hx, hxp⟩ hpr
        rw [deliver_noprint _ _ _ _ hnp]
        simp only
        by_cases hstop : (step handTable s (.rune (unit1 (b :: t)).raw)).stop = true
        · refine ⟨(unit1 (b :: t)).raw :: (units ((b :: t).drop (unit1 (b :: t)).sz)).map U.raw, ?_, ?_⟩
          · simp [hstop, flat_append, flat, runRunes]
          · exact .cons (Or.inl rfl) (altList_raw _)
        · have hR2 : RespectsC0 cl rd1.pos (units (bytesOf rd1)) := by rw [h2, h3]; exact hR.2
          have hlen : (bytesOf rd1).length + 1 ≤ n := by
            rw [h2]
            simp only [List.length_drop, List.length_cons]
            rw [hbytes] at hf
            simp only [List.length_cons] at hf
            omega
          obtain ⟨rs2, i1, i2⟩ := ih (step handTable s (.rune (unit1 (b :: t)).raw)).st rd1 hR2 hlen
          refine ⟨(unit1 (b :: t)).raw :: rs2, ?_, ?_⟩
          · simp only [hstop, Bool.false_eq_true, if_false, flat_append, flat_map_seq, runRunes, i1]
          · rw [← h2]; exact .cons (Or.inl rfl) i2


theorem runChunks_flat_exact (cl : Nat → Nat) (chunks : List (List Nat))
    (hR : RespectsC0 cl 0 (units chunks.flatten)) :
    ∃ rs : List Nat, flat (runChunks handTable cl chunks) = runRunes handTable PState.init rs ∧
      AltList rs (units chunks.flatten) := by
  unfold runChunks
  have hb : bytesOf { buf := [], chunks := chunks.filter (!·.isEmpty) } = chunks.flatten := by
    simp [bytesOf, flatten_filter_nonempty]
  obtain ⟨rs, h1, h2⟩ := runLoop_flat_exact cl
    (({ buf := [], chunks := chunks.filter (!·.isEmpty) } : Rd).remaining + 2) PState.init
    { buf := [], chunks := chunks.filter (!·.isEmpty) } (by rw [hb]; exact hR) (by rw [remaining_eq]; omega)
  exact ⟨rs, h1, by rw [← hb]; exact h2⟩

end VaxisModel.Lemmas.ParserReadExact
