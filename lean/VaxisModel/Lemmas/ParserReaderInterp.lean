/-
C02: the interpreter of the regenerated `readRune` / `print` skeletons (Model/ParserReaderInterp.lean)
computes the model functions `ParserIO.readRune` / `ParserIO.printLoop`, and the width of a Print.
-/
import VaxisModel.Model.ParserReaderInterp
import VaxisModel.Lemmas.ParserTextU

namespace VaxisModel.Lemmas.ParserReaderInterp
open VaxisModel.Model.Parser VaxisModel.Model.ParserIO VaxisModel.Model.ParserReaderSk
open VaxisModel.Model.ParserReaderInterp VaxisModel.Lemmas.ParserTextU

theorem readRuneB_nil (b : BR) (h : b.rd.fill.buf = []) : readRuneB b = ((0, 0, true), ⟨b.rd.fill, none⟩) := by
  simp only [readRuneB, h]

theorem readRuneB_cons (b : BR) (b0 : Nat) (t : List Nat) (h : b.rd.fill.buf = b0 :: t) :
    readRuneB b = (((decodeRune (b0 :: t)).1, (decodeRune (b0 :: t)).2, false),
      ⟨b.rd.fill.consume (decodeRune (b0 :: t)).2, some b.rd.fill⟩) := by
  simp only [readRuneB, h]

/-- `readRune`, statement by statement, is the model's `readRune`. -/
theorem readRuneI_hand (rd : Rd) : readRuneI (handReadRune true) rd = some (readRune rd) := by
  cases hb : rd.fill.buf with
  | nil =>
    simp only [readRuneI, handReadRune, interpRead, readRuneB_nil ⟨rd, none⟩ hb, readRune, hb]
    simp [runeError]
  | cons b0 brest =>
    simp only [readRuneI, handReadRune, interpRead, readRuneB_cons ⟨rd, none⟩ b0 brest hb, readRune, hb,
      fallback_flag, Bool.not_true, Bool.false_or, Bool.or_false]
    by_cases hc : (decide ((decodeRune (b0 :: brest)).1 = runeError) && decide ((decodeRune (b0 :: brest)).2 = 1)) = true
    · simp [hc, unreadRuneB, readByteB, hb]
    · simp [hc]

/-! ### print -/

/-- The body of the look-ahead loop as the model transcribes it. -/
def handLoop : List RStmt := [.peekRuneSized, .ifInvalidUnreadBreak, .writeNext, .firstCluster, .ifRestUnreadBreak]

theorem fill_buf_ne (rd : Rd) (h : rd.buf.isEmpty = false) : rd.fill.buf ≠ [] := by
  obtain ⟨_, _, _, _, ⟨x, hx⟩, _⟩ := fill_spec rd
  rw [hx]
  cases hb : rd.buf with
  | nil => rw [hb] at h; simp at h
  | cons a t => simp

/-- **The look-ahead loop, statement by statement, is `printLoop`**; and the width it leaves is the
    one `FirstGraphemeClusterInString` reported for the grapheme it leaves — or it has not changed
    anything (no iteration reached the cluster call). -/
theorem whileBuffered_hand (cl : Nat) (wd : List Rune → Nat) (fuel : Nat) (st : PR)
    (hacc : st.bldr = st.grapheme) (hlen : st.grapheme.length ≤ cl) :
    ∃ st', whileBuffered cl wd handLoop fuel st = some st' ∧
      (st'.grapheme, st'.b.rd) = printLoop cl fuel st.b.rd st.grapheme ∧
      ((st'.w = st.w ∧ st'.grapheme = st.grapheme) ∨ st'.w = wd st'.grapheme) := by
  induction fuel generalizing st with
  | zero => exact ⟨st, rfl, rfl, Or.inl ⟨rfl, rfl⟩⟩
  | succ n ih =>
    by_cases he : st.b.rd.buf.isEmpty = true
    · refine ⟨st, by simp [whileBuffered, he], by simp [printLoop, he], Or.inl ⟨rfl, rfl⟩⟩
    · have he' : st.b.rd.buf.isEmpty = false := by simpa using he
      have hne := fill_buf_ne st.b.rd he'
      cases hfb : st.b.rd.fill.buf with
      | nil => exact absurd hfb hne
      | cons b0 t =>
        have hrb := readRuneB_cons st.b b0 t hfb
        simp only [whileBuffered, he', Bool.false_eq_true, if_false, handLoop, loopBody, hrb, printLoop, hfb,
          lookahead_flag, Bool.true_and]
        by_cases hinv : (decide ((decodeRune (b0 :: t)).1 = runeError) && decide ((decodeRune (b0 :: t)).2 = 1)) = true
        · simp only [hinv, if_true, unreadRuneB, Option.map_some]
          exact ⟨_, rfl, rfl, Or.inl ⟨rfl, rfl⟩⟩
        · simp only [hinv, Bool.false_eq_true, if_false, hacc, List.length_append, List.length_cons, List.length_nil]
          by_cases hcl : cl < st.grapheme.length + 1
          · have hcl' : st.grapheme.length + 1 > cl := hcl
            have heq : cl = st.grapheme.length := by omega
            have htake : (st.grapheme ++ [(decodeRune (b0 :: t)).1]).take cl = st.grapheme := by
              rw [heq]; exact List.take_left' rfl
            simp only [hcl, decide_true, if_true, unreadRuneB, Option.map_some, hcl', htake]
            exact ⟨_, rfl, rfl, Or.inr rfl⟩
          · have hcl' : ¬ (st.grapheme.length + 1 > cl) := hcl
            have htake : (st.grapheme ++ [(decodeRune (b0 :: t)).1]).take cl = st.grapheme ++ [(decodeRune (b0 :: t)).1] := by
              apply List.take_of_length_le; simp; omega
            simp only [hcl, decide_false, Bool.false_eq_true, if_false, hcl', htake]
            obtain ⟨st', i1, i2, i3⟩ := ih
              { st with b := ⟨st.b.rd.fill.consume (decodeRune (b0 :: t)).2, some st.b.rd.fill⟩,
                        next := (decodeRune (b0 :: t)).1, size := (decodeRune (b0 :: t)).2,
                        bldr := st.grapheme ++ [(decodeRune (b0 :: t)).1],
                        grapheme := st.grapheme ++ [(decodeRune (b0 :: t)).1], restNonEmpty := false,
                        w := wd (st.grapheme ++ [(decodeRune (b0 :: t)).1]) }
              rfl (by simp; omega)
            refine ⟨st', i1, i2, Or.inr ?_⟩
            rcases i3 with ⟨j1, j2⟩ | j
            · rw [j1, j2]
            · exact j

/-- **`print`, statement by statement**: the grapheme and the reader afterwards are the model's
    `printLoop` (started with the builder `[r]`), and the width is
    `FirstGraphemeClusterInString`'s for that grapheme, re-measured with `StringWidth` when it is 0
    (also when the loop never ran). -/
theorem interpPrint_hand (cl : Nat) (hcl : 1 ≤ cl) (wd sw : List Rune → Nat) (fuel : Nat) (r : Rune) (rd : Rd) :
    ∃ w, interpPrint cl wd sw fuel r handPrint rd =
        some ((printLoop cl fuel rd [r]).1, w, (printLoop cl fuel rd [r]).2) ∧
      (w = sw (printLoop cl fuel rd [r]).1 ∨ (w = wd (printLoop cl fuel rd [r]).1 ∧ w ≠ 0)) := by
  obtain ⟨st', h1, h2, h3⟩ := whileBuffered_hand cl wd fuel
    { b := ⟨rd, none⟩, bldr := [r], grapheme := [r], restNonEmpty := false, w := 0 } rfl (by simpa using hcl)
  have hg : st'.grapheme = (printLoop cl fuel rd [r]).1 := by
    have := congrArg Prod.fst h2; simpa using this
  have hr : st'.b.rd = (printLoop cl fuel rd [r]).2 := by
    have := congrArg Prod.snd h2; simpa using this
  simp only [interpPrint, handPrint, prePhase, splitEnd, List.reverse_cons, List.reverse_nil, List.nil_append,
    List.cons_append]
  have h1' : whileBuffered cl wd [.peekRuneSized, .ifInvalidUnreadBreak, .writeNext, .firstCluster, .ifRestUnreadBreak] fuel
      { b := ⟨rd, none⟩, bldr := [r], grapheme := [r], restNonEmpty := false, w := 0 } = some st' := h1
  simp only [h1', postPhase]
  by_cases hw : st'.w = 0
  · simp only [hw, if_true]
    exact ⟨sw st'.grapheme, by rw [hg, hr], Or.inl (by rw [hg])⟩
  · simp only [hw, if_false]
    refine ⟨st'.w, by rw [hg, hr], ?_⟩
    rcases h3 with ⟨j1, _⟩ | j
    · exact absurd j1 hw
    · exact Or.inr ⟨by rw [j, hg], hw⟩

/-! ### the run loop over interpreted bodies = the model's run loop -/

/-- What is needed of a `readRune` body / a `print` body. -/
def ReadOk (rbody : List RStmt) : Prop := ∀ rd, readRuneI rbody rd = some (readRune rd)
def PrintOk (pbody : List RStmt) : Prop := ∀ cl, 1 ≤ cl → ∀ fuel r rd, ∃ w,
  interpPrint cl (fun _ => 0) (fun _ => 0) fuel r pbody rd = some ((printLoop cl fuel rd [r]).1, w, (printLoop cl fuel rd [r]).2)

theorem deliverI_eq (pbody : List RStmt) (hp : PrintOk pbody) (cl : Nat → Nat) (start : Nat) (out : List Seq) (rd : Rd) :
    deliverI pbody cl start out rd = some (deliver cl start out rd) := by
  induction out generalizing rd with
  | nil => rfl
  | cons x rest ih =>
    cases x
    case print r =>
      obtain ⟨w, hw⟩ := hp (max 1 (cl start)) (by omega) (rd.remaining + 1) r rd
      simp only [deliverI, deliver, hw, ih]
    all_goals simp only [deliverI, deliver, ih]

theorem runLoopI_eq (rbody pbody : List RStmt) (hr : ReadOk rbody) (hp : PrintOk pbody) (T : Model.Parser.Table)
    (cl : Nat → Nat) (fuel : Nat) (s : PState) (rd : Rd) :
    runLoopI rbody pbody T cl fuel s rd = some (runLoop T cl fuel s rd) := by
  induction fuel generalizing s rd with
  | zero => rfl
  | succ n ih =>
    simp only [runLoopI, runLoop, hr rd]
    cases hrr : readRune rd with
    | mk ro rd1 =>
      cases ro with
      | none => rfl
      | some r =>
        simp only [deliverI_eq pbody hp]
        cases hd : deliver cl rd.pos (Model.Parser.step T s (.rune r)).out rd1 with
        | mk items rd2 =>
          simp only
          split
          · rfl
          · simp only [ih]

theorem runChunksI_eq (rbody pbody : List RStmt) (hr : ReadOk rbody) (hp : PrintOk pbody) (T : Model.Parser.Table)
    (cl : Nat → Nat) (chunks : List (List Nat)) :
    runChunksI rbody pbody T cl chunks = some (runChunks T cl chunks) := by
  simp only [runChunksI, runChunks]
  exact runLoopI_eq rbody pbody hr hp T cl _ _ _

end VaxisModel.Lemmas.ParserReaderInterp
