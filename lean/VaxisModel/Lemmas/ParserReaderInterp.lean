/-
C02: when the interpreter of the `readRune` / `print` skeletons (Model/ParserReaderInterp.lean)
computes the model functions `ParserIO.readRune` / `ParserIO.printLoop`, and the width of a Print —
stated as semantic conditions on a body, not for a particular statement list (no hand copy of the
skeletons: `Props/C02Text.lean` evaluates the interpreter on the regenerated bodies).
-/
import VaxisModel.Model.ParserReaderInterp
import VaxisModel.Lemmas.ParserTextU

namespace VaxisModel.Lemmas.ParserReaderInterp
open VaxisModel.Model.Parser VaxisModel.Model.ParserIO VaxisModel.Model.ParserReaderSk
open VaxisModel.Model.ParserReaderInterp VaxisModel.Lemmas.ParserTextU

theorem readRuneB_nil (b : BR) (h : b.rd.fill.buf = []) : readRuneB b = ((0, 0, true), ⟨b.rd.fill, none⟩) := by
  simp only [readRuneB, h]

theorem readRuneB_cons (b : BR) (b0 : Nat) (t : List Nat) (h : b.rd.fill.buf = b0 :: t) :
    readRuneB b = (((decodeRune (b0 :: t)).1, (decodeRune (b0 :: t)).2, false),
      ⟨b.rd.fill.consume (decodeRune (b0 :: t)).2, some b.rd.fill⟩) := by
  simp only [readRuneB, h]

/-! ### print

Nothing here mentions a particular statement list: the lemmas say what the three parts of a `print`
body (statements before the loop, loop body, statements after it) have to *compute* for the whole
interpretation to be the model's `printLoop`; `Props/C02Text.lean` proves these semantic conditions
for the parts of the body regenerated from the source by evaluating the interpreter on them.  So a
reordering of statements that the interpreter evaluates to the same function keeps the proofs. -/

theorem fill_buf_ne (rd : Rd) (h : rd.buf.isEmpty = false) : rd.fill.buf ≠ [] := by
  obtain ⟨_, _, _, _, ⟨x, hx⟩, _⟩ := fill_spec rd
  rw [hx]
  cases hb : rd.buf with
  | nil => rw [hb] at h; simp at h
  | cons a t => simp

/-- What the statements in front of the loop must establish: builder and grapheme hold `r`, no
    width yet, the reader untouched. -/
def PreOk (pre : List RStmt) : Prop :=
  ∀ (r : Rune) (rd : Rd), ∃ st1, prePhase r pre { b := ⟨rd, none⟩ } = some st1 ∧
    st1.b.rd = rd ∧ st1.bldr = [r] ∧ st1.grapheme = [r] ∧ st1.w = 0

/-- What one pass through the loop body must do, started with a non-empty (filled) buffer
    `b0 :: t`, the builder holding the grapheme so far and that grapheme within the cluster length:
    an invalid byte ahead ⇒ `break`, reader at the filled buffer, grapheme and width untouched;
    the next rune would exceed the cluster ⇒ `break`, reader at the filled buffer, grapheme unchanged,
    width = the one reported for it; else the rune is consumed and appended, no `break`. -/
def LoopPass (cl : Nat) (wd : List Rune → Nat) (loop : List RStmt) : Prop :=
  ∀ (st : PR) (b0 : Nat) (t : List Nat), st.b.rd.fill.buf = b0 :: t → st.bldr = st.grapheme →
    st.grapheme.length ≤ cl →
    ∃ st' brk, loopBody cl wd loop st = some (st', brk) ∧
      if (decodeRune (b0 :: t)).1 = runeError ∧ (decodeRune (b0 :: t)).2 = 1 then
        brk = true ∧ st'.grapheme = st.grapheme ∧ st'.b.rd = st.b.rd.fill ∧ st'.w = st.w
      else if st.grapheme.length + 1 > cl then
        brk = true ∧ st'.grapheme = st.grapheme ∧ st'.b.rd = st.b.rd.fill ∧ st'.w = wd st.grapheme
      else
        brk = false ∧ st'.grapheme = st.grapheme ++ [(decodeRune (b0 :: t)).1] ∧ st'.bldr = st'.grapheme ∧
          st'.b.rd = st.b.rd.fill.consume (decodeRune (b0 :: t)).2 ∧ st'.w = wd st'.grapheme

/-- What the statements after the loop must do: emit the grapheme with the width, re-measured with
    `StringWidth` when it is 0; the reader as the loop left it. -/
def PostOk (sw : List Rune → Nat) (post : List RStmt) : Prop :=
  ∀ st : PR, postPhase sw post st = some (st.grapheme, (if st.w = 0 then sw st.grapheme else st.w), st.b.rd)

/-- **A look-ahead loop whose body does `LoopPass` is `printLoop`**; and the width it leaves is the
    one `FirstGraphemeClusterInString` reported for the grapheme it leaves — or it has not changed
    anything (no iteration reached the cluster call). -/
theorem whileBuffered_sem (cl : Nat) (wd : List Rune → Nat) (loop : List RStmt) (hl : LoopPass cl wd loop)
    (fuel : Nat) (st : PR) (hacc : st.bldr = st.grapheme) (hlen : st.grapheme.length ≤ cl) :
    ∃ st', whileBuffered cl wd loop fuel st = some st' ∧
      (st'.grapheme, st'.b.rd) = printLoop cl fuel st.b.rd st.grapheme ∧
      ((st'.w = st.w ∧ st'.grapheme = st.grapheme) ∨ st'.w = wd st'.grapheme) := by
  induction fuel generalizing st with
  | zero => exact ⟨st, rfl, rfl, Or.inl ⟨rfl, rfl⟩⟩
  | succ n ih =>
    by_cases he : st.b.rd.buf.isEmpty = true
    · refine ⟨st, by simp [whileBuffered, he], by simp [printLoop, he], Or.inl ⟨rfl, rfl⟩⟩
    · have he' : st.b.rd.buf.isEmpty = false := by simpa using he
      have hne := fill_buf_ne st.b.rd he'
      cases hfb : st.b.rd.fill.buf with
      | nil => exact absurd hfb hne
      | cons b0 t =>
        obtain ⟨st1, brk, hp, hcase⟩ := hl st b0 t hfb hacc hlen
        simp only [whileBuffered, he', Bool.false_eq_true, if_false, hp, printLoop, hfb, lookahead_flag, Bool.true_and]
        by_cases hinv : (decodeRune (b0 :: t)).1 = runeError ∧ (decodeRune (b0 :: t)).2 = 1
        · rw [if_pos hinv] at hcase
          obtain ⟨rfl, h1, h2, h3⟩ := hcase
          have hinv' : (decide ((decodeRune (b0 :: t)).1 = runeError) && decide ((decodeRune (b0 :: t)).2 = 1)) = true := by
            simp [hinv.1, hinv.2]
          simp only [hinv', if_true]
          exact ⟨st1, rfl, by rw [h1, h2], Or.inl ⟨h3, h1⟩⟩
        · rw [if_neg hinv] at hcase
          have hinv' : (decide ((decodeRune (b0 :: t)).1 = runeError) && decide ((decodeRune (b0 :: t)).2 = 1)) = false := by
            simpa using hinv
          simp only [hinv', Bool.false_eq_true, if_false]
          by_cases hcl : st.grapheme.length + 1 > cl
          · rw [if_pos hcl] at hcase
            obtain ⟨rfl, h1, h2, h3⟩ := hcase
            simp only [hcl, if_true]
            exact ⟨st1, rfl, by rw [h1, h2], Or.inr (by rw [h3, h1])⟩
          · rw [if_neg hcl] at hcase
            obtain ⟨rfl, h1, h2, h3, h4⟩ := hcase
            simp only [hcl, if_false]
            obtain ⟨st', i1, i2, i3⟩ := ih st1 h2 (by rw [h1]; simp; omega)
            refine ⟨st', i1, by rw [i2, h3, h1], Or.inr ?_⟩
            rcases i3 with ⟨j1, j2⟩ | j
            · rw [j1, j2, h4]
            · exact j

/-- **`print`, from the semantics of its three parts**: the grapheme and the reader afterwards are
    the model's `printLoop` (started with the builder `[r]`), and the width is
    `FirstGraphemeClusterInString`'s for that grapheme, re-measured with `StringWidth` when it is 0
    (also when the loop never ran). -/
theorem interpPrint_sem (body : List RStmt) (cl : Nat) (hcl : 1 ≤ cl) (wd sw : List Rune → Nat)
    (hs : (splitWhile body).isNone = false) (hpre : PreOk (preOf body)) (hloop : LoopPass cl wd (loopOf body))
    (hpost : PostOk sw (postOf body)) (fuel : Nat) (r : Rune) (rd : Rd) :
    ∃ w, interpPrint cl wd sw fuel r body rd =
        some ((printLoop cl fuel rd [r]).1, w, (printLoop cl fuel rd [r]).2) ∧
      (w = sw (printLoop cl fuel rd [r]).1 ∨ (w = wd (printLoop cl fuel rd [r]).1 ∧ w ≠ 0)) := by
  obtain ⟨st1, p1, p2, p3, p4, p5⟩ := hpre r rd
  obtain ⟨st', h1, h2, h3⟩ := whileBuffered_sem cl wd (loopOf body) hloop fuel st1 (by rw [p3, p4])
    (by rw [p4]; simpa using hcl)
  rw [p2, p4] at h2
  have hg : st'.grapheme = (printLoop cl fuel rd [r]).1 := by
    have := congrArg Prod.fst h2; simpa using this
  have hr : st'.b.rd = (printLoop cl fuel rd [r]).2 := by
    have := congrArg Prod.snd h2; simpa using this
  simp only [interpPrint, hs, Bool.false_eq_true, if_false, p1, h1, hpost st']
  by_cases hw : st'.w = 0
  · simp only [hw, if_true]
    exact ⟨sw st'.grapheme, by rw [hg, hr], Or.inl (by rw [hg])⟩
  · simp only [hw, if_false]
    refine ⟨st'.w, by rw [hg, hr], ?_⟩
    rcases h3 with ⟨j1, _⟩ | j
    · exact absurd (j1.trans p5) hw
    · exact Or.inr ⟨by rw [j, hg], hw⟩

/-! ### `utf8.FullRune` = "not a proper prefix of an encoding" (for `Props/C02Stdlib.lean`) -/

open VaxisModel.Model.ParserUtf8 VaxisModel.Lemmas.ParserUtf8 in
/-- A buffer that some extension completes to a well-formed encoding (DecodeRune consumes all of it,
    more than one byte) is a proper prefix of the encoding of a scalar value. -/
theorem proper_of_decode (bs ext : List Nat) (b0 : Nat) (t : List Nat) (hfull : bs ++ ext = b0 :: t) (hext : ext ≠ [])
    (hsz : (decodeRune (b0 :: t)).2 = (b0 :: t).length) (h1 : (decodeRune (b0 :: t)).2 ≠ 1) :
    ∃ r, IsScalar r ∧ bs <+: encodeRune r ∧ bs ≠ encodeRune r := by
  obtain ⟨hs, he⟩ := decodeRune_valid b0 t (fun h => h1 h.2)
  rw [hsz, List.take_length] at he
  refine ⟨_, hs, ⟨ext, by rw [he, hfull]⟩, ?_⟩
  rw [he, ← hfull]
  intro h
  have := congrArg List.length h
  simp at this
  exact hext this

open VaxisModel.Model.ParserUtf8 VaxisModel.Lemmas.ParserUtf8 in
/-- `FullRune` is false only for the empty buffer and for a proper prefix of an encoding. -/
theorem fullRune_false_proper (bs : List Nat) (h : fullRune bs = false) (hne : bs ≠ []) :
    ∃ r, IsScalar r ∧ bs <+: encodeRune r ∧ bs ≠ encodeRune r := by
  rcases bs with _ | ⟨b0, rest⟩
  · exact absurd rfl hne
  · simp only [fullRune] at h
    by_cases h0 : b0 < 0x80
    · simp [h0] at h
    · simp only [h0, if_false] at h
      cases hl : lead b0 with
      | none => simp [hl] at h
      | some x =>
        obtain ⟨sz, lo, hi⟩ := x
        have hls := lead_some hl
        simp only [hl] at h
        by_cases hlen : rest.length + 1 ≥ sz
        · simp [hlen] at h
        · simp only [hlen, if_false] at h
          have c80 : isCont 0x80 = true := by decide
          rcases rest with _ | ⟨b1, rest1⟩
          · -- only the lead byte
            simp only [List.length_nil] at hlen
            rcases hls.1 with rfl | rfl | rfl
            · have hd := decodeRune_wf2 b0 lo [] lo hi hl ⟨Nat.le_refl _, hls.2.2.2.1⟩
              exact proper_of_decode [b0] [lo] b0 [lo] rfl (by simp) (by rw [hd]; rfl) (by rw [hd]; simp)
            · have hd := decodeRune_wf3 b0 lo 0x80 [] lo hi hl ⟨Nat.le_refl _, hls.2.2.2.1⟩ c80
              exact proper_of_decode [b0] [lo, 0x80] b0 [lo, 0x80] rfl (by simp) (by rw [hd]; rfl) (by rw [hd]; simp)
            · have hd := decodeRune_wf4 b0 lo 0x80 0x80 [] lo hi hl ⟨Nat.le_refl _, hls.2.2.2.1⟩ c80 c80
              exact proper_of_decode [b0] [lo, 0x80, 0x80] b0 [lo, 0x80, 0x80] rfl (by simp) (by rw [hd]; rfl)
                (by rw [hd]; simp)
          · by_cases hb1 : b1 < lo ∨ hi < b1
            · simp [hb1] at h
            · simp only [hb1, if_false] at h
              have hb1' : lo ≤ b1 ∧ b1 ≤ hi := by omega
              rcases rest1 with _ | ⟨b2, rest2⟩
              · simp only [List.length_cons, List.length_nil] at hlen
                rcases hls.1 with rfl | rfl | rfl
                · omega
                · have hd := decodeRune_wf3 b0 b1 0x80 [] lo hi hl hb1' c80
                  exact proper_of_decode [b0, b1] [0x80] b0 [b1, 0x80] rfl (by simp) (by rw [hd]; rfl) (by rw [hd]; simp)
                · have hd := decodeRune_wf4 b0 b1 0x80 0x80 [] lo hi hl hb1' c80 c80
                  exact proper_of_decode [b0, b1] [0x80, 0x80] b0 [b1, 0x80, 0x80] rfl (by simp) (by rw [hd]; rfl)
                    (by rw [hd]; simp)
              · simp only [Bool.not_eq_eq_eq_not, Bool.not_false] at h
                simp only [List.length_cons] at hlen
                rcases hls.1 with rfl | rfl | rfl
                · omega
                · omega
                · have hr2 : rest2 = [] := by
                    rcases rest2 with _ | ⟨_, _⟩
                    · rfl
                    · simp only [List.length_cons] at hlen; omega
                  subst hr2
                  have hd := decodeRune_wf4 b0 b1 b2 0x80 [] lo hi hl hb1' h c80
                  exact proper_of_decode [b0, b1, b2] [0x80] b0 [b1, b2, 0x80] rfl (by simp) (by rw [hd]; rfl)
                    (by rw [hd]; simp)

open VaxisModel.Model.ParserUtf8 VaxisModel.Lemmas.ParserUtf8 in
/-- … and a proper prefix of an encoding is not a full rune. -/
theorem proper_fullRune_false (bs : List Nat) (hne : bs ≠ [])
    (h : ∃ r, IsScalar r ∧ bs <+: encodeRune r ∧ bs ≠ encodeRune r) : fullRune bs = false := by
  obtain ⟨r, hs, ⟨ext, he⟩, hneq⟩ := h
  cases hf : fullRune bs with
  | false => rfl
  | true =>
    exfalso
    have hst := decodeRune_stable bs ext (Or.inl hf)
    have hde := decodeRune_encode r hs []
    rw [List.append_nil, ← he, hst] at hde
    rcases bs with _ | ⟨b0, t⟩
    · exact hne rfl
    · have hsz := (decodeRune_sz b0 t).2.1
      rw [hde] at hsz
      simp only [List.length_append] at hsz
      have hext : ext = [] := by
        apply List.eq_nil_of_length_eq_zero; omega
      subst hext
      exact hneq (by rw [← he, List.append_nil])

/-! ### the run loop over interpreted bodies = the model's run loop -/

/-- What is needed of a `readRune` body / a `print` body. -/
def ReadOk (rbody : List RStmt) : Prop := ∀ rd, readRuneI rbody rd = some (readRune rd)
def PrintOk (pbody : List RStmt) : Prop := ∀ cl, 1 ≤ cl → ∀ fuel r rd, ∃ w,
  interpPrint cl (fun _ => 0) (fun _ => 0) fuel r pbody rd = some ((printLoop cl fuel rd [r]).1, w, (printLoop cl fuel rd [r]).2)

theorem deliverI_eq (pbody : List RStmt) (hp : PrintOk pbody) (cl : Nat → Nat) (start : Nat) (out : List Seq) (rd : Rd) :
    deliverI pbody cl start out rd = some (deliver cl start out rd) := by
  induction out generalizing rd with
  | nil => rfl
  | cons x rest ih =>
    cases x
    case print r =>
      obtain ⟨w, hw⟩ := hp (max 1 (cl start)) (by omega) (rd.remaining + 1) r rd
      simp only [deliverI, deliver, hw, ih]
    all_goals simp only [deliverI, deliver, ih]

theorem runLoopI_eq (rbody pbody : List RStmt) (hr : ReadOk rbody) (hp : PrintOk pbody) (T : Model.Parser.Table)
    (cl : Nat → Nat) (fuel : Nat) (s : PState) (rd : Rd) :
    runLoopI rbody pbody T cl fuel s rd = some (runLoop T cl fuel s rd) := by
  induction fuel generalizing s rd with
  | zero => rfl
  | succ n ih =>
    simp only [runLoopI, runLoop, hr rd]
    cases hrr : readRune rd with
    | mk ro rd1 =>
      cases ro with
      | none => rfl
      | some r =>
        simp only [deliverI_eq pbody hp]
        cases hd : deliver cl rd.pos (Model.Parser.step T s (.rune r)).out rd1 with
        | mk items rd2 =>
          simp only
          split
          · rfl
          · simp only [ih]

theorem runChunksI_eq (rbody pbody : List RStmt) (hr : ReadOk rbody) (hp : PrintOk pbody) (T : Model.Parser.Table)
    (cl : Nat → Nat) (chunks : List (List Nat)) :
    runChunksI rbody pbody T cl chunks = some (runChunks T cl chunks) := by
  simp only [runChunksI, runChunks]
  exact runLoopI_eq rbody pbody hr hp T cl _ _ _

end VaxisModel.Lemmas.ParserReaderInterp
