/-
C02: whole-stream refinement  model ⊑ Spec.VT500  at the rune level.  The data part: a relation
`Dat` between the parser state and the reference machine, indexed by validity flags (`Fl`) that an
abstract interpreter (`absI`) pushes through the statement list of a row; the per-statement
simulation `sim_act`; the per-row simulation `sim_acts`.
-/
import VaxisModel.Lemmas.ParserAbs
import VaxisModel.Spec.VT500

namespace VaxisModel.Lemmas.ParserRefine
open VaxisModel.Model.ParserTable VaxisModel.Model.Parser
open VaxisModel.Lemmas.ParserConform VaxisModel.Lemmas.ParserAbs
open VaxisModel.Spec.VT500 (S A M)

/-- A Spec number as the Go code delivers it in a CSI: accumulated in a 64-bit `int` (wrap-around). -/
def goInt (n : Nat) : Int := wrap64 (Int.ofNat n)

/-- Spec DCS parameters as `hook` delivers them: `strconv.Atoi` fails on a value ≥ 2^63, and then
    `Parameters` stays nil (and an `error` item is reported). -/
def goDcs (ps : List Nat) : List Int :=
  if ps.all (fun p => decide (p < 9223372036854775808)) then ps.map Int.ofNat else []

/-- A Spec item as a delivered `Sequence` of the model. -/
def specSeq : Spec.VT500.Item → Seq
  | .print c => .print c
  | .c0 c => .c0 c
  | .esc i f => .esc i f
  | .ss3 c => .ss3 c
  | .csi i p f => .csi i (p.map (·.map goInt)) f
  | .osc p => .osc p
  | .dcs f i p d => .dcs f i (goDcs p) d
  | .apc d => .apc d

/-- `error` items are reports, not sequences: they are dropped from the comparison. -/
def noErr (l : List Seq) : List Seq := l.filter (fun x => decide (x ≠ .err))

@[simp] theorem noErr_nil : noErr [] = [] := rfl
@[simp] theorem noErr_append (a b : List Seq) : noErr (a ++ b) = noErr a ++ noErr b := by simp [noErr]

/-- The two parameter codecs agree (csiDispatch's loop / hook's Split+Atoi vs the Spec's
    `parseParams` / `parseDcsParams`), on the bytes that can be collected. -/
structure Codec : Prop where
  csi : ∀ ps : List Nat, (∀ b ∈ ps, 0x30 ≤ b ∧ b ≤ 0x3B) →
    decodeParams ps = (Spec.VT500.parseParams ps).map (·.map goInt)
  dcs : ∀ ps : List Nat, ps ≠ [] → (∀ b ∈ ps, 0x30 ≤ b ∧ b ≤ 0x3B ∧ b ≠ 0x3A) →
    hookParams (splitOn 0x3B ps []) =
      (if (Spec.VT500.parseDcsParams ps).all (fun p => decide (p < 9223372036854775808))
       then some ((Spec.VT500.parseDcsParams ps).map Int.ofNat) else none)

/-- Which parts of the two states are known to agree. -/
structure Fl where
  hdr : Bool    -- intermediates and parameter bytes agree; parameter bytes are 30–3B
  noc : Bool    -- no 3A among the parameter bytes
  osc : Bool    -- OSC accumulators agree
  oscE : Bool   -- the parser's OSC accumulator is empty
  apc : Bool
  apcE : Bool
  dcs : Bool    -- the pending DCS agrees
  deriving DecidableEq, Repr, Inhabited

def Dat (v : Fl) (s : PState) (m : M) : Prop :=
  (v.hdr = true → s.inter = m.inter ∧ s.params = m.params ∧ ∀ b ∈ s.params, 0x30 ≤ b ∧ b ≤ 0x3B) ∧
  (v.noc = true → ∀ b ∈ s.params, b ≠ 0x3A) ∧
  (v.osc = true → s.osc = m.osc) ∧ (v.oscE = true → s.osc = []) ∧
  (v.apc = true → s.apc = m.apc) ∧ (v.apcE = true → s.apc = []) ∧
  (v.dcs = true → s.dcs = ⟨m.dFinal, m.dInter, goDcs m.dParams, m.dData⟩)

/-- Flags after running an exit function. -/
def exitFl (f : ExitFn) (v : Fl) : Option Fl :=
  match f with
  | .oscEnd => if v.osc then some { v with osc := false, oscE := true } else none
  | .unhook => if v.dcs then some { v with dcs := false } else none
  | .apcUnhook => if v.apc then some { v with apc := false, apcE := true } else none

/-- One statement, abstractly: the flags afterwards, `none` if a requirement is not met.
    `e` is the exit function held at that point. -/
def absAct (st : StateId) (c : Nat) (a : Act) (v : Fl) (e : Option ExitFn) : Option Fl :=
  match a with
  | .execute => if c ≤ 0x1F then some v else none
  | .print | .emitErr | .emitSS3 | .startTimer | .deferClearIgnoreST | .collect | .put
  | .setIgnoreST | .clearIgnoreST | .clearExit => some v
  | .param => if 0x30 ≤ c ∧ c ≤ 0x3B then some { v with noc := v.noc && decide (c ≠ 0x3A) } else none
  | .csiDispatch | .escapeDispatch => if v.hdr then some { v with hdr := false, noc := false } else none
  | .hook => if v.hdr && v.noc then some { v with hdr := false, noc := false, dcs := true } else none
  | .oscStart => if v.oscE then some { v with osc := true } else none
  | .oscPut => some { v with oscE := false }
  | .apcPut => some { v with apcE := false }
  | .clear => some { v with hdr := true, noc := true }
  | .setExitUnhook => if e = some .unhook then some v else none
  | .setExitApc => if v.apcE then some { v with apc := true } else none
  | .runExit => if e = implExit st then (match e with | some f => exitFl f v | none => none) else none
  | .runExitIfSet | .runExitIfSetST =>
    if e = implExit st then (match e with | some f => exitFl f v | none => some v) else none
  | .retIfIgnoreST _ | .unknown => none

/-- The Spec actions of one statement (as `absActs`, without the `retIfIgnoreST` pairing). -/
def abs1 (st : StateId) : Act → List A
  | .execute => [A.execute] | .print => [.print] | .collect => [.collect] | .param => [.param]
  | .csiDispatch => [.csiDispatch] | .escapeDispatch => [.escDispatch] | .hook => [.hook]
  | .put => [.put] | .oscStart => [.oscStart] | .oscPut => [.oscPut] | .apcPut => [.apcPut]
  | .clear => [.clear] | .emitSS3 => [.ss3Dispatch] | .setExitApc => [.apcStart]
  | .runExit | .runExitIfSet | .runExitIfSetST => exitA (implExit st)
  | _ => []

/-- Control fields of the reference machine are not touched by actions. -/
def sameCtl (m m' : M) : Prop := m'.s = m.s ∧ m'.afterString = m.afterString ∧ m'.fresh = m.fresh

theorem act_ctl (m : M) (c : Nat) (a : A) : sameCtl m (Spec.VT500.act m c a).1 := by
  cases a <;> simp [Spec.VT500.act, sameCtl]

theorem acts_ctl (m : M) (c : Nat) (as : List A) : sameCtl m (Spec.VT500.acts m c as).1 := by
  induction as generalizing m with
  | nil => simp [Spec.VT500.acts, sameCtl]
  | cons a rest ih =>
    simp only [Spec.VT500.acts]
    have h1 := act_ctl m c a
    have h2 := ih (Spec.VT500.act m c a).1
    simp only [sameCtl] at h1 h2 ⊢
    exact ⟨h2.1.trans h1.1, h2.2.1.trans h1.2.1, h2.2.2.trans h1.2.2⟩

theorem acts_append (m : M) (c : Nat) (as bs : List A) :
    Spec.VT500.acts m c (as ++ bs) =
      ((Spec.VT500.acts (Spec.VT500.acts m c as).1 c bs).1,
       (Spec.VT500.acts m c as).2 ++ (Spec.VT500.acts (Spec.VT500.acts m c as).1 c bs).2) := by
  induction as generalizing m with
  | nil => simp [Spec.VT500.acts]
  | cons a rest ih => simp [Spec.VT500.acts, ih, List.append_assoc]


theorem exit_sim (st : StateId) (c : Nat) (s : PState) (m : M) (v v' : Fl) (f : ExitFn) (hD : Dat v s m)
    (he : s.exit = some f) (hst : s.exit = implExit st) (hI : exitFl f v = some v') :
    Dat v' (runExitFn s f).1 (Spec.VT500.acts m c (exitA (implExit st))).1 ∧
    noErr (runExitFn s f).2 = (Spec.VT500.acts m c (exitA (implExit st))).2.map specSeq ∧
    (runExitFn s f).1.exit = s.exit ∧ (runExitFn s f).1.ignoreST = s.ignoreST := by
  rw [← hst, he]
  cases f <;> simp only [exitFl] at hI <;> split at hI <;> first | (cases hI; done) | skip
  all_goals
    cases hI
    simp_all [Dat, runExitFn, exitA, Spec.VT500.acts, Spec.VT500.act, noErr, specSeq]


/-- **One statement.**  If the abstract interpreter accepts statement `a` with flags `v`, running it
    on related states gives related states (flags `v'`) and the same items (errors dropped). -/
theorem sim_act (K : Codec) (st : StateId) (c : Nat) (a : Act) (s : PState) (m : M) (v v' : Fl)
    (hD : Dat v s m) (hI : absAct st c a v s.exit = some v') :
    Dat v' (applyAct a c s).1 (Spec.VT500.acts m c (abs1 st a)).1 ∧
    noErr (applyAct a c s).2 = (Spec.VT500.acts m c (abs1 st a)).2.map specSeq := by
  cases a
  case runExit =>
    simp only [absAct] at hI
    split at hI
    · rename_i hst
      cases he : s.exit with
      | none => rw [he] at hI; cases hI
      | some f =>
        rw [he] at hI
        have := exit_sim st c s m v v' f hD he hst hI
        simp only [applyAct, he, abs1]
        exact ⟨this.1, this.2.1⟩
    · cases hI
  case runExitIfSet =>
    simp only [absAct] at hI
    split at hI
    · rename_i hst
      cases he : s.exit with
      | none =>
        rw [he] at hI; cases hI
        simp only [applyAct, he, abs1, ← hst, exitA, Spec.VT500.acts]
        exact ⟨hD, rfl⟩
      | some f =>
        rw [he] at hI
        have := exit_sim st c s m v v' f hD he hst hI
        simp only [applyAct, he, abs1]
        refine ⟨?_, this.2.1⟩
        have h1 := this.1
        simp only [Dat] at h1 ⊢
        exact h1
    · cases hI
  case runExitIfSetST =>
    simp only [absAct] at hI
    split at hI
    · rename_i hst
      cases he : s.exit with
      | none =>
        rw [he] at hI; cases hI
        simp only [applyAct, he, abs1, ← hst, exitA, Spec.VT500.acts]
        exact ⟨hD, rfl⟩
      | some f =>
        rw [he] at hI
        have := exit_sim st c s m v v' f hD he hst hI
        simp only [applyAct, he, abs1]
        refine ⟨?_, this.2.1⟩
        have h1 := this.1
        simp only [Dat] at h1 ⊢
        exact h1
    · cases hI
  case csiDispatch =>
    simp only [absAct] at hI
    split at hI
    · rename_i h; cases hI
      obtain ⟨d1, d2, d3, d4, d5, d6, d7⟩ := hD
      obtain ⟨e1, e2, e3⟩ := d1 h
      have hk := K.csi s.params e3
      simp_all [applyAct, abs1, Spec.VT500.acts, Spec.VT500.act, noErr, specSeq, Dat]
    · cases hI
  case escapeDispatch =>
    simp only [absAct] at hI
    split at hI
    · rename_i h; cases hI
      obtain ⟨d1, d2, d3, d4, d5, d6, d7⟩ := hD
      obtain ⟨e1, e2, e3⟩ := d1 h
      simp_all [applyAct, abs1, Spec.VT500.acts, Spec.VT500.act, noErr, specSeq, Dat]
    · cases hI
  case hook =>
    simp only [absAct] at hI
    split at hI
    · rename_i h; cases hI
      simp only [Bool.and_eq_true] at h
      obtain ⟨d1, d2, d3, d4, d5, d6, d7⟩ := hD
      obtain ⟨e1, e2, e3⟩ := d1 h.1
      have e4 := d2 h.2
      by_cases hp : s.params = []
      · have hp' : m.params = [] := by rw [← e2]; exact hp
        simp [applyAct, abs1, Spec.VT500.acts, Spec.VT500.act, noErr, Dat, hp, hp', e1, d3, d4, d5, d6,
          Spec.VT500.parseDcsParams, goDcs]
        exact ⟨d3, d4, d5, d6⟩
      · have hk := K.dcs s.params hp (fun b hb => ⟨(e3 b hb).1, (e3 b hb).2, e4 b hb⟩)
        have hp' : m.params ≠ [] := by rw [← e2]; exact hp
        have hne : s.params.isEmpty = false := by cases hps : s.params <;> simp_all
        simp only [applyAct, hne, Bool.false_eq_true, if_false, hk, abs1, Spec.VT500.acts, Spec.VT500.act]
        rw [e2]
        by_cases hall : (Spec.VT500.parseDcsParams m.params).all (fun p => decide (p < 9223372036854775808)) = true
        · simp [hall, Dat, noErr, goDcs, e1]
          exact ⟨d3, d4, d5, d6⟩
        · simp [hall, Dat, noErr, goDcs, e1]
          exact ⟨d3, d4, d5, d6⟩
    · cases hI
  case execute =>
    simp only [absAct] at hI
    split at hI
    · rename_i h; cases hI
      simp_all [applyAct, abs1, Spec.VT500.acts, Spec.VT500.act, noErr, specSeq, Dat]
    · cases hI
  case param =>
    simp only [absAct] at hI
    split at hI
    · rename_i h; cases hI
      simp only [applyAct, abs1, Spec.VT500.acts, Spec.VT500.act, noErr, specSeq, Dat] at hD ⊢
      obtain ⟨d1, d2, d3, d4, d5, d6, d7⟩ := hD
      refine ⟨⟨fun hh => ?_, fun hh => ?_, d3, d4, d5, d6, d7⟩, by simp⟩
      · obtain ⟨e1, e2, e3⟩ := d1 hh
        refine ⟨e1, by rw [e2], ?_⟩
        intro b hb
        rcases List.mem_append.mp hb with hb | hb
        · exact e3 b hb
        · simp at hb; subst hb; exact h
      · simp only [Bool.and_eq_true, decide_eq_true_eq] at hh
        intro b hb
        rcases List.mem_append.mp hb with hb | hb
        · exact d2 hh.1 b hb
        · simp at hb; subst hb; exact hh.2
    · cases hI
  case oscStart =>
    simp only [absAct] at hI
    split at hI
    · rename_i h; cases hI
      simp_all [applyAct, abs1, Spec.VT500.acts, Spec.VT500.act, noErr, specSeq, Dat]
    · cases hI
  case setExitUnhook =>
    simp only [absAct] at hI
    split at hI
    · cases hI
      simp_all [applyAct, abs1, Spec.VT500.acts, Spec.VT500.act, noErr, specSeq, Dat]
    · cases hI
  case setExitApc =>
    simp only [absAct] at hI
    split at hI
    · rename_i h; cases hI
      simp_all [applyAct, abs1, Spec.VT500.acts, Spec.VT500.act, noErr, specSeq, Dat]
    · cases hI
  case retIfIgnoreST n => simp [absAct] at hI
  case unknown => simp [absAct] at hI
  all_goals
    simp only [absAct, Option.some.injEq] at hI
    subst hI
    simp_all [applyAct, abs1, Spec.VT500.acts, Spec.VT500.act, noErr, specSeq, Dat]


/-- The abstract interpreter over a statement list: flags, exit function, `ignoreST`. -/
def absI (st : StateId) (c : Nat) : List Act → Fl → Option ExitFn → Bool → Option (Fl × Option ExitFn × Bool)
  | [], v, e, g => some (v, e, g)
  | a :: rest, v, e, g =>
    match absAct st c a v e with
    | none => none
    | some v' => absI st c rest v' (aAct a e g).1 (aAct a e g).2.1

theorem runActs_cons_rune (a : Act) (rest : List Act) (hno : ∀ n', a ≠ .retIfIgnoreST n') (c : Nat) (s : PState)
    (out : List Seq) (n : Next) :
    runActs (a :: rest) (.rune c) s out n = runActs rest (.rune c) (applyAct a c s).1 (out ++ (applyAct a c s).2) n := by
  cases a <;> first | (exfalso; exact hno _ rfl) | simp [runActs]

/-- **One row** (no early return in it). -/
theorem sim_acts (K : Codec) (st : StateId) (c : Nat) (acts : List Act)
    (hno : ∀ a ∈ acts, ∀ n', a ≠ .retIfIgnoreST n') (s : PState) (m : M) (v : Fl) (out : List Seq) (n : Next)
    (hD : Dat v s m) (v' : Fl) (e' : Option ExitFn) (g' : Bool)
    (hI : absI st c acts v s.exit s.ignoreST = some (v', e', g')) :
    Dat v' (runActs acts (.rune c) s out n).1 (Spec.VT500.acts m c (acts.flatMap (abs1 st))).1 ∧
    (runActs acts (.rune c) s out n).1.exit = e' ∧ (runActs acts (.rune c) s out n).1.ignoreST = g' ∧
    noErr (runActs acts (.rune c) s out n).2.1 =
      noErr out ++ (Spec.VT500.acts m c (acts.flatMap (abs1 st))).2.map specSeq := by
  induction acts generalizing s m v out with
  | nil =>
    simp only [absI, Option.some.injEq, Prod.mk.injEq] at hI
    obtain ⟨rfl, rfl, rfl⟩ := hI
    simp [runActs, Spec.VT500.acts, hD]
  | cons a rest ih =>
    simp only [absI] at hI
    cases ha : absAct st c a v s.exit with
    | none => rw [ha] at hI; cases hI
    | some v1 =>
      rw [ha] at hI
      simp only at hI
      obtain ⟨h1, h2⟩ := sim_act K st c a s m v v1 hD ha
      obtain ⟨a1, a2, _, _⟩ := applyAct_abs a c s
      rw [runActs_cons_rune a rest (hno a (by simp)) c s out n]
      rw [← a1, ← a2] at hI
      obtain ⟨i1, i2, i3, i4⟩ := ih (fun a' ha' => hno a' (by simp [ha'])) (applyAct a c s).1
        (Spec.VT500.acts m c (abs1 st a)).1 v1 (out ++ (applyAct a c s).2) h1 hI
      simp only [List.flatMap_cons, acts_append]
      refine ⟨i1, i2, i3, ?_⟩
      rw [i4, noErr_append, h2]
      simp

end VaxisModel.Lemmas.ParserRefine
