/-
C02: whole-stream refinement, the step: control relation (exit function, `ignoreST` vs the Spec's
`afterString`/`fresh` with the recorded deviation F102 switched on), the table-wide check
`stepCheck` (kernel-decided for all states × control flags × runes), and the simulation of one
step of the hand model by one step of the reference machine.
-/
import VaxisModel.Lemmas.ParserRefine

namespace VaxisModel.Lemmas.ParserRefineCheck
open VaxisModel.Model.ParserTable VaxisModel.Model.Parser
open VaxisModel.Lemmas.ParserConform VaxisModel.Lemmas.ParserAbs VaxisModel.Lemmas.ParserRefine
open VaxisModel.Spec.VT500 (S A M)

/-- The recorded deviation F102 (lazy ST suppression).  (F102c — a C0 in `ESC … \` dropped the
    suppression — is repaired: `c0ClearsST` stays off.) -/
def devAll : Spec.VT500.Dev := { lazyST := true }

/-- Flags that hold in each state. -/
def fl (st : StateId) : Fl :=
  { hdr := st matches .escape | .escapeIntermediate | .csiEntry | .csiParam | .csiIntermediate
                   | .dcsEntry | .dcsParam | .dcsIntermediate,
    noc := st matches .dcsEntry | .dcsParam | .dcsIntermediate,
    osc := st matches .oscString, oscE := !(st matches .oscString),
    apc := st matches .apc, apcE := !(st matches .apc),
    dcs := st matches .dcsPassthrough }

def fle (a b : Fl) : Bool :=
  (!a.hdr || b.hdr) && (!a.noc || b.noc) && (!a.osc || b.osc) && (!a.oscE || b.oscE) &&
  (!a.apc || b.apc) && (!a.apcE || b.apcE) && (!a.dcs || b.dcs)

theorem Dat_mono {a b : Fl} (h : fle a b = true) {s : PState} {m : M} (hD : Dat b s m) : Dat a s m := by
  simp only [fle, Bool.and_eq_true, Bool.or_eq_true, Bool.not_eq_eq_eq_not, Bool.not_true] at h
  obtain ⟨⟨⟨⟨⟨⟨h1, h2⟩, h3⟩, h4⟩, h5⟩, h6⟩, h7⟩ := h
  obtain ⟨d1, d2, d3, d4, d5, d6, d7⟩ := hD
  refine ⟨fun x => d1 ?_, fun x => d2 ?_, fun x => d3 ?_, fun x => d4 ?_, fun x => d5 ?_, fun x => d6 ?_,
    fun x => d7 ?_⟩
  · rcases h1 with h | h; · rw [x] at h; cases h
    exact h
  · rcases h2 with h | h; · rw [x] at h; cases h
    exact h
  · rcases h3 with h | h; · rw [x] at h; cases h
    exact h
  · rcases h4 with h | h; · rw [x] at h; cases h
    exact h
  · rcases h5 with h | h; · rw [x] at h; cases h
    exact h
  · rcases h6 with h | h; · rw [x] at h; cases h
    exact h
  · rcases h7 with h | h; · rw [x] at h; cases h
    exact h

/-- `ignoreST` as a function of the Spec's control flags. -/
def gOf (st : StateId) (after fresh : Bool) : Bool :=
  if st = .escape then after else if isStringState st then !fresh else false

/-- The Spec's control update (`stepRuneD devAll`), as a function of the target state. -/
def ctlNext (st : StateId) (after fresh : Bool) (c : Nat) (st' : StateId) : Bool × Bool :=
  let inStr := Spec.VT500.isString (toS st) && !(true && fresh)
  let after' :=
    if c = 0x1B then (inStr || (decide (toS st = .escape) && after))
    else if toS st' = .escape then (after && !false)
    else false
  (after', decide (toS st' ≠ toS st))

def noRetL (acts : List Act) : Bool := acts.all fun a => match a with | .retIfIgnoreST _ => false | _ => true

def okTarget (st : StateId) (after fresh : Bool) (c : Nat) (v : Fl) (e : Option ExitFn) (g : Bool) : Next → Bool
  | .st st' =>
    fle (fl st') v && decide (e = implExit st') &&
      (g == gOf st' (ctlNext st after fresh c st').1 (ctlNext st after fresh c st').2)
  | _ => false

/-- Everything the step simulation needs of the table, for one (state, control flags, rune). -/
def stepCheck (st : StateId) (after fresh : Bool) (c : Nat) : Bool :=
  let g := gOf st after fresh
  let r1 := handAnywhere.row (.rune c)
  noRetL r1.1 &&
  match absI st c r1.1 (fl st) (implExit st) g with
  | none => false
  | some (v1, e1, g1) =>
    match r1.2 with
    | .dispatch =>
      let r2 := (handFn st).row (.rune c)
      if st = .escape ∧ c = 0x5C then true
      else
        noRetL r2.1 &&
        match absI st c r2.1 v1 e1 g1 with
        | none => false
        | some (v2, e2, g2) =>
          okTarget st after fresh c v2 e2 (if r2.1.contains .deferClearIgnoreST then false else g2) r2.2
    | n => okTarget st after fresh c v1 e1 g1 n

theorem stepCheck_below :
    ∀ st ∈ allStates, ∀ after ∈ [true, false], ∀ fresh ∈ [true, false], ∀ c ∈ List.range 257,
      stepCheck st after fresh c = true := by decide +kernel

end VaxisModel.Lemmas.ParserRefineCheck
