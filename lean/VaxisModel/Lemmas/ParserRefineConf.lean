/-
C02: the hand-written table conforms to the Spec table row by row (as `Props.C02.table_conforms`
for the regenerated one); kept in its own module so that it is checked in parallel.
-/
import VaxisModel.Lemmas.ParserAbs

namespace VaxisModel.Lemmas.ParserRefineConf
open VaxisModel.Model.ParserTable VaxisModel.Model.Parser
open VaxisModel.Lemmas.ParserConform VaxisModel.Lemmas.ParserAbs

theorem hand_conforms (st : StateId) (i : Inp) : implRow handTable st i = specRow st i :=
  conforms_of_below handTable hand_boundsOk (by decide +kernel) st i

end VaxisModel.Lemmas.ParserRefineConf
