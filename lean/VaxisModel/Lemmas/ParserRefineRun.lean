/-
C02: whole-stream refinement — one step, then whole rune streams, then end of input.
-/
import VaxisModel.Lemmas.ParserRefineStep
import VaxisModel.Model.ParserUtf8

namespace VaxisModel.Lemmas.ParserRefineRun
open VaxisModel.Model.ParserTable VaxisModel.Model.Parser VaxisModel.Model.ParserUtf8
open VaxisModel.Lemmas.ParserConform VaxisModel.Lemmas.ParserAbs VaxisModel.Lemmas.ParserRefine
open VaxisModel.Lemmas.Parser VaxisModel.Lemmas.ParserRefineStep VaxisModel.Lemmas.ParserRefineCheck VaxisModel.Lemmas.ParserRefineConf
open VaxisModel.Spec.VT500 (S A M)

theorem fl_ground : fl .ground = ⟨false, false, false, true, false, true, false⟩ := by decide

theorem trans_st : Spec.VT500.trans .escape (.rune 0x5C) = ([.stOrDispatch], .ground) := by decide

/-- The `ESC \` row (the only one with an early return). -/
theorem sim_step_st (s : PState) (m : M) (hR : R s m) (hs : s.state = .escape) :
    R (pstep s (.rune 0x5C)).st (Spec.VT500.stepRuneD devAll m 0x5C).1 ∧
    noErr (pstep s (.rune 0x5C)).out = (Spec.VT500.stepRuneD devAll m 0x5C).2.map specSeq ∧
    (pstep s (.rune 0x5C)).stop = false := by
  obtain ⟨r1, r2, r3, r4⟩ := hR
  rw [hs] at r1 r2 r3 r4
  simp only [gOf, if_true] at r3
  obtain ⟨d1, d2, d3, d4, d5, d6, d7⟩ := r4
  have hhdr := d1 rfl
  have ho := d4 rfl
  have ha := d6 rfl
  simp only [Spec.VT500.stepRuneD, r1, toS, trans_st, Spec.VT500.acts, Spec.VT500.act]
  cases hi : s.ignoreST with
  | false =>
    rw [escape_backslash s hs hi]
    rw [hi] at r3
    refine ⟨⟨rfl, by simpa [implExit] using r2, by simp [gOf, isStringState, hi], ?_⟩, ?_, rfl⟩
    · simp [Dat, fl_ground, ho, ha]
    · simp [← r3, noErr, specSeq, hhdr.1]
  | true =>
    rw [escape_st s hs hi]
    rw [hi] at r3
    refine ⟨⟨rfl, by simpa [implExit] using r2, by simp [gOf, isStringState], ?_⟩, ?_, rfl⟩
    · simp [Dat, fl_ground, ho, ha]
    · simp [← r3, noErr]


/-- Closing a step: the target state of the row, the control update, the data flags. -/
theorem close_step (st st' : StateId) (c : Nat) (s1 : PState) (m mq : M) (v : Fl) (e : Option ExitFn) (g : Bool)
    (hm : m.s = toS st) (hD : Dat v s1 mq) (he : s1.exit = e) (hg : s1.ignoreST = g)
    (hok : okTarget st m.afterString m.fresh c v e g (.st st') = true) :
    R { s1 with state := st' }
      { mq with s := toS st',
                afterString :=
                  if c = 0x1B then
                    ((Spec.VT500.isString m.s && !(devAll.lazyST && m.fresh)) || (decide (m.s = .escape) && m.afterString))
                  else if toS st' = .escape then (m.afterString && !devAll.c0ClearsST) else false,
                fresh := decide (toS st' ≠ m.s) } := by
  simp only [okTarget, Bool.and_eq_true, decide_eq_true_eq, beq_iff_eq] at hok
  obtain ⟨⟨h1, h2⟩, h3⟩ := hok
  refine ⟨rfl, by simpa [he] using h2, ?_, ?_⟩
  · simp only [hg, h3, ctlNext, hm, devAll]
  · exact Dat_congr_m (Dat_congr (Dat_mono h1 hD) rfl rfl rfl rfl rfl) rfl rfl rfl rfl rfl rfl rfl rfl


/-- **One step.**  Related states, any rune: related states afterwards, the same items delivered
    (`error` reports dropped; Spec numbers rendered as Go delivers them), and the loop goes on. -/
theorem sim_step (K : Codec) (s : PState) (m : M) (hR : R s m) (c : Nat) :
    R (pstep s (.rune c)).st (Spec.VT500.stepRuneD devAll m c).1 ∧
    noErr (pstep s (.rune c)).out = (Spec.VT500.stepRuneD devAll m c).2.map specSeq ∧
    (pstep s (.rune c)).stop = false := by
  by_cases hST : s.state = .escape ∧ c = 0x5C
  · obtain ⟨h1, rfl⟩ := hST; exact sim_step_st s m hR h1
  obtain ⟨r1, r2, r3, r4⟩ := hR
  have hchk := stepCheck_all s.state m.afterString m.fresh c
  have hconf := hand_conforms s.state (.rune c)
  simp only [stepCheck, Bool.and_eq_true] at hchk
  obtain ⟨hnr1, hchk⟩ := hchk
  rw [← r3, ← r2] at hchk
  cases hI1 : absI s.state c (handAnywhere.row (.rune c)).1 (fl s.state) s.exit s.ignoreST with
  | none => rw [hI1] at hchk; cases hchk
  | some x =>
    obtain ⟨v1, e1, g1⟩ := x
    rw [hI1] at hchk
    simp only at hchk
    obtain ⟨a1, a2, a3, a4, a5, a6⟩ := sim_runFn K s.state c handAnywhere hnr1 s m (fl s.state) r4 v1 e1 g1 hI1
    have hpre : (handAnywhere.row (.rune c)).1.contains Act.deferClearIgnoreST = false :=
      row_forall handAnywhere (fun row => row.1.contains Act.deferClearIgnoreST = false) (by decide)
        (by decide +kernel) c
    rw [hpre] at a3; simp only [Bool.false_eq_true, if_false] at a3
    have hq1 := acts_ctl m c ((handAnywhere.row (.rune c)).1.flatMap (abs1 s.state))
    show R (step handTable s (.rune c)).st _ ∧ noErr (step handTable s (.rune c)).out = _ ∧
      (step handTable s (.rune c)).stop = false
    unfold step
    simp only [handTable]
    generalize hres : runFn handAnywhere (.rune c) s = res at a1 a2 a3 a4 a5 a6
    obtain ⟨s1, o1, n1⟩ := res
    simp only at a1 a2 a3 a4 a5 a6
    simp only [implRow, specRow, handTable] at hconf
    subst a5
    cases hn : (handAnywhere.row (.rune c)).2 with
    | stop => rw [hn] at hchk; simp [okTarget] at hchk
    | st st' =>
      rw [hn] at hchk hconf
      simp only at hchk hconf ⊢
      rw [absActs_noRet _ _ _ hnr1] at hconf
      have htr : Spec.VT500.trans m.s (.rune c) =
          ((handAnywhere.row (.rune c)).1.flatMap (abs1 s.state), toS st') := by
        rw [r1]
        have h1 := congrArg Prod.fst hconf
        have h2 := congrArg Prod.snd hconf
        simp only [nextS, Option.some.injEq] at h1 h2
        exact Prod.ext h1.symm h2.symm
      simp only [Spec.VT500.stepRuneD, htr, finish]
      refine ⟨?_, a4, trivial⟩
      have := close_step s.state st' c s1 m _ v1 e1 g1 r1 a1 a2 a3 hchk
      simpa [r1] using this
    | dispatch =>
      rw [hn] at hchk hconf
      simp only [hST, if_false, Bool.and_eq_true] at hchk hconf ⊢
      obtain ⟨hnr2, hchk⟩ := hchk
      rw [← a2, ← a3] at hchk
      cases hI2 : absI s.state c ((handFn s.state).row (.rune c)).1 v1 s1.exit s1.ignoreST with
      | none => rw [hI2] at hchk; cases hchk
      | some y =>
        obtain ⟨v2, e2, g2⟩ := y
        rw [hI2] at hchk
        simp only at hchk
        obtain ⟨b1, b2, b3, b4, b5, b6⟩ := sim_runFn K s.state c (handFn s.state) hnr2 s1 _ v1 a1 v2 e2 g2 hI2
        rw [a6]
        generalize hres2 : runFn (handFn s.state) (.rune c) s1 = res2 at b1 b2 b3 b4 b5 b6
        obtain ⟨s2, o2, n2⟩ := res2
        simp only at b1 b2 b3 b4 b5 b6 ⊢
        subst b5
        rw [absActs_noRet _ _ _ hnr1, absActs_noRet _ _ _ hnr2] at hconf
        cases hn2 : ((handFn s.state).row (.rune c)).2 with
        | stop => rw [hn2] at hchk; simp [okTarget] at hchk
        | dispatch => rw [hn2] at hchk; simp [okTarget] at hchk
        | st st' =>
          rw [hn2] at hchk hconf
          have htr : Spec.VT500.trans m.s (.rune c) =
              ((handAnywhere.row (.rune c)).1.flatMap (abs1 s.state) ++
                ((handFn s.state).row (.rune c)).1.flatMap (abs1 s.state), toS st') := by
            rw [r1]
            have h1 := congrArg Prod.fst hconf
            have h2 := congrArg Prod.snd hconf
            simp only [nextS, Option.some.injEq] at h1 h2
            exact Prod.ext h1.symm h2.symm
          simp only [Spec.VT500.stepRuneD, htr, finish, acts_append]
          refine ⟨?_, by rw [noErr_append, a4, b4]; simp, trivial⟩
          have := close_step s.state st' c s2 m _ v2 e2 _ r1 b1 b2 b3 hchk
          simpa [r1] using this


theorem exit_toS (st : StateId) : Spec.VT500.exit (toS st) = exitA (implExit st) := by cases st <;> rfl

theorem fl_osc : (fl .oscString).osc = true := by decide
theorem fl_dcs : (fl .dcsPassthrough).dcs = true := by decide
theorem fl_apc : (fl .apc).apc = true := by decide

/-- **End of input**: the pending control string (if any) is delivered, as the Spec's exit action. -/
theorem sim_eof (s : PState) (m : M) (hR : R s m) :
    noErr (pstep s .eof).out = (Spec.VT500.acts m 0 (Spec.VT500.exit m.s)).2.map specSeq := by
  obtain ⟨r1, r2, r3, r4⟩ := hR
  have hrow : handAnywhere.row .eof = ([.runExitIfSet], .stop) := by decide
  have hpre : ([.runExitIfSet] : List Act).contains Act.deferClearIgnoreST = false := by decide
  rw [r1, exit_toS]
  show noErr (step handTable s .eof).out = _
  unfold step
  simp only [handTable, runFn, hrow, hpre, runActs, usesRune, Bool.false_eq_true, if_false, applyAct]
  cases he : s.exit with
  | none =>
    rw [he] at r2
    simp [finish, ← r2, exitA, Spec.VT500.acts]
  | some f =>
    have hfl : exitFl f (fl s.state) ≠ none := by
      rw [he] at r2
      cases hs : s.state <;> rw [hs] at r2 <;> simp only [implExit] at r2 <;> first | (cases r2; done) | skip
      all_goals (cases r2; simp [exitFl, fl_osc, fl_dcs, fl_apc])
    cases hx : exitFl f (fl s.state) with
    | none => exact absurd hx hfl
    | some v' =>
      have := exit_sim s.state 0 s m (fl s.state) v' f r4 he r2 hx
      simp only [finish]
      simpa using this.2.1

/-- **Whole rune streams, then end of input.** -/
theorem sim_run (K : Codec) (rs : List Nat) (s : PState) (m : M) (hR : R s m) :
    noErr (runRunes handTable s rs) =
      ((Spec.VT500.runFromD devAll m rs).2 ++
        (Spec.VT500.acts (Spec.VT500.runFromD devAll m rs).1 0
          (Spec.VT500.exit (Spec.VT500.runFromD devAll m rs).1.s)).2).map specSeq ++ [.eof] := by
  induction rs generalizing s m with
  | nil =>
    have := sim_eof s m hR
    simp only [pstep] at this
    simp only [runRunes, Spec.VT500.runFromD, noErr_append, this, List.nil_append]
    rfl
  | cons r rs ih =>
    obtain ⟨h1, h2, h3⟩ := sim_step K s m hR r
    simp only [pstep] at h1 h2 h3
    simp only [runRunes, h3, Bool.false_eq_true, if_false, Spec.VT500.runFromD, noErr_append, h2, ih _ _ h1]
    simp

theorem R_init : R PState.init {} := by
  refine ⟨rfl, rfl, rfl, ?_⟩
  simp [Dat, fl_ground, PState.init]


/-! ### where the recorded deviation F102 can show at all -/

/-- The situation in which the `lazyST` switch changes the reference machine (F102): an ESC arrives
    in a control-string state that was entered by the previous rune (the string has no payload yet).
    (The second situation of round 2 — F102c, a C0 control executed in `escape` while the ST
    suppression is pending — is gone: repaired in the code, `c0ClearsST` stays off.) -/
def trigger (m : M) (c : Nat) : Bool :=
  c == 0x1B && Spec.VT500.isString m.s && m.fresh

/-- The stream never gets into that situation (along the run of the Spec proper). -/
def Avoids : M → List Nat → Bool
  | _, [] => true
  | m, c :: rest => !trigger m c && Avoids (Spec.VT500.stepRune m c).1 rest

theorem stepRuneD_eq (d : Spec.VT500.Dev) (hd : d.c0ClearsST = false) (m : M) (c : Nat) (h : trigger m c = false) :
    Spec.VT500.stepRuneD d m c = Spec.VT500.stepRune m c := by
  simp only [Spec.VT500.stepRune, Spec.VT500.stepRuneD, Spec.VT500.Dev.none, hd]
  simp only [trigger, Bool.and_eq_false_iff] at h
  by_cases hc : c = 0x1B
  · subst hc
    simp only [beq_self_eq_true, Bool.true_eq_false, false_or] at h
    rcases h with h1 | h1
    · simp [h1]
    · simp [h1]
  · simp only [hc, if_false]

theorem runFromD_eq (d : Spec.VT500.Dev) (hd : d.c0ClearsST = false) (m : M) (rs : List Nat) (h : Avoids m rs = true) :
    Spec.VT500.runFromD d m rs = Spec.VT500.runFrom m rs := by
  induction rs generalizing m with
  | nil => rfl
  | cons c rest ih =>
    simp only [Avoids, Bool.and_eq_true, Bool.not_eq_eq_eq_not, Bool.not_true] at h
    have h1 := stepRuneD_eq d hd m c h.1
    simp only [Spec.VT500.runFrom, Spec.VT500.runFromD, h1]
    simp only [Spec.VT500.stepRune] at ⊢
    rw [ih _ (by simpa [Spec.VT500.stepRune] using h.2)]
    rfl

end VaxisModel.Lemmas.ParserRefineRun
