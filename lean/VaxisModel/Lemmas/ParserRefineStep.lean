/-
C02: whole-stream refinement, the step lemmas: the table-wide check extended to all runes, rows
without early return as plain `flatMap`s, the simulation of one state function (`sim_runFn`).
-/
import VaxisModel.Lemmas.ParserRefineCheck
import VaxisModel.Lemmas.ParserRefineConf
import VaxisModel.Lemmas.ParserStepBasic
import VaxisModel.Lemmas.Parser

namespace VaxisModel.Lemmas.ParserRefineStep
open VaxisModel.Model.ParserTable VaxisModel.Model.Parser
open VaxisModel.Lemmas.ParserConform VaxisModel.Lemmas.ParserAbs VaxisModel.Lemmas.ParserRefine
open VaxisModel.Lemmas.Parser VaxisModel.Lemmas.ParserStepBasic
open VaxisModel.Lemmas.ParserRefineCheck VaxisModel.Lemmas.ParserRefineConf
open VaxisModel.Spec.VT500 (S A M)

theorem absAct_above (st : StateId) (c : Nat) (hc : 256 ≤ c) (a : Act) (v : Fl) (e : Option ExitFn) :
    absAct st c a v e = absAct st 256 a v e := by
  cases a <;> simp only [absAct]
  · have h1 : ¬ c ≤ 0x1F := by omega
    simp [h1]
  · have h1 : ¬ (0x30 ≤ c ∧ c ≤ 0x3B) := by omega
    simp [h1]

theorem absI_above (st : StateId) (c : Nat) (hc : 256 ≤ c) (acts : List Act) (v : Fl) (e : Option ExitFn) (g : Bool) :
    absI st c acts v e g = absI st 256 acts v e g := by
  induction acts generalizing v e g with
  | nil => rfl
  | cons a rest ih => simp only [absI, absAct_above st c hc, ih]

theorem stepCheck_above (st : StateId) (after fresh : Bool) (c : Nat) (hc : 256 ≤ c) :
    stepCheck st after fresh c = stepCheck st after fresh 256 := by
  have hb := hand_boundsOk
  simp only [boundsOk, Bool.and_eq_true, List.all_eq_true] at hb
  have h1 := StateFn.row_const_above handTable.anywhere cut c hb.1 hc
  have h2 := StateFn.row_const_above (handTable.fn st) cut c (hb.2 st (mem_allStates st)) hc
  simp only [handTable, cut] at h1 h2
  have e1 : (c = 0x1B) = False := by simp; omega
  have e2 : (c = 0x5C) = False := by simp; omega
  have e3 : ((256 : Nat) = 0x1B) = False := by simp
  have e4 : ((256 : Nat) = 0x5C) = False := by simp
  simp only [stepCheck, okTarget, ctlNext, h1, h2, absI_above st c hc, e1, e2, e3, e4]

theorem stepCheck_all (st : StateId) (after fresh : Bool) (c : Nat) : stepCheck st after fresh c = true := by
  have hb : ∀ b : Bool, b ∈ [true, false] := by intro b; cases b <;> simp
  by_cases hc : c ≤ 256
  · exact stepCheck_below st (mem_allStates st) after (hb _) fresh (hb _) c (List.mem_range.mpr (by omega))
  · rw [stepCheck_above st after fresh c (by omega)]
    exact stepCheck_below st (mem_allStates st) after (hb _) fresh (hb _) 256 (List.mem_range.mpr (by omega))

theorem absActs_noRet (st : StateId) (n : Next) (acts : List Act) (h : noRetL acts = true) :
    absActs st n acts = acts.flatMap (abs1 st) := by
  induction acts with
  | nil => rfl
  | cons a rest ih =>
    simp only [noRetL, List.all_cons, Bool.and_eq_true] at h
    have ih' := ih (by simpa [noRetL] using h.2)
    cases a <;> first | (simp at h; done) | (simp only [absActs, abs1, List.flatMap_cons, ih'])

theorem noRetL_spec (acts : List Act) (h : noRetL acts = true) : ∀ a ∈ acts, ∀ n', a ≠ .retIfIgnoreST n' := by
  intro a ha n' he
  simp only [noRetL, List.all_eq_true] at h
  have := h a ha
  subst he
  simp at this


/-- The simulation relation between the parser state and the reference machine. -/
structure R (s : PState) (m : M) : Prop where
  st : m.s = toS s.state
  ex : s.exit = implExit s.state
  ctl : s.ignoreST = gOf s.state m.afterString m.fresh
  dat : Dat (fl s.state) s m

theorem Dat_congr {v : Fl} {s s' : PState} {m : M} (h : Dat v s m) (h1 : s'.inter = s.inter)
    (h2 : s'.params = s.params) (h3 : s'.osc = s.osc) (h4 : s'.apc = s.apc) (h5 : s'.dcs = s.dcs) : Dat v s' m := by
  simp only [Dat, h1, h2, h3, h4, h5]; exact h

theorem Dat_congr_m {v : Fl} {s : PState} {m m' : M} (h : Dat v s m) (h1 : m'.inter = m.inter)
    (h2 : m'.params = m.params) (h3 : m'.osc = m.osc) (h4 : m'.apc = m.apc) (h5 : m'.dFinal = m.dFinal)
    (h6 : m'.dInter = m.dInter) (h7 : m'.dParams = m.dParams) (h8 : m'.dData = m.dData) : Dat v s m' := by
  simp only [Dat, h1, h2, h3, h4, h5, h6, h7, h8]; exact h

/-- One state function (or `anywhere`) on a rune, with no early return in the row. -/
theorem sim_runFn (K : Codec) (st : StateId) (c : Nat) (f : StateFn) (hnr : noRetL (f.row (.rune c)).1 = true)
    (s : PState) (m : M) (v : Fl) (hD : Dat v s m) (v' : Fl) (e' : Option ExitFn) (g' : Bool)
    (hI : absI st c (f.row (.rune c)).1 v s.exit s.ignoreST = some (v', e', g')) :
    Dat v' (runFn f (.rune c) s).1 (Spec.VT500.acts m c ((f.row (.rune c)).1.flatMap (abs1 st))).1 ∧
    (runFn f (.rune c) s).1.exit = e' ∧
    (runFn f (.rune c) s).1.ignoreST = (if (f.row (.rune c)).1.contains .deferClearIgnoreST then false else g') ∧
    noErr (runFn f (.rune c) s).2.1 = (Spec.VT500.acts m c ((f.row (.rune c)).1.flatMap (abs1 st))).2.map specSeq ∧
    (runFn f (.rune c) s).2.2 = (f.row (.rune c)).2 ∧ (runFn f (.rune c) s).1.state = s.state := by
  have hno := noRetL_spec _ hnr
  obtain ⟨h1, h2, h3, h4⟩ := sim_acts K st c _ hno s m v [] (f.row (.rune c)).2 hD v' e' g' hI
  have h5 := runActs_next_rune _ hno c s [] (f.row (.rune c)).2
  have h6 := runActs_state (f.row (.rune c)).1 (.rune c) s [] (f.row (.rune c)).2
  simp only [runFn]
  generalize runActs (f.row (.rune c)).1 (.rune c) s [] (f.row (.rune c)).2 = res at h1 h2 h3 h4 h5 h6
  obtain ⟨s', o, n⟩ := res
  simp only at h1 h2 h3 h4 h5 h6 ⊢
  by_cases hd : (f.row (.rune c)).1.contains .deferClearIgnoreST = true
  · simp only [hd, if_true]
    exact ⟨Dat_congr h1 rfl rfl rfl rfl rfl, h2, trivial, by simpa using h4, h5, h6⟩
  · simp only [hd, Bool.false_eq_true, if_false]
    exact ⟨h1, h2, h3, by simpa using h4, h5, h6⟩

end VaxisModel.Lemmas.ParserRefineStep
