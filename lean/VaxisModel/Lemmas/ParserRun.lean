/-
C08: lemmas about the life-cycle LTS (Model/ParserRun.lean): what `step` can emit, the EOF
discipline, the pool ownership invariant.
-/
import VaxisModel.Model.ParserRun
import VaxisModel.Lemmas.Parser
import VaxisModel.Lemmas.ParserAbs

namespace VaxisModel.Lemmas.ParserRun
open VaxisModel.Model.ParserTable VaxisModel.Model.Parser VaxisModel.Model.ParserRun
open VaxisModel.Lemmas.ParserAbs VaxisModel.Lemmas.ParserConform

/-! ### what one automaton step can emit -/

/-- Items the automaton itself never produces: the end marker and the Escape key. -/
def Special (x : Seq) : Prop := x = .eof ∨ x = .c0 0x1B

theorem runExitFn_no_special (s : PState) (f : ExitFn) : ∀ x ∈ (runExitFn s f).2, ¬ Special x := by
  cases f <;> simp [runExitFn, Special]

/-- A statement emits only: `C0 r` for the current rune, and items that are neither EOF nor C0. -/
theorem applyAct_out (a : Act) (r : Nat) (s : PState) :
    ∀ x ∈ (applyAct a r s).2, (a = .execute ∧ x = .c0 r) ∨ (x ≠ .eof ∧ ∀ c, x ≠ .c0 c) := by
  cases a
  case execute => simp only [applyAct]; split <;> simp
  case hook =>
    simp only [applyAct]
    split
    · simp
    · split <;> simp
  case runExit =>
    simp only [applyAct]
    cases h : s.exit with
    | none => simp
    | some f => cases f <;> simp [runExitFn]
  case runExitIfSet =>
    simp only [applyAct]
    cases h : s.exit with
    | none => simp
    | some f => cases f <;> simp [runExitFn]
  case runExitIfSetST =>
    simp only [applyAct]
    cases h : s.exit with
    | none => simp
    | some f => cases f <;> simp [runExitFn]
  all_goals simp [applyAct]

def OkItem (i : Inp) (x : Seq) : Prop :=
  (∃ r, i = .rune r ∧ x = .c0 r) ∨ (x ≠ .eof ∧ ∀ c, x ≠ .c0 c)

theorem runActs_out (acts : List Act) (i : Inp) (s : PState) (out : List Seq) (n : Next)
    (ho : ∀ x ∈ out, OkItem i x) : ∀ x ∈ (runActs acts i s out n).2.1, OkItem i x := by
  induction acts generalizing s out with
  | nil => simpa [runActs] using ho
  | cons a rest ih =>
    by_cases hret : ∃ n', a = .retIfIgnoreST n'
    · obtain ⟨n', rfl⟩ := hret
      simp only [runActs]
      split
      · exact ho
      · exact ih s out ho
    · have hr1 : runActs (a :: rest) i s out n =
          (match i with
           | .rune r => runActs rest i (applyAct a r s).1 (out ++ (applyAct a r s).2) n
           | .eof => if usesRune a then (s, out ++ [.panic], .stop)
                     else runActs rest i (applyAct a 0 s).1 (out ++ (applyAct a 0 s).2) n) := by
        cases a <;> first | (exfalso; exact hret ⟨_, rfl⟩) | (cases i <;> simp [runActs])
      rw [hr1]
      cases i with
      | rune r =>
        apply ih
        intro x hx
        rcases List.mem_append.mp hx with hx | hx
        · exact ho x hx
        · rcases applyAct_out a r s x hx with h | h
          · exact Or.inl ⟨r, rfl, h.2⟩
          · exact Or.inr h
      | eof =>
        simp only
        by_cases hu : usesRune a = true
        · simp only [hu, if_true]
          intro x hx
          rcases List.mem_append.mp hx with hx | hx
          · exact ho x hx
          · simp at hx; subst hx; exact Or.inr ⟨by simp, by simp⟩
        · simp only [hu, Bool.false_eq_true, if_false]
          apply ih
          intro x hx
          rcases List.mem_append.mp hx with hx | hx
          · exact ho x hx
          · rcases applyAct_out a 0 s x hx with h | h
            · rw [h.1] at hu
              exact absurd rfl hu
            · exact Or.inr h

theorem runFn_out (f : StateFn) (i : Inp) (s : PState) : ∀ x ∈ (runFn f i s).2.1, OkItem i x := by
  simp only [runFn]
  exact runActs_out _ i s [] _ (by simp)

theorem finish_out (s : PState) (out : List Seq) (n : Next) (i : Inp) (ho : ∀ x ∈ out, OkItem i x) :
    ∀ x ∈ (finish s out n).out, OkItem i x := by
  cases n <;> simp only [finish] <;> try exact ho
  intro x hx
  rcases List.mem_append.mp hx with hx | hx
  · exact ho x hx
  · simp at hx; subst hx; exact Or.inr ⟨by simp, by simp⟩

/-- Everything one automaton step emits is `C0 r` for the rune just read or is neither EOF nor a C0. -/
theorem step_out (T : Table) (s : PState) (i : Inp) : ∀ x ∈ (step T s i).out, OkItem i x := by
  unfold step
  have h1 := runFn_out T.anywhere i s
  generalize runFn T.anywhere i s = r1 at h1
  obtain ⟨s1, o1, n1⟩ := r1
  cases n1 with
  | dispatch =>
    simp only
    have h2 := runFn_out (T.fn s1.state) i s1
    generalize runFn (T.fn s1.state) i s1 = r2 at h2
    obtain ⟨s2, o2, n2⟩ := r2
    apply finish_out
    intro x hx
    rcases List.mem_append.mp hx with hx | hx
    · exact h1 x hx
    · exact h2 x hx
  | st x => exact finish_out _ _ _ _ h1
  | stop => exact finish_out _ _ _ _ h1

theorem step_no_eof (T : Table) (s : PState) (i : Inp) : Seq.eof ∉ (step T s i).out := by
  intro h
  rcases step_out T s i _ h with ⟨r, _, h'⟩ | ⟨h', _⟩
  · cases h'
  · exact h' rfl

/-- The hand model never emits the Escape key by itself (ESC is intercepted by `anywhere`, whose
    arm has no `execute`). -/
theorem pstep_no_esc_key (s : PState) (i : Inp) : Seq.c0 0x1B ∉ (pstep s i).out := by
  intro h
  cases i with
  | eof =>
    rcases step_out handTable s .eof _ h with ⟨r, h', _⟩ | ⟨_, h'⟩
    · cases h'
    · exact h' 0x1B rfl
  | rune r =>
    by_cases hr : r = 0x1B
    · subst hr
      cases he : s.exit with
      | none => rw [VaxisModel.Lemmas.Parser.pstep_esc s he] at h; simp at h
      | some f =>
        rw [VaxisModel.Lemmas.Parser.pstep_esc_exit s f he] at h
        exact runExitFn_no_special s f _ h (Or.inr rfl)
    · rcases step_out handTable s (.rune r) _ h with ⟨r', h1, h2⟩ | ⟨_, h'⟩
      · cases h1; cases h2; exact hr rfl
      · exact h' 0x1B rfl

/-! ### the life-cycle LTS -/

/-- What holds of (system state, everything emitted so far). -/
def EofInv (s : Sys) (out : List Seq) : Prop :=
  (s.pc = .done → (∃ pre, out = pre ++ [.eof] ∧ Seq.eof ∉ pre) ∧ s.chanClosed = true) ∧
  (s.pc ≠ .done → Seq.eof ∉ out ∧ s.chanClosed = false)

theorem finishing_inv (s : Sys) (ps : PState) (o acc : List Seq) (hacc : Seq.eof ∉ acc) (ho : Seq.eof ∉ o) :
    EofInv (finishing s ps o).1 (acc ++ (finishing s ps o).2) := by
  refine ⟨fun _ => ⟨⟨acc ++ o, by simp [finishing], by simp [hacc, ho]⟩, rfl⟩, fun h => absurd rfl h⟩

theorem finishing_inv' (s : Sys) (ps : PState) (o acc : List Seq) (s' : Sys) (o' : List Seq)
    (h : finishing s ps o = (s', o')) (hacc : Seq.eof ∉ acc) (ho : Seq.eof ∉ o) : EofInv s' (acc ++ o') := by
  have := finishing_inv s ps o acc hacc ho
  rw [h] at this
  exact this

theorem step_EofInv (T : Table) (c : Bool) (s : Sys) (acc : List Seq) (l : Label) (s' : Sys) (o : List Seq)
    (hinv : EofInv s acc) (hstep : Sys.step T c s l = some (s', o)) : EofInv s' (acc ++ o) := by
  have hne : ∀ r, Seq.eof ∉ (step T s.ps r).out := fun r => step_no_eof T s.ps r
  cases l with
  | closeSig =>
    simp only [Sys.step, Option.some.injEq, Prod.mk.injEq] at hstep
    obtain ⟨rfl, rfl⟩ := hstep
    simpa [EofInv] using hinv
  | enterRead =>
    simp only [Sys.step] at hstep
    split at hstep
    · rename_i hc
      simp only [Option.some.injEq, Prod.mk.injEq] at hstep
      obtain ⟨rfl, rfl⟩ := hstep
      have := hinv.2 (by rw [hc.1]; decide)
      exact ⟨fun h => by simp at h, fun _ => by simpa using this⟩
    · cases hstep
  | breakClose =>
    simp only [Sys.step] at hstep
    split at hstep
    · rename_i hc
      simp only [Option.some.injEq] at hstep
      have := hinv.2 (by rw [hc.1]; decide)
      exact finishing_inv' s _ _ acc _ _ hstep this.1 (by simp)
    · cases hstep
  | read r =>
    simp only [Sys.step] at hstep
    split at hstep
    · rename_i hc
      have := hinv.2 (by rw [hc]; decide)
      split at hstep
      · simp only [Option.some.injEq] at hstep
        exact finishing_inv' s _ _ acc _ _ hstep this.1 (hne _)
      · simp only [Option.some.injEq, Prod.mk.injEq] at hstep
        obtain ⟨rfl, rfl⟩ := hstep
        refine ⟨fun h => by simp at h, fun _ => ⟨?_, this.2⟩⟩
        simp [this.1, hne]
    · cases hstep
  | readEnd =>
    simp only [Sys.step] at hstep
    split at hstep
    · rename_i hc
      have := hinv.2 (by rw [hc]; decide)
      simp only [Option.some.injEq] at hstep
      exact finishing_inv' s _ _ acc _ _ hstep this.1 (hne _)
    · cases hstep
  | timerFire =>
    simp only [Sys.step] at hstep
    split at hstep
    · rename_i hc
      have := hinv.2 (by rw [hc.2]; decide)
      simp only [Option.some.injEq, Prod.mk.injEq] at hstep
      obtain ⟨rfl, rfl⟩ := hstep
      refine ⟨fun h => by simp [hc.2] at h, fun _ => ⟨?_, this.2⟩⟩
      simp [this.1]
    · cases hstep
  | raceFire r late =>
    simp only [Sys.step] at hstep
    split at hstep
    · rename_i hc
      have := hinv.2 (by rw [hc.2]; decide)
      have hne' : ∀ ps r, Seq.eof ∉ (step T ps r).out := fun ps r => step_no_eof T ps r
      split at hstep
      · split at hstep
        · simp only [Option.some.injEq] at hstep
          exact finishing_inv' s _ _ acc _ _ hstep this.1 (by simp [hne'])
        · simp only [Option.some.injEq, Prod.mk.injEq] at hstep
          obtain ⟨rfl, rfl⟩ := hstep
          refine ⟨fun h => by simp at h, fun _ => ⟨?_, this.2⟩⟩
          simp [this.1, hne']
      · split at hstep
        · simp only [Option.some.injEq] at hstep
          exact finishing_inv' s _ _ acc _ _ hstep this.1 (by simp [hne'])
        · simp only [Option.some.injEq, Prod.mk.injEq] at hstep
          obtain ⟨rfl, rfl⟩ := hstep
          refine ⟨fun h => by simp at h, fun _ => ⟨?_, this.2⟩⟩
          simp [this.1, hne']
    · cases hstep

theorem run_EofInv (T : Table) (c : Bool) (ls : List Label) (s : Sys) (acc : List Seq) (s' : Sys) (o : List Seq)
    (hinv : EofInv s acc) (hrun : Sys.run T c s ls = some (s', o)) : EofInv s' (acc ++ o) := by
  induction ls generalizing s acc o with
  | nil =>
    simp only [Sys.run, Option.some.injEq, Prod.mk.injEq] at hrun
    obtain ⟨rfl, rfl⟩ := hrun
    simpa using hinv
  | cons l ls ih =>
    simp only [Sys.run] at hrun
    cases h1 : Sys.step T c s l with
    | none => simp [h1] at hrun
    | some r1 =>
      obtain ⟨s1, o1⟩ := r1
      simp only [h1] at hrun
      cases h2 : Sys.run T c s1 ls with
      | none => simp [h2] at hrun
      | some r2 =>
        obtain ⟨s2, o2⟩ := r2
        simp only [h2, Option.some.injEq, Prod.mk.injEq] at hrun
        obtain ⟨rfl, rfl⟩ := hrun
        have := ih s1 (acc ++ o1) o2 (step_EofInv T c s acc l s1 o1 hinv h1) h2
        simpa [List.append_assoc] using this

/-! ### pools -/

def OwnInv (o : Own) : Prop :=
  (∀ b, o.cur = some b → b ∉ o.held ∧ b ∉ o.pool ∧ b < o.next) ∧
  (∀ b ∈ o.pool, b ∉ o.held ∧ b < o.next) ∧ (∀ b ∈ o.held, b < o.next) ∧
  o.pool.Nodup ∧ o.held.Nodup

theorem OwnInv_init : OwnInv {} := by
  simp [OwnInv]

end VaxisModel.Lemmas.ParserRun
