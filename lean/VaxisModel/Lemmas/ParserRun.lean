/-
C08: lemmas about the life-cycle LTS (Model/ParserRun.lean): what `step` can emit, the EOF
discipline, the pool ownership invariant.
-/
import VaxisModel.Model.ParserRun
import VaxisModel.Lemmas.Parser
import VaxisModel.Lemmas.ParserAbs

namespace VaxisModel.Lemmas.ParserRun
open VaxisModel.Model.ParserTable VaxisModel.Model.Parser VaxisModel.Model.ParserRun
open VaxisModel.Lemmas.ParserAbs VaxisModel.Lemmas.ParserConform

/-! ### what one automaton step can emit -/

/-- Items the automaton itself never produces: the end marker and the Escape key. -/
def Special (x : Seq) : Prop := x = .eof ∨ x = .c0 0x1B

theorem runExitFn_no_special (s : PState) (f : ExitFn) : ∀ x ∈ (runExitFn s f).2, ¬ Special x := by
  cases f <;> simp [runExitFn, Special]

/-- A statement emits only: `C0 r` for the current rune, and items that are neither EOF nor C0. -/
theorem applyAct_out (a : Act) (r : Nat) (s : PState) :
    ∀ x ∈ (applyAct a r s).2, (a = .execute ∧ x = .c0 r) ∨ (x ≠ .eof ∧ ∀ c, x ≠ .c0 c) := by
  cases a
  case execute => simp only [applyAct]; split <;> simp
  case hook =>
    simp only [applyAct]
    split
    · simp
    · split <;> simp
  case runExit =>
    simp only [applyAct]
    cases h : s.exit with
    | none => simp
    | some f => cases f <;> simp [runExitFn]
  case runExitIfSet =>
    simp only [applyAct]
    cases h : s.exit with
    | none => simp
    | some f => cases f <;> simp [runExitFn]
  case runExitIfSetST =>
    simp only [applyAct]
    cases h : s.exit with
    | none => simp
    | some f => cases f <;> simp [runExitFn]
  all_goals simp [applyAct]

def OkItem (i : Inp) (x : Seq) : Prop :=
  (∃ r, i = .rune r ∧ x = .c0 r) ∨ (x ≠ .eof ∧ ∀ c, x ≠ .c0 c)

theorem runActs_out (acts : List Act) (i : Inp) (s : PState) (out : List Seq) (n : Next)
    (ho : ∀ x ∈ out, OkItem i x) : ∀ x ∈ (runActs acts i s out n).2.1, OkItem i x := by
  induction acts generalizing s out with
  | nil => simpa [runActs] using ho
  | cons a rest ih =>
    by_cases hret : ∃ n', a = .retIfIgnoreST n'
    · obtain ⟨n', rfl⟩ := hret
      simp only [runActs]
      split
      · exact ho
      · exact ih s out ho
    · have hr1 : runActs (a :: rest) i s out n =
          (match i with
           | .rune r => runActs rest i (applyAct a r s).1 (out ++ (applyAct a r s).2) n
           | .eof => if usesRune a then (s, out ++ [.panic], .stop)
                     else runActs rest i (applyAct a 0 s).1 (out ++ (applyAct a 0 s).2) n) := by
        cases a <;> first | (exfalso; exact hret ⟨_, rfl⟩) | (cases i <;> simp [runActs])
      rw [hr1]
      cases i with
      | rune r =>
        apply ih
        intro x hx
        rcases List.mem_append.mp hx with hx | hx
        · exact ho x hx
        · rcases applyAct_out a r s x hx with h | h
          · exact Or.inl ⟨r, rfl, h.2⟩
          · exact Or.inr h
      | eof =>
        simp only
        by_cases hu : usesRune a = true
        · simp only [hu, if_true]
          intro x hx
          rcases List.mem_append.mp hx with hx | hx
          · exact ho x hx
          · simp at hx; subst hx; exact Or.inr ⟨by simp, by simp⟩
        · simp only [hu, Bool.false_eq_true, if_false]
          apply ih
          intro x hx
          rcases List.mem_append.mp hx with hx | hx
          · exact ho x hx
          · rcases applyAct_out a 0 s x hx with h | h
            · rw [h.1] at hu
              exact absurd rfl hu
            · exact Or.inr h

theorem runFn_out (f : StateFn) (i : Inp) (s : PState) : ∀ x ∈ (runFn f i s).2.1, OkItem i x := by
  simp only [runFn]
  exact runActs_out _ i s [] _ (by simp)

theorem finish_out (s : PState) (out : List Seq) (n : Next) (i : Inp) (ho : ∀ x ∈ out, OkItem i x) :
    ∀ x ∈ (finish s out n).out, OkItem i x := by
  cases n <;> simp only [finish] <;> try exact ho
  intro x hx
  rcases List.mem_append.mp hx with hx | hx
  · exact ho x hx
  · simp at hx; subst hx; exact Or.inr ⟨by simp, by simp⟩

/-- Everything one automaton step emits is `C0 r` for the rune just read or is neither EOF nor a C0. -/
theorem step_out (T : Table) (s : PState) (i : Inp) : ∀ x ∈ (step T s i).out, OkItem i x := by
  unfold step
  have h1 := runFn_out T.anywhere i s
  generalize runFn T.anywhere i s = r1 at h1
  obtain ⟨s1, o1, n1⟩ := r1
  cases n1 with
  | dispatch =>
    simp only
    have h2 := runFn_out (T.fn s1.state) i s1
    generalize runFn (T.fn s1.state) i s1 = r2 at h2
    obtain ⟨s2, o2, n2⟩ := r2
    apply finish_out
    intro x hx
    rcases List.mem_append.mp hx with hx | hx
    · exact h1 x hx
    · exact h2 x hx
  | st x => exact finish_out _ _ _ _ h1
  | stop => exact finish_out _ _ _ _ h1

theorem step_no_eof (T : Table) (s : PState) (i : Inp) : Seq.eof ∉ (step T s i).out := by
  intro h
  rcases step_out T s i _ h with ⟨r, _, h'⟩ | ⟨h', _⟩
  · cases h'
  · exact h' rfl

/-- The hand model never emits the Escape key by itself (ESC is intercepted by `anywhere`, whose
    arm has no `execute`). -/
theorem pstep_no_esc_key (s : PState) (i : Inp) : Seq.c0 0x1B ∉ (pstep s i).out := by
  intro h
  cases i with
  | eof =>
    rcases step_out handTable s .eof _ h with ⟨r, h', _⟩ | ⟨_, h'⟩
    · cases h'
    · exact h' 0x1B rfl
  | rune r =>
    by_cases hr : r = 0x1B
    · subst hr
      cases he : s.exit with
      | none => rw [VaxisModel.Lemmas.Parser.pstep_esc s he] at h; simp at h
      | some f =>
        rw [VaxisModel.Lemmas.Parser.pstep_esc_exit s f he] at h
        exact runExitFn_no_special s f _ h (Or.inr rfl)
    · rcases step_out handTable s (.rune r) _ h with ⟨r', h1, h2⟩ | ⟨_, h'⟩
      · cases h1; cases h2; exact hr rfl
      · exact h' 0x1B rfl

/-! ### the life-cycle LTS -/

/-- What holds of (system state, everything emitted so far). -/
def EofInv (s : Sys) (out : List Seq) : Prop :=
  (s.pc = .done → (∃ pre, out = pre ++ [.eof] ∧ Seq.eof ∉ pre) ∧ s.chanClosed = true ∧
      s.armed = false ∧ s.fresh = false) ∧
  (s.pc ≠ .done → Seq.eof ∉ out ∧ s.chanClosed = false)

theorem finishing_inv (s : Sys) (ps : PState) (o acc : List Seq) (hacc : Seq.eof ∉ acc) (ho : Seq.eof ∉ o) :
    EofInv (finishing s ps o).1 (acc ++ (finishing s ps o).2) := by
  refine ⟨fun _ => ⟨⟨acc ++ o, by simp [finishing], by simp [hacc, ho]⟩, rfl, rfl, rfl⟩, fun h => absurd rfl h⟩

theorem finishing_inv' (s : Sys) (ps : PState) (o acc : List Seq) (s' : Sys) (o' : List Seq)
    (h : finishing s ps o = (s', o')) (hacc : Seq.eof ∉ acc) (ho : Seq.eof ∉ o) : EofInv s' (acc ++ o') := by
  have := finishing_inv s ps o acc hacc ho
  rw [h] at this
  exact this

theorem step_EofInv (T : Table) (c : Cfg) (hg : c.guarded = true) (s : Sys) (acc : List Seq) (l : Label)
    (s' : Sys) (o : List Seq) (hinv : EofInv s acc) (hstep : Sys.step T c s l = some (s', o)) :
    EofInv s' (acc ++ o) := by
  have hne : ∀ r, Seq.eof ∉ (VaxisModel.Model.Parser.step T s.ps r).out := fun r => step_no_eof T s.ps r
  cases l with
  | closeSig =>
    simp only [Sys.step, Option.some.injEq, Prod.mk.injEq] at hstep
    obtain ⟨rfl, rfl⟩ := hstep
    simpa [EofInv] using hinv
  | enterRead =>
    simp only [Sys.step] at hstep
    split at hstep
    · rename_i hc
      simp only [Option.some.injEq, Prod.mk.injEq] at hstep
      obtain ⟨rfl, rfl⟩ := hstep
      have := hinv.2 (by rw [hc.1]; decide)
      exact ⟨fun h => by simp at h, fun _ => by simpa using this⟩
    · cases hstep
  | breakClose =>
    simp only [Sys.step] at hstep
    split at hstep
    · rename_i hc
      simp only [Option.some.injEq] at hstep
      have := hinv.2 (by rw [hc.1]; decide)
      exact finishing_inv' s _ _ acc _ _ hstep this.1 (by simp)
    · cases hstep
  | read r =>
    simp only [Sys.step] at hstep
    split at hstep
    · rename_i hc
      have := hinv.2 (by rw [hc]; decide)
      split at hstep
      · simp only [Option.some.injEq] at hstep
        exact finishing_inv' s _ _ acc _ _ hstep this.1 (hne _)
      · simp only [Option.some.injEq, Prod.mk.injEq] at hstep
        obtain ⟨rfl, rfl⟩ := hstep
        refine ⟨fun h => by simp at h, fun _ => ⟨?_, this.2⟩⟩
        simp [this.1, hne]
    · cases hstep
  | readEnd =>
    simp only [Sys.step] at hstep
    split at hstep
    · rename_i hc
      have := hinv.2 (by rw [hc]; decide)
      simp only [Option.some.injEq] at hstep
      exact finishing_inv' s _ _ acc _ _ hstep this.1 (hne _)
    · cases hstep
  | timerFire =>
    simp only [Sys.step] at hstep
    split at hstep
    · rename_i hc
      have := hinv.2 (by rw [hc.2]; decide)
      simp only [Option.some.injEq, Prod.mk.injEq] at hstep
      obtain ⟨rfl, rfl⟩ := hstep
      refine ⟨fun h => by simp [hc.2] at h, fun _ => ⟨?_, this.2⟩⟩
      simp [this.1]
    · cases hstep
  | timerExpire =>
    simp only [Sys.step] at hstep
    split at hstep
    · rename_i hc
      simp only [Option.some.injEq, Prod.mk.injEq] at hstep
      obtain ⟨rfl, rfl⟩ := hstep
      have hnd : s.pc ≠ .done := fun h => by have := (hinv.1 h).2.2.1; rw [hc] at this; cases this
      have := hinv.2 hnd
      exact ⟨fun h => absurd h hnd, fun _ => by simpa using this⟩
    · cases hstep
  | cbRun fresh =>
    cases fresh with
    | true =>
      simp only [Sys.step] at hstep
      split at hstep
      · rename_i hc
        simp only [Option.some.injEq, Prod.mk.injEq] at hstep
        obtain ⟨rfl, rfl⟩ := hstep
        have hnd : s.pc ≠ .done := fun h => by have := (hinv.1 h).2.2.2; rw [hc] at this; cases this
        have := hinv.2 hnd
        refine ⟨fun h => absurd h hnd, fun _ => ⟨?_, this.2⟩⟩
        simp only [hg, Bool.not_true, Bool.and_false, Bool.false_eq_true, if_false, List.mem_append,
          List.mem_singleton, this.1, false_or]
        intro h; cases h
      · cases hstep
    | false =>
      simp only [Sys.step, hg, if_true] at hstep
      split at hstep
      · simp only [Option.some.injEq, Prod.mk.injEq] at hstep
        obtain ⟨rfl, rfl⟩ := hstep
        simpa [EofInv] using hinv
      · cases hstep

theorem run_EofInv (T : Table) (c : Cfg) (hg : c.guarded = true) (ls : List Label) (s : Sys) (acc : List Seq)
    (s' : Sys) (o : List Seq) (hinv : EofInv s acc) (hrun : Sys.run T c s ls = some (s', o)) :
    EofInv s' (acc ++ o) := by
  induction ls generalizing s acc o with
  | nil =>
    simp only [Sys.run, Option.some.injEq, Prod.mk.injEq] at hrun
    obtain ⟨rfl, rfl⟩ := hrun
    simpa using hinv
  | cons l ls ih =>
    simp only [Sys.run] at hrun
    cases h1 : Sys.step T c s l with
    | none => simp [h1] at hrun
    | some r1 =>
      obtain ⟨s1, o1⟩ := r1
      simp only [h1] at hrun
      cases h2 : Sys.run T c s1 ls with
      | none => simp [h2] at hrun
      | some r2 =>
        obtain ⟨s2, o2⟩ := r2
        simp only [h2, Option.some.injEq, Prod.mk.injEq] at hrun
        obtain ⟨rfl, rfl⟩ := hrun
        have := ih s1 (acc ++ o1) o2 (step_EofInv T c hg s acc l s1 o1 hinv h1) h2
        simpa [List.append_assoc] using this

/-! ### pools -/

def OwnInv (o : Own) : Prop :=
  (∀ b, o.cur = some b → b ∉ o.held ∧ b ∉ o.pool ∧ b < o.next) ∧
  (∀ b ∈ o.pool, b ∉ o.held ∧ b < o.next) ∧ (∀ b ∈ o.held, b < o.next) ∧
  o.pool.Nodup ∧ o.held.Nodup

theorem OwnInv_init : OwnInv {} := by
  simp [OwnInv]

/-! ### the system invariant; Escape-key accounting -/

open VaxisModel.Lemmas.Parser in
/-- Only ESC starts the timer. -/
theorem startsTimer_hand (r : Nat) : startsTimer handTable r = decide (r = 0x1B) := by
  have := row_forall handAnywhere
    (fun row => True) (by decide) (fun _ _ => trivial) r
  clear this
  by_cases hr : r = 0x1B
  · subst hr; decide
  · have h1 : decide (r = 0x1B) = false := by simp [hr]
    rw [h1]
    by_cases h18 : r = 0x18
    · subst h18; decide
    · by_cases h1a : r = 0x1A
      · subst h1a; decide
      · simp [startsTimer, handTable, anywhere_plain r h18 h1a hr]

/-- While the loop runs: the automaton invariant holds; the timer is only pending, and a started
    callback is only up to date, in the `escape` state reached by its ESC; not both at once. -/
def SInv (s : Sys) : Prop :=
  s.pc ≠ .done → (invB (α s.ps) = true ∧ ((s.armed = true ∨ s.fresh = true) → s.ps.state = .escape) ∧
    (s.armed = true → s.fresh = false))

theorem SInv_init : SInv Sys.init := by
  intro _; exact ⟨by decide, by simp [Sys.init], by simp [Sys.init]⟩

theorem pstep_esc_state (ps : PState) : (pstep ps (.rune 0x1B)).st.state = .escape := by
  cases he : ps.exit with
  | none => rw [VaxisModel.Lemmas.Parser.pstep_esc ps he]
  | some f => rw [VaxisModel.Lemmas.Parser.pstep_esc_exit ps f he]

theorem timerReset_inv (ps : PState) (hi : invB (α ps) = true) (hesc : ps.state = .escape) :
    invB (α (timerReset true ps)) = true := by
  have hex := ((invB_spec _).mp hi).1
  simp only [α, hesc] at hex
  simp only [timerReset, α, invB, if_true]
  rw [hex]
  decide

/-- Every step — including the delayed-callback interleavings — preserves the invariant and emits
    no panic item (the callback as it is now: `Cfg.fixed`). -/
theorem step_SInv (s : Sys) (l : Label) (s' : Sys) (o : List Seq)
    (hinv : SInv s) (hstep : Sys.step handTable Cfg.fixed s l = some (s', o)) :
    SInv s' ∧ Seq.panic ∉ o := by
  cases l with
  | closeSig =>
    simp only [Sys.step, Option.some.injEq, Prod.mk.injEq] at hstep
    obtain ⟨rfl, rfl⟩ := hstep
    exact ⟨hinv, by simp⟩
  | enterRead =>
    simp only [Sys.step] at hstep
    split at hstep
    · rename_i hc
      simp only [Option.some.injEq, Prod.mk.injEq] at hstep
      obtain ⟨rfl, rfl⟩ := hstep
      exact ⟨fun _ => hinv (by rw [hc.1]; decide), by simp⟩
    · cases hstep
  | breakClose =>
    simp only [Sys.step] at hstep
    split at hstep
    · simp only [Option.some.injEq, finishing, Prod.mk.injEq] at hstep
      obtain ⟨rfl, rfl⟩ := hstep
      exact ⟨fun h => absurd rfl h, by simp⟩
    · cases hstep
  | read r =>
    simp only [Sys.step] at hstep
    split at hstep
    · rename_i hc
      have hi := hinv (by rw [hc]; decide)
      have hs := hand_inv_step s.ps hi.1 (.rune r)
      have hstop : (VaxisModel.Model.Parser.step handTable s.ps (.rune r)).stop = false := by
        have := hs.2.2; simpa [pstep, isEof] using this
      simp only [hstop, Bool.false_eq_true, if_false, Option.some.injEq, Prod.mk.injEq] at hstep
      obtain ⟨rfl, rfl⟩ := hstep
      refine ⟨fun _ => ⟨hs.1 rfl, fun ha => ?_, fun _ => rfl⟩, hs.2.1⟩
      simp only [Sys.outdate, Bool.false_eq_true, or_false, startsTimer_hand, decide_eq_true_eq] at ha
      subst ha
      exact pstep_esc_state s.ps
    · cases hstep
  | readEnd =>
    simp only [Sys.step] at hstep
    split at hstep
    · rename_i hc
      have hi := hinv (by rw [hc]; decide)
      have hs := hand_inv_step s.ps hi.1 .eof
      simp only [Option.some.injEq, finishing, Prod.mk.injEq] at hstep
      obtain ⟨rfl, rfl⟩ := hstep
      refine ⟨fun h => absurd rfl h, ?_⟩
      have := hs.2.1
      simp only [pstep] at this
      simp [this]
    · cases hstep
  | timerFire =>
    simp only [Sys.step] at hstep
    split at hstep
    · rename_i hc
      have hi := hinv (by rw [hc.2]; decide)
      simp only [Option.some.injEq, Prod.mk.injEq] at hstep
      obtain ⟨rfl, rfl⟩ := hstep
      have hf := hi.2.2 hc.1
      refine ⟨fun _ => ⟨timerReset_inv s.ps hi.1 (hi.2.1 (Or.inl hc.1)), ?_, by simp⟩, by simp⟩
      simp [hf]
    · cases hstep
  | timerExpire =>
    simp only [Sys.step] at hstep
    split at hstep
    · rename_i hc
      simp only [Option.some.injEq, Prod.mk.injEq] at hstep
      obtain ⟨rfl, rfl⟩ := hstep
      refine ⟨fun hnd => ?_, by simp⟩
      have hi := hinv hnd
      exact ⟨hi.1, fun _ => hi.2.1 (Or.inl hc), by simp⟩
    · cases hstep
  | cbRun fresh =>
    cases fresh with
    | true =>
      simp only [Sys.step] at hstep
      split at hstep
      · rename_i hc
        simp only [Option.some.injEq, Prod.mk.injEq] at hstep
        obtain ⟨rfl, rfl⟩ := hstep
        refine ⟨fun hnd => ?_, by simp [Cfg.fixed]⟩
        have hi := hinv hnd
        have ha : s.armed = false := by
          cases h : s.armed with
          | false => rfl
          | true => have := hi.2.2 h; rw [hc] at this; cases this
        exact ⟨timerReset_inv s.ps hi.1 (hi.2.1 (Or.inr hc)), by simp [ha], by simp⟩
      · cases hstep
    | false =>
      simp only [Sys.step, Cfg.fixed, if_true] at hstep
      split at hstep
      · simp only [Option.some.injEq, Prod.mk.injEq] at hstep
        obtain ⟨rfl, rfl⟩ := hstep
        exact ⟨hinv, by simp⟩
      · cases hstep

theorem run_SInv (ls : List Label) (s : Sys) (s' : Sys) (o : List Seq)
    (hinv : SInv s) (hrun : Sys.run handTable Cfg.fixed s ls = some (s', o)) : SInv s' ∧ Seq.panic ∉ o := by
  induction ls generalizing s o with
  | nil =>
    simp only [Sys.run, Option.some.injEq, Prod.mk.injEq] at hrun
    obtain ⟨rfl, rfl⟩ := hrun
    exact ⟨hinv, by simp⟩
  | cons l ls ih =>
    simp only [Sys.run] at hrun
    cases h1 : Sys.step handTable Cfg.fixed s l with
    | none => simp [h1] at hrun
    | some r1 =>
      obtain ⟨s1, o1⟩ := r1
      simp only [h1] at hrun
      cases h2 : Sys.run handTable Cfg.fixed s1 ls with
      | none => simp [h2] at hrun
      | some r2 =>
        obtain ⟨s2, o2⟩ := r2
        simp only [h2, Option.some.injEq, Prod.mk.injEq] at hrun
        obtain ⟨rfl, rfl⟩ := hrun
        obtain ⟨g1, g2⟩ := step_SInv s l s1 o1 hinv h1
        obtain ⟨g3, g4⟩ := ih s1 o2 g1 h2
        exact ⟨g3, by simp [g2, g4]⟩

/-- A label that delivers the Escape key: the timer firing, or its (up-to-date) callback running. -/
def Label.isEscKey : Label → Bool
  | .timerFire | .cbRun true => true
  | _ => false

/-- One step emits the Escape key iff it is the timer firing / its up-to-date callback (then once). -/
theorem step_esc_count (s : Sys) (l : Label) (s' : Sys) (o : List Seq)
    (hstep : Sys.step handTable Cfg.fixed s l = some (s', o)) :
    o.count (.c0 0x1B) = if Label.isEscKey l then 1 else 0 := by
  have hne : ∀ i, (VaxisModel.Model.Parser.step handTable s.ps i).out.count (.c0 0x1B) = 0 := fun i =>
    List.count_eq_zero.mpr (pstep_no_esc_key s.ps i)
  cases l with
  | closeSig =>
    simp only [Sys.step, Option.some.injEq, Prod.mk.injEq] at hstep
    obtain ⟨_, rfl⟩ := hstep; simp [Label.isEscKey]
  | enterRead =>
    simp only [Sys.step] at hstep
    split at hstep
    · simp only [Option.some.injEq, Prod.mk.injEq] at hstep
      obtain ⟨_, rfl⟩ := hstep; simp [Label.isEscKey]
    · cases hstep
  | breakClose =>
    simp only [Sys.step] at hstep
    split at hstep
    · simp only [Option.some.injEq, finishing, Prod.mk.injEq] at hstep
      obtain ⟨_, rfl⟩ := hstep; simp [Label.isEscKey]
    · cases hstep
  | read r =>
    simp only [Sys.step] at hstep
    split at hstep
    · split at hstep
      · simp only [Option.some.injEq, finishing, Prod.mk.injEq] at hstep
        obtain ⟨_, rfl⟩ := hstep
        simp [List.count_append, hne, Label.isEscKey]
      · simp only [Option.some.injEq, Prod.mk.injEq] at hstep
        obtain ⟨_, rfl⟩ := hstep
        simp [hne, Label.isEscKey]
    · cases hstep
  | readEnd =>
    simp only [Sys.step] at hstep
    split at hstep
    · simp only [Option.some.injEq, finishing, Prod.mk.injEq] at hstep
      obtain ⟨_, rfl⟩ := hstep
      simp [List.count_append, hne, Label.isEscKey]
    · cases hstep
  | timerFire =>
    simp only [Sys.step] at hstep
    split at hstep
    · simp only [Option.some.injEq, Prod.mk.injEq] at hstep
      obtain ⟨_, rfl⟩ := hstep; simp [Label.isEscKey]
    · cases hstep
  | timerExpire =>
    simp only [Sys.step] at hstep
    split at hstep
    · simp only [Option.some.injEq, Prod.mk.injEq] at hstep
      obtain ⟨_, rfl⟩ := hstep; simp [Label.isEscKey]
    · cases hstep
  | cbRun fresh =>
    cases fresh with
    | true =>
      simp only [Sys.step] at hstep
      split at hstep
      · simp only [Option.some.injEq, Prod.mk.injEq] at hstep
        obtain ⟨_, rfl⟩ := hstep; simp [Label.isEscKey, Cfg.fixed]
      · cases hstep
    | false =>
      simp only [Sys.step, Cfg.fixed, if_true] at hstep
      split at hstep
      · simp only [Option.some.injEq, Prod.mk.injEq] at hstep
        obtain ⟨_, rfl⟩ := hstep; simp [Label.isEscKey]
      · cases hstep

theorem run_esc_count (ls : List Label) (s s' : Sys) (o : List Seq)
    (hrun : Sys.run handTable Cfg.fixed s ls = some (s', o)) :
    o.count (.c0 0x1B) = (ls.filter Label.isEscKey).length := by
  induction ls generalizing s o with
  | nil =>
    simp only [Sys.run, Option.some.injEq, Prod.mk.injEq] at hrun
    obtain ⟨_, rfl⟩ := hrun; simp
  | cons l ls ih =>
    simp only [Sys.run] at hrun
    cases h1 : Sys.step handTable Cfg.fixed s l with
    | none => simp [h1] at hrun
    | some r1 =>
      obtain ⟨s1, o1⟩ := r1
      simp only [h1] at hrun
      cases h2 : Sys.run handTable Cfg.fixed s1 ls with
      | none => simp [h2] at hrun
      | some r2 =>
        obtain ⟨s2, o2⟩ := r2
        simp only [h2, Option.some.injEq, Prod.mk.injEq] at hrun
        obtain ⟨rfl, rfl⟩ := hrun
        rw [List.count_append, step_esc_count s l s1 o1 h1, ih s1 o2 h2, List.filter_cons]
        by_cases h : Label.isEscKey l = true <;> simp [h, Nat.add_comm]

/-! ### pools: the ownership invariant is preserved, writes never hit a delivered array -/

theorem own_step_inv (o : Own) (l : OwnLabel) (o' : Own) (w : Option Nat) (hinv : OwnInv o)
    (hstep : Own.step o l = some (o', w)) : OwnInv o' ∧ (∀ b, w = some b → b ∉ o'.held) := by
  obtain ⟨h1, h2, h3, h4, h5⟩ := hinv
  cases l with
  | collect realloc =>
    simp only [Own.step] at hstep
    split at hstep
    · rename_i b hcur
      simp only [Option.some.injEq, Prod.mk.injEq] at hstep
      obtain ⟨rfl, rfl⟩ := hstep
      exact ⟨⟨h1, h2, h3, h4, h5⟩, fun b' hb' => by cases hb'; exact (h1 b hcur).1⟩
    · simp only [Option.some.injEq, Prod.mk.injEq] at hstep
      obtain ⟨rfl, rfl⟩ := hstep
      have hfresh1 : o.next ∉ o.held := fun h => Nat.lt_irrefl _ (h3 _ h)
      have hfresh2 : o.next ∉ o.pool := fun h => Nat.lt_irrefl _ (h2 _ h).2
      refine ⟨⟨?_, ?_, ?_, h4, h5⟩, fun b' hb' => by cases hb'; exact hfresh1⟩
      · intro b hb; cases hb; exact ⟨hfresh1, hfresh2, Nat.lt_succ_self _⟩
      · intro b hb; exact ⟨(h2 b hb).1, Nat.lt_succ_of_lt (h2 b hb).2⟩
      · intro b hb; exact Nat.lt_succ_of_lt (h3 b hb)
  | clear =>
    simp only [Own.step, Option.some.injEq, Prod.mk.injEq] at hstep
    obtain ⟨rfl, rfl⟩ := hstep
    exact ⟨⟨h1, h2, h3, h4, h5⟩, fun b hb => by cases hb⟩
  | dispatch g =>
    simp only [Own.step] at hstep
    split at hstep
    · cases hstep
    · rename_i b hcur
      have hb := h1 b hcur
      split at hstep
      · rename_i g
        split at hstep
        · rename_i hgm
          simp only [Option.some.injEq, Prod.mk.injEq] at hstep
          obtain ⟨rfl, rfl⟩ := hstep
          have hgp := h2 g hgm
          have hne : g ≠ b := fun h => hb.2.1 (h ▸ hgm)
          have hsub : ∀ x ∈ o.pool.erase g, x ∈ o.pool := fun x hx => List.mem_of_mem_erase hx
          have hgnot : g ∉ o.pool.erase g := fun h => ((List.Nodup.mem_erase_iff h4).mp h).1 rfl
          refine ⟨⟨?_, ?_, ?_, ?_, ?_⟩, fun _ h => by cases h⟩
          · intro x hx; cases hx
            exact ⟨by simp [hne, hgp.1], hgnot, hgp.2⟩
          · intro x hx
            have hxm := hsub x hx
            refine ⟨?_, (h2 x hxm).2⟩
            simp only [List.mem_cons, not_or]
            exact ⟨fun h => hb.2.1 (h ▸ hxm), (h2 x hxm).1⟩
          · intro x hx
            simp only [List.mem_cons] at hx
            rcases hx with rfl | hx
            · exact hb.2.2
            · exact h3 x hx
          · exact List.Nodup.erase g h4
          · exact List.nodup_cons.mpr ⟨hb.1, h5⟩
        · cases hstep
      · simp only [Option.some.injEq, Prod.mk.injEq] at hstep
        obtain ⟨rfl, rfl⟩ := hstep
        have hfresh1 : o.next ∉ o.held := fun h => Nat.lt_irrefl _ (h3 _ h)
        have hfresh2 : o.next ∉ o.pool := fun h => Nat.lt_irrefl _ (h2 _ h).2
        refine ⟨⟨?_, ?_, ?_, h4, ?_⟩, fun _ h => by cases h⟩
        · intro x hx; cases hx
          refine ⟨?_, hfresh2, Nat.lt_succ_self _⟩
          simp only [List.mem_cons, not_or]
          exact ⟨fun h => Nat.lt_irrefl _ (h ▸ hb.2.2), hfresh1⟩
        · intro x hx
          refine ⟨?_, Nat.lt_succ_of_lt (h2 x hx).2⟩
          simp only [List.mem_cons, not_or]
          exact ⟨fun h => hb.2.1 (h ▸ hx), (h2 x hx).1⟩
        · intro x hx
          simp only [List.mem_cons] at hx
          rcases hx with rfl | hx
          · exact Nat.lt_succ_of_lt hb.2.2
          · exact Nat.lt_succ_of_lt (h3 x hx)
        · exact List.nodup_cons.mpr ⟨hb.1, h5⟩
  | finish b =>
    simp only [Own.step] at hstep
    split at hstep
    · rename_i hbh
      simp only [Option.some.injEq, Prod.mk.injEq] at hstep
      obtain ⟨rfl, rfl⟩ := hstep
      have hsub : ∀ x ∈ o.held.erase b, x ∈ o.held := fun x hx => List.mem_of_mem_erase hx
      have hbnot : b ∉ o.held.erase b := fun h => (List.Nodup.mem_erase_iff h5).mp h |>.1 rfl
      refine ⟨⟨?_, ?_, ?_, ?_, ?_⟩, fun _ h => by cases h⟩
      · intro x hx
        have := h1 x hx
        refine ⟨fun h => this.1 (hsub x h), ?_, this.2.2⟩
        simp only [List.mem_cons, not_or]
        exact ⟨fun h => this.1 (h ▸ hbh), this.2.1⟩
      · intro x hx
        simp only [List.mem_cons] at hx
        rcases hx with rfl | hx
        · exact ⟨hbnot, h3 x hbh⟩
        · exact ⟨fun h => (h2 x hx).1 (hsub x h), (h2 x hx).2⟩
      · intro x hx; exact h3 x (hsub x hx)
      · exact List.nodup_cons.mpr ⟨fun h => (h2 b h).1 hbh, h4⟩
      · exact List.Nodup.erase b h5
    · cases hstep

theorem run_OwnInv (ls : List OwnLabel) (o o' : Own) (hinv : OwnInv o) (h : Own.run o ls = some o') :
    OwnInv o' := by
  induction ls generalizing o with
  | nil => simp only [Own.run, Option.some.injEq] at h; rw [← h]; exact hinv
  | cons l ls ih =>
    simp only [Own.run] at h
    cases hs : Own.step o l with
    | none => simp [hs] at h
    | some r =>
      obtain ⟨o1, w1⟩ := r
      simp only [hs] at h
      exact ih o1 (own_step_inv o l o1 w1 hinv hs).1 h

end VaxisModel.Lemmas.ParserRun
